(* The sweep of Rearrange over a laminar family of intervals, abstractly.

   An item is an interval [i_s, i_e) with the location record pushed by its Start
   point; i_e = 2^128 means that it never ends (no End point).  The hypotheses on
   the family (Section Sweep) are what the geometry of blocks gives: intervals are
   nested or disjoint, the mask length grows strictly with strict containment
   when two items share a start or an end, weakly in general, and an interval
   determines its item.  Under them every sorted permutation L of the points is
   swept without panic and the location given to a point is that of the innermost
   item open right after it (sweep_correct); squash and the predecessor search then
   return the innermost eligible item (sweep_locate). *)
From DnsV Require Import Base.Bytes Base.Ip Model.Rearranger Model.Location Proofs.Squash.
From Coq Require Import Lia ZifyN ZifyBool Permutation Sorted.
Open Scope N_scope.

(* ---------------------------------------------------------------- the comparator *)

Definition pmask (p : point) : N := rl_mask (p_loc p).

Lemma pless_irrefl : forall p, pless p p = false.
Proof. intro p. unfold pless. rewrite N.ltb_irrefl. destruct (p_kind p); apply N.ltb_irrefl. Qed.

Lemma pless_ip_lt : forall a b, p_ip a < p_ip b -> pless a b = true.
Proof. intros a b H. unfold pless. apply N.ltb_lt in H. rewrite H. reflexivity. Qed.

Lemma pless_ip_le : forall a b, pless a b = true -> p_ip a <= p_ip b.
Proof.
  intros a b H. unfold pless in H. destruct (p_ip a <? p_ip b) eqn:E1; [apply N.ltb_lt in E1; lia|].
  destruct (p_ip b <? p_ip a) eqn:E2; [discriminate|]. apply N.ltb_ge in E1, E2. lia.
Qed.

Lemma pless_same_ip : forall a b, p_ip a = p_ip b ->
  pless a b = match p_kind a, p_kind b with
              | KEnd, KStart => true
              | KStart, KEnd => false
              | KStart, KStart => pmask a <? pmask b
              | KEnd, KEnd => pmask b <? pmask a
              end.
Proof. intros a b H. unfold pless. rewrite H, N.ltb_irrefl. reflexivity. Qed.

Lemma pless_trans : forall a b c, pless a b = true -> pless b c = true -> pless a c = true.
Proof.
  intros a b c H1 H2.
  pose proof (pless_ip_le _ _ H1) as L1. pose proof (pless_ip_le _ _ H2) as L2.
  destruct (N.eq_dec (p_ip a) (p_ip b)) as [E1|N1]; [|apply pless_ip_lt; lia].
  destruct (N.eq_dec (p_ip b) (p_ip c)) as [E2|N2]; [|apply pless_ip_lt; lia].
  rewrite (pless_same_ip _ _ E1) in H1. rewrite (pless_same_ip _ _ E2) in H2.
  rewrite (pless_same_ip a c) by congruence.
  destruct (p_kind a), (p_kind b), (p_kind c); try discriminate; auto;
    apply N.ltb_lt in H1; apply N.ltb_lt in H2; apply N.ltb_lt; lia.
Qed.

Lemma pless_asym : forall a b, pless a b = true -> pless b a = false.
Proof.
  intros a b H. destruct (pless b a) eqn:E; auto.
  pose proof (pless_trans _ _ _ H E) as C. rewrite pless_irrefl in C. discriminate.
Qed.

(* points that the comparator does not separate agree on address, kind and mask length *)
Lemma pless_total : forall a b, pless a b = false -> pless b a = false ->
  p_ip a = p_ip b /\ p_kind a = p_kind b /\ pmask a = pmask b.
Proof.
  intros a b H1 H2.
  assert (E : p_ip a = p_ip b).
  { destruct (N.lt_trichotomy (p_ip a) (p_ip b)) as [L|[E|L]]; auto.
    - rewrite (pless_ip_lt _ _ L) in H1. discriminate.
    - rewrite (pless_ip_lt _ _ L) in H2. discriminate. }
  rewrite (pless_same_ip _ _ E) in H1. rewrite (pless_same_ip b a) in H2 by congruence.
  split; auto.
  destruct (p_kind a), (p_kind b); try discriminate; split; auto;
    apply N.ltb_ge in H1; apply N.ltb_ge in H2; lia.
Qed.

(* ---------------------------------------------------------------- items *)

Record item := mkItem { i_s : N; i_e : N; i_l : rloc; i_el : rloc }.

Definition imask (i : item) : N := rl_mask (i_l i).
Definition spoint (i : item) : point := mkPoint (i_s i) (i_l i) KStart.
Definition epoint (i : item) : point := mkPoint (i_e i) (i_el i) KEnd.
Definition has_end (i : item) : bool := i_e i <? two128.
Definition ipoints (i : item) : list point := spoint i :: (if has_end i then [epoint i] else []).

(* the order in which items are opened: by start, then by mask length *)
Definition ilt (i j : item) : Prop := i_s i < i_s j \/ (i_s i = i_s j /\ imask i < imask j).
Definition iltb (i j : item) : bool := (i_s i <? i_s j) || ((i_s i =? i_s j) && (imask i <? imask j)).

Lemma iltb_ilt : forall i j, iltb i j = true <-> ilt i j.
Proof.
  intros i j. unfold iltb, ilt. rewrite Bool.orb_true_iff, Bool.andb_true_iff, !N.ltb_lt, N.eqb_eq. tauto.
Qed.

Lemma ilt_spoint : forall i j, pless (spoint i) (spoint j) = true <-> ilt i j.
Proof.
  intros i j. unfold ilt. split.
  - intro H. pose proof (pless_ip_le _ _ H) as L. cbn [spoint p_ip] in L.
    destruct (N.eq_dec (i_s i) (i_s j)) as [E|]; [|lia]. right. split; auto.
    rewrite pless_same_ip in H by exact E. cbn in H. apply N.ltb_lt in H. exact H.
  - intros [H|[E H]].
    + apply pless_ip_lt. exact H.
    + rewrite pless_same_ip by exact E. cbn. apply N.ltb_lt. exact H.
Qed.

Lemma ilt_trans : forall i j k, ilt i j -> ilt j k -> ilt i k.
Proof. unfold ilt. intros. lia. Qed.

Lemma ilt_irrefl : forall i, ~ ilt i i.
Proof. unfold ilt. intros. lia. Qed.

(* ---------------------------------------------------------------- generic list facts *)

Lemma sorted_app_inv : forall {A} (R : A -> A -> Prop) l1 x l2,
  StronglySorted R (l1 ++ x :: l2) ->
  (forall p, In p l1 -> R p x) /\ (forall r, In r l2 -> R x r) /\ (forall p r, In p l1 -> In r l2 -> R p r).
Proof.
  induction l1 as [|y l1 IH]; simpl; intros x l2 H.
  - inversion H as [|? ? Hs Hf]; subst. rewrite Forall_forall in Hf. repeat split; auto; contradiction.
  - inversion H as [|? ? Hs Hf]; subst. rewrite Forall_forall in Hf.
    destruct (IH _ _ Hs) as [A1 [A2 A3]]. repeat split.
    + intros p [->|Hp]; auto. apply Hf. apply in_or_app. right. left. reflexivity.
    + auto.
    + intros p r [->|Hp] Hr; auto. apply Hf. apply in_or_app. right. right. exact Hr.
Qed.

Lemma sorted_tail : forall {A} (R : A -> A -> Prop) x l, StronglySorted R (x :: l) -> StronglySorted R l.
Proof. intros A R x l H. inversion H; auto. Qed.

Lemma nodup_app_mid : forall {A} (l1 : list A) x l2, NoDup (l1 ++ x :: l2) -> ~ In x l1 /\ ~ In x l2.
Proof.
  intros A l1 x l2 H. apply NoDup_remove_2 in H. split; intro C; apply H; apply in_or_app; auto.
Qed.

Lemma nodup_app_intro : forall {A} (l1 l2 : list A), NoDup l1 -> NoDup l2 ->
  (forall x, In x l1 -> ~ In x l2) -> NoDup (l1 ++ l2).
Proof.
  induction l1 as [|x l1 IH]; simpl; intros l2 H1 H2 H; auto.
  inversion H1; subst. constructor.
  - intro C. apply in_app_or in C. destruct C as [C|C]; auto. apply (H x); auto.
  - apply IH; auto.
Qed.

(* ---------------------------------------------------------------- the sweep *)

Section Sweep.
  Variable its : list item.
  Hypothesis its_nodup : NoDup its.
  Hypothesis H_range : forall i, In i its -> i_s i < i_e i /\ i_e i <= two128.
  Hypothesis H_lam : forall i j, In i its -> In j its ->
    i_e i <= i_s j \/ i_e j <= i_s i \/ (i_s i <= i_s j /\ i_e j <= i_e i) \/ (i_s j <= i_s i /\ i_e i <= i_e j).
  Hypothesis H_start : forall i j, In i its -> In j its -> i_s i = i_s j -> i_e j < i_e i -> imask i < imask j.
  Hypothesis H_end : forall i j, In i its -> In j its -> i_e i = i_e j -> i_e i < two128 -> i_s i < i_s j -> imask i < imask j.
  Hypothesis H_inj : forall i j, In i its -> In j its -> i_s i = i_s j -> i_e i = i_e j -> i = j.
  Hypothesis H_mono : forall i j, In i its -> In j its -> i_s i <= i_s j -> i_e j <= i_e i -> imask i <= imask j.
  Hypothesis H_emask : forall i, In i its -> rl_mask (i_el i) = imask i.
  Variable bottom : item.
  Hypothesis H_bot : In bottom its /\ i_s bottom = 0 /\ i_e bottom = two128.

  Variable L : list point.
  Hypothesis L_perm : Permutation L (flat_map ipoints its).
  Hypothesis L_sorted : StronglySorted (fun a b => pless b a = false) L.

  Lemma has_end_iff : forall i, has_end i = true <-> i_e i < two128.
  Proof. intro i. unfold has_end. apply N.ltb_lt. Qed.

  Lemma no_end_e : forall i, In i its -> has_end i = false -> i_e i = two128.
  Proof.
    intros i Hi H. unfold has_end in H. apply N.ltb_ge in H. destruct (H_range i Hi). lia.
  Qed.

  Lemma in_L : forall p, In p L <-> exists i, In i its /\ (p = spoint i \/ (has_end i = true /\ p = epoint i)).
  Proof.
    intro p. split.
    - intro H. apply (Permutation_in _ L_perm) in H. apply in_flat_map in H. destruct H as [i [Hi Hp]].
      exists i. split; auto. unfold ipoints in Hp. destruct Hp as [<-|Hp]; auto.
      destruct (has_end i) eqn:E; [|contradiction]. destruct Hp as [<-|[]]. auto.
    - intros [i [Hi Hp]]. apply (Permutation_in _ (Permutation_sym L_perm)). apply in_flat_map. exists i. split; auto.
      unfold ipoints. destruct Hp as [->|[E ->]]; [left; auto|]. rewrite E. right. left. reflexivity.
  Qed.

  Lemma spoint_in_L : forall i, In i its -> In (spoint i) L.
  Proof. intros i Hi. apply in_L. eauto. Qed.
  Lemma epoint_in_L : forall i, In i its -> has_end i = true -> In (epoint i) L.
  Proof. intros i Hi He. apply in_L. eauto. Qed.

  (* an item is determined by the address and mask length of its Start point, and of its End point *)
  Lemma start_inj : forall i j, In i its -> In j its -> i_s i = i_s j -> imask i = imask j -> i = j.
  Proof.
    intros i j Hi Hj Es Em. apply H_inj; auto.
    destruct (N.lt_trichotomy (i_e i) (i_e j)) as [Lt|[E|Lt]]; auto.
    - pose proof (H_start j i Hj Hi (eq_sym Es) Lt). lia.
    - pose proof (H_start i j Hi Hj Es Lt). lia.
  Qed.

  Lemma end_inj : forall i j, In i its -> In j its -> has_end i = true -> i_e i = i_e j -> imask i = imask j -> i = j.
  Proof.
    intros i j Hi Hj He Ee Em. apply has_end_iff in He. apply H_inj; auto.
    destruct (N.lt_trichotomy (i_s i) (i_s j)) as [Lt|[E|Lt]]; auto.
    - pose proof (H_end i j Hi Hj Ee He Lt). lia.
    - assert (He' : i_e j < two128) by lia.
      pose proof (H_end j i Hj Hi (eq_sym Ee) He' Lt). lia.
  Qed.

  Lemma spoint_eq : forall i j, In i its -> In j its -> spoint i = spoint j -> i = j.
  Proof.
    intros i j Hi Hj E. apply start_inj; auto.
    - apply (f_equal p_ip) in E. exact E.
    - apply (f_equal pmask) in E. exact E.
  Qed.

  Lemma epoint_eq : forall i j, In i its -> In j its -> has_end i = true -> epoint i = epoint j -> i = j.
  Proof.
    intros i j Hi Hj He E. apply end_inj; auto.
    - apply (f_equal p_ip) in E. exact E.
    - apply (f_equal pmask) in E. unfold pmask in E. cbn in E. rewrite !H_emask in E; auto.
  Qed.

  (* on the points of L the comparator is a strict total order *)
  Lemma L_total : forall p r, In p L -> In r L -> pless p r = false -> pless r p = false -> p = r.
  Proof.
    intros p r Hp Hr H1 H2. destruct (pless_total _ _ H1 H2) as [Eip [Ek Em]].
    apply in_L in Hp. apply in_L in Hr.
    destruct Hp as [i [Hi [->|[Ei ->]]]], Hr as [j [Hj [->|[Ej ->]]]]; try discriminate Ek.
    - f_equal. apply start_inj; auto.
    - f_equal. apply end_inj; auto. unfold pmask in Em. cbn in Em. rewrite !H_emask in Em; auto.
  Qed.

  Lemma L_nodup : NoDup L.
  Proof.
    apply (Permutation_NoDup (Permutation_sym L_perm)).
    assert (G : forall l, NoDup l -> (forall i, In i l -> In i its) -> NoDup (flat_map ipoints l)).
    { induction l as [|i l IH]; intros Hn Hs; [constructor|].
      inversion Hn as [|? ? Hni Hn']; subst. cbn [flat_map].
      assert (Hi : In i its) by (apply Hs; left; auto).
      assert (Hl : forall j, In j l -> In j its) by (intros; apply Hs; right; auto).
      assert (D : forall p, In p (ipoints i) -> ~ In p (flat_map ipoints l)).
      { intros p Hp C. apply in_flat_map in C. destruct C as [j [Hj Hpj]].
        assert (i = j); [|subst; contradiction].
        unfold ipoints in Hp, Hpj.
        destruct Hp as [<-|Hp]; destruct Hpj as [E|Hpj].
        - exact (spoint_eq i j Hi (Hl j Hj) (eq_sym E)).
        - destruct (has_end j); [|contradiction]. destruct Hpj as [E|[]]. discriminate E.
        - destruct (has_end i); [|contradiction]. destruct Hp as [<-|[]]. discriminate E.
        - destruct (has_end i) eqn:Ei; [|contradiction]. destruct Hp as [<-|[]].
          destruct (has_end j); [|contradiction]. destruct Hpj as [E|[]].
          exact (epoint_eq i j Hi (Hl j Hj) Ei (eq_sym E)). }
      apply nodup_app_intro.
      - unfold ipoints. destruct (has_end i).
        + constructor. { intros [C|[]]. discriminate C. } constructor; [intros []|constructor].
        + constructor; [intros []|constructor].
      - apply IH; auto.
      - exact D. }
    apply G; auto.
  Qed.

  (* position of a point relative to a cut of L = D ++ q :: R *)
  Lemma mem_done : forall D q R p, L = D ++ q :: R -> In p D -> pless p q = true.
  Proof.
    intros D q R p E Hp.
    pose proof L_sorted as S. rewrite E in S. destruct (sorted_app_inv _ _ _ _ S) as [A1 _].
    pose proof L_nodup as N. rewrite E in N. destruct (nodup_app_mid _ _ _ N) as [N1 _].
    destruct (pless p q) eqn:C; auto. exfalso.
    assert (p = q); [|subst; contradiction].
    apply L_total; auto; rewrite E; apply in_or_app; [left; auto|right; left; auto].
  Qed.

  Lemma mem_rest : forall D q R p, L = D ++ q :: R -> In p R -> pless q p = true.
  Proof.
    intros D q R p E Hp.
    pose proof L_sorted as S. rewrite E in S. destruct (sorted_app_inv _ _ _ _ S) as [_ [A2 _]].
    pose proof L_nodup as N. rewrite E in N. destruct (nodup_app_mid _ _ _ N) as [_ N2].
    destruct (pless q p) eqn:C; auto. exfalso.
    assert (q = p); [|subst; contradiction].
    apply L_total; auto; rewrite E; apply in_or_app; right; [left; auto|right; auto].
  Qed.

  Lemma before_in_done : forall D q R p, L = D ++ q :: R -> In p L -> pless p q = true -> In p D.
  Proof.
    intros D q R p E Hp Hl. rewrite E in Hp. apply in_app_or in Hp. destruct Hp as [Hp|[<-|Hp]]; auto.
    - rewrite pless_irrefl in Hl. discriminate.
    - pose proof (mem_rest _ _ _ _ E Hp) as C. rewrite (pless_asym _ _ C) in Hl. discriminate.
  Qed.

  Lemma after_in_rest : forall D q R p, L = D ++ q :: R -> In p L -> pless q p = true -> In p R.
  Proof.
    intros D q R p E Hp Hl. rewrite E in Hp. apply in_app_or in Hp. destruct Hp as [Hp|[<-|Hp]]; auto.
    - pose proof (mem_done _ _ _ _ E Hp) as C. rewrite (pless_asym _ _ C) in Hl. discriminate.
    - rewrite pless_irrefl in Hl. discriminate.
  Qed.

  Lemma start_before_end : forall i, In i its -> pless (spoint i) (epoint i) = true.
  Proof. intros i Hi. apply pless_ip_lt. cbn. destruct (H_range i Hi). lia. Qed.

  (* the bottom item is opened first *)
  Lemma bottom_least : forall j, In j its -> j = bottom \/ ilt bottom j.
  Proof.
    intros j Hj. destruct H_bot as [Hb [Bs Be]].
    destruct (N.eq_dec (i_s j) 0) as [E|NE]; [|right; left; lia].
    destruct (N.eq_dec (i_e j) two128) as [E2|NE2].
    - left. apply H_inj; auto; congruence.
    - right. right. split; [congruence|]. apply H_start; auto; [congruence|].
      destruct (H_range j Hj). lia.
  Qed.

  Lemma ilt_total : forall i j, In i its -> In j its -> i = j \/ ilt i j \/ ilt j i.
  Proof.
    intros i j Hi Hj. unfold ilt.
    destruct (N.lt_trichotomy (i_s i) (i_s j)) as [L1|[E|L1]]; auto.
    destruct (N.lt_trichotomy (imask i) (imask j)) as [L2|[E2|L2]]; auto.
    left. apply start_inj; auto.
  Qed.

  (* two items that share an address: the one opened first has the smaller or equal mask length *)
  Lemma overlap_mono : forall i j x, In i its -> In j its ->
    i_s i <= x -> x < i_e i -> i_s j <= x -> x < i_e j -> ilt i j -> imask i <= imask j.
  Proof.
    intros i j x Hi Hj A1 A2 B1 B2 [Lt|[E Lt]]; [|lia].
    apply H_mono; auto; [lia|].
    destruct (H_lam i j Hi Hj) as [C|[C|[C|C]]]; lia.
  Qed.

  (* ---- the item on top of the stack after a point: the last opened among the open ones *)
  Definition opnb (q : point) (j : item) : bool :=
    negb (pless q (spoint j)) && (negb (has_end j) || pless q (epoint j)).
  Definition imax (d : item) (l : list item) : item :=
    fold_left (fun b j => if iltb b j then j else b) l d.
  Definition topf (q : point) : item := imax bottom (filter (opnb q) its).
  Definition asg (q : point) : point := mkPoint (p_ip q) (i_l (topf q)) (p_kind q).

  Lemma imax_unique : forall l d t, In t its -> In d its -> (forall j, In j l -> In j its) ->
    (d = t \/ ilt d t) -> (In t l \/ d = t) -> (forall j, In j l -> j = t \/ ilt j t) -> imax d l = t.
  Proof.
    unfold imax. induction l as [|x l IH]; intros d t Ht Hd Hs Hdt Hin Hmax.
    - simpl. destruct Hin as [[]|]; auto.
    - cbn [fold_left].
      assert (Hx : In x its) by (apply Hs; left; auto).
      assert (Hs' : forall j, In j l -> In j its) by (intros; apply Hs; right; auto).
      assert (Hmax' : forall j, In j l -> j = t \/ ilt j t) by (intros; apply Hmax; right; auto).
      destruct (iltb d x) eqn:C.
      + apply iltb_ilt in C. apply IH; auto.
        * apply Hmax. left; auto.
        * destruct Hin as [[ -> | Hin]| -> ]; auto.
          destruct (Hmax x (or_introl eq_refl)) as [ -> | Lx]; auto.
          exfalso. exact (ilt_irrefl _ (ilt_trans _ _ _ C Lx)).
      + assert (NC : ~ ilt d x) by (intro C'; apply iltb_ilt in C'; congruence).
        apply IH; auto.
        destruct Hin as [[ -> | Hin]| -> ]; auto.
        destruct Hdt as [ -> | Ldt]; auto. exfalso.
        destruct (ilt_total d t Hd Ht) as [ -> |[C1|C1]]; auto.
  Qed.

  Lemma topf_unique : forall q t, In t its -> opnb q t = true ->
    (forall j, In j its -> opnb q j = true -> j = t \/ ilt j t) -> topf q = t.
  Proof.
    intros q t Ht Ho Hmax. unfold topf. destruct H_bot as [Hb _].
    apply imax_unique; auto.
    - intros j Hj. apply filter_In in Hj. tauto.
    - destruct (bottom_least t Ht) as [ -> |]; auto.
    - left. apply filter_In. auto.
    - intros j Hj. apply filter_In in Hj. destruct Hj. auto.
  Qed.

  (* ---- the invariant: the stack holds the items whose Start is done and whose End is pending,
     the last opened on top *)
  Definition stack_inv (g : list item) (D R : list point) : Prop :=
    (forall j, In j g <-> In j its /\ In (spoint j) D /\ (has_end j = true -> In (epoint j) R)) /\
    StronglySorted (fun x y => ilt y x) g.

  Lemma sorted_head_max : forall t g j, StronglySorted (fun x y => ilt y x) (t :: g) -> In j (t :: g) -> j = t \/ ilt j t.
  Proof.
    intros t g j H [->|Hj]; auto. inversion H as [|? ? _ Hf]; subst. rewrite Forall_forall in Hf. auto.
  Qed.

  Lemma sorted_head_notin : forall t g, StronglySorted (fun x y => ilt y x) (t :: g) -> ~ In t g.
  Proof.
    intros t g H C. inversion H as [|? ? _ Hf]; subst. rewrite Forall_forall in Hf.
    exact (ilt_irrefl _ (Hf t C)).
  Qed.

  (* the End point of item i finds i on top of the stack *)
  Lemma end_pops_own : forall D R i g, In i its -> has_end i = true -> L = D ++ epoint i :: R ->
    stack_inv g D (epoint i :: R) -> exists t1 g2, g = i :: t1 :: g2.
  Proof.
    intros D R i g Hi He EL [Ha Hb].
    set (q := epoint i) in *.
    assert (Hig : In i g).
    { apply Ha. split; auto. split; [|intros; left; auto].
      apply (before_in_done D q R); auto using spoint_in_L. apply start_before_end; auto. }
    destruct H_bot as [Hbi [Bs Be]].
    assert (Hbg : In bottom g).
    { apply Ha. split; auto. split.
      - apply (before_in_done D q R); auto using spoint_in_L.
        apply pless_ip_lt. cbn. rewrite Bs. destruct (H_range i Hi). lia.
      - intro C. apply has_end_iff in C. lia. }
    assert (Hne : bottom <> i).
    { intro C. subst. apply has_end_iff in He. lia. }
    destruct g as [|t g1]; [contradiction|].
    assert (Et : t = i).
    { destruct (sorted_head_max t g1 i Hb Hig) as [->|Lit]; auto. exfalso.
      assert (Htg : In t (t :: g1)) by (left; auto).
      apply Ha in Htg. destruct Htg as [Ht [Hts Hte]].
      pose proof (mem_done _ _ _ _ EL Hts) as P1.
      destruct (H_range i Hi) as [Ri1 Ri2]. destruct (H_range t Ht) as [Rt1 Rt2].
      apply has_end_iff in He.
      assert (S1 : i_s t < i_e i).
      { pose proof (pless_ip_le _ _ P1) as Le. cbn in Le.
        destruct (N.eq_dec (i_s t) (i_e i)) as [E|]; [|lia].
        rewrite pless_same_ip in P1 by exact E. cbn in P1. discriminate. }
      assert (S2 : i_e i < i_e t \/ (i_e t = i_e i /\ imask t < imask i)).
      { destruct (has_end t) eqn:Het.
        - destruct (Hte eq_refl) as [C|C].
          + exfalso. assert (t = i) by (apply epoint_eq; auto). subst. exact (ilt_irrefl _ Lit).
          + pose proof (mem_rest _ _ _ _ EL C) as P2.
            pose proof (pless_ip_le _ _ P2) as Le. cbn in Le.
            destruct (N.eq_dec (i_e i) (i_e t)) as [E|]; [|lia]. right. split; auto.
            rewrite pless_same_ip in P2 by exact E. cbn in P2. unfold pmask in P2. cbn in P2.
            rewrite !H_emask in P2 by auto. apply N.ltb_lt in P2. exact P2.
        - left. rewrite (no_end_e t Ht Het). lia. }
      destruct (H_lam i t Hi Ht) as [C|[C|[C|C]]]; try lia.
      - (* t inside i *)
        destruct Lit as [Lt|[Es Lt]].
        + destruct S2 as [S2|[S2 S3]]; [lia|].
          pose proof (H_end i t Hi Ht (eq_sym S2) He Lt). lia.
        + destruct S2 as [S2|[S2 S3]]; [|lia].
          pose proof (H_start t i Ht Hi (eq_sym Es) S2). lia.
      - (* i inside t *)
        destruct Lit as [Lt|[Es Lt]]; [lia|].
        destruct S2 as [S2|[S2 S3]]; [|lia].
        pose proof (H_start t i Ht Hi (eq_sym Es) S2). lia. }
    subst t.
    destruct g1 as [|t1 g2]; [|eauto].
    destruct Hbg as [C|[]]. congruence.
  Qed.

  Lemma stack_inv_pop : forall D R i t1 g2, In i its -> has_end i = true -> L = D ++ epoint i :: R ->
    stack_inv (i :: t1 :: g2) D (epoint i :: R) -> stack_inv (t1 :: g2) (D ++ [epoint i]) R.
  Proof.
    intros D R i t1 g2 Hi He EL [Ha Hb]. split; [|exact (sorted_tail _ _ _ Hb)].
    pose proof L_nodup as N. rewrite EL in N. destruct (nodup_app_mid _ _ _ N) as [N1 N2].
    intro j. split.
    - intro Hj. assert (Hj' : In j (i :: t1 :: g2)) by (right; auto).
      apply Ha in Hj'. destruct Hj' as [Hji [Hjs Hje]]. split; auto. split.
      + apply in_or_app. left. auto.
      + intro E. destruct (Hje E) as [C|C]; auto. exfalso.
        assert (j = i) by (apply epoint_eq; auto). subst. exact (sorted_head_notin _ _ Hb Hj).
    - intros [Hji [Hjs Hje]].
      assert (Hj' : In j (i :: t1 :: g2)).
      { apply Ha. split; auto. split.
        - apply in_app_or in Hjs. destruct Hjs as [|[C|[]]]; auto. discriminate C.
        - intro E. right. auto. }
      destruct Hj' as [<-|]; auto. exfalso. apply N2. apply Hje. exact He.
  Qed.

  Lemma stack_inv_push : forall D R i g, In i its -> L = D ++ spoint i :: R ->
    stack_inv g D (spoint i :: R) -> stack_inv (i :: g) (D ++ [spoint i]) R.
  Proof.
    intros D R i g Hi EL [Ha Hb]. split.
    - intro j. split.
      + intros [<-|Hj].
        * split; auto. split; [apply in_or_app; right; left; auto|].
          intro E. apply (after_in_rest D (spoint i) R); auto using epoint_in_L. apply start_before_end; auto.
        * apply Ha in Hj. destruct Hj as [Hji [Hjs Hje]]. split; auto. split; [apply in_or_app; auto|].
          intro E. destruct (Hje E) as [C|C]; auto. discriminate C.
      + intros [Hji [Hjs Hje]]. apply in_app_or in Hjs. destruct Hjs as [Hjs|[C|[]]].
        * right. apply Ha. split; auto. split; auto. intro E. right. auto.
        * left. apply spoint_eq; auto.
    - constructor; auto. apply Forall_forall. intros j Hj. apply Ha in Hj. destruct Hj as [Hji [Hjs _]].
      apply ilt_spoint. exact (mem_done _ _ _ _ EL Hjs).
  Qed.

  (* after a Start point its own item is on top *)
  Lemma topf_start : forall i, In i its -> topf (spoint i) = i.
  Proof.
    intros i Hi. apply topf_unique; auto.
    - unfold opnb. rewrite pless_irrefl. cbn [negb andb].
      destruct (has_end i) eqn:E; auto. cbn [negb orb]. apply start_before_end; auto.
    - intros j Hj Ho. unfold opnb in Ho. apply Bool.andb_true_iff in Ho. destruct Ho as [Ho _].
      apply Bool.negb_true_iff in Ho.
      destruct (pless (spoint j) (spoint i)) eqn:C.
      + right. apply ilt_spoint. exact C.
      + left. apply spoint_eq; auto. apply L_total; auto using spoint_in_L.
  Qed.

  (* after an End point: the top of the remaining stack *)
  Lemma topf_end : forall D R i t1 g2, In i its -> has_end i = true -> L = D ++ epoint i :: R ->
    stack_inv (t1 :: g2) (D ++ [epoint i]) R -> topf (epoint i) = t1.
  Proof.
    intros D R i t1 g2 Hi He EL [Ha Hb].
    assert (Hopn : forall j, In j its -> (opnb (epoint i) j = true <-> In j (t1 :: g2))).
    { intros j Hj. rewrite Ha. unfold opnb. rewrite Bool.andb_true_iff, Bool.negb_true_iff, Bool.orb_true_iff, Bool.negb_true_iff.
      split.
      - intros [H1 H2]. split; auto. split.
        + apply in_or_app. left. apply (before_in_done D (epoint i) R); auto using spoint_in_L.
          destruct (pless (spoint j) (epoint i)) eqn:C; auto. exfalso.
          assert (X : spoint j = epoint i) by (apply L_total; auto using spoint_in_L, epoint_in_L).
          discriminate X.
        + intro E. destruct H2 as [H2|H2]; [congruence|].
          apply (after_in_rest D (epoint i) R); auto using epoint_in_L.
      - intros [_ [H1 H2]]. split.
        + apply in_app_or in H1. destruct H1 as [H1|[C|[]]]; [|discriminate C].
          apply pless_asym. exact (mem_done _ _ _ _ EL H1).
        + destruct (has_end j) eqn:E; auto. right. exact (mem_rest _ _ _ _ EL (H2 eq_refl)). }
    apply topf_unique.
    - assert (X : In t1 (t1 :: g2)) by (left; auto). apply Ha in X. tauto.
    - apply Hopn; [|left; auto]. assert (X : In t1 (t1 :: g2)) by (left; auto). apply Ha in X. tauto.
    - intros j Hj Ho. apply (Hopn j Hj) in Ho. exact (sorted_head_max _ _ _ Hb Ho).
  Qed.

  (* the sweep never panics and gives every point the location of the item on top after it *)
  Lemma sweep_inv : forall R D g, L = D ++ R -> stack_inv g D R ->
    sweep (map i_l g) R = Ok (map asg R).
  Proof.
    induction R as [|q R IH]; intros D g EL Hinv; [reflexivity|].
    assert (Hq : In q L) by (rewrite EL; apply in_or_app; right; left; auto).
    apply in_L in Hq. destruct Hq as [i [Hi [->|[He ->]]]].
    - (* Start *)
      cbn [sweep spoint p_kind p_loc].
      assert (EL' : L = (D ++ [spoint i]) ++ R) by (rewrite <- app_assoc; exact EL).
      pose proof (IH (D ++ [spoint i]) (i :: g) EL' (stack_inv_push D R i g Hi EL Hinv)) as IH'.
      cbn [map] in IH'. change (mkPoint (i_s i) (i_l i) KStart) with (spoint i). rewrite IH'. cbn [rbind map].
      f_equal. f_equal. unfold asg. rewrite (topf_start i Hi). reflexivity.
    - (* End *)
      destruct (end_pops_own D R i g Hi He EL Hinv) as [t1 [g2 ->]].
      cbn [sweep epoint p_kind map].
      assert (EL' : L = (D ++ [epoint i]) ++ R) by (rewrite <- app_assoc; exact EL).
      pose proof (stack_inv_pop D R i t1 g2 Hi He EL Hinv) as Hinv'.
      pose proof (IH (D ++ [epoint i]) (t1 :: g2) EL' Hinv') as IH'.
      cbn [map] in IH'. rewrite IH'. cbn [rbind map p_ip].
      f_equal. f_equal. unfold asg. change (mkPoint (i_e i) (i_el i) KEnd) with (epoint i).
      rewrite (topf_end D R i t1 g2 Hi He EL Hinv'). reflexivity.
  Qed.

  Theorem sweep_correct : sweep [] L = Ok (map asg L).
  Proof.
    apply (sweep_inv L [] []); [reflexivity|]. split; [|constructor].
    intro j. split; [intros []|]. intros [_ [[] _]].
  Qed.

  (* ---------------------------------------------------------------- after the sweep: squash and search *)

  Lemma imax_spec : forall l d, In d its -> (forall j, In j l -> In j its) ->
    In (imax d l) (d :: l) /\ forall j, In j (d :: l) -> j = imax d l \/ ilt j (imax d l).
  Proof.
    unfold imax. induction l as [|x l IH]; intros d Hd Hs.
    - simpl. split; auto. intros j [<-|[]]. auto.
    - cbn [fold_left].
      assert (Hx : In x its) by (apply Hs; left; auto).
      assert (Hs' : forall j, In j l -> In j its) by (intros; apply Hs; right; auto).
      destruct (iltb d x) eqn:C.
      + destruct (IH x Hx Hs') as [I1 I2]. split.
        * destruct I1 as [<-|I1]; [right; left; auto|right; right; auto].
        * intros j [<-|[<-|Hj]].
          -- apply iltb_ilt in C. destruct (I2 x (or_introl eq_refl)) as [<-|Lx]; auto.
             right. exact (ilt_trans _ _ _ C Lx).
          -- apply I2. left. auto.
          -- apply I2. right. auto.
      + destruct (IH d Hd Hs') as [I1 I2]. split.
        * destruct I1 as [<-|I1]; [left; auto|right; right; auto].
        * intros j [<-|[<-|Hj]].
          -- apply I2. left. auto.
          -- assert (NC : ~ ilt d x) by (intro C'; apply iltb_ilt in C'; congruence).
             destruct (I2 d (or_introl eq_refl)) as [E|Ld].
             ++ rewrite <- E. destruct (ilt_total x d Hx Hd) as [X|[X|X]]; auto. contradiction.
             ++ destruct (ilt_total x d Hx Hd) as [X|[X|X]].
                ** subst x. right. exact Ld.
                ** right. exact (ilt_trans _ _ _ X Ld).
                ** contradiction.
          -- apply I2. right. auto.
  Qed.

  Lemma opnb_bottom : forall q, In q L -> opnb q bottom = true.
  Proof.
    intros q Hq. destruct H_bot as [Hb [Bs Be]]. unfold opnb.
    assert (E : has_end bottom = false) by (unfold has_end; apply N.ltb_ge; lia). rewrite E. cbn [negb orb].
    rewrite Bool.andb_true_r. apply Bool.negb_true_iff.
    destruct (pless q (spoint bottom)) eqn:C; auto. exfalso.
    pose proof (pless_ip_le _ _ C) as Le. cbn in Le. rewrite Bs in Le.
    assert (E0 : p_ip q = i_s bottom) by lia.
    rewrite pless_same_ip in C by exact E0.
    apply in_L in Hq. destruct Hq as [i [Hi [ -> |[He -> ]]]].
    - cbn in C. apply N.ltb_lt in C. cbn in E0.
      destruct (bottom_least i Hi) as [ -> |[X|[_ X]]].
      + unfold pmask in C. cbn in C. lia.
      + lia.
      + unfold pmask in C. cbn in C. unfold imask in X. lia.
    - cbn in E0. destruct (H_range i Hi). lia.
  Qed.

  Lemma topf_spec : forall q, In q L ->
    In (topf q) its /\ opnb q (topf q) = true /\
    forall j, In j its -> opnb q j = true -> j = topf q \/ ilt j (topf q).
  Proof.
    intros q Hq. unfold topf. destruct H_bot as [Hb _].
    assert (Hs : forall j, In j (filter (opnb q) its) -> In j its) by (intros j Hj; apply filter_In in Hj; tauto).
    destruct (imax_spec (filter (opnb q) its) bottom Hb Hs) as [I1 I2].
    assert (Hbf : In bottom (filter (opnb q) its)) by (apply filter_In; split; auto using opnb_bottom).
    assert (Hin : In (imax bottom (filter (opnb q) its)) (filter (opnb q) its)).
    { destruct I1 as [<-|I1]; auto. }
    apply filter_In in Hin. destruct Hin as [H1 H2]. split; auto. split; auto.
    intros j Hj Ho. apply I2. right. apply filter_In. auto.
  Qed.

  (* what being open after an End point at x means for the interval *)
  Lemma opn_end_interval : forall i j, In i its -> has_end i = true -> In j its ->
    opnb (epoint i) j = true -> i_s j < i_e i /\ i_e i <= i_e j.
  Proof.
    intros i j Hi He Hj Ho. unfold opnb in Ho. apply Bool.andb_true_iff in Ho. destruct Ho as [O1 O2].
    apply Bool.negb_true_iff in O1. split.
    - destruct (N.lt_trichotomy (i_s j) (i_e i)) as [Lt|[E|Lt]]; auto.
      + rewrite pless_same_ip in O1 by (cbn; auto). cbn in O1. discriminate.
      + rewrite pless_ip_lt in O1 by (cbn; auto). discriminate.
    - destruct (has_end j) eqn:E.
      + cbn [negb orb] in O2. pose proof (pless_ip_le _ _ O2) as Le. cbn in Le. exact Le.
      + rewrite (no_end_e j Hj E). destruct (H_range i Hi). lia.
  Qed.

  Lemma asg_start : forall i, In i its -> asg (spoint i) = spoint i.
  Proof. intros i Hi. unfold asg. rewrite (topf_start i Hi). reflexivity. Qed.

  (* the point that follows a cut *)
  Lemma next_point : forall l1 q q' l3 p, L = l1 ++ q :: q' :: l3 -> In p L -> pless q p = true ->
    p = q' \/ pless q' p = true.
  Proof.
    intros l1 q q' l3 p EL Hp Hl.
    pose proof (after_in_rest l1 q (q' :: l3) p EL Hp Hl) as [C|C]; auto.
    right. apply (mem_rest (l1 ++ [q]) q' l3); auto. rewrite <- app_assoc. exact EL.
  Qed.

  (* F1: every Start point survives squash *)
  Lemma start_kept : forall j, In j its -> In (spoint j) (squash_spec (map asg L)).
  Proof.
    intros j Hj. destruct (in_split _ _ (spoint_in_L j Hj)) as [l1 [l2 EL]].
    rewrite EL, map_app. cbn [map]. rewrite (asg_start j Hj). apply squash_keep.
    destruct l2 as [|q' l3]; [exact I|]. cbn [map notshadowed]. unfold shadowb.
    destruct (p_ip (spoint j) =? p_ip (asg q')) eqn:E; [|reflexivity]. cbn [andb].
    apply N.eqb_eq in E. cbn in E.
    assert (Hq' : In q' L) by (rewrite EL; apply in_or_app; right; right; left; auto).
    pose proof (mem_rest l1 (spoint j) (q' :: l3) q' EL (or_introl eq_refl)) as P.
    rewrite pless_same_ip in P by (cbn; exact E).
    apply in_L in Hq'. destruct Hq' as [k [Hk [ -> |[He -> ]]]].
    - rewrite (asg_start k Hk). cbn in P. cbn. apply N.leb_gt. apply N.ltb_lt in P. exact P.
    - cbn in P. discriminate.
  Qed.

  (* consecutive End points at one address: the later one exposes an item with a mask that is not longer *)
  Lemma succ_end_mask : forall l1 i k l3, In i its -> has_end i = true -> In k its -> has_end k = true ->
    L = l1 ++ epoint i :: epoint k :: l3 -> i_e k = i_e i -> imask (topf (epoint k)) <= imask (topf (epoint i)).
  Proof.
    intros l1 i k l3 Hi He Hk Hek EL Ee.
    assert (Hqi : In (epoint i) L) by (apply epoint_in_L; auto).
    assert (Hqk : In (epoint k) L) by (apply epoint_in_L; auto).
    destruct (topf_spec _ Hqi) as [Ti [Oi Mi]]. destruct (topf_spec _ Hqk) as [Tk [Ok Mk]].
    set (t := topf (epoint i)) in *. set (t' := topf (epoint k)) in *.
    pose proof (mem_rest l1 (epoint i) (epoint k :: l3) (epoint k) EL (or_introl eq_refl)) as Pik.
    (* t' is open after epoint i as well *)
    assert (Oi' : opnb (epoint i) t' = true).
    { unfold opnb in *. apply Bool.andb_true_iff in Ok. destruct Ok as [O1 O2].
      apply Bool.andb_true_iff. split.
      - apply Bool.negb_true_iff in O1. apply Bool.negb_true_iff.
        destruct (pless (epoint i) (spoint t')) eqn:C; auto. exfalso.
        destruct (next_point l1 (epoint i) (epoint k) l3 (spoint t') EL (spoint_in_L t' Tk) C) as [X|X].
        + discriminate X.
        + congruence.
      - destruct (has_end t'); auto. cbn [negb orb] in *. exact (pless_trans _ _ _ Pik O2). }
    destruct (Mi t' Tk Oi') as [ -> |Lt]; [lia|].
    destruct (opn_end_interval i t Hi He Ti Oi) as [A1 A2].
    destruct (opn_end_interval i t' Hi He Tk Oi') as [B1 B2].
    destruct (H_range i Hi) as [R1 R2].
    apply (overlap_mono t' t (i_e i - 1)); auto; lia.
  Qed.

  (* F2: an End point that survives squash is the last End at its address, and every item
     that starts there has a longer mask than the exposed item *)
  Lemma end_kept : forall l1 i l2, In i its -> has_end i = true -> L = l1 ++ epoint i :: l2 ->
    notshadowed (asg (epoint i)) (map asg l2) ->
    (forall k, In k its -> has_end k = true -> i_e k = i_e i -> pless (epoint i) (epoint k) = false) /\
    (forall j, In j its -> i_s j = i_e i -> imask (topf (epoint i)) < imask j).
  Proof.
    intros l1 i l2 Hi He EL Hns.
    assert (A : forall k, In k its -> has_end k = true -> i_e k = i_e i -> pless (epoint i) (epoint k) = false).
    { intros k Hk Hek Ee. destruct (pless (epoint i) (epoint k)) eqn:C; auto. exfalso.
      destruct l2 as [|q' l3].
      { pose proof (after_in_rest l1 (epoint i) [] (epoint k) EL (epoint_in_L k Hk Hek) C) as []. }
      assert (Hq' : In q' L) by (rewrite EL; apply in_or_app; right; right; left; auto).
      pose proof (mem_rest l1 (epoint i) (q' :: l3) q' EL (or_introl eq_refl)) as P.
      assert (Eip : p_ip q' = i_e i).
      { pose proof (pless_ip_le _ _ P) as Le1. cbn in Le1.
        destruct (next_point l1 (epoint i) q' l3 (epoint k) EL (epoint_in_L k Hk Hek) C) as [X|X].
        - rewrite <- X. cbn. exact Ee.
        - pose proof (pless_ip_le _ _ X) as Le2. cbn in Le2. lia. }
      apply in_L in Hq'. destruct Hq' as [k' [Hk' [ -> |[Hek' -> ]]]].
      - (* a Start point cannot come before the End point epoint k at the same address *)
        destruct (next_point l1 (epoint i) (spoint k') l3 (epoint k) EL (epoint_in_L k Hk Hek) C) as [X|X].
        + discriminate X.
        + rewrite pless_same_ip in X by (cbn in *; lia). cbn in X. discriminate.
      - cbn [map notshadowed] in Hns. unfold shadowb in Hns.
        assert (E1 : (p_ip (asg (epoint i)) =? p_ip (asg (epoint k'))) = true) by (apply N.eqb_eq; cbn in *; lia).
        rewrite E1 in Hns. cbn [andb] in Hns. apply N.leb_gt in Hns. cbn in Hns.
        pose proof (succ_end_mask l1 i k' l3 Hi He Hk' Hek' EL Eip) as M. unfold imask in M. lia. }
    split; [exact A|].
    intros j Hj Es.
    assert (C : pless (epoint i) (spoint j) = true) by (rewrite pless_same_ip by (cbn; lia); reflexivity).
    destruct l2 as [|q' l3].
    { pose proof (after_in_rest l1 (epoint i) [] (spoint j) EL (spoint_in_L j Hj) C) as []. }
    assert (Hq' : In q' L) by (rewrite EL; apply in_or_app; right; right; left; auto).
    pose proof (mem_rest l1 (epoint i) (q' :: l3) q' EL (or_introl eq_refl)) as P.
    assert (Eip : p_ip q' = i_e i /\ (q' = spoint j \/ pless q' (spoint j) = true)).
    { pose proof (pless_ip_le _ _ P) as Le1. cbn in Le1.
      destruct (next_point l1 (epoint i) q' l3 (spoint j) EL (spoint_in_L j Hj) C) as [X|X].
      - split; auto. rewrite <- X. cbn. exact Es.
      - pose proof (pless_ip_le _ _ X) as Le2. cbn in Le2. split; auto. lia. }
    destruct Eip as [Eip Hle].
    apply in_L in Hq'. destruct Hq' as [k' [Hk' [ -> |[Hek' -> ]]]].
    - cbn [map notshadowed] in Hns. unfold shadowb in Hns. rewrite (asg_start k' Hk') in Hns.
      assert (E1 : (p_ip (asg (epoint i)) =? p_ip (spoint k')) = true) by (apply N.eqb_eq; cbn in *; lia).
      rewrite E1 in Hns. cbn [andb] in Hns. apply N.leb_gt in Hns. cbn in Hns.
      destruct Hle as [X|X].
      + apply spoint_eq in X; auto. subst. unfold imask. exact Hns.
      + apply ilt_spoint in X. destruct X as [X|[_ X]]; [cbn in Eip; lia|]. unfold imask in *. lia.
    - pose proof (A k' Hk' Hek' Eip) as X. congruence.
  Qed.

  (* F3: at an address where some item ends, squash keeps a point whose mask byte is bounded by the
     mask of an item that straddles the address *)
  Lemma kept_at_end : forall k, In k its -> has_end k = true ->
    exists r u, In r (squash_spec (map asg L)) /\ p_ip r = i_e k /\ In u its /\
                i_s u < i_e k /\ i_e k < i_e u /\ rp_mlen r <= imask u.
  Proof.
    intros k Hk Hek. set (x := i_e k).
    set (P := fun p : point => (match p_kind p with KEnd => true | KStart => false end) && (p_ip p =? x)).
    assert (Hex : existsb P L = true).
    { apply existsb_exists. exists (epoint k). split; [apply epoint_in_L; auto|].
      unfold P. cbn. apply N.eqb_refl. }
    destruct (last_sat P L Hex) as [l1 [q [l2 [EL [Pq Hno]]]]].
    assert (Hq : In q L) by (rewrite EL; apply in_or_app; right; left; auto).
    apply in_L in Hq. destruct Hq as [i [Hi [ -> |[He -> ]]]]; [discriminate Pq|].
    unfold P in Pq. cbn in Pq. apply N.eqb_eq in Pq.
    assert (Hqi : In (epoint i) L) by (apply epoint_in_L; auto).
    destruct (topf_spec _ Hqi) as [Tt [Ot Mt]]. set (t := topf (epoint i)) in *.
    destruct (opn_end_interval i t Hi He Tt Ot) as [A1 A2].
    assert (A3 : i_e i < i_e t).
    { destruct (N.eq_dec (i_e t) (i_e i)) as [E|]; [|lia]. exfalso.
      assert (Het : has_end t = true) by (apply has_end_iff; apply has_end_iff in He; lia).
      unfold opnb in Ot. rewrite Het in Ot. cbn [negb orb] in Ot. apply Bool.andb_true_iff in Ot. destruct Ot as [_ O2].
      pose proof (after_in_rest l1 (epoint i) l2 (epoint t) EL (epoint_in_L t Tt Het) O2) as X.
      assert (existsb P l2 = true); [|congruence].
      apply existsb_exists. exists (epoint t). split; auto. unfold P. cbn. apply N.eqb_eq. lia. }
    destruct l2 as [|q' l3].
    { exists (asg (epoint i)), t. split.
      - rewrite EL, map_app. cbn [map]. apply squash_keep. exact I.
      - cbn. repeat split; auto; try lia. pose proof (rp_mlen_le (asg (epoint i))) as X. cbn in X. unfold imask. exact X. }
    destruct (shadowb (asg (epoint i)) (asg q')) eqn:Sh.
    - (* shadowed by the next point: a Start point at the same address with a mask that is not longer *)
      unfold shadowb in Sh. apply Bool.andb_true_iff in Sh. destruct Sh as [S1 S2].
      apply N.eqb_eq in S1. apply N.leb_le in S2. cbn in S1.
      assert (Hq' : In q' L) by (rewrite EL; apply in_or_app; right; right; left; auto).
      apply in_L in Hq'. destruct Hq' as [k' [Hk' [ -> |[Hek' -> ]]]].
      + exists (spoint k'), t. split; [apply start_kept; auto|].
        rewrite (asg_start k' Hk') in S2.
        assert (S2' : imask k' <= imask t) by exact S2.
        assert (X : rp_mlen (spoint k') <= imask k') by (apply (rp_mlen_le (spoint k'))).
        assert (S1' : i_e i = i_s k') by exact S1.
        cbn [spoint p_ip]. repeat split; auto; lia.
      + exfalso. cbn in S1.
        assert (existsb P (epoint k' :: l3) = true); [|congruence].
        cbn [existsb]. unfold P at 1. cbn. assert (E : (i_e k' =? x) = true) by (apply N.eqb_eq; lia). rewrite E. reflexivity.
    - exists (asg (epoint i)), t. split.
      + rewrite EL, map_app. cbn [map]. apply squash_keep. cbn [notshadowed]. exact Sh.
      + cbn. repeat split; auto; try lia. pose proof (rp_mlen_le (asg (epoint i))) as X. cbn in X. unfold imask. exact X.
  Qed.

  (* ---------------------------------------------------------------- the predecessor search finds the innermost eligible item *)

  Variable a plen : N.
  Hypothesis a_lt : a < two128.
  Hypothesis H_null : forall j, In j its -> rl_null (i_l j) = true -> imask j = 0.
  (* the client address is a multiple of 2^(128-plen): an item that contains a-1 and a is shorter than plen *)
  Hypothesis H_str : forall j, In j its -> i_s j < a -> a < i_e j -> imask j <= plen.
  Hypothesis H_bot0 : imask bottom = 0.

  (* eligible: contains a, and if it starts at a it is not longer than the client prefix *)
  Definition inE (j : item) : Prop := i_s j <= a /\ a < i_e j /\ (i_s j = a -> imask j <= plen).

  Lemma mlen_of_item : forall j, In j its -> rp_mlen (spoint j) <= imask j /\
    (rp_mlen (spoint j) < imask j -> False) \/ (rp_mlen (spoint j) <= imask j /\ imask j = 0).
  Proof.
    intros j Hj. unfold rp_mlen. cbn [spoint p_loc]. destruct (rl_null (i_l j)) eqn:E.
    - right. rewrite (H_null j Hj E). lia.
    - left. unfold imask. lia.
  Qed.

  Lemma inE_start_kept : forall j, In j its -> inE j ->
    In (spoint j) (squash_spec (map asg L)) /\ keyle_q (spoint j) a plen.
  Proof.
    intros j Hj [E1 [E2 E3]]. split; [apply start_kept; auto|].
    unfold keyle_q. apply pt_leb_iff. cbn [spoint p_ip].
    destruct (N.eq_dec (i_s j) a) as [E|]; [|lia]. right. split; auto.
    pose proof (rp_mlen_le (spoint j)) as X. specialize (E3 E). unfold imask in E3. cbn in X. cbn. lia.
  Qed.

  (* any kept point that is greatest among the kept points not above (a, plen) carries the
     location of the innermost eligible item *)
  Theorem sweep_locate_gen : forall p, In p (squash_spec (map asg L)) -> keyle_q p a plen ->
    (forall r, In r (squash_spec (map asg L)) -> keyle_q r a plen -> keyle r p) ->
    exists t, In t its /\ p_loc p = i_l t /\ inE t /\ (forall j, In j its -> inE j -> j = t \/ ilt j t).
  Proof.
    intros p Hin Hle Hmax.
    destruct (squash_in _ _ Hin) as [o1 [o2 [Eo Hns]]].
    destruct (map_split asg L o1 p o2 Eo) as [l1 [q [l2 [EL [_ [Ep E2]]]]]]. subst o2.
    assert (Hq : In q L) by (rewrite EL; apply in_or_app; right; left; auto).
    (* an End point strictly above the found address and not above a contradicts maximality *)
    assert (M2 : forall k, In k its -> has_end k = true -> p_ip p < i_e k -> i_e k <= a -> False).
    { intros k Hk Hek Lt Le. destruct (kept_at_end k Hk Hek) as [r [u [Hr [Rip [Hu [U1 [U2 U3]]]]]]].
      assert (Kr : keyle_q r a plen).
      { unfold keyle_q. apply pt_leb_iff. rewrite Rip.
        destruct (N.eq_dec (i_e k) a) as [E|]; [|lia]. right. split; auto.
        pose proof (H_str u Hu) as X. rewrite E in U1, U2. specialize (X U1 U2). lia. }
      pose proof (Hmax r Hr Kr) as X. unfold keyle in X. apply pt_leb_iff in X. rewrite Rip in X. lia. }
    unfold keyle_q in Hle. apply pt_leb_iff in Hle.
    apply in_L in Hq. destruct Hq as [i [Hi [Eq|[He Eq]]]]; subst q.
    - (* the found point is the Start point of item i *)
      rewrite (asg_start i Hi) in Ep. subst p. cbn [spoint p_ip p_loc] in *.
      exists i. split; auto. split; auto.
      assert (Ei : inE i).
      { unfold inE. split; [lia|]. split.
        - destruct (N.lt_ge_cases a (i_e i)) as [|Ge]; auto. exfalso.
          assert (Hei : has_end i = true) by (apply has_end_iff; lia).
          apply (M2 i Hi Hei); auto. destruct (H_range i Hi). cbn. lia.
        - intro E. destruct Hle as [|[_ Hle]]; [lia|].
          destruct (mlen_of_item i Hi) as [[X1 X2]|[X1 X2]]; [|lia].
          destruct (N.lt_ge_cases (rp_mlen (spoint i)) (imask i)) as [Y|Y]; [contradiction|].
          unfold rp_mlen in *. cbn [spoint p_loc] in *. lia. }
      split; auto.
      intros j Hj Ej. destruct (inE_start_kept j Hj Ej) as [K1 K2].
      pose proof (Hmax _ K1 K2) as X. unfold keyle in X. apply pt_leb_iff in X. cbn [spoint p_ip] in X.
      destruct X as [X|[X1 X2]]; [right; left; exact X|].
      destruct (N.lt_trichotomy (imask j) (imask i)) as [Lt|[E|Gt]].
      + right. right. auto.
      + left. apply start_inj; auto.
      + exfalso. destruct (mlen_of_item j Hj) as [[Y1 Y2]|[Y1 Y2]]; [|lia].
        apply Y2. pose proof (rp_mlen_le (spoint i)) as Z. unfold imask in *. cbn [spoint p_loc] in *. lia.
    - (* the found point is the End point of item i: it exposes t = topf *)
      assert (Hqi : In (epoint i) L) by (apply epoint_in_L; auto).
      destruct (topf_spec _ Hqi) as [Tt [Ot Mt]]. set (t := topf (epoint i)) in *.
      destruct (end_kept l1 i l2 Hi He EL) as [Fa Fb]. { rewrite <- Ep. exact Hns. }
      destruct (opn_end_interval i t Hi He Tt Ot) as [A1 A2].
      assert (Pip : p_ip p = i_e i) by (rewrite Ep; reflexivity).
      assert (Ploc : p_loc p = i_l t) by (rewrite Ep; reflexivity).
      assert (A3 : i_e i < i_e t).
      { destruct (N.eq_dec (i_e t) (i_e i)) as [E|]; [|lia]. exfalso.
        assert (Het : has_end t = true) by (apply has_end_iff; apply has_end_iff in He; lia).
        unfold opnb in Ot. rewrite Het in Ot. cbn [negb orb] in Ot. apply Bool.andb_true_iff in Ot. destruct Ot as [_ O2].
        rewrite (Fa t Tt Het E) in O2. discriminate. }
      exists t. split; auto. split; auto.
      assert (Et : inE t).
      { unfold inE. split; [lia|]. split; [|intro; lia].
        destruct (N.lt_ge_cases a (i_e t)) as [|Ge]; auto. exfalso.
        assert (Het : has_end t = true) by (apply has_end_iff; lia).
        apply (M2 t Tt Het); auto. lia. }
      split; auto.
      intros j Hj Ej. destruct (inE_start_kept j Hj Ej) as [K1 K2].
      pose proof (Hmax _ K1 K2) as X. unfold keyle in X. apply pt_leb_iff in X. cbn [spoint p_ip] in X.
      rewrite Pip in X.
      assert (Sj : i_s j < i_e i).
      { destruct X as [X|[X1 X2]]; auto. exfalso.
        assert (Y : imask t < imask j) by exact (Fb j Hj X1).
        assert (Z : rp_mlen p <= imask t).
        { pose proof (rp_mlen_le p) as Z. rewrite Ploc in Z. exact Z. }
        destruct (mlen_of_item j Hj) as [[Y1 Y2]|[Y1 Y2]]; [|lia].
        apply Y2. lia. }
      apply Mt; auto. unfold opnb. apply Bool.andb_true_iff. split.
      + apply Bool.negb_true_iff. apply pless_asym. apply pless_ip_lt. cbn. exact Sj.
      + destruct (has_end j); auto. cbn [negb orb]. apply pless_ip_lt. cbn.
        destruct Ej as [_ [Ej _]]. lia.
  Qed.

  Theorem sweep_locate : forall p, pt_seek_aux None (squash_spec (map asg L)) a plen = Some p ->
    exists t, In t its /\ p_loc p = i_l t /\ inE t /\ (forall j, In j its -> inE j -> j = t \/ ilt j t).
  Proof.
    intros p Hseek.
    pose proof (pt_seek_spec (squash_spec (map asg L)) a plen None I) as Sp. rewrite Hseek in Sp.
    destruct Sp as [[Hin|C] [Hle [Hmax _]]]; [|discriminate C].
    apply sweep_locate_gen; auto.
  Qed.

  (* every kept point lies below 2^128 *)
  Lemma kept_ip_lt : forall p, In p (squash_spec (map asg L)) -> p_ip p < two128.
  Proof.
    intros p Hin. destruct (squash_in _ _ Hin) as [o1 [o2 [Eo _]]].
    destruct (map_split asg L o1 p o2 Eo) as [l1 [q [l2 [EL [_ [Ep _]]]]]].
    assert (Hq : In q L) by (rewrite EL; apply in_or_app; right; left; auto).
    rewrite Ep. unfold asg. cbn [p_ip]. apply in_L in Hq. destruct Hq as [i [Hi [ -> |[He -> ]]]].
    - cbn [spoint p_ip]. destruct (H_range i Hi) as [R1 R2]. lia.
    - cbn [epoint p_ip]. apply has_end_iff. exact He.
  Qed.

  (* the search always finds a point: the Start point of the bottom item *)
  Lemma sweep_locate_some : pt_seek_aux None (squash_spec (map asg L)) a plen <> None.
  Proof.
    intro C. pose proof (pt_seek_spec (squash_spec (map asg L)) a plen None I) as Sp. rewrite C in Sp.
    destruct Sp as [_ Sp]. destruct H_bot as [Hb [Bs Be]].
    apply (Sp (spoint bottom)); [apply start_kept; auto|].
    unfold keyle_q. apply pt_leb_iff. cbn [spoint p_ip]. rewrite Bs.
    destruct (N.eq_dec a 0) as [E|]; [|lia]. right. split; auto.
    pose proof (rp_mlen_le (spoint bottom)) as X. cbn in X. unfold imask in H_bot0. lia.
  Qed.
End Sweep.
