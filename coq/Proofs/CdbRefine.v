(* Proofs/CdbRefine: on the serialised image of a written database the byte-level reader
   (bfind_loop / bfind / bnext_all, which follow cdb.go read by read) computes what the
   structured reader computes; and the byte-level Dump prints the structured dump. *)
From DnsV Require Import Base.Bytes Spec.Cdb Model.Cdb Proofs.CdbTable Proofs.CdbFind Proofs.Cdb
  Proofs.CdbText Proofs.CdbBytes Proofs.CdbRead.
From Coq Require Import Lia ZifyN ZifyNat ZifyBool.
Open Scope N_scope.

Lemma bytes_eqb_sym : forall a b, bytes_eqb a b = bytes_eqb b a.
Proof. induction a; destruct b; simpl; auto. rewrite N.eqb_sym. rewrite IHa. auto. Qed.

Lemma land_2047 : forall h, h < 4294967296 -> N.land (w32 (h * 8)) 2047 = 8 * (h mod 256).
Proof.
  intros. change 2047 with (N.ones 11). rewrite N.land_ones. change (2 ^ 11) with 2048.
  unfold w32. zify. Z.div_mod_to_equations. lia.
Qed.

Section Refine.
Variable H : bytes -> N.
Variable kvs : list (bytes * bytes).
Variable img : image.
Hypothesis Hrange : forall k, H k < 4294967296.
Hypothesis Hf : fits32 kvs.
Hypothesis Hw : write H kvs = Ok img.
Variable key : bytes.

Let data := serialize img.
Let dl := nlen data.

Definition tabx (i : N) : N * list slot := nth (N.to_nat i) (itabs img) (0, []).
Definition hp (i : N) : N := fst (tabx i).

Lemma tab_at_tabx : forall i, tab_at img i = snd (tabx i).
Proof. reflexivity. Qed.

Lemma tab_bound_i : forall i, i < 256 -> hp i + 8 * nlen (tab_at img i) <= file_size kvs.
Proof.
  intros i Hi. pose proof (lay_ntabs kvs img (Lay H kvs img Hf Hw)) as Hn.
  destruct (nth_split (itabs img) (0, []) (n := N.to_nat i) ltac:(lia)) as [l1 [l2 [E Hl]]].
  destruct (tab_bounds H kvs img Hrange Hf Hw l1 _ l2 E) as [_ Hb]. exact Hb.
Qed.

Lemma read_header_i : forall i, i < 256 -> read_nums data dl (8 * i) = Some (hp i, nlen (tab_at img i)).
Proof.
  intros i Hi. pose proof (read_header H kvs img Hrange Hf Hw (N.to_nat i) ltac:(lia)) as Hr.
  rewrite N2Nat.id in Hr. exact Hr.
Qed.

Lemma read_slot_i : forall i x, i < 256 -> x < nlen (tab_at img i) ->
  read_nums data dl (hp i + 8 * x) = Some (slot_at (tab_at img i) x).
Proof.
  intros i x Hi Hx.
  pose proof (read_slot H kvs img Hrange Hf Hw (N.to_nat i) (N.to_nat x) ltac:(lia)) as Hr.
  cbv zeta in Hr. rewrite N2Nat.id in Hr. apply Hr.
  rewrite tab_at_tabx in Hx. unfold tabx, nlen in Hx. lia.
Qed.

Definition Rel (c : ctx) (bc : bctx) : Prop :=
  b_loop bc = c_loop c /\ b_khash bc = c_khash c /\ b_hpos bc = hp (c_tab c) /\
  b_hslots bc = c_hslots c /\ b_kpos bc = hp (c_tab c) + 8 * c_kpos c.

Definition Good (c : ctx) : Prop :=
  c_tab c < 256 /\ c_hslots c = nlen (tab_at img (c_tab c)) /\ c_kpos c < c_hslots c.

Lemma loop_sim : forall rem c bc, Rel c bc -> Good c -> c_loop c + N.of_nat rem <= c_hslots c ->
  match find_loop img key c rem with
  | (Found v, c') =>
      exists bc', bfind_loop data dl key bc rem = (BFound, bc') /\ Rel c' bc' /\ Good c' /\
                  c_loop c < c_loop c' /\ c_loop c' <= c_hslots c' /\
                  slice data dl (b_dpos bc') (b_dlen bc') = Some v
  | (Eof, _) => exists bc', bfind_loop data dl key bc rem = (BEof, bc')
  | (Panic, _) => True
  end.
Proof.
  induction rem; intros c bc HR HG Hl.
  - simpl. eauto.
  - destruct HR as [R1 [R2 [R3 [R4 R5]]]]. destruct HG as [G1 [G2 G3]].
    pose proof (tab_bound_i (c_tab c) G1) as Hb. rewrite <- G2 in Hb.
    unfold fits32 in Hf.
    cbn [find_loop bfind_loop].
    rewrite R5. rewrite (read_slot_i (c_tab c) (c_kpos c) G1) by (rewrite <- G2; auto).
    destruct (slot_at (tab_at img (c_tab c)) (c_kpos c)) as [h' pos] eqn:Es.
    destruct (N.eqb_spec pos 0). eauto.
    set (c' := mkCtx (c_loop c + 1) (c_khash c) (if c_kpos c + 1 =? c_hslots c then 0 else c_kpos c + 1)
                     (c_tab c) (c_hslots c)).
    set (bc' := mkB (w32 (b_loop bc + 1)) (b_khash bc)
                    (if w32 (hp (c_tab c) + 8 * c_kpos c + 8) =? w32 (b_hpos bc + w32 (b_hslots bc * 8))
                     then b_hpos bc else w32 (hp (c_tab c) + 8 * c_kpos c + 8))
                    (b_hpos bc) (b_hslots bc) (b_dpos bc) (b_dlen bc)).
    assert (HR' : Rel c' bc').
    { unfold Rel, c', bc'. cbn [b_loop b_khash b_hpos b_hslots b_kpos c_loop c_khash c_tab c_hslots c_kpos].
      rewrite R1, R3, R4. rewrite (w32_small (c_hslots c * 8)) by lia. rewrite !w32_small by lia.
      repeat split; auto.
      destruct (N.eqb_spec (c_kpos c + 1) (c_hslots c));
        destruct (N.eqb_spec (hp (c_tab c) + 8 * c_kpos c + 8) (hp (c_tab c) + c_hslots c * 8)); lia. }
    assert (HG' : Good c').
    { unfold Good, c'. cbn [c_tab c_hslots c_kpos]. repeat split; auto.
      destruct (N.eqb_spec (c_kpos c + 1) (c_hslots c)); lia. }
    assert (Hl' : c_loop c' + N.of_nat rem <= c_hslots c') by (unfold c'; cbn [c_loop c_hslots]; lia).
    assert (Hrec : match find_loop img key c' rem with
                   | (Found v, c'') =>
                       exists bc'', bfind_loop data dl key bc' rem = (BFound, bc'') /\ Rel c'' bc'' /\ Good c'' /\
                                    c_loop c < c_loop c'' /\ c_loop c'' <= c_hslots c'' /\
                                    slice data dl (b_dpos bc'') (b_dlen bc'') = Some v
                   | (Eof, _) => exists bc'', bfind_loop data dl key bc' rem = (BEof, bc'')
                   | (Panic, _) => True
                   end).
    { specialize (IHrem c' bc' HR' HG' Hl').
      destruct (find_loop img key c' rem) as [[v| |] c'']; auto.
      destruct IHrem as [bc'' [E1 [E2 [E3 [E4 [E5 E6]]]]]]. exists bc''.
      split; [exact E1|]. split; [exact E2|]. split; [exact E3|]. split; [|split; [exact E5|exact E6]].
      unfold c' in E4. cbn [c_loop] in E4. lia. }
    fold c'. fold bc'. rewrite R2.
    destruct (N.eqb_spec h' (c_khash c)); auto.
    destruct (rec_at (irecs img) pos) as [[k' v]|] eqn:Er; auto.
    apply rec_at_some_in in Er.
    destruct (read_rec H kvs img Hrange Hf Hw pos k' v Er) as [Hk [Hv [Rn [Sk Sv]]]].
    fold data in Rn, Sk, Sv. fold dl in Rn, Sk, Sv.
    rewrite Rn. rewrite (blen_small k' Hk).
    destruct (N.eqb_spec (nlen k') (blen key)).
    + cbn [andb].
      assert (Hp32 : pos + 8 + nlen k' + nlen v < 4294967296).
      { destruct (in_split _ _ Er) as [l1 [l2 E]].
        destruct (rec_bounds H kvs img Hf Hw l1 _ l2 E) as [_ Hbb]. cbn [fst snd] in Hbb.
        unfold rec_size in Hbb. cbn [fst snd] in Hbb.
        destruct (fits32_data kvs Hf) as [Hd _]. unfold header_size in *. lia. }
      rewrite (w32_small (pos + 8)) by lia. rewrite <- e0. rewrite Sk.
      rewrite (bytes_eqb_sym k' key).
      destruct (bytes_eqb key k') eqn:Ek; auto.
      eexists. split. reflexivity.
      split. { destruct HR' as [A1 [A2 [A3 [A4 A5]]]]. unfold Rel. cbn [b_loop b_khash b_hpos b_hslots b_kpos]. auto. }
      split; auto.
      split. { unfold c'. cbn [c_loop]. lia. }
      split. { unfold c'. cbn [c_loop c_hslots]. lia. }
      cbn [b_dpos b_dlen]. rewrite w32_small by lia. exact Sv.
    + cbn [andb]. auto.
Qed.

(* between two FindNext calls *)
Definition St (c : ctx) (bc : bctx) : Prop :=
  (c_loop c = 0 /\ b_loop bc = 0) \/
  (c_loop c <> 0 /\ Rel c bc /\ Good c /\ c_loop c <= c_hslots c).

Lemma find_sim : forall c bc, St c bc ->
  match find H img key c with
  | (Found v, c') =>
      exists bc', bfind H data dl key bc = (BFound, bc') /\ St c' bc' /\
                  slice data dl (b_dpos bc') (b_dlen bc') = Some v
  | (Eof, _) => exists bc', bfind H data dl key bc = (BEof, bc')
  | (Panic, _) => True
  end.
Proof.
  intros c bc [[L1 L2]|[L1 [HR [HG L2]]]]; unfold find, bfind.
  - rewrite L1, L2. cbn [N.eqb].
    set (h := H key). set (i := h mod 256).
    assert (Hi : i < 256) by (apply N.mod_lt; lia).
    rewrite (land_2047 h (Hrange key)). fold i. rewrite (read_header_i i Hi).
    destruct (N.eqb_spec (nlen (tab_at img i)) 0). eauto.
    pose proof (tab_bound_i i Hi) as Hb. unfold fits32 in Hf.
    assert (Hs : (h / 256) mod nlen (tab_at img i) < nlen (tab_at img i)) by (apply N.mod_lt; auto).
    set (c1 := mkCtx 0 h ((h / 256) mod nlen (tab_at img i)) i (nlen (tab_at img i))).
    set (bc1 := mkB 0 h (w32 (hp i + w32 ((h / 256) mod nlen (tab_at img i) * 8))) (hp i) (nlen (tab_at img i))
                    (b_dpos bc) (b_dlen bc)).
    assert (HR : Rel c1 bc1).
    { unfold Rel, c1, bc1. cbn [b_loop b_khash b_hpos b_hslots b_kpos c_loop c_khash c_tab c_hslots c_kpos].
      rewrite (w32_small ((h / 256) mod nlen (tab_at img i) * 8)) by lia.
      rewrite w32_small by lia. repeat split; auto. lia. }
    assert (HG : Good c1) by (unfold Good, c1; cbn [c_tab c_hslots c_kpos]; auto).
    pose proof (loop_sim (N.to_nat (nlen (tab_at img i))) c1 bc1 HR HG
                  ltac:(unfold c1; cbn [c_loop c_hslots]; lia)) as Hsim.
    destruct (find_loop img key c1 (N.to_nat (nlen (tab_at img i)))) as [[v| |] c']; auto.
    destruct Hsim as [bc' [E1 [E2 [E3 [E4 [E5 E6]]]]]].
    exists bc'. split; auto. split; auto. right.
    split; [|split; [exact E2|split; [exact E3|exact E5]]]. unfold c1 in E4. cbn [c_loop] in E4. lia.
  - destruct (N.eqb_spec (c_loop c) 0); try contradiction.
    destruct HR as [R1 [R2 [R3 [R4 R5]]]].
    destruct (N.eqb_spec (b_loop bc) 0); try lia.
    rewrite R1, R4.
    pose proof (loop_sim (N.to_nat (c_hslots c - c_loop c)) c bc (conj R1 (conj R2 (conj R3 (conj R4 R5)))) HG
                  ltac:(lia)) as Hsim.
    destruct (find_loop img key c (N.to_nat (c_hslots c - c_loop c))) as [[v| |] c']; auto.
    destruct Hsim as [bc' [E1 [E2 [E3 [E4 [E5 E6]]]]]].
    exists bc'. split; auto. split; auto. right.
    split; [|split; [exact E2|split; [exact E3|exact E5]]]. lia.
Qed.

Lemma next_all_sim : forall f1 c bc l, St c bc -> next_all H img key c f1 = Ok l ->
  forall f2, (length l < f2)%nat -> bnext_all H data dl key bc f2 = Ok l.
Proof.
  induction f1; intros c bc l HS Hn f2 Hl. discriminate.
  cbn [next_all] in Hn. pose proof (find_sim c bc HS) as Hsim.
  destruct (find H img key c) as [[v| |] c'].
  - destruct Hsim as [bc' [E1 [E2 E3]]].
    destruct (next_all H img key c' f1) as [l'|] eqn:En; simpl in Hn; inversion Hn; subst l.
    destruct f2; simpl in Hl; try lia.
    cbn [bnext_all]. rewrite E1, E3. rewrite (IHf1 c' bc' l' E2 En f2) by lia. reflexivity.
  - inversion Hn; subst l. destruct Hsim as [bc' E1].
    destruct f2; simpl in Hl; try lia. cbn [bnext_all]. rewrite E1. auto.
  - discriminate.
Qed.

(* the byte-level reader on the file returns exactly the values written under the key *)
Theorem serialize_read : bfind_all H (serialize img) key = Ok (spec_vals kvs key).
Proof.
  pose proof (lookup_exact H kvs img key Hf Hw) as Hl. unfold find_all in Hl.
  unfold bfind_all. fold data. fold dl.
  assert (HS : St (find_start ctx0) bctx0) by (left; split; reflexivity).
  apply (next_all_sim _ _ bctx0 _ HS Hl).
  (* fuel: one value per pair at most, and the file has at least 16 bytes per pair *)
  unfold spec_vals. rewrite map_length.
  pose proof (filter_length_le (key_eqb key) kvs).
  pose proof (dl_eq H kvs img Hf Hw) as Hd. fold data in Hd. fold dl in Hd. unfold dl, nlen in Hd.
  unfold file_size, nlen in Hd. lia.
Qed.

End Refine.

(* ------------------------------------------------------------------ byte-level Dump *)

Lemma rd_num_u32 : forall a rest, a < 4294967296 -> rd_num (u32le a ++ rest) = Some (a, rest).
Proof. intros. unfold u32le. cbn [app rd_num]. rewrite u32_roundtrip by auto. reflexivity. Qed.

Lemma bdump_loop_recs : forall kvs pos eod tail fuel,
  pos + data_size kvs = eod -> eod < 4294967296 -> (length kvs < fuel)%nat ->
  bdump_loop (concat (map ser_rec (recs_from pos kvs)) ++ tail) pos eod fuel = Ok (dump_text kvs).
Proof.
  induction kvs as [|[k v] kvs]; intros pos eod tail fuel He H32 Hfu.
  - destruct fuel; try (simpl in Hfu; lia). cbn [bdump_loop]. simpl in He.
    destruct (N.ltb_spec pos eod); try lia. reflexivity.
  - destruct fuel; try (simpl in Hfu; lia).
    cbn [data_size] in He. unfold rec_size in He. cbn [fst snd] in He.
    cbn [recs_from map concat bdump_loop].
    destruct (N.ltb_spec pos eod); try lia.
    unfold ser_rec at 1. cbn [fst snd]. rewrite !blen_small by lia.
    rewrite <- !app_assoc.
    rewrite rd_num_u32 by lia. rewrite rd_num_u32 by lia.
    rewrite take_n_app. rewrite take_n_app.
    assert (Enext : next_pos pos (k, v) = pos + 8 + nlen k + nlen v).
    { unfold next_pos. cbn [fst snd]. rewrite !blen_small by lia. apply w32_small. lia. }
    rewrite Enext. rewrite w32_small by lia.
    rewrite (IHkvs (pos + 8 + nlen k + nlen v) eod tail fuel); try lia.
    + cbn [rbind dump_text]. rewrite dump_rec_app. rewrite !blen_small by lia. reflexivity.
    + simpl in Hfu. lia.
Qed.

Theorem serialize_dump : forall H kvs img, fits32 kvs -> write H kvs = Ok img ->
  bdump (serialize img) = Ok (dump img).
Proof.
  intros H kvs img Hf Hw.
  pose proof (write_layout H kvs img Hf Hw) as L.
  destruct (fits32_data kvs Hf) as [Hd _].
  pose proof (lay_ntabs kvs img L) as Hn.
  pose proof (lay_chain kvs img L) as Hc.
  pose proof (lay_size kvs img L) as Hs.
  unfold bdump.
  assert (Hnl : (nlen (serialize img) <? header_size) = false).
  { apply N.ltb_ge. rewrite Hs. unfold file_size, header_size. lia. }
  rewrite Hnl.
  assert (Hrd : exists rest, rd_num (serialize img) = Some (header_size + data_size kvs, rest)).
  { unfold serialize. destruct (itabs img) as [|x0 tabs] eqn:Et; try (simpl in Hn; lia).
    destruct Hc as [Hx0 _].
    unfold ser_header. cbn [map concat]. rewrite <- !app_assoc.
    rewrite rd_num_u32 by (rewrite Hx0; unfold header_size; lia). rewrite Hx0. eauto. }
  destruct Hrd as [rest Hrd]. rewrite Hrd.
  assert (Hsk : skipn (N.to_nat header_size) (serialize img) =
                concat (map ser_rec (irecs img)) ++ concat (map ser_table (itabs img))).
  { unfold serialize. apply skipn_app_exact.
    pose proof (ser_header_len (itabs img)) as Hh. unfold nlen in Hh. rewrite Hn in Hh.
    unfold header_size. lia. }
  rewrite Hsk. unfold dump. rewrite (lay_recs kvs img L), recs_kvs.
  unfold file_size, nlen in Hs. unfold header_size in *.
  apply bdump_loop_recs; auto; lia.
Qed.

(* Dump then Make at the byte level: the file is reproduced byte for byte *)
Theorem bytes_dump_make : forall H kvs img, fits32 kvs -> write H kvs = Ok img ->
  exists text, bdump (serialize img) = Ok text /\ bmake H text = Ok (serialize img).
Proof.
  intros H kvs img Hf Hw. exists (dump img). split.
  - apply (serialize_dump H kvs); auto.
  - unfold bmake. rewrite (dump_make H kvs img Hf Hw). reflexivity.
Qed.
