(* Proofs about Model/Store: seek_prev is SeekForPrev. *)
From DnsV Require Import Base.Bytes Model.Store.
Open Scope N_scope.

Lemma seek_prev_from_le : forall s probe best k v,
  (forall bk bv, best = Some (bk, bv) -> bleb bk probe = true) ->
  seek_prev_from best s probe = Some (k, v) -> bleb k probe = true.
Proof.
  induction s as [|[k' v'] t IH]; intros probe best k v Hb H; cbn [seek_prev_from] in H.
  - exact (Hb k v H).
  - destruct (bleb k' probe) eqn:E.
    + destruct best as [[bk bv]|].
      * destruct (bltb bk k'); eapply IH; try exact H; intros ? ? X; inversion X; subst; auto.
        eapply Hb; reflexivity.
      * eapply IH; try exact H. intros ? ? X; inversion X; subst; auto.
    + eapply IH; eauto.
Qed.

(* the key SeekForPrev lands on is not greater than the probe *)
Lemma seek_prev_le : forall s probe k v, seek_prev s probe = Some (k, v) -> bleb k probe = true.
Proof. intros. eapply seek_prev_from_le; [|exact H]. intros; discriminate. Qed.

Lemma seek_prev_from_in : forall s probe best k v,
  seek_prev_from best s probe = Some (k, v) -> best = Some (k, v) \/ In (k, v) s.
Proof.
  induction s as [|[k' v'] t IH]; intros probe best k v H; cbn [seek_prev_from] in H.
  - left; exact H.
  - destruct (bleb k' probe).
    + destruct best as [[bk bv]|].
      * destruct (bltb bk k').
        -- destruct (IH _ _ _ _ H) as [X|X]; [inversion X; subst; right; left; reflexivity | right; right; exact X].
        -- destruct (IH _ _ _ _ H) as [X|X]; [left; exact X | right; right; exact X].
      * destruct (IH _ _ _ _ H) as [X|X]; [inversion X; subst; right; left; reflexivity | right; right; exact X].
    + destruct (IH _ _ _ _ H) as [X|X]; [left; exact X | right; right; exact X].
Qed.
(* and it is a key of the store, returned with its own rows *)
Lemma seek_prev_in : forall s probe k v, seek_prev s probe = Some (k, v) -> In (k, v) s.
Proof. intros. destruct (seek_prev_from_in _ _ _ _ _ H) as [X|X]; [discriminate | exact X]. Qed.
