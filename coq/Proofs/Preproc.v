(* Proofs/Preproc: a well-formed data file and its preprocessed form compile to the same
   records (C09, file level).  The rearranger is a parameter; see Model/Preproc.v. *)
From DnsV Require Import Model.Text Model.Preproc Proofs.Quote Proofs.TextBase Proofs.TextNames
  Proofs.TextRecords Proofs.Text.
From Coq Require Import Permutation ZifyN ZifyNat ZifyBool.
Open Scope N_scope.

Section Pre.
Variable o : toracles.
Variable v2 : bool.
Variables serial pserial : N.
Variable rearrange : list record -> list record.
Variable Hip_rt : forall a, wf_bytes a -> length a = 16%nat -> o_parse_ip o (o_print_ip o a) = Some a.
Variable Hip_nil : o_parse_ip o [] = None.
Variable Hip_nosep : forall a, contains 44 (o_print_ip o a) = false.
(* the compiler's default serial is a uint32; the preprocessor runs with the same serial or with none *)
Variable Hser : serial <= max32.
Variable Hps : pserial = serial \/ pserial = 0.
(* the rearranger: nothing from nothing; its points are well-formed range-point records *)
Variable Hre_nil : rearrange [] = [].
Variable Hre_rp : forall ns r, In r (rearrange ns) ->
  (exists lmap ip ml null locid, r = RRangePoint lmap ip ml null locid) /\ wf_recordb o r = true.

(* a line both tools skip, or a line of at least two bytes that does not start with a space,
   parses to a well-formed record the accumulator accepts (only % lines feed it), and - for a
   Z line - is outside the recorded finding F12 *)
Definition line_ok (l : bytes) : Prop :=
  is_ignored l = true \/
  ((2 <= length l)%nat /\ nth 0 l 0 <> 32 /\
   exists r ns, parse_line o serial l = Ok r /\ wf_recordb o r = true /\ dot_serial_okb serial r = true /\
     acc_update r = Ok ns /\ (nth 0 l 0 <> 37 -> ns = []) /\
     (nth 0 l 0 = 90 -> finding_class o serial r = false)).
Definition wf_file (f : list bytes) : Prop := Forall line_ok f.

(* ------------------------------------------------------------------ shapes of parsed % and Z lines *)
Lemma parse_pct : forall s b r, parse_line o s (37 :: b) = Ok r ->
  (exists lo ip ones lmap, r = RNet lo ip ones lmap) /\ forall s', parse_line o s' (37 :: b) = Ok r.
Proof.
  intros s b r H. unfold parse_line in *. cbn [N.eqb Pos.eqb orb] in *.
  destruct (getloc (fld (fields (37 :: b)) 0)); [|discriminate H]. cbn [rbind] in *.
  destruct (parse_net o (fld (fields (37 :: b)) 1)); [|discriminate H]. cbn [rbind] in *.
  inversion H; subst. split; [do 4 eexists; reflexivity|]. intros. reflexivity.
Qed.

Lemma parse_Z : forall s b r, parse_line o s (90 :: b) = Ok r ->
  exists dom ns adm f3 ref ret exp min ttl lo,
    r = RSoa dom ns adm (getuint max32 f3 s) ref ret exp min ttl lo /\
    forall s', parse_line o s' (90 :: b) = Ok (RSoa dom ns adm (getuint max32 f3 s') ref ret exp min ttl lo).
Proof.
  intros s b r H. unfold parse_line in *. cbn [N.eqb Pos.eqb orb] in *.
  destruct (getloc (fld (fields (90 :: b)) 10)); [|discriminate H]. cbn [rbind] in *.
  inversion H; subst. do 10 eexists. split; [reflexivity|]. intros. reflexivity.
Qed.

Lemma ser_fix : forall f3,
  negb ((getuint max32 f3 serial =? 0) && negb (serial =? 0)) = true ->
  (if getuint max32 f3 pserial =? 0 then serial else getuint max32 f3 pserial) =
  (if getuint max32 f3 serial =? 0 then serial else getuint max32 f3 serial).
Proof.
  intros f3 H. unfold getuint in *. destruct (parse_uint max32 f3); [reflexivity|].
  destruct Hps as [-> | ->]; [reflexivity|]. cbn [N.eqb]. destruct (N.eqb_spec serial 0); [congruence|reflexivity].
Qed.

Lemma u32_getuint : forall f3 s, s <= max32 -> u32b (getuint max32 f3 s) = true.
Proof.
  intros f3 s H. unfold u32b, getuint, parse_uint. destruct f3; [lia|].
  destruct (dec_val (n :: f3) 0); [|lia]. destruct (N.leb_spec n0 max32); lia.
Qed.

Lemma wf_soa_ser : forall dom ns adm ser ser' ref ret exp min ttl lo,
  wf_recordb o (RSoa dom ns adm ser ref ret exp min ttl lo) = true -> u32b ser' = true ->
  wf_recordb o (RSoa dom ns adm ser' ref ret exp min ttl lo) = true.
Proof.
  intros until lo. cbn [wf_recordb]. intros H U. rewrite !andb_true_iff in H.
  destruct H as [[[[[[[[[A B] C] D] E] F] G] I] J] K].
  rewrite A, B, C, U, E, F, G, I, J, K. reflexivity.
Qed.

Lemma line_of_len : forall t f0 f1 rest, (2 <= length (line_of t (f0 :: f1 :: rest)))%nat.
Proof.
  intros. unfold line_of. cbn [length joinb]. rewrite app_length. cbn [length]. lia.
Qed.

Lemma trim_id : forall l, nth 0 l 0 <> 32 -> trim_spaces l = l.
Proof.
  intros [|c t] H; [reflexivity|]. cbn [nth] in H. cbn [trim_spaces]. destruct (N.eqb_spec c 32); [contradiction|reflexivity].
Qed.

(* ------------------------------------------------------------------ one line *)
Lemma compile_go_single : forall l k, compile_line o v2 serial l = Ok (k, []) ->
  compile_go o v2 serial [l] = Ok (k, []).
Proof. intros l k H. cbn [compile_go]. rewrite H. cbn [rbind fst snd]. rewrite app_nil_r. reflexivity. Qed.

Lemma line_step : forall l, line_ok l ->
  exists k n b, compile_line o v2 serial l = Ok (k, n) /\ pre_line o pserial l = Ok (b, n) /\
                compile_go o v2 serial b = Ok (k, []).
Proof.
  intros l H. destruct (is_ignored l) eqn:Ig.
  { exists [], [], []. unfold compile_line, pre_line. rewrite Ig.
    destruct l as [|c t]; [repeat split; reflexivity|].
    cbn [is_ignored] in Ig. apply N.eqb_eq in Ig. subst c.
    cbn [trim_spaces N.eqb Pos.eqb]. unfold compile_skips. cbn [nth N.eqb Pos.eqb]. rewrite orb_true_r.
    repeat split; reflexivity. }
  destruct H as [H|(L & Sp & r & ns & P & W & S & A & An & Fz)]; [congruence|].
  destruct l as [|c t]; [discriminate Ig|]. cbn [nth] in *. cbn [is_ignored] in Ig.
  assert (Sk : compile_skips (c :: t) = false).
  { unfold compile_skips. cbn [nth]. rewrite Ig. destruct (Nat.ltb_spec (length (c :: t)) 2); [lia|reflexivity]. }
  assert (CL : compile_line o v2 serial (c :: t) = Ok (convert v2 true r, ns)).
  { unfold compile_line. rewrite trim_id by (cbn [nth]; assumption). rewrite Sk, P. cbn [rbind]. rewrite A. reflexivity. }
  unfold pre_line. cbn [is_ignored nth]. rewrite Ig.
  destruct (N.eqb_spec c 37) as [->|N37].
  - (* % *)
    destruct (parse_pct _ _ _ P) as [(lo & ip & ones & lmap & ->) Ps].
    exists [], ns, []. rewrite CL, (Ps pserial). cbn [rbind]. rewrite A. cbn [rbind convert].
    repeat split; reflexivity.
  - destruct (N.eqb_spec c 90) as [->|N90].
    + (* Z *)
      destruct (parse_Z _ _ _ P) as (dom & nsn & adm & f3 & ref & ret & exp & min & ttl & lo & -> & Ps).
      specialize (Fz eq_refl). specialize (An ltac:(lia)). subst ns.
      set (rs := RSoa dom nsn adm (getuint max32 f3 serial) ref ret exp min ttl lo) in *.
      set (rp := RSoa dom nsn adm (getuint max32 f3 pserial) ref ret exp min ttl lo).
      assert (Wp : wf_recordb o rp = true).
      { unfold rp. eapply wf_soa_ser; [exact W|].
        apply u32_getuint. destruct Hps as [-> | ->]; [assumption|unfold max32; lia]. }
      assert (F12 : negb ((getuint max32 f3 serial =? 0) && negb (serial =? 0)) = true).
      { unfold finding_class in Fz. unfold rs in Fz. cbn [f12_class f26_class f27_class] in Fz.
        rewrite !orb_false_r in Fz. rewrite Fz. reflexivity. }
      assert (PN : parse_line o serial (marshal o rp) = Ok (norm serial rs)).
      { unfold rp. rewrite (parse_soa o serial) by assumption. unfold rs. cbn [norm]. rewrite ser_fix by assumption. reflexivity. }
      exists (convert v2 true rs), [], [marshal o rp]. rewrite CL, (Ps pserial). cbn [rbind].
      split; [reflexivity|]. split; [reflexivity|].
      apply compile_go_single. unfold compile_line.
      assert (Sp' : nth 0 (marshal o rp) 0 <> 32) by (unfold rp, marshal, line_of; cbn [nth]; lia).
      rewrite trim_id by assumption.
      assert (Sk' : compile_skips (marshal o rp) = false).
      { unfold compile_skips. unfold rp at 2. unfold marshal at 2. unfold line_of at 1. cbn [nth N.eqb Pos.eqb].
        rewrite orb_false_r. apply Nat.ltb_ge. unfold rp, marshal. apply line_of_len. }
      rewrite Sk', PN. cbn [rbind]. unfold rs at 1. cbn [norm acc_update rbind].
      fold (norm serial rs).
      rewrite (convert_norm o serial) by assumption. reflexivity.
    + (* any other line is written as it is *)
      specialize (An N37). subst ns.
      exists (convert v2 true r), [], [c :: t]. rewrite CL. repeat split; try reflexivity.
      apply compile_go_single. assumption.
Qed.

(* ------------------------------------------------------------------ the whole file *)
Lemma compile_go_app : forall a b ka na kb nb,
  compile_go o v2 serial a = Ok (ka, na) -> compile_go o v2 serial b = Ok (kb, nb) ->
  compile_go o v2 serial (a ++ b) = Ok (ka ++ kb, na ++ nb).
Proof.
  induction a as [|l a IH]; intros b ka na kb nb Ha Hb.
  - cbn in Ha. inversion Ha; subst. assumption.
  - cbn [app compile_go] in *. destruct (compile_line o v2 serial l) as [[k n]|]; [|discriminate Ha].
    cbn [rbind] in *. destruct (compile_go o v2 serial a) as [[k' n']|] eqn:E; [|discriminate Ha].
    cbn [rbind fst snd] in *. inversion Ha; subst. rewrite (IH b k' n' kb nb eq_refl Hb).
    cbn [rbind fst snd]. rewrite !app_assoc. reflexivity.
Qed.

Lemma file_steps : forall f, wf_file f ->
  exists K N B, compile_go o v2 serial f = Ok (K, N) /\ pre_go o pserial f = Ok (B, N) /\
                compile_go o v2 serial B = Ok (K, []).
Proof.
  induction 1 as [|l f Hl Hf IH].
  - exists [], [], []. repeat split; reflexivity.
  - destruct IH as (K & N & B & C1 & P1 & C2).
    destruct (line_step l Hl) as (k & n & b & c1 & p1 & c2).
    exists (k ++ K), (n ++ N), (b ++ B). cbn [compile_go pre_go]. rewrite c1, p1, C1, P1. cbn [rbind fst snd].
    repeat split; try reflexivity.
    rewrite (compile_go_app b B k [] K [] c2 C2). reflexivity.
Qed.

Lemma compile_points : forall pts,
  (forall r, In r pts -> (exists lmap ip ml null locid, r = RRangePoint lmap ip ml null locid) /\ wf_recordb o r = true) ->
  compile_go o v2 serial (map (marshal o) pts) = Ok (flat_map (convert v2 true) pts, []).
Proof.
  induction pts as [|r pts IH]; intros H; [reflexivity|].
  destruct (H r (or_introl eq_refl)) as [(lmap & ip & ml & null & locid & ->) W].
  cbn [map compile_go flat_map].
  rewrite IH by (intros; apply H; right; assumption).
  assert (CL : compile_line o v2 serial (marshal o (RRangePoint lmap ip ml null locid)) =
               Ok (convert v2 true (RRangePoint lmap ip ml null locid), [])).
  { unfold compile_line.
    assert (Sp : nth 0 (marshal o (RRangePoint lmap ip ml null locid)) 0 <> 32) by (unfold marshal, line_of; cbn [nth]; lia).
    rewrite trim_id by assumption.
    assert (Sk : compile_skips (marshal o (RRangePoint lmap ip ml null locid)) = false).
    { unfold compile_skips. unfold marshal at 2. unfold line_of at 1. cbn [nth N.eqb Pos.eqb].
      rewrite orb_false_r. apply Nat.ltb_ge. unfold marshal. cbn [app]. apply line_of_len. }
    rewrite Sk. rewrite (parse_rangepoint o serial Hip_rt Hip_nosep) by assumption. cbn [rbind norm acc_update].
    destruct null; reflexivity. }
  rewrite CL. cbn [rbind fst snd]. reflexivity.
Qed.

(* C09, file level: the original file and the preprocessor's output hand the same records to the
   database writer (in the model's order even the same list; for any order in which the
   per-map goroutines deliver the '!' lines, a permutation of it) *)
Theorem preproc_same_db : forall f, wf_file f ->
  exists body nets kvs,
    pre_go o pserial f = Ok (body, nets) /\
    preprocess o rearrange pserial f = Ok (body ++ map (marshal o) (rearrange nets)) /\
    compile o rearrange v2 serial f = Ok kvs /\
    forall pts, Permutation pts (rearrange nets) ->
      exists kvs', compile o rearrange v2 serial (body ++ map (marshal o) pts) = Ok kvs' /\
                   Permutation kvs' kvs.
Proof.
  intros f Wf. destruct (file_steps f Wf) as (K & N & B & C1 & P1 & C2).
  exists B, N, (K ++ flat_map (convert v2 true) (rearrange N) ++ [feature_kv v2]).
  split; [assumption|]. split; [unfold preprocess; rewrite P1; reflexivity|].
  split; [unfold compile; rewrite C1; reflexivity|].
  intros pts Pm.
  assert (Hp : forall r, In r pts ->
            (exists lmap ip ml null locid, r = RRangePoint lmap ip ml null locid) /\ wf_recordb o r = true).
  { intros r Hr. apply (Hre_rp N). eapply Permutation_in; eassumption. }
  exists (K ++ flat_map (convert v2 true) pts ++ [feature_kv v2]). split.
  - unfold compile. rewrite (compile_go_app B (map (marshal o) pts) K [] _ [] C2 (compile_points pts Hp)).
    cbn [rbind fst snd app]. rewrite Hre_nil. cbn [flat_map app]. rewrite <- app_assoc. reflexivity.
  - apply Permutation_app_head. apply Permutation_app_tail. apply Permutation_flat_map. assumption.
Qed.

(* ------------------------------------------------------------------ lines written through untouched *)
(* Scan writes every line whose first byte is neither '%' nor 'Z' (and that is not empty or a comment)
   exactly as it read it: no byte is added or removed, in particular no white space at either end *)
Lemma pre_line_exact : forall l, is_ignored l = false -> nth 0 l 0 <> 37 -> nth 0 l 0 <> 90 ->
  pre_line o pserial l = Ok ([l], []).
Proof.
  intros l Ig N37 N90. unfold pre_line. rewrite Ig.
  destruct (N.eqb_spec (nth 0 l 0) 37); [contradiction|].
  destruct (N.eqb_spec (nth 0 l 0) 90); [contradiction|]. reflexivity.
Qed.

(* the guard widened by such lines: besides line_ok, any written-through line that the compiler - whose
   reader strips leading blanks and nothing else - skips or accepts without feeding the accumulator.
   This covers lines that begin with blanks (not % lines: those would reach the compiler's accumulator
   but not the preprocessor's), white-space lines shorter than two bytes once the blanks are gone, and
   any white space at the END of a line, which belongs to the last field. *)
Definition line_ok_ws (l : bytes) : Prop :=
  line_ok l \/
  (is_ignored l = false /\ nth 0 l 0 <> 37 /\ nth 0 l 0 <> 90 /\
   exists k, compile_line o v2 serial l = Ok (k, [])).
Definition wf_file_ws (f : list bytes) : Prop := Forall line_ok_ws f.

Lemma line_step_ws : forall l, line_ok_ws l ->
  exists k n b, compile_line o v2 serial l = Ok (k, n) /\ pre_line o pserial l = Ok (b, n) /\
                compile_go o v2 serial b = Ok (k, []).
Proof.
  intros l [H|(Ig & N37 & N90 & k & C)]; [apply line_step; assumption|].
  exists k, [], [l]. split; [assumption|]. split; [apply pre_line_exact; assumption|].
  apply compile_go_single. assumption.
Qed.

Lemma file_steps_ws : forall f, wf_file_ws f ->
  exists K N B, compile_go o v2 serial f = Ok (K, N) /\ pre_go o pserial f = Ok (B, N) /\
                compile_go o v2 serial B = Ok (K, []).
Proof.
  induction 1 as [|l f Hl Hf IH].
  - exists [], [], []. repeat split; reflexivity.
  - destruct IH as (K & N & B & C1 & P1 & C2).
    destruct (line_step_ws l Hl) as (k & n & b & c1 & p1 & c2).
    exists (k ++ K), (n ++ N), (b ++ B). cbn [compile_go pre_go]. rewrite c1, p1, C1, P1. cbn [rbind fst snd].
    repeat split; try reflexivity.
    rewrite (compile_go_app b B k [] K [] c2 C2). reflexivity.
Qed.

Theorem preproc_same_db_ws : forall f, wf_file_ws f ->
  exists body nets kvs,
    pre_go o pserial f = Ok (body, nets) /\
    preprocess o rearrange pserial f = Ok (body ++ map (marshal o) (rearrange nets)) /\
    compile o rearrange v2 serial f = Ok kvs /\
    forall pts, Permutation pts (rearrange nets) ->
      exists kvs', compile o rearrange v2 serial (body ++ map (marshal o) pts) = Ok kvs' /\
                   Permutation kvs' kvs.
Proof.
  intros f Wf. destruct (file_steps_ws f Wf) as (K & N & B & C1 & P1 & C2).
  exists B, N, (K ++ flat_map (convert v2 true) (rearrange N) ++ [feature_kv v2]).
  split; [assumption|]. split; [unfold preprocess; rewrite P1; reflexivity|].
  split; [unfold compile; rewrite C1; reflexivity|].
  intros pts Pm.
  assert (Hp : forall r, In r pts ->
            (exists lmap ip ml null locid, r = RRangePoint lmap ip ml null locid) /\ wf_recordb o r = true).
  { intros r Hr. apply (Hre_rp N). eapply Permutation_in; eassumption. }
  exists (K ++ flat_map (convert v2 true) pts ++ [feature_kv v2]). split.
  - unfold compile. rewrite (compile_go_app B (map (marshal o) pts) K [] _ [] C2 (compile_points pts Hp)).
    cbn [rbind fst snd app]. rewrite Hre_nil. cbn [flat_map app]. rewrite <- app_assoc. reflexivity.
  - apply Permutation_app_head. apply Permutation_app_tail. apply Permutation_flat_map. assumption.
Qed.

End Pre.

(* the statement with the library premises first (Properties/C09.v) *)
Lemma preproc_stmt : forall o,
  (forall a, wf_bytes a -> length a = 16%nat -> o_parse_ip o (o_print_ip o a) = Some a) ->
  o_parse_ip o [] = None ->
  (forall a, contains 44 (o_print_ip o a) = false) ->
  forall v2 serial pserial rearrange,
  serial <= max32 ->
  pserial = serial \/ pserial = 0 ->
  rearrange [] = [] ->
  (forall ns r, In r (rearrange ns) ->
     (exists lmap ip ml null locid, r = RRangePoint lmap ip ml null locid) /\ wf_recordb o r = true) ->
  forall f, wf_file o serial f ->
  exists body nets kvs,
    pre_go o pserial f = Ok (body, nets) /\
    preprocess o rearrange pserial f = Ok (body ++ map (marshal o) (rearrange nets)) /\
    compile o rearrange v2 serial f = Ok kvs /\
    forall pts, Permutation pts (rearrange nets) ->
      exists kvs', compile o rearrange v2 serial (body ++ map (marshal o) pts) = Ok kvs' /\
                   Permutation kvs' kvs.
Proof. intros o H1 H2 H3 v2 serial pserial rearrange. exact (preproc_same_db o v2 serial pserial rearrange H1 H2 H3). Qed.

Lemma preproc_ws_stmt : forall o,
  (forall a, wf_bytes a -> length a = 16%nat -> o_parse_ip o (o_print_ip o a) = Some a) ->
  o_parse_ip o [] = None ->
  (forall a, contains 44 (o_print_ip o a) = false) ->
  forall v2 serial pserial rearrange,
  serial <= max32 ->
  pserial = serial \/ pserial = 0 ->
  rearrange [] = [] ->
  (forall ns r, In r (rearrange ns) ->
     (exists lmap ip ml null locid, r = RRangePoint lmap ip ml null locid) /\ wf_recordb o r = true) ->
  forall f, wf_file_ws o v2 serial f ->
  exists body nets kvs,
    pre_go o pserial f = Ok (body, nets) /\
    preprocess o rearrange pserial f = Ok (body ++ map (marshal o) (rearrange nets)) /\
    compile o rearrange v2 serial f = Ok kvs /\
    forall pts, Permutation pts (rearrange nets) ->
      exists kvs', compile o rearrange v2 serial (body ++ map (marshal o) pts) = Ok kvs' /\
                   Permutation kvs' kvs.
Proof. intros o H1 H2 H3 v2 serial pserial rearrange. exact (preproc_same_db_ws o v2 serial pserial rearrange H1 H2 H3). Qed.

(* non-vacuity for white space: 'motd.example.org,hello world<blank> (the blank is part of the text),
   a line of one blank, a line of one TAB, and an indented TXT line ending in a TAB: the file is in the widened
   guard, the preprocessor writes the four lines byte for byte, both texts compile to the same records,
   and the first record's data ends with the blank *)
Definition ws_l1 : bytes :=
  [39;109;111;116;100;46;101;120;97;109;112;108;101;46;111;114;103;44;104;101;108;108;111;32;119;111;114;108;100;32].
Definition ws_l4 : bytes := [32;32;39;120;46;101;120;97;109;112;108;101;46;111;114;103;44;97;9].
Definition ws_file : list bytes := [ws_l1; [32]; [9]; ws_l4].

Lemma ws_file_example :
  wf_file_ws o_plain false 7 ws_file /\
  preprocess o_plain (fun _ => []) 7 ws_file = Ok ws_file /\
  exists k v rest, compile o_plain (fun _ => []) false 7 ws_file = Ok ((k, v) :: rest) /\
    last v 0 = 32 /\ length rest = 2%nat.
Proof.
  split; [|split].
  - unfold wf_file_ws, ws_file. constructor; [|constructor; [|constructor; [|constructor; [|constructor]]]];
      right; (split; [reflexivity|]); (split; [cbn; lia|]); (split; [cbn; lia|]); eexists; vm_compute; reflexivity.
  - vm_compute. reflexivity.
  - destruct (compile o_plain (fun _ => []) false 7 ws_file) as [kvs|] eqn:E; [|vm_compute in E; discriminate E].
    vm_compute in E. inversion E; subst kvs. clear E.
    do 3 eexists. split; [reflexivity|]. split; reflexivity.
Qed.

(* ------------------------------------------------------------------ the finding at file level *)
(* the two-line file of the F12 witness: preprocessing (serial 7) changes the compiled SOA value *)
Lemma preproc_f12_refuted :
  let f := [f12_line] in
  exists out k1 k2, preprocess o_plain (fun _ => []) 7 f = Ok out /\
    compile o_plain (fun _ => []) false 7 f = Ok k1 /\ compile o_plain (fun _ => []) false 7 out = Ok k2 /\
    ~ Permutation k2 k1.
Proof.
  cbv zeta.
  destruct (preprocess o_plain (fun _ => []) 7 [f12_line]) as [out|] eqn:E; [|vm_compute in E; discriminate E].
  vm_compute in E. inversion E; subst out. clear E.
  eexists. eexists. eexists. split; [reflexivity|]. split; [vm_compute; reflexivity|]. split; [vm_compute; reflexivity|].
  intros P. apply Permutation_length_2_inv in P. destruct P as [P|P]; inversion P.
Qed.

(* ------------------------------------------------------------------ non-vacuity at file level *)
(* a four-line file: comment, subnet 10.0.0.0/8 -> location "ab" in map "m1", SOA without serial, address *)
Definition fx_net_text : bytes := [49;48;46;48;46;48;46;48;47;56].            (* 10.0.0.0/8 *)
Definition fx_ip : bytes := [0;0;0;0;0;0;0;0;0;0;255;255;10;0;0;0].
Definition fx_ip_text : bytes := [49;48;46;48;46;48;46;48].                   (* 10.0.0.0 *)
Definition fx_ip2 : bytes := [0;0;0;0;0;0;0;0;0;0;255;255;11;0;0;0].
Definition fx_ip2_text : bytes := [49;49;46;48;46;48;46;48].                  (* 11.0.0.0 *)
Definition o_fx : toracles :=
  mkTO (fun _ => false)
       (fun s => if bytes_eqb s fx_ip_text then Some fx_ip else if bytes_eqb s fx_ip2_text then Some fx_ip2 else None)
       (fun a => if bytes_eqb a fx_ip then fx_ip_text else if bytes_eqb a fx_ip2 then fx_ip2_text else [])
       (fun s => if bytes_eqb s fx_net_text then Some ([10;0;0;0], 8, 32) else None)
       (fun a ones => if bytes_eqb a fx_ip && (ones =? 104) then fx_net_text else [])
       (fun _ => None) (fun _ => []).
Definition fx_rearrange (ns : list record) : list record :=
  match ns with
  | [] => []
  | _ => [RRangePoint [109;49] fx_ip 104 false [97;98];
          RRangePoint [109;49] fx_ip2 0 true [0;0]]
  end.
Definition fx_file : list bytes :=
  [[35;32;99];                                                                (* # c *)
   [37;97;98;44] ++ fx_net_text ++ [44;109;49];                               (* %ab,10.0.0.0/8,m1 *)
   [90;101;120;97;109;112;108;101;46;99;111;109;44;97;46;110;115;46;101;120;97;109;112;108;101;46;99;111;109;44;
    100;110;115;46;101;120;97;109;112;108;101;46;99;111;109;44;44;55;50;48;48]; (* Zexample.com,a.ns.example.com,dns.example.com,,7200 *)
   [43;119;119;119;46;101;120;97;109;112;108;101;46;99;111;109;44] ++ fx_ip_text ++ [44;51;48;48]]. (* +www.example.com,10.0.0.0,300 *)

Lemma file_example :
  wf_file o_fx 7 fx_file /\
  exists out k, preprocess o_fx fx_rearrange 7 fx_file = Ok out /\
    length out = 4%nat /\ nth 0 out [] <> nth 2 fx_file [] /\
    compile o_fx fx_rearrange true 7 fx_file = Ok k /\ compile o_fx fx_rearrange true 7 out = Ok k /\
    length k = 5%nat.
Proof.
  split.
  - unfold wf_file, fx_file. constructor; [|constructor; [|constructor; [|constructor; [|constructor]]]].
    + left. reflexivity.
    + right. split; [cbn; lia|]. split; [cbn; lia|]. do 2 eexists.
      split; [vm_compute; reflexivity|]. split; [vm_compute; reflexivity|]. split; [reflexivity|].
      split; [vm_compute; reflexivity|]. split; [intros H; exfalso; apply H; reflexivity|]. intros H; discriminate H.
    + right. split; [cbn; lia|]. split; [cbn; lia|]. do 2 eexists.
      split; [vm_compute; reflexivity|]. split; [vm_compute; reflexivity|]. split; [reflexivity|].
      split; [vm_compute; reflexivity|]. split; [reflexivity|]. intros _. vm_compute. reflexivity.
    + right. split; [cbn; lia|]. split; [cbn; lia|]. do 2 eexists.
      split; [vm_compute; reflexivity|]. split; [vm_compute; reflexivity|]. split; [reflexivity|].
      split; [vm_compute; reflexivity|]. split; [reflexivity|]. intros H; discriminate H.
  - destruct (preprocess o_fx fx_rearrange 7 fx_file) as [out|] eqn:E; [|vm_compute in E; discriminate E].
    vm_compute in E. inversion E; subst out. clear E.
    eexists. eexists. split; [reflexivity|]. split; [reflexivity|].
    split; [vm_compute; intros H; discriminate H|].
    split; [vm_compute; reflexivity|]. split; [vm_compute; reflexivity|]. reflexivity.
Qed.
