From DnsV Require Import Base.Bytes Model.Reload Proofs.Reload Proofs.ReloadBase Proofs.ReloadFlags.
From Coq Require Import Lia ZifyN ZifyNat ZifyBool.
Open Scope N_scope.
Section P.
Variable refusedf weightedf : N -> N -> bool.
Variable cfg : config.
Notation step := (step refusedf weightedf cfg).

Definition single_s (l : list gen) : Prop := forall g g', In g l -> In g' l -> g_stamp g = g_stamp g'.
Definition pre_reads (pc : qpc) : bool :=
  match pc with QStart | QRLocked | QPinned | QAcq => true | _ => false end.

Lemma single_nil : single_s [].
Proof. intros ? ? []. Qed.

Lemma single_snoc l x : (forall g, In g l -> g_stamp g = g_stamp x) -> single_s (l ++ [x]).
Proof.
  intros H g g' I I'. apply in_app_or in I; apply in_app_or in I'.
  destruct I as [I|[<-|[]]], I' as [I'|[<-|[]]]; auto.
  - rewrite (H _ I), (H _ I'); auto.
  - symmetry; auto.
Qed.

Lemma existsb_nth {A} (f : A -> bool) l j x : nth_error l j = Some x -> f x = true -> existsb f l = true.
Proof. intros H F. apply existsb_exists. exists x; split; auto. eapply nth_error_In; eauto. Qed.

Record SG (st : state) : Prop := {
  S_q : forall j q, qat st j q ->
        single_s (q_reads q) /\
        (pre_reads (q_pc q) = true -> q_reads q = []) /\
        (mid_lookups (q_pc q) = true -> forall g, In g (q_reads q) -> g_stamp g = stamp_of st (q_pin q)) /\
        (forall e, q_hit q = Some e -> single_s e) /\
        (forall l, q_resp q = Some l -> single_s l);
  S_c : forall k e, In (k, e) (st_cache st) -> single_s e
}.

Lemma f5_mono st t st' : step st t = Some st' -> st_f5 st = true -> st_f5 st' = true.
Proof. intros H F. inv_step H; unfold catch_up, set_backs; cbn; rewrite ?F; auto. Qed.

Definition SGI (st : state) : Prop := st_f5 st = false -> SG st.

Lemma SGI_step st t st' : Idx st -> SGI st -> step st t = Some st' -> SGI st'.
Proof.
  intros [HS HIQ HIR] HG H F'.
  assert (F : st_f5 st = false).
  { destruct (st_f5 st) eqn:E; auto. rewrite (f5_mono _ _ _ H E) in F'; discriminate. }
  destruct (HG F) as [SQ SC]. clear HG.
  inv_step H.
  all: constructor; unfold qat, rat, qread, qset_pc, rset_pc, catch_up, set_backs, stamp_of, content, back in *; cbn in *.
  (* cache clause *)
  all: try (intros ? ? HI; try apply in_cadd in HI; try destruct HI as [(?&?)|HI]; subst; eauto;
            try contradiction;
            match goal with Hq : nth_error (st_qs _) _ = Some _ |- _ => destruct (SQ _ _ Hq) as (?&_); assumption end).
  (* query clause *)
  all: intros ? ? HN; split_upd; cbn in *;
       repeat match goal with Hq : nth_error (st_qs _) _ = Some _ |- _ => pose proof (SQ _ _ Hq); pose proof (HIQ _ _ Hq); revert Hq end; intros;
       dest_and; pcs; cbn in *; triv_prem.
  all: try match goal with E : q_reads _ = [] |- _ => rewrite E in * end; cbn in *.
  all: repeat split; intros; try discriminate; try contradiction; auto; subst;
       try match goal with E : Some _ = Some _ |- _ => inversion E; subst; clear E end; auto.
  all: try solve [intros ? ? [<-|[]] [<-|[]]; reflexivity].
  all: try solve [apply single_snoc; intros; cbn; auto].
  all: split_in; subst; cbn; auto.
  all: try match goal with |- context [nth ?b (upd ?c ?x ?l) ?d] => destruct (nth_upd_cases c b x d l) as [->|(?&->)] end;
       cbn; subst; auto.
  all: try solve [rewrite app_nth1 by (destruct (q_pc _); cbn in *; try discriminate; auto); auto].
  all: try solve [exfalso; rewrite Bool.orb_false_iff in F'; destruct F' as (_&F');
                  match goal with Hq : nth_error (st_qs _) _ = Some ?q |- _ =>
                    rewrite (existsb_nth _ _ _ _ Hq) in F'; [discriminate|]; unfold pinned_mid;
                    rewrite Bool.andb_true_iff; split; [assumption|apply Nat.eqb_eq; reflexivity] end].
  all: repeat match goal with H : _ \/ False |- _ => destruct H as [H|[]] end; subst; cbn; auto.
  all: try solve [eapply SC; eapply clookup_in; eauto].
  all: try solve [match goal with E : _ = q_pin _ |- _ => rewrite E end; auto].
  all: try solve [exfalso; rewrite Bool.orb_false_iff in F'; destruct F' as (_&F');
                  match goal with Hq : nth_error (st_qs _) _ = Some ?q |- _ =>
                    rewrite (existsb_nth _ _ _ _ Hq) in F'; [discriminate|]; unfold pinned_mid;
                    rewrite Bool.andb_true_iff; split; [assumption|apply Nat.eqb_eq; congruence] end].
Qed.

(* catch-ups only exist with the rocksdb driver *)
Definition NoCatch (st : state) : Prop :=
  c_rocks cfg = false -> st_f5 st = false /\ forall i r, rat st i r -> r_late r = false /\ r_inplace r = false.

Lemma NoCatch_step st t st' : NoCatch st -> step st t = Some st' -> NoCatch st'.
Proof.
  intros HN H CR. destruct (HN CR) as (F&HR). clear HN.
  inv_step H.
  all: unfold rat, catch_up, set_backs, qread, qset_pc, rset_pc in *; cbn in *; rewrite ?CR in *; cbn in *; try discriminate.
  all: split; auto.
  all: try (intros ? ? HX; split_upd; cbn; auto;
            match goal with Hr : nth_error (st_rs _) _ = Some _ |- _ => destruct (HR _ _ Hr); auto end).
  all: try (exfalso; match goal with Hr : nth_error (st_rs _) _ = Some ?r, E : r_late ?r && _ = true |- _ =>
              destruct (HR _ _ Hr) as (L&_); rewrite L in E; discriminate end).
Qed.

(* the flag st_f5 can only be raised by an in-place catch-up or by a late catch-up *)
Definition F5Src (st : state) : Prop :=
  st_f5 st = true ->
  exists i r, rat st i r /\ begun (r_pc r) = true /\ (r_inplace r = true \/ r_late r = true).

Lemma F5Src_step st t st' : Flags st -> F5Src st -> step st t = Some st' -> F5Src st'.
Proof.
  intros HF HS H F'.
  destruct (st_f5 st) eqn:F.
  - destruct (HS F) as (i&r&R&B&X).
    destruct (frozen_step _ _ _ _ _ _ _ _ H R B) as (r'&R'&B'&I'&L'&_).
    exists i, r'; repeat split; auto. rewrite I', L'; auto.
  - clear HS. inv_step H.
    all: unfold rat, catch_up, set_backs, qread, qset_pc, rset_pc in *; cbn in *; try congruence.
    all: eexists _, _; split; [erewrite nth_error_upd_same by eassumption; reflexivity|]; cbn; auto.
    all: match goal with Hr : nth_error (st_rs _) _ = Some ?r, E : r_late ?r && _ = true |- _ =>
           apply Bool.andb_true_iff in E; destruct E as (E&_); split; auto;
           destruct (begun (r_pc r)) eqn:B; auto; destruct (HF _ _ Hr B); congruence end.
Qed.
End P.
