(* RevOrder (C02): the bytewise order on v2 keys.
   - bcmp is a total order; the keys carrying a given prefix form an interval;
   - Model/Store.seek_prev returns the GREATEST key <= probe (or None when there is none);
   - reversed packed names are a prefix-free code: label length bytes are 1..63, the terminator
     is 0, so the key of an ancestor ( ... labels 0 loc ) sorts before every key of a name below
     it ( ... labels len ... ), and a key that starts with the labels of x has a name below x. *)
From DnsV Require Import Base.Bytes Model.Store Model.LookupV1 Model.LookupV2 Spec.Answer Spec.Rows.
From DnsV Require Import Proofs.Answer Proofs.Compile Proofs.ZoneCut Proofs.NxDomain Proofs.Store Proofs.Ctx Proofs.Reverse.
From Coq Require Import ZifyN ZifyNat ZifyBool.
Open Scope N_scope.

(* ---------------------------------------------------------------- the order *)
Lemma bo_lt_trans : forall a b c, bcmp a b = Lt -> bcmp b c = Lt -> bcmp a c = Lt.
Proof.
  induction a as [|x a IH]; destruct b as [|y b]; destruct c as [|z c]; cbn; intros H1 H2;
    try discriminate; try reflexivity.
  destruct (x ?= y) eqn:Exy; try discriminate.
  - apply N.compare_eq in Exy. subst y. destruct (x ?= z) eqn:Exz; try discriminate; try reflexivity.
    eapply IH; eauto.
  - destruct (y ?= z) eqn:Eyz; try discriminate.
    + apply N.compare_eq in Eyz. subst z. rewrite Exy. reflexivity.
    + assert (E : (x ?= z) = Lt).
      { apply N.compare_lt_iff. eapply N.lt_trans; [exact (proj1 (N.compare_lt_iff x y) Exy) | exact (proj1 (N.compare_lt_iff y z) Eyz)]. }
      rewrite E. reflexivity.
Qed.

Lemma bo_le_cases : forall a b, bleb a b = true <-> (a = b \/ bltb a b = true).
Proof.
  intros a b. unfold bleb, bltb. destruct (bcmp a b) eqn:E.
  - split; intro H; [left; apply bcmp_eq; exact E | reflexivity].
  - split; intro H; [right; reflexivity | reflexivity].
  - split; intro H; [discriminate H|].
    destruct H as [H|H]; [|discriminate H]. subst. rewrite bcmp_refl in E. discriminate E.
Qed.
Lemma bo_ltb_iff : forall a b, bltb a b = true <-> bcmp a b = Lt.
Proof. intros a b. unfold bltb. destruct (bcmp a b); split; intro H; auto; discriminate. Qed.
Lemma bo_lt_trans_b : forall a b c, bltb a b = true -> bltb b c = true -> bltb a c = true.
Proof. intros a b c. rewrite !bo_ltb_iff. apply bo_lt_trans. Qed.
Lemma bo_le_trans : forall a b c, bleb a b = true -> bleb b c = true -> bleb a c = true.
Proof.
  intros a b c H1 H2. apply bo_le_cases in H1. apply bo_le_cases in H2. apply bo_le_cases.
  destruct H1 as [->|H1]; destruct H2 as [->|H2]; auto. right. exact (bo_lt_trans_b _ _ _ H1 H2).
Qed.
Lemma bo_lt_not_le : forall a b, bltb a b = true -> bleb b a = false.
Proof. intros a b H. apply bo_ltb_iff in H. unfold bleb. rewrite (bcmp_antisym a b), H. reflexivity. Qed.
Lemma bo_total : forall a b, bleb a b = true \/ bltb b a = true.
Proof. intros a b. unfold bleb, bltb. rewrite (bcmp_antisym a b). destruct (bcmp a b); cbn; auto. Qed.
Lemma bo_le_antisym : forall a b, bleb a b = true -> bleb b a = true -> a = b.
Proof.
  intros a b H1 H2. apply bo_le_cases in H1. destruct H1 as [|H1]; auto.
  rewrite (bo_lt_not_le _ _ H1) in H2. discriminate.
Qed.
Lemma bo_cmp_app : forall p x y, bcmp (p ++ x) (p ++ y) = bcmp x y.
Proof. induction p as [|c p IH]; intros; cbn; auto. rewrite N.compare_refl. apply IH. Qed.
Lemma bo_le_app : forall p x y, bleb (p ++ x) (p ++ y) = bleb x y.
Proof. intros. unfold bleb. rewrite bo_cmp_app. reflexivity. Qed.
Lemma bo_lt_app : forall p x y, bltb (p ++ x) (p ++ y) = bltb x y.
Proof. intros. unfold bltb. rewrite bo_cmp_app. reflexivity. Qed.

Lemma is_prefix_app : forall p x, is_prefix p (p ++ x) = true.
Proof. induction p as [|c p IH]; intro x; cbn; auto. rewrite N.eqb_refl. cbn. apply IH. Qed.
Lemma is_prefix_split : forall p k, is_prefix p k = true -> exists t, k = p ++ t.
Proof.
  induction p as [|c p IH]; intros k H; [exists k; reflexivity|].
  destruct k as [|d k]; [discriminate|]. cbn in H. apply andb_prop in H as [H1 H2].
  apply N.eqb_eq in H1. subst d. destruct (IH k H2) as [t ->]. exists t. reflexivity.
Qed.

(* the keys that carry a given prefix form an interval of the order *)
Lemma bo_prefix_interval : forall p k1 k2 k3, is_prefix p k1 = true -> is_prefix p k3 = true ->
  bleb k1 k2 = true -> bleb k2 k3 = true -> is_prefix p k2 = true.
Proof.
  induction p as [|c p IH]; intros k1 k2 k3 P1 P3 L12 L23; [reflexivity|].
  destruct k1 as [|c1 k1]; [discriminate P1|]. destruct k3 as [|c3 k3]; [discriminate P3|].
  cbn [is_prefix] in P1, P3. apply Bool.andb_true_iff in P1, P3. destruct P1 as [E1 P1], P3 as [E3 P3].
  apply N.eqb_eq in E1, E3. subst c1 c3.
  destruct k2 as [|c2 k2].
  - unfold bleb in L12. cbn in L12. discriminate L12.
  - unfold bleb in L12, L23. cbn [bcmp] in L12, L23. cbn [is_prefix].
    destruct (c ?= c2) eqn:C1.
    + apply N.compare_eq in C1. subst c2. rewrite N.compare_refl in L23. rewrite N.eqb_refl. cbn [andb].
      apply (IH k1 k2 k3); auto.
    + rewrite N.compare_lt_iff in C1.
      assert (C2 : (c2 ?= c) = Gt) by (apply N.compare_gt_iff; lia). rewrite C2 in L23. discriminate L23.
    + discriminate L12.
Qed.

(* ---------------------------------------------------------------- SeekForPrev is the greatest key <= probe *)
Lemma seek_prev_from_spec : forall (db : store) k best,
  (match best with Some (kb, _) => bleb kb k = true | None => True end) ->
  match seek_prev_from best db k with
  | Some (k', v) => (In (k', v) db \/ best = Some (k', v)) /\ bleb k' k = true /\
                    (forall k'' v'', In (k'', v'') db -> bleb k'' k = true -> bleb k'' k' = true) /\
                    (match best with Some (kb, _) => bleb kb k' = true | None => True end)
  | None => best = None /\ forall k'' v'', In (k'', v'') db -> bleb k'' k = false
  end.
Proof.
  induction db as [|[k1 v1] db IH]; intros k best Hb.
  - cbn [seek_prev_from]. destruct best as [[kb vb]|].
    + split; [right; reflexivity|]. split; [exact Hb|]. split; [intros ? ? []|apply bleb_refl].
    + split; [reflexivity|]. intros ? ? [].
  - cbn [seek_prev_from]. destruct (bleb k1 k) eqn:E1.
    + assert (Step : forall nb vb, bleb nb k = true ->
                (match best with Some (kb, _) => bleb kb nb = true | None => True end) -> bleb k1 nb = true ->
                (nb = k1 /\ vb = v1 \/ best = Some (nb, vb)) ->
                match seek_prev_from (Some (nb, vb)) db k with
                | Some (k', v) => (In (k', v) ((k1, v1) :: db) \/ best = Some (k', v)) /\ bleb k' k = true /\
                                  (forall k'' v'', In (k'', v'') ((k1, v1) :: db) -> bleb k'' k = true -> bleb k'' k' = true) /\
                                  (match best with Some (kb, _) => bleb kb k' = true | None => True end)
                | None => False
                end).
      { intros nb vb Hnb Hbn H1n Hor. specialize (IH k (Some (nb, vb)) Hnb).
        destruct (seek_prev_from (Some (nb, vb)) db k) as [[k' v]|]; [|destruct IH as [C _]; discriminate C].
        destruct IH as [I1 [I2 [I3 I4]]]. split.
        { destruct I1 as [I1|I1]; [left; right; exact I1|]. inversion I1; subst.
          destruct Hor as [[-> ->]|Hor]; [left; left; reflexivity|right; exact Hor]. }
        split; [exact I2|]. split.
        { intros k'' v'' [Hin|Hin] Hk; [|exact (I3 k'' v'' Hin Hk)].
          inversion Hin; subst. exact (bo_le_trans _ _ _ H1n I4). }
        destruct best as [[kb vb']|]; [|exact I]. exact (bo_le_trans _ _ _ Hbn I4). }
      destruct best as [[kb vb]|].
      * destruct (bltb kb k1) eqn:E2.
        -- assert (Hb1 : bleb kb k1 = true) by (apply bo_le_cases; auto).
           pose proof (Step k1 v1 E1 Hb1 (bleb_refl k1) (or_introl (conj eq_refl eq_refl))) as S.
           destruct (seek_prev_from (Some (k1, v1)) db k) as [[k' v]|]; [exact S|contradiction].
        -- assert (H1b : bleb k1 kb = true).
           { destruct (bo_total k1 kb) as [X|X]; auto. congruence. }
           pose proof (Step kb vb Hb (bleb_refl kb) H1b (or_intror eq_refl)) as S.
           destruct (seek_prev_from (Some (kb, vb)) db k) as [[k' v]|]; [exact S|contradiction].
      * pose proof (Step k1 v1 E1 I (bleb_refl k1) (or_introl (conj eq_refl eq_refl))) as S.
        destruct (seek_prev_from (Some (k1, v1)) db k) as [[k' v]|]; [|contradiction].
        destruct S as [S1 [S2 [S3 S4]]]. split; [|split; [exact S2|split; [exact S3|exact I]]].
        destruct S1 as [S1|S1]; [left; exact S1|discriminate S1].
    + specialize (IH k best Hb). destruct (seek_prev_from best db k) as [[k' v]|].
      * destruct IH as [I1 [I2 [I3 I4]]]. split.
        { destruct I1 as [I1|I1]; [left; right; exact I1|right; exact I1]. }
        split; [exact I2|]. split; [|exact I4].
        intros k'' v'' [Hin|Hin] Hk; [|exact (I3 k'' v'' Hin Hk)]. inversion Hin; subst. congruence.
      * destruct IH as [I1 I2]. split; [exact I1|]. intros k'' v'' [Hin|Hin]; [|exact (I2 k'' v'' Hin)].
        inversion Hin; subst. exact E1.
Qed.

Theorem seek_prev_greatest : forall (db : store) k,
  match seek_prev db k with
  | Some (k', v) => In (k', v) db /\ bleb k' k = true /\
                    (forall k'' v'', In (k'', v'') db -> bleb k'' k = true -> bleb k'' k' = true)
  | None => forall k'' v'', In (k'', v'') db -> bleb k'' k = false
  end.
Proof.
  intros db k. unfold seek_prev. pose proof (seek_prev_from_spec db k None I) as S.
  destruct (seek_prev_from None db k) as [[k' v]|].
  - destruct S as [[S1|S1] [S2 [S3 _]]]; [|discriminate S1]. auto.
  - destruct S as [_ S]. exact S.
Qed.

(* ---------------------------------------------------------------- reversed packed names *)
(* label lengths as the wire allows them; nothing is asked of the label contents *)
Definition lab_ok (l : label) : Prop := 1 <= nlen l <= 63.
Definition name_ok (n : name) : Prop := Forall lab_ok n.

Lemma wf_name_ok : forall n, wf_name n -> name_ok n.
Proof. intros n H. unfold wf_name in H. unfold name_ok. eapply Forall_impl; [|exact H]. intros l Hl. unfold wf_label in Hl. destruct Hl as [Hl _]. exact Hl. Qed.
Lemma name_ok_app : forall a b, name_ok (a ++ b) <-> name_ok a /\ name_ok b.
Proof. intros. unfold name_ok. apply Forall_app. Qed.
Lemma name_ok_rev : forall a, name_ok a -> name_ok (rev a).
Proof. intros a H. unfold name_ok in *. apply Forall_rev. exact H. Qed.

Lemma body_app : forall a b, body (a ++ b) = body a ++ body b.
Proof. intros. unfold body. apply flat_map_app. Qed.
Lemma body_cons : forall l a, body (l :: a) = (nlen l :: l) ++ body a.
Proof. reflexivity. Qed.

(* the key of name r (labels in reversed order, i.e. top-level label first) and location loc *)
Definition bkey (r : name) (loc : bytes) : bytes := marker ++ body r ++ 0 :: loc.

Lemma key_v2_bkey : forall rc, key_v2 rc = bkey (rev (r_owner rc)) (loc_bytes rc).
Proof. intros. unfold key_v2, bkey, rpack, marker. rewrite pack_body, <- app_assoc. reflexivity. Qed.

Lemma firstn_app_exact : forall {A} (a b : list A), firstn (length a) (a ++ b) = a.
Proof. intros. rewrite firstn_app, Nat.sub_diag, firstn_all. cbn. apply app_nil_r. Qed.
Lemma skipn_app_exact : forall {A} (a b : list A), skipn (length a) (a ++ b) = b.
Proof. intros. rewrite skipn_app, Nat.sub_diag, skipn_all. reflexivity. Qed.

Lemma app_eq_len : forall {A} (a b c d : list A), length a = length c -> a ++ b = c ++ d -> a = c /\ b = d.
Proof.
  induction a as [|x a IH]; intros b' c; destruct c as [|y c]; cbn; intros d H E; try discriminate.
  - split; [reflexivity | exact E].
  - inversion E; subst. destruct (IH b' c d) as [-> ->]; auto.
Qed.

(* a byte string that starts with the labels of x (x with proper label lengths) and continues like
   a packed name has all of x as its first labels *)
Lemma body_prefix_labels : forall x y t, name_ok x ->
  is_prefix (body x) (body y ++ 0 :: t) = true -> exists z, y = x ++ z.
Proof.
  induction x as [|l x IH]; intros y t Hx H; [exists y; reflexivity|].
  inversion Hx as [|? ? Hl Hx']; subst. unfold lab_ok in Hl.
  destruct y as [|l' y].
  - cbn in H. apply andb_prop in H as [H _]. lia.
  - rewrite !body_cons in H. cbn [app is_prefix] in H. apply andb_prop in H as [H1 H2].
    apply N.eqb_eq in H1.
    apply is_prefix_split in H2 as [u E]. rewrite <- !app_assoc in E.
    assert (Hlen : length l' = length l) by (unfold nlen in H1; lia).
    destruct (app_eq_len l' (body y ++ 0 :: t) l (body x ++ u) Hlen E) as [-> E2].
    destruct (IH y t Hx') as [z ->]; [rewrite E2; apply is_prefix_app|].
    exists z. reflexivity.
Qed.

Lemma body_inj : forall x y, name_ok x -> name_ok y -> body x = body y -> x = y.
Proof.
  intros x y Hx Hy E.
  destruct (body_prefix_labels x y [] Hx) as [z Hz]; [rewrite <- E; apply is_prefix_app|].
  destruct (body_prefix_labels y x [] Hy) as [z' Hz']; [rewrite E; apply is_prefix_app|].
  subst y. rewrite <- app_assoc in Hz'. rewrite <- (app_nil_r x) in Hz' at 1.
  apply app_inv_head in Hz'. symmetry in Hz'. apply app_eq_nil in Hz' as [-> _]. rewrite app_nil_r. reflexivity.
Qed.

(* keys of names: same key = same name and location *)
Lemma bkey_inj : forall x y l1 l2, name_ok x -> name_ok y -> bkey x l1 = bkey y l2 -> x = y /\ l1 = l2.
Proof.
  intros x y l1 l2 Hx Hy E. unfold bkey in E. apply app_inv_head in E.
  destruct (body_prefix_labels x y l2 Hx) as [z Hz]; [rewrite <- E; apply is_prefix_app|].
  destruct (body_prefix_labels y x l1 Hy) as [z' Hz']; [rewrite E; apply is_prefix_app|].
  assert (x = y).
  { subst y. rewrite <- app_assoc in Hz'. rewrite <- (app_nil_r x) in Hz' at 1.
    apply app_inv_head in Hz'. symmetry in Hz'. apply app_eq_nil in Hz' as [-> _]. rewrite app_nil_r. reflexivity. }
  clear Hz Hz'. subst y. apply app_inv_head in E. inversion E. split; reflexivity.
Qed.

(* an ancestor's key sorts strictly before every key of a name below it, whatever the locations *)
Lemma ancestor_key_lt : forall x l z loc loc', lab_ok l ->
  bltb (bkey x loc') (bkey (x ++ l :: z) loc) = true.
Proof.
  intros x l z loc loc' Hl. unfold bkey. rewrite bo_lt_app, body_app, <- app_assoc, bo_lt_app.
  rewrite body_cons. cbn [app]. unfold bltb. cbn [bcmp]. unfold lab_ok in Hl.
  assert (E : (0 ?= nlen l) = Lt) by (apply N.compare_lt_iff; lia). rewrite E. reflexivity.
Qed.

(* ---------------------------------------------------------------- seek_skip_sound *)
(* longest common prefix of two label lists *)
Fixpoint clp (a b : name) : name :=
  match a, b with
  | x :: a', y :: b' => if bytes_eqb x y then x :: clp a' b' else []
  | _, _ => []
  end.
Lemma clp_prefix_l : forall a b, exists t, a = clp a b ++ t.
Proof.
  induction a as [|x a IH]; intros b; [exists []; reflexivity|]. destruct b as [|y b]; [exists (x :: a); reflexivity|].
  cbn [clp]. destruct (bytes_eqb x y); [|exists (x :: a); reflexivity].
  destruct (IH b) as [t E]. exists t. cbn. rewrite <- E. reflexivity.
Qed.
Lemma clp_prefix_r : forall a b, exists t, b = clp a b ++ t.
Proof.
  induction a as [|x a IH]; intros b; [exists b; reflexivity|]. destruct b as [|y b]; [exists []; reflexivity|].
  cbn [clp]. destruct (bytes_eqb x y) eqn:E; [|exists (y :: b); reflexivity].
  apply bytes_eqb_eq in E. subst y. destruct (IH b) as [t E]. exists t. cbn. rewrite <- E. reflexivity.
Qed.
Lemma clp_common : forall x a b u v, a = x ++ u -> b = x ++ v -> exists w, clp a b = x ++ w.
Proof.
  induction x as [|l x IH]; intros a b u v -> ->; [eexists; reflexivity|].
  cbn [app clp]. rewrite bytes_eqb_refl. destruct (IH (x ++ u) (x ++ v) u v eq_refl eq_refl) as [w ->].
  exists w. reflexivity.
Qed.
Lemma clp_app_l : forall x u b, exists w, clp (x ++ u) b = clp x b ++ w.
Proof.
  induction x as [|l x IH]; intros u b; [eexists; reflexivity|].
  destruct b as [|y b]; [exists []; reflexivity|]. cbn [app clp].
  destruct (bytes_eqb l y); [|exists []; reflexivity].
  destruct (IH u b) as [w ->]. exists w. reflexivity.
Qed.

Section Skip.
Variable st : store.

(* the probe built for name r and location loc landed on key k:
   every proper ancestor x of r (r = x ++ z, z not empty) that has a key under ANY location
   has all its labels at the head of k *)
Theorem seek_skip_prefix : forall r loc k v x z loc' v',
  seek_prev st (bkey r loc) = Some (k, v) ->
  r = x ++ z -> z <> [] -> name_ok z -> In (bkey x loc', v') st ->
  is_prefix (marker ++ body x) k = true.
Proof.
  intros r loc k v x z loc' v' Hs -> Hz Hok Hin.
  pose proof (seek_prev_greatest st (bkey (x ++ z) loc)) as G. rewrite Hs in G.
  destruct G as (_ & G2 & G3).
  destruct z as [|l z]; [contradiction|]. inversion Hok as [|? ? Hl _]; subst.
  pose proof (ancestor_key_lt x l z loc loc' Hl) as Lt1.
  assert (Le1 : bleb (bkey x loc') (bkey (x ++ l :: z) loc) = true) by (apply bo_le_cases; right; exact Lt1).
  pose proof (G3 _ _ Hin Le1) as Le2.
  apply (bo_prefix_interval (marker ++ body x) (bkey x loc') k (bkey (x ++ l :: z) loc)); auto.
  - unfold bkey. rewrite app_assoc. apply is_prefix_app.
  - unfold bkey. rewrite body_app, <- app_assoc, app_assoc. apply is_prefix_app.
Qed.

(* nothing at or below the probe: no proper ancestor has a key *)
Theorem seek_skip_none : forall r loc x z loc' v',
  seek_prev st (bkey r loc) = None ->
  r = x ++ z -> z <> [] -> name_ok z -> ~ In (bkey x loc', v') st.
Proof.
  intros r loc x z loc' v' Hs -> Hz Hok Hin.
  pose proof (seek_prev_greatest st (bkey (x ++ z) loc)) as G. rewrite Hs in G.
  destruct z as [|l z]; [contradiction|]. inversion Hok as [|? ? Hl _]; subst.
  pose proof (ancestor_key_lt x l z loc loc' Hl) as Lt1.
  assert (Le1 : bleb (bkey x loc') (bkey (x ++ l :: z) loc) = true) by (apply bo_le_cases; right; exact Lt1).
  rewrite (G _ _ Hin) in Le1. discriminate.
Qed.

(* a key found that does not start with the marker: same conclusion *)
Theorem seek_skip_border : forall r loc k v x z loc' v',
  seek_prev st (bkey r loc) = Some (k, v) -> is_prefix marker k = false ->
  r = x ++ z -> z <> [] -> name_ok z -> ~ In (bkey x loc', v') st.
Proof.
  intros r loc k v x z loc' v' Hs Hm E Hz Hok Hin.
  pose proof (seek_skip_prefix r loc k v x z loc' v' Hs E Hz Hok Hin) as P.
  apply is_prefix_split in P as [t ->]. rewrite <- app_assoc, is_prefix_app in Hm. discriminate.
Qed.

(* seek_skip_sound as in DESIGN.md: the found key is the key of name y (reversed labels);
   q (reversed labels: r ++ rest) is the full query name, r the current ancestor.
   Every proper ancestor x of r with a key under any location is an ancestor-or-self of the
   common label prefix of q and y - no key exists for an ancestor of q that is strictly longer
   than that common prefix and strictly shorter than r *)
Theorem seek_skip_sound : forall r rest loc y ly v x z loc' v',
  seek_prev st (bkey r loc) = Some (bkey y ly, v) ->
  r = x ++ z -> z <> [] -> name_ok z -> name_ok x -> In (bkey x loc', v') st ->
  exists w, clp (r ++ rest) y = x ++ w.
Proof.
  intros r rest loc y ly v x z loc' v' Hs E Hz Hok Hx Hin.
  pose proof (seek_skip_prefix r loc _ v x z loc' v' Hs E Hz Hok Hin) as P.
  unfold bkey in P. rewrite <- (app_nil_r (marker ++ body x)) in P.
  apply is_prefix_split in P as [t P]. rewrite app_nil_r, <- app_assoc in P. apply app_inv_head in P.
  destruct (body_prefix_labels x y ly Hx) as [w Hw]; [rewrite P; apply is_prefix_app|].
  subst r. rewrite <- app_assoc. eapply clp_common; [reflexivity | exact Hw].
Qed.
End Skip.
