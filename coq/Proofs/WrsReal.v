(* Proofs/WrsReal: C11, proportionality of the weighted choice (partial).
   Real analysis with Coquelicot; this file is NOT imported by anything that is
   evaluated (Run/C11.v), it depends on the axioms of the standard library's
   real numbers (see Print Assumptions in Properties/C11.v).

   Setting.  Wrs.Add gives candidate j (weight w_j, a natural number >= 1: the
   weight field is a uint32) the key  k_j = u_j ^ (1 / w_j)  where u_j is its
   draw scaled to [0,1].  With MaxAnswers = 1 the candidate with the largest key
   is served (Proofs/Wrs.v: topk_selected).

   What is proved here, for natural-number weights (exactly the weights the
   code can hold; the statement for arbitrary positive real weights would need
   Rpower, which Coq defines as 1 at 0, and is not attempted):
     key_cdf_set      {u in [0,1] | u^(1/w) <= x} = [0, x^w]  for x in [0,1],
                      so for u uniform on [0,1]: P(k_j <= x) = x^(w_j)
                      (the length of [0, x^w] is x^w: key_cdf_length)
     key_density      d/dx x^w = w * x^(w-1): the density of k_i
     proportional     RInt (fun x => w_i * x^(w_i-1) * prod_{j<>i} x^(w_j)) 0 1 = w_i / sum_j w_j

   What the reading of that integral as "the probability that candidate i is
   served" additionally ASSUMES and is not proved (hence _partial):
     * the draws u_j are independent and uniformly distributed, so that
       P(i has the largest key) = integral of density_i(x) * prod_{j<>i} cdf_j(x) dx
       (no measure theory is formalised here);
     * continuous uniform on [0,1] instead of the 2^32 grid points k/(2^32-1)
       (ties have probability 0 in the continuous reading, about n^2 * 2^-32 on
       the grid; a tie is resolved for the earlier record);
     * math.Pow and the float64 multiplication are exact and monotone
       (the correspondence run compares the float order with the exact rational
       order for small weights only);
     * math/rand's generator behind localRand is uniform and its use under the
       mutex of lockedSource from concurrent queries yields independent draws
       for each query (a chi-square run is recorded as support, never as proof);
     * weight 0 and the corner draws 0 and 2^32-1 (finding F18) are excluded. *)
From Coq Require Import Reals Lra Lia List.
From Coquelicot Require Import Coquelicot.
Import ListNotations.
Open Scope R_scope.

(* prod_{j in ws} x^(w_j) *)
Fixpoint prodpow (ws : list nat) (x : R) : R :=
  match ws with
  | [] => 1
  | w :: t => x ^ w * prodpow t x
  end.

Lemma prodpow_sum : forall ws x, prodpow ws x = x ^ (list_sum ws).
Proof.
  induction ws as [|w t IH]; intros x; simpl; auto.
  rewrite IH, pow_add. reflexivity.
Qed.

Lemma RInt_monomial : forall (c : R) (n : nat),
  RInt (fun x => c * x ^ n) 0 1 = c / INR (S n).
Proof.
  intros c n.
  assert (Hn : INR (S n) <> 0) by (apply not_0_INR; discriminate).
  apply is_RInt_unique.
  replace (c / INR (S n)) with (minus ((fun x => c / INR (S n) * x ^ S n) 1) ((fun x => c / INR (S n) * x ^ S n) 0)).
  2:{ unfold minus, plus, opp; simpl. rewrite pow1, Rmult_0_l. ring. }
  apply (is_RInt_derive (fun x => c / INR (S n) * x ^ S n) (fun x => c * x ^ n)).
  - intros x _. auto_derive; auto.
    change (match n with 0%nat => 1 | S _ => INR n + 1 end) with (INR (S n)).
    field. exact Hn.
  - intros x _. apply (ex_derive_continuous (fun x => c * x ^ n)). auto_derive. auto.
Qed.

(* the integral identity behind "chosen with probability proportional to its weight" *)
Theorem proportional_core : forall (wi : nat) (others : list nat), (1 <= wi)%nat ->
  RInt (fun x => INR wi * x ^ (wi - 1) * prodpow others x) 0 1 = INR wi / INR (wi + list_sum others).
Proof.
  intros wi others Hwi.
  assert (He : forall x : R, INR wi * x ^ (wi - 1) * prodpow others x = INR wi * x ^ (wi - 1 + list_sum others)).
  { intros x. rewrite prodpow_sum, pow_add. ring. }
  rewrite (RInt_ext _ (fun x => INR wi * x ^ (wi - 1 + list_sum others))).
  - rewrite RInt_monomial.
    replace (S (wi - 1 + list_sum others)) with (wi + list_sum others)%nat by lia. reflexivity.
  - intros x _. apply He.
Qed.

(* the same with the candidates as one list and the served one named by its index *)
Definition others_of (i : nat) (ws : list nat) : list nat := firstn i ws ++ skipn (S i) ws.

Lemma list_sum_split : forall (ws : list nat) i, (i < length ws)%nat ->
  list_sum ws = (nth i ws 0%nat + list_sum (others_of i ws))%nat.
Proof.
  unfold others_of. induction ws as [|w t IH]; intros i Hi; simpl in Hi; [lia|].
  destruct i.
  - reflexivity.
  - change (list_sum (w :: t)) with (w + list_sum t)%nat.
    change (nth (S i) (w :: t) 0%nat) with (nth i t 0%nat).
    change (firstn (S i) (w :: t) ++ skipn (S (S i)) (w :: t)) with (w :: (firstn i t ++ skipn (S i) t)).
    change (list_sum (w :: (firstn i t ++ skipn (S i) t))) with (w + list_sum (firstn i t ++ skipn (S i) t))%nat.
    rewrite (IH i) by lia. lia.
Qed.

Theorem proportional : forall (ws : list nat) (i : nat),
  (i < length ws)%nat -> (1 <= nth i ws 0)%nat ->
  RInt (fun x => INR (nth i ws 0%nat) * x ^ (nth i ws 0%nat - 1) * prodpow (others_of i ws) x) 0 1
  = INR (nth i ws 0%nat) / INR (list_sum ws).
Proof.
  intros ws i Hi Hw. rewrite (list_sum_split ws i Hi). apply proportional_core; auto.
Qed.

(* the probabilities add up to one (sanity of the right-hand sides) *)
Lemma shares_sum_to_one : forall ws : list nat, (1 <= list_sum ws)%nat ->
  fold_right (fun w acc => INR w / INR (list_sum ws) + acc) 0 ws = 1.
Proof.
  intros ws Hs.
  assert (HS : INR (list_sum ws) <> 0) by (apply not_0_INR; lia).
  assert (forall l (d : R), d <> 0 -> fold_right (fun w acc => INR w / d + acc) 0 l = INR (list_sum l) / d) as H.
  { induction l as [|w t IH]; intros d Hd; simpl.
    - unfold Rdiv. ring.
    - rewrite IH by auto. rewrite plus_INR. field. auto. }
  rewrite H by auto. field. auto.
Qed.

(* ---- the key of a draw and its distribution function ---- *)

(* u^(1/w) for u in [0,1], with Go's Pow(0, y) = 0 for y > 0 *)
Definition wkey (u : R) (w : nat) : R :=
  if Req_EM_T u 0 then 0 else Rpower u (/ INR w).

Lemma wkey_spec : forall u w, 0 <= u -> (1 <= w)%nat -> 0 <= wkey u w /\ wkey u w ^ w = u.
Proof.
  intros u w Hu Hw. unfold wkey. destruct (Req_EM_T u 0) as [-> | Hne].
  - split; [lra|]. destruct w; [lia|]. simpl. ring.
  - assert (Hpos : 0 < u) by lra.
    assert (Hw0 : INR w <> 0) by (apply not_0_INR; lia).
    split.
    + left. unfold Rpower. apply exp_pos.
    + rewrite <- Rpower_pow by (unfold Rpower; apply exp_pos).
      rewrite Rpower_mult. replace (/ INR w * INR w) with 1 by (field; auto).
      apply Rpower_1; auto.
Qed.

Lemma pow_lt_strict : forall x y n, 0 <= x < y -> (1 <= n)%nat -> x ^ n < y ^ n.
Proof.
  intros x y n [Hx Hxy] Hn. induction n as [|n IH]; [lia|].
  destruct n as [|n].
  - simpl. lra.
  - assert (Hlt : x ^ S n < y ^ S n) by (apply IH; lia).
    assert (Hx0 : 0 <= x ^ S n) by (apply pow_le; auto).
    change (x ^ S (S n)) with (x * x ^ S n). change (y ^ S (S n)) with (y * y ^ S n).
    apply Rle_lt_trans with (x * y ^ S n).
    + apply Rmult_le_compat_l; lra.
    + apply Rmult_lt_compat_r; lra.
Qed.

(* {u in [0,1] | u^(1/w) <= x} = [0, x^w] *)
Theorem key_cdf_set : forall u x w, 0 <= u <= 1 -> 0 <= x <= 1 -> (1 <= w)%nat ->
  (wkey u w <= x <-> u <= x ^ w).
Proof.
  intros u x w [Hu0 Hu1] [Hx0 Hx1] Hw.
  destruct (wkey_spec u w Hu0 Hw) as [Hk0 Hk].
  split; intros H.
  - rewrite <- Hk. apply pow_incr. lra.
  - destruct (Rle_lt_dec (wkey u w) x) as [Hle | Hlt]; auto.
    exfalso. assert (x ^ w < wkey u w ^ w) by (apply pow_lt_strict; [lra|auto]). lra.
Qed.

(* ... an interval of length x^w inside [0,1]: P(key <= x) = x^w for a uniform draw *)
Lemma key_cdf_length : forall x w, 0 <= x <= 1 -> 0 <= x ^ w <= 1 /\ x ^ w - 0 = x ^ w.
Proof.
  intros x w [H0 H1]. split; [split|ring].
  - apply pow_le; auto.
  - rewrite <- (pow1 w). apply pow_incr. lra.
Qed.

(* the density of the key: derivative of the distribution function x^w *)
Lemma key_density : forall (w : nat) x, is_derive (fun x => x ^ w) x (INR w * x ^ (w - 1)).
Proof.
  intros w x. auto_derive; auto. rewrite Nat.sub_1_r. ring.
Qed.
