(* C03, name-to-map step on RocksDB v2 keys (findMapInSortedData): the sorted search
   with skips returns the exact-name map, else the nearest enclosing wildcard map. *)
From DnsV Require Import Base.Bytes Base.Ip Spec.Lpm Model.Rearranger Model.Location.
From DnsV Require Import Proofs.Location Proofs.BytesOrder.
From Coq Require Import Lia ZifyN ZifyBool ZifyNat.
Open Scope N_scope.

(* ---------------------------------------------------------------- labels as bytes *)

Definition lab (ls : list bytes) : bytes := flat_map (fun l => blen l :: l) ls.

Lemma pack_lab : forall ls, pack_labels ls = lab ls ++ [0].
Proof. induction ls as [|l ls IH]; simpl; auto. rewrite IH, <- app_assoc. reflexivity. Qed.

Lemma lab_app : forall x y, lab (x ++ y) = lab x ++ lab y.
Proof. intros. unfold lab. rewrite flat_map_app. reflexivity. Qed.

Lemma wf_labels_app : forall x y, wf_labelsb (x ++ y) = wf_labelsb x && wf_labelsb y.
Proof. intros. unfold wf_labelsb. apply forallb_app. Qed.

Lemma wf_label_nonzero : forall l ls, wf_labelsb (l :: ls) = true -> blen l <> 0 /\ (0 < length l)%nat.
Proof.
  intros l ls H. simpl in H. apply Bool.andb_true_iff in H. destruct H as [H _].
  destruct l; [discriminate H|]. unfold blen. simpl. split; lia.
Qed.

Lemma labels_of_pack : forall ls fuel, wf_labelsb ls = true -> (length ls < fuel)%nat ->
  labels_of fuel (pack_labels ls) = Some ls.
Proof.
  induction ls as [|l ls IH]; intros fuel W Hf; (destruct fuel as [|fuel]; [lia|]).
  - reflexivity.
  - destruct (wf_label_nonzero l ls W) as [Nz _].
    cbn [pack_labels labels_of]. apply N.eqb_neq in Nz. rewrite Nz. unfold blen. rewrite Nnat.Nat2N.id.
    assert (E1 : (length l <=? length (l ++ pack_labels ls))%nat = true)
      by (apply Nat.leb_le; rewrite app_length; lia).
    rewrite E1, skipn_app_exact, firstn_app, Nat.sub_diag, firstn_all. cbn [firstn]. rewrite app_nil_r.
    rewrite IH; auto.
    + simpl in W. apply Bool.andb_true_iff in W. tauto.
    + simpl in Hf. lia.
Qed.

Lemma rev_name_pack : forall ls, wf_labelsb ls = true -> rev_name (pack_labels ls) = Some (pack_labels (rev ls)).
Proof.
  intros ls W. unfold rev_name. rewrite labels_of_pack; auto. apply pack_labels_length.
Qed.

(* ---------------------------------------------------------------- findCommonLongestPrefix *)

(* bytes of the common label prefix of two names, plus one when both end there *)
Fixpoint cpl (x y : list bytes) : nat :=
  match x, y with
  | [], [] => 1
  | l :: x', l' :: y' => if bytes_eqb l l' then (S (length l) + cpl x' y')%nat else 0%nat
  | _, _ => 0%nat
  end.

Lemma nth_app_len : forall (P s : bytes) d, nth (length P) (P ++ s) d = hd d s.
Proof. intros. rewrite app_nth2 by lia. rewrite Nat.sub_diag. destruct s; reflexivity. Qed.

Lemma cmp_range_spec : forall l l' Q r1 r2, length l = length l' ->
  cmp_range (Q ++ l ++ r1) (Q ++ l' ++ r2) (length Q) (length l) = Ok (bytes_eqb l l').
Proof.
  induction l as [|c l IH]; intros l' Q r1 r2 H; destruct l' as [|c' l']; try discriminate H.
  - reflexivity.
  - cbn [length cmp_range].
    assert (B1 : (length (Q ++ (c :: l) ++ r1) <=? length Q)%nat = false)
      by (apply Nat.leb_gt; rewrite app_length; simpl; lia).
    assert (B2 : (length (Q ++ (c' :: l') ++ r2) <=? length Q)%nat = false)
      by (apply Nat.leb_gt; rewrite app_length; simpl; lia).
    rewrite B1, B2. cbn [orb]. rewrite !nth_app_len. cbn [hd app bytes_eqb].
    destruct (c =? c') eqn:E; [|reflexivity]. apply N.eqb_eq in E. subst c'. cbn [andb].
    replace (Q ++ c :: l ++ r1) with ((Q ++ [c]) ++ l ++ r1) by (rewrite <- app_assoc; reflexivity).
    replace (Q ++ c :: l' ++ r2) with ((Q ++ [c]) ++ l' ++ r2) by (rewrite <- app_assoc; reflexivity).
    replace (S (length Q)) with (length (Q ++ [c])) by (rewrite app_length; simpl; lia).
    apply IH. simpl in H. lia.
Qed.

Lemma bytes_eqb_len : forall a b, length a <> length b -> bytes_eqb a b = false.
Proof. intros a b H. apply bytes_eqb_neq. intro E. subst. contradiction. Qed.

Lemma fclp_spec : forall x y P fuel, wf_labelsb x = true -> wf_labelsb y = true ->
  (length x + 2 <= fuel)%nat ->
  fclp fuel (P ++ pack_labels x) (P ++ pack_labels y) (length P) = Ok (length P + cpl x y)%nat.
Proof.
  induction x as [|l x IH]; intros y P fuel Wx Wy Hf; (destruct fuel as [|fuel]; [simpl in Hf; lia|]).
  - cbn [pack_labels fclp].
    assert (B1 : (length P <? length (P ++ [0%N]))%nat = true) by (apply Nat.ltb_lt; rewrite app_length; simpl; lia).
    rewrite B1. destruct y as [|l' y].
    + cbn [pack_labels]. rewrite B1. cbn [andb]. rewrite !nth_app_len. cbn [hd]. rewrite N.eqb_refl. cbn [negb N.to_nat cmp_range].
      destruct fuel as [|fuel]; [simpl in Hf; lia|]. cbn [fclp].
      assert (B2 : (length P + 0 + 1 <? length (P ++ [0%N]))%nat = false) by (apply Nat.ltb_ge; rewrite app_length; simpl; lia).
      rewrite B2. cbn [andb cpl]. f_equal. lia.
    + destruct (wf_label_nonzero l' y Wy) as [Nz _].
      assert (B2 : (length P <? length (P ++ pack_labels (l' :: y)))%nat = true)
        by (apply Nat.ltb_lt; rewrite app_length; cbn [pack_labels length]; lia).
      rewrite B2. cbn [andb]. rewrite !nth_app_len. cbn [pack_labels hd].
      assert (E : (0 =? blen l') = false) by (apply N.eqb_neq; lia). rewrite E. cbn [negb cpl]. f_equal. lia.
  - destruct (wf_label_nonzero l x Wx) as [Nz Lz].
    cbn [fclp].
    assert (B1 : (length P <? length (P ++ pack_labels (l :: x)))%nat = true)
      by (apply Nat.ltb_lt; rewrite app_length; cbn [pack_labels length]; lia).
    rewrite B1. destruct y as [|l' y].
    + cbn [pack_labels].
      assert (B2 : (length P <? length (P ++ [0%N]))%nat = true) by (apply Nat.ltb_lt; rewrite app_length; simpl; lia).
      rewrite B2. cbn [andb]. rewrite !nth_app_len. cbn [hd].
      assert (E : (blen l =? 0) = false) by (apply N.eqb_neq; lia). rewrite E. cbn [negb cpl]. f_equal. lia.
    + destruct (wf_label_nonzero l' y Wy) as [Nz' Lz'].
      assert (B2 : (length P <? length (P ++ pack_labels (l' :: y)))%nat = true)
        by (apply Nat.ltb_lt; rewrite app_length; cbn [pack_labels length]; lia).
      rewrite B2. cbn [andb]. rewrite !nth_app_len. cbn [pack_labels hd cpl].
      destruct (blen l =? blen l') eqn:El.
      * cbn [negb]. apply N.eqb_eq in El. unfold blen in El. apply Nnat.Nat2N.inj in El.
        replace (N.to_nat (blen l)) with (length l) by (unfold blen; rewrite Nnat.Nat2N.id; reflexivity).
        replace (P ++ blen l :: l ++ pack_labels x) with ((P ++ [blen l]) ++ l ++ pack_labels x)
          by (rewrite <- app_assoc; reflexivity).
        replace (P ++ blen l' :: l' ++ pack_labels y) with ((P ++ [blen l]) ++ l' ++ pack_labels y)
          by (rewrite <- app_assoc; unfold blen; rewrite El; reflexivity).
        replace (S (length P)) with (length (P ++ [blen l])) by (rewrite app_length; simpl; lia).
        rewrite (cmp_range_spec l l' (P ++ [blen l]) _ _ El).
        destruct (bytes_eqb l l') eqn:Eb.
        -- apply bytes_eqb_eq in Eb. subst l'.
           replace ((P ++ [blen l]) ++ l ++ pack_labels x) with ((P ++ blen l :: l) ++ pack_labels x)
             by (rewrite <- !app_assoc; reflexivity).
           replace ((P ++ [blen l]) ++ l ++ pack_labels y) with ((P ++ blen l :: l) ++ pack_labels y)
             by (rewrite <- !app_assoc; reflexivity).
           replace (length P + length l + 1)%nat with (length (P ++ blen l :: l)) by (rewrite app_length; simpl; lia).
           rewrite IH.
           ++ f_equal. rewrite app_length. simpl. lia.
           ++ simpl in Wx. apply Bool.andb_true_iff in Wx. tauto.
           ++ simpl in Wy. apply Bool.andb_true_iff in Wy. tauto.
           ++ simpl in Hf. lia.
        -- f_equal. lia.
      * cbn [negb].
        assert (Eb : bytes_eqb l l' = false).
        { apply bytes_eqb_len. apply N.eqb_neq in El. unfold blen in El. intro C. apply El. rewrite C. reflexivity. }
        rewrite Eb. f_equal. lia.
Qed.

Lemma common_prefix_spec : forall x y, wf_labelsb x = true -> wf_labelsb y = true ->
  common_prefix (pack_labels x) (pack_labels y) = Ok (cpl x y).
Proof.
  intros x y Wx Wy. unfold common_prefix.
  pose proof (fclp_spec x y [] (S (length (pack_labels x))) Wx Wy) as H. cbn [app length] in H.
  rewrite H; [reflexivity|]. pose proof (pack_labels_length x). lia.
Qed.

(* ---------------------------------------------------------------- getLengthWithoutLastLabel *)

Lemma lab_cons : forall l x, lab (l :: x) = blen l :: l ++ lab x.
Proof. reflexivity. Qed.

Lemma glwll_spec : forall X P rest fuel last, wf_labelsb X = true -> X <> [] -> (length X < fuel)%nat ->
  glwll fuel (P ++ lab X ++ rest) (length P + length (lab X)) (length P) last =
  Ok (length P + length (lab (removelast X)) + 1)%nat.
Proof.
  induction X as [|l X IH]; intros P rest fuel last W Hne Hf; [contradiction|].
  destruct fuel as [|fuel]; [lia|].
  destruct (wf_label_nonzero l X W) as [Nz Lz].
  cbn [glwll]. rewrite lab_cons.
  assert (B1 : (length P <? length P + length (blen l :: l ++ lab X))%nat = true)
    by (apply Nat.ltb_lt; simpl; lia).
  rewrite B1.
  assert (B2 : (length (P ++ (blen l :: l ++ lab X) ++ rest) <=? length P)%nat = false)
    by (apply Nat.leb_gt; rewrite app_length; simpl; lia).
  rewrite B2. rewrite nth_app_len. cbn [app hd].
  replace (N.to_nat (blen l)) with (length l) by (unfold blen; rewrite Nnat.Nat2N.id; reflexivity).
  destruct X as [|l2 X].
  - (* the last label *)
    cbn [lab flat_map removelast app length]. rewrite app_nil_r.
    destruct fuel as [|fuel]; [simpl in Hf; lia|]. cbn [glwll].
    assert (B3 : (length P + length l + 1 <? length P + S (length l))%nat = false)
      by (apply Nat.ltb_ge; lia).
    rewrite B3. f_equal. lia.
  - assert (Q1 : P ++ blen l :: (l ++ lab (l2 :: X)) ++ rest = (P ++ blen l :: l) ++ lab (l2 :: X) ++ rest).
    { rewrite <- (app_assoc P). cbn [app]. rewrite <- (app_assoc l). reflexivity. }
    rewrite Q1.
    assert (Q2 : (length P + length (blen l :: l ++ lab (l2 :: X)) = length (P ++ blen l :: l) + length (lab (l2 :: X)))%nat).
    { rewrite app_length. cbn [length]. rewrite app_length. lia. }
    rewrite Q2.
    assert (Q3 : (length P + length l + 1 = length (P ++ blen l :: l))%nat) by (rewrite app_length; cbn [length]; lia).
    rewrite Q3.
    rewrite IH.
    + f_equal. change (removelast (l :: l2 :: X)) with (l :: removelast (l2 :: X)).
      rewrite lab_cons, !app_length. simpl. rewrite app_length. lia.
    + simpl in W. apply Bool.andb_true_iff in W. tauto.
    + discriminate.
    + simpl in Hf. simpl. lia.
Qed.

(* ---------------------------------------------------------------- order of the map keys *)

Lemma decided_eqlen : forall u v X Y, length u = length v -> u <> v ->
  bcmp (u ++ X) (v ++ Y) = bcmp u v /\ bcmp u v <> Eq.
Proof.
  induction u as [|a u IH]; intros v X Y H Hne; destruct v as [|b v]; try discriminate H.
  - contradiction.
  - cbn [app bcmp]. destruct (a ?= b) eqn:E.
    + apply N.compare_eq in E. subst b. apply IH; [simpl in H; lia|]. intro C. apply Hne. congruence.
    + split; [reflexivity|discriminate].
    + split; [reflexivity|discriminate].
Qed.

Lemma decided_label : forall t m X Y, t <> m ->
  bcmp ((blen t :: t) ++ X) ((blen m :: m) ++ Y) = bcmp (blen t :: t) (blen m :: m) /\
  bcmp (blen t :: t) (blen m :: m) <> Eq.
Proof.
  intros t m X Y Hne. destruct (Nat.eq_dec (length t) (length m)) as [E|NE].
  - apply decided_eqlen; [simpl; lia|]. intro C. inversion C. contradiction.
  - cbn [app bcmp]. destruct (blen t ?= blen m) eqn:C.
    + apply N.compare_eq in C. unfold blen in C. apply Nnat.Nat2N.inj in C. contradiction.
    + split; [reflexivity|discriminate].
    + split; [reflexivity|discriminate].
Qed.

(* the common label prefix of two names *)
Lemma cpl_split : forall R N, exists A tR tN, R = A ++ tR /\ N = A ++ tN /\
  match tR, tN with
  | [], [] => cpl R N = (length (lab A) + 1)%nat
  | l :: _, l' :: _ => l <> l' /\ cpl R N = length (lab A)
  | _, _ => cpl R N = length (lab A)
  end.
Proof.
  induction R as [|l R IH]; intro N.
  - exists [], [], N. split; auto. split; auto. destruct N; reflexivity.
  - destruct N as [|l' N].
    + exists [], (l :: R), []. split; auto.
    + cbn [cpl]. destruct (bytes_eqb l l') eqn:E.
      * apply bytes_eqb_eq in E. subst l'. destruct (IH N) as [A [tR [tN [E1 [E2 H]]]]].
        exists (l :: A), tR, tN. subst. split; auto. split; auto.
        rewrite lab_cons. destruct tR, tN; cbn [length]; rewrite ?app_length; try lia.
        destruct H as [H1 H2]. split; auto. lia.
      * exists [], (l :: R), (l' :: N). split; auto. split; auto. split; auto.
        intro C. subst. rewrite bytes_eqb_refl in E. discriminate.
Qed.

(* ---------------------------------------------------------------- lists and arrays *)

Lemma set_nth_app_r : forall {A} (p : list A) i x l, set_nth (length p + i) x (p ++ l) = p ++ set_nth i x l.
Proof. induction p as [|a p IH]; intros; simpl; auto. rewrite IH. reflexivity. Qed.

Lemma set_nth_length : forall {A} i (x : A) l, length (set_nth i x l) = length l.
Proof. intros A i x l. revert i. induction l as [|a l IH]; intro i; destruct i; simpl; auto. Qed.

Lemma firstn_set_nth_lt : forall {A} n i (x : A) l, (n <= i)%nat -> firstn n (set_nth i x l) = firstn n l.
Proof.
  intros A n i x l. revert n i. induction l as [|a l IH]; intros n i H; destruct i; destruct n; simpl; auto; try lia.
  rewrite IH; auto. lia.
Qed.

Lemma nth_set_nth_eq : forall {A} i (x d : A) l, (i < length l)%nat -> nth i (set_nth i x l) d = x.
Proof. intros A i x d l. revert i. induction l as [|a l IH]; intros i H; destruct i; simpl in *; auto; try lia. apply IH. lia. Qed.

Lemma forallb_rev : forall {A} (f : A -> bool) l, forallb f (rev l) = forallb f l.
Proof.
  intros A f l. induction l as [|a l IH]; simpl; auto. rewrite forallb_app, IH. simpl. rewrite Bool.andb_true_r, Bool.andb_comm. reflexivity.
Qed.

Lemma wf_rev : forall l, wf_labelsb (rev l) = wf_labelsb l.
Proof. intro l. unfold wf_labelsb. apply forallb_rev. Qed.

Lemma wf_firstn : forall j l, wf_labelsb l = true -> wf_labelsb (firstn j l) = true.
Proof.
  intros j l. revert j. induction l as [|a l IH]; intros j H; destruct j; simpl; auto.
  simpl in H. apply Bool.andb_true_iff in H. destruct H as [H1 H2]. rewrite H1. simpl. auto.
Qed.

Lemma firstn_plus : forall {A} a b (l : list A), firstn (a + b) l = firstn a l ++ firstn b (skipn a l).
Proof.
  intros A a. induction a as [|a IH]; intros b l; [reflexivity|].
  destruct l as [|x l]; [destruct b; reflexivity|]. cbn [Nat.add firstn skipn app]. rewrite IH. reflexivity.
Qed.

Lemma lab_length_mono : forall j j' (R : list bytes), wf_labelsb R = true -> (j' <= length R)%nat ->
  (length (lab (firstn j R)) <= length (lab (firstn j' R)))%nat -> (j <= j')%nat \/ (length R <= j')%nat.
Proof.
  intros j j' R W Hj' H. destruct (Nat.le_gt_cases j j') as [|G]; auto.
  (* firstn j R extends firstn j' R by at least one non-empty label *)
  assert (E : firstn j R = firstn j' R ++ firstn (j - j') (skipn j' R)).
  { replace j with (j' + (j - j'))%nat at 1 by lia. apply firstn_plus. }
  rewrite E, lab_app, app_length in H.
  destruct (skipn j' R) as [|l r] eqn:Es.
  - right. assert (X : length (skipn j' R) = 0%nat) by (rewrite Es; reflexivity). rewrite skipn_length in X. lia.
  - exfalso. assert (Wl : wf_labelsb (l :: r) = true).
    { rewrite <- Es. rewrite <- (firstn_skipn j' R) in W. rewrite wf_labels_app in W. apply Bool.andb_true_iff in W. tauto. }
    destruct (wf_label_nonzero l r Wl) as [_ Lz].
    destruct (j - j')%nat eqn:Ej; [lia|]. cbn [firstn] in H. rewrite lab_cons in H. simpl in H. lia.
Qed.

Lemma lookup_some : forall decls kind w n id, lookup_decl decls kind w n = Some id ->
  exists d, In d decls /\ md_kind d = kind /\ md_wild d = w /\ md_name d = n /\ md_id d = id.
Proof.
  induction decls as [|d ds IH]; simpl; intros kind w n id H; [discriminate|].
  destruct ((md_kind d =? kind) && Bool.eqb (md_wild d) w && labels_eqb (md_name d) n) eqn:C.
  - inversion H; subst. apply Bool.andb_true_iff in C. destruct C as [C C3].
    apply Bool.andb_true_iff in C. destruct C as [C1 C2].
    apply N.eqb_eq in C1. apply Bool.eqb_prop in C2. apply labels_eqb_eq in C3. exists d. auto.
  - destruct (IH kind w n id H) as [d' [Hd R]]. exists d'. auto.
Qed.

Lemma lookup_none : forall decls kind w n, lookup_decl decls kind w n = None ->
  forall d, In d decls -> md_kind d = kind -> md_wild d = w -> md_name d <> n.
Proof.
  induction decls as [|d0 ds IH]; simpl; intros kind w n H d Hd Ek Ew En; [contradiction|].
  destruct ((md_kind d0 =? kind) && Bool.eqb (md_wild d0) w && labels_eqb (md_name d0) n) eqn:C; [discriminate|].
  destruct Hd as [->|Hd].
  - rewrite Ek, Ew, En, N.eqb_refl, Bool.eqb_reflx in C. cbn [andb] in C.
    assert (X : labels_eqb n n = true) by (apply labels_eqb_eq; reflexivity). congruence.
  - exact (IH kind w n H d Hd Ek Ew En).
Qed.

(* ---------------------------------------------------------------- the map records of a v2 database *)

Section V2.
  Variable decls : list mapdecl.
  Variable kind : N.
  Variable db : list kv.

  Definition vkey (n : list bytes) (s : N) : bytes := [0; kind] ++ lab n ++ [0; s].

  Hypothesis wf_decls : forall d, In d decls -> wf_labelsb (md_name d) = true.
  Hypothesis uniq : forall d d', In d decls -> In d' decls ->
    md_kind d = md_kind d' -> md_name d = md_name d' -> md_wild d = md_wild d' -> md_id d = md_id d'.
  (* the map records of this kind are exactly the declarations, under reversed names *)
  Hypothesis D1 : forall d, In d decls -> md_kind d = kind ->
    In (vkey (rev (md_name d)) (suffix_of (md_wild d)), mv1 (mapid_bytes (md_id d))) db.
  Hypothesis D2 : forall k v, In (k, v) db -> is_prefix [0; kind] k = true ->
    exists d, In d decls /\ md_kind d = kind /\ k = vkey (rev (md_name d)) (suffix_of (md_wild d)) /\
              v = mv1 (mapid_bytes (md_id d)).

  Lemma vkey_prefix : forall n s, is_prefix [0; kind] (vkey n s) = true.
  Proof. intros. unfold vkey. cbn. rewrite N.eqb_refl. reflexivity. Qed.

  Lemma vkey_inj : forall n s n' s', wf_labelsb n = true -> wf_labelsb n' = true ->
    vkey n s = vkey n' s' -> n = n' /\ s = s'.
  Proof.
    intros n s n' s' W W' H. unfold vkey in H. cbn [app] in H. injection H as H.
    assert (E : pack_labels n ++ [s] = pack_labels n' ++ [s']).
    { rewrite !pack_lab, <- !app_assoc. exact H. }
    apply app_inj_tail in E. destruct E as [E1 E2]. split; auto. apply pack_labels_inj; auto.
  Qed.

  Lemma suffix_of_inj : forall w w', suffix_of w = suffix_of w' -> w = w'.
  Proof. intros [] []; auto; discriminate. Qed.

  (* a declared (name, wildcard?) has its record *)
  Lemma key_present : forall w n id, lookup_decl decls kind w n = Some id ->
    In (vkey (rev n) (suffix_of w), mv1 (mapid_bytes id)) db.
  Proof.
    intros w n id H. destruct (lookup_some decls kind w n id H) as [d [Hd [E1 [E2 [E3 E4]]]]].
    pose proof (D1 d Hd E1) as X. rewrite E2, E3, E4 in X. exact X.
  Qed.

  (* a record under the key of (name, wildcard?) is the record of its declaration *)
  Lemma key_found : forall a w v, wf_labelsb a = true -> In (vkey a (suffix_of w), v) db ->
    exists id, lookup_decl decls kind w (rev a) = Some id /\ v = mv1 (mapid_bytes id).
  Proof.
    intros a w v Wa Hin. destruct (D2 _ _ Hin (vkey_prefix _ _)) as [d [Hd [Ek [Ekey Ev]]]].
    apply vkey_inj in Ekey; auto; [|rewrite wf_rev; apply wf_decls; auto].
    destruct Ekey as [Ea Es]. apply suffix_of_inj in Es.
    destruct (lookup_decl decls kind w (rev a)) as [id|] eqn:L.
    - exists id. split; auto. destruct (lookup_some decls kind w (rev a) id L) as [d' [Hd' [E1 [E2 [E3 E4]]]]].
      rewrite Ev. do 2 f_equal. rewrite <- E4. apply uniq; auto; try congruence.
      rewrite E3, Ea, rev_involutive. reflexivity.
    - exfalso. apply (lookup_none decls kind w (rev a) L d Hd Ek); auto. rewrite Ea, rev_involutive. reflexivity.
  Qed.

  (* ---- order of the keys *)
  Lemma vkey_shape : forall A x s, vkey (A ++ x) s = ([0; kind] ++ lab A) ++ (lab x ++ [0; s]).
  Proof. intros. unfold vkey. rewrite lab_app, <- !app_assoc. reflexivity. Qed.

  (* the wildcard key of a strict ancestor sorts before the keys of the name *)
  Lemma vkey_anc_lt : forall A l r s, wf_labelsb (l :: r) = true ->
    bltb (vkey A 42) (vkey (A ++ l :: r) s) = true.
  Proof.
    intros A l r s W. destruct (wf_label_nonzero l r W) as [Nz _].
    rewrite <- (app_nil_r A) at 1. rewrite !vkey_shape. apply bltb_iff. rewrite bcmp_app.
    change (lab (l :: r)) with (blen l :: l ++ lab r). cbn [lab flat_map app bcmp].
    assert (E : (0 ?= blen l) = Lt) by (apply N.compare_lt_iff; lia). rewrite E. reflexivity.
  Qed.

  (* a key that leaves the name at A and lies below the probe also lies below every wildcard key
     of a longer ancestor *)
  Lemma skip_lt : forall A tN s' m kk s w, wf_labelsb (m :: kk) = true ->
    (tN = [] \/ exists t tt, tN = t :: tt /\ t <> m) ->
    bltb (vkey (A ++ tN) s') (vkey (A ++ m :: kk) s) = true ->
    bltb (vkey (A ++ tN) s') (vkey (A ++ m :: w) 42) = true.
  Proof.
    intros A tN s' m kk s w W Ht H. destruct (wf_label_nonzero m kk W) as [Nz _].
    rewrite !vkey_shape in *. apply bltb_iff in H. apply bltb_iff. rewrite bcmp_app in *.
    destruct Ht as [->|[t [tt [-> Hne]]]].
    - cbn [lab flat_map app bcmp] in *.
      assert (E : (0 ?= blen m) = Lt) by (apply N.compare_lt_iff; lia). rewrite E. reflexivity.
    - change (lab (t :: tt)) with (blen t :: t ++ lab tt) in *.
      change (lab (m :: kk)) with (blen m :: m ++ lab kk) in H.
      change (lab (m :: w)) with (blen m :: m ++ lab w).
      replace ((blen t :: t ++ lab tt) ++ [0; s']) with ((blen t :: t) ++ (lab tt ++ [0; s'])) in *
        by (cbn [app]; rewrite <- app_assoc; reflexivity).
      replace ((blen m :: m ++ lab kk) ++ [0; s]) with ((blen m :: m) ++ (lab kk ++ [0; s])) in H
        by (cbn [app]; rewrite <- app_assoc; reflexivity).
      replace ((blen m :: m ++ lab w) ++ [0; 42]) with ((blen m :: m) ++ (lab w ++ [0; 42]))
        by (cbn [app]; rewrite <- app_assoc; reflexivity).
      destruct (decided_label t m (lab tt ++ [0; s']) (lab kk ++ [0; s]) Hne) as [E1 _].
      destruct (decided_label t m (lab tt ++ [0; s']) (lab w ++ [0; 42]) Hne) as [E2 _].
      rewrite E2, <- E1. exact H.
  Qed.

  (* ---- the search *)
  Variable ls : list bytes.
  Hypothesis wf_ls : wf_labelsb ls = true.

  Let R := rev ls.
  Let rz := pack_labels R.
  Definition anc (j : nat) : list bytes := firstn j R.
  Definition name (j : nat) : list bytes := rev (anc j).
  Definition clen (j : nat) : nat := length (lab (anc j)).

  Lemma wf_R : wf_labelsb R = true.
  Proof. unfold R. rewrite wf_rev. exact wf_ls. Qed.
  Lemma wf_anc : forall j, wf_labelsb (anc j) = true.
  Proof. intro j. apply wf_firstn. apply wf_R. Qed.

  (* the nearest enclosing wildcard map at or above the ancestor with j labels *)
  Fixpoint Wd (j : nat) : option mapid :=
    match lookup_decl decls kind true (name j) with
    | Some m => Some m
    | None => match j with O => None | S j' => Wd j' end
    end.

  Lemma Wd_skip : forall j j', (j' <= j)%nat ->
    (forall i, (j' < i <= j)%nat -> lookup_decl decls kind true (name i) = None) -> Wd j = Wd j'.
  Proof.
    induction j as [|j IH]; intros j' H Hn.
    - assert (j' = 0)%nat by lia. subst. reflexivity.
    - destruct (Nat.eq_dec j' (S j)) as [ -> |NE]; [reflexivity|].
      cbn [Wd]. rewrite (Hn (S j)) by lia. apply IH; [lia|]. intros i Hi. apply Hn. lia.
  Qed.

  Lemma Wd_none : forall j, (forall i, (i <= j)%nat -> lookup_decl decls kind true (name i) = None) -> Wd j = None.
  Proof.
    induction j as [|j IH]; intro Hn; cbn [Wd]; rewrite Hn by lia; [reflexivity|]. apply IH. intros. apply Hn. lia.
  Qed.

  Lemma name_S : forall j, (j < length R)%nat -> exists x, name (S j) = x :: name j.
  Proof.
    intros j H. unfold name, anc.
    destruct (skipn j R) as [|x r] eqn:Es.
    - assert (X : length (skipn j R) = 0%nat) by (rewrite Es; reflexivity). rewrite skipn_length in X. lia.
    - exists x. replace (S j) with (j + 1)%nat by lia. rewrite firstn_plus, Es. cbn [firstn].
      rewrite rev_app_distr. reflexivity.
  Qed.

  Lemma name_full : name (length R) = ls.
  Proof. unfold name, anc. rewrite firstn_all. unfold R. apply rev_involutive. Qed.

  Lemma nearest_wild_Wd : forall j, (j < length R)%nat -> nearest_wild decls kind (name (S j)) = Wd j.
  Proof.
    induction j as [|j IH]; intro H.
    - destruct (name_S 0 H) as [x E]. rewrite E. cbn [nearest_wild Wd].
      destruct (lookup_decl decls kind true (name 0)); auto.
    - destruct (name_S (S j) H) as [x E]. rewrite E. cbn [nearest_wild Wd].
      destruct (lookup_decl decls kind true (name (S j))); auto. apply IH. lia.
  Qed.

  (* the specification, indexed by the number of labels *)
  Lemma map_choice_Wd : map_choice decls kind ls =
    match lookup_decl decls kind false ls with
    | Some m => Some m
    | None => match length R with O => None | S j => Wd j end
    end.
  Proof.
    unfold map_choice. destruct (lookup_decl decls kind false ls); auto.
    destruct (length R) as [|j] eqn:E.
    - assert (ls = []).
      { unfold R in E. rewrite rev_length in E. destruct ls; [reflexivity|discriminate E]. }
      subst. reflexivity.
    - rewrite <- name_full at 1. rewrite E. apply nearest_wild_Wd. lia.
  Qed.

  (* ---- the key buffer *)
  Definition arr_ok (j : nat) (arr : bytes) : Prop :=
    length arr = (2 + length (lab R) + 2)%nat /\
    firstn (2 + clen j) arr = [0; kind] ++ lab (anc j) /\
    nth (2 + clen j) arr 1 = 0.

  Lemma clen_le : forall j, (clen j <= length (lab R))%nat.
  Proof.
    intro j. unfold clen, anc. rewrite <- (firstn_skipn j R) at 2. rewrite lab_app, app_length. lia.
  Qed.

  Lemma probe_key : forall j arr s, arr_ok j arr ->
    firstn (2 + clen j + 2) (set_nth (2 + clen j + 2 - 1) s arr) = vkey (anc j) s.
  Proof.
    intros j arr s [A1 [A2 A3]]. pose proof (clen_le j) as Lc.
    remember (firstn (2 + clen j) arr) as pre eqn:Epre.
    remember (skipn (2 + clen j) arr) as suf eqn:Esuf.
    assert (Earr : arr = pre ++ suf) by (subst; symmetry; apply firstn_skipn).
    assert (Lp : length pre = (2 + clen j)%nat) by (subst pre; rewrite firstn_length; lia).
    assert (Ls : length suf = (length (lab R) + 2 - clen j)%nat) by (subst suf; rewrite skipn_length; lia).
    destruct suf as [|x0 [|x1 tl]]; [simpl in Ls; lia|simpl in Ls; lia|].
    rewrite Earr in A3. rewrite <- Lp in A3. rewrite nth_app_len in A3. cbn [hd] in A3. subst x0.
    rewrite Earr.
    replace (2 + clen j + 2 - 1)%nat with (length pre + 1)%nat by lia.
    rewrite set_nth_app_r. cbn [set_nth].
    replace (2 + clen j + 2)%nat with (length pre + 2)%nat by lia.
    rewrite firstn_app_2. cbn [firstn]. rewrite A2. unfold vkey. rewrite <- app_assoc. reflexivity.
  Qed.

  Lemma arr_ok_init : arr_ok (length R) ([0; kind] ++ rz ++ [61]).
  Proof.
    unfold arr_ok, clen, anc, rz. rewrite firstn_all, pack_lab. split; [|split].
    - rewrite !app_length. simpl. lia.
    - replace (2 + length (lab R))%nat with (length ([0; kind] ++ lab R)) by (rewrite app_length; reflexivity).
      replace ([0; kind] ++ (lab R ++ [0]) ++ [61]) with (([0; kind] ++ lab R) ++ [0; 61])
        by (rewrite <- !app_assoc; reflexivity).
      rewrite firstn_app, Nat.sub_diag, firstn_all. cbn [firstn]. rewrite app_nil_r. reflexivity.
    - replace (2 + length (lab R))%nat with (length ([0; kind] ++ lab R)) by (rewrite app_length; reflexivity).
      replace ([0; kind] ++ (lab R ++ [0]) ++ [61]) with (([0; kind] ++ lab R) ++ [0; 61])
        by (rewrite <- !app_assoc; reflexivity).
      rewrite nth_app_len. reflexivity.
  Qed.

  Lemma anc_prefix : forall j' j, (j' <= j)%nat -> exists x, anc j = anc j' ++ x.
  Proof.
    intros j' j H. unfold anc. exists (firstn (j - j') (skipn j' R)).
    replace j with (j' + (j - j'))%nat at 1 by lia. apply firstn_plus.
  Qed.

  Lemma arr_ok_step : forall j j' arr s, arr_ok j arr -> (j' <= j)%nat ->
    arr_ok j' (set_nth (2 + clen j') 0 (set_nth (2 + clen j + 2 - 1) s arr)).
  Proof.
    intros j j' arr s [A1 [A2 A3]] H. pose proof (clen_le j) as Lc.
    destruct (anc_prefix j' j H) as [x Ex].
    assert (Lc' : (clen j' <= clen j)%nat) by (unfold clen; rewrite Ex, lab_app, app_length; lia).
    split; [|split].
    - rewrite !set_nth_length. exact A1.
    - rewrite firstn_set_nth_lt by lia. rewrite firstn_set_nth_lt by lia.
      assert (E : firstn (2 + clen j') arr = firstn (2 + clen j') (firstn (2 + clen j) arr))
        by (rewrite firstn_firstn; f_equal; lia).
      rewrite E, A2. unfold clen. rewrite Ex, lab_app.
      replace (2 + length (lab (anc j')))%nat with (length ([0; kind] ++ lab (anc j'))) by (rewrite app_length; reflexivity).
      rewrite app_assoc, firstn_app, Nat.sub_diag, firstn_all. cbn [firstn]. rewrite app_nil_r. reflexivity.
    - apply nth_set_nth_eq. rewrite set_nth_length. lia.
  Qed.

  (* ---- small facts used by the loop *)
  Lemma prefix_check : forall fk k, firstn 2 k = [0; kind] ->
    (length fk <? 2)%nat || negb (bytes_eqb (firstn 2 fk) (firstn 2 k)) = negb (is_prefix [0; kind] fk).
  Proof.
    intros fk k Hk. rewrite Hk. destruct fk as [|a [|b fk']].
    - reflexivity.
    - cbn. destruct a; reflexivity.
    - cbn [length firstn is_prefix bytes_eqb].
      replace (S (S (length fk')) <? 2)%nat with false by (symmetry; apply Nat.ltb_ge; lia).
      cbn [orb]. rewrite !Bool.andb_true_r. rewrite (N.eqb_sym a 0), (N.eqb_sym b kind). reflexivity.
  Qed.

  Lemma vkey_first2 : forall n s, firstn 2 (vkey n s) = [0; kind].
  Proof. reflexivity. Qed.

  Lemma vkey_length : forall n s, length (vkey n s) = (2 + length (lab n) + 2)%nat.
  Proof. intros. unfold vkey. rewrite !app_length. simpl. lia. Qed.

  Lemma found_label : forall n s, firstn (length (vkey n s) - 3) (skipn 2 (vkey n s)) = pack_labels n.
  Proof.
    intros n s. rewrite vkey_length. unfold vkey. cbn [app skipn].
    replace (2 + length (lab n) + 2 - 3)%nat with (length (lab n) + 1)%nat by lia.
    replace (lab n ++ [0; s]) with ((lab n ++ [0]) ++ [s]) by (rewrite <- app_assoc; reflexivity).
    rewrite <- pack_lab.
    replace (length (lab n) + 1)%nat with (length (pack_labels n)) by (rewrite pack_lab, app_length; simpl; lia).
    rewrite firstn_app, Nat.sub_diag, firstn_all. cbn [firstn]. apply app_nil_r.
  Qed.

  Lemma anc_of_prefix : forall A t, R = A ++ t -> anc (length A) = A.
  Proof. intros A t E. unfold anc. rewrite E, firstn_app, Nat.sub_diag, firstn_all. cbn [firstn]. apply app_nil_r. Qed.

  Lemma clen_zero : forall j, (j <= length R)%nat -> clen j = 0%nat -> j = 0%nat.
  Proof.
    intros j Hj H. destruct j as [|j]; auto. exfalso. unfold clen, anc in H.
    destruct R as [|l r] eqn:ER; [simpl in Hj; lia|]. cbn [firstn] in H.
    pose proof wf_R as W. rewrite ER in W. destruct (wf_label_nonzero l r W) as [_ Lz].
    change (lab (l :: firstn j r)) with (blen l :: l ++ lab (firstn j r)) in H. simpl in H. lia.
  Qed.

  Lemma anc_split : forall i j, (i < j)%nat -> (j <= length R)%nat ->
    exists m w, anc j = anc i ++ m :: w /\ wf_labelsb (m :: w) = true /\ (forall j2, (i < j2)%nat -> (j2 <= length R)%nat -> exists w2, anc j2 = anc i ++ m :: w2).
  Proof.
    intros i j Hij Hj. unfold anc.
    destruct (skipn i R) as [|m r] eqn:Es.
    - assert (X : length (skipn i R) = 0%nat) by (rewrite Es; reflexivity). rewrite skipn_length in X. lia.
    - exists m, (firstn (j - i - 1) r). split; [|split].
      + replace j with (i + S (j - i - 1))%nat at 1 by lia. rewrite firstn_plus, Es. reflexivity.
      + assert (W : wf_labelsb (firstn j R) = true) by (apply wf_firstn; apply wf_R).
        replace j with (i + S (j - i - 1))%nat in W by lia. rewrite firstn_plus, Es in W.
        rewrite wf_labels_app in W. apply Bool.andb_true_iff in W. tauto.
      + intros j2 H1 H2. exists (firstn (j2 - i - 1) r).
        replace j2 with (i + S (j2 - i - 1))%nat at 1 by lia. rewrite firstn_plus, Es. reflexivity.
  Qed.

  Lemma name_anc : forall j, rev (name j) = anc j.
  Proof. intro j. unfold name. apply rev_involutive. Qed.

  (* a declared wildcard of a strict ancestor has its record below the probe *)
  Lemma wild_below : forall i j s id, (i < j)%nat -> (j <= length R)%nat ->
    lookup_decl decls kind true (name i) = Some id ->
    exists v, In (vkey (anc i) 42, v) db /\ bltb (vkey (anc i) 42) (vkey (anc j) s) = true.
  Proof.
    intros i j s id Hij Hj L. pose proof (key_present true (name i) id L) as X. rewrite name_anc in X.
    eexists. split; [exact X|].
    destruct (anc_split i j Hij Hj) as [m [w [E [W _]]]]. rewrite E. apply vkey_anc_lt. exact W.
  Qed.

  (* ---- the loop *)
  Definition target (j : nat) (suffix : N) : option mapid :=
    if suffix =? 61 then map_choice decls kind ls else Wd j.
  Definition wild_of (suffix : N) : bool := suffix =? 42.

  (* when the probed (name, wildcard?) is not declared and no ancestor above j' has a wildcard map,
     the answer is the nearest wildcard at or above j' *)
  Lemma target_skip : forall j j' suffix, (j' < j)%nat -> (j <= length R)%nat ->
    ((suffix = 61 /\ j = length R) \/ suffix = 42) ->
    lookup_decl decls kind (wild_of suffix) (name j) = None ->
    (forall i, (j' < i < j)%nat -> lookup_decl decls kind true (name i) = None) ->
    target j suffix = Wd j'.
  Proof.
    intros j j' suffix Hj' Hj Hs Hl Hskip. unfold target. destruct Hs as [[ -> -> ]| -> ].
    - cbn [N.eqb Pos.eqb]. rewrite map_choice_Wd. unfold wild_of in Hl. cbn in Hl. rewrite name_full in Hl. rewrite Hl.
      destruct (length R) as [|jm] eqn:E; [lia|]. apply Wd_skip; [lia|]. intros i Hi. apply Hskip. lia.
    - cbn [N.eqb Pos.eqb]. apply Wd_skip; [lia|]. intros i Hi.
      destruct (Nat.eq_dec i j) as [ -> |NE]; [exact Hl|]. apply Hskip. lia.
  Qed.

  Lemma target_none : forall j suffix, (j <= length R)%nat ->
    ((suffix = 61 /\ j = length R) \/ suffix = 42) ->
    lookup_decl decls kind (wild_of suffix) (name j) = None ->
    (forall i, (i < j)%nat -> lookup_decl decls kind true (name i) = None) ->
    target j suffix = None.
  Proof.
    intros j suffix Hj Hs Hl Hn. unfold target. destruct Hs as [[ -> -> ]| -> ].
    - cbn [N.eqb Pos.eqb]. rewrite map_choice_Wd. unfold wild_of in Hl. cbn in Hl. rewrite name_full in Hl. rewrite Hl.
      destruct (length R) as [|jm] eqn:E; [reflexivity|]. apply Wd_none. intros i Hi. apply Hn. lia.
    - cbn [N.eqb Pos.eqb]. apply Wd_none. intros i Hi.
      destruct (Nat.eq_dec i j) as [ -> |NE]; [exact Hl|]. apply Hn. lia.
  Qed.

  Lemma suffix_wild : forall j suffix, ((suffix = 61 /\ j = length R) \/ suffix = 42) ->
    suffix_of (wild_of suffix) = suffix.
  Proof. intros j suffix [[ -> _ ]| -> ]; reflexivity. Qed.

  Lemma loop_spec : forall fuel j arr suffix, (j < fuel)%nat -> (j <= length R)%nat -> arr_ok j arr ->
    ((suffix = 61 /\ j = length R) \/ suffix = 42) ->
    v2_find_map_loop fuel db rz arr (2 + clen j + 2) suffix (clen j) =
    Ok (option_map mapid_bytes (target j suffix)).
  Proof.
    induction fuel as [|fuel IH]; intros j arr suffix Hf Hj Hok Hs; [lia|].
    cbn [v2_find_map_loop]. rewrite (probe_key j arr suffix Hok).
    set (k := vkey (anc j) suffix).
    pose proof (suffix_wild j suffix Hs) as Esw.
    pose proof (seek_prev_spec db k) as Sp.
    (* the probed declaration, if any, has its record under k *)
    assert (Present : forall id, lookup_decl decls kind (wild_of suffix) (name j) = Some id ->
                      In (k, mv1 (mapid_bytes id)) db).
    { intros id L. pose proof (key_present (wild_of suffix) (name j) id L) as X.
      rewrite name_anc, Esw in X. exact X. }
    destruct (seek_prev db k) as [[fk fv]|].
    2:{ (* nothing at or below the probe *)
      rewrite target_none; auto.
      - destruct (lookup_decl decls kind (wild_of suffix) (name j)) as [id|] eqn:L; auto.
        pose proof (Sp _ _ (Present id eq_refl)) as X. rewrite bleb_refl in X. discriminate.
      - intros i Hi. destruct (lookup_decl decls kind true (name i)) as [id|] eqn:L; auto.
        destruct (wild_below i j suffix id Hi Hj L) as [v [Hin Hlt]].
        pose proof (Sp _ _ Hin) as X. assert (Y : bleb (vkey (anc i) 42) k = true) by (apply bleb_cases; auto).
        congruence. }
    destruct Sp as [Hin [Hle Hmax]].
    destruct (bytes_eqb fk k) eqn:Eq.
    - (* the exact record *)
      apply bytes_eqb_eq in Eq. subst fk. unfold k in Hin. rewrite <- Esw in Hin.
      destruct (key_found (anc j) (wild_of suffix) fv (wf_anc j) Hin) as [id [L ->]].
      assert (L4 : (length (mv1 (mapid_bytes id)) <? 4)%nat = false) by (destruct id; reflexivity).
      rewrite L4. change (skipn 4 (mv1 (mapid_bytes id))) with (mapid_bytes id).
      f_equal. f_equal. unfold target. fold (name j) in L.
      destruct Hs as [[ -> -> ]| -> ].
      + cbn [N.eqb Pos.eqb]. unfold map_choice. unfold wild_of in L. cbn in L. rewrite name_full in L. rewrite L. reflexivity.
      + cbn [N.eqb Pos.eqb]. unfold wild_of in L. cbn in L. destruct j; cbn [Wd]; rewrite L; reflexivity.
    - (* not the exact record: the probed declaration does not exist *)
      assert (Hne : fk <> k) by (intro C; subst; rewrite bytes_eqb_refl in Eq; discriminate).
      assert (Hlt : bltb fk k = true) by (apply bleb_cases in Hle; destruct Hle; [contradiction|auto]).
      assert (Lnone : lookup_decl decls kind (wild_of suffix) (name j) = None).
      { destruct (lookup_decl decls kind (wild_of suffix) (name j)) as [id|] eqn:L; auto. exfalso.
        pose proof (Hmax _ _ (Present id eq_refl) (bleb_refl k)) as X. apply Hne. apply bleb_antisym; auto. }
      destruct (clen j =? 0)%nat eqn:Ec.
      { (* the root was the last candidate *)
        apply Nat.eqb_eq in Ec. pose proof (clen_zero j Hj Ec) as J0. subst j.
        rewrite target_none; auto. intros i Hi. lia. }
      apply Nat.eqb_neq in Ec.
      rewrite (prefix_check fk k (vkey_first2 _ _)).
      destruct (is_prefix [0; kind] fk) eqn:Pf; cbn [negb].
      2:{ (* the closest record is not a map record of this kind: no ancestor has a wildcard map *)
        rewrite target_none; auto. intros i Hi.
        destruct (lookup_decl decls kind true (name i)) as [id|] eqn:L; auto. exfalso.
        destruct (wild_below i j suffix id Hi Hj L) as [v [Hin' Hlt']].
        assert (Y : bleb (vkey (anc i) 42) k = true) by (apply bleb_cases; auto).
        pose proof (Hmax _ _ Hin' Y) as Z.
        pose proof (prefix_interval [0; kind] (vkey (anc i) 42) fk k (vkey_prefix _ _) (vkey_prefix _ _) Z Hle). congruence. }
      destruct (D2 _ _ Hin Pf) as [d [Hd [Ek [Efk Ev]]]].
      set (Nn := rev (md_name d)) in *. set (sf := suffix_of (md_wild d)) in *.
      assert (WN : wf_labelsb Nn = true) by (unfold Nn; rewrite wf_rev; apply wf_decls; auto).
      assert (L3 : (length fk <? 3)%nat = false) by (rewrite Efk, vkey_length; apply Nat.ltb_ge; lia).
      rewrite L3. rewrite Efk at 1 2. rewrite found_label. unfold rz.
      rewrite (common_prefix_spec R Nn wf_R WN).
      destruct (cpl_split R Nn) as [A [tR [tN [ER [EN Hc]]]]].
      pose proof (clen_le j) as Lc.
      destruct (clen j <? cpl R Nn)%nat eqn:Cgt.
      + (* the closest record has the probed name itself: go to the parent *)
        apply Nat.ltb_lt in Cgt.
        assert (Jpos : (0 < j)%nat) by (destruct j; [unfold clen, anc in Ec; simpl in Ec; lia|lia]).
        assert (Eparent : length_without_last_label (pack_labels R) (clen j + 1) = Ok (clen (j - 1) + 1)%nat).
        { unfold length_without_last_label.
          destruct (anc_prefix j (length R) Hj) as [x Ex]. unfold anc at 1 in Ex. rewrite firstn_all in Ex.
          assert (Hane : anc j <> []).
          { unfold anc. destruct R as [|r0 R'] eqn:ER0; [simpl in Hj; lia|]. destruct j; [lia|]. discriminate. }
          assert (Epar : removelast (anc j) = anc (j - 1)).
          { unfold anc. replace j with (S (j - 1)) at 1 by lia. apply removelast_firstn. lia. }
          assert (Erz : pack_labels R = [] ++ lab (anc j) ++ (lab x ++ [0])).
          { rewrite pack_lab. remember (anc j) as aj. rewrite Ex, lab_app, <- app_assoc. reflexivity. }
          assert (Efuel : (length (anc j) < S (length (pack_labels R)))%nat).
          { pose proof (pack_labels_length R). unfold anc. rewrite firstn_length. lia. }
          remember (S (length (pack_labels R))) as fu.
          pose proof (glwll_spec (anc j) [] (lab x ++ [0]) fu 0%nat (wf_anc j) Hane Efuel) as G.
          cbn [app length Nat.add] in G.
          rewrite Erz. cbn [app]. replace (clen j + 1 - 1)%nat with (length (lab (anc j))) by (unfold clen; lia).
          rewrite G. f_equal. rewrite Epar. unfold clen. lia. }
        rewrite Eparent. cbn [rbind]. replace (clen (j - 1) + 1 - 1)%nat with (clen (j - 1)) by lia.
        destruct (anc_prefix (j - 1) j ltac:(lia)) as [x Ex].
        assert (Lc1 : (clen (j - 1) <= clen j)%nat) by (unfold clen; rewrite Ex, lab_app, app_length; lia).
        replace (2 + clen j + 2 <=? 2 + clen (j - 1))%nat with false by (symmetry; apply Nat.leb_gt; lia).
        destruct Hok as [A1 [A2 A3]].
        replace (length arr <? 2 + clen (j - 1) + 2)%nat with false by (symmetry; apply Nat.ltb_ge; lia).
        rewrite (IH (j - 1)%nat); [|lia|lia|apply arr_ok_step; [split; auto|lia]|right; reflexivity].
        f_equal. f_equal. symmetry. apply target_skip; auto; try lia; intros; lia.
      + (* the closest record leaves the name at the ancestor A *)
        apply Nat.ltb_ge in Cgt. cbn [rbind].
        assert (Hc' : cpl R Nn = length (lab A) /\ (tN = [] \/ exists t tt, tN = t :: tt /\ forall m w, tR = m :: w -> t <> m) /\ tR <> []).
        { destruct tR as [|m w], tN as [|t tt].
          - exfalso. rewrite app_nil_r in ER. rewrite <- ER in Hc. lia.
          - exfalso. rewrite app_nil_r in ER. subst A. (* found = name ++ more labels: above the probe *)
            rewrite Hc in Cgt.
            assert (J : j = length R).
            { destruct (lab_length_mono (length R) j R wf_R Hj) as [X|X]; try lia.
              unfold clen, anc in Cgt. rewrite firstn_all. exact Cgt. }
            subst j. unfold k, anc in Hlt. rewrite firstn_all in Hlt. rewrite Efk, EN in Hlt.
            rewrite <- (app_nil_r R) in Hlt at 2. rewrite !vkey_shape in Hlt. apply bltb_iff in Hlt.
            rewrite bcmp_app in Hlt. change (lab (t :: tt)) with (blen t :: t ++ lab tt) in Hlt.
            cbn [lab flat_map app bcmp] in Hlt.
            assert (Wt : wf_labelsb (t :: tt) = true).
            { rewrite EN, wf_labels_app in WN. apply Bool.andb_true_iff in WN. tauto. }
            destruct (wf_label_nonzero t tt Wt) as [Nz _].
            assert (E : (blen t ?= 0) = Gt) by (apply N.compare_gt_iff; lia). rewrite E in Hlt. discriminate.
          - split; auto. split; [left; reflexivity|discriminate].
          - destruct Hc as [Hne' Hc]. split; auto. split; [|discriminate].
            right. exists t, tt. split; auto. intros m' w' E. inversion E; subst. auto. }
        destruct Hc' as [Ecpl [HtN HtR]]. rewrite Ecpl in *.
        set (j' := length A).
        assert (EA : anc j' = A) by (apply (anc_of_prefix A tR ER)).
        assert (Ecl : clen j' = length (lab A)) by (unfold clen; rewrite EA; reflexivity).
        assert (Hj'R : (j' <= length R)%nat) by (unfold j'; rewrite ER, app_length; lia).
        assert (Hj'j : (j' < j)%nat).
        { destruct (Nat.lt_ge_cases j' j) as [|Ge]; auto. exfalso.
          (* A extends the probed name: the record would not lie below the probe *)
          destruct (anc_prefix j j' Ge) as [x Ex]. rewrite EA in Ex.
          assert (Ecj : clen j = length (lab A)).
          { unfold clen in *. rewrite Ex, lab_app, app_length in *. lia. }
          assert (Xnil : lab x = []).
          { rewrite Ex, lab_app, app_length in Ecj. unfold clen in Ecj. destruct (lab x); [reflexivity|simpl in Ecj; lia]. }
          assert (x = []).
          { destruct x as [|x0 x']; auto. change (lab (x0 :: x')) with (blen x0 :: x0 ++ lab x') in Xnil. discriminate. }
          subst x. rewrite app_nil_r in Ex. rewrite Ex in EN, ER.
          unfold k in Hlt. rewrite Efk, EN in Hlt.
          rewrite <- (app_nil_r (anc j)) in Hlt at 2. rewrite !vkey_shape in Hlt. apply bltb_iff in Hlt.
          rewrite bcmp_app in Hlt.
          destruct HtN as [ -> |[t [tt [ -> Hne']]]].
          - cbn [lab flat_map app bcmp] in Hlt. rewrite N.compare_refl in Hlt.
            (* equal names: the suffix of the record is smaller than the probed one *)
            destruct (sf ?= suffix) eqn:Cs; try discriminate Hlt.
            rewrite N.compare_lt_iff in Cs.
            assert (S61 : suffix = 61).
            { unfold sf in Cs. destruct Hs as [[ -> _ ]| -> ]; auto. destruct (md_wild d); cbn in Cs; lia. }
            destruct Hs as [[_ Jl]|S42]; [|congruence].
            subst j. unfold anc in ER. rewrite firstn_all in ER.
            assert (tR = []). { destruct tR; auto. apply (f_equal (@length bytes)) in ER. rewrite app_length in ER. simpl in ER. lia. }
            contradiction.
          - change (lab (t :: tt)) with (blen t :: t ++ lab tt) in Hlt. cbn [lab flat_map app bcmp] in Hlt.
            assert (Wt : wf_labelsb (t :: tt) = true).
            { rewrite EN, wf_labels_app in WN. apply Bool.andb_true_iff in WN. tauto. }
            destruct (wf_label_nonzero t tt Wt) as [Nz _].
            assert (E : (blen t ?= 0) = Gt) by (apply N.compare_gt_iff; lia). rewrite E in Hlt. discriminate. }
        assert (Lc1 : (length (lab A) <= clen j)%nat) by lia.
        replace (2 + clen j + 2 <=? 2 + length (lab A))%nat with false by (symmetry; apply Nat.leb_gt; lia).
        destruct Hok as [A1 [A2 A3]].
        replace (length arr <? 2 + length (lab A) + 2)%nat with false by (symmetry; apply Nat.ltb_ge; lia).
        rewrite <- Ecl.
        rewrite (IH j'); [|lia|exact Hj'R|apply arr_ok_step; [split; auto|lia]|right; reflexivity].
        f_equal. f_equal. symmetry. apply target_skip; auto.
        intros i Hi.
        destruct (lookup_decl decls kind true (name i)) as [id|] eqn:L; auto. exfalso.
        destruct (wild_below i j suffix id ltac:(lia) Hj L) as [v [Hin' Hlt']].
        assert (Y : bleb (vkey (anc i) 42) k = true) by (apply bleb_cases; auto).
        pose proof (Hmax _ _ Hin' Y) as Z.
        (* the record lies strictly below that wildcard key *)
        destruct (anc_split j' j Hj'j Hj) as [m [kk [Ej [Wm Hall]]]].
        destruct (Hall i ltac:(lia) ltac:(lia)) as [w2 Ei].
        assert (Etr : exists w0, tR = m :: w0).
        { destruct (anc_prefix j (length R) Hj) as [rest Erest]. unfold anc at 1 in Erest. rewrite firstn_all in Erest.
          rewrite Ej, EA in Erest. rewrite <- app_assoc in Erest. cbn [app] in Erest.
          rewrite ER in Erest at 1. apply app_inv_head in Erest. eauto. }
        destruct Etr as [w0 Etr].
        assert (HtN' : tN = [] \/ exists t tt, tN = t :: tt /\ t <> m).
        { destruct HtN as [|[t [tt [E Hd']]]]; auto. right. exists t, tt. split; auto. apply (Hd' m w0). exact Etr. }
        assert (Lt2 : bltb fk (vkey (anc i) 42) = true).
        { rewrite Efk, EN, Ei, EA. apply (skip_lt A tN sf m kk suffix w2 Wm HtN').
          rewrite <- EA at 2. rewrite <- Ej. rewrite <- EN, <- Efk. exact Hlt. }
        rewrite (bltb_not_leb _ _ Lt2) in Z. discriminate.
  Qed.

  (* RocksDB v2 keys: exact-name map first, else the nearest enclosing wildcard map *)
  Theorem v2_find_map_choice :
    v2_find_map db [0; kind] (pack_labels ls) = Ok (option_map mapid_bytes (map_choice decls kind ls)).
  Proof.
    unfold v2_find_map. rewrite (rev_name_pack ls wf_ls). fold R. fold rz.
    assert (Ec : clen (length R) = length (lab R)) by (unfold clen, anc; rewrite firstn_all; reflexivity).
    assert (E1 : length ([0; kind] ++ rz ++ [61]) = (2 + clen (length R) + 2)%nat).
    { rewrite Ec. unfold rz. rewrite pack_lab, !app_length. simpl. lia. }
    assert (E2 : (length rz - 1)%nat = clen (length R)).
    { rewrite Ec. unfold rz. rewrite pack_lab, app_length. simpl. lia. }
    rewrite E1, E2.
    rewrite (loop_spec (length (pack_labels ls) + 2) (length R) ([0; kind] ++ rz ++ [61]) 61).
    - unfold target. reflexivity.
    - pose proof (pack_labels_length ls). unfold R. rewrite rev_length. lia.
    - lia.
    - apply arr_ok_init.
    - left. auto.
  Qed.
End V2.
