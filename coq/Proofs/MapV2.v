(* C03, name-to-map step on RocksDB v2 keys (findMapInSortedData): the sorted search
   with skips returns the exact-name map, else the nearest enclosing wildcard map. *)
From DnsV Require Import Base.Bytes Base.Ip Spec.Lpm Model.Rearranger Model.Location.
From DnsV Require Import Proofs.Location Proofs.BytesOrder.
From Coq Require Import Lia ZifyN ZifyBool ZifyNat.
Open Scope N_scope.

(* ---------------------------------------------------------------- labels as bytes *)

Definition lab (ls : list bytes) : bytes := flat_map (fun l => blen l :: l) ls.

Lemma pack_lab : forall ls, pack_labels ls = lab ls ++ [0].
Proof. induction ls as [|l ls IH]; simpl; auto. rewrite IH, <- app_assoc. reflexivity. Qed.

Lemma lab_app : forall x y, lab (x ++ y) = lab x ++ lab y.
Proof. intros. unfold lab. rewrite flat_map_app. reflexivity. Qed.

Lemma wf_labels_app : forall x y, wf_labelsb (x ++ y) = wf_labelsb x && wf_labelsb y.
Proof. intros. unfold wf_labelsb. apply forallb_app. Qed.

Lemma wf_label_nonzero : forall l ls, wf_labelsb (l :: ls) = true -> blen l <> 0 /\ (0 < length l)%nat.
Proof.
  intros l ls H. simpl in H. apply Bool.andb_true_iff in H. destruct H as [H _].
  destruct l; [discriminate H|]. unfold blen. simpl. split; lia.
Qed.

Lemma labels_of_pack : forall ls fuel, wf_labelsb ls = true -> (length ls < fuel)%nat ->
  labels_of fuel (pack_labels ls) = Some ls.
Proof.
  induction ls as [|l ls IH]; intros fuel W Hf; (destruct fuel as [|fuel]; [lia|]).
  - reflexivity.
  - destruct (wf_label_nonzero l ls W) as [Nz _].
    cbn [pack_labels labels_of]. apply N.eqb_neq in Nz. rewrite Nz. unfold blen. rewrite Nnat.Nat2N.id.
    assert (E1 : (length l <=? length (l ++ pack_labels ls))%nat = true)
      by (apply Nat.leb_le; rewrite app_length; lia).
    rewrite E1, skipn_app_exact, firstn_app, Nat.sub_diag, firstn_all. cbn [firstn]. rewrite app_nil_r.
    rewrite IH; auto.
    + simpl in W. apply Bool.andb_true_iff in W. tauto.
    + simpl in Hf. lia.
Qed.

Lemma rev_name_pack : forall ls, wf_labelsb ls = true -> rev_name (pack_labels ls) = Some (pack_labels (rev ls)).
Proof.
  intros ls W. unfold rev_name. rewrite labels_of_pack; auto. apply pack_labels_length.
Qed.

(* ---------------------------------------------------------------- findCommonLongestPrefix *)

(* bytes of the common label prefix of two names, plus one when both end there *)
Fixpoint cpl (x y : list bytes) : nat :=
  match x, y with
  | [], [] => 1
  | l :: x', l' :: y' => if bytes_eqb l l' then (S (length l) + cpl x' y')%nat else 0%nat
  | _, _ => 0%nat
  end.

Lemma nth_app_len : forall (P s : bytes) d, nth (length P) (P ++ s) d = hd d s.
Proof. intros. rewrite app_nth2 by lia. rewrite Nat.sub_diag. destruct s; reflexivity. Qed.

Lemma cmp_range_spec : forall l l' Q r1 r2, length l = length l' ->
  cmp_range (Q ++ l ++ r1) (Q ++ l' ++ r2) (length Q) (length l) = Ok (bytes_eqb l l').
Proof.
  induction l as [|c l IH]; intros l' Q r1 r2 H; destruct l' as [|c' l']; try discriminate H.
  - reflexivity.
  - cbn [length cmp_range].
    assert (B1 : (length (Q ++ (c :: l) ++ r1) <=? length Q)%nat = false)
      by (apply Nat.leb_gt; rewrite app_length; simpl; lia).
    assert (B2 : (length (Q ++ (c' :: l') ++ r2) <=? length Q)%nat = false)
      by (apply Nat.leb_gt; rewrite app_length; simpl; lia).
    rewrite B1, B2. cbn [orb]. rewrite !nth_app_len. cbn [hd app bytes_eqb].
    destruct (c =? c') eqn:E; [|reflexivity]. apply N.eqb_eq in E. subst c'. cbn [andb].
    replace (Q ++ c :: l ++ r1) with ((Q ++ [c]) ++ l ++ r1) by (rewrite <- app_assoc; reflexivity).
    replace (Q ++ c :: l' ++ r2) with ((Q ++ [c]) ++ l' ++ r2) by (rewrite <- app_assoc; reflexivity).
    replace (S (length Q)) with (length (Q ++ [c])) by (rewrite app_length; simpl; lia).
    apply IH. simpl in H. lia.
Qed.

Lemma bytes_eqb_len : forall a b, length a <> length b -> bytes_eqb a b = false.
Proof. intros a b H. apply bytes_eqb_neq. intro E. subst. contradiction. Qed.

Lemma fclp_spec : forall x y P fuel, wf_labelsb x = true -> wf_labelsb y = true ->
  (length x + 2 <= fuel)%nat ->
  fclp fuel (P ++ pack_labels x) (P ++ pack_labels y) (length P) = Ok (length P + cpl x y)%nat.
Proof.
  induction x as [|l x IH]; intros y P fuel Wx Wy Hf; (destruct fuel as [|fuel]; [simpl in Hf; lia|]).
  - cbn [pack_labels fclp].
    assert (B1 : (length P <? length (P ++ [0%N]))%nat = true) by (apply Nat.ltb_lt; rewrite app_length; simpl; lia).
    rewrite B1. destruct y as [|l' y].
    + cbn [pack_labels]. rewrite B1. cbn [andb]. rewrite !nth_app_len. cbn [hd]. rewrite N.eqb_refl. cbn [negb N.to_nat cmp_range].
      destruct fuel as [|fuel]; [simpl in Hf; lia|]. cbn [fclp].
      assert (B2 : (length P + 0 + 1 <? length (P ++ [0%N]))%nat = false) by (apply Nat.ltb_ge; rewrite app_length; simpl; lia).
      rewrite B2. cbn [andb cpl]. f_equal. lia.
    + destruct (wf_label_nonzero l' y Wy) as [Nz _].
      assert (B2 : (length P <? length (P ++ pack_labels (l' :: y)))%nat = true)
        by (apply Nat.ltb_lt; rewrite app_length; cbn [pack_labels length]; lia).
      rewrite B2. cbn [andb]. rewrite !nth_app_len. cbn [pack_labels hd].
      assert (E : (0 =? blen l') = false) by (apply N.eqb_neq; lia). rewrite E. cbn [negb cpl]. f_equal. lia.
  - destruct (wf_label_nonzero l x Wx) as [Nz Lz].
    cbn [fclp].
    assert (B1 : (length P <? length (P ++ pack_labels (l :: x)))%nat = true)
      by (apply Nat.ltb_lt; rewrite app_length; cbn [pack_labels length]; lia).
    rewrite B1. destruct y as [|l' y].
    + cbn [pack_labels].
      assert (B2 : (length P <? length (P ++ [0%N]))%nat = true) by (apply Nat.ltb_lt; rewrite app_length; simpl; lia).
      rewrite B2. cbn [andb]. rewrite !nth_app_len. cbn [hd].
      assert (E : (blen l =? 0) = false) by (apply N.eqb_neq; lia). rewrite E. cbn [negb cpl]. f_equal. lia.
    + destruct (wf_label_nonzero l' y Wy) as [Nz' Lz'].
      assert (B2 : (length P <? length (P ++ pack_labels (l' :: y)))%nat = true)
        by (apply Nat.ltb_lt; rewrite app_length; cbn [pack_labels length]; lia).
      rewrite B2. cbn [andb]. rewrite !nth_app_len. cbn [pack_labels hd cpl].
      destruct (blen l =? blen l') eqn:El.
      * cbn [negb]. apply N.eqb_eq in El. unfold blen in El. apply Nnat.Nat2N.inj in El.
        replace (N.to_nat (blen l)) with (length l) by (unfold blen; rewrite Nnat.Nat2N.id; reflexivity).
        replace (P ++ blen l :: l ++ pack_labels x) with ((P ++ [blen l]) ++ l ++ pack_labels x)
          by (rewrite <- app_assoc; reflexivity).
        replace (P ++ blen l' :: l' ++ pack_labels y) with ((P ++ [blen l]) ++ l' ++ pack_labels y)
          by (rewrite <- app_assoc; unfold blen; rewrite El; reflexivity).
        replace (S (length P)) with (length (P ++ [blen l])) by (rewrite app_length; simpl; lia).
        rewrite (cmp_range_spec l l' (P ++ [blen l]) _ _ El).
        destruct (bytes_eqb l l') eqn:Eb.
        -- apply bytes_eqb_eq in Eb. subst l'.
           replace ((P ++ [blen l]) ++ l ++ pack_labels x) with ((P ++ blen l :: l) ++ pack_labels x)
             by (rewrite <- !app_assoc; reflexivity).
           replace ((P ++ [blen l]) ++ l ++ pack_labels y) with ((P ++ blen l :: l) ++ pack_labels y)
             by (rewrite <- !app_assoc; reflexivity).
           replace (length P + length l + 1)%nat with (length (P ++ blen l :: l)) by (rewrite app_length; simpl; lia).
           rewrite IH.
           ++ f_equal. rewrite app_length. simpl. lia.
           ++ simpl in Wx. apply Bool.andb_true_iff in Wx. tauto.
           ++ simpl in Wy. apply Bool.andb_true_iff in Wy. tauto.
           ++ simpl in Hf. lia.
        -- f_equal. lia.
      * cbn [negb].
        assert (Eb : bytes_eqb l l' = false).
        { apply bytes_eqb_len. apply N.eqb_neq in El. unfold blen in El. intro C. apply El. rewrite C. reflexivity. }
        rewrite Eb. f_equal. lia.
Qed.

Lemma common_prefix_spec : forall x y, wf_labelsb x = true -> wf_labelsb y = true ->
  common_prefix (pack_labels x) (pack_labels y) = Ok (cpl x y).
Proof.
  intros x y Wx Wy. unfold common_prefix.
  pose proof (fclp_spec x y [] (S (length (pack_labels x))) Wx Wy) as H. cbn [app length] in H.
  rewrite H; [reflexivity|]. pose proof (pack_labels_length x). lia.
Qed.

(* ---------------------------------------------------------------- getLengthWithoutLastLabel *)

Lemma lab_cons : forall l x, lab (l :: x) = blen l :: l ++ lab x.
Proof. reflexivity. Qed.

Lemma glwll_spec : forall X P rest fuel last, wf_labelsb X = true -> X <> [] -> (length X < fuel)%nat ->
  glwll fuel (P ++ lab X ++ rest) (length P + length (lab X)) (length P) last =
  Ok (length P + length (lab (removelast X)) + 1)%nat.
Proof.
  induction X as [|l X IH]; intros P rest fuel last W Hne Hf; [contradiction|].
  destruct fuel as [|fuel]; [lia|].
  destruct (wf_label_nonzero l X W) as [Nz Lz].
  cbn [glwll]. rewrite lab_cons.
  assert (B1 : (length P <? length P + length (blen l :: l ++ lab X))%nat = true)
    by (apply Nat.ltb_lt; simpl; lia).
  rewrite B1.
  assert (B2 : (length (P ++ (blen l :: l ++ lab X) ++ rest) <=? length P)%nat = false)
    by (apply Nat.leb_gt; rewrite app_length; simpl; lia).
  rewrite B2. rewrite nth_app_len. cbn [app hd].
  replace (N.to_nat (blen l)) with (length l) by (unfold blen; rewrite Nnat.Nat2N.id; reflexivity).
  destruct X as [|l2 X].
  - (* the last label *)
    cbn [lab flat_map removelast app length]. rewrite app_nil_r.
    destruct fuel as [|fuel]; [simpl in Hf; lia|]. cbn [glwll].
    assert (B3 : (length P + length l + 1 <? length P + S (length l))%nat = false)
      by (apply Nat.ltb_ge; lia).
    rewrite B3. f_equal. lia.
  - assert (Q1 : P ++ (blen l :: l ++ lab (l2 :: X)) ++ rest = (P ++ blen l :: l) ++ lab (l2 :: X) ++ rest).
    { rewrite <- (app_assoc P). cbn [app]. rewrite <- (app_assoc l). reflexivity. }
    rewrite Q1.
    assert (Q2 : (length P + length (blen l :: l ++ lab (l2 :: X)) = length (P ++ blen l :: l) + length (lab (l2 :: X)))%nat).
    { rewrite app_length. cbn [length]. rewrite app_length. lia. }
    rewrite Q2.
    assert (Q3 : (length P + length l + 1 = length (P ++ blen l :: l))%nat) by (rewrite app_length; cbn [length]; lia).
    rewrite Q3.
    rewrite IH.
    + f_equal. change (removelast (l :: l2 :: X)) with (l :: removelast (l2 :: X)).
      rewrite lab_cons, !app_length. simpl. rewrite app_length. lia.
    + simpl in W. apply Bool.andb_true_iff in W. tauto.
    + discriminate.
    + simpl in Hf. simpl. lia.
Qed.

(* ---------------------------------------------------------------- order of the map keys *)

Lemma decided_eqlen : forall u v X Y, length u = length v -> u <> v ->
  bcmp (u ++ X) (v ++ Y) = bcmp u v /\ bcmp u v <> Eq.
Proof.
  induction u as [|a u IH]; intros v X Y H Hne; destruct v as [|b v]; try discriminate H.
  - contradiction.
  - cbn [app bcmp]. destruct (a ?= b) eqn:E.
    + apply N.compare_eq in E. subst b. apply IH; [simpl in H; lia|]. intro C. apply Hne. congruence.
    + split; [reflexivity|discriminate].
    + split; [reflexivity|discriminate].
Qed.

Lemma decided_label : forall t m X Y, t <> m ->
  bcmp ((blen t :: t) ++ X) ((blen m :: m) ++ Y) = bcmp (blen t :: t) (blen m :: m) /\
  bcmp (blen t :: t) (blen m :: m) <> Eq.
Proof.
  intros t m X Y Hne. destruct (Nat.eq_dec (length t) (length m)) as [E|NE].
  - apply decided_eqlen; [simpl; lia|]. intro C. inversion C. contradiction.
  - cbn [app bcmp]. destruct (blen t ?= blen m) eqn:C.
    + apply N.compare_eq in C. unfold blen in C. apply Nnat.Nat2N.inj in C. contradiction.
    + split; [reflexivity|discriminate].
    + split; [reflexivity|discriminate].
Qed.

(* the common label prefix of two names *)
Lemma cpl_split : forall R N, exists A tR tN, R = A ++ tR /\ N = A ++ tN /\
  match tR, tN with
  | [], [] => cpl R N = (length (lab A) + 1)%nat
  | l :: _, l' :: _ => l <> l' /\ cpl R N = length (lab A)
  | _, _ => cpl R N = length (lab A)
  end.
Proof.
  induction R as [|l R IH]; intro N.
  - exists [], [], N. split; auto. split; auto. destruct N; reflexivity.
  - destruct N as [|l' N].
    + exists [], (l :: R), []. split; auto.
    + cbn [cpl]. destruct (bytes_eqb l l') eqn:E.
      * apply bytes_eqb_eq in E. subst l'. destruct (IH N) as [A [tR [tN [E1 [E2 H]]]]].
        exists (l :: A), tR, tN. subst. split; auto. split; auto.
        rewrite lab_cons. destruct tR, tN; cbn [length]; rewrite ?app_length; try lia.
        destruct H as [H1 H2]. split; auto. lia.
      * exists [], (l :: R), (l' :: N). split; auto. split; auto. split; auto.
        intro C. subst. rewrite bytes_eqb_refl in E. discriminate.
Qed.
