(* ReadsNames (C01, file level): the label-by-label (v1) reader consults the store only under keys
   L ++ n and [0;0] ++ n where n is a WIRE-VALID PACKED NAME (labels of 1..63 bytes, at most 255
   octets): the suffixes of the lower-cased query name, and the lower-cased targets of NS / MX
   records (parsed by dns.UnpackDomainName) or the query name itself (HTTPS).  Two stores that agree
   on those keys give the same outcome - whatever else they hold (map keys, range points, the
   features key, rows of other locations).  Sharper than Proofs/Reads.agree_on, which asks for
   agreement under L ++ n and [0;0] ++ n for ALL byte strings n. *)
From DnsV Require Import Base.Bytes Model.Store Model.LookupV1 Model.LookupV2 Model.Serve Spec.Answer Spec.Rows.
From DnsV Require Import Proofs.Answer Proofs.Compile Proofs.ZoneCut Proofs.NxDomain Proofs.RevOrder Proofs.Reads Proofs.SoaAuth.
From DnsV Require Import Proofs.V2Readers Proofs.V2Serve.
From Coq Require Import ZifyN ZifyNat ZifyBool.
Open Scope N_scope.

(* a wire-valid packed name *)
Definition pname (z : bytes) : Prop := exists t, name_ok t /\ nlen (pack t) <= 255 /\ z = pack t.

Definition agree_names (L : bytes) (st st' : store) : Prop :=
  forall z, pname z -> get st (L ++ z) = get st' (L ++ z) /\ get st (loc0 ++ z) = get st' (loc0 ++ z).

Lemma tname_pname : forall nm, tname_ok nm -> pname (lower_bytes nm).
Proof. intros nm (t & H1 & H2 & H3). exists t. auto. Qed.

(* stripping the first label of a packed name (both spellings of the Go byte arithmetic) *)
Lemma pname_step : forall zc z0 zc', pname zc -> idx zc 0 = Val z0 -> (z0 =? 0) = false ->
  (slice_from zc (b8 (1 + z0)) = Val zc' \/ slice_from zc (b8 (z0 + 1)) = Val zc') -> pname zc'.
Proof.
  intros zc z0 zc' (t & Ht & Hl & ->) Hi Hz Hs. destruct t as [|l p].
  - cbn in Hi. inversion Hi; subst. discriminate.
  - inversion Ht as [|? ? Hl1 Hp]; subst. unfold lab_ok in Hl1. rewrite pack_cons in *.
    cbn [app] in Hi. unfold idx in Hi. cbn [N.to_nat nth_error] in Hi. inversion Hi; subst z0.
    assert (Hb : b8 (1 + nlen l) = nlen l + 1 /\ b8 (nlen l + 1) = nlen l + 1) by (unfold b8; split; rewrite N.mod_small by lia; lia).
    destruct Hb as [Hb1 Hb2]. rewrite Hb1, Hb2 in Hs.
    rewrite (slice_from_app (nlen l :: l) (pack p)) in Hs by (rewrite nlen_cons; lia).
    assert (E : zc' = pack p) by (destruct Hs as [Hs|Hs]; inversion Hs; reflexivity).
    subst zc'. exists p. split; [exact Hp|]. split; [|reflexivity].
    rewrite nlen_app in Hl. lia.
Qed.

Section Ext.
Variable b : backend.
Variables st st' : store.
Variable L : bytes.
Hypothesis A : agree_names L st st'.

Lemma fe_L : forall {S} z (f : cb S) s, pname z -> for_each_v1 b st (L ++ z) f s = for_each_v1 b st' (L ++ z) f s.
Proof. intros. unfold for_each_v1. rewrite (proj1 (A z H)). reflexivity. Qed.
Lemma fe_0 : forall {S} z (f : cb S) s, pname z -> for_each_v1 b st (loc0 ++ z) f s = for_each_v1 b st' (loc0 ++ z) f s.
Proof. intros. unfold for_each_v1. rewrite (proj2 (A z H)). reflexivity. Qed.

Lemma rr_ext_n : forall {S} z (f : cb S) s, pname z -> for_each_rr_v1 b st z L f s = for_each_rr_v1 b st' z L f s.
Proof.
  intros S z f s H. unfold for_each_rr_v1. rewrite (fe_L z f s H).
  destruct (if is_loc0 L then (s, false) else for_each_v1 b st' (L ++ z) f s) as [s1 e1].
  destruct e1; [reflexivity|]. apply fe_0. exact H.
Qed.

Lemma is_auth_ext_n : forall fuel zc ns auth, pname zc ->
  is_auth_v1 b st fuel zc L ns auth = is_auth_v1 b st' fuel zc L ns auth.
Proof.
  induction fuel as [|fuel IH]; intros zc ns auth H; [reflexivity|]. cbn [is_auth_v1].
  rewrite (fe_L zc auth_cb (ns, auth) H).
  destruct (if is_loc0 L then (ns, auth, false) else for_each_v1 b st' (L ++ zc) auth_cb (ns, auth)) as [[ns1 auth1] e1].
  destruct e1; [reflexivity|]. rewrite (fe_0 zc auth_cb (ns1, auth1) H).
  destruct (if auth1 && ns1 then (ns1, auth1, false) else for_each_v1 b st' (loc0 ++ zc) auth_cb (ns1, auth1)) as [[ns2 auth2] e2].
  destruct e2; [reflexivity|]. destruct ns2; [reflexivity|].
  destruct (idx zc 0) as [z0| |] eqn:Ei; cbn [bind]; try reflexivity.
  destruct (z0 =? 0) eqn:Ez; [reflexivity|].
  destruct (slice_from zc (b8 (1 + z0))) as [zc'| |] eqn:Es; cbn [bind]; try reflexivity.
  apply IH. eapply pname_step; eauto.
Qed.

(* the zone cut IsAuthoritative reports is one of the names it probed *)
Lemma is_auth_zc_n : forall s0 fuel zc ns auth ar, pname zc ->
  is_auth_v1 b s0 fuel zc L ns auth = Val ar -> pname (a_zc ar).
Proof.
  induction fuel as [|fuel IH]; intros zc ns auth ar H E; [discriminate|]. cbn [is_auth_v1] in E.
  destruct (if is_loc0 L then (ns, auth, false) else for_each_v1 b s0 (L ++ zc) auth_cb (ns, auth)) as [[ns1 auth1] e1].
  destruct e1; [inversion E; subst; exact H|].
  destruct (if auth1 && ns1 then (ns1, auth1, false) else for_each_v1 b s0 (loc0 ++ zc) auth_cb (ns1, auth1)) as [[ns2 auth2] e2].
  destruct e2; [inversion E; subst; exact H|]. destruct ns2; [inversion E; subst; exact H|].
  destruct (idx zc 0) as [z0| |] eqn:Ei; cbn [bind] in E; try discriminate.
  destruct (z0 =? 0) eqn:Ez; [inversion E; subst; exact H|].
  destruct (slice_from zc (b8 (1 + z0))) as [zc'| |] eqn:Es; cbn [bind] in E; try discriminate.
  eapply IH; [|exact E]. eapply pname_step; eauto.
Qed.

Lemma find_ans_ext_n : forall fuel q ctrl qname qtype wild s, pname q ->
  find_ans_v1 b st fuel q ctrl qname qtype L wild s = find_ans_v1 b st' fuel q ctrl qname qtype L wild s.
Proof.
  induction fuel as [|fuel IH]; intros q ctrl qname qtype wild s H; [reflexivity|]. cbn [find_ans_v1].
  rewrite (fe_L q (fa_cb qname qtype wild) s H).
  rewrite (fe_0 q (fa_cb qname qtype wild) _ H).
  set (s2 := fst (for_each_v1 b st' (loc0 ++ q) (fa_cb qname qtype wild)
                    (if is_loc0 L then s else fst (for_each_v1 b st' (L ++ q) (fa_cb qname qtype wild) s)))).
  destruct (snd s2); [reflexivity|]. destruct (bytes_eqb q ctrl); [reflexivity|].
  destruct (idx q 0) as [q0| |] eqn:Ei; cbn [bind]; try reflexivity.
  destruct (q0 =? 0) eqn:Ez; [reflexivity|].
  destruct (slice q 1 (b8 (q0 + 1))) as [lab| |]; cbn [bind]; try reflexivity.
  destruct (negb (wildsafe lab)); [reflexivity|].
  destruct (slice_from q (b8 (q0 + 1))) as [q'| |] eqn:Es; cbn [bind]; try reflexivity.
  apply IH. eapply pname_step; eauto.
Qed.

Let rd := reader_v1 b st.
Let rd' := reader_v1 b st'.

Lemma additional_ext_n : forall items qc m c, (forall it, In it items -> item_ok it) ->
  additional unit rd items L qc m c = additional unit rd' items L qc m c.
Proof.
  induction items as [|it t IH]; intros qc m c Hok; cbn [additional]; [reflexivity|].
  assert (Hok' : forall it0, In it0 t -> item_ok it0) by (intros; apply Hok; right; assumption).
  destruct (target_of it) as [name|] eqn:Et; [|apply IH; exact Hok'].
  destruct (negb (has_record m name 1) || negb (has_record m name 28)); [|apply IH; exact Hok'].
  unfold rd at 1, rd' at 1, reader_v1 at 1 2. cbn [rd_rr].
  rewrite (rr_ext_n (lower_bytes name) _ _ (tname_pname name (Hok it (or_introl eq_refl) name Et))).
  destruct (for_each_rr_v1 b st' (lower_bytes name) L _ wrs_empty) as [w e]. cbn [bind]. apply IH. exact Hok'.
Qed.

Lemma sections_ext_n : forall q ecs auth zc an rcode c,
  pname zc -> tname_ok (q_name q) -> owners (q_name q) an ->
  serve_sections unit rd q ecs L auth zc an rcode c = serve_sections unit rd' q ecs L auth zc an rcode c.
Proof.
  intros q ecs auth zc an rcode c Hz Tq Han. unfold serve_sections.
  destruct (parse_name zc) as [[zname rest]|] eqn:Ep; [|reflexivity].
  pose proof (parse_tname _ _ _ Ep) as Tz.
  (* the tail: additional sections over the same message *)
  assert (Tail : forall nsec c4, owners zname nsec ->
            lift ('(m1, c5) <- additional unit rd (m_an (mkMsg an nsec [])) L (q_class q) (mkMsg an nsec []) c4 ;;
                  additional unit rd (m_ns m1) L (q_class q) m1 c5)
              (fun y => let '(m2, _) := y in
                 OReply (mkResp (q_id q) (question_of q) rcode auth (m_an m2) (m_ns m2) (m_ex m2) (opt_of q ecs))) =
            lift ('(m1, c5) <- additional unit rd' (m_an (mkMsg an nsec [])) L (q_class q) (mkMsg an nsec []) c4 ;;
                  additional unit rd' (m_ns m1) L (q_class q) m1 c5)
              (fun y => let '(m2, _) := y in
                 OReply (mkResp (q_id q) (question_of q) rcode auth (m_an m2) (m_ns m2) (m_ex m2) (opt_of q ecs)))).
  { intros nsec c4 Hns. cbn [m_an].
    rewrite (additional_ext_n an (q_class q) (mkMsg an nsec []) c4 (items_ok_owners _ _ Tq Han)).
    destruct (additional unit rd' an L (q_class q) (mkMsg an nsec []) c4) as [[m1 c5]| |] eqn:E1; cbn [bind]; try reflexivity.
    assert (Ens : m_ns m1 = nsec) by (apply (additional_keeps _ _ _ _ _ _ _ _ _ E1)).
    rewrite Ens. rewrite (additional_ext_n nsec (q_class q) m1 c5 (items_ok_owners _ _ Tz Hns)). reflexivity. }
  destruct (auth && (item_count an =? 0)).
  - unfold rd at 1, rd' at 1, reader_v1 at 1 2. cbn [rd_rr]. rewrite (rr_ext_n zc _ _ Hz).
    pose proof (for_each_rr_v1_inv (fun s : bool * list item => owners zname (snd s)) b st' zc L (soa_cb zname) (false, [])
                  (fun s r H => soa_cb_owner zname s r H) (owners_nil _)) as Ho.
    destruct (for_each_rr_v1 b st' zc L (soa_cb zname) (false, [])) as [s e]. cbn [bind lift fst snd] in *.
    apply (Tail (snd s) c Ho).
  - destruct (negb auth && negb (has_record (mkMsg an [] []) zname 2)).
    + unfold rd at 1, rd' at 1, reader_v1 at 1 2. cbn [rd_rr]. rewrite (rr_ext_n zc _ _ Hz).
      pose proof (for_each_rr_v1_inv (fun s : list item => owners zname s) b st' zc L (ns_cb zname (q_class q)) []
                    (fun s r H => ns_cb_owner zname (q_class q) s r H) (owners_nil _)) as Ho.
      destruct (for_each_rr_v1 b st' zc L (ns_cb zname (q_class q)) []) as [s e]. cbn [bind lift fst snd] in *.
      apply (Tail (if e then [] else s) c). destruct e; [apply owners_nil | exact Ho].
    + cbn [lift]. apply (Tail [] c (owners_nil _)).
Qed.

Lemma answer_ext_n : forall q ecs max packed ar c,
  pname packed -> pname (a_zc ar) -> tname_ok (q_name q) ->
  serve_answer unit rd q ecs L max packed ar c = serve_answer unit rd' q ecs L max packed ar c.
Proof.
  intros q ecs max packed ar c Hp Hz Tq. unfold serve_answer.
  destruct (a_auth ar).
  - unfold rd at 1, rd' at 1, reader_v1 at 1 2. cbn [rd_answer]. unfold find_answer_v1.
    rewrite (find_ans_ext_n _ _ _ _ _ _ _ Hp).
    destruct (find_ans_v1 b st' (S (length packed)) packed (a_zc ar) (q_name q) (q_type q) L false (wrs_empty, [], false)) as [s'| |] eqn:E;
      cbn [bind lift]; try reflexivity.
    apply find_ans_v1_owner in E; [|apply owners_nil].
    destruct s' as [[w an0] f0]. cbn [fa_finish fst snd bind lift] in *.
    apply sections_ext_n; [exact Hz | exact Tq|].
    apply owners_app; [exact E|]. apply owners_app; apply owners_wrs_items.
  - cbn [lift]. apply sections_ext_n; [exact Hz | exact Tq | apply owners_nil].
Qed.

Lemma ds_ext_n : forall q packed ar c, pname packed ->
  serve_ds unit rd q L packed ar c = serve_ds unit rd' q L packed ar c.
Proof.
  intros q packed ar c Hp. unfold serve_ds. destruct (negb (a_auth ar) && (q_type q =? 43)); [|reflexivity].
  destruct (idx packed 0) as [p0| |] eqn:Ei; cbn [bind]; try reflexivity.
  destruct (p0 =? 0) eqn:Ez; [reflexivity|].
  destruct (slice_from packed (b8 (p0 + 1))) as [rest| |] eqn:Es; cbn [bind]; try reflexivity.
  unfold rd, rd', reader_v1; cbn [rd_auth]. unfold is_authoritative_v1.
  rewrite is_auth_ext_n; [reflexivity|]. eapply pname_step; eauto.
Qed.

Lemma ds_zc_n : forall s0 q packed ar c ar' c', pname packed -> pname (a_zc ar) ->
  serve_ds unit (reader_v1 b s0) q L packed ar c = Val (Some (ar', c')) -> pname (a_zc ar').
Proof.
  intros s0 q packed ar c ar' c' Hp Hz E. unfold serve_ds in E.
  destruct (negb (a_auth ar) && (q_type q =? 43)); [|inversion E; subst; exact Hz].
  destruct (idx packed 0) as [p0| |] eqn:Ei; cbn [bind] in E; try discriminate.
  destruct (p0 =? 0) eqn:Ez; [inversion E; subst; exact Hz|].
  destruct (slice_from packed (b8 (p0 + 1))) as [rest| |] eqn:Es; cbn [bind] in E; try discriminate.
  unfold reader_v1 in E; cbn [rd_auth] in E. unfold is_authoritative_v1 in E.
  destruct (is_auth_v1 b s0 (S (length rest)) rest L false false) as [ar2| |] eqn:Ea; cbn [bind] in E; try discriminate.
  destruct (a_err ar2); [discriminate|]. inversion E; subst. cbn [a_zc].
  assert (Hr : pname rest).
  { eapply pname_step; [exact Hp | exact Ei | exact Ez | right; exact Es]. }
  exact (is_auth_zc_n s0 _ rest false false ar2 Hr Ea).
Qed.

Lemma serve_with_ext_n : forall q ecs max, tname_ok (q_name q) ->
  serve_with unit rd tt q (LocOk L) ecs max = serve_with unit rd' tt q (LocOk L) ecs max.
Proof.
  intros q ecs max Tq. pose proof (tname_pname _ Tq) as Hp. unfold serve_with.
  assert (K :
    lift (rd_auth unit rd tt (lower_bytes (q_name q)) L)
      (fun x => let '(ar, c1) := x in
         if a_err ar then servfail q
         else if negb (a_ns ar) && negb (a_auth ar)
              then OReply (mkResp (q_id q) (question_of q) 5 false [] [] [] (opt_of q ecs))
              else lift (serve_ds unit rd q L (lower_bytes (q_name q)) ar c1)
                     (fun r => match r with
                               | Some (ar', c2) => serve_answer unit rd q ecs L max (lower_bytes (q_name q)) ar' c2
                               | None => servfail q
                               end)) =
    lift (rd_auth unit rd' tt (lower_bytes (q_name q)) L)
      (fun x => let '(ar, c1) := x in
         if a_err ar then servfail q
         else if negb (a_ns ar) && negb (a_auth ar)
              then OReply (mkResp (q_id q) (question_of q) 5 false [] [] [] (opt_of q ecs))
              else lift (serve_ds unit rd' q L (lower_bytes (q_name q)) ar c1)
                     (fun r => match r with
                               | Some (ar', c2) => serve_answer unit rd' q ecs L max (lower_bytes (q_name q)) ar' c2
                               | None => servfail q
                               end))).
  { unfold rd at 1, rd' at 1, reader_v1 at 1 2. cbn [rd_auth]. unfold is_authoritative_v1.
    rewrite (is_auth_ext_n _ _ _ _ Hp).
    destruct (is_auth_v1 b st' (S (length (lower_bytes (q_name q)))) (lower_bytes (q_name q)) L false false) as [ar| |] eqn:Ea;
      cbn [bind lift]; try reflexivity.
    pose proof (is_auth_zc_n st' _ _ _ _ _ Hp Ea) as Hz.
    destruct (a_err ar); [reflexivity|]. destruct (negb (a_ns ar) && negb (a_auth ar)); [reflexivity|].
    rewrite (ds_ext_n q _ ar tt Hp).
    destruct (serve_ds unit rd' q L (lower_bytes (q_name q)) ar tt) as [[[ar' c2]|]| |] eqn:Ed; cbn [lift]; try reflexivity.
    apply answer_ext_n; [exact Hp | | exact Tq].
    eapply (ds_zc_n st'); [exact Hp | exact Hz | exact Ed]. }
  destruct (q_edns q) as [[|p]|]; [exact K | reflexivity | exact K].
Qed.
End Ext.

(* the v1 reader (CDB, RocksDB v1 keys) reads name keys only *)
Theorem serve_v1_reads_names : forall b st st' L q n ecs max,
  b <> RDB2 -> agree_names L st st' ->
  name_ok n -> nlen (pack n) <= 255 -> lower_bytes (q_name q) = pack n ->
  serve b st q (LocOk L) ecs max = serve b st' q (LocOk L) ecs max.
Proof.
  intros b st st' L q n ecs max Hb A Hn Hl Hq.
  assert (Tq : tname_ok (q_name q)) by (exists n; auto).
  destruct b; [| |contradiction]; unfold serve; apply serve_with_ext_n; assumption.
Qed.
