(* Proofs/Utf8: UTF-8 decode/encode round trips for Model/Utf8.v (used by C17). *)
From DnsV Require Import Model.Utf8.
From Coq Require Import ZifyN ZifyNat ZifyBool.
Ltac Zify.zify_post_hook ::= Z.div_mod_to_equations.
Open Scope N_scope.

Ltac ifs := repeat match goal with
  | |- context [if ?a <? ?b then _ else _] => destruct (N.ltb_spec a b); try lia
  end.

(* decoding the encoding of a valid non-ASCII rune gives the rune and its width *)
Lemma decode_encode : forall r X, 128 <= r -> valid_rune r = true ->
  decode_rune (encode_rune r ++ X) = (r, length (encode_rune r)).
Proof.
  intros r X Hr Hv. unfold valid_rune in Hv. unfold encode_rune.
  destruct (N.ltb_spec r 128); [lia|].
  destruct (N.ltb_spec r 2048).
  - cbn [app length]. unfold decode_rune, cont.
    destruct (192 + r / 64 <? 128) eqn:E1; [lia|].
    destruct ((194 <=? 192 + r / 64) && (192 + r / 64 <=? 223)) eqn:E2; [|lia].
    destruct ((128 <=? 128 + r mod 64) && (128 + r mod 64 <=? 191)) eqn:E3; [|lia].
    f_equal. lia.
  - unfold valid_rune. 
    destruct (negb ((r <? 55296) || (57343 <? r) && (r <=? 1114111))) eqn:E0; [lia|].
    destruct (N.ltb_spec r 65536).
    + cbn [app length]. unfold decode_rune, cont.
      destruct (224 + r / 4096 <? 128) eqn:E1; [lia|].
      destruct ((194 <=? 224 + r / 4096) && (224 + r / 4096 <=? 223)) eqn:E2; [lia|].
      destruct ((224 <=? 224 + r / 4096) && (224 + r / 4096 <=? 239)) eqn:E3; [|lia].
      destruct (224 + r / 4096 =? 224) eqn:E4; destruct (224 + r / 4096 =? 237) eqn:E5; try lia.
      all: cbv zeta.
      all: match goal with |- (if ?c then _ else _) = _ => destruct c eqn:E6; [|lia] end.
      all: f_equal; lia.
    + cbn [app length]. unfold decode_rune, cont.
      destruct (240 + r / 262144 <? 128) eqn:E1; [lia|].
      destruct ((194 <=? 240 + r / 262144) && (240 + r / 262144 <=? 223)) eqn:E2; [lia|].
      destruct ((224 <=? 240 + r / 262144) && (240 + r / 262144 <=? 239)) eqn:E3; [lia|].
      destruct ((240 <=? 240 + r / 262144) && (240 + r / 262144 <=? 244)) eqn:E3'; [|lia].
      destruct (240 + r / 262144 =? 240) eqn:E4; destruct (240 + r / 262144 =? 244) eqn:E5; try lia.
      all: cbv zeta.
      all: match goal with |- (if ?c then _ else _) = _ => destruct c eqn:E6; [|lia] end.
      all: f_equal; lia.
Qed.

(* the encoding of a decoded 2-, 3-, 4-byte sequence is that sequence *)
Lemma enc2 : forall b0 b1, 194 <= b0 <= 223 -> 128 <= b1 <= 191 ->
  let r := (b0 mod 32) * 64 + b1 mod 64 in
  128 <= r /\ valid_rune r = true /\ encode_rune r = [b0; b1].
Proof.
  intros b0 b1 H0 H1 r.
  assert (Hr : r = (b0 - 192) * 64 + (b1 - 128)) by (unfold r; lia).
  clearbody r. split; [lia|]. split; [unfold valid_rune; lia|].
  unfold encode_rune. ifs. f_equal; [lia|]. f_equal. lia.
Qed.

Lemma enc3 : forall b0 b1 b2, 224 <= b0 <= 239 -> 
  (if b0 =? 224 then 160 else 128) <= b1 -> b1 <= (if b0 =? 237 then 159 else 191) -> 128 <= b2 <= 191 ->
  let r := ((b0 mod 16) * 64 + b1 mod 64) * 64 + b2 mod 64 in
  128 <= r /\ valid_rune r = true /\ encode_rune r = [b0; b1; b2].
Proof.
  intros b0 b1 b2 H0 H1 H1' H2 r.
  assert (Hr : r = ((b0 - 224) * 64 + (b1 - 128)) * 64 + (b2 - 128)).
  { unfold r. destruct (b0 =? 224); destruct (b0 =? 237); lia. }
  clearbody r.
  assert (Hv : valid_rune r = true).
  { unfold valid_rune. destruct (N.eqb_spec b0 224); destruct (N.eqb_spec b0 237); lia. }
  split; [destruct (N.eqb_spec b0 224); lia|]. split; [exact Hv|].
  unfold encode_rune. rewrite Hv. cbn [negb].
  destruct (N.eqb_spec b0 224); destruct (N.eqb_spec b0 237); ifs; (f_equal; [lia|]; f_equal; [lia|]; f_equal; lia).
Qed.

Lemma enc4 : forall b0 b1 b2 b3, 240 <= b0 <= 244 -> 
  (if b0 =? 240 then 144 else 128) <= b1 -> b1 <= (if b0 =? 244 then 143 else 191) -> 128 <= b2 <= 191 -> 128 <= b3 <= 191 ->
  let r := (((b0 mod 8) * 64 + b1 mod 64) * 64 + b2 mod 64) * 64 + b3 mod 64 in
  128 <= r /\ valid_rune r = true /\ encode_rune r = [b0; b1; b2; b3].
Proof.
  intros b0 b1 b2 b3 H0 H1 H1' H2 H3 r.
  assert (Hr : r = (((b0 - 240) * 64 + (b1 - 128)) * 64 + (b2 - 128)) * 64 + (b3 - 128)).
  { unfold r. destruct (b0 =? 240); destruct (b0 =? 244); lia. }
  clearbody r.
  assert (Hv : valid_rune r = true).
  { unfold valid_rune. destruct (N.eqb_spec b0 240); destruct (N.eqb_spec b0 244); lia. }
  split; [destruct (N.eqb_spec b0 240); lia|]. split; [exact Hv|].
  unfold encode_rune. rewrite Hv. cbn [negb].
  destruct (N.eqb_spec b0 240); destruct (N.eqb_spec b0 244); ifs; (f_equal; [lia|]; f_equal; [lia|]; f_equal; [lia|]; f_equal; lia).
Qed.

Lemma decode_rune_spec : forall b0 t r w, 128 <= b0 -> decode_rune (b0 :: t) = (r, w) ->
  (w = 1%nat /\ r = rune_error) \/
  ((2 <= w)%nat /\ 128 <= r /\ valid_rune r = true /\ length (encode_rune r) = w /\
   b0 :: t = encode_rune r ++ skipn w (b0 :: t)).
Proof.
  intros b0 t r w H0 H. unfold decode_rune in H.
  destruct (N.ltb_spec b0 128); [lia|].
  destruct ((194 <=? b0) && (b0 <=? 223)) eqn:E2.
  { destruct t as [|b1 t]; [inversion H; auto|].
    unfold cont in H. destruct ((128 <=? b1) && (b1 <=? 191)) eqn:E; [|inversion H; auto].
    right. inversion H; subst r w; clear H.
    destruct (enc2 b0 b1) as (A & B & C); [lia|lia|].
    rewrite C. cbn [length skipn app]. repeat split; auto. }
  destruct ((224 <=? b0) && (b0 <=? 239)) eqn:E3.
  { destruct t as [|b1 [|b2 t]]; [inversion H; auto|inversion H; auto|].
    cbv zeta in H. unfold cont in H.
    match type of H with (if ?c then _ else _) = _ => destruct c eqn:E end; [|inversion H; auto].
    right. inversion H; subst r w; clear H.
    destruct (enc3 b0 b1 b2) as (A & B & C); [lia|lia|lia|lia|].
    rewrite C. cbn [length skipn app]. repeat split; auto. }
  destruct ((240 <=? b0) && (b0 <=? 244)) eqn:E4.
  { destruct t as [|b1 [|b2 [|b3 t]]]; [inversion H; auto|inversion H; auto|inversion H; auto|].
    cbv zeta in H. unfold cont in H.
    match type of H with (if ?c then _ else _) = _ => destruct c eqn:E end; [|inversion H; auto].
    right. inversion H; subst r w; clear H.
    destruct (enc4 b0 b1 b2 b3) as (A & B & C); [lia|lia|lia|lia|lia|].
    rewrite C. cbn [length skipn app]. repeat split; auto. }
  inversion H; auto.
Qed.

Lemma encode_rune_bytes : forall r, 128 <= r -> valid_rune r = true ->
  Forall (fun x => 128 <= x < 256) (encode_rune r) /\ (2 <= length (encode_rune r))%nat.
Proof.
  intros r Hr Hv. unfold encode_rune. rewrite Hv. cbn [negb]. unfold valid_rune in Hv.
  ifs; (split; [repeat constructor; lia | cbn [length]; lia]).
Qed.
