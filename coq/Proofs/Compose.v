(* Proofs/Compose: the response cache (Model/Cache.v) instantiated with the database handler
   (Model/Serve.v) - adapter lemmas for the wrappers of Model/Compose.v, the cache invariant of
   Proofs/Cache.v for this instance, and the composition with C01: whatever the cache-enabled
   handler writes refines Spec/Answer.spec_response of the generation it is served from,
   modulo the letter case of the owner names in the answer (the first asker's). *)
From DnsV Require Import Base.Bytes Model.Store Model.LookupV1 Model.LookupV2 Model.Serve.
From DnsV Require Model.Cache Proofs.Cache.
From DnsV Require Import Spec.Answer Spec.Rows Proofs.ZoneCut Proofs.Serve Proofs.Shape.
From DnsV Require Import Proofs.Compile Proofs.V2Store Proofs.Referral.
From DnsV Require Import Proofs.AuthSections Proofs.AuthSectionsV2.
From DnsV Require Import Model.Compile Proofs.Batch Proofs.CompilePipe Spec.MapOfLists Spec.Declared Proofs.FileLevel.
From Coq Require Import Lia Permutation ZifyN ZifyNat ZifyBool.
From DnsV Require Import Model.Compose.
Open Scope N_scope.

Local Ltac Zify.zify_post_hook ::= Z.div_mod_to_equations.

(* ------------------------------------------------------------------ numbers: location, id, EDNS *)
Lemma loc_of_num_num : forall a b, a < 256 -> b < 256 -> loc_of_num (a * 256 + b) = [a; b].
Proof. intros a b Ha Hb. unfold loc_of_num. f_equal; [|f_equal]; lia. Qed.

Lemma loc_num_located : forall l, loc_num l < unlocated ->
  l = LocOk (loc_of_num (loc_num l)) /\ length (loc_of_num (loc_num l)) = 2%nat.
Proof.
  intros l H. split; [|reflexivity]. unfold unlocated in *.
  destruct l as [| |[|a [|b [|x t]]]]; cbn [loc_num] in *; unfold unlocated in *; try lia.
  destruct ((a <? 256) && (b <? 256)) eqn:E; [|lia].
  rewrite loc_of_num_num by lia. reflexivity.
Qed.

Lemma loc_num_bytes : forall a b, a < 256 -> b < 256 -> loc_num (LocOk [a; b]) = a * 256 + b.
Proof.
  intros a b Ha Hb. cbn [loc_num].
  replace ((a <? 256) && (b <? 256)) with true by lia. reflexivity.
Qed.

Lemma located_loc : forall g r, located g r = true ->
  g_loc g r = LocOk (loc_of_num (locate g r)) /\ locate g r < 65536.
Proof.
  intros g r H. unfold located in H. apply N.ltb_lt in H. split; [|exact H].
  apply (loc_num_located (g_loc g r)). exact H.
Qed.

Lemma req_id_of : forall from q, req_id (request_of from q) = q_id q mod 65536.
Proof.
  intros from q. unfold req_id, request_of, extra_of. cbn [Cache.q_extra].
  destruct (q_edns q) as [v|]; lia.
Qed.

Lemma req_edns_of : forall from q, req_edns (request_of from q) = q_edns q.
Proof.
  intros from q. unfold req_edns, request_of, extra_of. cbn [Cache.q_extra].
  destruct (q_edns q) as [v|].
  - assert (E : (q_id q mod 65536 + 65536 * (v + 1)) / 65536 = v + 1) by lia.
    rewrite E. replace (v + 1 =? 0) with false by lia. f_equal. lia.
  - assert (E : (q_id q mod 65536 + 65536 * 0) / 65536 = 0) by lia.
    rewrite E. reflexivity.
Qed.

(* the request built from a query is that query (ids are 16-bit numbers on the wire) *)
Lemma query_of_request_of : forall from q, q_id q < 65536 -> query_of (request_of from q) = q.
Proof.
  intros from q H. unfold query_of. rewrite req_id_of, req_edns_of.
  rewrite N.mod_small by exact H. destruct q; reflexivity.
Qed.

(* ------------------------------------------------------------------ Serve.serve = patch of the canonical outcome *)
Lemma patch_lift : forall {A} (r : res A) (k : A -> outcome) q ecs,
  patch (lift r k) q ecs = lift r (fun a => patch (k a) q ecs).
Proof. intros A r k q ecs. destruct r; reflexivity. Qed.

Lemma lift_ext : forall {A} (r : res A) (k1 k2 : A -> outcome),
  (forall a, k1 a = k2 a) -> lift r k1 = lift r k2.
Proof. intros A r k1 k2 H. destruct r; cbn; auto. Qed.

Section Factor.
Variable C : Type.
Variable rd : reader C.

Lemma serve_sections_factor : forall q ecs loc auth zc an rcode c3,
  serve_sections C rd q ecs loc auth zc an rcode c3 =
  patch (serve_sections C rd (canon (q_name q) (q_type q) (q_class q)) None loc auth zc an rcode c3) q ecs.
Proof.
  intros q ecs loc auth zc an rcode c3. unfold serve_sections.
  destruct (parse_name zc) as [[zname rest]|]; [|reflexivity].
  rewrite patch_lift. cbn [q_class canon]. apply lift_ext. intros [nsec c4].
  rewrite patch_lift. apply lift_ext. intros [m2 c5]. reflexivity.
Qed.

Lemma serve_answer_factor : forall q ecs loc max packed ar c2,
  serve_answer C rd q ecs loc max packed ar c2 =
  patch (serve_answer C rd (canon (q_name q) (q_type q) (q_class q)) None loc max packed ar c2) q ecs.
Proof.
  intros q ecs loc max packed ar c2. unfold serve_answer.
  rewrite patch_lift. cbn [q_name q_type canon]. apply lift_ext. intros [[an rcode] c3].
  apply serve_sections_factor.
Qed.

Lemma serve_with_factor : forall c0 q locr ecs max,
  (q_edns q = None \/ q_edns q = Some 0) ->
  serve_with C rd c0 q locr ecs max =
  patch (serve_with C rd c0 (canon (q_name q) (q_type q) (q_class q)) locr None max) q ecs.
Proof.
  intros c0 q locr ecs max He. unfold serve_with. cbn [q_edns q_name canon].
  assert (X : forall T (a b : T), match q_edns q with Some (Npos _) => a | _ => b end = b).
  { intros T a b. destruct He as [E|E]; rewrite E; reflexivity. }
  rewrite X. destruct locr as [| |loc]; [reflexivity|reflexivity|].
  rewrite patch_lift. apply lift_ext. intros [ar c1].
  destruct (a_err ar); [reflexivity|].
  destruct (negb (a_ns ar) && negb (a_auth ar)); [reflexivity|].
  rewrite patch_lift. unfold serve_ds. cbn [q_type canon]. apply lift_ext. intros [[ar' c2]|]; [|reflexivity].
  apply serve_answer_factor.
Qed.
End Factor.

Theorem serve_factor : forall b st q locr ecs max,
  (q_edns q = None \/ q_edns q = Some 0) ->
  serve b st q locr ecs max = patch (serve b st (canon (q_name q) (q_type q) (q_class q)) locr None max) q ecs.
Proof. intros b st q locr ecs max He. unfold serve. destruct b; apply serve_with_factor; exact He. Qed.

Lemma badvers_false : forall r, badvers r = false -> req_edns r = None \/ req_edns r = Some 0.
Proof. intros r H. unfold badvers in H. destruct (req_edns r) as [[|p]|]; auto; discriminate. Qed.

Lemma badvers_true : forall r, badvers r = true -> exists v, req_edns r = Some v /\ v <> 0.
Proof. intros r H. unfold badvers in H. destruct (req_edns r) as [[|p]|]; try discriminate. exists (Npos p). split; [reflexivity|discriminate]. Qed.

(* ------------------------------------------------------------------ the uncached handler of Model/Cache IS Serve.serve *)
Theorem plain_is_serve : forall max g r ecs, (badvers r = true \/ located g r = true) ->
  plain_serve max g r ecs = serve (g_backend g) (g_store g) (query_of r) (g_loc g r) ecs max.
Proof.
  intros max g r ecs H. unfold plain_serve, Cache.serve_plain.
  destruct (badvers r) eqn:B.
  - apply badvers_true in B. destruct B as (v & E & Hv).
    rewrite (serve_badvers (g_backend g) (g_store g) (query_of r) (g_loc g r) ecs max v E Hv). reflexivity.
  - destruct H as [H|H]; [discriminate|].
    destruct (located_loc g r H) as (EL & _). rewrite EL.
    rewrite (serve_factor (g_backend g) (g_store g) (query_of r) _ ecs max (badvers_false r B)). reflexivity.
Qed.

(* [handle] is Model/Cache.serve on every request with a location, for any value of Cache's random draws *)
Lemma handle_located : forall max cfg g c now rnd r, (badvers r = true \/ located g r = true) ->
  handle max cfg g c now r =
  Cache.serve gen body wresponse lower_bytes locate (core max) (weightedf max) (refusedf max)
              finish badvers badvers_reply cfg g c now rnd r.
Proof.
  intros max cfg g c now rnd r H. unfold handle.
  destruct (badvers r) eqn:B; [reflexivity|].
  destruct H as [H|H]; [discriminate|]. rewrite H. reflexivity.
Qed.

(* ------------------------------------------------------------------ the invariant of Proofs/Cache for this instance *)
Section Inv.
(* a property of the (name as asked, max answer) of the queries, e.g. wire validity, or "max answer = m" *)
Variable Pq : bytes -> N -> Prop.

(* every entry is the canonical outcome on the CURRENT generation for its key, computed for SOME asker's
   spelling of the name and SOME asker's max answer.  (Stronger than Proofs/Cache.entry_ok in that entries
   of weighted answers are covered too: Serve.v has no draws.) *)
Definition entry_ok (g : gen) (s : bytes) (e : Cache.entry body) : Prop :=
  exists k a mx, s = Cache.key_string k /\ Cache.wf_key k /\ lower_bytes a = Cache.k_name k /\ Pq a mx /\
                 Cache.e_body e = core mx g k a 0.
Definition Inv (g : gen) (c : hcache) : Prop := forall s e, In (s, e) c -> entry_ok g s e.

Lemma Inv_nil : forall g, Inv g [].
Proof. intros g s e []. Qed.

Lemma Inv_remove : forall g k c, Inv g c -> Inv g (Cache.lru_remove body k c).
Proof. intros g k c H s e I. apply H. eapply Cache.in_remove; eauto. Qed.

Lemma Inv_add : forall g cap s e c, Inv g c -> entry_ok g s e -> Inv g (Cache.lru_add body cap s e c).
Proof.
  intros g cap s e c H E s' e' I. unfold Cache.lru_add in I. apply Cache.in_firstn in I. destruct I as [I|I].
  - inversion I; subst; auto.
  - apply H. eapply Cache.in_remove; eauto.
Qed.

(* what one request, arriving with max answer [max], gets written *)
Definition written (max : N) (g : gen) (r : Cache.request) (f : wresponse) (o : Cache.outcome) : Prop :=
  (badvers r = true /\ f = badvers_reply r) \/
  (badvers r = false /\ located g r = false /\ f = (fun _ => ONoReply)) \/
  (badvers r = false /\ located g r = true /\
   exists a mx, lower_bytes a = lower_bytes (Cache.q_asked r) /\ Pq a mx /\
                (o <> Cache.OHit -> a = Cache.q_asked r /\ mx = max) /\
                f = finish (core mx g (Cache.key_of gen lower_bytes locate g r) a 0) r (locate g r)).

Definition req_ok (max : N) (r : Cache.request) : Prop :=
  Cache.q_qtype r < 65536 /\ Cache.q_qclass r < 65536 /\ Pq (Cache.q_asked r) max.

Lemma handle_step : forall max cfg g c now r, Inv g c -> req_ok max r ->
  Inv g (fst (fst (handle max cfg g c now r))) /\
  written max g r (snd (fst (handle max cfg g c now r))) (snd (handle max cfg g c now r)).
Proof.
  intros max cfg g c now r HI (HT & HC & HP). unfold handle.
  destruct (badvers r) eqn:B; cbn [negb andb].
  - unfold cached_serve, Cache.serve. rewrite B. cbn [fst snd]. split; [exact HI|]. left. auto.
  - destruct (located g r) eqn:Lc; cbn [negb].
    2:{ cbn [fst snd]. split; [exact HI|]. right. left. auto. }
    unfold cached_serve, Cache.serve. rewrite B. cbv zeta.
    set (k := Cache.key_of gen lower_bytes locate g r).
    assert (WK : Cache.wf_key k).
    { unfold Cache.wf_key, k, Cache.key_of. cbn [Cache.k_loc Cache.k_qtype Cache.k_qclass].
      destruct (located_loc g r Lc) as (_ & H). auto. }
    set (b := core max g k (Cache.q_asked r) 0).
    assert (EO : forall x, entry_ok g (Cache.key_string k) (Cache.mkE x b)).
    { intros x. exists k, (Cache.q_asked r), max. repeat split; auto; apply WK. }
    assert (MISS : forall o, written max g r (finish b r (Cache.k_loc k)) o).
    { intros o. right. right. split; [exact B|]. split; [exact Lc|].
      exists (Cache.q_asked r), max. repeat split; auto. }
    assert (INS : forall c0, Inv g c0 ->
      Inv g (if negb (Cache.cc_enabled cfg) || refusedf max g k then c0
             else if negb (weightedf max g k)
                  then Cache.lru_add body (Cache.cc_cap cfg) (Cache.key_string k) (Cache.mkE (now + 1000) b) c0
             else if 0 <? Cache.cc_wrs cfg
                  then Cache.lru_add body (Cache.cc_cap cfg) (Cache.key_string k) (Cache.mkE (now + Cache.cc_wrs cfg) b) c0
             else c0)).
    { intros c0 H0.
      destruct (negb (Cache.cc_enabled cfg) || refusedf max g k); auto.
      destruct (negb (weightedf max g k)); [apply Inv_add; auto|].
      destruct (0 <? Cache.cc_wrs cfg); [apply Inv_add; auto|auto]. }
    destruct (Cache.cc_enabled cfg) eqn:EN.
    + unfold Cache.lru_get. destruct (Cache.lru_find body (Cache.key_string k) c) as [e|] eqn:F.
      * assert (IC : Inv g ((Cache.key_string k, e) :: Cache.lru_remove body (Cache.key_string k) c)).
        { intros s' e' [I|I]; [inversion I; subst; apply HI; eapply Cache.find_in; eauto|apply HI; eapply Cache.in_remove; eauto]. }
        destruct (Cache.e_exp e <? now); cbn [fst snd].
        -- split; [|apply MISS]. apply INS. apply Inv_remove. exact IC.
        -- split; [exact IC|].
           apply Cache.find_in in F. destruct (HI _ _ F) as (k' & a & mx & KS & PK & LA & PA & EB).
           assert (k' = k) by (apply Cache.key_string_injective; auto). subst k'.
           right. right. split; [exact B|]. split; [exact Lc|].
           exists a, mx. split; [exact LA|]. split; [exact PA|]. split; [intros X; contradiction X; reflexivity|].
           rewrite EB. reflexivity.
      * cbn [fst snd]. split; [|apply MISS]. apply INS; auto.
    + cbn [fst snd]. split; [|apply MISS]. apply INS; auto.
Qed.

(* ---------------------------------------------------------------- histories *)
Definition hist_ok (h : list (Cache.event gen)) : Prop :=
  Forall (fun ev => match ev with Cache.EQuery _ _ mx r => req_ok mx r | _ => True end) h.

Definition entry_written (x : gen * N * Cache.request * wresponse * Cache.outcome) : Prop :=
  let '(g, mx, r, f, o) := x in written mx g r f o.

Theorem history_written : forall cfg h g c, Inv g c -> hist_ok h ->
  Inv (fst (hfinal cfg (g, c) h)) (snd (hfinal cfg (g, c) h)) /\
  Forall entry_written (htrace cfg (g, c) h).
Proof.
  intros cfg h. induction h as [|ev h IH]; intros g c HI HH.
  - cbn. split; [exact HI|constructor].
  - inversion HH as [|? ? Hev HH']; subst.
    cbn [hfinal fold_left htrace]. fold (hfinal cfg (hstep cfg (g, c) ev) h).
    destruct ev as [now mx r|g'|].
    + cbn [fst snd hstep]. pose proof (handle_step mx cfg g c now r HI Hev) as S.
      destruct (handle mx cfg g c now r) as ((c' & f) & o). cbn [fst snd] in S. destruct S as (I' & W).
      destruct (IH g c' I' HH') as (IF & T). split; [exact IF|].
      cbn [app]. constructor; [exact W|exact T].
    + cbn [hstep app]. apply IH; [apply Inv_nil|exact HH'].
    + cbn [hstep app]. apply IH; [exact HI|exact HH'].
Qed.
End Inv.

Lemma Inv_weaken : forall (P Q : bytes -> N -> Prop) g c, (forall a m, P a m -> Q a m) -> Inv P g c -> Inv Q g c.
Proof.
  intros P Q g c PQ H s e I. destruct (H s e I) as (k & a & mx & A1 & A2 & A3 & A4 & A5).
  exists k, a, mx. repeat split; auto; apply A2.
Qed.

(* all queries of the history arrive with the same max answer *)
Definition hist_max (max : N) (h : list (Cache.event gen)) : Prop :=
  Forall (fun ev => match ev with Cache.EQuery _ _ mx _ => mx = max | _ => True end) h.

(* on histories of located requests with one max answer (the domain of Proofs/Cache.hist_ok: every key well
   formed) the run of [handle] is the run of Model/Cache (Cache.crun) for this instance *)
Theorem htrace_is_crun : forall max cfg h g c,
  hist_max max h ->
  Cache.hist_ok gen lower_bytes locate Cache.wf_key g h ->
  map (fun x => (snd (fst x), snd x)) (htrace cfg (g, c) h) =
  flat_map (fun o => match o with Some x => [x] | None => [] end)
    (Cache.crun gen body wresponse lower_bytes locate (core max) (weightedf max) (refusedf max)
                finish badvers badvers_reply cfg (g, c) h).
Proof.
  intros max cfg h. induction h as [|ev h IH]; intros g c HM HH; [reflexivity|].
  inversion HM as [|? ? Hev HM']; subst.
  destruct ev as [now rnd r|g'|]; cbn [htrace Cache.crun Cache.cstep Cache.hist_ok fst snd hstep] in *.
  - destruct HH as (HP & HH). subst rnd.
    assert (Lc : located g r = true).
    { unfold located. apply N.ltb_lt. apply HP. }
    rewrite (handle_located max cfg g c now max r (or_intror Lc)).
    destruct (Cache.serve gen body wresponse lower_bytes locate (core max) (weightedf max) (refusedf max)
                finish badvers badvers_reply cfg g c now max r) as ((c' & f) & o).
    cbn. f_equal. apply IH; [exact HM'|exact HH].
  - cbn. apply IH; [exact HM'|exact HH].
  - cbn. apply IH; [exact HM'|exact HH].
Qed.

(* ------------------------------------------------------------------ refinement modulo owner-name case *)
(* [response_refines L recs n q ecs max x] (Proofs/FileLevel) is the conclusion of C01_response_is_spec.
   [refines_variant ... a mx x]: the reply x echoes THIS request's id and question, and is otherwise what
   the statement prescribes for the same question spelled [a] - equal to the name asked up to letter
   case - arriving with max answer [mx]: the owner names of the answer section are spelled [a].
   [refines_mod_case]: for some such spelling, with this request's max answer. *)
Definition refines_variant (L : bytes) (recs : list Answer.record) (n : name) (q : query)
           (ecs : option ecsval) (a : bytes) (mx : N) (x : response) : Prop :=
  lower_bytes a = lower_bytes (q_name q) /\ rs_question x = question_of q /\
  response_refines L recs n (rename q a) ecs mx (set_question x (question_of (rename q a))).
Definition refines_mod_case (L : bytes) (recs : list Answer.record) (n : name) (q : query)
           (ecs : option ecsval) (max : N) (x : response) : Prop :=
  exists a, refines_variant L recs n q ecs a max x.

Lemma rename_same : forall q, rename q (q_name q) = q.
Proof. intros q. destruct q; reflexivity. Qed.

Lemma set_question_same : forall x, set_question x (rs_question x) = x.
Proof. intros x. destruct x; reflexivity. Qed.

Lemma refines_exact_mod_case : forall L recs n q ecs max x,
  response_refines L recs n q ecs max x -> refines_mod_case L recs n q ecs max x.
Proof.
  intros L recs n q ecs max x H. exists (q_name q). split; [reflexivity|].
  destruct H as (H1 & H2 & H3). split; [exact H2|].
  rewrite rename_same. rewrite <- H2. rewrite set_question_same. repeat split; auto.
Qed.

(* [serves g L recs]: the plain database handler on generation g answers a client located in L as the
   records recs prescribe - the conclusion of the C01 theorems, for all queries *)
Definition serves (g : gen) (L : bytes) (recs : list Answer.record) : Prop :=
  forall q n ecs max x, wf_name n -> nlen (pack n) <= 255 -> lower_bytes (q_name q) = pack n ->
    (q_edns q = None \/ q_edns q = Some 0) ->
    serve (g_backend g) (g_store g) q (LocOk L) ecs max = OReply x -> response_refines L recs n q ecs max x.

Lemma patch_reply : forall o q ecs x, patch o q ecs = OReply x ->
  exists y, o = OReply y /\
    x = mkResp (q_id q) (question_of q) (rs_rcode y) (rs_aa y) (rs_an y) (rs_ns y) (rs_ex y)
               (match rs_opt y with Some _ => opt_of q ecs | None => None end).
Proof.
  intros o q ecs x H. destruct o as [| | |y]; try discriminate. exists y. split; [reflexivity|].
  cbn in H. inversion H. reflexivity.
Qed.

Theorem written_refines : forall Pq max g r f o recs,
  written Pq max g r f o -> badvers r = false ->
  serves g (loc_of_num (locate g r)) recs ->
  forall ecs x n, wf_name n -> nlen (pack n) <= 255 -> lower_bytes (Cache.q_asked r) = pack n ->
  f ecs = OReply x ->
  located g r = true /\
  (exists a mx, Pq a mx /\ refines_variant (loc_of_num (locate g r)) recs n (query_of r) ecs a mx x) /\
  (o <> Cache.OHit -> response_refines (loc_of_num (locate g r)) recs n (query_of r) ecs max x).
Proof.
  intros Pq max g r f o recs W B S ecs x n Hn Hl Hq Hf.
  destruct W as [(B' & _)|[(_ & _ & E)|(_ & Lc & a & mx & LA & PA & HO & E)]].
  - rewrite B in B'. discriminate.
  - subst f. discriminate.
  - split; [exact Lc|]. subst f. unfold finish in Hf.
    set (q := query_of r) in *. set (L := loc_of_num (locate g r)) in *.
    set (q' := rename q a).
    assert (He : q_edns q' = None \/ q_edns q' = Some 0) by (apply badvers_false; exact B).
    pose proof (serve_factor (g_backend g) (g_store g) q' (LocOk L) ecs mx He) as SF.
    change (serve (g_backend g) (g_store g) (canon (q_name q') (q_type q') (q_class q')) (LocOk L) None mx)
      with (core mx g (Cache.key_of gen lower_bytes locate g r) a 0) in SF.
    destruct (patch_reply _ _ _ _ Hf) as (y & Ey & Ex).
    rewrite Ey in SF. cbn [patch] in SF.
    assert (R' : response_refines L recs n q' ecs mx (set_question x (question_of q'))).
    { apply (S q' n ecs mx); auto.
      - cbn [q_name q' rename]. rewrite LA. exact Hq.
      - rewrite SF. subst x. reflexivity. }
    split.
    + exists a, mx. split; [exact PA|]. split; [exact LA|]. split; [subst x; reflexivity|]. exact R'.
    + intros NH. destruct (HO NH) as (Ea & Em). subst a mx. unfold q' in R'. rewrite rename_same in R'.
      assert (EQ : question_of q = rs_question x) by (subst x; reflexivity).
      rewrite EQ, set_question_same in R'. exact R'.
Qed.

(* ------------------------------------------------------------------ which generations serve which records (C01) *)
(* [gen_declares g L recs]: the database of generation g is a compiled form of the records recs, and the
   guards of the C01 theorem for that form hold for a client located in L:
   - the row-level compilation of Spec/Rows in the v1 or v2 key layout (C01_response_is_spec, _v2), or
   - ANY database the modelled compilers produce from the TEXT of a well-formed data file f whose declared
     records are recs: CDB from any record stream, RocksDB by builder or batches in either key layout
     (C01_file_level). *)
Inductive gen_declares (g : gen) (L : bytes) (recs : list Answer.record) : Prop :=
| GD_rows_v1 :
    g_backend g <> RDB2 -> g_store g = store_v1 recs ->
    wf_recs recs -> Forall wf_ns_rdata recs -> length L = 2%nat -> wf_view L recs = true ->
    gen_declares g L recs
| GD_rows_v2 :
    g_backend g = RDB2 -> g_store g = store_v2 recs ->
    wf_recs recs -> Forall wf_ns_rdata recs -> length L = 2%nat -> wf_view L recs = true ->
    gen_declares g L recs
| GD_file_cdb : forall o serial nornet accum feature f stream kvs,
    g_backend g = CDB -> recs = declared_file o serial f ->
    wf_file o serial f = true -> side_ok accum feature f ->
    Permutation stream (records bytes (conv_line o serial nornet false) accum feature f) ->
    compile_cdb bytes (conv_line o serial nornet false) f stream = Ok kvs ->
    (forall k, get (g_store g) k = vals_of k kvs) ->
    loc_okb L = true -> wf_view L recs = true ->
    gen_declares g L recs
| GD_file_rdb_v1 : forall o serial nornet accum feature f db,
    g_backend g = RDB1 -> recs = declared_file o serial f ->
    wf_file o serial f = true -> side_ok accum feature f -> feature <> [] ->
    kvs_ok (records bytes (conv_line o serial nornet false) accum feature f) ->
    rdb_compilation bytes (conv_line o serial nornet false) accum feature f db -> rdb_dump db (g_store g) ->
    loc_okb L = true -> wf_view L recs = true ->
    gen_declares g L recs
| GD_file_rdb_v2 : forall o serial nornet accum feature f db,
    g_backend g = RDB2 -> recs = declared_file o serial f ->
    wf_file o serial f = true -> side_ok accum feature f -> feature <> [] ->
    kvs_ok (records bytes (conv_line o serial nornet true) accum feature f) ->
    rdb_compilation bytes (conv_line o serial nornet true) accum feature f db -> rdb_dump db (g_store g) ->
    length L = 2%nat -> wf_view L recs = true ->
    gen_declares g L recs.

Theorem declares_serves : forall g L recs, gen_declares g L recs -> serves g L recs.
Proof.
  intros g L recs D q n ecs max x Hn Hl Hq He Hs.
  destruct D as [Hb Hst W1 W2 W3 W4 | Hb Hst W1 W2 W3 W4
                | o serial nornet accum feature f stream kvs Hb Er WF SO P CC G LO V
                | o serial nornet accum feature f db Hb Er WF SO NF KV RC RD LO V
                | o serial nornet accum feature f db Hb Er WF SO NF KV RC RD LL V].
  - rewrite Hst in Hs. unfold response_refines.
    exact (response_is_spec_v1 (g_backend g) recs L W1 W2 W3 Hb W4 q n ecs max x Hn Hl Hq He Hs).
  - rewrite Hst, Hb in Hs. unfold response_refines.
    exact (response_is_spec_v2 recs L W1 W2 W3 W4 q n ecs max x Hn Hl Hq He Hs).
  - rewrite Hb in Hs. subst recs.
    exact (file_level_cdb o serial nornet accum feature f WF SO stream kvs (g_store g) L P CC G LO V q n ecs max x Hn Hl Hq He Hs).
  - rewrite Hb in Hs. subst recs.
    exact (file_level_rdb_v1 o serial nornet accum feature f WF SO db (g_store g) L NF KV RC RD LO V q n ecs max x Hn Hl Hq He Hs).
  - rewrite Hb in Hs. subst recs.
    exact (file_level_rdb_v2 o serial nornet accum feature f WF SO db (g_store g) L NF KV RC RD LL V q n ecs max x Hn Hl Hq He Hs).
Qed.

(* ------------------------------------------------------------------ the composed statements *)
Definition hist_wire (h : list (Cache.event gen)) : Prop :=
  Forall (fun ev => match ev with
                    | Cache.EQuery _ _ _ r => Cache.q_qtype r < 65536 /\ Cache.q_qclass r < 65536
                    | _ => True end) h.

Lemma hist_wire_ok : forall h, hist_wire h -> hist_ok (fun _ _ => True) h.
Proof.
  intros h H. unfold hist_ok. eapply Forall_impl; [|exact H].
  intros [now rnd r|g'|]; auto. intros (A & B). repeat split; auto.
Qed.

Lemma hist_wire_max_ok : forall max h, hist_wire h -> hist_max max h -> hist_ok (fun _ m => m = max) h.
Proof.
  intros max h H M. unfold hist_ok, hist_wire, hist_max in *. rewrite Forall_forall in *.
  intros ev Hev. specialize (H ev Hev). specialize (M ev Hev).
  destruct ev as [now rnd r|g'|]; auto. destruct H as (A & B). repeat split; auto.
Qed.

Lemma edns_ok_badvers : forall r, (req_edns r = None \/ req_edns r = Some 0) -> badvers r = false.
Proof. intros r [E|E]; unfold badvers; rewrite E; reflexivity. Qed.

(* one entry of the trace of a history: generation in force, max answer, request, what is written, cache
   outcome.  Queries arriving with ANY max answers (listeners configured differently share the cache, whose
   key does not hold the max answer): a hit is what the statement prescribes for the max answer [mx'] of the
   query the entry was computed for *)
Definition entry_is_spec_any (x : gen * N * Cache.request * wresponse * Cache.outcome) : Prop :=
  let '(g, mx, r, f, o) := x in
  forall recs ecs y n,
    let L := loc_of_num (locate g r) in
    gen_declares g L recs ->
    (req_edns r = None \/ req_edns r = Some 0) ->
    wf_name n -> nlen (pack n) <= 255 -> lower_bytes (Cache.q_asked r) = pack n ->
    f ecs = OReply y ->
    located g r = true /\
    (exists a mx', refines_variant L recs n (query_of r) ecs a mx' y) /\
    (o <> Cache.OHit -> response_refines L recs n (query_of r) ecs mx y).

Theorem cached_handler_is_spec_any_max : forall cfg h g0,
  hist_wire h -> Forall entry_is_spec_any (htrace cfg (g0, []) h).
Proof.
  intros cfg h g0 HW.
  destruct (history_written (fun _ _ => True) cfg h g0 [] (Inv_nil _ g0) (hist_wire_ok h HW)) as (_ & T).
  eapply Forall_impl; [|exact T].
  intros ((((g & mx) & r) & f) & o) W. cbn in W. intros recs ecs y n L D He Hn Hl Hq Hf.
  destruct (written_refines _ mx g r f o recs W (edns_ok_badvers r He) (declares_serves g L recs D) ecs y n Hn Hl Hq Hf)
    as (A & (a & mx' & _ & B) & C).
  split; [exact A|]. split; [exists a, mx'; exact B|exact C].
Qed.

(* all queries with one max answer *)
Definition entry_is_spec (max : N) (x : gen * N * Cache.request * wresponse * Cache.outcome) : Prop :=
  let '(g, mx, r, f, o) := x in
  mx = max /\
  forall recs ecs y n,
    let L := loc_of_num (locate g r) in
    gen_declares g L recs ->
    (req_edns r = None \/ req_edns r = Some 0) ->
    wf_name n -> nlen (pack n) <= 255 -> lower_bytes (Cache.q_asked r) = pack n ->
    f ecs = OReply y ->
    located g r = true /\
    refines_mod_case L recs n (query_of r) ecs max y /\
    (o <> Cache.OHit -> response_refines L recs n (query_of r) ecs max y).

Lemma htrace_max : forall max cfg h st, hist_max max h ->
  Forall (fun x => snd (fst (fst (fst x))) = max) (htrace cfg st h).
Proof.
  intros max cfg h. induction h as [|ev h IH]; intros st HM; [constructor|].
  inversion HM as [|? ? Hev HM']; subst. cbn [htrace].
  destruct ev as [now mx r|g'|].
  - destruct (handle mx cfg (fst st) (snd st) now r) as ((c' & f) & o).
    cbn [app]. constructor; [exact Hev|]. apply IH. exact HM'.
  - cbn [app]. apply IH. exact HM'.
  - cbn [app]. apply IH. exact HM'.
Qed.

(* C12_cached_handler_is_spec *)
Theorem cached_handler_is_spec : forall max cfg h g0,
  hist_wire h -> hist_max max h -> Forall (entry_is_spec max) (htrace cfg (g0, []) h).
Proof.
  intros max cfg h g0 HW HM.
  destruct (history_written (fun _ m => m = max) cfg h g0 [] (Inv_nil _ g0) (hist_wire_max_ok max h HW HM)) as (_ & T).
  pose proof (htrace_max max cfg h (g0, []) HM) as M.
  rewrite Forall_forall in *. intros x Hx. specialize (T x Hx). specialize (M x Hx).
  destruct x as ((((g & mx) & r) & f) & o). cbn in M |- *. cbn in T. subst mx. split; [reflexivity|].
  intros recs ecs y n D He Hn Hl Hq Hf.
  destruct (written_refines _ max g r f o recs T (edns_ok_badvers r He) (declares_serves g _ recs D) ecs y n Hn Hl Hq Hf)
    as (A & (a & mx' & Em & B) & C).
  subst mx'. split; [exact A|]. split; [exists a; exact B|exact C].
Qed.

(* every response of the cached handler is the response of the plain handler to a request that
   differs at most in the letter case of the name (and in the max answer it arrives with), re-addressed
   (id, question) to this request; on a miss (cache off, miss, expired entry) it IS the plain handler's
   response *)
Definition recase (r : Cache.request) (a : bytes) : Cache.request :=
  Cache.mkReq (Cache.q_from r) a (Cache.q_qtype r) (Cache.q_qclass r) (Cache.q_extra r).

Definition entry_case_variant (x : gen * N * Cache.request * wresponse * Cache.outcome) : Prop :=
  let '(g, mx, r, f, o) := x in
  (badvers r = false /\ located g r = false /\ f = (fun _ => ONoReply)) \/
  ((badvers r = true \/ located g r = true) /\
   exists a mx', lower_bytes a = lower_bytes (Cache.q_asked r) /\
     (o <> Cache.OHit -> a = Cache.q_asked r /\ mx' = mx) /\
     forall ecs, f ecs =
       requestion (serve (g_backend g) (g_store g) (query_of (recase r a)) (g_loc g r) ecs mx')
                  (match req_edns r with Some (Npos _) => None | _ => question_of (query_of r) end)).

Lemma patch_requestion : forall o q a ecs,
  patch o q ecs = requestion (patch o (rename q a) ecs) (question_of q).
Proof. intros o q a ecs. destruct o; reflexivity. Qed.

Theorem cached_is_case_variant : forall cfg h g0,
  hist_wire h -> Forall entry_case_variant (htrace cfg (g0, []) h).
Proof.
  intros cfg h g0 HW.
  destruct (history_written (fun _ _ => True) cfg h g0 [] (Inv_nil _ g0) (hist_wire_ok h HW)) as (_ & T).
  eapply Forall_impl; [|exact T].
  intros ((((g & mx) & r) & f) & o) W. cbn in W. cbn.
  destruct W as [(B & E)|[(B & Lc & E)|(B & Lc & a & mx' & LA & _ & HO & E)]].
  - right. split; [auto|]. exists (Cache.q_asked r), mx. split; [reflexivity|]. split; [auto|].
    intros ecs. subst f. destruct (badvers_true r B) as (v & Ev & Hv).
    assert (Q : q_edns (query_of (recase r (Cache.q_asked r))) = Some v) by exact Ev.
    rewrite (serve_badvers (g_backend g) (g_store g) _ (g_loc g r) ecs mx v Q Hv).
    rewrite Ev. destruct v as [|p]; [contradiction|]. reflexivity.
  - left. auto.
  - right. split; [auto|]. exists a, mx'. split; [exact LA|]. split; [exact HO|].
    intros ecs. subst f. unfold finish.
    destruct (located_loc g r Lc) as (EL & _). rewrite EL.
    assert (He : q_edns (query_of (recase r a)) = None \/ q_edns (query_of (recase r a)) = Some 0)
      by (apply badvers_false; exact B).
    rewrite (serve_factor (g_backend g) (g_store g) (query_of (recase r a)) _ ecs mx' He).
    destruct (badvers_false r B) as [E0|E0]; rewrite E0;
      rewrite (patch_requestion _ (query_of r) a ecs); reflexivity.
Qed.

(* ------------------------------------------------------------------ C12_cached_equals_uncached, instantiated
   Proofs/Cache.cache_invisible (= C12_cached_equals_uncached) applied as it stands to this instance.  Its
   hypothesis (a) - the answer depends on the name as asked only through its lower-cased form, up to [beq] -
   is NOT true of Serve.serve for [beq] = equality up to the letter case of owner names
   (Proofs/ComposeExample.case_variant_not_owner_case), so [beq] / [req] are the relation that is true:
   both are what the handler computes for two spellings of one name.  (The invariant-based theorems above
   say more: WHICH generation and key, and they cover weighted answers and unlocated clients.) *)
Definition case_variant_body (max : N) (b1 b2 : body) : Prop :=
  b1 = b2 \/ exists g k a1 a2, lower_bytes a1 = lower_bytes a2 /\ b1 = core max g k a1 0 /\ b2 = core max g k a2 0.
Definition case_variant_resp (max : N) (x y : wresponse) : Prop :=
  x = y \/ exists g k a1 a2 r l, lower_bytes a1 = lower_bytes a2 /\
    x = finish (core max g k a1 0) r l /\ y = finish (core max g k a2 0) r l.

Lemma plain_any_rnd : forall max g rnd r,
  Cache.serve_plain gen body wresponse lower_bytes locate (core max) finish badvers badvers_reply g rnd r = plain_serve max g r.
Proof. reflexivity. Qed.

Theorem cached_equals_uncached_handler : forall max cfg rnd' h g,
  Cache.hist_ok gen lower_bytes locate Cache.wf_key g h ->
  Forall (fun x => let '(w, a, b) := x in w = false -> case_variant_resp max a b)
    (Cache.both gen body wresponse lower_bytes locate (core max) (weightedf max) (refusedf max)
                finish badvers badvers_reply cfg rnd' g [] h).
Proof.
  intros max cfg rnd' h g HH.
  apply (Cache.cache_invisible gen body wresponse lower_bytes locate (core max) (weightedf max) (refusedf max)
           finish badvers badvers_reply (case_variant_body max) (case_variant_resp max)).
  - intros b. left. reflexivity.
  - intros a. left. reflexivity.
  - intros b1 b2 r l [E|(g0 & k & a1 & a2 & L & E1 & E2)].
    + subst. left. reflexivity.
    + right. exists g0, k, a1, a2, r, l. subst. auto.
  - intros g0 k a1 a2 rnd L. right. exists g0, k, a1, a2. repeat split; auto.
  - intros. reflexivity.
  - exact HH.
Qed.

(* ------------------------------------------------------------------ [gen_declares] spelled out *)
Theorem gen_declares_meaning : forall g L recs, gen_declares g L recs <->
  (g_backend g <> RDB2 /\ g_store g = store_v1 recs /\
   wf_recs recs /\ Forall wf_ns_rdata recs /\ length L = 2%nat /\ wf_view L recs = true) \/
  (g_backend g = RDB2 /\ g_store g = store_v2 recs /\
   wf_recs recs /\ Forall wf_ns_rdata recs /\ length L = 2%nat /\ wf_view L recs = true) \/
  (exists o serial nornet accum feature f stream kvs,
     g_backend g = CDB /\ recs = declared_file o serial f /\
     wf_file o serial f = true /\ side_ok accum feature f /\
     Permutation stream (records bytes (conv_line o serial nornet false) accum feature f) /\
     compile_cdb bytes (conv_line o serial nornet false) f stream = Ok kvs /\
     (forall k, get (g_store g) k = vals_of k kvs) /\
     loc_okb L = true /\ wf_view L recs = true) \/
  (exists o serial nornet accum feature f db,
     g_backend g = RDB1 /\ recs = declared_file o serial f /\
     wf_file o serial f = true /\ side_ok accum feature f /\ feature <> [] /\
     kvs_ok (records bytes (conv_line o serial nornet false) accum feature f) /\
     rdb_compilation bytes (conv_line o serial nornet false) accum feature f db /\ rdb_dump db (g_store g) /\
     loc_okb L = true /\ wf_view L recs = true) \/
  (exists o serial nornet accum feature f db,
     g_backend g = RDB2 /\ recs = declared_file o serial f /\
     wf_file o serial f = true /\ side_ok accum feature f /\ feature <> [] /\
     kvs_ok (records bytes (conv_line o serial nornet true) accum feature f) /\
     rdb_compilation bytes (conv_line o serial nornet true) accum feature f db /\ rdb_dump db (g_store g) /\
     length L = 2%nat /\ wf_view L recs = true).
Proof.
  intros g L recs. split.
  - intros D. destruct D as [A1 A2 A3 A4 A5 A6 | A1 A2 A3 A4 A5 A6
                | o serial nornet accum feature f stream kvs A1 A2 A3 A4 A5 A6 A7 A8 A9
                | o serial nornet accum feature f db A1 A2 A3 A4 A5 A6 A7 A8 A9 A10
                | o serial nornet accum feature f db A1 A2 A3 A4 A5 A6 A7 A8 A9 A10].
    + left. auto 10.
    + right. left. auto 10.
    + right. right. left. exists o, serial, nornet, accum, feature, f, stream, kvs. auto 12.
    + right. right. right. left. exists o, serial, nornet, accum, feature, f, db. auto 12.
    + right. right. right. right. exists o, serial, nornet, accum, feature, f, db. auto 12.
  - intros [(A1 & A2 & A3 & A4 & A5 & A6) | [(A1 & A2 & A3 & A4 & A5 & A6)
      | [(o & serial & nornet & accum & feature & f & stream & kvs & A1 & A2 & A3 & A4 & A5 & A6 & A7 & A8 & A9)
      | [(o & serial & nornet & accum & feature & f & db & A1 & A2 & A3 & A4 & A5 & A6 & A7 & A8 & A9 & A10)
      | (o & serial & nornet & accum & feature & f & db & A1 & A2 & A3 & A4 & A5 & A6 & A7 & A8 & A9 & A10)]]]].
    + apply GD_rows_v1; auto.
    + apply GD_rows_v2; auto.
    + eapply GD_file_cdb; eauto.
    + eapply GD_file_rdb_v1; eauto.
    + eapply GD_file_rdb_v2; eauto.
Qed.

(* ------------------------------------------------------------------ histories without a reload: one generation *)
Definition no_reload (h : list (Cache.event gen)) : Prop :=
  Forall (fun ev => match ev with Cache.EReload _ _ => False | _ => True end) h.

Lemma htrace_gen_fixed : forall cfg h g0 c, no_reload h ->
  Forall (fun x => fst (fst (fst (fst x))) = g0) (htrace cfg (g0, c) h).
Proof.
  intros cfg h. induction h as [|ev h IH]; intros g0 c NR; [constructor|].
  inversion NR as [|? ? Hev NR']; subst. cbn [htrace].
  destruct ev as [now rnd r|g'|]; [|contradiction|].
  - cbn [fst snd hstep]. destruct (handle rnd cfg g0 c now r) as ((c' & f) & o).
    cbn [app]. constructor; [reflexivity|]. apply IH. exact NR'.
  - cbn [hstep app]. apply IH. exact NR'.
Qed.

Definition entry_is_spec_of (max : N) (g0 : gen) (recs : list Answer.record)
           (x : gen * N * Cache.request * wresponse * Cache.outcome) : Prop :=
  let '(g, mx, r, f, o) := x in
  g = g0 /\ mx = max /\
  forall ecs y n,
    let L := loc_of_num (locate g0 r) in
    gen_declares g0 L recs ->
    (req_edns r = None \/ req_edns r = Some 0) ->
    wf_name n -> nlen (pack n) <= 255 -> lower_bytes (Cache.q_asked r) = pack n ->
    f ecs = OReply y ->
    located g0 r = true /\
    refines_mod_case L recs n (query_of r) ecs max y /\
    (o <> Cache.OHit -> response_refines L recs n (query_of r) ecs max y).

Theorem cached_handler_is_spec_fixed : forall max cfg h g0 recs,
  hist_wire h -> hist_max max h -> no_reload h ->
  Forall (entry_is_spec_of max g0 recs) (htrace cfg (g0, []) h).
Proof.
  intros max cfg h g0 recs HW HM NR.
  pose proof (cached_handler_is_spec max cfg h g0 HW HM) as A.
  pose proof (htrace_gen_fixed cfg h g0 [] NR) as B.
  rewrite Forall_forall in *. intros x Hx. specialize (A x Hx). specialize (B x Hx).
  destruct x as ((((g & mx) & r) & f) & o). cbn in B. subst g. cbn in A |- *. destruct A as (A1 & A2).
  split; [reflexivity|]. split; [exact A1|].
  intros ecs y n D. exact (A2 recs ecs y n D).
Qed.

(* with the cache switched off nothing is a hit: the refinement is exact for every query *)
Lemma cache_off_no_hit : forall max cfg g c now r,
  Cache.cc_enabled cfg = false -> snd (handle max cfg g c now r) <> Cache.OHit.
Proof.
  intros max cfg g c now r H. unfold handle.
  destruct (negb (badvers r) && negb (located g r)); [cbn; discriminate|].
  unfold cached_serve, Cache.serve. destruct (badvers r); [cbn; discriminate|].
  cbv zeta. rewrite H. cbn. discriminate.
Qed.
