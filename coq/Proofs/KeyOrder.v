(* KeyOrder (C15 slice; was Proofs/BytesOrder.v until another slice took that name):
   bcmp (Go bytes.Compare, the RocksDB bytewise comparator) is a total order.
   klt a b : a < b,  kle a b : not (b < a). *)
From DnsV Require Import Base.Bytes.
Open Scope N_scope.

Definition klt (a b : bytes) : Prop := bltb a b = true.
Definition kle (a b : bytes) : Prop := bltb b a = false.

Lemma bcmp_refl : forall a, bcmp a a = Eq.
Proof. induction a; simpl; [reflexivity|]. rewrite N.compare_refl. assumption. Qed.

Lemma bcmp_eq : forall a b, bcmp a b = Eq -> a = b.
Proof.
  induction a as [|x a IH]; destruct b as [|y b]; simpl; intro H; try reflexivity; try discriminate.
  destruct (x ?= y) eqn:E; try discriminate. apply N.compare_eq_iff in E. subst. f_equal. auto.
Qed.

Lemma bcmp_antisym : forall a b, bcmp b a = CompOpp (bcmp a b).
Proof.
  induction a as [|x a IH]; destruct b as [|y b]; simpl; try reflexivity.
  rewrite (N.compare_antisym x y). destruct (x ?= y); simpl; auto.
Qed.

Lemma bcmp_lt_trans : forall a b c, bcmp a b = Lt -> bcmp b c = Lt -> bcmp a c = Lt.
Proof.
  induction a as [|x a IH]; intros [|y b] [|z c]; simpl; try discriminate; try reflexivity.
  destruct (x ?= y) eqn:E1, (y ?= z) eqn:E2; try discriminate; intros H1 H2.
  - apply N.compare_eq_iff in E1. apply N.compare_eq_iff in E2. subst. rewrite N.compare_refl. eauto.
  - apply N.compare_eq_iff in E1. subst. rewrite E2. reflexivity.
  - apply N.compare_eq_iff in E2. subst. rewrite E1. reflexivity.
  - rewrite (N.lt_trans _ _ _ E1 E2). reflexivity.
Qed.

Lemma klt_iff : forall a b, klt a b <-> bcmp a b = Lt.
Proof. intros. unfold klt, bltb. destruct (bcmp a b); split; congruence. Qed.

Lemma kle_iff : forall a b, kle a b <-> bcmp a b <> Gt.
Proof.
  intros. unfold kle, bltb. rewrite (bcmp_antisym a b). destruct (bcmp a b); simpl; split; congruence.
Qed.

Lemma klt_trans : forall a b c, klt a b -> klt b c -> klt a c.
Proof. intros a b c. rewrite !klt_iff. apply bcmp_lt_trans. Qed.

Lemma klt_irrefl : forall a, ~ klt a a.
Proof. intros a H. apply klt_iff in H. rewrite bcmp_refl in H. discriminate. Qed.

Lemma klt_neq : forall a b, klt a b -> a <> b.
Proof. intros a b H E. subst. exact (klt_irrefl b H). Qed.

Lemma kle_refl : forall a, kle a a.
Proof. intro. apply kle_iff. rewrite bcmp_refl. discriminate. Qed.

Lemma klt_kle : forall a b, klt a b -> kle a b.
Proof. intros a b H. apply klt_iff in H. apply kle_iff. congruence. Qed.

Lemma kle_neq_klt : forall a b, kle a b -> a <> b -> klt a b.
Proof.
  intros a b H N. apply kle_iff in H. apply klt_iff.
  destruct (bcmp a b) eqn:E; [apply bcmp_eq in E; contradiction | reflexivity | congruence].
Qed.

Lemma kle_antisym : forall a b, kle a b -> kle b a -> a = b.
Proof.
  intros a b H1 H2. apply kle_iff in H1. apply kle_iff in H2. rewrite (bcmp_antisym a b) in H2.
  destruct (bcmp a b) eqn:E; simpl in *; [apply bcmp_eq; assumption | congruence | congruence].
Qed.

Lemma kle_trans : forall a b c, kle a b -> kle b c -> kle a c.
Proof.
  intros a b c H1 H2. apply kle_iff in H1. apply kle_iff in H2. apply kle_iff.
  destruct (bcmp a b) eqn:E1; [apply bcmp_eq in E1; subst; assumption | | congruence].
  destruct (bcmp b c) eqn:E2; [apply bcmp_eq in E2; subst; congruence | | congruence].
  rewrite (bcmp_lt_trans _ _ _ E1 E2). discriminate.
Qed.

Lemma klt_kle_trans : forall a b c, klt a b -> kle b c -> klt a c.
Proof.
  intros a b c H1 H2. apply kle_neq_klt.
  - eapply kle_trans; [apply klt_kle; eassumption | assumption].
  - intro E. subst a.
    assert (X : c = b) by (apply kle_antisym; [apply klt_kle; assumption | assumption]).
    subst c. exact (klt_irrefl b H1).
Qed.

(* bltb decides the order: not a < b means b <= a *)
Lemma bltb_false_kle : forall a b, bltb a b = false -> kle b a.
Proof. intros. exact H. Qed.
