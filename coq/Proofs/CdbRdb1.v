(* CdbRdb1 (C02): the CDB driver and the RocksDB driver with v1 keys run the same label-by-label
   reader over the same key -> rows map; they differ in one place only: cdbdriver.ForEach shadows
   err inside its loop, so an error RETURNED by the callback stops the iteration but is not
   returned, while rdb.ForEach returns it (Model/LookupV1.for_each_err).  The only callback that
   returns an error is GetNs (an NS rdata that is not a name); over records whose NS rdata is a
   wire name the two handlers are the same function. *)
From DnsV Require Import Base.Bytes Model.Store Model.LookupV1 Model.LookupV2 Model.Serve Spec.Answer Spec.Rows.
From DnsV Require Import Proofs.Answer Proofs.Compile Proofs.ZoneCut Proofs.Referral Proofs.Reads.
Open Scope N_scope.

Definition nostop {S} (f : cb S) : Prop := forall s r, snd (f s r) <> StopErr.
Definition okcb {S} (st : store) (f : cb S) : Prop := forall key s, snd (iter_rows f (get st key) s) <> StopErr.

Lemma iter_rows_nostop : forall {S} (f : cb S) rows s, nostop f -> snd (iter_rows f rows s) <> StopErr.
Proof.
  intros S f rows. induction rows as [|r t IH]; intros s H; cbn [iter_rows]; [discriminate|].
  pose proof (H s r) as X. destruct (f s r) as [s' stt]. cbn [snd] in X.
  destruct stt; [apply IH; exact H | contradiction | cbn; discriminate].
Qed.
Lemma nostop_okcb : forall {S} st (f : cb S), nostop f -> okcb st f.
Proof. intros S st f H key s. apply iter_rows_nostop. exact H. Qed.

Lemma nostop_auth : nostop auth_cb.
Proof.
  intros [ns auth] r. unfold auth_cb. destruct (extract_rr r false) as [[h|]| |]; cbn; discriminate.
Qed.
Lemma nostop_soa : forall zname, nostop (soa_cb zname).
Proof.
  intros zname [soa acc] r. unfold soa_cb. destruct (extract_rr r false) as [[h|]| |]; cbn [snd]; try discriminate.
  destruct (negb soa && (h_type h =? 6)); cbn [snd]; [|discriminate].
  destruct (slice_from r (h_off h)); cbn; discriminate.
Qed.
Lemma nostop_add : forall w4 w6, nostop (add_cb w4 w6).
Proof.
  intros w4 w6 w r. unfold add_cb. destruct (extract_rr r false) as [[h|]| |]; cbn [snd]; try discriminate.
  destruct (((h_type h =? 1) && w4) || ((h_type h =? 28) && w6)); cbn [snd]; [|discriminate].
  destruct (wrs_add h r w); cbn; discriminate.
Qed.

Lemma for_each_v1_backend : forall {S} st key (f : cb S) s, okcb st f ->
  for_each_v1 CDB st key f s = for_each_v1 RDB1 st key f s.
Proof.
  intros S st key f s H. unfold for_each_v1. pose proof (H key s) as X.
  destruct (iter_rows f (get st key) s) as [s' stt]. cbn [snd] in X. destruct stt; [reflexivity | contradiction | reflexivity].
Qed.
Lemma for_each_rr_v1_backend : forall {S} st name loc (f : cb S) s, okcb st f ->
  for_each_rr_v1 CDB st name loc f s = for_each_rr_v1 RDB1 st name loc f s.
Proof.
  intros S st name loc f s H. unfold for_each_rr_v1. rewrite (for_each_v1_backend st (loc ++ name) f s H).
  destruct (if is_loc0 loc then (s, false) else for_each_v1 RDB1 st (loc ++ name) f s) as [s1 e1].
  destruct e1; [reflexivity|]. apply for_each_v1_backend. exact H.
Qed.

Lemma is_auth_v1_backend : forall st fuel zc loc ns auth,
  is_auth_v1 CDB st fuel zc loc ns auth = is_auth_v1 RDB1 st fuel zc loc ns auth.
Proof.
  intros st. induction fuel as [|fuel IH]; intros; [reflexivity|]. cbn [is_auth_v1].
  rewrite (for_each_v1_backend st (loc ++ zc) auth_cb (ns, auth) (nostop_okcb st _ nostop_auth)).
  destruct (if is_loc0 loc then (ns, auth, false) else for_each_v1 RDB1 st (loc ++ zc) auth_cb (ns, auth)) as [[ns1 auth1] e1].
  destruct e1; [reflexivity|].
  rewrite (for_each_v1_backend st (loc0 ++ zc) auth_cb (ns1, auth1) (nostop_okcb st _ nostop_auth)).
  destruct (if auth1 && ns1 then (ns1, auth1, false) else for_each_v1 RDB1 st (loc0 ++ zc) auth_cb (ns1, auth1)) as [[ns2 auth2] e2].
  destruct e2; [reflexivity|]. destruct ns2; [reflexivity|].
  destruct (idx zc 0) as [z0| |]; cbn [bind]; try reflexivity.
  destruct (z0 =? 0); [reflexivity|].
  destruct (slice_from zc (b8 (1 + z0))) as [zc'| |]; cbn [bind]; try reflexivity. apply IH.
Qed.

Lemma fst_for_each_v1_backend : forall {S} b b' st key (f : cb S) s,
  fst (for_each_v1 b st key f s) = fst (for_each_v1 b' st key f s).
Proof. intros. unfold for_each_v1. destruct (iter_rows f (get st key) s). reflexivity. Qed.

Lemma find_ans_v1_backend : forall st fuel q ctrl qname qtype loc wild s,
  find_ans_v1 CDB st fuel q ctrl qname qtype loc wild s = find_ans_v1 RDB1 st fuel q ctrl qname qtype loc wild s.
Proof.
  intros st. induction fuel as [|fuel IH]; intros; [reflexivity|]. cbn [find_ans_v1].
  rewrite (fst_for_each_v1_backend CDB RDB1 st (loc ++ q)).
  rewrite (fst_for_each_v1_backend CDB RDB1 st (loc0 ++ q)).
  set (s2 := fst (for_each_v1 RDB1 st (loc0 ++ q) (fa_cb qname qtype wild)
                    (if is_loc0 loc then s else fst (for_each_v1 RDB1 st (loc ++ q) (fa_cb qname qtype wild) s)))).
  destruct (snd s2); [reflexivity|]. destruct (bytes_eqb q ctrl); [reflexivity|].
  destruct (idx q 0) as [q0| |]; cbn [bind]; try reflexivity.
  destruct (q0 =? 0); [reflexivity|].
  destruct (slice q 1 (b8 (q0 + 1))) as [lab| |]; cbn [bind]; try reflexivity.
  destruct (negb (wildsafe lab)); [reflexivity|].
  destruct (slice_from q (b8 (q0 + 1))) as [q'| |]; cbn [bind]; try reflexivity. apply IH.
Qed.

Section Backends.
Variable st : store.
Hypothesis NS : forall zname cls, okcb st (ns_cb zname cls).
Let rd := reader_v1 CDB st.
Let rd' := reader_v1 RDB1 st.

Lemma additional_backend : forall recs loc qc m c, additional unit rd recs loc qc m c = additional unit rd' recs loc qc m c.
Proof.
  induction recs as [|it t IH]; intros; cbn [additional]; [reflexivity|].
  destruct (target_of it) as [name|]; [|apply IH].
  destruct (negb (has_record m name 1) || negb (has_record m name 28)); [|apply IH].
  unfold rd at 1, rd' at 1, reader_v1 at 1 2. cbn [rd_rr].
  rewrite (for_each_rr_v1_backend st (lower_bytes name) loc _ wrs_empty (nostop_okcb st _ (nostop_add _ _))).
  destruct (for_each_rr_v1 RDB1 st (lower_bytes name) loc _ wrs_empty) as [w e]. cbn [bind]. apply IH.
Qed.

Lemma serve_sections_backend : forall q ecs loc auth zc an rcode c,
  serve_sections unit rd q ecs loc auth zc an rcode c = serve_sections unit rd' q ecs loc auth zc an rcode c.
Proof.
  intros. unfold serve_sections. destruct (parse_name zc) as [[zname rest]|]; [|reflexivity].
  assert (E : (if auth && (item_count an =? 0)
       then ' (s, _, c4) <- rd_rr unit rd (bool * list item) c zc loc (soa_cb zname) (false, []);; Val (snd s, c4)
       else if negb auth && negb (has_record (mkMsg an [] []) zname 2)
            then ' (s, e, c4) <- rd_rr unit rd (list item) c zc loc (ns_cb zname (q_class q)) [];; Val (if e : bool then [] else s, c4)
            else Val ([], c)) =
      (if auth && (item_count an =? 0)
       then ' (s, _, c4) <- rd_rr unit rd' (bool * list item) c zc loc (soa_cb zname) (false, []);; Val (snd s, c4)
       else if negb auth && negb (has_record (mkMsg an [] []) zname 2)
            then ' (s, e, c4) <- rd_rr unit rd' (list item) c zc loc (ns_cb zname (q_class q)) [];; Val (if e : bool then [] else s, c4)
            else Val ([], c))).
  { unfold rd, rd', reader_v1; cbn [rd_rr].
    rewrite (for_each_rr_v1_backend st zc loc (soa_cb zname) (false, []) (nostop_okcb st _ (nostop_soa zname))).
    rewrite (for_each_rr_v1_backend st zc loc (ns_cb zname (q_class q)) [] (NS zname (q_class q))). reflexivity. }
  rewrite E. apply lift_ext. intros [nsec c4]. f_equal.
  rewrite additional_backend.
  destruct (additional unit rd' (m_an (mkMsg an nsec [])) loc (q_class q) (mkMsg an nsec []) c4) as [[m1 c5]| |];
    cbn [bind]; [apply additional_backend | reflexivity | reflexivity].
Qed.

Lemma serve_answer_backend : forall q ecs loc max packed ar c,
  serve_answer unit rd q ecs loc max packed ar c = serve_answer unit rd' q ecs loc max packed ar c.
Proof.
  intros. unfold serve_answer.
  assert (E : rd_answer unit rd c packed (a_zc ar) (q_name q) (q_type q) loc max =
              rd_answer unit rd' c packed (a_zc ar) (q_name q) (q_type q) loc max).
  { unfold rd, rd', reader_v1; cbn [rd_answer]. unfold find_answer_v1. rewrite find_ans_v1_backend. reflexivity. }
  rewrite E. apply lift_ext. intros [[an rcode] c3]. apply serve_sections_backend.
Qed.

Lemma serve_ds_backend : forall q loc packed ar c, serve_ds unit rd q loc packed ar c = serve_ds unit rd' q loc packed ar c.
Proof.
  intros. unfold serve_ds. destruct (negb (a_auth ar) && (q_type q =? 43)); [|reflexivity].
  destruct (idx packed 0) as [p0| |]; cbn [bind]; try reflexivity.
  destruct (p0 =? 0); [reflexivity|].
  destruct (slice_from packed (b8 (p0 + 1))) as [rest| |]; cbn [bind]; try reflexivity.
  unfold rd, rd', reader_v1; cbn [rd_auth]. unfold is_authoritative_v1. rewrite is_auth_v1_backend. reflexivity.
Qed.

Lemma serve_with_backend : forall q locr ecs max,
  serve_with unit rd tt q locr ecs max = serve_with unit rd' tt q locr ecs max.
Proof.
  intros. unfold serve_with. destruct locr as [| |loc]; try reflexivity.
  assert (E : rd_auth unit rd tt (lower_bytes (q_name q)) loc = rd_auth unit rd' tt (lower_bytes (q_name q)) loc).
  { unfold rd, rd', reader_v1; cbn [rd_auth]. unfold is_authoritative_v1. rewrite is_auth_v1_backend. reflexivity. }
  rewrite E.
  assert (K : forall x : authres * unit,
    (let '(ar, c1) := x in
       if a_err ar then servfail q
       else if negb (a_ns ar) && negb (a_auth ar)
            then OReply (mkResp (q_id q) (question_of q) 5 false [] [] [] (opt_of q ecs))
            else lift (serve_ds unit rd q loc (lower_bytes (q_name q)) ar c1)
                   (fun r => match r with
                             | Some (ar', c2) => serve_answer unit rd q ecs loc max (lower_bytes (q_name q)) ar' c2
                             | None => servfail q
                             end)) =
    (let '(ar, c1) := x in
       if a_err ar then servfail q
       else if negb (a_ns ar) && negb (a_auth ar)
            then OReply (mkResp (q_id q) (question_of q) 5 false [] [] [] (opt_of q ecs))
            else lift (serve_ds unit rd' q loc (lower_bytes (q_name q)) ar c1)
                   (fun r => match r with
                             | Some (ar', c2) => serve_answer unit rd' q ecs loc max (lower_bytes (q_name q)) ar' c2
                             | None => servfail q
                             end))).
  { intros [ar c1]. destruct (a_err ar); [reflexivity|].
    destruct (negb (a_ns ar) && negb (a_auth ar)); [reflexivity|].
    rewrite serve_ds_backend. apply lift_ext. intros [[ar' c2]|]; [apply serve_answer_backend | reflexivity]. }
  destruct (q_edns q) as [[|p]|]; [|reflexivity|]; apply lift_ext; exact K.
Qed.
End Backends.

(* at the level of stores: if GetNs never returns an error over the rows of the store, the CDB
   handler and the RocksDB-v1 handler agree on every query, client and option *)
Theorem serve_cdb_equals_rdb1_store : forall st q locr ecs max,
  (forall zname cls, okcb st (ns_cb zname cls)) ->
  serve CDB st q locr ecs max = serve RDB1 st q locr ecs max.
Proof. intros st q locr ecs max H. unfold serve. apply serve_with_backend. exact H. Qed.

(* over compiled records whose NS rdata is a wire name that is the case *)
Lemma okcb_ns_compiled : forall recs zname cls, wf_recs recs -> Forall wf_ns_rdata recs ->
  okcb (store_v1 recs) (ns_cb zname cls).
Proof.
  intros recs zname cls W WN key s. unfold store_v1. rewrite get_store_of, rows_for_v1.
  rewrite iter_ns_rows; [cbn; discriminate | apply Forall_filter; exact W | apply Forall_filter; exact WN].
Qed.

Theorem serve_cdb_equals_rdb1 : forall recs q locr ecs max,
  wf_recs recs -> Forall wf_ns_rdata recs ->
  serve CDB (store_v1 recs) q locr ecs max = serve RDB1 (store_v1 recs) q locr ecs max.
Proof.
  intros recs q locr ecs max W WN. apply serve_cdb_equals_rdb1_store.
  intros zname cls. apply okcb_ns_compiled; assumption.
Qed.

(* the literal claim without the guard is false: an NS record whose rdata is not a name makes GetNs
   return an error; the RocksDB handler then sends an empty authority section, the CDB handler the NS
   records collected before the bad one *)
Lemma cdb_rdb1_differ_on_bad_ns :
  exists st q locr ecs max, serve CDB st q locr ecs max <> serve RDB1 st q locr ecs max.
Proof.
  exists [([0; 0; 1; 122; 0],
           [[0; 2; 61; 0; 0; 0; 60; 0; 0; 0; 0; 0; 0; 0; 0; 1; 97; 0];
            [0; 2; 61; 0; 0; 0; 60; 0; 0; 0; 0; 0; 0; 0; 0; 200]])],
         (mkQ 1 [1; 122; 0] 1 1 None), (LocOk [0; 0]), None, 1.
  vm_compute. discriminate.
Qed.
