(* Proofs/ComposeChain: the front handlers of a listener (Model/Chain.v) over the cache-enabled database
   handler (Model/Compose.handle = Model/Cache.serve over Model/Serve.serve): the whole server.
   C20_chain_transparent + C12's invariant + C01 give C20_server_is_spec;
   C20_no_question_fails_not_panics + C13_no_panic give C20_server_never_panics. *)
From DnsV Require Import Base.Bytes Model.Store Model.LookupV1 Model.LookupV2 Model.Serve.
From DnsV Require Model.Cache Proofs.Cache Model.Chain Proofs.Chain.
From DnsV Require Import Spec.Answer Spec.KeysV2 Proofs.ZoneCut Proofs.NoPanic Proofs.NoPanicV2 Proofs.FileLevel.
From Coq Require Import Lia.
From DnsV Require Import Model.Compose Proofs.Compose.
Open Scope N_scope.

(* ------------------------------------------------------------------ where a Panic of a listener can come from *)
Lemma server_panic : forall ulen base rlen optlen serve cfg e r,
  Chain.server ulen base rlen optlen serve cfg e r = Chain.Panic ->
  exists q0 rest, Chain.mq r = q0 :: rest /\ serve (Chain.max_answer cfg) e r = Chain.Panic.
Proof.
  intros ulen base rlen optlen serve cfg e r H. unfold Chain.server in H.
  destruct (Chain.accept_action cfg r); try discriminate.
  unfold Chain.serve_mux in H. destruct (Chain.mq r) as [|q0 rest] eqn:Q; [discriminate|].
  exists q0, rest. split; [reflexivity|].
  unfold Chain.max_answer_stage, Chain.any_stage, Chain.whoami_stage, Chain.any_handler, Chain.whoami_handler in H.
  rewrite Q in H.
  destruct (Chain.refuse_any cfg); [destruct (Chain.qtype q0 =? Chain.TypeANY); [discriminate|]|];
    (destruct (Chain.whoami_domain cfg) as [d|]; [destruct (Chain.whoami_name_match d q0); [discriminate|]|]); exact H.
Qed.

(* ------------------------------------------------------------------ the state a history leaves behind *)
Definition wire_asked (a : bytes) : Prop := wire_name a = true.

(* requests as they come off the wire: 16-bit type and class, a wire-valid name *)
Definition hist_wire_names (h : list (Cache.event gen)) : Prop := hist_ok wire_asked h.

Lemma reachable_inv : forall max cfg h g0, hist_wire_names h ->
  Inv max wire_asked (fst (hfinal max cfg (g0, []) h)) (snd (hfinal max cfg (g0, []) h)).
Proof.
  intros max cfg h g0 H.
  exact (proj1 (history_written max wire_asked cfg h g0 [] (Inv_nil max wire_asked g0) H)).
Qed.

Lemma Inv_weaken : forall max (P Q : bytes -> Prop) g c, (forall a, P a -> Q a) -> Inv max P g c -> Inv max Q g c.
Proof.
  intros max P Q g c PQ H s e I. destruct (H s e I) as (k & a & A1 & A2 & A3 & A4 & A5).
  exists k, a. repeat split; auto; apply A2.
Qed.

(* ------------------------------------------------------------------ C20_server_is_spec *)
Section Server.
Variable ulen base : Chain.msg -> N.
Variable rlen : list Chain.rr -> Chain.rr -> N.
Variable optlen : Chain.rr -> N.
Variable br : bridge.
Variable ccfg : Cache.cconfig.

Theorem server_is_spec_state : forall Pa g c now cfg e r q0 rest w,
  Inv (Chain.max_answer cfg) Pa g c ->
  Chain.accepted cfg r = true -> Chain.mq r = q0 :: rest ->
  Chain.any_refused cfg q0 = false -> Chain.whoami_matched cfg q0 = false ->
  br_wire br (Chain.qname q0) = Some w -> Pa w ->
  Chain.qtype q0 < 65536 -> Chain.qclass q0 < 65536 ->
  let mx := Chain.max_answer cfg in
  let rq := Cache.mkReq (br_from br e r) w (Chain.qtype q0) (Chain.qclass q0) (msg_extra r) in
  let f := snd (fst (handle mx ccfg g c now rq)) in
  let o := snd (handle mx ccfg g c now rq) in
  whole_server ulen base rlen optlen br ccfg g c now cfg e r = br_render br e r (f (br_ecs br e r g)) /\
  entry_is_spec mx (g, rq, f, o).
Proof.
  intros Pa g c now cfg e r q0 rest w HI HA HQ HY HW HB HP HT HC mx rq f o.
  split.
  - unfold whole_server.
    rewrite (Chain.chain_transparent ulen base rlen optlen _ cfg e r q0 rest HA HQ HY HW).
    unfold db_serve, view, first_question. rewrite HQ, HB. fold rq. fold mx.
    unfold f. destruct (handle mx ccfg g c now rq) as ((c' & f') & o'). reflexivity.
  - assert (RO : req_ok Pa rq) by (unfold req_ok, rq; cbn; auto).
    destruct (handle_step mx Pa ccfg g c now rq HI RO) as (_ & W). fold f o in W.
    cbn. intros recs ecs y n D He Hn Hl Hq Hf.
    exact (written_refines mx Pa g rq f o recs W (edns_ok_badvers rq He) (declares_serves g _ recs D) ecs y n Hn Hl Hq Hf).
Qed.

(* for the state after any sequential history (started with an empty cache, all queries on listeners with
   this max answer) *)
Theorem server_is_spec : forall h g0 now cfg e r q0 rest w,
  hist_wire h ->
  Chain.accepted cfg r = true -> Chain.mq r = q0 :: rest ->
  Chain.any_refused cfg q0 = false -> Chain.whoami_matched cfg q0 = false ->
  br_wire br (Chain.qname q0) = Some w ->
  Chain.qtype q0 < 65536 -> Chain.qclass q0 < 65536 ->
  let mx := Chain.max_answer cfg in
  let g := fst (hfinal mx ccfg (g0, []) h) in
  let c := snd (hfinal mx ccfg (g0, []) h) in
  let rq := Cache.mkReq (br_from br e r) w (Chain.qtype q0) (Chain.qclass q0) (msg_extra r) in
  let f := snd (fst (handle mx ccfg g c now rq)) in
  let o := snd (handle mx ccfg g c now rq) in
  whole_server ulen base rlen optlen br ccfg g c now cfg e r = br_render br e r (f (br_ecs br e r g)) /\
  entry_is_spec mx (g, rq, f, o).
Proof.
  intros h g0 now cfg e r q0 rest w HH HA HQ HY HW HB HT HC mx g c.
  assert (HI : Inv mx (fun _ => True) g c).
  { exact (proj1 (history_written mx (fun _ => True) ccfg h g0 [] (Inv_nil mx _ g0) (hist_wire_ok h HH))). }
  exact (server_is_spec_state (fun _ => True) g c now cfg e r q0 rest w HI HA HQ HY HW HB I HT HC).
Qed.

(* ------------------------------------------------------------------ C20_server_never_panics *)
(* named hypotheses about the parts that are miekg's:
   wire_ok    : dns.PackDomainName yields an uncompressed wire name (labels 1..63, at most 255 octets)
   render_ok  : writing a message does not panic unless the handler did *)
Definition wire_ok : Prop := forall nm w, br_wire br nm = Some w -> wire_name w = true.
Definition render_ok : Prop :=
  forall e r o, br_render br e r o = Chain.Panic -> o = OPanic \/ o = OFuel.

Lemma patch_no_panic : forall o q ecs, (patch o q ecs = OPanic \/ patch o q ecs = OFuel) -> o = OPanic \/ o = OFuel.
Proof. intros o q ecs H. destruct o; cbn in H; auto. destruct H; discriminate. Qed.

Theorem server_never_panics_state : forall g c now cfg e r,
  wire_ok -> render_ok ->
  Inv (Chain.max_answer cfg) wire_asked g c ->
  (g_backend g = RDB2 -> wf_store_v2 (g_store g) = true) ->
  (forall q0 rest, Chain.mq r = q0 :: rest -> Chain.qtype q0 < 65536 /\ Chain.qclass q0 < 65536) ->
  whole_server ulen base rlen optlen br ccfg g c now cfg e r <> Chain.Panic.
Proof.
  intros g c now cfg e r WO RO HI HG HQ16 HP. unfold whole_server in HP.
  destruct (server_panic _ _ _ _ _ _ _ _ HP) as (q0 & rest & HQ & HS).
  destruct (HQ16 q0 rest HQ) as (HT & HC).
  unfold db_serve, view, first_question in HS. rewrite HQ in HS.
  set (mx := Chain.max_answer cfg) in *.
  destruct (br_wire br (Chain.qname q0)) as [w|] eqn:HB.
  - set (rq := Cache.mkReq (br_from br e r) w (Chain.qtype q0) (Chain.qclass q0) (msg_extra r)) in *.
    assert (RQ : req_ok wire_asked rq) by (unfold req_ok, rq, wire_asked; cbn; repeat split; auto; exact (WO _ _ HB)).
    destruct (handle_step mx wire_asked ccfg g c now rq HI RQ) as (_ & W).
    destruct (handle mx ccfg g c now rq) as ((c' & f) & o). cbn [fst snd] in W.
    apply RO in HS.
    destruct W as [(_ & E)|[(_ & _ & E)|(B & Lc & a & LA & PA & _ & E)]]; subst f.
    + destruct HS; discriminate.
    + destruct HS; discriminate.
    + unfold finish in HS. apply patch_no_panic in HS. unfold core in HS.
      destruct (serve_no_panic (g_backend g) (g_store g)
                  (canon a (Cache.k_qtype (Cache.key_of gen lower_bytes locate g rq))
                           (Cache.k_qclass (Cache.key_of gen lower_bytes locate g rq)))
                  (LocOk (loc_of_num (Cache.k_loc (Cache.key_of gen lower_bytes locate g rq)))) None mx) as (N1 & N2).
      * intros Hb. split; [exact (HG Hb)|reflexivity].
      * exact PA.
      * destruct HS; contradiction.
  - destruct (badvers (Cache.mkReq 0 [] 0 0 (msg_extra r))).
    + apply RO in HS. destruct HS; discriminate.
    + discriminate.
Qed.

Theorem server_never_panics : forall h g0 now cfg e r,
  wire_ok -> render_ok -> hist_wire_names h ->
  let mx := Chain.max_answer cfg in
  let g := fst (hfinal mx ccfg (g0, []) h) in
  let c := snd (hfinal mx ccfg (g0, []) h) in
  (g_backend g = RDB2 -> wf_store_v2 (g_store g) = true) ->
  (forall q0 rest, Chain.mq r = q0 :: rest -> Chain.qtype q0 < 65536 /\ Chain.qclass q0 < 65536) ->
  whole_server ulen base rlen optlen br ccfg g c now cfg e r <> Chain.Panic.
Proof.
  intros h g0 now cfg e r WO RO HH mx g c HG HQ.
  exact (server_never_panics_state g c now cfg e r WO RO (reachable_inv mx ccfg h g0 HH) HG HQ).
Qed.
End Server.
