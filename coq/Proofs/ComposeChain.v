(* Proofs/ComposeChain: the front handlers of a listener (Model/Chain.v) over the cache-enabled database
   handler (Model/Compose.handle = Model/Cache.serve over Model/Serve.serve): the whole server.
   C20_chain_transparent + C12's invariant + C01 give C20_server_is_spec;
   C20_no_question_fails_not_panics + C13_no_panic give C20_server_never_panics. *)
From DnsV Require Import Base.Bytes Model.Store Model.LookupV1 Model.LookupV2 Model.Serve.
From DnsV Require Model.Cache Proofs.Cache Model.Chain Proofs.Chain.
From DnsV Require Import Spec.Answer Spec.Rows Spec.KeysV2 Proofs.ZoneCut Proofs.NoPanic Proofs.NoPanicV2 Proofs.FileLevel.
From Coq Require Import Lia.
From DnsV Require Import Model.Compose Proofs.Compose.
Open Scope N_scope.

(* ------------------------------------------------------------------ where a Panic of a listener can come from *)
Lemma server_panic : forall ulen base rlen optlen serve cfg e r,
  Chain.server ulen base rlen optlen serve cfg e r = Chain.Panic ->
  exists q0 rest, Chain.mq r = q0 :: rest /\ serve (Chain.max_answer cfg) e r = Chain.Panic.
Proof.
  intros ulen base rlen optlen serve cfg e r H. unfold Chain.server in H.
  destruct (Chain.accept_action cfg r); try discriminate.
  unfold Chain.serve_mux in H. destruct (Chain.mq r) as [|q0 rest] eqn:Q; [discriminate|].
  exists q0, rest. split; [reflexivity|].
  unfold Chain.max_answer_stage, Chain.any_stage, Chain.whoami_stage, Chain.any_handler, Chain.whoami_handler in H.
  rewrite Q in H.
  destruct (Chain.refuse_any cfg); [destruct (Chain.qtype q0 =? Chain.TypeANY); [discriminate|]|];
    (destruct (Chain.whoami_domain cfg) as [d|]; [destruct (Chain.whoami_name_match d q0); [discriminate|]|]); exact H.
Qed.

(* ------------------------------------------------------------------ the state a history leaves behind *)
Definition wire_asked (a : bytes) (_ : N) : Prop := wire_name a = true.

(* requests as they come off the wire: 16-bit type and class, a wire-valid name (any max answer) *)
Definition hist_wire_names (h : list (Cache.event gen)) : Prop := hist_ok wire_asked h.

Lemma reachable_inv : forall Pq cfg h g0, hist_ok Pq h ->
  Inv Pq (fst (hfinal cfg (g0, []) h)) (snd (hfinal cfg (g0, []) h)).
Proof.
  intros Pq cfg h g0 H.
  exact (proj1 (history_written Pq cfg h g0 [] (Inv_nil Pq g0) H)).
Qed.

(* ------------------------------------------------------------------ C20_server_is_spec *)
Section Server.
Variable ulen base : Chain.msg -> N.
Variable rlen : list Chain.rr -> Chain.rr -> N.
Variable optlen : Chain.rr -> N.
Variable br : bridge.
Variable ccfg : Cache.cconfig.

Theorem server_is_spec_state : forall Pq g c now cfg e r q0 rest w,
  Inv Pq g c ->
  Chain.accepted cfg r = true -> Chain.mq r = q0 :: rest ->
  Chain.any_refused cfg q0 = false -> Chain.whoami_matched cfg q0 = false ->
  br_wire br (Chain.qname q0) = Some w -> Pq w (Chain.max_answer cfg) ->
  Chain.qtype q0 < 65536 -> Chain.qclass q0 < 65536 ->
  let mx := Chain.max_answer cfg in
  let rq := Cache.mkReq (br_from br e r) w (Chain.qtype q0) (Chain.qclass q0) (msg_extra r) in
  let f := snd (fst (handle mx ccfg g c now rq)) in
  let o := snd (handle mx ccfg g c now rq) in
  whole_server ulen base rlen optlen br ccfg g c now cfg e r = br_render br e r (f (br_ecs br e r g)) /\
  forall recs ecs y n,
    let L := loc_of_num (locate g rq) in
    gen_declares g L recs ->
    (req_edns rq = None \/ req_edns rq = Some 0) ->
    wf_name n -> nlen (pack n) <= 255 -> lower_bytes w = pack n ->
    f ecs = OReply y ->
    located g rq = true /\
    (exists a mx', Pq a mx' /\ refines_variant L recs n (query_of rq) ecs a mx' y) /\
    (o <> Cache.OHit -> response_refines L recs n (query_of rq) ecs mx y).
Proof.
  intros Pq g c now cfg e r q0 rest w HI HA HQ HY HW HB HP HT HC mx rq f o.
  split.
  - unfold whole_server.
    rewrite (Chain.chain_transparent ulen base rlen optlen _ cfg e r q0 rest HA HQ HY HW).
    unfold db_serve, view, first_question. rewrite HQ, HB. fold rq. fold mx.
    unfold f. destruct (handle mx ccfg g c now rq) as ((c' & f') & o'). reflexivity.
  - assert (RO : req_ok Pq mx rq) by (unfold req_ok, rq; cbn; auto).
    destruct (handle_step Pq mx ccfg g c now rq HI RO) as (_ & W). fold f o in W.
    intros recs ecs y n L D He Hn Hl Hq Hf.
    exact (written_refines Pq mx g rq f o recs W (edns_ok_badvers rq He) (declares_serves g _ recs D) ecs y n Hn Hl Hq Hf).
Qed.

(* for the state after ANY sequential history (started with an empty cache; the earlier queries may have
   arrived on listeners with other max answers: a hit then answers for the max answer of the query the
   entry was computed for) *)
Theorem server_is_spec : forall h g0 now cfg e r q0 rest w,
  hist_wire h ->
  Chain.accepted cfg r = true -> Chain.mq r = q0 :: rest ->
  Chain.any_refused cfg q0 = false -> Chain.whoami_matched cfg q0 = false ->
  br_wire br (Chain.qname q0) = Some w ->
  Chain.qtype q0 < 65536 -> Chain.qclass q0 < 65536 ->
  let mx := Chain.max_answer cfg in
  let g := fst (hfinal ccfg (g0, []) h) in
  let c := snd (hfinal ccfg (g0, []) h) in
  let rq := Cache.mkReq (br_from br e r) w (Chain.qtype q0) (Chain.qclass q0) (msg_extra r) in
  let f := snd (fst (handle mx ccfg g c now rq)) in
  let o := snd (handle mx ccfg g c now rq) in
  whole_server ulen base rlen optlen br ccfg g c now cfg e r = br_render br e r (f (br_ecs br e r g)) /\
  forall recs ecs y n,
    let L := loc_of_num (locate g rq) in
    gen_declares g L recs ->
    (req_edns rq = None \/ req_edns rq = Some 0) ->
    wf_name n -> nlen (pack n) <= 255 -> lower_bytes w = pack n ->
    f ecs = OReply y ->
    located g rq = true /\
    (exists a mx', refines_variant L recs n (query_of rq) ecs a mx' y) /\
    (o <> Cache.OHit -> response_refines L recs n (query_of rq) ecs mx y).
Proof.
  intros h g0 now cfg e r q0 rest w HH HA HQ HY HW HB HT HC mx g c rq f o.
  pose proof (reachable_inv (fun _ _ => True) ccfg h g0 (hist_wire_ok h HH)) as HI.
  destruct (server_is_spec_state (fun _ _ => True) g c now cfg e r q0 rest w HI HA HQ HY HW HB I HT HC) as (A & B).
  split; [exact A|].
  intros recs ecs y n L D He Hn Hl Hq Hf.
  destruct (B recs ecs y n D He Hn Hl Hq Hf) as (B1 & (a & mx' & _ & B2) & B3).
  split; [exact B1|]. split; [exists a, mx'; exact B2|exact B3].
Qed.

(* when all earlier queries arrived with this listener's max answer (one listener, or listeners configured
   alike): the listener's own max answer throughout *)
Theorem server_is_spec_same_max : forall h g0 now cfg e r q0 rest w,
  hist_wire h -> hist_max (Chain.max_answer cfg) h ->
  Chain.accepted cfg r = true -> Chain.mq r = q0 :: rest ->
  Chain.any_refused cfg q0 = false -> Chain.whoami_matched cfg q0 = false ->
  br_wire br (Chain.qname q0) = Some w ->
  Chain.qtype q0 < 65536 -> Chain.qclass q0 < 65536 ->
  let mx := Chain.max_answer cfg in
  let g := fst (hfinal ccfg (g0, []) h) in
  let c := snd (hfinal ccfg (g0, []) h) in
  let rq := Cache.mkReq (br_from br e r) w (Chain.qtype q0) (Chain.qclass q0) (msg_extra r) in
  let f := snd (fst (handle mx ccfg g c now rq)) in
  let o := snd (handle mx ccfg g c now rq) in
  whole_server ulen base rlen optlen br ccfg g c now cfg e r = br_render br e r (f (br_ecs br e r g)) /\
  forall recs ecs y n,
    let L := loc_of_num (locate g rq) in
    gen_declares g L recs ->
    (req_edns rq = None \/ req_edns rq = Some 0) ->
    wf_name n -> nlen (pack n) <= 255 -> lower_bytes w = pack n ->
    f ecs = OReply y ->
    located g rq = true /\
    refines_mod_case L recs n (query_of rq) ecs mx y /\
    (o <> Cache.OHit -> response_refines L recs n (query_of rq) ecs mx y).
Proof.
  intros h g0 now cfg e r q0 rest w HH HM HA HQ HY HW HB HT HC mx g c rq f o.
  pose proof (reachable_inv (fun _ m => m = mx) ccfg h g0 (hist_wire_max_ok mx h HH HM)) as HI.
  destruct (server_is_spec_state (fun _ m => m = mx) g c now cfg e r q0 rest w HI HA HQ HY HW HB eq_refl HT HC) as (A & B).
  split; [exact A|].
  intros recs ecs y n L D He Hn Hl Hq Hf.
  destruct (B recs ecs y n D He Hn Hl Hq Hf) as (B1 & (a & mx' & Em & B2) & B3).
  subst mx'. split; [exact B1|]. split; [exists a; exact B2|exact B3].
Qed.

(* ------------------------------------------------------------------ C20_server_never_panics *)
(* named hypotheses about the parts that are miekg's:
   wire_ok    : dns.PackDomainName yields an uncompressed wire name (labels 1..63, at most 255 octets)
   render_ok  : writing a message does not panic unless the handler did *)
Definition wire_ok : Prop := forall nm w, br_wire br nm = Some w -> wire_name w = true.
Definition render_ok : Prop :=
  forall e r o, br_render br e r o = Chain.Panic -> o = OPanic \/ o = OFuel.

Lemma patch_no_panic : forall o q ecs, (patch o q ecs = OPanic \/ patch o q ecs = OFuel) -> o = OPanic \/ o = OFuel.
Proof. intros o q ecs H. destruct o; cbn in H; auto. destruct H; discriminate. Qed.

Theorem server_never_panics_state : forall g c now cfg e r,
  wire_ok -> render_ok ->
  Inv wire_asked g c ->
  (g_backend g = RDB2 -> wf_store_v2 (g_store g) = true) ->
  (forall q0 rest, Chain.mq r = q0 :: rest -> Chain.qtype q0 < 65536 /\ Chain.qclass q0 < 65536) ->
  whole_server ulen base rlen optlen br ccfg g c now cfg e r <> Chain.Panic.
Proof.
  intros g c now cfg e r WO RO HI HG HQ16 HP. unfold whole_server in HP.
  destruct (server_panic _ _ _ _ _ _ _ _ HP) as (q0 & rest & HQ & HS).
  destruct (HQ16 q0 rest HQ) as (HT & HC).
  unfold db_serve, view, first_question in HS. rewrite HQ in HS.
  set (mx := Chain.max_answer cfg) in *.
  destruct (br_wire br (Chain.qname q0)) as [w|] eqn:HB.
  - set (rq := Cache.mkReq (br_from br e r) w (Chain.qtype q0) (Chain.qclass q0) (msg_extra r)) in *.
    assert (RQ : req_ok wire_asked mx rq) by (unfold req_ok, rq, wire_asked; cbn; repeat split; auto; exact (WO _ _ HB)).
    destruct (handle_step wire_asked mx ccfg g c now rq HI RQ) as (_ & W).
    destruct (handle mx ccfg g c now rq) as ((c' & f) & o). cbn [fst snd] in W.
    apply RO in HS.
    destruct W as [(_ & E)|[(_ & _ & E)|(B & Lc & a & mx' & LA & PA & _ & E)]]; subst f.
    + destruct HS; discriminate.
    + destruct HS; discriminate.
    + unfold finish in HS. apply patch_no_panic in HS. unfold core in HS.
      destruct (serve_no_panic (g_backend g) (g_store g)
                  (canon a (Cache.k_qtype (Cache.key_of gen lower_bytes locate g rq))
                           (Cache.k_qclass (Cache.key_of gen lower_bytes locate g rq)))
                  (LocOk (loc_of_num (Cache.k_loc (Cache.key_of gen lower_bytes locate g rq)))) None mx') as (N1 & N2).
      * intros Hb. split; [exact (HG Hb)|reflexivity].
      * exact PA.
      * destruct HS; contradiction.
  - destruct (badvers (Cache.mkReq 0 [] 0 0 (msg_extra r))).
    + apply RO in HS. destruct HS; discriminate.
    + discriminate.
Qed.

Theorem server_never_panics : forall h g0 now cfg e r,
  wire_ok -> render_ok -> hist_wire_names h ->
  let g := fst (hfinal ccfg (g0, []) h) in
  let c := snd (hfinal ccfg (g0, []) h) in
  (g_backend g = RDB2 -> wf_store_v2 (g_store g) = true) ->
  (forall q0 rest, Chain.mq r = q0 :: rest -> Chain.qtype q0 < 65536 /\ Chain.qclass q0 < 65536) ->
  whole_server ulen base rlen optlen br ccfg g c now cfg e r <> Chain.Panic.
Proof.
  intros h g0 now cfg e r WO RO HH g c HG HQ.
  exact (server_never_panics_state g c now cfg e r WO RO (reachable_inv wire_asked ccfg h g0 HH) HG HQ).
Qed.
End Server.
