(* SpecPerm (C01, file level): what the C01 theorems say about a list of declared records does not
   depend on the ORDER of the list: Spec/Answer.spec_response of a permuted list is the same verdict
   with permuted record lists, and the guards (wf_recs, wf_ns_rdata, wf_view) are order-independent.
   Needed because the compilers (C07) are lossless only up to the order of the rows of one key
   (parallel parser, unstable sort), while the row-level store of Spec/Rows keeps file order:
   [reorder] picks, for any store holding the declared rows of every key as a multiset, an order of
   the declared records in which that store holds them row for row. *)
From DnsV Require Import Base.Bytes Model.Store Model.LookupV1 Model.Serve Spec.Answer Spec.Rows Spec.AnswerExtra.
From DnsV Require Import Proofs.Answer Proofs.Compile Proofs.ZoneCut Proofs.Referral Proofs.SoaAuth Proofs.AnswerItems Proofs.AuthSections.
From Coq Require Import Permutation ZifyN ZifyNat ZifyBool.
Open Scope N_scope.

(* ---------------------------------------------------------------- filters and permutations *)
Lemma perm_filter : forall {A} (f : A -> bool) l l', Permutation l l' -> Permutation (filter f l) (filter f l').
Proof.
  intros A f l l' H. induction H as [|x l l' H IH|x y l|l l' l'' H1 IH1 H2 IH2]; cbn [filter].
  - constructor.
  - destruct (f x); [constructor; exact IH | exact IH].
  - destruct (f x), (f y); try apply Permutation_refl. constructor.
  - eapply Permutation_trans; eauto.
Qed.
Lemma perm_nonempty : forall {A} (l l' : list A), Permutation l l' -> nonempty l = nonempty l'.
Proof.
  intros A l l' H. destruct l as [|x t]; destruct l' as [|y t']; try reflexivity.
  - apply Permutation_nil in H. discriminate.
  - apply Permutation_sym, Permutation_nil in H. discriminate.
Qed.
Lemma perm_forallb : forall {A} (f : A -> bool) l l', Permutation l l' -> forallb f l = forallb f l'.
Proof.
  intros A f l l' H. induction H as [|x l l' H IH|x y l|l l' l'' H1 IH1 H2 IH2]; cbn [forallb].
  - reflexivity.
  - rewrite IH. reflexivity.
  - destruct (f x), (f y); reflexivity.
  - congruence.
Qed.
Lemma forallb_ext_in : forall {A} (f g : A -> bool) l, (forall x, In x l -> f x = g x) -> forallb f l = forallb g l.
Proof.
  induction l as [|x t IH]; intros H; [reflexivity|]. cbn [forallb].
  rewrite (H x (or_introl eq_refl)), IH; [reflexivity | intros y Hy; apply H; right; exact Hy].
Qed.

Lemma filter_length_le' : forall {A} (p : A -> bool) l, (length (filter p l) <= length l)%nat.
Proof. induction l as [|x t IH]; [constructor|]. cbn [filter]. destruct (p x); cbn [length]; lia. Qed.

Lemma filter_split_perm : forall {A} (f : A -> bool) l, Permutation l (filter f l ++ filter (fun x => negb (f x)) l).
Proof.
  induction l as [|x t IH]; [constructor|]. cbn [filter]. destruct (f x); cbn [negb app].
  - constructor. exact IH.
  - apply Permutation_cons_app. exact IH.
Qed.

(* ---------------------------------------------------------------- the spec is order-independent *)
Section Perm.
Variable L : bytes.
Variables recs recs' : list record.
Hypothesis P : Permutation recs recs'.

Lemma own_perm : forall n, Permutation (own_records L recs n) (own_records L recs' n).
Proof. intros. unfold own_records. apply perm_filter. exact P. Qed.
Lemma wild_perm : forall n, Permutation (wild_records L recs n) (wild_records L recs' n).
Proof. intros. unfold wild_records. apply perm_filter. exact P. Qed.
Lemma of_type_perm : forall t l l', Permutation l l' -> Permutation (of_type t l) (of_type t l').
Proof. intros. unfold of_type. apply perm_filter. assumption. Qed.

Lemma has_ns_perm : forall n, nonempty (of_type 2 (own_records L recs n)) = nonempty (of_type 2 (own_records L recs' n)).
Proof. intros. apply perm_nonempty, of_type_perm, own_perm. Qed.

Lemma zone_cut_perm : forall n, zone_cut L recs n = zone_cut L recs' n.
Proof.
  induction n as [|l p IH]; cbn [zone_cut]; rewrite has_ns_perm.
  - reflexivity.
  - rewrite IH. reflexivity.
Qed.
Lemma authoritative_perm : forall z, authoritative L recs z = authoritative L recs' z.
Proof. intros. unfold authoritative. apply perm_nonempty, of_type_perm, own_perm. Qed.
Lemma covering_perm : forall apex n, covering_wildcard L recs apex n = covering_wildcard L recs' apex n.
Proof.
  intros apex. induction n as [|l p IH]; cbn [covering_wildcard]; [reflexivity|].
  rewrite (perm_nonempty _ _ (wild_perm p)), IH. reflexivity.
Qed.
Lemma source_perm : forall apex n, Permutation (source_records L recs apex n) (source_records L recs' apex n).
Proof.
  intros. unfold source_records. rewrite (perm_nonempty _ _ (own_perm n)), covering_perm.
  destruct (nonempty (own_records L recs' n)); [apply own_perm|].
  destruct (covering_wildcard L recs' apex n); [apply wild_perm | constructor].
Qed.

Lemma wf_view_perm : wf_view L recs = wf_view L recs'.
Proof.
  unfold wf_view. rewrite (perm_forallb _ _ _ P). apply forallb_ext_in. intros r _.
  rewrite has_ns_perm. reflexivity.
Qed.

Lemma addr_records_perm : forall t ty, Permutation (addr_records L recs t ty) (addr_records L recs' t ty).
Proof. intros. unfold addr_records. apply perm_filter. exact P. Qed.

Lemma extras_sound_perm : forall qc an ns ex, extras_sound recs' L qc an ns ex -> extras_sound recs L qc an ns ex.
Proof.
  intros qc an ns ex H. induction H as [|pre i Hp IH Hi]; [constructor|]. constructor; [exact IH|].
  destruct Hi as (t & ty & cands & E1 & E2 & E3 & E4 & E5 & rs & E6 & E7).
  exists t, ty, cands. repeat (split; [assumption|]). exists rs. split; [exact E6|].
  eapply Permutation_trans; [exact E7|]. apply Permutation_sym, addr_records_perm.
Qed.

(* the statement of C01_response_is_spec about the permuted list implies the one about the list *)
Lemma response_clause_perm : forall n (q : query) ecs max (x : response),
  match spec_response L recs' n (q_type q) with
  | Refused =>
      rs_rcode x = 5 /\ rs_aa x = false /\ rs_an x = [] /\ rs_ns x = [] /\ rs_ex x = [] /\ rs_opt x = opt_of q ecs
  | Referral z nsr =>
      q_type q <> 43 ->
      rs_rcode x = 0 /\ rs_aa x = false /\ rs_an x = [] /\
      (exists ord, Permutation ord nsr /\ rs_ns x = map (ns_item (pack z) (q_class q)) ord) /\
      extras_sound recs' L (q_class q) (rs_an x) (rs_ns x) (rs_ex x) /\ rs_opt x = opt_of q ecs
  | Answer z nx ans soa =>
      rs_rcode x = (if nx then 3 else 0) /\ rs_aa x = true /\
      (exists ord, Permutation ord ans /\ rs_an x = answer_items (q_name q) max ord) /\
      (if item_count (rs_an x) =? 0 then exists r, In r soa /\ rs_ns x = [soa_item (pack z) r] else rs_ns x = []) /\
      extras_sound recs' L (q_class q) (rs_an x) (rs_ns x) (rs_ex x) /\ rs_opt x = opt_of q ecs
  end ->
  match spec_response L recs n (q_type q) with
  | Refused =>
      rs_rcode x = 5 /\ rs_aa x = false /\ rs_an x = [] /\ rs_ns x = [] /\ rs_ex x = [] /\ rs_opt x = opt_of q ecs
  | Referral z nsr =>
      q_type q <> 43 ->
      rs_rcode x = 0 /\ rs_aa x = false /\ rs_an x = [] /\
      (exists ord, Permutation ord nsr /\ rs_ns x = map (ns_item (pack z) (q_class q)) ord) /\
      extras_sound recs L (q_class q) (rs_an x) (rs_ns x) (rs_ex x) /\ rs_opt x = opt_of q ecs
  | Answer z nx ans soa =>
      rs_rcode x = (if nx then 3 else 0) /\ rs_aa x = true /\
      (exists ord, Permutation ord ans /\ rs_an x = answer_items (q_name q) max ord) /\
      (if item_count (rs_an x) =? 0 then exists r, In r soa /\ rs_ns x = [soa_item (pack z) r] else rs_ns x = []) /\
      extras_sound recs L (q_class q) (rs_an x) (rs_ns x) (rs_ex x) /\ rs_opt x = opt_of q ecs
  end.
Proof.
  intros n q ecs max x. unfold spec_response. rewrite zone_cut_perm.
  destruct (zone_cut L recs' n) as [z|]; [|exact (fun H => H)].
  rewrite authoritative_perm. destruct (authoritative L recs' z); cbn [negb].
  - (* authoritative answer *)
    rewrite (perm_nonempty _ _ (source_perm z n)).
    intros (H1 & H2 & (ord & Ho & H3) & H4 & H5 & H6).
    split; [exact H1|]. split; [exact H2|]. split.
    + exists ord. split; [|exact H3]. eapply Permutation_trans; [exact Ho|].
      apply Permutation_sym, perm_filter, source_perm.
    + split; [|split; [apply extras_sound_perm; exact H5 | exact H6]].
      destruct (item_count (rs_an x) =? 0); [|exact H4]. destruct H4 as (r & Hr & E). exists r. split; [|exact E].
      eapply Permutation_in; [|exact Hr]. apply Permutation_sym, of_type_perm, own_perm.
  - (* referral *)
    intros H Hq. destruct (H Hq) as (H1 & H2 & H3 & (ord & Ho & H4) & H5 & H6).
    split; [exact H1|]. split; [exact H2|]. split; [exact H3|]. split.
    + exists ord. split; [|exact H4]. eapply Permutation_trans; [exact Ho|]. apply Permutation_sym, of_type_perm, own_perm.
    + split; [apply extras_sound_perm; exact H5 | exact H6].
Qed.
End Perm.

Lemma wf_recs_perm : forall recs recs', Permutation recs recs' -> wf_recs recs -> wf_recs recs'.
Proof. intros recs recs' P H. unfold wf_recs in *. eapply Permutation_Forall; eauto. Qed.
Lemma wf_ns_perm : forall recs recs', Permutation recs recs' -> Forall wf_ns_rdata recs -> Forall wf_ns_rdata recs'.
Proof. intros recs recs' P H. eapply Permutation_Forall; eauto. Qed.

(* ---------------------------------------------------------------- reordering the records to the rows of a store *)
Section Reorder.
Variable key : record -> bytes.
Variable Pk : bytes -> bool.            (* the keys that matter *)

Lemma filter_key_self : forall k (l l' : list record), Permutation l l' ->
  Forall (fun r => key r = k) l -> filter (fun r => bytes_eqb (key r) k) l' = l'.
Proof.
  intros k l l' P F. assert (F' : Forall (fun r => key r = k) l') by (eapply Permutation_Forall; eauto).
  clear P F. induction F' as [|r t Hr Ht IH]; [reflexivity|]. cbn [filter]. rewrite Hr, bytes_eqb_refl, IH. reflexivity.
Qed.
Lemma filter_key_none : forall k (l : list record),
  Forall (fun r => key r <> k) l -> filter (fun r => bytes_eqb (key r) k) l = [].
Proof.
  intros k l F. induction F as [|r t Hr Ht IH]; [reflexivity|]. cbn [filter].
  apply bytes_eqb_neq in Hr. rewrite Hr. exact IH.
Qed.

Lemma reorder_len : forall n (recs : list record) (g : bytes -> list row), (length recs <= n)%nat ->
  (forall k, Pk k = true -> Permutation (g k) (map row_of (filter (fun r => bytes_eqb (key r) k) recs))) ->
  exists recs', Permutation recs recs' /\
    forall k, Pk k = true -> g k = map row_of (filter (fun r => bytes_eqb (key r) k) recs').
Proof.
  induction n as [|n IH]; intros recs g Hlen H.
  - destruct recs; [|cbn [length] in Hlen; lia]. exists []. split; [constructor|].
    intros k Hk. specialize (H k Hk). cbn in H. apply Permutation_sym, Permutation_nil in H. rewrite H. reflexivity.
  - destruct recs as [|r0 t].
    { exists []. split; [constructor|]. intros k Hk. specialize (H k Hk). cbn in H.
      apply Permutation_sym, Permutation_nil in H. rewrite H. reflexivity. }
    set (k0 := key r0).
    set (A := filter (fun r => bytes_eqb (key r) k0) (r0 :: t)).
    set (B := filter (fun r => negb (bytes_eqb (key r) k0)) (r0 :: t)).
    assert (PAB : Permutation (r0 :: t) (A ++ B)) by apply filter_split_perm.
    assert (FA : Forall (fun r => key r = k0) A).
    { apply Forall_forall. intros r Hr. apply filter_In in Hr as [_ Hr]. apply bytes_eqb_eq in Hr. exact Hr. }
    assert (FB : Forall (fun r => key r <> k0) B).
    { apply Forall_forall. intros r Hr. apply filter_In in Hr as [_ Hr]. apply negb_true_iff, bytes_eqb_neq in Hr. exact Hr. }
    assert (LB : (length B <= n)%nat).
    { unfold B. cbn [filter]. unfold k0 at 1. rewrite bytes_eqb_refl. cbn [negb].
      pose proof (filter_length_le' (fun r => negb (bytes_eqb (key r) k0)) t). cbn [length] in Hlen. lia. }
    (* the rows of k0 *)
    assert (HA : exists A', Permutation A A' /\ (Pk k0 = true -> g k0 = map row_of A')).
    { destruct (Pk k0) eqn:E.
      - specialize (H k0 E). fold A in H. apply Permutation_map_inv in H as (A' & E1 & E2).
        exists A'. split; [exact E2 | intros _; exact E1].
      - exists A. split; [apply Permutation_refl | discriminate]. }
    destruct HA as (A' & PA & GA).
    (* the other keys *)
    destruct (IH B (fun k => if bytes_eqb k k0 then [] else g k) LB) as (B' & PB & GB).
    { intros k Hk. destruct (bytes_eqb k k0) eqn:E.
      - apply bytes_eqb_eq in E. subst k. rewrite (filter_key_none k0 B FB). constructor.
      - specialize (H k Hk). eapply Permutation_trans; [exact H|]. apply Permutation_map.
        unfold B. rewrite <- filter_and.
        erewrite filter_ext_in'; [apply Permutation_refl|]. intros r _. cbn beta.
        destruct (bytes_eqb (key r) k) eqn:E2; [|rewrite Bool.andb_false_r; reflexivity].
        apply bytes_eqb_eq in E2. rewrite E2, E. reflexivity. }
    exists (A' ++ B'). split.
    + eapply Permutation_trans; [exact PAB|]. apply Permutation_app; assumption.
    + intros k Hk. rewrite filter_app, map_app. destruct (bytes_eqb k k0) eqn:E.
      * apply bytes_eqb_eq in E. subst k. rewrite (filter_key_self k0 A A' PA FA).
        rewrite (filter_key_none k0 B'); [rewrite app_nil_r; apply GA; exact Hk|].
        eapply Permutation_Forall; [exact PB | exact FB].
      * rewrite (filter_key_none k A').
        -- cbn [map app]. specialize (GB k Hk). rewrite E in GB. exact GB.
        -- eapply Permutation_Forall; [exact PA|]. eapply Forall_impl; [|exact FA].
           intros r Hr X. rewrite Hr in X. subst k. rewrite bytes_eqb_refl in E. discriminate.
Qed.

Theorem reorder : forall (recs : list record) (g : bytes -> list row),
  (forall k, Pk k = true -> Permutation (g k) (map row_of (filter (fun r => bytes_eqb (key r) k) recs))) ->
  exists recs', Permutation recs recs' /\
    forall k, Pk k = true -> g k = map row_of (filter (fun r => bytes_eqb (key r) k) recs').
Proof. intros recs g H. apply (reorder_len (length recs) recs g (le_n _) H). Qed.
End Reorder.
