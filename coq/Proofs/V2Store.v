(* V2Store (C02): the v2-keyed store a list of declared records compiles to, what the closest-key
   reader may assume of ANY v2 database holding these records ([v2_store]: every key once; keys are
   keys of names or foreign - other prefixes, or the features key, whose first byte after the marker
   no label length can equal; the rows of a name key are the declared rows), and the link to the
   v1-keyed store: the same rows under (name, location). *)
From DnsV Require Import Base.Bytes Model.Store Model.LookupV1 Model.LookupV2 Spec.Answer Spec.Rows.
From DnsV Require Import Proofs.Answer Proofs.Compile Proofs.ZoneCut Proofs.NxDomain Proofs.Store Proofs.Ctx Proofs.CtxFind.
From DnsV Require Import Proofs.Reverse Proofs.RevOrder Proofs.V2Funcs Proofs.SeekSkip.
From Coq Require Import ZifyN ZifyNat ZifyBool Permutation.
Open Scope N_scope.

Definition store_v2 (recs : list record) : store := store_of (rows_of_v2 recs).

Record v2_store (recs : list record) (st : store) : Prop := mkV2 {
  v2_uniq : uniq st;
  v2_keys : forall k v, In (k, v) st -> rr_shaped k \/ foreign k;
  v2_rows : forall y ly, name_ok y -> length ly = 2%nat ->
            get st (bkey y ly) = rows_for (bkey y ly) (rows_of_v2 recs)
}.

(* ---------------------------------------------------------------- store_of stores every key once *)
Lemma store_add_fst : forall s k v,
  map fst (store_add s k v) = if has_key s k then map fst s else map fst s ++ [k].
Proof.
  induction s as [|[k' vs] t IH]; intros k v; cbn [store_add has_key map fst app]; [reflexivity|].
  destruct (bytes_eqb k' k) eqn:E; cbn [map fst orb]; [reflexivity|].
  rewrite IH. destruct (has_key t k); reflexivity.
Qed.
Lemma has_key_in : forall (s : store) k, has_key s k = true <-> In k (map fst s).
Proof.
  induction s as [|[k' vs] t IH]; intros k; cbn [has_key map fst In]; [split; [discriminate | contradiction]|].
  rewrite Bool.orb_true_iff, IH, bytes_eqb_eq. tauto.
Qed.
Lemma store_add_nodup : forall s k v, NoDup (map fst s) -> NoDup (map fst (store_add s k v)).
Proof.
  intros s k v H. rewrite store_add_fst. destruct (has_key s k) eqn:E; [exact H|].
  assert (X : NoDup (k :: map fst s)).
  { constructor; [|exact H]. intros Hin. apply has_key_in in Hin. rewrite Hin in E. discriminate. }
  eapply Permutation.Permutation_NoDup; [|exact X].
  apply Permutation.Permutation_cons_append.
Qed.
Lemma store_of_nodup : forall kvs, NoDup (map fst (store_of kvs)).
Proof.
  intros kvs. unfold store_of.
  assert (G : forall kvs s, NoDup (map fst s) -> NoDup (map fst (fold_left (fun s kv => store_add s (fst kv) (snd kv)) kvs s))).
  { clear. induction kvs as [|[k v] t IH]; intros s H; cbn [fold_left]; [exact H|]. apply IH. apply store_add_nodup. exact H. }
  apply G. constructor.
Qed.
Lemma nodup_uniq : forall s : store, NoDup (map fst s) -> uniq s.
Proof.
  induction s as [|[k0 v0] t IH]; intros H k v Hin; [contradiction|]. cbn [map fst] in H. inversion H as [|? ? Hn Ht]; subst.
  cbn [get]. destruct (bytes_eqb k0 k) eqn:E.
  - apply bytes_eqb_eq in E. subst k0. destruct Hin as [Hin|Hin]; [inversion Hin; reflexivity|].
    exfalso. apply Hn. apply in_map_iff. exists (k, v). split; [reflexivity | exact Hin].
  - destruct Hin as [Hin|Hin]; [inversion Hin; subst; rewrite bytes_eqb_refl in E; discriminate|].
    apply IH; assumption.
Qed.
Lemma store_add_key_in : forall s k v k', In k' (map fst (store_add s k v)) -> k' = k \/ In k' (map fst s).
Proof.
  intros s k v k' H. rewrite store_add_fst in H. destruct (has_key s k); [right; exact H|].
  apply in_app_or in H as [H|[H|[]]]; [right; exact H | left; symmetry; exact H].
Qed.
Lemma store_of_key_in : forall kvs k, In k (map fst (store_of kvs)) -> In k (map fst kvs).
Proof.
  intros kvs k. unfold store_of.
  assert (G : forall kvs s, In k (map fst (fold_left (fun s kv => store_add s (fst kv) (snd kv)) kvs s)) ->
              In k (map fst s) \/ In k (map fst kvs)).
  { clear. induction kvs as [|[k0 v0] t IH]; intros s H; cbn [fold_left] in H; [left; exact H|].
    destruct (IH _ H) as [X|X]; [|right; right; exact X].
    cbn [fst snd] in X. apply store_add_key_in in X as [X|X]; [right; left; symmetry; exact X | left; exact X]. }
  intros H. destruct (G kvs [] H) as [[]|X]. exact X.
Qed.

Lemma rows_for_v2 : forall recs k,
  rows_for k (rows_of_v2 recs) = map row_of (filter (fun r => bytes_eqb (key_v2 r) k) recs).
Proof.
  induction recs as [|r t IH]; intros k; [reflexivity|].
  unfold rows_for, rows_of_v2 in *. cbn [map filter fst]. destruct (bytes_eqb (key_v2 r) k); cbn [map snd]; rewrite IH; reflexivity.
Qed.

Lemma wf_rec_owner_ok : forall r, wf_rec r -> name_ok (r_owner r) /\ length (loc_bytes r) = 2%nat.
Proof.
  intros r (_ & _ & _ & Ho & Hl). split; [apply wf_name_ok; exact Ho|].
  unfold loc_bytes. destruct (r_loc r) as [l|]; [destruct Hl as (a & b & -> & _)|]; reflexivity.
Qed.

(* the compiled v2 store is a v2 store *)
Theorem store_v2_ok : forall recs, wf_recs recs -> v2_store recs (store_v2 recs).
Proof.
  intros recs W. split.
  - apply nodup_uniq. apply store_of_nodup.
  - intros k v Hin. left.
    assert (Hk : In k (map fst (rows_of_v2 recs))).
    { apply store_of_key_in. apply in_map_iff. exists (k, v). split; [reflexivity | exact Hin]. }
    unfold rows_of_v2 in Hk. rewrite map_map in Hk. cbn [fst] in Hk. apply in_map_iff in Hk as [r [Hr Hinr]].
    unfold wf_recs in W. rewrite Forall_forall in W. destruct (wf_rec_owner_ok r (W r Hinr)) as [Ho Hl].
    exists (rev (r_owner r)), (loc_bytes r). split; [apply name_ok_rev; exact Ho|]. split; [exact Hl|].
    rewrite <- Hr. apply key_v2_bkey.
  - intros y ly _ _. unfold store_v2. apply get_store_of.
Qed.

(* ---------------------------------------------------------------- same rows under (name, location) in both layouts *)
Lemma rev_inj : forall {A} (a b : list A), rev a = rev b -> a = b.
Proof. intros A a b H. rewrite <- (rev_involutive a), <- (rev_involutive b), H. reflexivity. Qed.

Lemma key_match : forall r m loc, wf_rec r -> name_ok m -> length loc = 2%nat ->
  bytes_eqb (key_v2 r) (bkey (rev m) loc) = bytes_eqb (key_v1 r) (loc ++ pack m).
Proof.
  intros r m loc Wr Hm Hl. destruct (wf_rec_owner_ok r Wr) as [Ho Hlr].
  destruct (bytes_eqb (key_v1 r) (loc ++ pack m)) eqn:E.
  - apply bytes_eqb_eq in E. unfold key_v1 in E. apply app2_inj in E as [E1 E2]; [|exact Hlr | exact Hl].
    apply pack_inj in E2. apply bytes_eqb_eq. rewrite key_v2_bkey, E1, E2. reflexivity.
  - apply bytes_eqb_neq. intros X. rewrite key_v2_bkey in X.
    apply bkey_inj in X as [X1 X2]; [| apply name_ok_rev; exact Ho | apply name_ok_rev; exact Hm].
    apply rev_inj in X1. apply bytes_eqb_neq in E. apply E. unfold key_v1. rewrite X1, X2. reflexivity.
Qed.

Lemma filter_ext_in2 : forall {A} (f g : A -> bool) l, (forall x, In x l -> f x = g x) -> filter f l = filter g l.
Proof.
  induction l as [|x l IH]; intros H; [reflexivity|]. cbn [filter].
  rewrite (H x (or_introl eq_refl)), IH; [reflexivity | intros y Hy; apply H; right; exact Hy].
Qed.

Theorem rows_v2_v1 : forall recs st m loc, wf_recs recs -> v2_store recs st -> name_ok m -> length loc = 2%nat ->
  get st (bkey (rev m) loc) = get (store_v1 recs) (loc ++ pack m).
Proof.
  intros recs st m loc W V Hm Hl. rewrite (v2_rows recs st V _ _ (name_ok_rev m Hm) Hl).
  unfold store_v1. rewrite get_store_of, rows_for_v1, rows_for_v2. f_equal.
  apply filter_ext_in2. intros r Hin. unfold wf_recs in W. rewrite Forall_forall in W.
  apply key_match; auto.
Qed.

(* the rows of every key of the v1 store are rows of well-formed records *)
Lemma rows_wf : forall recs key, wf_recs recs ->
  exists rs, Forall wf_rec rs /\ get (store_v1 recs) key = map row_of rs.
Proof.
  intros recs key W. exists (filter (fun r => bytes_eqb (key_v1 r) key) recs). split.
  - apply Forall_filter. exact W.
  - unfold store_v1. rewrite get_store_of, rows_for_v1. reflexivity.
Qed.
