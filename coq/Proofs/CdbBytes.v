(* Proofs/CdbBytes: the flat byte image.  Layout of [serialize (write kvs)] (header entries,
   records and slots are where their recorded positions say), and what the byte-level
   readers see there. *)
From DnsV Require Import Base.Bytes Spec.Cdb Model.Cdb Proofs.CdbTable Proofs.CdbFind Proofs.Cdb.
From Coq Require Import Lia ZifyN ZifyNat ZifyBool.
Open Scope N_scope.

Local Ltac divmod := Z.div_mod_to_equations.

(* ------------------------------------------------------------------ generic *)

Definition lsum {A} (f : A -> N) (l : list A) : N := fold_right (fun x a => f x + a) 0 l.

Lemma lsum_cons {A} (f : A -> N) : forall x l, lsum f (x :: l) = f x + lsum f l.
Proof. reflexivity. Qed.

Lemma lsum_app {A} (f : A -> N) : forall l1 l2, lsum f (l1 ++ l2) = lsum f l1 + lsum f l2.
Proof. induction l1; simpl; intros; auto. rewrite IHl1. lia. Qed.

Lemma nlen_app {A} : forall l1 l2 : list A, nlen (l1 ++ l2) = nlen l1 + nlen l2.
Proof. intros. unfold nlen. rewrite app_length. lia. Qed.

Lemma nlen_concat_map {A} (f : A -> bytes) : forall l, nlen (concat (map f l)) = lsum (fun x => nlen (f x)) l.
Proof. induction l; simpl; auto. rewrite nlen_app, IHl. auto. Qed.

Lemma lsum_ext {A} (f g : A -> N) : forall l, (forall x, In x l -> f x = g x) -> lsum f l = lsum g l.
Proof. induction l; simpl; intros; auto. rewrite H, IHl; auto. Qed.

Lemma lsum_const {A} (c : N) : forall l : list A, lsum (fun _ => c) l = c * nlen l.
Proof. induction l; simpl. unfold nlen; simpl; lia. rewrite IHl. unfold nlen. simpl length. lia. Qed.

Lemma skipn_app_exact {A} : forall (a b : list A) n, n = length a -> skipn n (a ++ b) = b.
Proof. intros. subst. rewrite skipn_app, Nat.sub_diag, skipn_all. auto. Qed.

Lemma firstn_app_exact {A} : forall (a b : list A) n, n = length a -> firstn n (a ++ b) = a.
Proof. intros. subst. rewrite firstn_app, Nat.sub_diag, firstn_all. simpl. apply app_nil_r. Qed.

Lemma u32_roundtrip : forall a, a < 4294967296 ->
  ((((a / 16777216) mod 256) * 256 + (a / 65536) mod 256) * 256 + (a / 256) mod 256) * 256 + a mod 256 = a.
Proof.
  intros.
  replace 16777216 with (256 * 256 * 256) by reflexivity.
  replace 65536 with (256 * 256) by reflexivity.
  rewrite <- !N.div_div by lia.
  pose proof (N.div_mod a 256 ltac:(lia)). pose proof (N.mod_lt a 256 ltac:(lia)).
  pose proof (N.div_mod (a / 256) 256 ltac:(lia)). pose proof (N.mod_lt (a / 256) 256 ltac:(lia)).
  pose proof (N.div_mod (a / 256 / 256) 256 ltac:(lia)). pose proof (N.mod_lt (a / 256 / 256) 256 ltac:(lia)).
  assert (a / 256 / 256 / 256 < 256).
  { lia. }
  rewrite (N.mod_small (a / 256 / 256 / 256)) by auto.
  lia.
Qed.

Lemma read_nums_at : forall A a b B data pos,
  data = A ++ u32le a ++ u32le b ++ B -> pos = nlen A ->
  a < 4294967296 -> b < 4294967296 -> nlen data < 4294967296 ->
  read_nums data (nlen data) pos = Some (a, b).
Proof.
  intros A a b B data pos -> -> Ha Hb Hd.
  unfold read_nums.
  assert (Hl : nlen A + 8 <= nlen (A ++ u32le a ++ u32le b ++ B)).
  { rewrite !nlen_app. change (nlen (u32le a)) with 4. change (nlen (u32le b)) with 4. lia. }
  rewrite w32_small by lia.
  destruct (N.leb_spec (nlen A) (nlen A + 8)); try lia.
  destruct (N.leb_spec (nlen A + 8) (nlen (A ++ u32le a ++ u32le b ++ B))); try lia.
  simpl andb. cbv iota.
  rewrite skipn_app_exact by (unfold nlen; lia).
  unfold u32le. cbn [app]. rewrite !u32_roundtrip by auto. reflexivity.
Qed.

Lemma slice_at : forall A X B data pos,
  data = A ++ X ++ B -> pos = nlen A -> nlen data < 4294967296 ->
  slice data (nlen data) pos (nlen X) = Some X.
Proof.
  intros A X B data pos -> -> Hd. unfold slice.
  assert (Hl : nlen A + nlen X <= nlen (A ++ X ++ B)) by (rewrite !nlen_app; lia).
  rewrite w32_small by lia.
  destruct (N.leb_spec (nlen A) (nlen A + nlen X)); try lia.
  destruct (N.leb_spec (nlen A + nlen X) (nlen (A ++ X ++ B))); try lia.
  simpl andb. cbv iota. f_equal.
  rewrite skipn_app_exact by (unfold nlen; lia).
  apply firstn_app_exact. unfold nlen. lia.
Qed.

(* ------------------------------------------------------------------ sizes of the parts *)

Lemma ser_rec_len : forall r, nlen (ser_rec r) = 8 + nlen (fst (snd r)) + nlen (snd (snd r)).
Proof.
  intros. unfold ser_rec. rewrite !nlen_app.
  change (nlen (u32le (blen (fst (snd r))))) with 4. change (nlen (u32le (blen (snd (snd r))))) with 4. lia.
Qed.

Lemma ser_slot_len : forall s, nlen (ser_slot s) = 8.
Proof. reflexivity. Qed.

Lemma ser_table_len : forall x, nlen (ser_table x) = 8 * nlen (snd x).
Proof.
  intros. unfold ser_table. rewrite nlen_concat_map.
  rewrite (lsum_ext _ (fun _ => 8)) by auto. apply lsum_const.
Qed.

Lemma ser_header_len : forall tabs, nlen (ser_header tabs) = 8 * nlen tabs.
Proof.
  intros. unfold ser_header. rewrite nlen_concat_map.
  rewrite (lsum_ext _ (fun _ => 8)) by auto. apply lsum_const.
Qed.

(* ------------------------------------------------------------------ record positions *)

Lemma recs_split_pos : forall kvs pos l1 r l2,
  pos + data_size kvs < 4294967296 ->
  recs_from pos kvs = l1 ++ r :: l2 ->
  fst r = pos + lsum (fun x => nlen (ser_rec x)) l1 /\
  fst r + rec_size (snd r) <= pos + data_size kvs.
Proof.
  induction kvs; simpl; intros pos l1 r l2 Hb Hs.
  - destruct l1; discriminate.
  - destruct l1 as [|x l1]; simpl in Hs.
    + injection Hs as E1 E2. subst r. simpl. lia.
    + injection Hs as E1 E2. subst x.
      rewrite next_pos_small in E2 by lia.
      apply IHkvs in E2; try lia. rewrite lsum_cons. rewrite ser_rec_len. cbn [fst snd].
      unfold rec_size in *. lia.
Qed.

Lemma recs_total : forall kvs pos,
  lsum (fun x => nlen (ser_rec x)) (recs_from pos kvs) = data_size kvs.
Proof.
  induction kvs; intros; cbn [recs_from data_size]. reflexivity.
  rewrite lsum_cons, ser_rec_len, IHkvs. cbn [fst snd]. unfold rec_size. lia.
Qed.

(* ------------------------------------------------------------------ table positions *)

Definition tsize (x : N * list slot) : N := 8 * nlen (snd x).

(* every table starts where the previous one ended *)
Fixpoint chain (pos : N) (tabs : list (N * list slot)) : Prop :=
  match tabs with
  | [] => True
  | x :: rest => fst x = pos /\ chain (pos + tsize x) rest
  end.

Lemma build_tables_chain : forall ents ids pos tabs,
  build_tables ents ids pos = Ok tabs -> pos + lsum tsize tabs < 4294967296 -> chain pos tabs.
Proof.
  induction ids; cbn [build_tables]; intros pos tabs Hb Hs.
  - inversion Hb. simpl. auto.
  - destruct (filter (in_table a) ents) as [|e0 es0] eqn:Ef.
    + destruct (build_tables ents ids pos) eqn:Eb; cbn [rbind] in Hb; inversion Hb; subst.
      rewrite lsum_cons in Hs. unfold tsize at 1 in Hs. cbn [snd] in Hs. change (nlen (@nil slot)) with 0 in Hs.
      cbn [chain fst]. split; auto. unfold tsize at 1. cbn [snd]. change (nlen (@nil slot)) with 0.
      replace (pos + 8 * 0) with pos by lia. apply IHids; auto; lia.
    + destruct (build_table (e0 :: es0)) as [t1|]; try discriminate.
      destruct (build_tables ents ids (w32 (pos + 8 * nlen t1))) eqn:Eb; cbn [rbind] in Hb; inversion Hb; subst.
      rewrite lsum_cons in Hs. unfold tsize at 1 in Hs. cbn [snd] in Hs.
      rewrite w32_small in Eb by lia.
      cbn [chain fst]. split; auto. unfold tsize at 1. cbn [snd]. apply IHids; auto; lia.
Qed.

Lemma chain_split : forall l1 x l2 pos, chain pos (l1 ++ x :: l2) -> fst x = pos + lsum tsize l1.
Proof.
  induction l1; cbn [app chain]; intros x l2 pos Hc.
  - destruct Hc. simpl. lia.
  - destruct Hc as [_ Hc]. apply IHl1 in Hc. rewrite lsum_cons. lia.
Qed.

(* fill keeps the table length; every table has 2 * (its entries) slots *)
Lemma fill_length : forall es t n t', fill t n es = Some t' -> length t' = length t.
Proof.
  induction es; simpl; intros. inversion H; auto.
  destruct (probe t ((fst a / 256) mod n) (length t)); try discriminate.
  apply IHes in H. rewrite set_nth_length in H. auto.
Qed.

Lemma build_table_length : forall (es : list slot) t, 2 * nlen es < 4294967296 ->
  build_table es = Some t -> nlen t = 2 * nlen es.
Proof.
  intros es t H32 Hb. unfold build_table in Hb. rewrite w32_small in Hb by auto.
  apply fill_length in Hb. rewrite repeat_length in Hb. unfold nlen in *. lia.
Qed.

Lemma build_tables_slots : forall (ents : list slot) ids pos tabs, 2 * nlen ents < 4294967296 ->
  build_tables ents ids pos = Ok tabs ->
  lsum tsize tabs = 16 * lsum (fun i => nlen (filter (in_table i) ents)) ids.
Proof.
  intros ents ids. induction ids; cbn [build_tables]; intros pos tabs H32 Hb.
  - inversion Hb. auto.
  - rewrite lsum_cons.
    destruct (filter (in_table a) ents) as [|e0 es0] eqn:Ef.
    + destruct (build_tables ents ids pos) eqn:Eb; cbn [rbind] in Hb; inversion Hb; subst.
      rewrite lsum_cons. rewrite (IHids _ _ H32 Eb). unfold tsize. cbn [snd].
      change (nlen (@nil slot)) with 0. lia.
    + rewrite <- Ef in *.
      destruct (build_table (filter (in_table a) ents)) as [t1|] eqn:Et; try discriminate.
      destruct (build_tables ents ids (w32 (pos + 8 * nlen t1))) eqn:Eb; cbn [rbind] in Hb; inversion Hb; subst.
      rewrite lsum_cons. rewrite (IHids _ _ H32 Eb). unfold tsize at 1. cbn [snd].
      assert (Hle : 2 * nlen (filter (in_table a) ents) < 4294967296).
      { pose proof (filter_length_le (in_table a) ents). unfold nlen in *. lia. }
      rewrite (build_table_length _ _ Hle Et). lia.
Qed.

(* the 256 tables partition the entries *)
Lemma count_ids : forall c n a,
  lsum (fun i => if c =? i then 1 else 0) (map N.of_nat (seq a n)) =
  if (N.of_nat a <=? c) && (c <? N.of_nat (a + n)) then 1 else 0.
Proof.
  induction n; intros; cbn [seq map].
  - simpl. destruct (N.leb_spec (N.of_nat a) c); destruct (N.ltb_spec c (N.of_nat (a + 0))); simpl; auto; lia.
  - rewrite lsum_cons. rewrite IHn.
    destruct (N.eqb_spec c (N.of_nat a));
      destruct (N.leb_spec (N.of_nat (S a)) c); destruct (N.ltb_spec c (N.of_nat (S a + n)));
      destruct (N.leb_spec (N.of_nat a) c); destruct (N.ltb_spec c (N.of_nat (a + S n))); simpl andb; cbv iota; lia.
Qed.

Lemma partition_sum : forall ents : list slot,
  lsum (fun i => nlen (filter (in_table i) ents)) table_ids = nlen ents.
Proof.
  induction ents.
  - cbn [filter]. rewrite lsum_const. change (nlen (@nil slot)) with 0. lia.
  - assert (E : forall ids, lsum (fun i => nlen (filter (in_table i) (a :: ents))) ids =
                 lsum (fun i => if fst a mod 256 =? i then 1 else 0) ids
                 + lsum (fun i => nlen (filter (in_table i) ents)) ids).
    { induction ids. reflexivity. rewrite !lsum_cons. rewrite IHids. cbn [filter]. unfold in_table at 1.
      destruct (fst a mod 256 =? a0); unfold nlen; cbn [length]; lia. }
    rewrite E, IHents. unfold table_ids. rewrite count_ids.
    pose proof (N.mod_lt (fst a) 256 ltac:(lia)).
    destruct (N.leb_spec (N.of_nat 0) (fst a mod 256)); destruct (N.ltb_spec (fst a mod 256) (N.of_nat (0 + 256)));
      simpl andb; cbv iota; unfold nlen; cbn [length]; lia.
Qed.

(* ------------------------------------------------------------------ the image the writer produces *)

Record Layout (kvs : list (bytes * bytes)) (img : image) : Prop := {
  lay_recs : irecs img = recs_from header_size kvs;
  lay_ntabs : length (itabs img) = 256%nat;
  lay_chain : chain (header_size + data_size kvs) (itabs img);
  lay_slots : lsum tsize (itabs img) = 16 * nlen kvs;
  lay_size : nlen (serialize img) = file_size kvs
}.

Lemma write_layout : forall H kvs img, fits32 kvs -> write H kvs = Ok img -> Layout kvs img.
Proof.
  intros H kvs img Hf Hw.
  destruct (ents_facts H kvs Hf) as [Hnd [H1 [H2 H3]]].
  destruct (fits32_data kvs Hf) as [Hd Hn].
  rewrite write_unfold in Hw.
  destruct (build_tables (map (entry_of H) (recs_from header_size kvs)) table_ids (end_from header_size kvs)) as [tabs|] eqn:Eb;
    simpl in Hw; inversion Hw; subst img; clear Hw.
  assert (Hslots : lsum tsize tabs = 16 * nlen kvs).
  { rewrite (build_tables_slots _ _ _ _ H3 Eb). rewrite partition_sum.
    unfold nlen. rewrite map_length, recs_length. auto. }
  assert (Hlen : length tabs = 256%nat).
  { destruct (build_tables_spec _ H1 H2 H3 table_ids (end_from header_size kvs)) as [tabs' [Ht [Hl _]]].
    rewrite Eb in Ht. inversion Ht; subst tabs'. rewrite Hl. unfold table_ids. rewrite map_length, seq_length. auto. }
  rewrite end_from_small in Eb by exact Hd.
  constructor; simpl; auto.
  - apply (build_tables_chain _ _ _ _ Eb). rewrite Hslots. unfold fits32, file_size, header_size in *. lia.
  - unfold serialize. simpl. rewrite !nlen_app. rewrite ser_header_len.
    rewrite !nlen_concat_map. rewrite recs_total.
    rewrite (lsum_ext (fun x => nlen (ser_table x)) tsize) by (intros; apply ser_table_len).
    rewrite Hslots. unfold file_size, nlen at 1. rewrite Hlen. lia.
Qed.
