(* LinkDiffText: C08 (Proofs/Diff.v, parametric in the codec) instantiated with the CONCRETE
   text codec of Model/Text.v.

     convert_ln o v2 serial l    Codec.ConvertLn on line l under rdb.initCodec (ranger enabled,
                                 NoPrefixSets, NoRnetOutput) with Features.UseV2Keys = v2 and
                                 Codec.Serial = serial:  DecodeLn = parse_line, then Acc.update
                                 (a subnet line feeds the ranger, without a two-byte location it is
                                 an error), then MarshalMap = convert v2 true
     features v2                 Codec.Features.MarshalMap = [feature_kv v2]

   A PREPROCESSED file holds no '%' line (dnsrocks-preproc replaced them by '!' range point lines).
   For such a file the accumulator of the codec stays empty (acc_update r = Ok [] for every record of
   another type, parse_not_pct below), so what the codec emits is
   records bytes convert_ln no_accum features f, the situation of C08.

   Guard on the lines of a preprocessed file (decidable, on the TEXT):
     pre_lineb l    the type character is not '%', parse_line accepts the line, and every value
                    the line compiles to is shorter than 2^32 bytes (the multi-value framing of C15
                    has a four-byte length; Proofs/Batch.kvs_ok)
   Every line with wf_lineb (Model/Text.v) of another type than '%' and with small values passes
   (wf_pre_line); wf_recordb itself is not needed for C08.
   For the link to the compiler's view of a text file (Model/Preproc.compile: TrimLeft, lines
   shorter than 2 bytes and comments skipped) the lines must in addition be as the scanner of
   parse() hands them on: scanned_lineb (two bytes or more, no leading space; a comment line is not
   accepted by parse_line anyway).

   Failure of a diff line is characterised on the text: parse_error / convert_error below are the
   error of DecodeLn / ConvertLn computed from the sub-parsers (getloc, parse_net, svcb_params) and
   the type character alone; they do not depend on the serial. *)
From DnsV Require Import Model.Diff Spec.MapOfLists Proofs.MultiValue Proofs.Batch Proofs.CompilePipe Proofs.Diff.
From DnsV Require Import Model.Text Model.Preproc.
From DnsV Require Proofs.Text.
From Coq Require Import Permutation ZifyN ZifyNat ZifyBool.
Open Scope N_scope.

(* ---------------------------------------------------------------- the concrete codec *)
Definition convert_ln (o : toracles) (v2 : bool) (serial : N) (l : bytes) : result (list (bytes * bytes)) :=
  rbind (parse_line o serial l) (fun r => rbind (acc_update r) (fun _ => Ok (convert v2 true r))).

Definition features (v2 : bool) : list (bytes * bytes) := [feature_kv v2].

Definition small_valuesb (l : list (bytes * bytes)) : bool :=
  forallb (fun p => nlen (snd p) <? 4294967296) l.

Definition pre_lineb (o : toracles) (v2 : bool) (serial : N) (l : bytes) : bool :=
  negb (nth 0 l 0 =? 37) &&
  match parse_line o serial l with Ok r => small_valuesb (convert v2 true r) | Err _ => false end.
Definition pre_file (o : toracles) (v2 : bool) (serial : N) (f : list bytes) : Prop :=
  forallb (pre_lineb o v2 serial) f = true.

Definition scanned_lineb (l : bytes) : bool := (2 <=? length l)%nat && negb (nth 0 l 0 =? 32).

(* ---------------------------------------------------------------- shapes of parse_line *)
Ltac open_parse P :=
  repeat match type of P with
  | (if ?c then _ else _) = Ok _ => let E := fresh "Et" in destruct c eqn:E
  | (let '(_, _) := ?x in _) = Ok _ => destruct x
  | rbind ?x _ = Ok _ => let E := fresh "Er" in destruct x eqn:E; cbn [rbind] in P; [|discriminate P]
  | Ok (if ?c then _ else _) = Ok _ => destruct c
  end.

(* only a '%' line yields a subnet record; every other record leaves the accumulator alone *)
Lemma parse_not_pct : forall o serial l r, parse_line o serial l = Ok r -> nth 0 l 0 <> 37 ->
  acc_update r = Ok [].
Proof.
  intros o serial l r P H. unfold parse_line in P. destruct l as [|t b]; [discriminate P|].
  cbn [nth] in H. set (f := fields (t :: b)) in *. clearbody f.
  destruct (N.eqb_spec t 37) as [->|_]; [contradiction|].
  open_parse P; try discriminate P; inversion P; subst r; reflexivity.
Qed.

Lemma negb_eqb_neq : forall a b : N, negb (a =? b) = true -> a <> b.
Proof. intros a b H. destruct (N.eqb_spec a b); [discriminate H | assumption]. Qed.

Lemma parse_pct_shape : forall o serial l r, parse_line o serial l = Ok r -> nth 0 l 0 = 37 ->
  exists lo ip ones lmap, r = RNet lo ip ones lmap /\ getloc (fld (fields l) 0) = Ok lo.
Proof.
  intros o serial l r P H. unfold parse_line in P. destruct l as [|t b]; [discriminate P|].
  cbn [nth] in H. subst t. cbn [N.eqb Pos.eqb] in P.
  destruct (getloc (fld (fields (37 :: b)) 0)) as [lo|] eqn:G; [|discriminate P]. cbn [rbind] in P.
  destruct (parse_net o (fld (fields (37 :: b)) 1)) as [n|]; [|discriminate P]. cbn [rbind] in P.
  inversion P; subst r. do 4 eexists. split; reflexivity.
Qed.

(* ---------------------------------------------------------------- when a line fails to convert *)
(* the field that holds the location, by type character (M and 8 have none) *)
Definition loc_index (t : N) : option nat :=
  if t =? 37 then Some 0%nat else if t =? 90 then Some 10%nat
  else if (t =? 46) || (t =? 38) then Some 5%nat
  else if (t =? 43) || (t =? 61) || (t =? 67) || (t =? 94) || (t =? 39) then Some 4%nat
  else if t =? 64 then Some 6%nat else if t =? 83 then Some 8%nat
  else if t =? 58 then Some 5%nat
  else if (t =? 33) || (t =? 66) || (t =? 72) then Some 3%nat
  else None.

Definition res_err {A} (r : result A) : option N := match r with Ok _ => None | Err e => Some e end.

(* the error of Codec.DecodeLn before Acc.update: empty line (the slice expression of decodeRtype
   panics), unknown type character (ErrBadRType), a location field that does not unquote, and then
   - '%' - a network that does not parse, - B/H - a parameter list FromText rejects *)
Definition parse_error (o : toracles) (l : bytes) : option N :=
  match l with
  | [] => Some Model.Text.E_PANIC
  | t :: _ =>
    if negb (modelled_type t) then Some E_BADTYPE
    else match loc_index t with
         | None => None
         | Some i =>
           match getloc (fld (fields l) i) with
           | Err e => Some e
           | Ok _ =>
             if t =? 37 then res_err (parse_net o (fld (fields l) 1))
             else if (t =? 66) || (t =? 72) then res_err (svcb_params o (fld (fields l) 5))
             else None
           end
         end
  end.

Lemma parse_error_spec : forall o serial l,
  match parse_line o serial l with Ok _ => parse_error o l = None | Err e => parse_error o l = Some e end.
Proof.
  intros o serial l. destruct l as [|t b]; [reflexivity|].
  destruct (modelled_type t) eqn:M.
  2:{ rewrite (Proofs.Text.unknown_type_rejected o serial t b M). unfold parse_error. rewrite M. reflexivity. }
  unfold parse_error. rewrite M. cbn [negb].
  unfold modelled_type in M. cbn [existsb] in M. unfold parse_line, loc_index.
  set (f := fields (t :: b)) in *. clearbody f.
  repeat match goal with
  | |- context [t =? ?c] => let E := fresh "E" in destruct (N.eqb_spec t c) as [E|E]; [subst t|]; cbn [orb andb negb N.eqb Pos.eqb]
  end;
  repeat match goal with
  | |- context [getloc ?x] => destruct (getloc x); cbn [rbind res_err]
  | |- context [parse_net ?oo ?x] => destruct (parse_net oo x); cbn [rbind res_err]
  | |- context [svcb_params ?oo ?x] => destruct (svcb_params oo x); cbn [rbind res_err]
  | |- context [getdom ?x] => destruct (getdom x)
  end; try reflexivity.
  exfalso. repeat (apply orb_false_iff in M; destruct M as [? M]); lia.
Qed.

Lemma parse_err_iff : forall o serial l e, parse_line o serial l = Err e <-> parse_error o l = Some e.
Proof.
  intros o serial l e. pose proof (parse_error_spec o serial l) as H.
  destruct (parse_line o serial l) as [r|e']; rewrite H; split; intro X; try discriminate X; inversion X; reflexivity.
Qed.

Lemma parse_ok_iff : forall o serial l, (exists r, parse_line o serial l = Ok r) <-> parse_error o l = None.
Proof.
  intros o serial l. pose proof (parse_error_spec o serial l) as H.
  destruct (parse_line o serial l) as [r|e']; rewrite H; split; intro X; eauto; try discriminate X.
  destruct X as [r X]; discriminate X.
Qed.

(* the error of Codec.ConvertLn: that of DecodeLn, or - '%' - a location that is not two bytes long
   (Rearranger.AddLocation: E_LOC); MarshalMap itself does not fail *)
Definition convert_error (o : toracles) (l : bytes) : option N :=
  match parse_error o l with
  | Some e => Some e
  | None =>
    if nth 0 l 0 =? 37 then
      match getloc (fld (fields l) 0) with
      | Ok lo => if (length lo =? 2)%nat then None else Some E_LOC
      | Err e => Some e
      end
    else None
  end.

Lemma convert_error_spec : forall o v2 serial l,
  match convert_ln o v2 serial l with
  | Ok x => convert_error o l = None /\ exists r, parse_line o serial l = Ok r /\ x = convert v2 true r
  | Err e => convert_error o l = Some e
  end.
Proof.
  intros o v2 serial l. unfold convert_ln, convert_error.
  pose proof (parse_error_spec o serial l) as H.
  destruct (parse_line o serial l) as [r|e] eqn:P; rewrite H; cbn [rbind]; [|reflexivity].
  destruct (N.eqb_spec (nth 0 l 0) 37) as [E|E].
  - destruct (parse_pct_shape o serial l r P E) as (lo & ip & ones & lmap & -> & G). rewrite G.
    cbn [acc_update]. destruct (length lo =? 2)%nat; cbn [rbind]; [|reflexivity].
    split; [reflexivity|]. eexists. split; reflexivity.
  - rewrite (parse_not_pct o serial l r P E). cbn [rbind]. split; [reflexivity|]. eexists. split; reflexivity.
Qed.

Lemma convert_err_iff : forall o v2 serial l e, convert_ln o v2 serial l = Err e <-> convert_error o l = Some e.
Proof.
  intros o v2 serial l e. pose proof (convert_error_spec o v2 serial l) as H.
  destruct (convert_ln o v2 serial l) as [x|e'].
  - destruct H as [H _]. rewrite H. split; intro X; discriminate X.
  - rewrite H. split; intro X; inversion X; reflexivity.
Qed.

Lemma convert_ok_iff : forall o v2 serial l, (exists x, convert_ln o v2 serial l = Ok x) <-> convert_error o l = None.
Proof.
  intros o v2 serial l. pose proof (convert_error_spec o v2 serial l) as H.
  destruct (convert_ln o v2 serial l) as [x|e'].
  - destruct H as [H _]. rewrite H. split; eauto.
  - rewrite H. split; intro X; [destruct X as [x X]|]; discriminate X.
Qed.

(* a diff line ApplyDiff gets through, on the text: empty, a comment, or '+' / '-' followed by a
   line ConvertLn accepts *)
Definition diff_line_okb (o : toracles) (l : bytes) : bool :=
  match l with
  | [] => true
  | c :: arg => (c =? 35) || (((c =? 43) || (c =? 45)) && match convert_error o arg with None => true | Some _ => false end)
  end.

Lemma diff_line_ok_iff : forall o v2 serial l,
  Proofs.Diff.line_ok (convert_ln o v2 serial) l <-> diff_line_okb o l = true.
Proof.
  intros o v2 serial l. destruct l as [|c arg]; [cbn; tauto|]. cbn [Proofs.Diff.line_ok diff_line_okb].
  rewrite (convert_ok_iff o v2 serial arg).
  destruct (convert_error o arg) as [e|]; split; intro H.
  - destruct H as [H|[_ H]]; [subst c; reflexivity | discriminate H].
  - rewrite andb_false_r, orb_false_r in H. left. lia.
  - destruct H as [H|[[H|H] _]]; subst c; reflexivity.
  - rewrite andb_true_r in H. destruct (N.eqb_spec c 35); [left; assumption|]. right. split; [lia | reflexivity].
Qed.

Lemma diff_lines_ok_iff : forall o v2 serial d,
  Forall (Proofs.Diff.line_ok (convert_ln o v2 serial)) d <-> forallb (diff_line_okb o) d = true.
Proof.
  intros o v2 serial d. rewrite forallb_forall, Forall_forall. split; intros H l I.
  - apply (diff_line_ok_iff o v2 serial). apply H. exact I.
  - apply (diff_line_ok_iff o v2 serial). apply H. exact I.
Qed.

(* ---------------------------------------------------------------- the codec hypotheses of C08, discharged *)
Section Codec.
Variable o : toracles.
Variable v2 : bool.
Variable serial : N.

Local Notation conv := (convert_ln o v2 serial).
Local Notation feat := (features v2).

Lemma pre_line_conv : forall l, pre_lineb o v2 serial l = true ->
  exists r, parse_line o serial l = Ok r /\ conv l = Ok (convert v2 true r) /\ kvs_ok (convert v2 true r).
Proof.
  intros l H. unfold pre_lineb in H. apply andb_true_iff in H as [H1 H2].
  destruct (parse_line o serial l) as [r|] eqn:P; [|discriminate H2]. exists r. split; [reflexivity|]. split.
  - unfold convert_ln. rewrite P. cbn [rbind]. rewrite (parse_not_pct o serial l r P) by (apply negb_eqb_neq; exact H1). reflexivity.
  - unfold kvs_ok, okv. apply Forall_forall. intros p Hp. unfold small_valuesb in H2.
    rewrite forallb_forall in H2. specialize (H2 p Hp). cbn beta in H2. apply N.ltb_lt in H2. exact H2.
Qed.

Lemma pre_file_accepted : forall f, pre_file o v2 serial f -> accepted bytes conv f = true.
Proof.
  intros f H. unfold pre_file in H. unfold accepted. rewrite forallb_forall in *. intros l Hl.
  destruct (pre_line_conv l (H l Hl)) as (r & _ & C & _). unfold accepts. rewrite C. reflexivity.
Qed.

Lemma recs_of_pre : forall l, pre_lineb o v2 serial l = true -> kvs_ok (recs_of bytes conv l).
Proof. intros l H. destruct (pre_line_conv l H) as (r & _ & C & K). unfold recs_of. rewrite C. exact K. Qed.

Lemma feature_okv : kvs_ok feat.
Proof. unfold kvs_ok, features, feature_kv, okv. constructor; [|constructor]. cbn. destruct v2; reflexivity. Qed.

Lemma pre_file_kvs_ok : forall f, pre_file o v2 serial f -> kvs_ok (records bytes conv no_accum feat f).
Proof.
  intros f H. unfold records, no_accum. cbn [app]. unfold kvs_ok. apply Forall_app. split; [|apply feature_okv].
  unfold pre_file in H. rewrite forallb_forall in H.
  induction f as [|l t IH]; [constructor|]. cbn [flat_map]. apply Forall_app. split.
  - apply recs_of_pre. apply H. left. reflexivity.
  - apply IH. intros x Hx. apply H. right. exact Hx.
Qed.

Lemma feat_nonempty : feat <> [].
Proof. discriminate. Qed.

(* what the codec emits for a preprocessed file, spelled out with parse_line and convert *)
Definition text_records (f : list bytes) : list (bytes * bytes) :=
  flat_map (fun l => match parse_line o serial l with Ok r => convert v2 true r | Err _ => [] end) f ++ feat.

Lemma records_text : forall f, pre_file o v2 serial f -> records bytes conv no_accum feat f = text_records f.
Proof.
  intros f H. unfold records, no_accum, text_records. cbn [app]. f_equal.
  unfold pre_file in H. rewrite forallb_forall in H.
  induction f as [|l t IH]; [reflexivity|]. cbn [flat_map]. rewrite IH by (intros x Hx; apply H; right; exact Hx).
  f_equal. destruct (pre_line_conv l (H l (or_introl eq_refl))) as (r & P & C & _).
  unfold recs_of. rewrite C, P. reflexivity.
Qed.

(* the compiler's view of the text (Model/Preproc.compile: TrimLeft, short lines and comments skipped,
   ConvertLn, then the rearranger's points, then the feature record) of a preprocessed file is the
   record list of C07 / C08 with an empty accumulator - for any rearranger that makes nothing of nothing *)
Lemma trim_scanned : forall l, scanned_lineb l = true -> trim_spaces l = l /\ (2 <= length l)%nat.
Proof.
  intros l H. unfold scanned_lineb in H. apply andb_true_iff in H as [H1 H2]. split; [|lia].
  destruct l as [|c t]; [reflexivity|]. cbn [nth] in H2. cbn [trim_spaces].
  destruct (N.eqb_spec c 32); [discriminate H2 | reflexivity].
Qed.

Lemma compile_line_pre : forall l, pre_lineb o v2 serial l = true -> scanned_lineb l = true ->
  compile_line o v2 serial l = Ok (recs_of bytes conv l, []).
Proof.
  intros l H S. destruct (pre_line_conv l H) as (r & P & C & _). destruct (trim_scanned l S) as [T L].
  unfold compile_line. rewrite T.
  assert (Sk : compile_skips l = false).
  { unfold compile_skips. destruct (Nat.ltb_spec (length l) 2); [lia|]. cbn [orb].
    destruct (N.eqb_spec (nth 0 l 0) 35) as [E|]; [|reflexivity]. exfalso.
    destruct l as [|c t]; [cbn in L; lia|]. cbn [nth] in E. subst c.
    rewrite (Proofs.Text.unknown_type_rejected o serial 35 t eq_refl) in P. discriminate P. }
  rewrite Sk, P. cbn [rbind]. unfold pre_lineb in H. apply andb_true_iff in H as [H1 _].
  rewrite (parse_not_pct o serial l r P) by (apply negb_eqb_neq; exact H1). cbn [rbind]. unfold recs_of. rewrite C. reflexivity.
Qed.

Lemma compile_go_pre : forall f, pre_file o v2 serial f -> forallb scanned_lineb f = true ->
  compile_go o v2 serial f = Ok (flat_map (recs_of bytes conv) f, []).
Proof.
  induction f as [|l t IH]; intros H S; [reflexivity|]. unfold pre_file in H. cbn [forallb] in H, S.
  apply andb_true_iff in H as [H1 H2]. apply andb_true_iff in S as [S1 S2].
  cbn [compile_go flat_map]. rewrite (compile_line_pre l H1 S1). cbn [rbind]. rewrite (IH H2 S2). reflexivity.
Qed.

Lemma text_compile_pre : forall rearrange f, rearrange [] = [] ->
  pre_file o v2 serial f -> forallb scanned_lineb f = true ->
  Model.Preproc.compile o rearrange v2 serial f = Ok (records bytes conv no_accum feat f).
Proof.
  intros rearrange f R H S. unfold Model.Preproc.compile. rewrite (compile_go_pre f H S). cbn [rbind fst snd].
  rewrite R. reflexivity.
Qed.

(* ---------------------------------------------------------------- C08 on text *)
Section WithSort.
Variable sort : list (bytes * bytes) -> list (bytes * bytes).
Hypothesis HS : sort_ok sort.

(* the diff of two preprocessed files, in any order, applied to a compilation of the first is a
   compilation of the second: under every key the multiset of values the text of B compiles to *)
Theorem diff_is_recompile_text : forall A B d dbA,
  pre_file o v2 serial A -> pre_file o v2 serial B -> is_line_diff A B d ->
  compiled conv feat A dbA ->
  exists db', apply_diff conv sort dbA d = Ok db' /\ compiled conv feat B db' /\
    (forall k, Permutation (vals db' k) (vals_of k (text_records B))) /\
    (forall dbB, rdb_compilation bytes conv no_accum feat B dbB -> forall k, Permutation (vals db' k) (vals dbB k)).
Proof.
  intros A B d dbA HA HB D CA.
  destruct (diff_is_recompile conv feat sort HS A B d dbA (pre_file_accepted A HA) (pre_file_accepted B HB)
              (pre_file_kvs_ok B HB) D CA) as (db' & E & CB).
  exists db'. split; [exact E|]. split; [exact CB|]. split.
  - intro k. rewrite <- (records_text B HB). apply CB.
  - intros dbB C k. destruct (compiled_by_rdb conv feat B dbB feat_nonempty (pre_file_kvs_ok B HB) C) as [_ VB].
    eapply Permutation_trans; [apply CB | apply Permutation_sym; apply VB].
Qed.

(* every C07 compilation of a preprocessed file (builder or batches, any setting and schedule) is such a
   database *)
Theorem compilers_compile_text : forall f db, pre_file o v2 serial f ->
  rdb_compilation bytes conv no_accum feat f db -> compiled conv feat f db.
Proof. intros f db H C. exact (compiled_by_rdb conv feat f db feat_nonempty (pre_file_kvs_ok f H) C). Qed.

(* chains of diffs between preprocessed files *)
Fixpoint chain_pre (A : list bytes) (steps : list (list bytes * list bytes)) : Prop :=
  match steps with
  | [] => True
  | (d, B) :: r => pre_file o v2 serial B /\ is_line_diff A B d /\ chain_pre B r
  end.

Lemma chain_pre_ok : forall steps A, chain_pre A steps -> chain_ok conv feat A steps.
Proof.
  induction steps as [|[d B] r IH]; intros A H; [exact I|]. destruct H as (HB & D & R). cbn [chain_ok].
  split; [apply pre_file_accepted; exact HB|]. split; [apply pre_file_kvs_ok; exact HB|]. split; [exact D | apply IH; exact R].
Qed.

Theorem diff_chain_text : forall steps A db, pre_file o v2 serial A -> compiled conv feat A db -> chain_pre A steps ->
  exists db', apply_chain conv sort db (map fst steps) = Ok db' /\ compiled conv feat (final_file A steps) db'.
Proof.
  intros steps A db HA CA H.
  exact (diff_chain conv feat sort HS steps A db (pre_file_accepted A HA) CA (chain_pre_ok steps A H)).
Qed.

(* the values a diff adds are small when every '+' line compiles to small values *)
Definition plus_smallb (l : bytes) : bool :=
  match l with
  | c :: arg => if c =? 43 then match parse_line o serial arg with Ok r => small_valuesb (convert v2 true r) | Err _ => true end
                else true
  | [] => true
  end.

Lemma adds_small : forall d, forallb plus_smallb d = true -> kvs_ok (adds_of conv d).
Proof.
  intros d H. rewrite forallb_forall in H. unfold adds_of, kvs_ok.
  induction d as [|l t IH]; [constructor|]. cbn [flat_map]. apply Forall_app. split.
  2:{ apply IH. intros x Hx. apply H. right. exact Hx. }
  specialize (H l (or_introl eq_refl)). destruct l as [|c arg]; [constructor|]. cbn [plus_smallb] in H.
  destruct (c =? 43); [|constructor]. unfold recs_of.
  pose proof (convert_error_spec o v2 serial arg) as Sp. destruct (conv arg) as [x|]; [|constructor].
  destruct Sp as (_ & r & P & ->). rewrite P in H. unfold small_valuesb in H. rewrite forallb_forall in H.
  apply Forall_forall. intros p Hp. specialize (H p Hp). cbn beta in H. apply N.ltb_lt in H. exact H.
Qed.

(* a failing diff leaves the database as it was, and it fails either at a line that is malformed on the
   text (bad operator, or an argument ConvertLn rejects: convert_error) or because some key would lose a
   value it does not hold *)
Theorem all_or_nothing_text : forall db d e, store_ok db -> forallb plus_smallb d = true ->
  apply_diff conv sort db d = Err e ->
  fst (apply_diff_effect conv sort db d) = db /\
  (((e = E_CONV \/ e = E_BADOP) /\ exists l, In l d /\ diff_line_okb o l = false) \/
   (forallb (diff_line_okb o) d = true /\ e = E_NXVAL /\
    exists k, ~ msub (vals_of k (dels_of conv d)) (vals db k ++ vals_of k (adds_of conv d)))).
Proof.
  intros db d e S W H.
  destruct (all_or_nothing conv sort HS db d e S (fun _ => adds_small d W) H) as [U [[Ee (l & I & N)]|(F & Ee & X)]].
  - split; [exact U|]. left. split; [exact Ee|]. exists l. split; [exact I|].
    destruct (diff_line_okb o l) eqn:B; [|reflexivity]. exfalso. apply N. apply (diff_line_ok_iff o v2 serial). exact B.
  - split; [exact U|]. right. split; [apply (diff_lines_ok_iff o v2 serial); exact F|]. split; assumption.
Qed.

(* conversely a line that is malformed on the text fails the whole diff *)
Theorem bad_line_fails_text : forall db d, (exists l, In l d /\ diff_line_okb o l = false) ->
  exists e, apply_diff conv sort db d = Err e.
Proof.
  intros db d (l & I & B). apply bad_line_fails. exists l. split; [exact I|]. intro N.
  apply (diff_line_ok_iff o v2 serial) in N. congruence.
Qed.
End WithSort.
End Codec.

(* a line that passes Text.v's wf_lineb, is not a subnet line and compiles to small values is a line of a
   preprocessed file *)
Lemma wf_pre_line : forall o v2 serial l, wf_lineb o serial l = true -> nth 0 l 0 <> 37 ->
  (forall r, parse_line o serial l = Ok r -> small_valuesb (convert v2 true r) = true) ->
  pre_lineb o v2 serial l = true.
Proof.
  intros o v2 serial l W H S. unfold pre_lineb. unfold wf_lineb in W.
  destruct (parse_line o serial l) as [r|]; [|discriminate W]. rewrite (S r eq_refl).
  destruct (N.eqb_spec (nth 0 l 0) 37); [contradiction | reflexivity].
Qed.
