(* Proofs/Counters: per-query counter/log discipline of the handler model. *)
From Coq Require Import Permutation.
From DnsV Require Import Base.Bytes Model.Counters Proofs.CounterMap.
Open Scope N_scope.

(* ---------- counting *)
Fixpoint cnt (k : ckey) (l : list ckey) : nat :=
  match l with
  | [] => O
  | x :: l' => ((if key_eqb k x then 1 else 0) + cnt k l')%nat
  end.

Definition b2n (b : bool) : nat := if b then 1%nat else 0%nat.

Definition nlog (c : logcall) (l : list logcall) : nat :=
  length (filter (fun x => match c, x with
                           | LogSent, LogSent | LogRequest, LogRequest | LogFailedReq, LogFailedReq => true
                           | _, _ => false end) l).

(* the composed response that was really sent, if any *)
Definition sent (o : outcome) : option (N * bool * N) :=
  match o_writes o with
  | [WrComposed rc aa n true] => Some (rc, aa, n)
  | _ => None
  end.

Definition located (q : qclass) : bool :=
  q_reader_ok q && q_edns_ok q && q_pack_ok q &&
  match q_loc q with LocOk _ _ _ => true | _ => false end.

Lemma loc_counter_cases : forall m a b,
  loc_counter m a b = KLocEcs \/ loc_counter m a b = KLocEmpty \/ loc_counter m a b = KLocDefault \/
  loc_counter m a b = KLocFallback \/ loc_counter m a b = KLocResolver.
Proof.
  intros m a b. unfold loc_counter.
  destruct (0 <? m); [tauto|].
  destruct ((a =? 0) && (b =? 0)); [tauto|].
  destruct ((a =? 0) && (b =? 1)); [tauto|].
  destruct ((a =? 0) && (b =? 2)); tauto.
Qed.

(* case analysis along the control flow: reduce, split on the outermost test, repeat.
   Nothing is unfolded eagerly, so the term never duplicates its branches. *)
Ltac split_cond b :=
  first [ is_var b; destruct b
        | match b with
          | negb ?x => is_var x; destruct x
          | negb ?x && _ => is_var x; destruct x
          | ?x && _ => is_var x; destruct x
          end
        | let E := fresh "E" in destruct b eqn:E ].
Ltac split_one :=
  match goal with
  | |- context [if ?b then _ else _] =>
      lazymatch b with
      | context [if _ then _ else _] => fail
      | _ => split_cond b
      end
  end.
Ltac split_ifs :=
  repeat (cbn; unfold write_and_log, serve_lookup; cbn; rewrite ?N.eqb_refl; split_one);
  cbn; unfold write_and_log, serve_lookup; cbn; rewrite ?N.eqb_refl.

Ltac open_serve q :=
  destruct q as [rok dobit qt eok pok loc con cst iaerr ns auth dserr dsauth nf rf uok sa werr];
  unfold located, sent, serve;
  cbn [q_reader_ok q_do q_qtype q_edns_ok q_pack_ok q_loc q_cache_on q_cache q_isauth_err q_ns q_auth
       q_ds_err q_ds_auth q_nfound q_record_found q_unpack_ok q_sent_answers q_write_err];
  destruct loc as [| |mask id0 id1];
  [ | | let Hl := fresh "Hl" in
        destruct (loc_counter_cases mask id0 id1) as [Hl|[Hl|[Hl|[Hl|Hl]]]]; rewrite Hl; clear Hl ];
  destruct cst as [hrc haa| |].

(* DNS_queries exactly once, always *)
Lemma serve_queries_once : forall q, cnt KQueries (o_incs (serve q)) = 1%nat.
Proof.
  intros q. open_serve q; split_ifs; reflexivity.
Qed.

(* the type counter of the question, exactly once iff a reader was acquired *)
Lemma serve_type_once : forall q,
  cnt (KType (q_qtype q)) (o_incs (serve q)) = b2n (q_reader_ok q).
Proof.
  intros q. open_serve q; split_ifs; cbn; rewrite ?N.eqb_refl; reflexivity.
Qed.

Lemma serve_type_other : forall q t, t <> q_qtype q -> cnt (KType t) (o_incs (serve q)) = 0%nat.
Proof.
  intros q t Ht. open_serve q; cbn [q_qtype] in Ht; apply N.eqb_neq in Ht;
    split_ifs; cbn; rewrite ?Ht; try reflexivity; try discriminate.
Qed.

(* never twice: no counter is incremented more than once per query *)
Fixpoint memb (k : ckey) (l : list ckey) : bool :=
  match l with [] => false | x :: l' => key_eqb k x || memb k l' end.
Fixpoint nodupb (l : list ckey) : bool :=
  match l with [] => true | x :: l' => negb (memb x l') && nodupb l' end.

Lemma cnt_not_mem : forall k l, memb k l = false -> cnt k l = 0%nat.
Proof.
  induction l as [|x l IH]; cbn; [reflexivity|].
  intros H. apply orb_false_iff in H. destruct H as [H1 H2]. rewrite H1. now rewrite IH.
Qed.

Lemma nodupb_cnt : forall l k, nodupb l = true -> (cnt k l <= 1)%nat.
Proof.
  induction l as [|x l IH]; intros k H; cbn in *; [lia|].
  apply andb_true_iff in H. destruct H as [H1 H2].
  destruct (key_eqb k x) eqn:E.
  - apply key_eqb_eq in E. subst x.
    apply negb_true_iff in H1. rewrite (cnt_not_mem _ _ H1). lia.
  - specialize (IH k H2). lia.
Qed.

Lemma serve_nodup : forall q, nodupb (o_incs (serve q)) = true.
Proof.
  intros q. open_serve q; split_ifs; reflexivity.
Qed.

Lemma serve_at_most_once : forall q k, (cnt k (o_incs (serve q)) <= 1)%nat.
Proof. intros q k. apply nodupb_cnt, serve_nodup. Qed.

(* at most one message is written per query *)
Lemma serve_one_write : forall q, (length (o_writes (serve q)) <= 1)%nat.
Proof.
  intros q. open_serve q; split_ifs; cbn; lia.
Qed.

(* outcome counters and the logger follow the response really sent *)
Definition outcome_follows_sent (o : outcome) : Prop :=
  match sent o with
  | Some (rc, aa, n) =>
      cnt KNxdomain (o_incs o) = b2n (rc =? RcodeNameError)
      /\ cnt KRefused (o_incs o) = b2n (rc =? RcodeRefused)
      /\ cnt KBadvers (o_incs o) = b2n (rc =? RcodeBadVers)
      /\ cnt KNodata (o_incs o) = b2n ((rc =? RcodeSuccess) && (n =? 0))
      /\ cnt KNotAuthoritative (o_incs o) = b2n (negb aa)
      /\ nlog LogSent (o_logs o) = 1%nat /\ o_logs o = [LogSent]
  | None =>
      cnt KNxdomain (o_incs o) = 0%nat /\ cnt KRefused (o_incs o) = 0%nat
      /\ cnt KBadvers (o_incs o) = 0%nat /\ cnt KNodata (o_incs o) = 0%nat
      /\ cnt KNotAuthoritative (o_incs o) = 0%nat
      /\ nlog LogSent (o_logs o) = 0%nat
  end.

Lemma serve_outcome : forall q, outcome_follows_sent (serve q).
Proof.
  intros q. unfold outcome_follows_sent.
  open_serve q; split_ifs; cbn;
    repeat match goal with
    | H : (?a =? ?b) = _ |- context [?a =? ?b] => rewrite H
    | H : negb ?a = _ |- context [negb ?a] => rewrite H
    | H : (?a && ?b) = _ |- context [?a && ?b] => rewrite H
    end; cbn; try (repeat split; reflexivity);
    repeat match goal with
    | H : (?a =? ?b) = true |- _ => apply N.eqb_eq in H; subst
    end; try discriminate; cbn in *; try (repeat split; reflexivity); try discriminate.
Qed.

Definition loc_total (l : list ckey) : nat :=
  (cnt KLocEcs l + cnt KLocEmpty l + cnt KLocDefault l + cnt KLocFallback l + cnt KLocResolver l)%nat.
Definition cache_total (l : list ckey) : nat :=
  (cnt KCacheHit l + cnt KCacheExpired l + cnt KCacheMissed l)%nat.

(* exactly one location class and (cache enabled) exactly one cache counter, iff the
   handler got as far as a location *)
Lemma serve_location_cache : forall q,
  loc_total (o_incs (serve q)) = b2n (located q) /\
  cache_total (o_incs (serve q)) = b2n (located q && q_cache_on q).
Proof.
  intros q. unfold loc_total, cache_total.
  open_serve q; split_ifs; cbn; split; reflexivity.
Qed.

(* cache hit counter iff the cached response was the one used *)
Lemma serve_hit_is_cached : forall q rc aa,
  q_cache q = CHit rc aa -> located q = true -> q_cache_on q = true -> q_write_err q = false ->
  sent (serve q) = Some (rc, aa, q_sent_answers q) /\ cnt KCacheHit (o_incs (serve q)) = 1%nat.
Proof.
  intros q rc aa. open_serve q; cbn; intros H1 H2 H3 H4; try discriminate;
    inversion H1; subst; cbn in H2; split_ifs; try discriminate; cbn; auto.
Qed.

(* the counters left by a set of queries served concurrently: every interleaving of
   their IncrementCounter calls yields, per key, the number of queries that bump it *)
Definition query_prog (q : qclass) : list cop := map OpInc (o_incs (serve q)).

Lemma total_map_inc : forall k l, total k (map OpInc l) = Z.of_nat (cnt k l).
Proof.
  induction l as [|x l IH]; cbn [map total fold_right cnt]; [reflexivity|].
  fold (total k (map OpInc l)). rewrite IH. cbn [op_delta].
  destruct (key_eqb k x); lia.
Qed.

Theorem concurrent_queries_sum : forall qs tr k,
  interleaving (map query_prog qs) tr ->
  cget k (fst (crun [] tr)) = fold_right (fun q a => (Z.of_nat (cnt k (o_incs (serve q))) + a)%Z) 0%Z qs.
Proof.
  intros qs tr k H.
  rewrite crun_final, (total_perm k _ _ (interleaving_perm _ _ H)). cbn [cget].
  induction qs as [|q qs IH]; cbn [map concat fold_right]; [reflexivity|].
  unfold query_prog at 1. rewrite total_app, total_map_inc.
  cbn [map concat] in IH. lia.
Qed.
