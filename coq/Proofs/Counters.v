(* Proofs/Counters: per-query counter/log discipline of the handler model.

   Structure: [serve q] is always  out_app (incs prefix) tail  where the prefix is
   the straight-line part (DNS_queries, type, location, cache counters) and the
   tail is one of: serve_lookup, write_and_log, or a stop without counters.
   Prefix keys and tail keys are disjoint, so every claim splits in two. *)
From Coq Require Import Permutation.
From DnsV Require Import Base.Bytes Model.Counters Spec.Counters Proofs.CounterMap.
Open Scope N_scope.

Fixpoint memb (k : ckey) (l : list ckey) : bool :=
  match l with [] => false | x :: l' => key_eqb k x || memb k l' end.
Fixpoint nodupb (l : list ckey) : bool :=
  match l with [] => true | x :: l' => negb (memb x l') && nodupb l' end.

(* keys written by the tails (serve_lookup / write_and_log) *)
Definition in_tail (k : ckey) : bool :=
  match k with
  | KErrIsAuth | KRespRefused | KRespNotAuth | KRespAuth
  | KNotAuthoritative | KNxdomain | KRefused | KBadvers | KNodata => true
  | _ => false
  end.

(* the outcome counters proper *)
Definition not_outcome (k : ckey) : bool :=
  match k with
  | KNxdomain | KRefused | KBadvers | KNodata | KNotAuthoritative => false
  | _ => true
  end.

Lemma cnt_app : forall k a b, cnt k (a ++ b) = (cnt k a + cnt k b)%nat.
Proof. induction a as [|x a IH]; intros b; cbn; [reflexivity|]. rewrite IH. lia. Qed.

Lemma cnt_not_mem : forall k l, memb k l = false -> cnt k l = 0%nat.
Proof.
  induction l as [|x l IH]; cbn; [reflexivity|].
  intros H. apply orb_false_iff in H. destruct H as [H1 H2]. rewrite H1. now rewrite IH.
Qed.

Lemma nodupb_cnt : forall l k, nodupb l = true -> (cnt k l <= 1)%nat.
Proof.
  induction l as [|x l IH]; intros k H; cbn in *; [lia|].
  apply andb_true_iff in H. destruct H as [H1 H2].
  destruct (key_eqb k x) eqn:E.
  - apply key_eqb_eq in E. subst x.
    apply negb_true_iff in H1. rewrite (cnt_not_mem _ _ H1). lia.
  - specialize (IH k H2). lia.
Qed.

(* a key outside the class of a list does not occur in it *)
Lemma cnt_class : forall (c : ckey -> bool) k l,
  forallb c l = true -> c k = false -> cnt k l = 0%nat.
Proof.
  induction l as [|x l IH]; intros Hl Hk; cbn in *; [reflexivity|].
  apply andb_true_iff in Hl. destruct Hl as [H1 H2].
  destruct (key_eqb k x) eqn:E.
  - apply key_eqb_eq in E. subst. congruence.
  - now rewrite IH.
Qed.

(* ---------- case analysis along the control flow: reduce, split on the outermost test,
   repeat.  Nothing is unfolded eagerly, so terms never duplicate their branches. *)
Ltac split_cond b :=
  first [ is_var b; destruct b
        | match b with
          | negb ?x => is_var x; destruct x
          | negb ?x && _ => is_var x; destruct x
          | ?x && _ => is_var x; destruct x
          end
        | let E := fresh "E" in destruct b eqn:E ].
Ltac split_one :=
  match goal with
  | |- context [if ?b then _ else _] =>
      lazymatch b with
      | context [if _ then _ else _] => fail
      | _ => split_cond b
      end
  end.
Ltac split_ifs := repeat (cbn; rewrite ?N.eqb_refl; split_one); cbn; rewrite ?N.eqb_refl.

(* ---------- the tails *)

Record tail_ok (t : outcome) : Prop := mkTail {
  t_keys : forallb in_tail (o_incs t) = true;
  t_nodup : nodupb (o_incs t) = true;
  t_writes : (length (o_writes t) <= 1)%nat;
  t_follows : outcome_follows_sent t
}.

Ltac follows_fin :=
  cbn;
  repeat match goal with
  | H : (?a =? ?b) = _ |- context [?a =? ?b] => rewrite H
  end; cbn;
  first [ repeat split; reflexivity
        | repeat match goal with
          | H : (?a =? ?b) = true |- _ => apply N.eqb_eq in H; subst
          end; cbn in *; try discriminate; repeat split; reflexivity ].

Lemma wal_tail : forall rc aa n w, tail_ok (write_and_log rc aa n w).
Proof.
  intros rc aa n w. unfold write_and_log. split.
  - split_ifs; reflexivity.
  - split_ifs; reflexivity.
  - split_ifs; lia.
  - unfold outcome_follows_sent, sent. destruct w; [cbn; repeat split; reflexivity|].
    destruct aa; cbn [negb].
    + split_ifs; follows_fin.
    + split_ifs; follows_fin.
Qed.

Lemma stop_tail : forall logs ws ret,
  nlog LogSent logs = 0%nat -> ws = [] \/ ws = [WrBare] -> tail_ok (mkO [] logs ws ret).
Proof.
  intros logs ws ret Hl Hw. split; cbn.
  - reflexivity.
  - reflexivity.
  - destruct Hw as [->| ->]; cbn; lia.
  - unfold outcome_follows_sent, sent. cbn.
    destruct Hw as [->| ->]; cbn; repeat split; try reflexivity; exact Hl.
Qed.

(* a tail with more (tail) counters in front, as long as nothing repeats and the
   outcome counters are not among them *)
Lemma tail_prefix : forall l t,
  tail_ok t ->
  forallb in_tail l = true -> nodupb (l ++ o_incs t) = true ->
  forallb not_outcome l = true ->
  tail_ok (out_app (incs l) t).
Proof.
  intros l t [H1 H2 H3 H4] Hl Hn Hc. split; cbn.
  - rewrite forallb_app, Hl, H1. reflexivity.
  - exact Hn.
  - exact H3.
  - unfold outcome_follows_sent, sent in *. cbn.
    assert (Z : forall k, not_outcome k = false -> cnt k (l ++ o_incs t) = cnt k (o_incs t)).
    { intros k Hk. rewrite cnt_app. rewrite (cnt_class _ k l Hc Hk). reflexivity. }
    rewrite !Z by reflexivity. exact H4.
Qed.

Lemma lookup_tail : forall q, tail_ok (serve_lookup q).
Proof.
  intros q. unfold serve_lookup.
  destruct (q_isauth_err q).
  { split; cbn; try reflexivity; try lia;
    unfold outcome_follows_sent, sent; cbn; repeat split; reflexivity. }
  destruct (negb (q_ns q) && negb (q_auth q)).
  { apply tail_prefix; [apply wal_tail|reflexivity| |reflexivity].
    unfold write_and_log. split_ifs; reflexivity. }
  cbv zeta.
  destruct (negb (q_auth q) && (q_qtype q =? TypeDS) && q_ds_err q).
  { split; cbn; try reflexivity; try lia;
    unfold outcome_follows_sent, sent; cbn; repeat split; reflexivity. }
  set (auth := if negb (q_auth q) && (q_qtype q =? TypeDS) then q_ds_auth q else q_auth q).
  set (rcode := if auth && (q_nfound q =? 0) && negb (q_record_found q) then RcodeNameError else RcodeSuccess).
  destruct (negb (q_unpack_ok q)).
  { split; cbn.
    - destruct auth; reflexivity.
    - destruct auth; reflexivity.
    - lia.
    - unfold outcome_follows_sent, sent. cbn. destruct auth; cbn; repeat split; reflexivity. }
  apply tail_prefix; [apply wal_tail| | |]; destruct auth; try reflexivity;
    unfold write_and_log; split_ifs; reflexivity.
Qed.

(* ---------- the prefix *)

(* everything a prefix must satisfy, as one boolean *)
Definition pre_okb (q : qclass) (l : list ckey) : bool :=
  nodupb l
  && forallb (fun k => negb (in_tail k)) l
  && Nat.eqb (cnt KQueries l) 1
  && Nat.eqb (cnt (KType (q_qtype q)) l) (b2n (q_reader_ok q))
  && forallb (fun k => match k with KType t => t =? q_qtype q | _ => true end) l
  && Nat.eqb (loc_total l) (b2n (located q))
  && Nat.eqb (cache_total l) (b2n (located q && q_cache_on q)).

Lemma loc_counter_cases : forall m a b,
  loc_counter m a b = KLocEcs \/ loc_counter m a b = KLocEmpty \/ loc_counter m a b = KLocDefault \/
  loc_counter m a b = KLocFallback \/ loc_counter m a b = KLocResolver.
Proof.
  intros m a b. unfold loc_counter.
  destruct (0 <? m); [tauto|].
  destruct ((a =? 0) && (b =? 0)); [tauto|].
  destruct ((a =? 0) && (b =? 1)); [tauto|].
  destruct ((a =? 0) && (b =? 2)); tauto.
Qed.

Ltac decomp_with l t :=
  exists l, t; split; [reflexivity|split; [cbn; rewrite ?N.eqb_refl; reflexivity|]].

Lemma serve_decomp : forall q,
  exists l t, serve q = out_app (incs l) t /\ pre_okb q l = true /\ tail_ok t.
Proof.
  intros q.
  destruct q as [rok dobit qt eok pok loc con cst iaerr ns auth dserr dsauth nf rf uok sa werr].
  set (q := mkQ rok dobit qt eok pok loc con cst iaerr ns auth dserr dsauth nf rf uok sa werr).
  assert (HT := lookup_tail q).
  unfold serve, pre_okb, located.
  cbn [q_reader_ok q_do q_qtype q_edns_ok q_pack_ok q_loc q_cache_on q_cache q_sent_answers q_write_err q].
  destruct rok; cbn [negb].
  2:{ decomp_with [KQueries; KReadError] (mkO [] [] [] RcodeServerFailure).
      apply stop_tail; [reflexivity|left; reflexivity]. }
  destruct eok; cbn [negb].
  2:{ destruct dobit.
      - decomp_with [KQueries; KDoBit; KType qt] (write_and_log RcodeBadVers false sa werr). apply wal_tail.
      - decomp_with [KQueries; KType qt] (write_and_log RcodeBadVers false sa werr). apply wal_tail. }
  destruct pok; cbn [negb].
  2:{ destruct dobit.
      - decomp_with [KQueries; KDoBit; KType qt; KPackFail] (mkO [] [LogFailedReq] [WrBare] RcodeServerFailure).
        apply stop_tail; [reflexivity|right; reflexivity].
      - decomp_with [KQueries; KType qt; KPackFail] (mkO [] [LogFailedReq] [WrBare] RcodeServerFailure).
        apply stop_tail; [reflexivity|right; reflexivity]. }
  destruct loc as [| |mask id0 id1].
  { destruct dobit.
    - decomp_with [KQueries; KDoBit; KType qt] (mkO [] [LogFailedReq] [] RcodeServerFailure).
      apply stop_tail; [reflexivity|left; reflexivity].
    - decomp_with [KQueries; KType qt] (mkO [] [LogFailedReq] [] RcodeServerFailure).
      apply stop_tail; [reflexivity|left; reflexivity]. }
  { destruct dobit.
    - decomp_with [KQueries; KDoBit; KType qt] (mkO [] [LogFailedReq] [] RcodeServerFailure).
      apply stop_tail; [reflexivity|left; reflexivity].
    - decomp_with [KQueries; KType qt] (mkO [] [LogFailedReq] [] RcodeServerFailure).
      apply stop_tail; [reflexivity|left; reflexivity]. }
  destruct (loc_counter_cases mask id0 id1) as [Hl|[Hl|[Hl|[Hl|Hl]]]]; rewrite Hl; clear Hl;
    (destruct con;
     [ destruct cst as [hrc haa| |];
       [ destruct dobit;
         [ eexists (_ :: _ :: _ :: _ :: [KCacheHit]), (write_and_log hrc haa sa werr)
         | eexists (_ :: _ :: _ :: [KCacheHit]), (write_and_log hrc haa sa werr) ];
         (split; [reflexivity|split; [cbn; rewrite ?N.eqb_refl; reflexivity|apply wal_tail]])
       | destruct dobit;
         [ eexists (_ :: _ :: _ :: _ :: [KCacheExpired]), (serve_lookup q)
         | eexists (_ :: _ :: _ :: [KCacheExpired]), (serve_lookup q) ];
         (split; [reflexivity|split; [cbn; rewrite ?N.eqb_refl; reflexivity|exact HT]])
       | destruct dobit;
         [ eexists (_ :: _ :: _ :: _ :: [KCacheMissed]), (serve_lookup q)
         | eexists (_ :: _ :: _ :: [KCacheMissed]), (serve_lookup q) ];
         (split; [reflexivity|split; [cbn; rewrite ?N.eqb_refl; reflexivity|exact HT]]) ]
     | destruct dobit;
       [ eexists (_ :: _ :: _ :: [_]), (serve_lookup q)
       | eexists (_ :: _ :: [_]), (serve_lookup q) ];
       (split; [reflexivity|split; [cbn; rewrite ?N.eqb_refl; reflexivity|exact HT]]) ]).
Qed.

(* ---------- consequences for every query *)

Section PerQuery.
  Variable q : qclass.

  Lemma pre_unpack : forall l, pre_okb q l = true ->
    nodupb l = true /\ forallb (fun k => negb (in_tail k)) l = true /\
    cnt KQueries l = 1%nat /\ cnt (KType (q_qtype q)) l = b2n (q_reader_ok q) /\
    forallb (fun k => match k with KType t => t =? q_qtype q | _ => true end) l = true /\
    loc_total l = b2n (located q) /\ cache_total l = b2n (located q && q_cache_on q).
  Proof.
    intros l H. unfold pre_okb in H.
    repeat (apply andb_true_iff in H; let H' := fresh "P" in destruct H as [H H']).
    repeat match goal with P : Nat.eqb _ _ = true |- _ => apply Nat.eqb_eq in P end.
    repeat split; assumption.
  Qed.

  Lemma tail_zero : forall t k, tail_ok t -> in_tail k = false -> cnt k (o_incs t) = 0%nat.
  Proof. intros t k [H _ _ _] Hk. exact (cnt_class in_tail k _ H Hk). Qed.

  Lemma pre_zero : forall l k,
    forallb (fun k => negb (in_tail k)) l = true -> in_tail k = true -> cnt k l = 0%nat.
  Proof.
    intros l k H Hk. apply (cnt_class (fun k => negb (in_tail k)) k l H). now rewrite Hk.
  Qed.

  (* DNS_queries exactly once, always *)
  Lemma serve_queries_once : cnt KQueries (o_incs (serve q)) = 1%nat.
  Proof.
    destruct (serve_decomp q) as [l [t [E [P T]]]]. rewrite E. cbn [o_incs out_app incs].
    destruct (pre_unpack l P) as [_ [_ [H _]]].
    rewrite cnt_app, H, (tail_zero t KQueries T); reflexivity.
  Qed.

  (* the type counter of the question exactly once iff a reader was acquired *)
  Lemma serve_type_once : cnt (KType (q_qtype q)) (o_incs (serve q)) = b2n (q_reader_ok q).
  Proof.
    destruct (serve_decomp q) as [l [t [E [P T]]]]. rewrite E. cbn [o_incs out_app incs].
    destruct (pre_unpack l P) as [_ [_ [_ [H _]]]].
    rewrite cnt_app, H, (tail_zero t _ T); [lia|reflexivity].
  Qed.

  Lemma serve_type_other : forall t, t <> q_qtype q -> cnt (KType t) (o_incs (serve q)) = 0%nat.
  Proof.
    intros ty Hne.
    destruct (serve_decomp q) as [l [t [E [P T]]]]. rewrite E. cbn [o_incs out_app incs].
    destruct (pre_unpack l P) as [_ [_ [_ [_ [H _]]]]].
    rewrite cnt_app, (tail_zero t _ T) by reflexivity.
    rewrite (cnt_class _ (KType ty) l H); [reflexivity|]. now apply N.eqb_neq.
  Qed.

  (* never twice *)
  Lemma serve_at_most_once : forall k, (cnt k (o_incs (serve q)) <= 1)%nat.
  Proof.
    intros k.
    destruct (serve_decomp q) as [l [t [E [P T]]]]. rewrite E. cbn [o_incs out_app incs].
    destruct (pre_unpack l P) as [H1 [H2 _]].
    rewrite cnt_app. destruct (in_tail k) eqn:Ek.
    - rewrite (pre_zero l k H2 Ek). destruct T as [_ Hn _ _]. apply (nodupb_cnt _ k) in Hn. lia.
    - rewrite (tail_zero t k T Ek). apply (nodupb_cnt _ k) in H1. lia.
  Qed.

  (* at most one message is written per query *)
  Lemma serve_one_write : (length (o_writes (serve q)) <= 1)%nat.
  Proof.
    destruct (serve_decomp q) as [l [t [E [P T]]]]. rewrite E. cbn. apply T.
  Qed.

  (* outcome counters and the logger follow the response really sent *)
  Lemma serve_outcome : outcome_follows_sent (serve q).
  Proof.
    destruct (serve_decomp q) as [l [t [E [P T]]]]. rewrite E.
    destruct (pre_unpack l P) as [_ [H2 _]].
    destruct T as [_ _ _ HF].
    unfold outcome_follows_sent, sent in *. cbn [o_incs o_logs o_writes out_app incs app].
    rewrite !cnt_app.
    rewrite !(pre_zero l _ H2) by reflexivity. exact HF.
  Qed.

  (* exactly one location class and (cache enabled) exactly one cache counter, iff the
     handler got as far as a location *)
  Lemma serve_location_cache :
    loc_total (o_incs (serve q)) = b2n (located q) /\
    cache_total (o_incs (serve q)) = b2n (located q && q_cache_on q).
  Proof.
    destruct (serve_decomp q) as [l [t [E [P T]]]]. rewrite E. cbn [o_incs out_app incs].
    destruct (pre_unpack l P) as [_ [_ [_ [_ [_ [H6 H7]]]]]].
    unfold loc_total, cache_total in *. rewrite !cnt_app.
    rewrite !(tail_zero t _ T) by reflexivity. lia.
  Qed.
End PerQuery.

(* the counters left by a set of queries served concurrently: every interleaving of
   their IncrementCounter calls yields, per key, the number of queries that bump it *)
Definition query_prog (q : qclass) : list cop := map OpInc (o_incs (serve q)).

Lemma total_map_inc : forall k l, total k (map OpInc l) = Z.of_nat (cnt k l).
Proof.
  induction l as [|x l IH]; cbn [map total cnt]; [reflexivity|].
  rewrite IH. cbn [op_delta]. destruct (key_eqb k x); lia.
Qed.

Theorem concurrent_queries_sum : forall qs tr k,
  interleaving (map query_prog qs) tr ->
  cget k (fst (crun [] tr)) = fold_right (fun q a => (Z.of_nat (cnt k (o_incs (serve q))) + a)%Z) 0%Z qs.
Proof.
  intros qs tr k H.
  rewrite crun_final, (total_perm k _ _ (interleaving_perm _ _ H)). cbn [cget]. clear H.
  induction qs as [|q qs IH]; cbn [map concat fold_right]; [reflexivity|].
  unfold query_prog at 1. rewrite total_app, total_map_inc.
  cbn [map concat] in IH. lia.
Qed.

(* ---------- the statement used by Properties/C19.v *)
Theorem counters_once : forall q,
  let o := serve q in
  cnt KQueries (o_incs o) = 1%nat
  /\ cnt (KType (q_qtype q)) (o_incs o) = b2n (q_reader_ok q)
  /\ (forall t, t <> q_qtype q -> cnt (KType t) (o_incs o) = 0%nat)
  /\ (forall k, (cnt k (o_incs o) <= 1)%nat)
  /\ (length (o_writes o) <= 1)%nat
  /\ outcome_follows_sent o
  /\ loc_total (o_incs o) = b2n (located q)
  /\ cache_total (o_incs o) = b2n (located q && q_cache_on q).
Proof.
  intros q o. subst o.
  split; [apply serve_queries_once|].
  split; [apply serve_type_once|].
  split; [apply serve_type_other|].
  split; [apply serve_at_most_once|].
  split; [apply serve_one_write|].
  split; [apply serve_outcome|].
  apply serve_location_cache.
Qed.

(* non-vacuity: an NXDOMAIN answer on a cache miss, and an interleaving of two queries *)
Example counters_example :
  let q := mkQ true false 1 true true (LocOk 0 0 1) true CMiss false true true false false 0 false true 0 false in
  sent (serve q) = Some (RcodeNameError, true, 0) /\
  o_incs (serve q) = [KQueries; KType 1; KLocDefault; KCacheMissed; KRespAuth; KNxdomain] /\
  interleaving [[OpInc KQueries; OpExport]; [OpInc KQueries]] [OpInc KQueries; OpInc KQueries; OpExport].
Proof.
  cbn. repeat split.
  apply (il_step [] (OpInc KQueries) [OpExport] [[OpInc KQueries]]).
  apply (il_step [[OpExport]] (OpInc KQueries) [] []).
  apply (il_step [] OpExport [] [[]]).
  apply il_done. repeat constructor.
Qed.

(* ---------- which location counter *)

Lemma cnt_in : forall k l, In k l -> (1 <= cnt k l)%nat.
Proof.
  induction l as [|x l IH]; intros H; [destruct H|]. cbn.
  destruct H as [->|H]; [rewrite key_eqb_refl; lia|]. specialize (IH H). lia.
Qed.

(* the counter bumped is decided by loc.Mask first: any location with a non-zero mask
   counts as client-subnet, whatever lookup produced it *)
Theorem location_counter : forall q mask id0 id1,
  q_loc q = LocOk mask id0 id1 -> located q = true ->
  cnt (if 0 <? mask then KLocEcs else id_class id0 id1) (o_incs (serve q)) = 1%nat.
Proof.
  intros q mask id0 id1 Hloc Hl.
  assert (Hle := serve_at_most_once q (if 0 <? mask then KLocEcs else id_class id0 id1)).
  assert (Hin : In (if 0 <? mask then KLocEcs else id_class id0 id1) (o_incs (serve q))).
  { change (if 0 <? mask then KLocEcs else id_class id0 id1) with (loc_counter mask id0 id1).
    destruct q as [rok dobit qt eok pok loc con cst iaerr ns auth dserr dsauth nf rf uok sa werr].
    unfold located in Hl. cbn in Hloc, Hl. subst loc.
    destruct rok, eok, pok; try discriminate.
    unfold serve. cbn [q_reader_ok q_do q_qtype q_edns_ok q_pack_ok q_loc q_cache_on q_cache negb].
    destruct dobit, con; [destruct cst| |destruct cst|]; cbn; auto 10. }
  apply cnt_in in Hin. lia.
Qed.

(* refutation of "the location class counter tells the truth": the default location 0,1
   found through the resolver map for an IPv4 client carries mask 96 (v4-mapped /0) and
   is counted as DNS_location.ecs although the query has no client-subnet option *)
Theorem location_class_refuted :
  exists q, located q = true /\ q_loc q = LocOk 96 0 1 /\
            cnt (true_loc_class false 0 1) (o_incs (serve q)) = 0%nat /\
            cnt KLocEcs (o_incs (serve q)) = 1%nat.
Proof.
  exists (mkQ true false 1 true true (LocOk 96 0 1) false CMiss false true true false false 1 true true 1 false).
  vm_compute. repeat split.
Qed.
