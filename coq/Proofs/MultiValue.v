(* Proofs about the multi-value codec (Model/MultiValue.v): the framing round
   trips, delValue removes exactly the first equal value, fuel suffices and the
   Panic outcome is unreachable. *)
From DnsV Require Import Model.MultiValue Spec.MapOfLists.
From Coq Require Import ZifyN ZifyNat ZifyBool.
Open Scope N_scope.

(* a value whose length fits the uint32 prefix *)
Definition okv (v : bytes) : Prop := nlen v < 4294967296.
Definition chunk (v : bytes) : bytes := u32le (nlen v) ++ v.
Fixpoint encode (vs : list bytes) : bytes :=
  match vs with
  | [] => []
  | v :: r => chunk v ++ encode r
  end.

(* ---------------------------------------------------------------- lists *)

Lemma nlen_app : forall {A} (a b : list A), nlen (a ++ b) = nlen a + nlen b.
Proof. intros. unfold nlen. rewrite app_length. lia. Qed.

Lemma nlen_nil : forall {A}, nlen (@nil A) = 0.
Proof. reflexivity. Qed.

Lemma nlen_cons : forall {A} (x : A) l, nlen (x :: l) = 1 + nlen l.
Proof. intros. unfold nlen. simpl length. lia. Qed.

Lemma nlen_u32le : forall n, nlen (u32le n) = 4.
Proof. reflexivity. Qed.

Lemma nlen_0_nil : forall {A} (l : list A), nlen l = 0 -> l = [].
Proof. intros A [|x l] H; [reflexivity|]. rewrite nlen_cons in H. lia. Qed.

Lemma ntake_app_len : forall {A} (a b : list A) n, nlen a = n -> ntake n (a ++ b) = a.
Proof.
  intros A a b n H. unfold ntake. subst n. unfold nlen. rewrite Nat2N.id.
  induction a; simpl; [destruct b; reflexivity | f_equal; assumption].
Qed.

Lemma ndrop_app_len : forall {A} (a b : list A) n, nlen a = n -> ndrop n (a ++ b) = b.
Proof.
  intros A a b n H. unfold ndrop. subst n. unfold nlen. rewrite Nat2N.id.
  induction a; simpl; [reflexivity | assumption].
Qed.

Lemma ntake_all : forall {A} (a : list A) n, nlen a = n -> ntake n a = a.
Proof. intros. rewrite <- (app_nil_r a) at 1. apply ntake_app_len; assumption. Qed.

Lemma ndrop_all : forall {A} (a : list A) n, nlen a = n -> ndrop n a = [].
Proof. intros. rewrite <- (app_nil_r a) at 1. apply ndrop_app_len; assumption. Qed.

Lemma ndrop_0 : forall {A} (a : list A), ndrop 0 a = a.
Proof. reflexivity. Qed.

Lemma nlen_ndrop : forall {A} (a : list A) n, nlen (ndrop n a) = nlen a - n.
Proof. intros. unfold ndrop, nlen. rewrite skipn_length. lia. Qed.

Lemma bytes_eqb_refl : forall a, bytes_eqb a a = true.
Proof. induction a; simpl; [reflexivity|]. rewrite N.eqb_refl. assumption. Qed.

Lemma bytes_eqb_eq : forall a b, bytes_eqb a b = true <-> a = b.
Proof.
  induction a as [|x a IH]; destruct b as [|y b]; simpl; split; intro H; try reflexivity; try discriminate.
  - apply andb_true_iff in H. destruct H as [H1 H2]. apply N.eqb_eq in H1. apply IH in H2. congruence.
  - inversion H; subst. rewrite N.eqb_refl. apply bytes_eqb_refl.
Qed.

Lemma bytes_eqb_neq : forall a b, bytes_eqb a b = false <-> a <> b.
Proof.
  intros. split; intro H.
  - intro E. apply bytes_eqb_eq in E. congruence.
  - destruct (bytes_eqb a b) eqn:E; [apply bytes_eqb_eq in E; contradiction | reflexivity].
Qed.

Lemma bytes_eqb_sym : forall a b, bytes_eqb a b = bytes_eqb b a.
Proof.
  intros. destruct (bytes_eqb a b) eqn:E.
  - apply bytes_eqb_eq in E. subst. symmetry. apply bytes_eqb_refl.
  - symmetry. apply bytes_eqb_neq. apply bytes_eqb_neq in E. congruence.
Qed.

(* the Go test  len(v) == len(value) && bytes.Equal(v, value)  *)
Lemma len_and_eqb : forall v value, (nlen v =? nlen value) && bytes_eqb v value = bytes_eqb v value.
Proof.
  intros. destruct (bytes_eqb v value) eqn:E; [|apply andb_false_r].
  apply bytes_eqb_eq in E. subst. rewrite N.eqb_refl. reflexivity.
Qed.

(* ---------------------------------------------------------------- the length prefix *)

Ltac Zify.zify_post_hook ::= Z.div_mod_to_equations.

Lemma rd_u32le_u32le : forall n r, n < 4294967296 -> rd_u32le (u32le n ++ r) = Some n.
Proof.
  intros n r H. unfold u32le, rd_u32le. cbn [app]. f_equal. lia.
Qed.

Lemma rd_u32le_some : forall l, 4 <= nlen l -> exists n, rd_u32le l = Some n.
Proof.
  intros l H. destruct l as [|a [|b [|c [|d l]]]]; repeat rewrite nlen_cons in H; try rewrite nlen_nil in H; try lia.
  eexists. reflexivity.
Qed.

Lemma nlen_chunk : forall v, nlen (chunk v) = 4 + nlen v.
Proof. intros. unfold chunk. rewrite nlen_app, nlen_u32le. reflexivity. Qed.

Lemma append_values_encode : forall vs d, append_values d vs = d ++ encode vs.
Proof.
  unfold append_values. induction vs as [|v vs IH]; intro d; simpl.
  - symmetry. apply app_nil_r.
  - rewrite IH. unfold chunk. repeat rewrite <- app_assoc. reflexivity.
Qed.

Lemma encode_app : forall a b, encode (a ++ b) = encode a ++ encode b.
Proof. induction a; intro b; simpl; [reflexivity|]. rewrite IHa. rewrite app_assoc. reflexivity. Qed.

Lemma length_encode_ge : forall vs, (length vs <= length (encode vs))%nat.
Proof.
  induction vs as [|v vs IH]; simpl; [lia|]. unfold chunk, u32le. repeat rewrite app_length. simpl length. lia.
Qed.

Lemma encode_nil_inv : forall vs, encode vs = [] -> vs = [].
Proof. intros [|v vs] H; [reflexivity|]. simpl in H. unfold chunk, u32le in H. discriminate. Qed.

(* ---------------------------------------------------------------- ReadNextChunk *)

Lemma read_next_chunk_nil : read_next_chunk [] = Err E_EOF.
Proof. reflexivity. Qed.

Lemma read_next_chunk_chunk : forall v rest, okv v ->
  read_next_chunk (chunk v ++ rest) = Ok (v, rest).
Proof.
  intros v rest H. unfold read_next_chunk.
  assert (L : nlen (chunk v ++ rest) = 4 + nlen v + nlen rest) by (rewrite nlen_app, nlen_chunk; reflexivity).
  rewrite L.
  destruct (N.eqb_spec (4 + nlen v + nlen rest) 0); [lia|].
  destruct (N.ltb_spec (4 + nlen v + nlen rest) 4); [lia|].
  unfold chunk at 1. rewrite <- app_assoc. rewrite rd_u32le_u32le by exact H.
  destruct (N.ltb_spec (4 + nlen v + nlen rest) (nlen v + 4)); [lia|].
  f_equal. f_equal.
  - unfold slice. rewrite (ndrop_app_len (u32le (nlen v)) (v ++ rest)) by reflexivity.
    apply ntake_app_len. lia.
  - apply ndrop_app_len. rewrite nlen_chunk. lia.
Qed.

Lemma for_each_loop_encode : forall vs fuel, Forall okv vs -> (length vs < fuel)%nat ->
  for_each_loop fuel (encode vs) = (vs, 0).
Proof.
  induction vs as [|v vs IH]; intros fuel H F; destruct fuel as [|f]; try lia.
  - reflexivity.
  - simpl in F. inversion H; subst. cbn [for_each_loop encode].
    rewrite read_next_chunk_chunk by assumption. rewrite IH by (assumption || lia). reflexivity.
Qed.

Lemma for_each_data_encode : forall vs, Forall okv vs -> for_each_data (encode vs) = (vs, 0).
Proof.
  intros. unfold for_each_data. apply for_each_loop_encode; [assumption|].
  pose proof (length_encode_ge vs). lia.
Qed.

Lemma find_data_encode : forall vs, Forall okv vs ->
  find_data (encode vs) = match vs with [] => Err E_EOF | v :: _ => Ok v end.
Proof.
  intros [|v vs] H; unfold find_data; cbn [encode].
  - reflexivity.
  - inversion H; subst. rewrite read_next_chunk_chunk by assumption. reflexivity.
Qed.

(* ReadNextChunk never indexes out of range, and a chunk it returns is shorter than its input *)
Lemma read_next_chunk_cases : forall data,
  match read_next_chunk data with
  | Ok (v, rest) => 4 + nlen v + nlen rest = nlen data
  | Err e => e = E_EOF \/ e = E_UEOF
  end.
Proof.
  intro data. unfold read_next_chunk.
  destruct (N.eqb_spec (nlen data) 0); [left; reflexivity|].
  destruct (N.ltb_spec (nlen data) 4); [right; reflexivity|].
  destruct (rd_u32le_some data) as [m Hm]; [lia|]. rewrite Hm.
  destruct (N.ltb_spec (nlen data) (m + 4)); [right; reflexivity|].
  unfold slice, ntake. unfold nlen at 1. rewrite firstn_length. fold (ndrop 4 data).
  pose proof (nlen_ndrop data 4) as H4. pose proof (nlen_ndrop data (m + 4)) as H5.
  unfold nlen in *. lia.
Qed.

Lemma for_each_loop_fuel : forall fuel data, (length data < fuel)%nat ->
  snd (for_each_loop fuel data) = 0 \/ snd (for_each_loop fuel data) = E_UEOF.
Proof.
  induction fuel as [|f IH]; intros data H; [lia|].
  cbn [for_each_loop]. pose proof (read_next_chunk_cases data) as C.
  destruct (read_next_chunk data) as [[v rest]|e].
  - destruct (for_each_loop f rest) as [vs e'] eqn:E. cbn [snd].
    specialize (IH rest). rewrite E in IH. cbn [snd] in IH. apply IH. unfold nlen in C. lia.
  - destruct C as [C|C]; subst e; cbn; auto.
Qed.

(* ---------------------------------------------------------------- delValue *)

Lemma del_value_loop_encode : forall vs pre fuel value, Forall okv vs -> (length vs < fuel)%nat ->
  del_value_loop fuel (pre ++ encode vs) value (nlen pre) =
  match remove_first value vs with
  | Some vs' => Ok (pre ++ encode vs')
  | None => Err E_NXVAL
  end.
Proof.
  induction vs as [|v vs IH]; intros pre fuel value H F; destruct fuel as [|f]; try (simpl in F; lia).
  - cbn [del_value_loop encode remove_first]. rewrite app_nil_r. rewrite N.ltb_irrefl. reflexivity.
  - inversion H as [|? ? Hv Hvs]; subst. simpl in F.
    cbn [del_value_loop encode remove_first].
    set (data := pre ++ chunk v ++ encode vs).
    assert (L : nlen data = nlen pre + (4 + nlen v) + nlen (encode vs)).
    { unfold data. rewrite !nlen_app, nlen_chunk. lia. }
    rewrite L.
    destruct (N.ltb_spec (nlen pre) (nlen pre + (4 + nlen v) + nlen (encode vs))); [|lia].
    destruct (N.ltb_spec (nlen pre + (4 + nlen v) + nlen (encode vs)) (nlen pre + 4)); [lia|].
    assert (D1 : ndrop (nlen pre) data = u32le (nlen v) ++ (v ++ encode vs)).
    { unfold data. rewrite ndrop_app_len by reflexivity. unfold chunk. rewrite <- app_assoc. reflexivity. }
    rewrite D1. rewrite rd_u32le_u32le by exact Hv.
    destruct (N.ltb_spec (nlen pre + (4 + nlen v) + nlen (encode vs)) (nlen pre + (nlen v + 4))); [lia|].
    assert (S1 : slice data (nlen pre + 4) (nlen pre + (nlen v + 4)) = v).
    { unfold slice, data. unfold chunk. rewrite <- app_assoc. rewrite app_assoc.
      rewrite ndrop_app_len by (rewrite nlen_app, nlen_u32le; reflexivity).
      apply ntake_app_len. lia. }
    rewrite S1. rewrite len_and_eqb.
    destruct (bytes_eqb v value) eqn:E.
    + (* found: shift the tail down and cut *)
      f_equal.
      replace (nlen pre + (4 + nlen v) + nlen (encode vs) - (nlen v + 4)) with (nlen pre + nlen (encode vs)) by lia.
      destruct (N.ltb_spec (nlen pre + (nlen v + 4)) (nlen pre + (4 + nlen v) + nlen (encode vs))) as [Hlt|Hge].
      * unfold go_copy. rewrite L.
        assert (T1 : ntake (nlen pre) data = pre) by (unfold data; apply ntake_app_len; reflexivity).
        assert (T2 : ndrop (nlen pre + (nlen v + 4)) data = encode vs).
        { unfold data. rewrite app_assoc. apply ndrop_app_len. rewrite nlen_app, nlen_chunk. lia. }
        rewrite T1, T2.
        replace (N.min (nlen pre + (4 + nlen v) + nlen (encode vs) - nlen pre)
                       (nlen pre + (4 + nlen v) + nlen (encode vs) - (nlen pre + (nlen v + 4))))
          with (nlen (encode vs)) by lia.
        rewrite (ntake_all (encode vs)) by reflexivity.
        rewrite app_assoc. apply ntake_app_len. rewrite nlen_app. reflexivity.
      * assert (Z : nlen (encode vs) = 0) by lia. apply nlen_0_nil in Z. rewrite Z.
        rewrite app_nil_r. rewrite nlen_nil, N.add_0_r.
        unfold data. apply ntake_app_len. reflexivity.
    + (* not this one: go on behind the chunk *)
      replace (nlen pre + (nlen v + 4)) with (nlen (pre ++ chunk v)) by (rewrite nlen_app, nlen_chunk; lia).
      unfold data. rewrite app_assoc. rewrite IH by (assumption || lia).
      destruct (remove_first value vs) as [vs'|]; [|reflexivity].
      cbn [option_map encode]. rewrite <- app_assoc. reflexivity.
Qed.

Lemma del_value_encode : forall vs value, Forall okv vs ->
  del_value (encode vs) value =
  match remove_first value vs with
  | Some vs' => Ok (encode vs')
  | None => Err E_NXVAL
  end.
Proof.
  intros vs value H. unfold del_value.
  pose proof (del_value_loop_encode vs [] (S (length (encode vs))) value H) as P.
  cbn [app] in P. rewrite nlen_nil in P. apply P.
  pose proof (length_encode_ge vs). lia.
Qed.

(* on arbitrary bytes: the loop ends within its fuel and never indexes out of range *)
Lemma del_value_loop_total : forall fuel data value i, (N.to_nat (nlen data - i) < fuel)%nat ->
  match del_value_loop fuel data value i with
  | Ok d => nlen d + 4 <= nlen data
  | Err e => e = E_UEOF \/ e = E_NXVAL
  end.
Proof.
  induction fuel as [|f IH]; intros data value i H; [lia|].
  cbn [del_value_loop].
  destruct (N.ltb_spec i (nlen data)); [|right; reflexivity].
  destruct (N.ltb_spec (nlen data) (i + 4)); [left; reflexivity|].
  destruct (rd_u32le_some (ndrop i data)) as [m Hm]; [rewrite nlen_ndrop; lia|]. rewrite Hm.
  destruct (N.ltb_spec (nlen data) (i + (m + 4))); [left; reflexivity|].
  destruct ((nlen (slice data (i + 4) (i + (m + 4))) =? nlen value) && bytes_eqb (slice data (i + 4) (i + (m + 4))) value).
  - unfold ntake. unfold nlen at 1. rewrite firstn_length.
    match goal with |- context [length ?x] => generalize (length x) end. intro k. lia.
  - apply IH. lia.
Qed.

Lemma del_value_total : forall data value,
  match del_value data value with
  | Ok d => nlen d + 4 <= nlen data
  | Err e => e = E_UEOF \/ e = E_NXVAL
  end.
Proof.
  intros. unfold del_value. apply del_value_loop_total. unfold nlen. lia.
Qed.

(* ---------------------------------------------------------------- remove_first *)

Lemma remove_first_in : forall v l, remove_first v l <> None <-> In v l.
Proof.
  induction l as [|x l IH]; simpl.
  - split; [congruence | tauto].
  - destruct (bytes_eqb x v) eqn:E.
    + apply bytes_eqb_eq in E. split; [auto | congruence].
    + apply bytes_eqb_neq in E. destruct (remove_first v l); simpl.
      * split; [intro; right; apply IH; congruence | congruence].
      * split; [congruence | intros [A|A]; [contradiction | apply IH in A; congruence]].
Qed.

(* exactly one occurrence goes, everything else stays in place *)
Lemma remove_first_split : forall v l l', remove_first v l = Some l' ->
  exists a b, l = a ++ v :: b /\ l' = a ++ b /\ ~ In v a.
Proof.
  induction l as [|x l IH]; simpl; intros l' H; [discriminate|].
  destruct (bytes_eqb x v) eqn:E.
  - apply bytes_eqb_eq in E. inversion H; subst. exists [], l'. simpl. tauto.
  - apply bytes_eqb_neq in E. destruct (remove_first v l) as [r|]; [|discriminate].
    inversion H; subst. destruct (IH r eq_refl) as [a [b [A [B C]]]]. subst.
    exists (x :: a), b. simpl. repeat split; try reflexivity. intros [F|F]; [congruence | contradiction].
Qed.

(* ---------------------------------------------------------------- summary statements *)

Lemma append_values_nil : forall vs, append_values [] vs = encode vs.
Proof. intro. rewrite append_values_encode. reflexivity. Qed.

(* whatever was appended is read back, in order, and nothing else; the first chunk splits off *)
Lemma chunks_roundtrip : forall ws vs, Forall okv ws -> Forall okv vs ->
  for_each_data (append_values (append_values [] ws) vs) = (ws ++ vs, 0) /\
  find_data (append_values (append_values [] ws) vs) =
    match ws ++ vs with [] => Err E_EOF | v :: _ => Ok v end /\
  (forall v, okv v -> read_next_chunk (append_values [] (v :: vs)) = Ok (v, append_values [] vs)).
Proof.
  intros ws vs Hw Hv.
  assert (E : append_values (append_values [] ws) vs = encode (ws ++ vs)).
  { rewrite !append_values_encode, encode_app. reflexivity. }
  assert (W : Forall okv (ws ++ vs)) by (apply Forall_app; split; assumption).
  rewrite E. split; [apply for_each_data_encode; assumption|]. split; [apply find_data_encode; assumption|].
  intros v Ov. rewrite !append_values_nil. cbn [encode]. apply read_next_chunk_chunk. assumption.
Qed.

Lemma del_removes_one : forall vs v, Forall okv vs ->
  del_value (append_values [] vs) v =
    match remove_first v vs with
    | Some vs' => Ok (append_values [] vs')
    | None => Err E_NXVAL
    end /\
  (remove_first v vs = None <-> ~ In v vs) /\
  (forall vs', remove_first v vs = Some vs' -> exists a b, vs = a ++ v :: b /\ vs' = a ++ b /\ ~ In v a).
Proof.
  intros vs v H. split; [|split].
  - rewrite append_values_nil, del_value_encode by assumption.
    destruct (remove_first v vs); [rewrite append_values_nil|]; reflexivity.
  - pose proof (remove_first_in v vs) as I. destruct (remove_first v vs); split; intro X; try congruence.
    + exfalso. apply X. apply I. discriminate.
    + intro Y. apply I in Y. congruence.
  - intros vs' R. apply remove_first_split. assumption.
Qed.

(* on arbitrary stored bytes the loops end within their fuel and never index out of range *)
Lemma codec_total : forall data value,
  (match del_value data value with
   | Ok d => nlen d + 4 <= nlen data
   | Err e => e = E_UEOF \/ e = E_NXVAL
   end) /\
  (snd (for_each_data data) = 0 \/ snd (for_each_data data) = E_UEOF) /\
  (match read_next_chunk data with
   | Ok (v, rest) => 4 + nlen v + nlen rest = nlen data
   | Err e => e = E_EOF \/ e = E_UEOF
   end).
Proof.
  intros. split; [apply del_value_total|]. split; [|apply read_next_chunk_cases].
  unfold for_each_data. apply for_each_loop_fuel. lia.
Qed.
