(* AccumLink (GAP 1 of the end-to-end statement): the CONCRETE accumulator of Model/Accum.v
   (prefix-set records for CDB; the Rearranger's range-point records of every map with subnet
   lines for RocksDB) satisfies what the composed theorems assumed of the abstract one:
     - [side_ok]   (Proofs/FileLevel.v): its keys are foreign to the serve model;
     - [rp_codec]  (Proofs/LinkRdbDb.v): it emits exactly the range points of C03's Rearrange and
                   nothing else in the file is keyed like a range point (files without '!' lines).
   Hence C01_file_level, C03_rdb_db_from_compile / C03_rdb_compiled_is_lpm and the C10 scope theorems
   hold for the real codec configurations with no hypothesis about the accumulator.
   sort.Slice stays a parameter (sort_spec). *)
From DnsV Require Import Base.Bytes Base.Ip Spec.Lpm Model.Rearranger Model.Location Model.Ecs.
From DnsV Require Import Model.Compile Spec.MapOfLists Proofs.MultiValue Proofs.MapOfLists Proofs.Batch Proofs.CompilePipe.
From DnsV Require Import Model.Text Model.Preproc Model.Accum.
From DnsV Require Import Model.Store Model.LookupV1 Model.LookupV2 Model.Serve Spec.Answer Spec.Rows Spec.AnswerExtra Spec.Declared.
From DnsV Require Import Proofs.ZoneCut Proofs.RevOrder Proofs.V2Store Proofs.ReadsNames.
From DnsV Require Import Proofs.Lpm Proofs.Location Proofs.Rearranger Proofs.RdbLocate Proofs.SquashKeys.
From DnsV Require Import Proofs.Ecs Proofs.LinkEcsLpm Proofs.LinkRdbDb Proofs.LinkRdbModel.
From DnsV Require Import Proofs.DeclaredLink Proofs.DeclaredWf Proofs.FileLevel.
From Coq Require Import Lia Permutation ZifyN ZifyNat ZifyBool.
Open Scope N_scope.

(* ---------------------------------------------------------------- the accumulator's records *)
Lemma range_recs_rp_accum : forall sort nets ids, range_recs sort nets ids = rp_accum sort nets ids.
Proof.
  intros sort nets ids. induction ids as [|m ids IH]; [reflexivity|].
  cbn [range_recs rp_accum]. rewrite IH. reflexivity.
Qed.

Lemma parsed_lines_parsed : forall o serial f, parsed_lines o serial f = parsed o serial f.
Proof. reflexivity. Qed.

Lemma accum_rdb_unfold : forall sort o serial f,
  accum_rdb sort o serial f =
  match rp_accum sort (file_nets (parsed o serial f)) (ranger_ids (parsed o serial f)) with Ok a => a | Err _ => [] end.
Proof.
  intros. unfold accum_rdb, accum_of. rewrite range_recs_rp_accum, parsed_lines_parsed.
  destruct (rp_accum sort _ _); reflexivity.
Qed.

Lemma rp_key_foreign : forall m p, foreign_keyb (rp_key m p) = true.
Proof. intros [m1 m2] p. reflexivity. Qed.

(* the range-point records sit under foreign keys, whatever Rearrange returns *)
Lemma rp_accum_foreign : forall sort nets ids acc, rp_accum sort nets ids = Ok acc ->
  Forall (fun kv : bytes * bytes => foreign_keyb (fst kv) = true) acc.
Proof.
  intros sort nets ids acc E. apply Forall_forall. intros [k v] Hin.
  destruct (rp_accum_keys sort nets ids acc k v E Hin) as (m & pts & p & _ & _ & _ & -> & _).
  apply rp_key_foreign.
Qed.

(* GAP 1, first half: [side_ok] of the concrete accumulators, unconditionally *)
Theorem side_ok_rdb : forall sort o serial v2 f, side_ok (accum_rdb sort o serial) [feature_kv v2] f.
Proof.
  intros sort o serial v2 f. unfold side_ok. apply Forall_app. split.
  - rewrite accum_rdb_unfold.
    destruct (rp_accum sort _ _) as [acc|e] eqn:E; [exact (rp_accum_foreign _ _ _ _ E) | constructor].
  - constructor; [apply feature_kv_foreign | constructor].
Qed.

Theorem side_ok_cdb : forall o serial f, side_ok (accum_cdb o serial) [feature_kv false] f.
Proof. intros o serial f. unfold side_ok, accum_cdb, prefix_recs. repeat constructor. Qed.

(* ---------------------------------------------------------------- value sizes (C07's kvs_ok) *)
Lemma prefix_set_short : forall p F, okv (prefix_set p F).
Proof.
  intros p F. unfold okv, prefix_set, nlen.
  pose proof (filter_length_le (fun i => existsb (fun n => p (nl_net n) && (s_len (nl_net n) =? i)) (f_nets F)) (desc_from 128)) as H.
  change (length (desc_from 128)) with 129%nat in H. lia.
Qed.

Lemma accum_cdb_kvs_ok : forall o serial f, kvs_ok (accum_cdb o serial f).
Proof.
  intros. unfold kvs_ok, accum_cdb, prefix_recs. repeat constructor; cbn [snd]; apply prefix_set_short.
Qed.

Lemma accum_rdb_kvs_ok : forall sort o serial f, kvs_ok (accum_rdb sort o serial f).
Proof.
  intros. rewrite accum_rdb_unfold. destruct (rp_accum sort _ _) as [acc|e] eqn:E; [|constructor].
  unfold kvs_ok. apply Forall_forall. intros [k v] Hin.
  destruct (rp_accum_keys sort _ _ acc k v E Hin) as (m & pts & p & _ & _ & _ & _ & ->). cbn [snd]. apply rp_value_okv.
Qed.

Lemma feature_kvs_ok : forall v2, kvs_ok [feature_kv v2].
Proof. intros v2. unfold kvs_ok. constructor; [|constructor]. unfold okv, nlen. destruct v2; cbn; lia. Qed.

(* the values of a file's records are short when those of its lines are *)
Lemma records_kvs_ok : forall conv accum feature (f : list bytes),
  kvs_ok (flat_map (recs_of bytes conv) f) -> kvs_ok (accum f) -> kvs_ok feature ->
  kvs_ok (records bytes conv accum feature f).
Proof. intros conv accum feature f H1 H2 H3. unfold records, kvs_ok in *. apply Forall_app. split; [exact H1|]. apply Forall_app. split; assumption. Qed.

(* with NoRnetOutput a line emits a sublist of what it emits without *)
Lemma convert_nornet_incl : forall v2 r kv, In kv (convert v2 true r) -> In kv (convert v2 false r).
Proof. intros v2 r kv H. destruct r; try exact H. destruct H. Qed.

Lemma lines_kvs_ok_nornet : forall o serial v2 f,
  kvs_ok (flat_map (recs_of bytes (conv_line o serial false v2)) f) ->
  kvs_ok (flat_map (recs_of bytes (conv_line o serial true v2)) f).
Proof.
  intros o serial v2 f H. unfold kvs_ok in *. rewrite Forall_forall in *. intros kv Hin. apply H.
  apply in_flat_map in Hin as (l & Hl & Hin). apply in_flat_map. exists l. split; [exact Hl|].
  unfold recs_of, conv_line in *. destruct (parse_line o serial l) as [r|e]; [|destruct Hin].
  cbn [rbind] in *. apply convert_nornet_incl. exact Hin.
Qed.

(* ---------------------------------------------------------------- C01_file_level with the concrete codec *)
Section Closed.
Variable sort : list point -> list point.
Variable o : toracles.
Variable serial : N.
Variable f : list bytes.
Hypothesis WF : wf_file o serial f = true.
(* C07's guard, on the lines only: no value of 2^32 bytes or more *)
Hypothesis K1 : kvs_ok (flat_map (recs_of bytes (conv_line o serial false false)) f).
Hypothesis K2 : kvs_ok (flat_map (recs_of bytes (conv_line o serial false true)) f).

Lemma kvs_ok_cdb : kvs_ok (records bytes (conv_line o serial false false) (accum_cdb o serial) [feature_kv false] f).
Proof. apply records_kvs_ok; [exact K1 | apply accum_cdb_kvs_ok | apply feature_kvs_ok]. Qed.
Lemma kvs_ok_rdb : forall v2, kvs_ok (records bytes (conv_line o serial true v2) (accum_rdb sort o serial) [feature_kv v2] f).
Proof.
  intros v2. apply records_kvs_ok; [|apply accum_rdb_kvs_ok | apply feature_kvs_ok].
  apply lines_kvs_ok_nornet. destruct v2; assumption.
Qed.

(* the three backends as the real compilers configure the codec:
   CDB      NoRnetOutput = false, accumulator = prefix sets,   features record of v1 keys
   RocksDB  NoRnetOutput = true,  accumulator = range points,  features record of the key layout *)
Theorem file_level_closed : forall L,
  loc_okb L = true -> wf_view L (declared_file o serial f) = true ->
  forall q n ecs max x, wf_name n -> nlen (pack n) <= 255 -> lower_bytes (q_name q) = pack n ->
  (q_edns q = None \/ q_edns q = Some 0) ->
  (forall stream kvs st,
     Permutation stream (records bytes (conv_line o serial false false) (accum_cdb o serial) [feature_kv false] f) ->
     compile_cdb bytes (conv_line o serial false false) f stream = Ok kvs -> (forall k, Store.get st k = vals_of k kvs) ->
     serve CDB st q (LocOk L) ecs max = OReply x -> response_refines L (declared_file o serial f) n q ecs max x) /\
  (forall db st, rdb_compilation bytes (conv_line o serial true false) (accum_rdb sort o serial) [feature_kv false] f db ->
     rdb_dump db st ->
     serve RDB1 st q (LocOk L) ecs max = OReply x -> response_refines L (declared_file o serial f) n q ecs max x) /\
  (forall db st, rdb_compilation bytes (conv_line o serial true true) (accum_rdb sort o serial) [feature_kv true] f db ->
     rdb_dump db st ->
     serve RDB2 st q (LocOk L) ecs max = OReply x -> response_refines L (declared_file o serial f) n q ecs max x).
Proof.
  intros L HL V q n ecs max x Hn Hl Hq He. split; [|split].
  - intros stream kvs st P C G Hs.
    exact (file_level_cdb o serial false (accum_cdb o serial) [feature_kv false] f WF (side_ok_cdb o serial f)
             stream kvs st L P C G HL V q n ecs max x Hn Hl Hq He Hs).
  - intros db st C D Hs.
    exact (file_level_rdb_v1 o serial true (accum_rdb sort o serial) [feature_kv false] f WF (side_ok_rdb sort o serial false f)
             db st L ltac:(discriminate) (kvs_ok_rdb false) C D HL V q n ecs max x Hn Hl Hq He Hs).
  - intros db st C D Hs.
    exact (file_level_rdb_v2 o serial true (accum_rdb sort o serial) [feature_kv true] f WF (side_ok_rdb sort o serial true f)
             db st L ltac:(discriminate) (kvs_ok_rdb true) C D (loc_okb_len L HL) V q n ecs max x Hn Hl Hq He Hs).
Qed.
End Closed.

(* ---------------------------------------------------------------- rp_codec of the RocksDB configuration *)
(* files handed to the compiler as written (subnets as % lines): no range-point line.  A preprocessed
   file (dnsrocks-preproc output) carries '!' lines instead of '%' lines; there the accumulator is empty
   and the points are the file's own - outside this statement *)
Definition not_rp (r : Text.record) : bool := match r with RRangePoint _ _ _ _ _ => false | _ => true end.
Definition no_rp_lines (o : toracles) (serial : N) (f : list bytes) : bool := forallb not_rp (parsed o serial f).

Lemma is_rp_key_cons : forall a b t, is_rp_key (a :: b :: t) = true -> a = 0 /\ b = 0 /\ is_prefix [0; 33] t = true.
Proof.
  intros a b t H. unfold is_rp_key, rp_marker in H. cbn [is_prefix] in H.
  apply andb_true_iff in H as [H1 H]. apply andb_true_iff in H as [H2 H]. apply N.eqb_eq in H1, H2. subst.
  split; [reflexivity|]. split; [reflexivity|]. cbn [is_prefix]. exact H.
Qed.

(* the key of a declared record is not a range-point key, in either layout *)
Lemma row_key_not_rp : forall (v2 : bool) (r : Answer.record), wf_rec r -> is_rp_key (if v2 then key_v2 r else key_v1 r) = false.
Proof.
  intros v2 r W. destruct (wf_rec_owner_ok r W) as [Ho Hl]. destruct v2.
  - reflexivity.
  - unfold key_v1. destruct (loc_bytes r) as [|a [|b [|]]]; try discriminate Hl. cbn [app].
    destruct (is_rp_key (a :: b :: pack (r_owner r))) eqn:E; [|reflexivity]. exfalso.
    apply is_rp_key_cons in E as (_ & _ & E).
    destruct (r_owner r) as [|l p]; [discriminate E|]. rewrite pack_cons in E. cbn [app is_prefix] in E.
    inversion Ho as [|? ? Hlab _]; subst. unfold lab_ok in Hlab.
    apply andb_true_iff in E as [E _]. apply N.eqb_eq in E. lia.
Qed.

Lemma mapkey_not_rp : forall v2 marker dom, marker <> 0 -> is_rp_key (mapkey v2 marker dom) = false.
Proof.
  intros v2 marker dom H. assert (E : (0 =? marker) = false) by (apply N.eqb_neq; lia).
  unfold mapkey. destruct (is_wild dom); cbn [app]; unfold is_rp_key, rp_marker; cbn [is_prefix];
    rewrite E, andb_false_l, andb_false_r; reflexivity.
Qed.

(* no record a line emits under NoRnetOutput is keyed like a range point, unless the line is a '!' line *)
Lemma convert_not_rp : forall v2 r k v, dns_okb r = true -> not_rp r = true ->
  In (k, v) (convert v2 true r) -> is_rp_key k = false.
Proof.
  intros v2 r k v Hok Hn Hin. destruct (served r) eqn:S.
  - rewrite (convert_is_rows_of v2 true r Hok S) in Hin. unfold rows_of in Hin.
    pose proof (declared_wf r Hok) as W. rewrite Forall_forall in W.
    destruct v2; apply in_map_iff in Hin as (rc & E & Hrc); inversion E; subst.
    + exact (row_key_not_rp true rc (W rc Hrc)).
    + exact (row_key_not_rp false rc (W rc Hrc)).
  - destruct r; try discriminate S; try discriminate Hn; cbn [convert] in Hin.
    + destruct Hin.
    + destruct Hin as [E|[]]. inversion E; subst. apply mapkey_not_rp. discriminate.
    + destruct Hin as [E|[]]. inversion E; subst. apply mapkey_not_rp. discriminate.
Qed.

Lemma lines_not_rp : forall o serial v2 f k v, wf_file o serial f = true -> no_rp_lines o serial f = true ->
  In (k, v) (flat_map (recs_of bytes (conv_line o serial true v2)) f) -> is_rp_key k = false.
Proof.
  intros o serial v2 f k v. unfold no_rp_lines, parsed.
  induction f as [|l t IH]; intros WF NR Hin; [destruct Hin|].
  cbn [wf_file forallb] in WF. apply andb_true_iff in WF as [W1 W2]. unfold wf_line_dns in W1.
  cbn [flat_map] in NR, Hin. destruct (parse_line o serial l) as [r|e] eqn:E; [|discriminate W1].
  cbn [app forallb] in NR. apply andb_true_iff in NR as [N1 N2].
  apply in_app_or in Hin as [Hin|Hin]; [|exact (IH W2 N2 Hin)].
  unfold recs_of, conv_line in Hin. rewrite E in Hin. cbn [rbind] in Hin.
  exact (convert_not_rp v2 r k v W1 N1 Hin).
Qed.

(* GAP 1, second half: [rp_codec] of the RocksDB configuration *)
Theorem rp_codec_rdb : forall sort o serial v2 f, sort_spec sort ->
  wf_file o serial f = true -> no_rp_lines o serial f = true ->
  (forall m, wf_subnets (file_nets (parsed o serial f) m)) ->
  rp_codec bytes (conv_line o serial true v2) (accum_rdb sort o serial) [feature_kv v2] sort
           (file_nets (parsed o serial f)) (ranger_ids (parsed o serial f)) f.
Proof.
  intros sort o serial v2 f Hs WF NR Hw.
  destruct (rp_accum_total sort Hs _ Hw (ranger_ids (parsed o serial f))) as [acc Ea].
  exists acc, []. split; [exact Ea|]. split.
  - rewrite accum_rdb_unfold, Ea, app_nil_r. apply Permutation_refl.
  - intros k v Hin. apply in_app_or in Hin as [Hin|Hin]; [exact (lines_not_rp o serial v2 f k v WF NR Hin)|].
    cbn [app] in Hin. destruct Hin as [E|[]]. inversion E; subst. reflexivity.
Qed.

Lemma ranger_ids_ok : forall rs, NoDup (ranger_ids rs) /\ forall m, ~ In m (ranger_ids rs) -> file_nets rs m = [].
Proof. intros rs. split; [apply (file_ids_nodup (net_dfile rs)) | apply (file_ids_cover (net_dfile rs))]. Qed.

(* ---------------------------------------------------------------- C03 / C10 on the compiled RocksDB database *)
Section ClosedRdb.
Variable sort : list point -> list point.
Hypothesis Hsort : sort_spec sort.
Variable o : toracles.
Variable serial : N.
Variable v2 : bool.
Variable f : list bytes.
Hypothesis WF : wf_file o serial f = true.
Hypothesis NR : no_rp_lines o serial f = true.
Hypothesis Hw : forall m, wf_subnets (file_nets (parsed o serial f) m).
Hypothesis KV : kvs_ok (flat_map (recs_of bytes (conv_line o serial false v2)) f).

Let nets := file_nets (parsed o serial f).

Lemma kvs_ok_rdb' : kvs_ok (records bytes (conv_line o serial true v2) (accum_rdb sort o serial) [feature_kv v2] f).
Proof.
  apply records_kvs_ok; [|apply accum_rdb_kvs_ok | apply feature_kvs_ok]. apply lines_kvs_ok_nornet. exact KV.
Qed.

(* the database-contents hypothesis of C03_rdb_driver_is_lpm, for every RocksDB compilation of the file *)
Theorem rdb_compiled_holds_points : forall (db : Model.Batch.store) dbl,
  rdb_compilation bytes (conv_line o serial true v2) (accum_rdb sort o serial) [feature_kv v2] f db ->
  lists_store dbl db -> rdb_holds_points sort nets dbl.
Proof.
  intros db dbl C Hl. destruct (ranger_ids_ok (parsed o serial f)) as [ND CV].
  exact (rdb_db_from_compilation bytes _ _ _ sort nets (ranger_ids (parsed o serial f)) Hsort Hw ND CV f db dbl
           (rp_codec_rdb sort o serial v2 f Hsort WF NR Hw) ltac:(discriminate) kvs_ok_rdb' C Hl).
Qed.

(* C03: GetLocationByMap on it is longest-prefix match over the subnets the file declares *)
Theorem rdb_compiled_is_lpm_closed : forall (db : Model.Batch.store) dbl,
  rdb_compilation bytes (conv_line o serial true v2) (accum_rdb sort o serial) [feature_kv v2] f db ->
  lists_store dbl db ->
  forall m a bits ones plen, a < two128 -> client_plen a bits ones plen ->
  rdb_get_location dbl m (mkClient (Some a) bits ones) =
  Ok (lpm_result (lpm (nets m) (fam (clean_mask a plen)) (clean_mask a plen) plen)).
Proof.
  intros db dbl C Hl m a bits ones plen Ha Hc.
  destruct (rdb_compiled_holds_points db dbl C Hl m) as [pts [Ep [Hhas Honly]]].
  exact (rdb_driver_is_lpm sort Hsort _ (Hw m) pts Ep dbl m Hhas Honly a bits ones plen Ha Hc).
Qed.

(* C10: truthful scope and the deciding location *)
Theorem scope_truthful_rdb_compiled_closed : forall (db : Model.Batch.store) dbl fm8 fmM,
  rdb_compilation bytes (conv_line o serial true v2) (accum_rdb sort o serial) [feature_kv v2] f db ->
  lists_store dbl db ->
  forall ev q r e mo8 moM rip,
  fm8 = Ok mo8 -> fmM = Ok moM -> q_rip q = Some rip -> rip < two128 ->
  badvers q = false -> no_backend_error ev ->
  query_ecs q = Some e -> wf_ecs e ->
  Ecs.serve fm8 fmM (rdb_get_location dbl) ev q = Reply r ->
  exists e', reply_ecs r = Some e' /\
    e_scope e' = expected_scope nets (map_of mo8) e /\
    (e_fam e = 1 -> e_scope e' <= 32) /\ (e_fam e = 2 -> e_scope e' <= 128).
Proof.
  intros db dbl fm8 fmM C Hl.
  exact (scope_truthful_rdb sort nets dbl fm8 fmM Hsort Hw (rdb_compiled_holds_points db dbl C Hl)).
Qed.

Theorem fallback_to_resolver_rdb_compiled_closed : forall (db : Model.Batch.store) dbl fm8 fmM,
  rdb_compilation bytes (conv_line o serial true v2) (accum_rdb sort o serial) [feature_kv v2] f db ->
  lists_store dbl db ->
  forall ev q r mo8 moM rip,
  fm8 = Ok mo8 -> fmM = Ok moM -> q_rip q = Some rip -> rip < two128 ->
  badvers q = false -> no_backend_error ev ->
  (forall e, query_ecs q = Some e -> wf_ecs e) ->
  Ecs.serve fm8 fmM (rdb_get_location dbl) ev q = Reply r ->
  Ecs.r_loc r = match query_ecs q with
            | Some e => if id_eqb (ecs_decides nets (map_of mo8) e) (0, 0)
                        then resolver_decides nets (map_of moM) rip
                        else ecs_decides nets (map_of mo8) e
            | None => resolver_decides nets (map_of moM) rip
            end.
Proof.
  intros db dbl fm8 fmM C Hl.
  exact (fallback_to_resolver_rdb sort nets dbl fm8 fmM Hsort Hw (rdb_compiled_holds_points db dbl C Hl)).
Qed.

End ClosedRdb.

(* such compilations exist and can be listed (non-vacuity of the quantifier) *)
Theorem rdb_compiled_exists_closed : forall sort o serial v2 f,
  wf_file o serial f = true ->
  kvs_ok (flat_map (recs_of bytes (conv_line o serial false v2)) f) ->
  forall ksort, sort_ok ksort ->
  exists (db : Model.Batch.store) dbl,
    rdb_compilation bytes (conv_line o serial true v2) (accum_rdb sort o serial) [feature_kv v2] f db /\ lists_store dbl db.
Proof.
  intros sort o serial v2 f WF KV ksort Hk.
  assert (M1 : 1 <= 1) by reflexivity. assert (B1 : (1 <= 1)%nat) by constructor.
  pose proof (kvs_ok_rdb' sort o serial v2 f KV) as KV'.
  destruct (builder_lossless bytes (conv_line o serial true v2) (accum_rdb sort o serial) [feature_kv v2] ksort Hk 1 1%nat f
              (records bytes (conv_line o serial true v2) (accum_rdb sort o serial) [feature_kv v2] f) M1 B1
              ltac:(discriminate) (wf_file_accepted o serial true v2 f WF) KV' (Permutation_refl _))
    as [db [E [Hok Hv]]].
  destruct (compiled_store_listing bytes _ _ _ f db Hok Hv) as [dbl Hl].
  exists db, dbl. split; [|exact Hl].
  exact (by_builder bytes _ _ _ f db ksort 1 1%nat _ Hk M1 B1 (Permutation_refl _) E).
Qed.
