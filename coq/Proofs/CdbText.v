(* Proofs/CdbText: Make reads back what Dump printed (structured level):
   parse_text (dump_text kvs) = Ok kvs, hence make H (dump img) = Ok img for every
   image the writer produced. *)
From DnsV Require Import Base.Bytes Spec.Cdb Model.Cdb Proofs.CdbTable Proofs.Cdb.
From Coq Require Import Lia ZifyN ZifyNat ZifyBool.
Open Scope N_scope.

(* ------------------------------------------------------------------ decimal numbers *)

Definition is_digit (c : N) : Prop := 48 <= c /\ c <= 57.

Lemma digits_fuel_digit : forall f n acc, Forall is_digit acc -> Forall is_digit (digits_fuel f n acc).
Proof.
  induction f; simpl; intros; auto.
  assert (Forall is_digit ((48 + n mod 10) :: acc)).
  { constructor; auto. unfold is_digit. pose proof (N.mod_lt n 10 ltac:(lia)). lia. }
  destruct (n / 10 =? 0); auto.
Qed.

Lemma digits_fuel_len : forall f n acc, (length acc + match f with O => 0 | S _ => 1 end <= length (digits_fuel f n acc))%nat.
Proof.
  induction f; simpl; intros. lia.
  destruct (n / 10 =? 0). simpl; lia.
  specialize (IHf (n / 10) ((48 + n mod 10) :: acc)). simpl in IHf. destruct f; lia.
Qed.

(* value of "a followed by the digits of n" *)
Fixpoint shiftf (f : nat) (a n : N) : N :=
  match f with
  | O => a
  | S f' => if n / 10 =? 0 then a * 10 + n mod 10 else shiftf f' a (n / 10) * 10 + n mod 10
  end.

Lemma horner_digit : forall a d acc, d < 10 -> horner a ((48 + d) :: acc) = horner (a * 10 + d) acc.
Proof.
  intros. cbn [horner].
  assert ((48 <=? 48 + d) && (48 + d <=? 57) = true).
  { apply andb_true_iff. split; apply N.leb_le; lia. }
  rewrite H0. f_equal. lia.
Qed.

Lemma horner_digits_fuel : forall f n acc a, horner a (digits_fuel f n acc) = horner (shiftf f a n) acc.
Proof.
  induction f; simpl; intros; auto.
  pose proof (N.mod_lt n 10 ltac:(lia)).
  destruct (n / 10 =? 0).
  - apply horner_digit. auto.
  - rewrite IHf. apply horner_digit. auto.
Qed.

Lemma shiftf_0 : forall f n, n < 2 ^ N.of_nat f -> (0 < f)%nat -> shiftf f 0 n = n.
Proof.
  induction f; intros n Hn Hf. lia.
  simpl shiftf.
  pose proof (N.div_mod n 10 ltac:(lia)). pose proof (N.mod_lt n 10 ltac:(lia)).
  destruct (N.eqb_spec (n / 10) 0).
  - lia.
  - assert (Hq : n / 10 < 2 ^ N.of_nat f).
    { replace (N.of_nat (S f)) with (N.succ (N.of_nat f)) in Hn by lia.
      rewrite N.pow_succ_r' in Hn. lia. }
    assert (Hf' : (0 < f)%nat).
    { destruct f; try lia. }
    rewrite IHf; auto. lia.
Qed.

Lemma digits_fuel_enough : forall n, n < 2 ^ N.of_nat (S (N.to_nat (N.log2 n))).
Proof.
  intros. replace (N.of_nat (S (N.to_nat (N.log2 n)))) with (N.succ (N.log2 n)) by lia.
  destruct (N.eqb_spec n 0). subst. simpl. lia.
  apply N.log2_spec. lia.
Qed.

Lemma parse_num_digits : forall n, n < 4294967296 -> parse_num (digits n) = Some n.
Proof.
  intros n Hn. unfold parse_num, digits.
  pose proof (digits_fuel_len (S (N.to_nat (N.log2 n))) n []) as Hl.
  destruct (digits_fuel (S (N.to_nat (N.log2 n))) n []) eqn:E. simpl in Hl; lia.
  rewrite <- E. rewrite horner_digits_fuel. rewrite shiftf_0; try lia.
  - simpl. destruct (N.ltb_spec n 4294967296); auto. lia.
  - apply digits_fuel_enough.
Qed.

Lemma digits_digit : forall n, Forall is_digit (digits n).
Proof. intros. apply digits_fuel_digit. constructor. Qed.

Lemma read_until_app : forall d l rest, Forall (fun c => c <> d) l ->
  read_until d (l ++ d :: rest) = Some (l, rest).
Proof.
  induction l; simpl; intros. rewrite N.eqb_refl. auto.
  inversion H; subst. destruct (N.eqb_spec a d). contradiction. rewrite IHl; auto.
Qed.

Lemma read_until_digits : forall d n rest, (d < 48 \/ 57 < d) ->
  read_until d (digits n ++ d :: rest) = Some (digits n, rest).
Proof.
  intros. apply read_until_app. pose proof (digits_digit n) as Hd.
  rewrite Forall_forall in *. intros c Hc. apply Hd in Hc. unfold is_digit in Hc. lia.
Qed.

Lemma take_n_app : forall (k rest : bytes), take_n (nlen k) (k ++ rest) = Some (k, rest).
Proof.
  intros. unfold take_n, nlen. rewrite app_length.
  destruct (N.leb_spec (N.of_nat (length k)) (N.of_nat (length k + length rest))); try lia.
  rewrite Nat2N.id. f_equal. f_equal.
  - rewrite firstn_app, Nat.sub_diag, firstn_all. simpl. apply app_nil_r.
  - rewrite skipn_app, Nat.sub_diag, skipn_all. simpl. auto.
Qed.

(* ------------------------------------------------------------------ records *)

Definition small_kv (p : kv) : Prop := nlen (fst p) < 4294967296 /\ nlen (snd p) < 4294967296.

Lemma dump_rec_app : forall k v rest,
  dump_rec (k, v) ++ rest =
  43 :: digits (blen k) ++ 44 :: digits (blen v) ++ 58 :: k ++ 45 :: 62 :: v ++ 10 :: rest.
Proof.
  intros. unfold dump_rec. cbn [fst snd]. cbn [app].
  repeat (rewrite <- app_assoc; cbn [app]). reflexivity.
Qed.

Lemma parse_rec_dump : forall p rest, small_kv p ->
  exists s1, dump_rec p ++ rest = 43 :: s1 /\ parse_rec s1 = Some (p, rest).
Proof.
  intros [k v] rest [Hk Hv]. simpl in Hk, Hv.
  rewrite dump_rec_app. rewrite !blen_small by auto.
  eexists. split. reflexivity.
  unfold parse_rec.
  rewrite read_until_digits by lia. cbn [obind].
  rewrite parse_num_digits by auto. cbn [obind].
  rewrite read_until_digits by lia. cbn [obind].
  rewrite parse_num_digits by auto. cbn [obind].
  rewrite take_n_app. do 3 (cbn [obind eat]; rewrite ?N.eqb_refl).
  rewrite take_n_app. do 3 (cbn [obind eat]; rewrite ?N.eqb_refl). reflexivity.
Qed.

Lemma parse_recs_dump : forall kvs fuel, Forall small_kv kvs -> (length kvs < fuel)%nat ->
  parse_recs fuel (dump_text kvs) = Ok kvs.
Proof.
  induction kvs; intros fuel Hs Hf.
  - destruct fuel; try lia. simpl. auto.
  - destruct fuel; try (simpl in Hf; lia).
    inversion Hs; subst.
    cbn [dump_text].
    destruct (parse_rec_dump a (dump_text kvs) H1) as [s1 [E1 E2]].
    rewrite E1. cbn [parse_recs].
    change (43 =? 10) with false. change (43 =? 43) with true. cbn [negb].
    rewrite E2. rewrite IHkvs; auto. simpl in Hf. lia.
Qed.

Lemma dump_text_length : forall kvs, (length kvs < length (dump_text kvs))%nat.
Proof.
  induction kvs; simpl. lia.
  rewrite app_length. unfold dump_rec. simpl. lia.
Qed.

Lemma fits32_small : forall kvs, fits32 kvs -> Forall small_kv kvs.
Proof.
  unfold fits32, file_size. induction kvs; intros. constructor.
  simpl data_size in H. unfold rec_size in H at 1.
  constructor.
  - unfold small_kv. lia.
  - apply IHkvs. unfold nlen in *. simpl length in H. lia.
Qed.

Theorem parse_dump : forall kvs, fits32 kvs -> parse_text (dump_text kvs) = Ok kvs.
Proof.
  intros. unfold parse_text. apply parse_recs_dump.
  - apply fits32_small. auto.
  - pose proof (dump_text_length kvs). lia.
Qed.

(* Dump -> Make reproduces the image *)
Theorem dump_make : forall H kvs img, fits32 kvs -> write H kvs = Ok img ->
  make H (dump img) = Ok img.
Proof.
  intros H kvs img Hf Hw.
  destruct (tables_of_write H kvs img Hf Hw) as [Hr _].
  unfold make, dump. rewrite Hr, recs_kvs. rewrite parse_dump by auto. simpl. exact Hw.
Qed.

(* and Make of any text Dump could have printed is the writer on the pairs printed *)
Theorem make_of_dump_text : forall H kvs, fits32 kvs -> make H (dump_text kvs) = write H kvs.
Proof. intros. unfold make. rewrite parse_dump by auto. reflexivity. Qed.
