(* Proofs/Cdb: the writer as a whole (record layout, 256 tables) and the main theorem
   lookup_exact: for ANY hash function, reading a key from the written image returns
   exactly the values of that key in insertion order, then EOF. *)
From DnsV Require Import Base.Bytes Spec.Cdb Model.Cdb Proofs.CdbTable Proofs.CdbFind.
From Coq Require Import Lia ZifyN ZifyNat ZifyBool Sorted.
Open Scope N_scope.

(* ------------------------------------------------------------------ list facts *)

Lemma filter_filter {A} (p q : A -> bool) : forall l,
  filter p (filter q l) = filter (fun x => q x && p x) l.
Proof.
  induction l; simpl; auto. destruct (q a); simpl; auto. destruct (p a); simpl; congruence.
Qed.

Lemma filter_map {A B} (f : A -> B) (p : B -> bool) : forall l,
  filter p (map f l) = map f (filter (fun x => p (f x)) l).
Proof. induction l; simpl; auto. destruct (p (f a)); simpl; congruence. Qed.

Lemma filter_length_le {A} (p : A -> bool) : forall l, (length (filter p l) <= length l)%nat.
Proof. induction l; simpl; auto. destruct (p a); simpl; lia. Qed.

Lemma NoDup_map_filter {A B} (f : A -> B) (p : A -> bool) : forall l,
  NoDup (map f l) -> NoDup (map f (filter p l)).
Proof.
  induction l; simpl; intros; auto. inversion H; subst.
  destruct (p a); simpl; auto. constructor; auto.
  intro Hc. apply H2. apply in_map_iff in Hc. destruct Hc as [x [E Hx]].
  apply filter_In in Hx. apply in_map_iff. exists x. tauto.
Qed.

(* ------------------------------------------------------------------ record layout *)

Lemma blen_small : forall b, nlen b < 4294967296 -> blen b = nlen b.
Proof. intros. apply w32_small. auto. Qed.

Lemma next_pos_small : forall pos p, pos + rec_size p < 4294967296 ->
  next_pos pos p = pos + rec_size p.
Proof.
  intros. unfold next_pos, rec_size in *. rewrite !blen_small by lia. rewrite w32_small; lia.
Qed.

Lemma recs_lower : forall kvs pos r, pos + data_size kvs < 4294967296 ->
  In r (recs_from pos kvs) -> pos <= fst r /\ fst r < 4294967296.
Proof.
  induction kvs; simpl; intros pos r Hb Hr. contradiction.
  destruct Hr as [<-|Hr]. simpl; lia.
  rewrite next_pos_small in Hr by lia.
  apply IHkvs in Hr; lia.
Qed.

Lemma recs_nodup : forall kvs pos, pos + data_size kvs < 4294967296 ->
  NoDup (map fst (recs_from pos kvs)).
Proof.
  induction kvs; simpl; intros pos Hb. constructor.
  constructor.
  - intro Hc. apply in_map_iff in Hc. destruct Hc as [r [E Hr]].
    rewrite next_pos_small in Hr by lia. apply recs_lower in Hr; try lia.
    unfold rec_size in *. lia.
  - apply IHkvs. rewrite next_pos_small by lia. lia.
Qed.

Lemma recs_kvs : forall kvs pos, map snd (recs_from pos kvs) = kvs.
Proof. induction kvs; simpl; intros; auto. f_equal. auto. Qed.

Lemma recs_length : forall kvs pos, length (recs_from pos kvs) = length kvs.
Proof. induction kvs; simpl; intros; auto. Qed.

Lemma end_from_small : forall kvs pos, pos + data_size kvs < 4294967296 ->
  end_from pos kvs = pos + data_size kvs.
Proof.
  induction kvs; simpl; intros pos Hb. lia.
  rewrite next_pos_small by lia. rewrite IHkvs; lia.
Qed.

Lemma rec_at_in : forall recs r, NoDup (map fst recs) -> In r recs -> rec_at recs (fst r) = Some (snd r).
Proof.
  induction recs as [|[p x] recs]; simpl; intros r Hnd Hr. contradiction.
  inversion Hnd; subst. destruct Hr as [<-|Hr].
  - simpl. rewrite N.eqb_refl. auto.
  - destruct (N.eqb_spec p (fst r)).
    + exfalso. apply H1. subst p. apply in_map. auto.
    + apply IHrecs; auto.
Qed.

(* ------------------------------------------------------------------ the 256 tables *)

Lemma build_tables_spec : forall ents : list slot,
  Forall (fun a => snd a <> 0) ents -> NoDup (map snd ents) -> 2 * nlen ents < 4294967296 ->
  forall ids pos, exists tabs,
    build_tables ents ids pos = Ok tabs /\ length tabs = length ids /\
    forall n, (n < length ids)%nat ->
      let es := filter (in_table (nth n ids 0)) ents in
      let t := snd (nth n tabs (0, [])) in
      (es = [] /\ t = []) \/ (es <> [] /\ Inv (2 * length es) t es).
Proof.
  intros ents Hnz Hnd H32. induction ids as [|i ids]; intros pos.
  - exists []. simpl. repeat split; auto. intros; lia.
  - cbn [build_tables].
    destruct (filter (in_table i) ents) as [|e0 es0] eqn:Ees.
    + destruct (IHids pos) as [tabs [H1 [H2 H3]]]. rewrite H1. simpl.
      exists ((pos, []) :: tabs). repeat split; simpl; auto.
      intros n Hn. destruct n.
      * left. rewrite Ees. auto.
      * apply H3. lia.
    + rewrite <- Ees.
      assert (Hne : filter (in_table i) ents <> []) by (rewrite Ees; congruence).
      destruct (build_table_Inv (filter (in_table i) ents)) as [t [Ht HI]]; auto.
      * pose proof (filter_length_le (in_table i) ents). unfold nlen in *. lia.
      * rewrite Forall_forall in *. intros x Hx. apply filter_In in Hx. apply Hnz. tauto.
      * apply NoDup_map_filter. auto.
      * rewrite Ht. cbv beta iota.
        destruct (IHids (w32 (pos + 8 * nlen t))) as [tabs [H1 [H2 H3]]]. rewrite H1. simpl.
        exists ((pos, t) :: tabs). repeat split; simpl; auto.
        intros n Hn. destruct n.
        -- right. split; auto.
        -- apply H3. lia.
Qed.

Lemma nth_table_ids : forall n, (n < 256)%nat -> nth n table_ids 0 = N.of_nat n.
Proof.
  intros. unfold table_ids.
  rewrite (nth_indep _ 0 (N.of_nat 0)) by (rewrite map_length, seq_length; auto).
  rewrite map_nth. rewrite seq_nth; auto.
Qed.

(* ------------------------------------------------------------------ the writer succeeds *)

Section Main.
Variable H : bytes -> N.

Lemma fits32_data : forall kvs, fits32 kvs -> 2048 + data_size kvs < 4294967296 /\ 2 * nlen kvs < 4294967296.
Proof. unfold fits32, file_size. intros. lia. Qed.

Lemma ents_facts : forall kvs, fits32 kvs ->
  let recs := recs_from header_size kvs in
  let ents := map (entry_of H) recs in
  NoDup (map fst recs) /\ Forall (fun a => snd a <> 0) ents /\ NoDup (map snd ents) /\ 2 * nlen ents < 4294967296.
Proof.
  intros kvs Hf. destruct (fits32_data kvs Hf) as [Hd Hn]. cbv zeta.
  assert (Hnd : NoDup (map fst (recs_from header_size kvs))) by (apply recs_nodup; exact Hd).
  split; auto. split; [|split].
  - rewrite Forall_forall. intros a Ha. apply in_map_iff in Ha. destruct Ha as [r [<- Hr]].
    apply recs_lower in Hr; auto. unfold entry_of. simpl. unfold header_size in *. lia.
  - rewrite map_map. simpl. exact Hnd.
  - unfold nlen in *. rewrite map_length, recs_length. exact Hn.
Qed.

Lemma write_unfold : forall kvs, write H kvs =
  rbind (build_tables (map (entry_of H) (recs_from header_size kvs)) table_ids (end_from header_size kvs))
        (fun tabs => Ok (mkImage (recs_from header_size kvs) tabs)).
Proof. reflexivity. Qed.

Theorem write_ok : forall kvs, fits32 kvs -> exists img, write H kvs = Ok img.
Proof.
  intros kvs Hf. destruct (ents_facts kvs Hf) as [_ [H1 [H2 H3]]].
  rewrite write_unfold.
  destruct (build_tables_spec _ H1 H2 H3 table_ids (end_from header_size kvs)) as [tabs [Ht _]].
  rewrite Ht. simpl. eauto.
Qed.

(* ------------------------------------------------------------------ values *)

Lemma values_eq : forall kvs k, fits32 kvs ->
  let recs := recs_from header_size kvs in
  forall tabs,
  map (val (mkImage recs tabs))
      (filter (mt H (mkImage recs tabs) k) (filter (in_table (H k mod 256)) (map (entry_of H) recs)))
  = spec_vals kvs k.
Proof.
  intros kvs k Hf recs tabs.
  destruct (ents_facts kvs Hf) as [Hnd _]. fold recs in Hnd.
  rewrite filter_filter, filter_map, map_map.
  unfold spec_vals. rewrite <- (recs_kvs kvs header_size). fold recs.
  rewrite filter_map, map_map.
  assert (Hext : forall r, In r recs ->
            in_table (H k mod 256) (entry_of H r) && mt H (mkImage recs tabs) k (entry_of H r) = key_eqb k (snd r)).
  { intros r Hr. unfold mt, in_table, entry_of, key_eqb. simpl.
    rewrite (rec_at_in recs r Hnd Hr). destruct r as [pos [k' v]]. simpl.
    destruct (bytes_eqb k k') eqn:Ek.
    - apply bytes_eqb_eq in Ek. subst k'. rewrite !N.eqb_refl. auto.
    - rewrite !andb_false_r. auto. }
  rewrite (filter_ext_in _ _ _ Hext).
  apply map_ext_in. intros r Hr. apply filter_In in Hr. destruct Hr as [Hr _].
  unfold val, entry_of. simpl. rewrite (rec_at_in recs r Hnd Hr). destruct r as [pos [k' v]]. auto.
Qed.

(* ------------------------------------------------------------------ main theorem *)

Lemma find_all_empty : forall img k, tab_at img (H k mod 256) = [] -> find_all H img k = Ok [].
Proof.
  intros img k Ht. unfold find_all. cbn [next_all].
  replace (find H img k (find_start ctx0)) with (Eof, mkCtx 0 0 0 (H k mod 256) 0); auto.
  unfold find. cbn [c_loop find_start ctx0 c_khash c_kpos]. rewrite N.eqb_refl. rewrite Ht.
  reflexivity.
Qed.

Lemma tables_of_write : forall kvs img, fits32 kvs -> write H kvs = Ok img ->
  irecs img = recs_from header_size kvs /\
  forall i, i < 256 ->
    let es := filter (in_table i) (map (entry_of H) (recs_from header_size kvs)) in
    (es = [] /\ tab_at img i = []) \/ (es <> [] /\ Inv (2 * length es) (tab_at img i) es).
Proof.
  intros kvs img Hf Hw.
  destruct (ents_facts kvs Hf) as [Hnd [H1 [H2 H3]]].
  rewrite write_unfold in Hw.
  destruct (build_tables_spec _ H1 H2 H3 table_ids (end_from header_size kvs)) as [tabs [Ht [Hl Hs]]].
  rewrite Ht in Hw. cbn [rbind] in Hw. inversion Hw; subst img. clear Hw.
  split; auto. intros i Hi.
  assert (Hlen : length table_ids = 256%nat) by (unfold table_ids; rewrite map_length, seq_length; auto).
  specialize (Hs (N.to_nat i)). rewrite Hlen in Hs. specialize (Hs ltac:(lia)).
  cbv zeta in Hs. rewrite nth_table_ids in Hs by lia. rewrite N2Nat.id in Hs.
  exact Hs.
Qed.

Theorem lookup_exact : forall kvs img k, fits32 kvs -> write H kvs = Ok img ->
  find_all H img k = Ok (spec_vals kvs k).
Proof.
  intros kvs img k Hf Hw.
  destruct (ents_facts kvs Hf) as [Hnd [H1 [H2 H3]]].
  destruct (tables_of_write kvs img Hf Hw) as [Hrecs Htab].
  assert (Hi : H k mod 256 < 256) by (apply N.mod_lt; lia).
  specialize (Htab _ Hi). cbv zeta in Htab.
  pose proof (values_eq kvs k Hf (itabs img)) as Hv. cbv zeta in Hv.
  rewrite <- Hrecs in *.
  assert (Himg : mkImage (irecs img) (itabs img) = img) by (destruct img; auto).
  rewrite Himg in Hv. rewrite <- Hv.
  destruct Htab as [[He Ht0]|[Hne HI]].
  - rewrite He. apply find_all_empty. auto.
  - set (es := filter (in_table (H k mod 256)) (map (entry_of H) (irecs img))) in *.
    assert (Hpos : (0 < 2 * length es)%nat) by (destruct es; simpl; try congruence; lia).
    assert (Hle : (length es <= length (irecs img))%nat).
    { unfold es. pose proof (filter_length_le (in_table (H k mod 256)) (map (entry_of H) (irecs img))) as Hq.
      rewrite map_length in Hq. exact Hq. }
    assert (H32 : N.of_nat (2 * length es) < 4294967296).
    { unfold nlen in H3. rewrite map_length in H3. lia. }
    unfold find_all.
    apply (find_all_table H img k (tab_at img (H k mod 256)) es (2 * length es) Hpos H32 eq_refl HI).
    + rewrite Forall_forall in *. intros x Hx. apply filter_In in Hx. apply H1. tauto.
    + intros e He. apply filter_In in He. destruct He as [He _].
      apply in_map_iff in He. destruct He as [r [<- Hr]].
      exists (snd r). simpl. apply rec_at_in; auto.
    + reflexivity.
    + pose proof (filter_length_le (mt H img k) es). lia.
Qed.

End Main.

(* hypotheses are satisfiable for non-trivial values, with the real cdb hash *)
Example lookup_exact_example :
  let kvs := [([1], [10]); ([2], [20]); ([1], []); ([], [30]); ([1], [10])] in
  fits32 kvs /\
  match write cdb_hash kvs with
  | Ok img => find_all cdb_hash img [1] = Ok [[10]; []; [10]] /\ find_all cdb_hash img [3] = Ok []
  | Err _ => False
  end.
Proof. split. vm_compute. reflexivity. vm_compute. split; reflexivity. Qed.
