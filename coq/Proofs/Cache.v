(* Proofs/Cache: the response cache wrapper (Model/Cache.v) is invisible for
   answers not subject to weighted selection, modulo the letter case of owner
   names - as long as the formatted cache key separates the questions asked
   (finding F25: it does not when a qtype or qclass has more than three digits). *)
From DnsV Require Import Base.Bytes Model.Cache.
From Coq Require Import Lia.
Open Scope N_scope.

Lemma bytes_eqb_eq a b : bytes_eqb a b = true -> a = b.
Proof.
  revert b; induction a; destruct b; simpl; intros H; try discriminate; auto.
  apply andb_prop in H. destruct H as (H1&H2). apply N.eqb_eq in H1. f_equal; auto.
Qed.

Section P.
Variable content body response : Type.
Variable lower : bytes -> bytes.
Variable locate : content -> request -> N.
Variable serve_core : content -> key -> bytes -> N -> body.
Variable weightedf refusedf : content -> key -> bool.
Variable finish : body -> request -> N -> response.
Variable badvers : request -> bool.
Variable badvers_reply : request -> response.

(* equality of bodies / responses up to the letter case of owner names *)
Variable beq : body -> body -> Prop.
Variable req : response -> response -> Prop.
Hypothesis beq_refl : forall b, beq b b.
Hypothesis req_refl : forall a, req a a.
Hypothesis finish_proper : forall b1 b2 r l, beq b1 b2 -> req (finish b1 r l) (finish b2 r l).
(* the answer depends on the name as asked only through its lower-cased form, up to owner case *)
Hypothesis case_insensitive :
  forall g k a1 a2 rnd, lower a1 = lower a2 -> beq (serve_core g k a1 rnd) (serve_core g k a2 rnd).
(* answers without weighted selection do not depend on the random draws *)
Hypothesis deterministic :
  forall g k a r1 r2, weightedf g k = false -> serve_core g k a r1 = serve_core g k a r2.

(* the questions of a history: a predicate on keys on which the formatted key is injective *)
Variable P : key -> Prop.
Hypothesis key_injective : forall k1 k2, P k1 -> P k2 -> key_string k1 = key_string k2 -> k1 = k2.

Notation cache := (cache body).
Notation serve := (serve content body response lower locate serve_core weightedf refusedf finish badvers badvers_reply).
Notation serve_plain := (serve_plain content body response lower locate serve_core finish badvers badvers_reply).
Notation key_of := (key_of content lower locate).

(* every entry is what serve_core computes on the CURRENT generation for its key, for
   some asker's letter case and some random draws (entries of weighted answers: no claim) *)
Definition entry_ok (g : content) (s : bytes) (e : entry body) : Prop :=
  exists k a rnd, s = key_string k /\ P k /\ lower a = k_name k /\
                  (weightedf g k = false -> e_body e = serve_core g k a rnd).
Definition Inv (g : content) (c : cache) : Prop := forall s e, In (s, e) c -> entry_ok g s e.

Lemma in_remove s e k (c : cache) : In (s, e) (lru_remove body k c) -> In (s, e) c.
Proof.
  induction c as [|(k', e') c IH]; simpl; auto.
  destruct (bytes_eqb k' k); simpl; intuition.
Qed.

Lemma find_in k (c : cache) e : lru_find body k c = Some e -> In (k, e) c.
Proof.
  induction c as [|(k', e') c IH]; simpl; intros H; try discriminate.
  destruct (bytes_eqb k' k) eqn:E.
  - inversion H; subst. apply bytes_eqb_eq in E; subst; auto.
  - auto.
Qed.

Lemma in_firstn {A} n (l : list A) x : In x (firstn n l) -> In x l.
Proof. revert l; induction n; destruct l; simpl; intuition. Qed.

Lemma Inv_remove g k c : Inv g c -> Inv g (lru_remove body k c).
Proof. intros H s e I. apply H. eapply in_remove; eauto. Qed.

Lemma Inv_add g cap s e c : Inv g c -> entry_ok g s e -> Inv g (lru_add body cap s e c).
Proof.
  intros H E s' e' I. unfold lru_add in I. apply in_firstn in I. destruct I as [I|I].
  - inversion I; subst; auto.
  - apply H. eapply in_remove; eauto.
Qed.

Definition both_ok (w : bool) (a b : response) : Prop := w = false -> req a b.

(* one query: the invariant is kept and the two responses agree *)
Lemma serve_ok cfg g c now rnd rnd' r :
  Inv g c -> P (key_of g r) ->
  let '(c', resp, _) := serve cfg g c now rnd r in
  Inv g c' /\ both_ok (weightedf g (key_of g r)) resp (serve_plain g rnd' r).
Proof.
  intros HI HP. unfold Cache.serve, Cache.serve_plain. cbv zeta.
  destruct (badvers r); [split; auto; intros _; apply req_refl|].
  set (k := key_of g r) in *.
  set (b := serve_core g k (q_asked r) rnd).
  assert (EO : forall x, entry_ok g (key_string k) (mkE x b)).
  { intros x. exists k, (q_asked r), rnd. repeat split; auto. }
  assert (RESP : both_ok (weightedf g k) (finish b r (k_loc k)) (finish (serve_core g k (q_asked r) rnd') r (k_loc k))).
  { intros W. unfold b. rewrite (deterministic g k (q_asked r) rnd rnd' W). apply finish_proper, beq_refl. }
  assert (INS : forall c0, Inv g c0 ->
    Inv g (if negb (cc_enabled cfg) || refusedf g k then c0
           else if negb (weightedf g k) then lru_add body (cc_cap cfg) (key_string k) (mkE (now + 1000) b) c0
           else if 0 <? cc_wrs cfg then lru_add body (cc_cap cfg) (key_string k) (mkE (now + cc_wrs cfg) b) c0
           else c0)).
  { intros c0 H0.
    destruct (negb (cc_enabled cfg) || refusedf g k); auto.
    destruct (negb (weightedf g k)); [apply Inv_add; auto|].
    destruct (0 <? cc_wrs cfg); [apply Inv_add; auto|auto]. }
  destruct (cc_enabled cfg) eqn:EN.
  - unfold lru_get. destruct (lru_find body (key_string k) c) as [e|] eqn:F.
    + assert (IC : Inv g ((key_string k, e) :: lru_remove body (key_string k) c)).
      { intros s' e' [I|I]; [inversion I; subst; apply HI; eapply find_in; eauto|apply HI; eapply in_remove; eauto]. }
      destruct (e_exp e <? now).
      * split; [|exact RESP]. apply INS. apply Inv_remove. exact IC.
      * split; [exact IC|].
        intros W. apply find_in in F. destruct (HI _ _ F) as (k'&a&rn&KS&PK&LA&EB).
        assert (k' = k) by (apply key_injective; auto). subst k'.
        rewrite (EB W). rewrite (deterministic g k a rn rnd' W).
        apply finish_proper, case_insensitive. rewrite LA. reflexivity.
    + split; [|exact RESP]. apply INS; auto.
  - split; [|exact RESP]. apply INS; auto.
Qed.

(* both handlers fed the same history; rnd' : the uncached handler's own random draws *)
Fixpoint both (cfg : cconfig) (rnd' : N -> N) (g : content) (c : cache) (h : list (event content))
  : list (bool * response * response) :=
  match h with
  | [] => []
  | EQuery _ now rnd r :: h' =>
      let '(c', resp, _) := serve cfg g c now rnd r in
      (weightedf g (key_of g r), resp, serve_plain g (rnd' rnd) r) :: both cfg rnd' g c' h'
  | EReload _ g' :: h' => both cfg rnd' g' [] h'
  | EReloadFailed _ :: h' => both cfg rnd' g c h'
  end.

(* every question of the history (under the generation in force when it is asked) is in P *)
Fixpoint hist_ok (g : content) (h : list (event content)) : Prop :=
  match h with
  | [] => True
  | EQuery _ _ _ r :: h' => P (key_of g r) /\ hist_ok g h'
  | EReload _ g' :: h' => hist_ok g' h'
  | EReloadFailed _ :: h' => hist_ok g h'
  end.

(* a cache that is empty or disabled trivially satisfies the invariant of any new generation *)
Lemma Inv_nil g : Inv g [].
Proof. intros ? ? []. Qed.

Theorem cached_equals_uncached cfg rnd' h : forall g c,
  Inv g c -> hist_ok g h ->
  Forall (fun x => let '(w, a, b) := x in both_ok w a b) (both cfg rnd' g c h).
Proof.
  induction h as [|ev h IH]; intros g c HI HH; simpl; auto.
  destruct ev as [now rnd r|g'|]; simpl in *.
  - destruct HH as (HP&HH).
    pose proof (serve_ok cfg g c now rnd (rnd' rnd) r HI HP) as S.
    destruct (serve cfg g c now rnd r) as ((c'&resp)&o). destruct S as (I'&B).
    constructor; auto.
  - apply IH; auto. apply Inv_nil.
  - apply IH; auto.
Qed.

(* [both] is the cached run paired with the uncached run *)
Lemma both_cached cfg rnd' h : forall g c,
  map (fun x => snd (fst x)) (both cfg rnd' g c h) =
  flat_map (fun o => match o with Some (r, _) => [r] | None => [] end)
           (crun content body response lower locate serve_core weightedf refusedf finish badvers badvers_reply cfg (g, c) h).
Proof.
  induction h as [|ev h IH]; intros g c; simpl; auto.
  destruct ev as [now rnd r|g'|]; simpl.
  - destruct (serve cfg g c now rnd r) as ((c'&resp)&o). simpl. f_equal. apply IH.
  - apply IH.
  - apply IH.
Qed.
End P.

(* ------------------------------------------------------------ the formatted key *)
(* "[aaa bbb]|qtype|qclass|name" determines location, qtype, qclass (16-bit numbers) and name *)
Definition digit (d : N) : Prop := 48 <= d <= 57.
Definition dval_from (acc : N) (l : bytes) : N := fold_left (fun a d => a * 10 + (d - 48)) l acc.

Lemma digits_fuel_app f : forall n acc, digits_fuel f n acc = digits_fuel f n [] ++ acc.
Proof.
  induction f; intros n acc; cbn [digits_fuel app]; auto.
  destruct (n / 10 =? 0); auto.
  set (d := 48 + n mod 10).
  rewrite (IHf (n / 10) (d :: acc)), (IHf (n / 10) [d]). rewrite <- app_assoc. reflexivity.
Qed.

Lemma dval_from_app acc a b : dval_from acc (a ++ b) = dval_from (dval_from acc a) b.
Proof. unfold dval_from. apply fold_left_app. Qed.

Lemma digits_fuel_val f : forall n, n < 10 ^ N.of_nat f -> dval_from 0 (digits_fuel f n []) = n.
Proof.
  induction f; intros n H.
  - simpl in *. assert (n = 0) by lia. subst; reflexivity.
  - rewrite Nat2N.inj_succ, N.pow_succ_r' in H.
    cbn [digits_fuel]. destruct (n / 10 =? 0) eqn:E.
    + apply N.eqb_eq in E. apply N.div_small_iff in E; try lia.
      unfold dval_from; cbn [fold_left]. rewrite N.mod_small by lia. lia.
    + rewrite digits_fuel_app, dval_from_app. rewrite IHf.
      * unfold dval_from; cbn [fold_left]. assert (X : n = 10 * (n / 10) + n mod 10) by (apply N.div_mod; discriminate).
        clear - X. generalize dependent (n / 10). generalize dependent (n mod 10). intros; lia.
      * apply N.div_lt_upper_bound; lia.
Qed.

Lemma digits_val n : n < 65536 -> dval_from 0 (digits n) = n.
Proof.
  intros H. apply digits_fuel_val. eapply N.lt_trans; [exact H|]. reflexivity.
Qed.

Lemma digits_fuel_digit f : forall n acc, Forall digit acc -> Forall digit (digits_fuel f n acc).
Proof.
  induction f; intros n acc H; cbn [digits_fuel]; auto.
  assert (D : digit (48 + n mod 10)).
  { unfold digit. assert (X : n mod 10 < 10) by (apply N.mod_upper_bound; discriminate).
    generalize dependent (n mod 10). intros; lia. }
  destruct (n / 10 =? 0); auto.
Qed.

Lemma digits_digit n : Forall digit (digits n).
Proof. apply digits_fuel_digit. constructor. Qed.

Lemma pad3_digit n : Forall digit (pad3 n).
Proof.
  unfold pad3. pose proof (digits_digit n) as D.
  assert (Z : digit 48) by (unfold digit; lia).
  destruct (length (digits n)) as [|[|[|m]]]; auto.
Qed.

Lemma pad3_val n : n < 65536 -> dval_from 0 (pad3 n) = n.
Proof.
  intros H. unfold pad3. pose proof (digits_val n H) as V.
  destruct (length (digits n)) as [|[|[|m]]]; auto.
Qed.

Lemma split_sep s : ~ digit s -> forall a1 a2 b1 b2,
  Forall digit a1 -> Forall digit a2 -> a1 ++ s :: b1 = a2 ++ s :: b2 -> a1 = a2 /\ b1 = b2.
Proof.
  intros NS. induction a1 as [|x a1 IH]; intros [|y a2] b1 b2 D1 D2 E; simpl in E.
  - inversion E; auto.
  - inversion E; subst. inversion D2; subst. contradiction.
  - inversion E; subst. inversion D1; subst. contradiction.
  - inversion E; subst. inversion D1; inversion D2; subst.
    destruct (IH a2 b1 b2) as (?&?); auto. subst; auto.
Qed.

Definition wf_key (k : key) : Prop := k_loc k < 65536 /\ k_qtype k < 65536 /\ k_qclass k < 65536.

Theorem key_string_injective k1 k2 :
  wf_key k1 -> wf_key k2 -> key_string k1 = key_string k2 -> k1 = k2.
Proof.
  intros (L1&T1&C1) (L2&T2&C2) E. unfold key_string in E.
  assert (ND : forall s, s = 32 \/ s = 93 \/ s = 124 -> ~ digit s).
  { unfold digit; intros s H; destruct H as [H|[H|H]]; subst; lia. }
  simpl in E. inversion E as [E1]. clear E.
  apply (split_sep 32 (ND _ (or_introl eq_refl))) in E1; try apply pad3_digit. destruct E1 as (A&E1).
  apply (split_sep 93 (ND _ (or_intror (or_introl eq_refl)))) in E1; try apply pad3_digit. destruct E1 as (B&E1).
  inversion E1 as [E2]. clear E1.
  apply (split_sep 124 (ND _ (or_intror (or_intror eq_refl)))) in E2; try apply digits_digit. destruct E2 as (T&E2).
  apply (split_sep 124 (ND _ (or_intror (or_intror eq_refl)))) in E2; try apply digits_digit. destruct E2 as (C&NM).
  assert (Q1 : k_loc k1 / 256 < 65536) by (apply N.div_lt_upper_bound; lia).
  assert (Q2 : k_loc k2 / 256 < 65536) by (apply N.div_lt_upper_bound; lia).
  assert (M1 : k_loc k1 mod 256 < 65536).
  { eapply N.lt_trans; [apply N.mod_upper_bound; discriminate|reflexivity]. }
  assert (M2 : k_loc k2 mod 256 < 65536).
  { eapply N.lt_trans; [apply N.mod_upper_bound; discriminate|reflexivity]. }
  assert (HA : k_loc k1 / 256 = k_loc k2 / 256).
  { rewrite <- (pad3_val _ Q1), <- (pad3_val _ Q2). congruence. }
  assert (HB : k_loc k1 mod 256 = k_loc k2 mod 256).
  { rewrite <- (pad3_val _ M1), <- (pad3_val _ M2). congruence. }
  assert (HT : k_qtype k1 = k_qtype k2) by (rewrite <- (digits_val _ T1), <- (digits_val _ T2); congruence).
  assert (HC : k_qclass k1 = k_qclass k2) by (rewrite <- (digits_val _ C1), <- (digits_val _ C2); congruence).
  assert (HL : k_loc k1 = k_loc k2).
  { rewrite (N.div_mod (k_loc k1) 256), (N.div_mod (k_loc k2) 256) by discriminate. congruence. }
  destruct k1, k2; simpl in *; congruence.
Qed.

(* the theorem with the actual key: questions are separated whenever location, qtype and
   qclass are 16-bit numbers (they are: two location bytes, uint16 type and class) *)
Theorem cache_invisible
  (content body response : Type) (lower : bytes -> bytes) (locate : content -> request -> N)
  (serve_core : content -> key -> bytes -> N -> body) (weightedf refusedf : content -> key -> bool)
  (finish : body -> request -> N -> response)
  (badvers : request -> bool) (badvers_reply : request -> response)
  (beq : body -> body -> Prop) (req : response -> response -> Prop) :
  (forall b, beq b b) -> (forall a, req a a) ->
  (forall b1 b2 r l, beq b1 b2 -> req (finish b1 r l) (finish b2 r l)) ->
  (forall g k a1 a2 rnd, lower a1 = lower a2 -> beq (serve_core g k a1 rnd) (serve_core g k a2 rnd)) ->
  (forall g k a r1 r2, weightedf g k = false -> serve_core g k a r1 = serve_core g k a r2) ->
  forall cfg rnd' h g,
  hist_ok content lower locate wf_key g h ->
  Forall (fun x => let '(w, a, b) := x in w = false -> req a b)
         (both content body response lower locate serve_core weightedf refusedf finish badvers badvers_reply cfg rnd' g [] h).
Proof.
  intros H1 H0 H2 H3 H4 cfg rnd' h g HH.
  eapply (cached_equals_uncached content body response lower locate serve_core weightedf refusedf finish
            badvers badvers_reply beq req H1 H0 H2 H3 H4 wf_key key_string_injective cfg rnd' h g []); auto.
  apply Inv_nil.
Qed.

(* ------------------------------------------------------------ a concrete instance *)
(* generations are numbers; the body is the name as asked followed by the generation; bodies are
   equivalent when they agree up to ASCII case; key 7 is weighted (body depends on the draw) *)
Definition ex_lower (l : bytes) : bytes := map (fun b => if (65 <=? b) && (b <=? 90) then b + 32 else b) l.
Definition ex_core (g : N) (k : key) (asked : bytes) (rnd : N) : bytes :=
  asked ++ [g] ++ (if k_qtype k =? 7 then [rnd] else []).
Definition ex_weighted (_ : N) (k : key) : bool := k_qtype k =? 7.
Definition ex_finish (b : bytes) (r : request) (loc : N) : bytes * N * N := (b, q_extra r, loc).
Definition ex_hist : list (event N) :=
  [EQuery N 100 1 (mkReq 1 [87; 119; 87] 1 1 11);      (* "WwW": miss *)
   EQuery N 101 2 (mkReq 1 [119; 119; 119] 1 1 12);    (* "www": hit, carries the first asker's case *)
   EQuery N 102 3 (mkReq 2 [119; 119; 119] 1 1 13);    (* other location: miss *)
   EQuery N 103 4 (mkReq 1 [119] 7 1 14);              (* weighted: never cached *)
   EQuery N 103 9 (mkReq 1 [87; 119; 87] 1 1 99);      (* unsupported EDNS version (extra = 99): BADVERS although the key is cached *)
   EReload N 5;
   EQuery N 104 5 (mkReq 1 [119; 119; 119] 1 1 15);    (* after the reload: computed on generation 5 *)
   EQuery N 2000 6 (mkReq 1 [119; 119; 119] 1 1 16)].  (* 1896 s later: expired *)

Example cache_example :
  map (fun o => match o with Some (r, oc) => Some (fst (fst r), oc) | None => None end)
      (crun N bytes (bytes * N * N) ex_lower (fun _ r => q_from r) ex_core ex_weighted (fun _ _ => false) ex_finish
            (fun r => q_extra r =? 99) (fun r => ([66], q_extra r, 0)) (mkCC true 2 0) (4, []) ex_hist) =
  [Some ([87; 119; 87; 4], OMiss); Some ([87; 119; 87; 4], OHit); Some ([119; 119; 119; 4], OMiss);
   Some ([119; 4; 4], OMiss); Some ([66], OOff); None; Some ([119; 119; 119; 5], OMiss); Some ([119; 119; 119; 5], OExpired)] /\
  hist_ok N ex_lower (fun _ r => q_from r) wf_key 4 ex_hist.
Proof. split; [vm_compute; reflexivity|]. cbn. unfold wf_key; cbn. repeat split; reflexivity. Qed.
