(* Proofs/LinkWrsServeExample: the composition C11 x C01 is not vacuous (vm_compute). *)
From DnsV Require Import Base.Bytes Model.Store Model.LookupV1 Model.Serve.
From DnsV Require Import Spec.Answer Spec.Rows Spec.AnswerExtra Proofs.Compile.
From DnsV Require Model.Wrs Proofs.Wrs.
From DnsV Require Import Model.ComposeMore Proofs.LinkWrsServe.
Open Scope N_scope.

(* the draw-as-key instance satisfies the assumption made about keys *)
Lemma draw_key_pos : forall u w, u <= Model.Wrs.maxU32 ->
  Model.Wrs.rk_pos (draw_key u w) = Model.Wrs.dk_pos (u, w).
Proof.
  intros u w Hu. unfold draw_key, Model.Wrs.rk_pos.
  destruct (Model.Wrs.dk_pos (u, w)) eqn:E; [|reflexivity].
  unfold Model.Wrs.dk_pos in E. apply N.ltb_lt.
  destruct (w =? 0); [apply N.eqb_eq in E; subst u; reflexivity|apply N.ltb_lt in E; exact E].
Qed.

(* zone z. (SOA, NS n.z. with two addresses of weight 1 and 3, one of them for location ab);
   a.z. has four A records of weights 1, 0, 2, 5 and an AAAA of weight 0; w.z. has only a weight-0 A *)
Definition e_soa : bytes := [0; 0; 0; 0; 0; 1; 0; 0; 0; 2; 0; 0; 0; 3; 0; 0; 0; 4; 0; 0; 0; 5].
Definition e_recs : list record :=
  [mkRec [[122]] false None 6 60 0 e_soa;
   mkRec [[122]] false None 2 60 0 [1; 110; 1; 122; 0];
   mkRec [[110]; [122]] false None 1 30 1 [192; 0; 2; 7];
   mkRec [[110]; [122]] false (Some [97; 98]) 1 40 3 [192; 0; 2; 8];
   mkRec [[97]; [122]] false None 1 10 1 [10; 0; 0; 1];
   mkRec [[97]; [122]] false None 1 10 0 [10; 0; 0; 2];
   mkRec [[97]; [122]] false None 1 10 2 [10; 0; 0; 3];
   mkRec [[97]; [122]] false None 1 10 5 [10; 0; 0; 4];
   mkRec [[97]; [122]] false None 28 10 0 [1; 2; 3; 4; 5; 6; 7; 8; 9; 10; 11; 12; 13; 14; 15; 16];
   mkRec [[119]; [122]] false None 1 10 0 [10; 0; 0; 9]].
Definition e_L : bytes := [97; 98].
(* draws: candidate j of any pick draws 1000 * (j + 1) (so later candidates have larger keys) *)
Definition e_dr : draws := fun _ _ j => 1000 * (N.min (N.of_nat j) 1000 + 1).
Definition e_q1 : query := mkQ 1 [1; 65; 1; 122; 0] 255 1 None.      (* ANY A.z. *)
Definition e_q2 : query := mkQ 2 [1; 119; 1; 122; 0] 1 1 None.       (* A w.z. *)
Definition e_q3 : query := mkQ 3 [1; 122; 0] 2 1 None.               (* NS z. *)

(* expected values *)
Definition e_n1 : name := [[97]; [122]].
Definition e_x1 : response :=
  mkResp 1 (Some ([1; 65; 1; 122; 0], 255, 1)) 0 true
    [IPick [1; 65; 1; 122; 0] 1 1 [(10, 1, [10; 0; 0; 1]); (10, 0, [10; 0; 0; 2]); (10, 2, [10; 0; 0; 3]); (10, 5, [10; 0; 0; 4])] 2]
    [] [] None.
Definition e_y1 : cresponse :=
  mkCResp 1 (Some ([1; 65; 1; 122; 0], 255, 1)) 0 true
    [mkRR [1; 65; 1; 122; 0] 1 1 10 [10; 0; 0; 4]; mkRR [1; 65; 1; 122; 0] 1 1 10 [10; 0; 0; 3]] [] [] None.
Definition e_y2 : cresponse :=
  mkCResp 2 (Some ([1; 119; 1; 122; 0], 1, 1)) 0 true [] [mkRR [1; 122; 0] 6 1 60 e_soa] [] None.
Definition e_y3 : cresponse :=
  mkCResp 3 (Some ([1; 122; 0], 2, 1)) 0 true
    [mkRR [1; 122; 0] 2 1 60 [1; 110; 1; 122; 0]] []
    [mkRR [1; 110; 1; 122; 0] 1 1 30 [192; 0; 2; 7]] None.

Example served_addresses_example :
  wf_view e_L e_recs = true /\
  lower_bytes (q_name e_q1) = pack e_n1 /\
  (* ANY a.z., max answer 2: the two positive-weight A records with the largest keys; no AAAA (weight 0) *)
  serve CDB (store_v1 e_recs) e_q1 (LocOk e_L) None 2 = OReply e_x1 /\
  (forall x, serve CDB (store_v1 e_recs) e_q1 (LocOk e_L) None 2 = OReply x ->
     realise N Model.Wrs.rk_lt Model.Wrs.rk_pos draw_key e_dr 2 x = e_y1) /\
  (* A w.z.: only a weight-0 address: NOERROR (the name exists), empty answer, SOA *)
  (forall x, serve CDB (store_v1 e_recs) e_q2 (LocOk e_L) None 2 = OReply x ->
     realise N Model.Wrs.rk_lt Model.Wrs.rk_pos draw_key e_dr 2 x = e_y2) /\
  (* NS z.: the additional section gets ONE of the two visible addresses of n.z. (max 1) *)
  (forall x, serve CDB (store_v1 e_recs) e_q3 (LocOk e_L) None 2 = OReply x ->
     realise N Model.Wrs.rk_lt Model.Wrs.rk_pos draw_key e_dr 2 x = e_y3) /\
  (forall s i j, 0 < e_dr s i j < Model.Wrs.maxU32).
Proof.
  split; [vm_compute; reflexivity|]. split; [vm_compute; reflexivity|]. split; [vm_compute; reflexivity|].
  split; [intros x H; vm_compute in H; inversion H; subst x; vm_compute; reflexivity|].
  split; [intros x H; vm_compute in H; inversion H; subst x; vm_compute; reflexivity|].
  split; [intros x H; vm_compute in H; inversion H; subst x; vm_compute; reflexivity|].
  intros s i j. unfold e_dr, Model.Wrs.maxU32. lia.
Qed.

(* the range hypothesis on the draws is needed (finding F18 inside the served answer): with the draw 2^32-1 for
   the weight-0 candidate of ANY a.z. (index 1) its key is Pow(1, +Inf) = 1, the largest: the weight-0 address
   10.0.0.2 is served, together with 10.0.0.4 *)
Definition e_dr18 : draws := fun _ _ j => if (j =? 1)%nat then Model.Wrs.maxU32 else 1000 * (N.min (N.of_nat j) 1000 + 1).
Definition e_y18 : cresponse :=
  mkCResp 1 (Some ([1; 65; 1; 122; 0], 255, 1)) 0 true
    [mkRR [1; 65; 1; 122; 0] 1 1 10 [10; 0; 0; 4]; mkRR [1; 65; 1; 122; 0] 1 1 10 [10; 0; 0; 2]] [] [] None.

Example served_zero_weight_refuted :
  realise N Model.Wrs.rk_lt Model.Wrs.rk_pos draw_key e_dr18 2 e_x1 = e_y18 /\
  In (mkRec [[97]; [122]] false None 1 10 0 [10; 0; 0; 2]) e_recs /\
  In (mkRR (q_name e_q1) 1 1 10 [10; 0; 0; 2]) (c_an e_y18) /\
  (forall s i j, e_dr18 s i j <= Model.Wrs.maxU32).
Proof.
  split; [vm_compute; reflexivity|]. split; [vm_compute; tauto|]. split; [right; left; reflexivity|].
  intros s i j. unfold e_dr18, Model.Wrs.maxU32. destruct (j =? 1)%nat; lia.
Qed.
