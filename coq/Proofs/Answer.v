(* Proofs about Spec/Answer (the declarative reading of C01). *)
From DnsV Require Import Base.Bytes Spec.Answer.
Open Scope N_scope.

(* z is n or an ancestor of n *)
Fixpoint ancestor_or_self (z n : name) : Prop :=
  z = n \/ match n with [] => False | _ :: p => ancestor_or_self z p end.

Lemma zone_cut_sound : forall L recs n z,
  zone_cut L recs n = Some z ->
  ancestor_or_self z n /\ nonempty (of_type 2 (own_records L recs z)) = true.
Proof.
  induction n as [|l p IH]; intros z H; cbn [zone_cut] in H.
  - destruct (nonempty (of_type 2 (own_records L recs []))) eqn:E; [|discriminate].
    inversion H; subst. split; [left; reflexivity | exact E].
  - destruct (nonempty (of_type 2 (own_records L recs (l :: p)))) eqn:E.
    + inversion H; subst. split; [left; reflexivity | exact E].
    + destruct (IH z H) as [A B]. split; [right; exact A | exact B].
Qed.

(* no name strictly between n and its zone cut has a visible NS: the cut is the CLOSEST one *)
Lemma zone_cut_closest : forall L recs n z,
  zone_cut L recs n = Some z -> z <> n ->
  nonempty (of_type 2 (own_records L recs n)) = false.
Proof.
  intros L recs n z H Hne. destruct n as [|l p]; cbn [zone_cut] in H.
  - destruct (nonempty (of_type 2 (own_records L recs []))) eqn:E; [|discriminate].
    inversion H; subst. contradiction.
  - destruct (nonempty (of_type 2 (own_records L recs (l :: p)))) eqn:E; [|reflexivity].
    inversion H; subst. contradiction.
Qed.

Lemma zone_cut_none : forall L recs n,
  zone_cut L recs n = None ->
  forall z, ancestor_or_self z n -> nonempty (of_type 2 (own_records L recs z)) = false.
Proof.
  induction n as [|l p IH]; intros H z A; cbn [zone_cut] in H.
  - destruct (nonempty (of_type 2 (own_records L recs []))) eqn:E; [discriminate|].
    destruct A as [->|[]]. exact E.
  - destruct (nonempty (of_type 2 (own_records L recs (l :: p)))) eqn:E; [discriminate|].
    destruct A as [->|A]; [exact E | exact (IH H z A)].
Qed.

(* ---------------------------------------------------------------- C04 at the level of the spec *)
(* two record sets look the same to a client in location L *)
Definition same_view (L : bytes) (recs recs' : list record) : Prop :=
  filter (visible L) recs = filter (visible L) recs'.

Lemma filter_and : forall {A} (p q : A -> bool) (l : list A),
  filter (fun x => p x && q x) l = filter q (filter p l).
Proof.
  induction l as [|x l IH]; cbn; [reflexivity|].
  destruct (p x); cbn; [destruct (q x); cbn; rewrite IH; reflexivity | exact IH].
Qed.

Lemma own_records_view : forall L recs n,
  own_records L recs n = filter (fun r => negb (r_wild r) && name_eqb (r_owner r) n) (filter (visible L) recs).
Proof.
  intros. unfold own_records. rewrite <- filter_and. apply filter_ext. intros r.
  rewrite Bool.andb_assoc. reflexivity.
Qed.
Lemma wild_records_view : forall L recs n,
  wild_records L recs n = filter (fun r => r_wild r && name_eqb (r_owner r) n) (filter (visible L) recs).
Proof.
  intros. unfold wild_records. rewrite <- filter_and. apply filter_ext. intros r.
  rewrite Bool.andb_assoc. reflexivity.
Qed.

Lemma own_records_same : forall L recs recs' n, same_view L recs recs' -> own_records L recs n = own_records L recs' n.
Proof. intros. rewrite !own_records_view. unfold same_view in H. rewrite H. reflexivity. Qed.
Lemma wild_records_same : forall L recs recs' n, same_view L recs recs' -> wild_records L recs n = wild_records L recs' n.
Proof. intros. rewrite !wild_records_view. unfold same_view in H. rewrite H. reflexivity. Qed.

Lemma zone_cut_same : forall L recs recs' n, same_view L recs recs' -> zone_cut L recs n = zone_cut L recs' n.
Proof.
  intros L recs recs' n H. induction n as [|l p IH]; cbn [zone_cut];
    rewrite (own_records_same L recs recs' _ H); [reflexivity | rewrite IH; reflexivity].
Qed.
Lemma covering_wildcard_same : forall L recs recs' apex n, same_view L recs recs' ->
  covering_wildcard L recs apex n = covering_wildcard L recs' apex n.
Proof.
  intros L recs recs' apex n H. induction n as [|l p IH]; cbn [covering_wildcard]; [reflexivity|].
  rewrite (wild_records_same L recs recs' _ H), IH. reflexivity.
Qed.

(* a client's prescribed response depends only on the records visible to it: adding, changing
   or deleting records tagged with other locations does not change it *)
Lemma spec_response_same_view : forall L recs recs' q qtype,
  same_view L recs recs' -> spec_response L recs q qtype = spec_response L recs' q qtype.
Proof.
  intros L recs recs' q qtype H. unfold spec_response, authoritative, source_records.
  rewrite (zone_cut_same L recs recs' q H).
  destruct (zone_cut L recs' q) as [z|]; [|reflexivity].
  rewrite (own_records_same L recs recs' z H), (own_records_same L recs recs' q H),
          (covering_wildcard_same L recs recs' z q H).
  destruct (covering_wildcard L recs' z q) as [a|];
    [rewrite (wild_records_same L recs recs' a H)|]; reflexivity.
Qed.

(* records of a foreign location are invisible: appending / removing them keeps the view *)
Lemma same_view_foreign : forall L recs extra,
  forallb (fun r => negb (visible L r)) extra = true -> same_view L recs (recs ++ extra).
Proof.
  intros L recs extra H. unfold same_view. rewrite filter_app.
  assert (E : filter (visible L) extra = []).
  { induction extra as [|x l IH]; [reflexivity|]. cbn in H. apply andb_prop in H as [H1 H2].
    cbn. destruct (visible L x); [discriminate|]. exact (IH H2). }
  rewrite E, app_nil_r. reflexivity.
Qed.
