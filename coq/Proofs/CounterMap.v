(* Proofs/CounterMap: the counter map of metrics.Stats - increments commute. *)
From Coq Require Import Permutation.
From DnsV Require Import Base.Bytes Model.Counters.
Open Scope N_scope.

Lemma key_eqb_eq : forall a b, key_eqb a b = true <-> a = b.
Proof.
  intros a b; destruct a, b; cbn; split; intro H;
    try reflexivity; try discriminate; try congruence;
    try (apply N.eqb_eq in H; congruence);
    try (apply N.eqb_eq; congruence).
Qed.

Lemma key_eqb_refl : forall a, key_eqb a a = true.
Proof. intros a. now apply key_eqb_eq. Qed.

Lemma key_eqb_sym : forall a b, key_eqb a b = key_eqb b a.
Proof.
  intros a b. destruct (key_eqb a b) eqn:E.
  - apply key_eqb_eq in E. subst. now rewrite key_eqb_refl.
  - destruct (key_eqb b a) eqn:E'; [|reflexivity].
    apply key_eqb_eq in E'. subst. now rewrite key_eqb_refl in E.
Qed.

(* ---------- the counter map *)

Lemma cget_cadd : forall m k k' v,
  cget k (cadd k' v m) = (cget k m + (if key_eqb k k' then v else 0))%Z.
Proof.
  induction m as [|[k0 x] m IH]; intros k k' v; cbn.
  - destruct (key_eqb k k'); lia.
  - destruct (key_eqb k' k0) eqn:E0; cbn.
    + apply key_eqb_eq in E0. subst k0.
      destruct (key_eqb k k'); lia.
    + destruct (key_eqb k k0) eqn:E1.
      * destruct (key_eqb k k') eqn:E2; [|lia].
        apply key_eqb_eq in E1. apply key_eqb_eq in E2. subst.
        rewrite key_eqb_refl in E0. discriminate.
      * apply IH.
Qed.

Lemma cget_cstep : forall m o k, cget k (cstep m o) = (cget k m + op_delta k o)%Z.
Proof.
  intros m o k. destruct o as [k'|k' v|]; cbn.
  - apply cget_cadd.
  - apply cget_cadd.
  - lia.
Qed.

Lemma crun_final : forall tr m k, cget k (fst (crun m tr)) = (cget k m + total k tr)%Z.
Proof.
  induction tr as [|o tr IH]; intros m k; cbn [crun total fst].
  - lia.
  - destruct (crun (cstep m o) tr) as [mf snaps] eqn:E. cbn [fst].
    specialize (IH (cstep m o) k). rewrite E in IH. cbn [fst] in IH.
    rewrite IH. rewrite (cget_cstep m o k). lia.
Qed.

Lemma total_app : forall k a b, total k (a ++ b) = (total k a + total k b)%Z.
Proof. induction a as [|o a IH]; intros b; cbn; [lia|]. rewrite IH. lia. Qed.

Lemma total_perm : forall k a b, Permutation a b -> total k a = total k b.
Proof. induction 1; cbn [total] in *; lia. Qed.

Lemma concat_all_nil : forall (ths : list (list cop)), Forall (fun p => p = []) ths -> concat ths = [].
Proof. induction 1 as [|p ths Hp _ IH]; cbn; [reflexivity|]. now rewrite Hp, IH. Qed.

Lemma interleaving_perm : forall ths tr, interleaving ths tr -> Permutation tr (concat ths).
Proof.
  induction 1 as [ths H|pre o p post tr _ IH].
  - now rewrite concat_all_nil.
  - rewrite concat_app in *. cbn [concat app] in *.
    apply Permutation_cons_app. exact IH.
Qed.

(* any two interleavings of the same programs end in the same counters: the sums *)
Theorem counters_commute : forall ths tr1 tr2 m k,
  interleaving ths tr1 -> interleaving ths tr2 ->
  cget k (fst (crun m tr1)) = cget k (fst (crun m tr2)) /\
  cget k (fst (crun m tr1)) = (cget k m + total k (concat ths))%Z.
Proof.
  intros ths tr1 tr2 m k H1 H2.
  rewrite !crun_final.
  rewrite (total_perm k _ _ (interleaving_perm _ _ H1)).
  rewrite (total_perm k _ _ (interleaving_perm _ _ H2)). split; reflexivity.
Qed.

(* permutation form: the final counters do not depend on the order of the updates *)
Theorem counters_permutation : forall tr1 tr2 m k,
  Permutation tr1 tr2 -> cget k (fst (crun m tr1)) = cget k (fst (crun m tr2)).
Proof. intros. rewrite !crun_final. f_equal. now apply total_perm. Qed.

(* every exported snapshot is the sum of the increments executed before it *)
Theorem export_is_prefix_sum : forall tr m s,
  In s (snd (crun m tr)) ->
  exists pre post, tr = pre ++ OpExport :: post /\ forall k, cget k s = (cget k m + total k pre)%Z.
Proof.
  induction tr as [|o tr IH]; intros m s Hin; cbn in Hin; [destruct Hin|].
  destruct (crun (cstep m o) tr) as [mf snaps] eqn:E. cbn [snd] in Hin.
  assert (Hrec : In s snaps ->
          exists pre post, o :: tr = pre ++ OpExport :: post /\ forall k, cget k s = (cget k m + total k pre)%Z).
  { intros Hs. specialize (IH (cstep m o) s). rewrite E in IH. cbn [snd] in IH.
    destruct (IH Hs) as [pre [post [E1 E2]]].
    exists (o :: pre), post. split; [cbn; now rewrite E1|].
    intros k. rewrite E2, cget_cstep. cbn. lia. }
  destruct o as [k'|k' v|]; try (apply Hrec; exact Hin).
  destruct Hin as [<-|Hin]; [|apply Hrec; exact Hin].
  exists [], tr. split; [reflexivity|]. intros k. cbn. lia.
Qed.

(* increments are positive, so snapshots never exceed the final value *)
Lemma total_inc_nonneg : forall k tr,
  Forall (fun o => match o with OpIncBy _ v => (0 <= v)%Z | _ => True end) tr -> (0 <= total k tr)%Z.
Proof.
  induction 1 as [|o tr Ho _ IH]; cbn; [lia|].
  destruct o as [k'|k' v|]; cbn; try destruct (key_eqb k k'); lia.
Qed.

