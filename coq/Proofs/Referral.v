(* C01 for the v1 reader over the compiled store: at or below a delegation (closest visible NS
   without a visible SOA) the reply is a non-authoritative referral whose authority section is
   exactly the NS records of the cut.  (Glue in the additional section is not covered here.) *)
From DnsV Require Import Base.Bytes Model.Store Model.LookupV1 Model.LookupV2 Model.Serve Spec.Answer Spec.Rows.
From DnsV Require Import Proofs.Answer Proofs.Compile Proofs.Shape Proofs.ZoneCut Proofs.Refused Proofs.NxDomain Proofs.SoaAuth Proofs.AnswerItems.
From Coq Require Import ZifyN ZifyNat ZifyBool Permutation.
Open Scope N_scope.

(* NS rdata is one uncompressed wire name *)
Definition wf_ns_rdata (r : record) : Prop := r_type r = 2 -> parse_name (r_rdata r) = Some (r_rdata r, []).
Definition is_ns (r : record) : bool := negb (r_wild r) && (r_type r =? 2).
Definition ns_item (zname : bytes) (cls : N) (r : record) : item := IRR (mkRR zname 2 cls (r_ttl r) (r_rdata r)).

Lemma iter_ns_rows : forall zname cls rs acc, Forall wf_rec rs -> Forall wf_ns_rdata rs ->
  iter_rows (ns_cb zname cls) (map row_of rs) acc = (acc ++ map (ns_item zname cls) (filter is_ns rs), Cont).
Proof.
  induction rs as [|r t IH]; intros acc Wf Wn; cbn [map iter_rows filter].
  - rewrite app_nil_r. reflexivity.
  - inversion Wf as [|? ? Wr Wt]; subst. inversion Wn as [|? ? Nr Nt]; subst. unfold ns_cb at 1.
    destruct (extract_row_of r false Wr) as [E1 E2]. rewrite E1. unfold is_ns at 1.
    destruct (r_wild r); cbn [Bool.eqb negb andb].
    + apply IH; assumption.
    + change (h_type (head_of r)) with (r_type r). destruct (r_type r =? 2) eqn:T.
      * apply N.eqb_eq in T.
        assert (S : skipn (N.to_nat (h_off (head_of r))) (row_of r) = r_rdata r).
        { unfold slice_from in E2. destruct (h_off (head_of r) <=? nlen (row_of r)); inversion E2; reflexivity. }
        rewrite S, (Nr T). change (h_ttl (head_of r)) with (r_ttl r).
        rewrite IH by assumption. cbn [map]. rewrite <- app_assoc. reflexivity.
      * apply IH; assumption.
Qed.

Section V1.
Variable b : backend.
Variable recs : list record.
Variable L : bytes.
Hypothesis W : wf_recs recs.
Hypothesis WN : Forall wf_ns_rdata recs.
Hypothesis HL : length L = 2%nat.
Hypothesis Hb : b <> RDB2.
Hypothesis V : wf_view L recs = true.
Let st := store_v1 recs.

Lemma scan_ns_key : forall key zname cls acc,
  for_each_v1 b st key (ns_cb zname cls) acc =
    (acc ++ map (ns_item zname cls) (filter is_ns (filter (fun r => bytes_eqb (key_v1 r) key) recs)), false).
Proof.
  intros. unfold for_each_v1, st, store_v1. rewrite get_store_of, rows_for_v1, iter_ns_rows; [reflexivity| |];
    apply Forall_filter; assumption.
Qed.

(* db.GetNs over the compiled store *)
Lemma get_ns_v1 : forall z cls,
  for_each_rr_v1 b st (pack z) L (ns_cb (pack z) cls) [] =
    (map (ns_item (pack z) cls) (filter is_ns (ordered_at recs L z)), false).
Proof.
  intros. unfold for_each_rr_v1, ordered_at. destruct (is_loc0 L).
  - rewrite scan_ns_key. reflexivity.
  - rewrite scan_ns_key. cbn [app]. rewrite scan_ns_key. rewrite filter_app, map_app. reflexivity.
Qed.

Theorem referral_v1 : forall q n z ecs max x,
  wf_name n -> nlen (pack n) <= 255 -> lower_bytes (q_name q) = pack n ->
  (q_edns q = None \/ q_edns q = Some 0) -> q_type q <> 43 ->
  zone_cut L recs n = Some z -> authoritative L recs z = false ->
  serve b (store_v1 recs) q (LocOk L) ecs max = OReply x ->
  rs_aa x = false /\ rs_rcode x = 0 /\ rs_an x = [] /\
  rs_ns x = map (ns_item (pack z) (q_class q)) (filter is_ns (ordered_at recs L z)) /\
  Permutation (filter is_ns (ordered_at recs L z)) (of_type 2 (own_records L recs z)).
Proof.
  intros q n z ecs max x Hn Hlen Hq Hv Hds Hz Ha H.
  destruct (ancestor_wf z n (proj1 (zone_cut_sound L recs n z Hz)) Hn) as [Hzw Hzl].
  assert (Perm : Permutation (filter is_ns (ordered_at recs L z)) (of_type 2 (own_records L recs z))).
  { eapply Permutation_trans; [apply (ordered_perm recs L W HL is_ns z Hzw)|].
    unfold of_type, own_records. rewrite <- filter_and.
    replace (filter (fun x0 => visible L x0 && negb (r_wild x0) && name_eqb (r_owner x0) z && (r_type x0 =? 2)) recs)
      with (filter (fun r => visible L r && name_eqb (r_owner r) z && is_ns r) recs); [apply Permutation_refl|].
    apply filter_ext_in'. intros r _. unfold is_ns.
    destruct (visible L r), (r_wild r), (name_eqb (r_owner r) z), (r_type r =? 2); reflexivity. }
  assert (SV : serve b (store_v1 recs) q (LocOk L) ecs max =
              lift (rd_auth unit (reader_v1 b (store_v1 recs)) tt (pack n) L)
                (fun x => let '(ar, c1) := x in
                   if a_err ar then servfail q
                   else if negb (a_ns ar) && negb (a_auth ar) then refused_reply q ecs
                   else lift (serve_ds unit (reader_v1 b (store_v1 recs)) q L (pack n) ar c1)
                          (fun r => match r with
                                    | Some (ar', c2) => serve_answer unit (reader_v1 b (store_v1 recs)) q ecs L max (pack n) ar' c2
                                    | None => servfail q
                                    end))).
  { destruct b; [| |contradiction]; unfold serve, serve_with; rewrite Hq; destruct Hv as [E|E]; rewrite E; reflexivity. }
  rewrite SV in H. clear SV. unfold reader_v1 at 1 in H. cbn [rd_auth] in H. unfold is_authoritative_v1 in H.
  rewrite (is_auth_walk b recs L W HL n (S (length (pack n))) Hn V (Nat.lt_succ_diag_r _)), Hz, Ha in H.
  cbn [bind lift a_err a_ns a_auth negb andb] in H.
  unfold serve_ds in H. cbn [a_auth negb andb] in H.
  assert (E43 : (q_type q =? 43) = false) by (apply N.eqb_neq; exact Hds). rewrite E43 in H. cbn [lift] in H.
  unfold serve_answer in H. cbn [a_auth a_zc lift] in H.
  unfold serve_sections in H. rewrite (parse_name_pack z Hzw) in H by lia.
  cbn [andb negb] in H.
  assert (HR : has_record (mkMsg [] [] []) (pack z) 2 = false) by reflexivity. rewrite HR in H. cbn [negb] in H.
  unfold reader_v1 at 1 in H. cbn [rd_rr] in H. rewrite get_ns_v1 in H. cbn [bind lift] in H.
  cbn [m_an additional bind] in H.
  apply lift_reply in H as [[m2 c6] [E2 H]]. inversion H; subst x. cbn [rs_aa rs_rcode rs_an rs_ns].
  apply additional_keeps in E2. destruct E2 as [E2a E2n]. rewrite E2a, E2n. cbn [m_an m_ns].
  repeat split; try reflexivity; exact Perm.
Qed.
End V1.

Lemma get_compiled : forall recs k,
  get (store_v1 recs) k = map row_of (filter (fun r => bytes_eqb (key_v1 r) k) recs).
Proof. intros. unfold store_v1. rewrite get_store_of. exact (rows_for_v1 recs k). Qed.
