From DnsV Require Import Base.Bytes Model.Reload Proofs.Reload Proofs.ReloadBase Proofs.ReloadFlags.
From Coq Require Import Lia ZifyN ZifyNat ZifyBool.
Open Scope N_scope.
Section P.
Variable refusedf weightedf : N -> N -> bool.
Variable cfg : config.
Notation step := (step refusedf weightedf cfg).

(* a reload between Lock and Unlock *)
Definition holds (pc : rpc) : bool := match pc with RStart | RDone _ => false | _ => true end.

Record Mutex (st : state) : Prop := {
  M_w : forall i r, rat st i r -> holds (r_pc r) = true -> st_w st = true;
  M_one : forall i i' r r', rat st i r -> rat st i' r' -> holds (r_pc r) = true -> holds (r_pc r') = true -> i = i'
}.

Lemma Mutex_step st t st' : Mutex st -> step st t = Some st' -> Mutex st'.
Proof.
  intros [MW MO] H. inv_step H.
  all: constructor; unfold qat, rat, qread, qset_pc, rset_pc, catch_up, set_backs in *; cbn in *.
  all: first [ intros ? ? ? ? HN HN' | intros ? ? HN ]; split_upd; cbn in *; intros; pcs; cbn in *; try discriminate; eauto.
  all: try (exfalso; repeat match goal with Hr : nth_error (st_rs _) _ = Some _ |- _ => pose proof (MW _ _ Hr); revert Hr end; intros;
            pcs; cbn in *; triv_prem; fwd; rewrite ?Bool.orb_false_iff in *; dest_and; congruence).
  all: try (repeat match goal with Hr : nth_error (st_rs _) _ = Some _ |- _ => pose proof (MW _ _ Hr); revert Hr end; intros;
            pcs; cbn in *; triv_prem; fwd; congruence).
  all: try (exfalso; match goal with
            | Ha : nth_error (st_rs _) ?a = Some ?ra, Hb : nth_error (st_rs _) ?b = Some ?rb, NE : ?a <> ?b |- _ =>
                apply NE; eapply (MO _ _ _ _ Ha Hb); pcs; cbn; auto
            end).
  all: try (exfalso; match goal with
            | Ha : nth_error (st_rs _) ?a = Some ?ra, Hb : nth_error (st_rs _) ?b = Some ?rb, NE : ?b <> ?a |- _ =>
                apply NE; eapply (MO _ _ _ _ Hb Ha); pcs; cbn; auto
            end).
Qed.

Definition pre_path (pc : rpc) : bool :=
  match pc with RLocked | RValidate | RReloaded | RSwapPtr | RFailing _ => true | _ => false end.
Definition post_path (pc : rpc) : bool := match pc with RSwapped | RPurged => true | _ => false end.

Record PathInv (st : state) : Prop := {
  P_free : st_w st = false -> st_path st = st_last_full st;
  P_pre : forall i r, rat st i r -> pre_path (r_pc r) = true -> st_path st = st_last_full st;
  P_post : forall i r, rat st i r -> post_path (r_pc r) = true -> st_path st = r_newpath r;
  P_kind : forall i r kind, rat st i r -> nth_error (c_rs cfg) i = Some kind -> begun (r_pc r) = true ->
           match kind with Full p => r_newpath r = p | Partial => r_newpath r = r_seen_last r end;
  P_seen : forall i r, rat st i r -> holds (r_pc r) = true -> begun (r_pc r) = true -> r_seen_last r = st_last_full st
}.

Ltac mx_contra MW MO :=
  exfalso;
  first
  [ match goal with
    | Ha : nth_error (st_rs _) ?a = Some ?ra, Hb : nth_error (st_rs _) ?b = Some ?rb, NE : ?a <> ?b |- _ =>
        apply NE; eapply (MO _ _ _ _ Ha Hb); pcs; cbn; solve [auto | destruct (r_pc rb); cbn in *; congruence | destruct (r_pc ra); cbn in *; congruence]
    end
  | match goal with
    | Ha : nth_error (st_rs _) ?a = Some ?ra, Hb : nth_error (st_rs _) ?b = Some ?rb, NE : ?b <> ?a |- _ =>
        apply NE; eapply (MO _ _ _ _ Hb Ha); pcs; cbn; solve [auto | destruct (r_pc rb); cbn in *; congruence | destruct (r_pc ra); cbn in *; congruence]
    end
  | match goal with
    | Ha : nth_error (st_rs _) ?a = Some ?ra |- _ =>
        pose proof (MW _ _ Ha); pcs; cbn in *; triv_prem; rewrite ?Bool.orb_false_iff in *; dest_and; congruence
    end
  | match goal with
    | Ha : nth_error (st_rs _) ?a = Some ?ra |- _ =>
        pose proof (MW _ _ Ha); pcs; cbn in *; triv_prem;
        match goal with X : holds (r_pc ra) = true -> _ |- _ =>
          let Y := fresh in assert (Y : holds (r_pc ra) = true) by (destruct (r_pc ra); cbn in *; congruence); specialize (X Y) end;
        rewrite ?Bool.orb_false_iff in *; dest_and; congruence
    end ].

Lemma PathInv_step st t st' : Mutex st -> PathInv st -> step st t = Some st' -> PathInv st'.
Proof.
  intros [MW MO] [PF PP PO PK PS] H. inv_step H.
  all: constructor; unfold qat, rat, qread, qset_pc, rset_pc, catch_up, set_backs in *; cbn in *.
  all: first [ intros ? ? ? HN HK | intros ? ? HN | intros HW ]; split_upd; cbn in *; intros; pcs; cbn in *; try discriminate; eauto.
  all: try solve [
         repeat match goal with Hr : nth_error (st_rs _) _ = Some _ |- _ =>
                  pose proof (PP _ _ Hr); pose proof (PO _ _ Hr); pose proof (PS _ _ Hr); revert Hr end; intros;
         repeat match goal with Hr : nth_error (st_rs _) ?i = Some _, Hk : nth_error (c_rs cfg) ?i = Some _ |- _ =>
                  pose proof (PK _ _ _ Hr Hk); revert Hk end; intros;
         pcs; cbn in *; triv_prem; fwd; try congruence;
         repeat match goal with
                | H1 : nth_error ?l ?k = Some ?a, H2 : nth_error ?l ?k = Some ?b |- _ => rewrite H1 in H2; inversion H2; subst
                end; cbn in *; try congruence ].
  all: try solve [mx_contra MW MO].
Qed.
End P.
