(* Proofs/CdbTable: one hash table of the cdb writer.  Linear probing with wrap-around
   ([probe], [fill], [build_table] of Model/Cdb.v) establishes the invariant used by the
   reader proof: every inserted slot sits at a definite probe distance from its start
   slot with no free slot before it, slots with equal start slot sit at increasing
   distance in insertion order, and nothing else is in the table. *)
From DnsV Require Import Base.Bytes Model.Cdb.
From Coq Require Import Lia ZifyN ZifyNat ZifyBool Sorted.
Open Scope N_scope.

(* ------------------------------------------------------------------ generic list facts *)

Lemma bytes_eqb_refl : forall a, bytes_eqb a a = true.
Proof. induction a; simpl; auto. rewrite N.eqb_refl. auto. Qed.

Lemma bytes_eqb_eq : forall a b, bytes_eqb a b = true <-> a = b.
Proof.
  induction a; destruct b; simpl; split; intros; try congruence; auto.
  - apply andb_true_iff in H. destruct H. apply N.eqb_eq in H. apply IHa in H0. congruence.
  - inversion H; subst. rewrite N.eqb_refl. simpl. apply bytes_eqb_refl.
Qed.

Lemma set_nth_length {A} : forall n (x : A) l, length (set_nth n x l) = length l.
Proof. induction n; destruct l; simpl; auto. Qed.

Lemma nth_set_nth {A} : forall n k (x d : A) l, (n < length l)%nat ->
  nth k (set_nth n x l) d = if Nat.eqb k n then x else nth k l d.
Proof.
  induction n; destruct l; simpl; intros; try lia.
  - destruct k; simpl; auto.
  - destruct k; simpl; auto. apply IHn. lia.
Qed.

Lemma StronglySorted_filter {A} (R : A -> A -> Prop) (p : A -> bool) : forall l,
  StronglySorted R l -> StronglySorted R (filter p l).
Proof.
  induction 1; simpl. constructor.
  destruct (p a); auto. constructor; auto.
  rewrite Forall_forall in *. intros x Hx. apply filter_In in Hx. apply H0. tauto.
Qed.

Lemma StronglySorted_snoc {A} (R : A -> A -> Prop) : forall l x,
  StronglySorted R l -> Forall (fun a => R a x) l -> StronglySorted R (l ++ [x]).
Proof.
  induction 1; simpl; intros. repeat constructor.
  inversion H1; subst. constructor; auto.
  apply Forall_app. split; auto.
Qed.

Lemma StronglySorted_snoc_inv {A} (R : A -> A -> Prop) : forall l x,
  StronglySorted R (l ++ [x]) -> StronglySorted R l /\ Forall (fun a => R a x) l.
Proof.
  induction l; simpl; intros. split; constructor.
  inversion H; subst. apply IHl in H2. destruct H2. apply Forall_app in H3. destruct H3.
  split; constructor; auto. inversion H3; auto.
Qed.

Lemma StronglySorted_weaken {A} (R R' : A -> A -> Prop) : forall l,
  (forall a b, In a l -> In b l -> R a b -> R' a b) -> StronglySorted R l -> StronglySorted R' l.
Proof.
  induction l; intros. constructor.
  inversion H0; subst. constructor.
  - apply IHl; auto. intros. apply H; simpl; auto.
  - rewrite Forall_forall in *. intros. apply H; simpl; auto.
Qed.

Lemma StronglySorted_map_seq {A} (R : A -> A -> Prop) (f : nat -> A) : forall n a,
  (forall x y, (a <= x)%nat -> (x < y)%nat -> (y < a + n)%nat -> R (f x) (f y)) ->
  StronglySorted R (map f (seq a n)).
Proof.
  induction n; simpl; intros. constructor.
  constructor.
  - apply IHn. intros. apply H; lia.
  - rewrite Forall_forall. intros z Hz. apply in_map_iff in Hz. destruct Hz as [y [<- Hy]].
    apply in_seq in Hy. apply H; lia.
Qed.

(* two lists sorted by an irreflexive, asymmetric relation with the same elements are equal *)
Lemma sorted_unique {A} (R : A -> A -> Prop) : forall l1 l2,
  (forall a, In a l1 -> ~ R a a) ->
  (forall a b, In a l1 -> In b l1 -> R a b -> R b a -> False) ->
  StronglySorted R l1 -> StronglySorted R l2 ->
  (forall x, In x l1 <-> In x l2) -> l1 = l2.
Proof.
  induction l1; intros l2 Hirr Hasym S1 S2 Hin.
  - destruct l2; auto. exfalso. apply (Hin a). simpl; auto.
  - destruct l2 as [|b l2]. { exfalso. apply (Hin a). simpl; auto. }
    inversion S1; subst. inversion S2; subst.
    rewrite Forall_forall in H2, H4.
    assert (a = b).
    { destruct (proj1 (Hin a) (or_introl eq_refl)) as [E|E]; auto.
      destruct (proj2 (Hin b) (or_introl eq_refl)) as [E'|E']; auto.
      exfalso. apply (Hasym a b); simpl; auto. }
    subst b. f_equal. apply IHl1; auto.
    + intros. apply Hirr. simpl; auto.
    + intros. apply (Hasym a0 b); simpl; auto.
    + intros x. split; intros Hx.
      * destruct (proj1 (Hin x) (or_intror Hx)) as [E|E]; auto.
        subst x. exfalso. apply (Hirr a). simpl; auto. apply H2; auto.
      * destruct (proj2 (Hin x) (or_intror Hx)) as [E|E]; auto.
        subst x. exfalso. apply (Hirr a). simpl; auto. apply H4; auto.
Qed.

(* ------------------------------------------------------------------ cyclic positions *)

(* position at probe distance j from start s in a table of m slots (s < m, j <= m) *)
Definition cpos (m s j : nat) : nat := if (s + j <? m)%nat then (s + j)%nat else (s + j - m)%nat.

Lemma cpos_lt : forall m s j, (s < m)%nat -> (j <= m)%nat -> (cpos m s j < m)%nat.
Proof. unfold cpos; intros. destruct (Nat.ltb_spec (s + j) m); lia. Qed.

Lemma cpos_inj : forall m s j1 j2, (s < m)%nat -> (j1 < m)%nat -> (j2 < m)%nat ->
  cpos m s j1 = cpos m s j2 -> j1 = j2.
Proof.
  unfold cpos; intros. destruct (Nat.ltb_spec (s + j1) m); destruct (Nat.ltb_spec (s + j2) m); lia.
Qed.

Lemma cpos_surj : forall m s x, (s < m)%nat -> (x < m)%nat -> exists j, (j < m)%nat /\ cpos m s j = x.
Proof.
  intros. destruct (Nat.leb_spec s x).
  - exists (x - s)%nat. unfold cpos. destruct (Nat.ltb_spec (s + (x - s)) m); lia.
  - exists (x + m - s)%nat. unfold cpos. destruct (Nat.ltb_spec (s + (x + m - s)) m); lia.
Qed.

Lemma cpos_0 : forall m s, (s < m)%nat -> cpos m s 0 = s.
Proof. unfold cpos; intros. destruct (Nat.ltb_spec (s + 0) m); lia. Qed.

Lemma cpos_S : forall m s j, (s < m)%nat -> (j < m)%nat ->
  cpos m s (S j) = if Nat.eqb (cpos m s j + 1) m then 0%nat else (cpos m s j + 1)%nat.
Proof.
  unfold cpos; intros.
  destruct (Nat.ltb_spec (s + S j) m); destruct (Nat.ltb_spec (s + j) m);
    match goal with |- context [Nat.eqb ?a ?b] => destruct (Nat.eqb_spec a b) end; lia.
Qed.

(* ------------------------------------------------------------------ slots *)

Definition sl (t : list slot) (x : nat) : slot := nth x t empty_slot.
Definition occ (t : list slot) (x : nat) : Prop := snd (sl t x) <> 0.
Definition occb (s : slot) : bool := negb (snd s =? 0).

Lemma slot_at_sl : forall t p, slot_at t p = sl t (N.to_nat p).
Proof. reflexivity. Qed.

Lemma w32_small : forall n, n < 4294967296 -> w32 n = n.
Proof. intros. unfold w32. apply N.mod_small. auto. Qed.

Lemma count_all_occ : forall t, (forall x, (x < length t)%nat -> occ t x) ->
  length (filter occb t) = length t.
Proof.
  induction t; simpl; intros; auto.
  assert (occb a = true).
  { specialize (H 0%nat ltac:(lia)). unfold occ, sl in H. simpl in H. unfold occb.
    destruct (N.eqb_spec (snd a) 0); auto; contradiction. }
  rewrite H0. simpl. f_equal. apply IHt. intros. specialize (H (S x) ltac:(lia)). exact H.
Qed.

Lemma count_set_nth : forall t p e, (p < length t)%nat -> snd (sl t p) = 0 -> snd e <> 0 ->
  length (filter occb (set_nth p e t)) = S (length (filter occb t)).
Proof.
  induction t; simpl; intros; try lia.
  destruct p; simpl.
  - unfold sl in H0. simpl in H0. unfold occb. rewrite H0. simpl.
    destruct (N.eqb_spec (snd e) 0); try contradiction. simpl. auto.
  - destruct (occb a); simpl; [f_equal|]; apply IHt; auto; lia.
Qed.

Lemma count_repeat_empty : forall n, length (filter occb (repeat empty_slot n)) = 0%nat.
Proof. induction n; simpl; auto. Qed.

(* ------------------------------------------------------------------ probe *)

Lemma probe_some : forall t fuel p q,
  nlen t < 4294967296 -> (N.to_nat p < length t)%nat -> (fuel <= length t)%nat ->
  probe t p fuel = Some q ->
  exists d, (d < fuel)%nat /\ N.to_nat q = cpos (length t) (N.to_nat p) d /\ snd (sl t (N.to_nat q)) = 0
            /\ forall j, (j < d)%nat -> occ t (cpos (length t) (N.to_nat p) j).
Proof.
  induction fuel; simpl; intros p q Hm Hp Hf Hpr. discriminate.
  rewrite slot_at_sl in Hpr.
  destruct (N.eqb_spec (snd (sl t (N.to_nat p))) 0).
  - inversion Hpr; subst q. exists 0%nat. split; [lia|]. split; [|split].
    + rewrite cpos_0; auto.
    + auto.
    + intros; lia.
  - unfold nlen in *. rewrite (w32_small (p + 1)) in Hpr by lia.
    rewrite (w32_small (N.of_nat (length t))) in Hpr by lia.
    set (p' := if p + 1 =? N.of_nat (length t) then 0 else p + 1) in *.
    assert (Hp' : (N.to_nat p' < length t)%nat).
    { unfold p'. destruct (N.eqb_spec (p + 1) (N.of_nat (length t))); lia. }
    destruct (IHfuel p' q Hm Hp' ltac:(lia) Hpr) as [d [Hd [Hq [Hz Hocc]]]].
    assert (Hc : forall j, (j < length t)%nat -> cpos (length t) (N.to_nat p') j = cpos (length t) (N.to_nat p) (S j)).
    { intros. unfold p', cpos. destruct (N.eqb_spec (p + 1) (N.of_nat (length t)));
        destruct (Nat.ltb_spec (N.to_nat p + S j) (length t));
        match goal with |- context [(?a <? ?b)%nat] => destruct (Nat.ltb_spec a b) end; lia. }
    exists (S d). split; [lia|]. split; [|split].
    + rewrite Hq. apply Hc. lia.
    + exact Hz.
    + intros j Hj. destruct j.
      * rewrite cpos_0 by lia. exact n.
      * rewrite <- Hc by lia. apply Hocc. lia.
Qed.

Lemma probe_none : forall t fuel p,
  nlen t < 4294967296 -> (N.to_nat p < length t)%nat -> (fuel <= length t)%nat ->
  probe t p fuel = None ->
  forall j, (j < fuel)%nat -> occ t (cpos (length t) (N.to_nat p) j).
Proof.
  induction fuel; simpl; intros p Hm Hp Hf Hpr j Hj. lia.
  rewrite slot_at_sl in Hpr.
  destruct (N.eqb_spec (snd (sl t (N.to_nat p))) 0). discriminate.
  unfold nlen in *. rewrite (w32_small (p + 1)) in Hpr by lia.
  rewrite (w32_small (N.of_nat (length t))) in Hpr by lia.
  set (p' := if p + 1 =? N.of_nat (length t) then 0 else p + 1) in *.
  assert (Hp' : (N.to_nat p' < length t)%nat).
  { unfold p'. destruct (N.eqb_spec (p + 1) (N.of_nat (length t))); lia. }
  assert (Hc : forall j, (j < length t)%nat -> cpos (length t) (N.to_nat p') j = cpos (length t) (N.to_nat p) (S j)).
  { intros. unfold p', cpos. destruct (N.eqb_spec (p + 1) (N.of_nat (length t)));
      destruct (Nat.ltb_spec (N.to_nat p + S j0) (length t));
      match goal with |- context [(?a <? ?b)%nat] => destruct (Nat.ltb_spec a b) end; lia. }
  destruct j.
  - rewrite cpos_0 by lia. exact n.
  - rewrite <- Hc by lia. apply (IHfuel p'); auto; lia.
Qed.

(* ------------------------------------------------------------------ the table invariant *)

Section Table.
Variable m : nat.                       (* number of slots *)
Hypothesis m_pos : (0 < m)%nat.
Hypothesis m_32 : N.of_nat m < 4294967296.

(* start slot of an entry: (h / 256) mod nslots, as writer and reader compute it *)
Definition st (e : slot) : nat := N.to_nat ((fst e / 256) mod N.of_nat m).

Lemma st_lt : forall e, (st e < m)%nat.
Proof. intros. unfold st. assert (N.of_nat m <> 0) by lia. pose proof (N.mod_lt (fst e / 256) _ H). lia. Qed.

(* e sits at probe distance d from start slot s, and no slot before it is free *)
Definition at_dist (t : list slot) (s : nat) (e : slot) (d : nat) : Prop :=
  (d < m)%nat /\ sl t (cpos m s d) = e /\ forall j, (j < d)%nat -> occ t (cpos m s j).

Record Inv (t : list slot) (es : list slot) : Prop := {
  inv_len : length t = m;
  inv_in : forall x, (x < m)%nat -> occ t x -> In (sl t x) es;
  inv_uniq : forall x y, (x < m)%nat -> (y < m)%nat -> occ t x -> sl t x = sl t y -> x = y;
  inv_dist : forall e, In e es -> exists d, at_dist t (st e) e d;
  inv_order : StronglySorted (fun e e' => st e = st e' ->
                 forall d d', at_dist t (st e) e d -> at_dist t (st e') e' d' -> (d < d')%nat) es;
  inv_count : length (filter occb t) = length es
}.

Lemma at_dist_unique : forall t es s e d1 d2, Inv t es -> (s < m)%nat -> snd e <> 0 ->
  at_dist t s e d1 -> at_dist t s e d2 -> d1 = d2.
Proof.
  intros t es s e d1 d2 I Hs Hnz [H1 [H2 H3]] [H4 [H5 H6]].
  apply (cpos_inj m s); auto.
  apply (inv_uniq t es I); try (apply cpos_lt; lia).
  - unfold occ. rewrite H2. auto.
  - congruence.
Qed.

Lemma Inv_init : Inv (repeat empty_slot m) [].
Proof.
  assert (E : forall x, sl (repeat empty_slot m) x = empty_slot).
  { intros. unfold sl. destruct (Nat.ltb_spec x m).
    - apply nth_repeat.
    - apply nth_overflow. rewrite repeat_length. lia. }
  constructor.
  - apply repeat_length.
  - intros x _ H. unfold occ in H. rewrite E in H. simpl in H. congruence.
  - intros x y _ _ H. unfold occ in H. rewrite E in H. simpl in H. congruence.
  - intros e [].
  - constructor.
  - simpl. apply count_repeat_empty.
Qed.

(* one insertion *)
Lemma Inv_step : forall t es e,
  Inv t es -> snd e <> 0 -> ~ In (snd e) (map snd es) -> Forall (fun a => snd a <> 0) es ->
  (length es < m)%nat ->
  exists p, probe t (N.of_nat (st e)) (length t) = Some p /\ Inv (set_nth (N.to_nat p) e t) (es ++ [e]).
Proof.
  intros t es e I Hnz Hnew Hes Hlt.
  pose proof (inv_len t es I) as Hlen.
  pose proof (st_lt e) as Hst.
  assert (Hm : nlen t < 4294967296) by (unfold nlen; rewrite Hlen; auto).
  assert (Hsp : (N.to_nat (N.of_nat (st e)) < length t)%nat) by lia.
  destruct (probe t (N.of_nat (st e)) (length t)) as [p|] eqn:Hpr.
  2:{ exfalso.
      pose proof (probe_none t (length t) _ Hm Hsp (Nat.le_refl _) Hpr) as Hall.
      assert (length (filter occb t) = length t).
      { apply count_all_occ. intros x Hx.
        destruct (cpos_surj m (st e) x) as [j [Hj Hc]]; try lia.
        rewrite <- Hc. specialize (Hall j ltac:(lia)).
        rewrite Nat2N.id, Hlen in Hall. exact Hall. }
      rewrite (inv_count t es I) in H. lia. }
  exists p. split; auto.
  destruct (probe_some t (length t) _ p Hm Hsp (Nat.le_refl _) Hpr) as [d [Hd [Hq [Hz Hocc]]]].
  rewrite Nat2N.id, Hlen in *.
  set (P := N.to_nat p) in *.
  assert (HP : (P < m)%nat) by (rewrite Hq; apply cpos_lt; lia).
  assert (Hsl : forall x, sl (set_nth P e t) x = if Nat.eqb x P then e else sl t x).
  { intros. unfold sl. apply nth_set_nth. lia. }
  assert (Hmono : forall x, occ t x -> occ (set_nth P e t) x).
  { intros x Hx. unfold occ. rewrite Hsl. destruct (Nat.eqb_spec x P); auto. }
  assert (HnotP : forall x, occ t x -> x <> P).
  { intros x Hx ->. apply Hx. exact Hz. }
  assert (Hold : forall s a d0, snd a <> 0 -> at_dist t s a d0 -> at_dist (set_nth P e t) s a d0).
  { intros s a d0 Ha [H1 [H2 H3]]. split; auto. split.
    - rewrite Hsl. destruct (Nat.eqb_spec (cpos m s d0) P); auto.
      exfalso. apply (HnotP (cpos m s d0)); auto. unfold occ. rewrite H2. auto.
    - intros. apply Hmono. auto. }
  assert (Hnew_at : at_dist (set_nth P e t) (st e) e d).
  { split; [lia|]. split.
    - rewrite <- Hq. rewrite Hsl. rewrite Nat.eqb_refl. auto.
    - intros. apply Hmono. auto. }
  assert (Hfresh : forall x, (x < m)%nat -> occ t x -> sl t x <> e).
  { intros x Hx Ho E. apply Hnew. apply in_map_iff. exists (sl t x). split. congruence.
    apply (inv_in t es I); auto. }
  assert (I' : forall x y, (x < m)%nat -> (y < m)%nat -> occ (set_nth P e t) x ->
               sl (set_nth P e t) x = sl (set_nth P e t) y -> x = y).
  { intros x y Hx Hy Ho E. rewrite !Hsl in E. unfold occ in Ho. rewrite Hsl in Ho.
    destruct (Nat.eqb_spec x P); destruct (Nat.eqb_spec y P); try congruence.
    - exfalso. apply (Hfresh y); auto. unfold occ. rewrite <- E. auto.
    - exfalso. apply (Hfresh x); auto.
    - apply (inv_uniq t es I); auto. }
  assert (Hes' : forall a, In a es -> snd a <> 0).
  { rewrite Forall_forall in Hes. auto. }
  (* uniqueness of distances in the new table, without the full record yet *)
  assert (Huniq' : forall s a d1 d2, (s < m)%nat -> snd a <> 0 ->
             at_dist (set_nth P e t) s a d1 -> at_dist (set_nth P e t) s a d2 -> d1 = d2).
  { intros s a d1 d2 Hs Ha [H1 [H2 H3]] [H4 [H5 H6]].
    apply (cpos_inj m s); auto.
    apply I'; try (apply cpos_lt; lia).
    - unfold occ. rewrite H2. auto.
    - congruence. }
  constructor.
  - rewrite set_nth_length. auto.
  - intros x Hx Ho. rewrite Hsl. apply in_or_app. unfold occ in Ho. rewrite Hsl in Ho.
    destruct (Nat.eqb_spec x P). right; simpl; auto. left. apply (inv_in t es I); auto.
  - exact I'.
  - intros a Ha. apply in_app_or in Ha. destruct Ha as [Ha|[<-|[]]].
    + destruct (inv_dist t es I a Ha) as [d0 Hd0]. exists d0. apply Hold; auto.
    + exists d. auto.
  - apply StronglySorted_snoc.
    + pose proof (inv_order t es I) as Hord.
      revert Hord. apply StronglySorted_weaken.
      intros a b Ha Hb Hab Hs d1 d2 Hd1 Hd2.
      destruct (inv_dist t es I a Ha) as [da Hda].
      destruct (inv_dist t es I b Hb) as [db Hdb].
      specialize (Hab Hs da db Hda Hdb).
      assert (d1 = da) by (apply (Huniq' (st a) a); auto using st_lt).
      assert (d2 = db) by (apply (Huniq' (st b) b); auto using st_lt).
      lia.
    + rewrite Forall_forall. intros a Ha Hs d1 d2 Hd1 Hd2.
      destruct (inv_dist t es I a Ha) as [da Hda].
      assert (d1 = da) by (apply (Huniq' (st a) a); auto using st_lt).
      assert (d2 = d) by (apply (Huniq' (st e) e); auto).
      subst d1 d2.
      destruct Hda as [H1 [H2 H3]].
      destruct (Nat.ltb_spec da d); auto. exfalso.
      destruct (Nat.eqb_spec da d).
      * subst da. rewrite Hs, <- Hq in H2. rewrite H2 in Hz. apply (Hes' a); auto.
      * assert (occ t (cpos m (st a) d)) by (apply H3; lia).
        rewrite Hs, <- Hq in H0. apply H0. exact Hz.
  - rewrite count_set_nth; auto; try lia. rewrite (inv_count t es I). rewrite app_length. simpl. lia.
Qed.

Lemma fill_Inv : forall rest t done,
  Inv t done ->
  Forall (fun a => snd a <> 0) (done ++ rest) -> NoDup (map snd (done ++ rest)) ->
  (length (done ++ rest) < m)%nat ->
  exists t', fill t (N.of_nat m) rest = Some t' /\ Inv t' (done ++ rest).
Proof.
  induction rest; simpl; intros t done I Hnz Hnd Hlen.
  - exists t. rewrite app_nil_r. auto.
  - assert (Hsplit : done ++ a :: rest = (done ++ [a]) ++ rest) by (rewrite <- app_assoc; auto).
    rewrite Hsplit in *.
    assert (Ha : snd a <> 0).
    { rewrite Forall_forall in Hnz. apply Hnz. apply in_or_app. left. apply in_or_app. right. simpl; auto. }
    assert (Hnew : ~ In (snd a) (map snd done)).
    { rewrite !map_app in Hnd. simpl in Hnd. rewrite <- app_assoc in Hnd. simpl in Hnd.
      apply NoDup_remove_2 in Hnd. intro Hc. apply Hnd. apply in_or_app. auto. }
    assert (Hd : Forall (fun a => snd a <> 0) done).
    { apply Forall_app in Hnz. destruct Hnz as [Hnz _]. apply Forall_app in Hnz. tauto. }
    rewrite !app_length in Hlen. simpl in Hlen.
    destruct (Inv_step t done a I Ha Hnew Hd ltac:(lia)) as [p [Hp I']].
    unfold st in Hp. rewrite N2Nat.id in Hp.
    rewrite (inv_len t done I) in *.
    rewrite Hp.
    apply IHrest; auto. rewrite !app_length. simpl. lia.
Qed.

End Table.

(* build_table on the entries of one table: nslots = 2 * n *)
Lemma build_table_Inv : forall es : list slot,
  es <> [] -> 2 * nlen es < 4294967296 ->
  Forall (fun a => snd a <> 0) es -> NoDup (map snd es) ->
  exists t, build_table es = Some t /\ Inv (2 * length es) t es.
Proof.
  intros es Hne H32 Hnz Hnd.
  unfold build_table. rewrite w32_small by auto.
  assert (Hm : 2 * nlen es = N.of_nat (2 * length es)) by (unfold nlen; lia).
  rewrite Hm. rewrite Nat2N.id.
  assert (Hpos : (0 < 2 * length es)%nat) by (destruct es; simpl; try congruence; lia).
  assert (H32' : N.of_nat (2 * length es) < 4294967296) by lia.
  apply (fill_Inv (2 * length es) Hpos H32' es (repeat empty_slot (2 * length es)) []).
  - apply Inv_init; auto.
  - exact Hnz.
  - exact Hnd.
  - change ([] ++ es) with es. lia.
Qed.
