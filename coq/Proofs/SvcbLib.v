(* SvcbLib: lemmas about the byte-string library of Base/Text.v (split, cut, trim, join,
   stable sort, u16 big endian, chunking) used by Proofs/Svcb.v. *)
From Coq Require Import Permutation Sorted.
From DnsV Require Import Base.Bytes Base.Text.
Require Import ZifyN ZifyNat ZifyBool.
Ltac Zify.zify_post_hook ::= Z.div_mod_to_equations.
Open Scope N_scope.

(* ------------------------------------------------------------ bytes_eqb *)
Lemma bytes_eqb_refl : forall a, bytes_eqb a a = true.
Proof. induction a as [|x a IH]; simpl; [reflexivity|]. rewrite N.eqb_refl, IH. reflexivity. Qed.

Lemma bytes_eqb_eq : forall a b, bytes_eqb a b = true <-> a = b.
Proof.
  induction a as [|x a IH]; destruct b as [|y b]; simpl; split; intro H; try reflexivity; try discriminate.
  - apply andb_true_iff in H. destruct H as [H1 H2]. apply N.eqb_eq in H1. apply IH in H2. subst. reflexivity.
  - inversion H; subst. rewrite N.eqb_refl. simpl. apply bytes_eqb_refl.
Qed.

Lemma bytes_eqb_neq : forall a b, bytes_eqb a b = false <-> a <> b.
Proof.
  intros a b. split; intro H.
  - intro E. apply bytes_eqb_eq in E. congruence.
  - destruct (bytes_eqb a b) eqn:E; [apply bytes_eqb_eq in E; contradiction | reflexivity].
Qed.

(* ------------------------------------------------------------ has_byte *)
Lemma has_byte_app : forall c a b, has_byte c (a ++ b) = has_byte c a || has_byte c b.
Proof. induction a as [|x a IH]; intros; simpl; [reflexivity|]. rewrite IH. apply orb_assoc. Qed.

Lemma has_byte_false_in : forall c s, has_byte c s = false <-> ~ In c s.
Proof.
  induction s as [|x s IH]; simpl.
  - split; [intros _ []|reflexivity].
  - rewrite orb_false_iff, IH, N.eqb_neq. split.
    + intros [H1 H2] [H|H]; [congruence|contradiction].
    + intros H. split; [intro E; apply H; left; congruence | intro I; apply H; right; exact I].
Qed.

(* ------------------------------------------------------------ split_on / join *)
Lemma split_on_nonnil : forall c s, split_on c s <> [].
Proof.
  induction s as [|x s IH]; simpl; [discriminate|].
  destruct (x =? c); [discriminate|]. destruct (split_on c s); [discriminate|discriminate].
Qed.

Lemma split_on_cons : forall c x s, (x =? c) = false ->
  exists h r, split_on c s = h :: r /\ split_on c (x :: s) = (x :: h) :: r.
Proof.
  intros c x s Hx. simpl. rewrite Hx. destruct (split_on c s) as [|h r] eqn:E.
  - exfalso. eapply split_on_nonnil; eauto.
  - exists h, r. split; reflexivity.
Qed.

Lemma join_split : forall c s, join c (split_on c s) = s.
Proof.
  induction s as [|x s IH]; simpl; [reflexivity|].
  destruct (x =? c) eqn:Hx.
  - apply N.eqb_eq in Hx. subst x. simpl.
    destruct (split_on c s) as [|h r] eqn:E; [exfalso; eapply split_on_nonnil; eauto|].
    simpl. f_equal. exact IH.
  - destruct (split_on c s) as [|h r] eqn:E; [exfalso; eapply split_on_nonnil; eauto|].
    simpl in *. destruct r; simpl in *; rewrite <- IH; reflexivity.
Qed.

Lemma split_pieces_clean : forall c s, Forall (fun p => has_byte c p = false) (split_on c s).
Proof.
  induction s as [|x s IH]; simpl.
  - constructor; [reflexivity|constructor].
  - destruct (x =? c) eqn:Hx.
    + constructor; [reflexivity|exact IH].
    + destruct (split_on c s) as [|h r] eqn:E; [constructor; [simpl; rewrite Hx; reflexivity|constructor]|].
      inversion IH; subst. constructor; [simpl; rewrite Hx; assumption|assumption].
Qed.

(* a byte that does not occur in s occurs in none of its pieces *)
Lemma split_pieces_without : forall b c s, has_byte b s = false ->
  Forall (fun p => has_byte b p = false) (split_on c s).
Proof.
  induction s as [|x s IH]; simpl; intro H.
  - constructor; [reflexivity|constructor].
  - apply orb_false_iff in H. destruct H as [H1 H2]. specialize (IH H2).
    destruct (x =? c) eqn:Hx.
    + constructor; [reflexivity|exact IH].
    + destruct (split_on c s) as [|h r] eqn:E; [constructor; [simpl; rewrite H1; reflexivity|constructor]|].
      inversion IH; subst. constructor; [simpl; rewrite H1; assumption|assumption].
Qed.

Lemma split_on_clean : forall c s, has_byte c s = false -> split_on c s = [s].
Proof.
  induction s as [|x s IH]; simpl; intro H; [reflexivity|].
  apply orb_false_iff in H. destruct H as [H1 H2]. rewrite H1, (IH H2). reflexivity.
Qed.

Lemma split_on_app : forall c a b, has_byte c a = false ->
  split_on c (a ++ c :: b) = a :: split_on c b.
Proof.
  induction a as [|x a IH]; intros b H; simpl.
  - rewrite N.eqb_refl. reflexivity.
  - simpl in H. apply orb_false_iff in H. destruct H as [H1 H2]. rewrite H1, (IH b H2). reflexivity.
Qed.

Lemma split_join : forall c l, l <> [] -> Forall (fun p => has_byte c p = false) l ->
  split_on c (join c l) = l.
Proof.
  induction l as [|x l IH]; intros Hn Hf; [congruence|].
  inversion Hf; subst. destruct l as [|y l].
  - simpl. apply split_on_clean. assumption.
  - change (join c (x :: y :: l)) with (x ++ c :: join c (y :: l)).
    rewrite split_on_app by assumption. f_equal. apply IH; [discriminate|assumption].
Qed.

Lemma has_byte_join : forall b c l, (b =? c) = false -> Forall (fun p => has_byte b p = false) l ->
  has_byte b (join c l) = false.
Proof.
  induction l as [|x l IH]; intros Hbc Hf; [reflexivity|].
  inversion Hf; subst. destruct l as [|y l]; [simpl; assumption|].
  change (join c (x :: y :: l)) with (x ++ c :: join c (y :: l)).
  rewrite has_byte_app. simpl. rewrite N.eqb_sym, Hbc, H1. simpl. apply IH; assumption.
Qed.

(* ------------------------------------------------------------ cut_at *)
Lemma cut_at_app : forall c a b, has_byte c a = false -> cut_at c (a ++ c :: b) = Some (a, b).
Proof.
  induction a as [|x a IH]; intros b H; simpl.
  - rewrite N.eqb_refl. reflexivity.
  - simpl in H. apply orb_false_iff in H. destruct H as [H1 H2]. rewrite H1, (IH b H2). reflexivity.
Qed.

Lemma cut_at_some : forall c s a b, cut_at c s = Some (a, b) -> s = a ++ c :: b /\ has_byte c a = false.
Proof.
  induction s as [|x s IH]; simpl; intros a b H; [discriminate|].
  destruct (x =? c) eqn:Hx.
  - inversion H; subst. apply N.eqb_eq in Hx. subst. split; reflexivity.
  - destruct (cut_at c s) as [[a' b']|] eqn:E; [|discriminate]. inversion H; subst.
    destruct (IH a' b eq_refl) as [H1 H2]. subst s. split; [reflexivity|]. simpl. rewrite Hx, H2. reflexivity.
Qed.

(* ------------------------------------------------------------ trim *)
Lemma trim_left_without : forall b c s, has_byte b s = false -> has_byte b (trim_left c s) = false.
Proof.
  induction s as [|x s IH]; simpl; intro H; [reflexivity|].
  apply orb_false_iff in H. destruct H as [H1 H2].
  destruct (x =? c); [apply IH; assumption|]. simpl. rewrite H1, H2. reflexivity.
Qed.

Lemma trim_right_without : forall b c s, has_byte b s = false -> has_byte b (trim_right c s) = false.
Proof.
  induction s as [|x s IH]; simpl; intro H; [reflexivity|].
  apply orb_false_iff in H. destruct H as [H1 H2]. specialize (IH H2).
  destruct (trim_right c s) as [|y r].
  - destruct (x =? c); simpl; [reflexivity|]. rewrite H1. reflexivity.
  - simpl in *. rewrite H1. exact IH.
Qed.

Lemma trim_byte_without : forall b c s, has_byte b s = false -> has_byte b (trim_byte c s) = false.
Proof. intros. unfold trim_byte. apply trim_right_without, trim_left_without. assumption. Qed.

Lemma trim_left_length : forall c s, (length (trim_left c s) <= length s)%nat.
Proof. induction s as [|x s IH]; simpl; [lia|]. destruct (x =? c); simpl; lia. Qed.

Lemma trim_right_length : forall c s, (length (trim_right c s) <= length s)%nat.
Proof.
  induction s as [|x s IH]; simpl; [lia|].
  destruct (trim_right c s) as [|y r]; [destruct (x =? c); simpl; lia|]. simpl in *. lia.
Qed.

Lemma trim_left_head : forall c s x t, trim_left c s = x :: t -> (x =? c) = false.
Proof.
  induction s as [|y s IH]; simpl; intros x t H; [discriminate|].
  destruct (y =? c) eqn:Hy; [eapply IH; eauto|]. inversion H; subst. exact Hy.
Qed.

Lemma trim_right_head : forall c s x t y r, s = x :: t -> trim_right c s = y :: r -> y = x.
Proof.
  intros c s x t y r Hs H. subst s. simpl in H.
  destruct (trim_right c t) as [|z q].
  - destruct (x =? c); [discriminate|]. inversion H; reflexivity.
  - inversion H; reflexivity.
Qed.

Lemma trim_right_idem : forall c s, trim_right c (trim_right c s) = trim_right c s.
Proof.
  induction s as [|x s IH]; simpl; [reflexivity|].
  destruct (trim_right c s) as [|y r] eqn:E.
  - destruct (x =? c) eqn:Hx; simpl; [reflexivity|]. rewrite Hx. reflexivity.
  - change (trim_right c (x :: y :: r)) with
      (match trim_right c (y :: r) with [] => if x =? c then [] else [x] | z :: q => x :: z :: q end).
    rewrite IH. reflexivity.
Qed.

Lemma trim_left_fix : forall c s, (match s with [] => true | x :: _ => negb (x =? c) end) = true ->
  trim_left c s = s.
Proof. intros c [|x s] H; simpl in *; [reflexivity|]. destruct (x =? c); [discriminate|reflexivity]. Qed.

Lemma trim_byte_idem : forall c s, trim_byte c (trim_byte c s) = trim_byte c s.
Proof.
  intros c s. unfold trim_byte.
  remember (trim_left c s) as u eqn:Hu.
  assert (Hl : trim_left c (trim_right c u) = trim_right c u).
  { apply trim_left_fix. destruct (trim_right c u) as [|y r] eqn:E; [reflexivity|].
    destruct u as [|x t]; [simpl in E; discriminate|].
    pose proof (trim_right_head c (x :: t) x t y r eq_refl E) as Hy. subst y.
    symmetry in Hu. rewrite (trim_left_head c s x t Hu). reflexivity. }
  rewrite Hl. apply trim_right_idem.
Qed.

Lemma trim_right_snoc : forall c w, trim_right c (w ++ [c]) = trim_right c w.
Proof.
  induction w as [|x w IH]; simpl; [rewrite N.eqb_refl; reflexivity|]. rewrite IH. reflexivity.
Qed.

(* a trimmed string inside a pair of quote characters is what Trim gives back *)
Lemma trim_byte_quoted : forall c w, trim_byte c w = w -> trim_byte c (c :: w ++ [c]) = w.
Proof.
  intros c w H. unfold trim_byte in *. simpl. rewrite N.eqb_refl.
  destruct w as [|x t].
  - simpl. rewrite N.eqb_refl. reflexivity.
  - destruct (x =? c) eqn:Hx.
    + exfalso. simpl in H. rewrite Hx in H.
      pose proof (trim_right_length c (trim_left c t)). pose proof (trim_left_length c t).
      rewrite H in H0. simpl in H0. lia.
    + simpl in H. rewrite Hx in H. simpl. rewrite Hx.
      change (x :: t ++ [c]) with ((x :: t) ++ [c]). rewrite trim_right_snoc. exact H.
Qed.

(* ------------------------------------------------------------ stable sort *)
Section Sort.
Context {A : Type} (f : A -> N).

Lemma insert_by_perm : forall x l, Permutation (insert_by f x l) (x :: l).
Proof.
  induction l as [|y t IH]; simpl; [apply Permutation_refl|].
  destruct (f x <=? f y); [apply Permutation_refl|].
  eapply Permutation_trans; [apply perm_skip, IH|apply perm_swap].
Qed.

Lemma sort_by_perm : forall l, Permutation (sort_by f l) l.
Proof.
  induction l as [|x l IH]; simpl; [constructor|].
  eapply Permutation_trans; [apply insert_by_perm|apply perm_skip, IH].
Qed.

Definition le_by (a b : A) : Prop := f a <= f b.

Lemma insert_by_sorted : forall x l, StronglySorted le_by l -> StronglySorted le_by (insert_by f x l).
Proof.
  induction l as [|y t IH]; intro H; simpl.
  - constructor; constructor.
  - inversion H; subst. destruct (f x <=? f y) eqn:E.
    + constructor; [exact H|]. constructor; [unfold le_by; lia|].
      eapply Forall_impl; [|exact H3]. unfold le_by. intros; lia.
    + constructor; [apply IH; assumption|].
      eapply Permutation_Forall; [apply Permutation_sym, insert_by_perm|].
      constructor; [unfold le_by; lia|assumption].
Qed.

Lemma sort_by_sorted : forall l, StronglySorted le_by (sort_by f l).
Proof. induction l as [|x l IH]; simpl; [constructor|]. apply insert_by_sorted, IH. Qed.

Lemma insert_by_head : forall x l, Forall (fun y => f x <= f y) l -> insert_by f x l = x :: l.
Proof.
  intros x [|y t] H; simpl; [reflexivity|]. inversion H; subst.
  destruct (f x <=? f y) eqn:E; [reflexivity|lia].
Qed.

Lemma sort_by_sorted_id : forall l, StronglySorted le_by l -> sort_by f l = l.
Proof.
  induction l as [|x l IH]; intro H; simpl; [reflexivity|]. inversion H; subst.
  rewrite IH by assumption. apply insert_by_head. exact H3.
Qed.
End Sort.

Lemma insert_by_map : forall {A B} (f : A -> N) (g : B -> N) (h : A -> B),
  (forall a, g (h a) = f a) -> forall x l, map h (insert_by f x l) = insert_by g (h x) (map h l).
Proof.
  intros A B f g h Hg x. induction l as [|y t IH]; simpl; [reflexivity|].
  rewrite !Hg. destruct (f x <=? f y); simpl; [reflexivity|]. rewrite IH. reflexivity.
Qed.

Lemma sort_by_map : forall {A B} (f : A -> N) (g : B -> N) (h : A -> B),
  (forall a, g (h a) = f a) -> forall l, map h (sort_by f l) = sort_by g (map h l).
Proof.
  intros A B f g h Hg. induction l as [|x l IH]; simpl; [reflexivity|].
  rewrite (insert_by_map f g h Hg), IH. reflexivity.
Qed.

(* sorted by <= and without repetition = strictly increasing *)
Lemma sorted_nodup_strict : forall l : list N,
  StronglySorted N.le l -> NoDup l -> StronglySorted N.lt l.
Proof.
  induction l as [|x l IH]; intros Hs Hn; [constructor|].
  inversion Hs; subst. inversion Hn; subst. constructor; [apply IH; assumption|].
  rewrite Forall_forall in *. intros y Hy. specialize (H2 y Hy).
  assert (x <> y) by (intro; subst; contradiction). lia.
Qed.

Lemma strictly_inc_iff : forall l, strictly_inc l = true <-> StronglySorted N.lt l.
Proof.
  induction l as [|a l IH]; [split; [constructor|reflexivity]|].
  destruct l as [|b t].
  - split; [intros _; constructor; constructor|reflexivity].
  - change (strictly_inc (a :: b :: t)) with ((a <? b) && strictly_inc (b :: t)).
    rewrite andb_true_iff, IH. split.
    + intros [H1 H2]. constructor; [exact H2|]. constructor; [lia|].
      inversion H2; subst. eapply Forall_impl; [|exact H4]. intros; simpl in *; lia.
    + intro H. inversion H; subst. inversion H3; subst. split; [lia|assumption].
Qed.

Lemma sorted_map_le : forall {A} (f : A -> N) l, StronglySorted (le_by f) l -> StronglySorted N.le (map f l).
Proof.
  induction l as [|x l IH]; intro H; simpl; [constructor|]. inversion H; subst.
  constructor; [apply IH; assumption|]. rewrite Forall_map. exact H3.
Qed.

Lemma sorted_lt_le_by : forall {A} (f : A -> N) l, StronglySorted N.lt (map f l) -> StronglySorted (le_by f) l.
Proof.
  induction l as [|x l IH]; intro H; simpl in *; [constructor|]. inversion H; subst.
  constructor; [apply IH; assumption|]. rewrite Forall_map in H3.
  eapply Forall_impl; [|exact H3]. unfold le_by. intros; simpl in *; lia.
Qed.

(* ------------------------------------------------------------ u16 *)
Lemma be16_u16be : forall k, k < 65536 -> be16 (u16be k) = k.
Proof. intros k H. unfold be16, u16be. lia. Qed.

Lemma u16be_length : forall k, length (u16be k) = 2%nat.
Proof. reflexivity. Qed.

Lemma nlen_app : forall {A} (a b : list A), nlen (a ++ b) = nlen a + nlen b.
Proof. intros. unfold nlen. rewrite app_length. lia. Qed.

Lemma to_nat_nlen : forall {A} (a : list A), N.to_nat (nlen a) = length a.
Proof. intros. unfold nlen. lia. Qed.

Lemma firstn_app_exact : forall {A} (a b : list A), firstn (length a) (a ++ b) = a.
Proof. intros. rewrite firstn_app, Nat.sub_diag, firstn_all. simpl. apply app_nil_r. Qed.

Lemma skipn_app_exact : forall {A} (a b : list A), skipn (length a) (a ++ b) = b.
Proof. intros. rewrite skipn_app, Nat.sub_diag, skipn_all. reflexivity. Qed.

(* ------------------------------------------------------------ all_some *)
Lemma all_some_map_some : forall {A} (l : list A), all_some (map Some l) = Some l.
Proof. induction l as [|x l IH]; simpl; [reflexivity|]. rewrite IH. reflexivity. Qed.

Lemma all_some_some : forall {A} (l : list (option A)) r, all_some l = Some r -> l = map Some r.
Proof.
  induction l as [|x l IH]; simpl; intros r H; [inversion H; reflexivity|].
  destruct x as [x|]; [|discriminate]. destruct (all_some l) eqn:E; [|discriminate].
  inversion H; subst. simpl. f_equal. apply IH. reflexivity.
Qed.
