(* Proofs/LinkCountersNoPanic: C19 x C13 x C01 - the counters follow the served response with NO side condition
   about the run.  C13_no_panic (Proofs/NoPanic.v, NoPanicV2.v) says Model/Serve.serve neither panics nor runs out
   of fuel for a wire-valid query name - on ANY store for the label-by-label readers, on every store satisfying
   the decidable key guard [wf_store_v2] (and a two-byte location) for the closest-key reader; the statements are
   about the same [serve b st], so no adapter between reader instances is needed.  What is added here:
   - a located query always gets a reply (ONoReply only without a location);
   - [wire_of_pack]: the name guard of the C01 theorems (lower-cased name = pack n, labels 1..63, at most 255
     octets) implies C13's [wire_name];
   - [gen_declares_guard]: every database form of Proofs/Compose.gen_declares with v2 keys - the row-level
     compilation AND every dump of a RocksDB compiled from the text of a well-formed data file - satisfies
     [wf_store_v2]. *)
From DnsV Require Import Base.Bytes Model.Store Model.LookupV1 Model.LookupV2 Model.Serve.
From DnsV Require Import Spec.Answer Spec.Rows Spec.KeysV2 Spec.Declared Spec.MapOfLists.
From DnsV Require Import Proofs.Compile Proofs.ZoneCut Proofs.Referral Proofs.Shape Proofs.Ctx Proofs.V2Store.
From DnsV Require Import Proofs.NoPanic Proofs.NoPanicV2Names Proofs.NoPanicV2Walk Proofs.NoPanicV2.
From DnsV Require Import Model.Compile Proofs.Batch Proofs.CompilePipe Proofs.DeclaredLink Proofs.FileLevel.
From DnsV Require Model.Counters Spec.Counters Proofs.Counters.
From DnsV Require Model.Compose Proofs.Compose.
From DnsV Require Import Model.ComposeMore Proofs.LinkCountersServe Proofs.LinkCountersSpec.
From Coq Require Import Lia Permutation ZifyN ZifyNat ZifyBool.
Open Scope N_scope.

(* ------------------------------------------------------------------ a located query is answered *)
Section Replies.
Variable C : Type.
Variable rd : reader C.

Lemma serve_with_located_replies : forall c0 q loc ecs max,
  serve_with C rd c0 q (LocOk loc) ecs max <> ONoReply.
Proof.
  intros c0 q loc ecs max H. unfold serve_with in H.
  assert (K : lift (rd_auth C rd c0 (lower_bytes (q_name q)) loc)
            (fun x => let '(ar, c1) := x in
               if a_err ar then servfail q
               else if negb (a_ns ar) && negb (a_auth ar)
                    then OReply (mkResp (q_id q) (question_of q) 5 false [] [] [] (opt_of q ecs))
                    else lift (serve_ds C rd q loc (lower_bytes (q_name q)) ar c1)
                           (fun r => match r with
                                     | Some (ar', c2) => serve_answer C rd q ecs loc max (lower_bytes (q_name q)) ar' c2
                                     | None => servfail q
                                     end)) = ONoReply -> False).
  { clear H. intros H. apply lift_noreply in H as [[ar c1] [_ H]].
    destruct (a_err ar); [discriminate|]. destruct (negb (a_ns ar) && negb (a_auth ar)); [discriminate|].
    apply lift_noreply in H as [r [_ H]]. destruct r as [[ar' c2]|]; [|discriminate].
    unfold serve_answer in H. apply lift_noreply in H as [[[an rcode] c3] [_ H]].
    exact (sections_not_noreply C rd _ _ _ _ _ _ _ _ H). }
  destruct (q_edns q) as [[|p]|]; [exact (K H)|discriminate|exact (K H)].
Qed.
End Replies.

Lemma serve_located_replies : forall b st q loc ecs max, serve b st q (LocOk loc) ecs max <> ONoReply.
Proof. intros b st q loc ecs max. destruct b; unfold serve; apply serve_with_located_replies. Qed.

(* ------------------------------------------------------------------ the name guard of C01 implies C13's *)
Lemma lower_small : forall c, lower c <= 63 -> c = lower c.
Proof. intros c H. unfold lower in *. destruct ((65 <=? c) && (c <=? 90)) eqn:E; lia. Qed.

Lemma wire_fuel_of_pack : forall (n : name) l f, wf_name n -> lower_bytes l = pack n -> (length l < f)%nat ->
  wire_name_fuel f l = true.
Proof.
  induction n as [|lab p IH]; intros l f Hn Hl Hf.
  - unfold pack in Hl. cbn [flat_map app] in Hl. destruct l as [|c [|c' t]]; try discriminate Hl.
    cbn [lower_bytes map] in Hl. inversion Hl as [Hc].
    destruct f as [|f]; [lia|]. cbn [wire_name_fuel].
    assert (c = 0) by (unfold lower in Hc; destruct ((65 <=? c) && (c <=? 90)); lia). subst c. reflexivity.
  - inversion Hn as [|? ? Hlab Hp]; subst. destruct Hlab as ((L1 & L2) & _).
    rewrite pack_cons in Hl. cbn [app] in Hl. destruct l as [|c t]; [discriminate|].
    cbn [lower_bytes map] in Hl. inversion Hl as [[Hc Ht]]. fold (lower_bytes t) in Ht.
    assert (Ec : c = nlen lab) by (rewrite <- Hc; apply lower_small; lia).
    destruct f as [|f]; [lia|]. cbn [wire_name_fuel].
    assert (Elen : nlen t = nlen lab + nlen (pack p)).
    { rewrite <- (nlen_map lower t). fold (lower_bytes t). rewrite Ht. unfold nlen. rewrite app_length. lia. }
    assert (E0 : (c =? 0) = false) by (apply N.eqb_neq; lia). rewrite E0.
    assert (E1 : (c <? 64) = true) by (apply N.ltb_lt; lia).
    assert (E2 : (c <=? nlen t) = true) by (apply N.leb_le; lia). rewrite E1, E2. cbn [andb].
    apply IH; [exact Hp| |].
    + unfold lower_bytes. rewrite <- skipn_map. fold (lower_bytes t). rewrite Ht, Ec.
      unfold nlen. rewrite Nat2N.id, skipn_app, skipn_all, Nat.sub_diag. reflexivity.
    + rewrite skipn_length. cbn [length] in Hf. unfold nlen in *. lia.
Qed.

Theorem wire_of_pack : forall (n : name) l, wf_name n -> nlen (pack n) <= 255 -> lower_bytes l = pack n ->
  wire_name l = true.
Proof.
  intros n l Hn Hlen Hl. unfold wire_name. apply andb_true_iff. split.
  - apply (wire_fuel_of_pack n l _ Hn Hl). lia.
  - apply N.leb_le. rewrite <- (nlen_map lower l). fold (lower_bytes l). rewrite Hl. exact Hlen.
Qed.

(* ------------------------------------------------------------------ compiled v2 databases satisfy C13's guard *)
Lemma nodup_keys_once : forall st : Model.Store.store, NoDup (map fst st) -> keys_once st = true.
Proof.
  induction st as [|[k v] t IH]; intros ND; [reflexivity|]. cbn [map fst] in ND. inversion ND as [|? ? Nk ND']; subst.
  cbn [keys_once]. rewrite (IH ND'), andb_true_r. apply negb_true_iff.
  destruct (has_key t k) eqn:E; [|reflexivity]. exfalso. apply Nk. clear - E.
  induction t as [|[k' v'] t IH]; [discriminate|]. cbn [has_key] in E. cbn [map fst].
  destruct (bytes_eqb k' k) eqn:Ek; [left; apply bytes_eqb_eq; exact Ek|right; apply IH; exact E].
Qed.

Lemma foreign_key_ok : forall k, foreign_keyb k = true -> key_ok k = true.
Proof.
  intros k H. unfold key_ok, rr_marker. destruct (is_prefix [0; 111] k) eqn:E; [|reflexivity].
  destruct k as [|a [|b k2]]; cbn [is_prefix] in E; try discriminate E.
  { destruct (0 =? a); discriminate E. }
  apply andb_prop in E as [Ea E]. apply andb_prop in E as [Eb _].
  apply N.eqb_eq in Ea. apply N.eqb_eq in Eb. subst a b.
  unfold foreign_keyb in H. cbn [is_prefix N.eqb Pos.eqb andb orb] in H.
  destruct k2 as [|c t]; [discriminate H|]. cbn [skipn].
  change (match c with 0 => false | N.pos q => (95 =? q)%positive end) with (95 =? c) in H.
  rewrite andb_true_r in H. apply N.eqb_eq in H. subst c. reflexivity.
Qed.

(* every dump of a RocksDB compiled with v2 keys from the text of a well-formed data file *)
Theorem file_dump_wf_v2 : forall o serial nornet accum feature f,
  wf_file o serial f = true -> side_ok accum feature f ->
  forall db st, feature <> [] -> kvs_ok (records bytes (conv_line o serial nornet true) accum feature f) ->
  rdb_compilation bytes (conv_line o serial nornet true) accum feature f db -> rdb_dump db st ->
  wf_store_v2 st = true.
Proof.
  intros o serial nornet accum feature f WF SIDE db st NF KV C D.
  destruct (rdb_compilation_lossless bytes (conv_line o serial nornet true) accum feature f db NF KV C) as [OK Hv].
  destruct (dump_store db st OK D) as (U & NE & Hg). destruct D as [ND _].
  unfold wf_store_v2. rewrite (nodup_keys_once st ND). cbn [andb]. apply forallb_forall. intros [k v] Hin. cbn [fst].
  pose proof (NE k v Hin) as Hne. rewrite <- (U k v Hin), Hg in Hne.
  assert (Hsc : spec_compile bytes (conv_line o serial nornet true) accum feature f k <> []).
  { intros X. pose proof (Hv k) as Hp. rewrite X in Hp. apply Permutation_sym, Permutation_nil in Hp. contradiction. }
  unfold spec_compile in Hsc.
  destruct (vals_of k (records bytes (conv_line o serial nornet true) accum feature f)) as [|v' t] eqn:Ev; [contradiction|].
  assert (Hin' : In (k, v') (records bytes (conv_line o serial nornet true) accum feature f)).
  { apply vals_of_in. rewrite Ev. left. reflexivity. }
  destruct (records_keys o serial nornet true accum feature f (k, v') WF SIDE Hin') as [X|X].
  - change (rows_of true (declared_file o serial f)) with (rows_of_v2 (declared_file o serial f)) in X.
    unfold rows_of_v2 in X. apply in_map_iff in X as [r [Er Hr]]. inversion Er; subst.
    destruct (recs_wf o serial f WF) as [W _].
    destruct (wf_recs_owners_ok _ W r Hr) as [Ho Hl].
    unfold key_v2. rewrite rpack_pack_rev.
    apply (key_ok_rr (rev (r_owner r)) (loc_bytes r)); [apply Forall_rev; exact Ho|].
    unfold loc_bytes. destruct (r_loc r); [exact Hl | reflexivity].
  - apply foreign_key_ok. exact X.
Qed.

(* every database form of gen_declares satisfies the guards C13_no_panic asks of it *)
Theorem gen_declares_guard : forall g L recs, Proofs.Compose.gen_declares g L recs ->
  Model.Compose.g_backend g = RDB2 -> wf_store_v2 (Model.Compose.g_store g) = true /\ loc_wf (LocOk L).
Proof.
  intros g L recs D Hb.
  destruct D as [Hb' Hst W1 W2 W3 W4 | Hb' Hst W1 W2 W3 W4
                | o serial nornet accum feature f stream kvs Hb' Er WF SO P CC G LO V
                | o serial nornet accum feature f db Hb' Er WF SO NF KV RC RD LO V
                | o serial nornet accum feature f db Hb' Er WF SO NF KV RC RD LL V].
  - contradiction.
  - split; [rewrite Hst; exact (wf_recs_store_wf recs W1)|exact W3].
  - rewrite Hb in Hb'. discriminate.
  - rewrite Hb in Hb'. discriminate.
  - split; [exact (file_dump_wf_v2 o serial nornet accum feature f WF SO db _ NF KV RC RD)|exact LL].
Qed.

(* ================================================================== the counters, without conditions on the run *)
(* label-by-label readers (CDB, RocksDB v1 keys): ANY store *)
Theorem counters_follow_serve_wf : forall sd b st q locr ecs max,
  b <> RDB2 -> wire_name (q_name q) = true ->
  counters_follow sd q (serve b st q locr ecs max) (Model.Counters.serve (class_of sd b st q locr ecs max)).
Proof.
  intros sd b st q locr ecs max Hb Hw.
  destruct (serve_no_panic_v1 b st q locr ecs max Hb Hw) as [NP NF].
  exact (counters_follow_serve sd b st q locr ecs max NP NF).
Qed.

(* closest-key reader (RocksDB v2 keys): every store with well-formed keys *)
Theorem counters_follow_serve_wf_v2 : forall sd st q locr ecs max,
  wf_store_v2 st = true -> wire_name (q_name q) = true -> loc_wf locr ->
  counters_follow sd q (serve RDB2 st q locr ecs max) (Model.Counters.serve (class_of sd RDB2 st q locr ecs max)).
Proof.
  intros sd st q locr ecs max Hs Hw Hl.
  destruct (serve_no_panic_v2 st q locr ecs max Hs Hw Hl) as [NP NF].
  exact (counters_follow_serve sd RDB2 st q locr ecs max NP NF).
Qed.

(* the three readers in one statement *)
Theorem counters_follow_serve_wf_any : forall sd b st q locr ecs max,
  (b = RDB2 -> wf_store_v2 st = true /\ loc_wf locr) -> wire_name (q_name q) = true ->
  counters_follow sd q (serve b st q locr ecs max) (Model.Counters.serve (class_of sd b st q locr ecs max)).
Proof.
  intros sd b st q locr ecs max Hg Hw.
  destruct (serve_no_panic b st q locr ecs max Hg Hw) as [NP NF].
  exact (counters_follow_serve sd b st q locr ecs max NP NF).
Qed.

(* composed with C01: for every database form of gen_declares and every query under the name guard of the C01
   theorems the handler DOES reply, and the counters are those the declared records prescribe - no hypothesis
   about the outcome of the run is left *)
Theorem counters_by_spec_total : forall g L recs, Proofs.Compose.gen_declares g L recs ->
  forall sd q n ecs max,
  wf_name n -> nlen (pack n) <= 255 -> lower_bytes (q_name q) = pack n ->
  (q_edns q = None \/ q_edns q = Some 0) ->
  s_write_err sd = false ->
  exists x,
    serve (Model.Compose.g_backend g) (Model.Compose.g_store g) q (LocOk L) ecs max = OReply x /\
    response_refines L recs n q ecs max x /\
    counters_by_spec L recs n q max
      (Model.Counters.serve (class_of sd (Model.Compose.g_backend g) (Model.Compose.g_store g) q (LocOk L) ecs max)).
Proof.
  intros g L recs D sd q n ecs max Hn Hl Hq He Hw.
  pose proof (wire_of_pack n (q_name q) Hn Hl Hq) as Hwire.
  destruct (serve_no_panic (Model.Compose.g_backend g) (Model.Compose.g_store g) q (LocOk L) ecs max
              (gen_declares_guard g L recs D) Hwire) as [NP NF].
  pose proof (serve_located_replies (Model.Compose.g_backend g) (Model.Compose.g_store g) q L ecs max) as NR.
  destruct (serve (Model.Compose.g_backend g) (Model.Compose.g_store g) q (LocOk L) ecs max) as [| | |x] eqn:Es;
    [contradiction|contradiction|contradiction|].
  exists x. split; [reflexivity|].
  split; [exact (Proofs.Compose.declares_serves g L recs D q n ecs max x Hn Hl Hq He Es)|].
  exact (counters_follow_spec g L recs D sd q n ecs max x Hn Hl Hq He Es Hw).
Qed.
