(* DeclaredWf: the records a well-formed line declares satisfy the guards of the C01 / C02 theorems:
   wf_rec (fields fit their widths, owner labels 1..63 lower-case bytes, tags two bytes other than 00)
   and wf_ns_rdata (the rdata of an NS record is one uncompressed wire name of at most 255 octets). *)
From DnsV Require Import Model.Text Proofs.TextBase Proofs.TextNames.
From DnsV Require Import Spec.Answer Spec.Rows Spec.Declared Proofs.DeclaredLink.
From DnsV Require Import Model.LookupV1 Proofs.ZoneCut Proofs.RevOrder Proofs.Referral.
From Coq Require Import ZifyN ZifyNat ZifyBool.
Open Scope N_scope.

Lemma ascii_lower_props : forall c, c < 256 -> ascii_lower c < 256 /\ ~ (65 <= ascii_lower c <= 90).
Proof. intros c H. unfold ascii_lower. destruct ((65 <=? c) && (c <=? 90)) eqn:E; lia. Qed.

Lemma to_lower_wf_label : forall l, wf_bytes l -> l <> [] -> nlen l <= 63 -> wf_label (to_lower l).
Proof.
  intros l W Hne Hl. unfold wf_label. rewrite to_lower_len. split.
  - split; [|exact Hl]. destruct l; [contradiction | unfold nlen; cbn [length]; lia].
  - unfold wf_bytes in W. rewrite Forall_forall in W. split.
    + intros c Hc. unfold to_lower in Hc. apply in_map_iff in Hc as [x [<- Hx]]. apply ascii_lower_props. apply W. exact Hx.
    + unfold to_lower. apply Forall_map. apply Forall_forall. intros x Hx. apply ascii_lower_props. apply W. exact Hx.
Qed.

Lemma owner_wf : forall d, wf_bytes d -> Forall lab63 (labels d) -> Forall wf_label (owner_of d).
Proof.
  intros d W H. rewrite owner_of_lower. unfold ne_labels. rewrite labels_lower.
  pose proof (labels_wf d W) as Wl.
  induction H as [|l t Hl Ht IH]; [constructor|]. inversion Wl as [|? ? W1 W2]; subst. cbn [map filter].
  destruct l as [|c l']; [apply IH; exact W2|].
  change (to_lower (c :: l')) with (ascii_lower c :: to_lower l'). cbn [Text.nonempty].
  constructor; [|apply IH; exact W2].
  apply (to_lower_wf_label (c :: l')); [exact W1 | discriminate | exact Hl].
Qed.
Lemma owner_wf_b : forall d, labels_okb d = true -> Forall wf_label (owner_of d).
Proof. intros d H. apply labels_okb_spec in H as [W H]. apply owner_wf; assumption. Qed.

Lemma tag_wf : forall lo, match tag lo with Some l => exists a b, l = [a; b] /\ l <> [0; 0] | None => True end.
Proof.
  intros lo. unfold tag. destruct (length lo =? 2)%nat eqn:E; cbn [andb]; [|exact I].
  destruct (bytes_eqb lo [0; 0]) eqn:E2; cbn [negb]; [exact I|].
  destruct lo as [|a [|b [|]]]; try discriminate. exists a, b. split; [reflexivity|].
  intros X. rewrite X in E2. discriminate.
Qed.

Lemma drec_wf : forall dom wild lo ty ttl rd, labels_okb dom = true -> ty < 65536 -> ttl < 4294967296 ->
  wf_rec (drec dom wild lo ty ttl rd).
Proof.
  intros. unfold wf_rec, drec. cbn [r_type r_ttl r_weight r_owner r_loc].
  split; [assumption|]. split; [assumption|]. split; [lia|]. split; [apply owner_wf_b; assumption | apply tag_wf].
Qed.

Lemma addr_wf : forall dom wild ip ttl lo w, labels_okb dom = true -> ttl < 4294967296 -> w < 4294967296 ->
  Forall wf_rec (addr dom wild ip ttl lo w).
Proof.
  intros. unfold addr. destruct ip as [a|]; [|constructor].
  destruct (is4 a); (constructor; [|constructor]); unfold wf_rec; cbn [r_type r_ttl r_weight r_owner r_loc];
    (split; [lia|]; split; [assumption|]; split; [assumption|]; split; [apply owner_wf_b; assumption | apply tag_wf]).
Qed.

(* the text of a reverse-lookup name is made of bytes *)
Lemma digits_wf : forall l, Forall digitc l -> wf_bytes l.
Proof. intros l H. unfold wf_bytes. eapply Forall_impl; [|exact H]. intros c Hc. unfold digitc in Hc. lia. Qed.
Lemma hexlow_byte : forall n, n < 16 -> hexlow n < 256.
Proof. intros n H. unfold hexlow. destruct (n <? 10); lia. Qed.
Lemma revaddr_wf : forall a, wf_bytes (reverseaddr (Some a)).
Proof.
  intros a. unfold reverseaddr. destruct (is4 a).
  - repeat (apply wf_bytes_app; [apply digits_wf, print_dec_digits|]; try (constructor; [lia|])).
    unfold s_inaddr. repeat constructor.
  - apply wf_bytes_app; [|unfold s_ip6arpa; repeat constructor].
    induction (rev a) as [|v t IH]; [constructor|]. cbn [flat_map app].
    assert (H1 : v mod 16 < 16) by (apply N.mod_lt; lia).
    assert (H2 : (v / 16) mod 16 < 16) by (apply N.mod_lt; lia).
    constructor; [apply hexlow_byte; exact H1|]. constructor; [lia|]. constructor; [apply hexlow_byte; exact H2|].
    constructor; [lia | exact IH].
Qed.
Lemma arpa_wf : forall a, wf_bytes a -> Forall wf_label (arpa_name a).
Proof. intros a W. rewrite <- arpa_owner. apply owner_wf; [apply revaddr_wf | apply revaddr_ok; exact W]. Qed.

Ltac lab' d := match goal with H : labels_okb d = true |- _ => idtac end.
Ltac u32 t := match goal with H : u32okb t = true |- _ => unfold u32okb in H; apply N.ltb_lt in H end.

Local Opaque labels_okb wire_okb ip_okb.

Theorem declared_wf : forall r, dns_okb r = true -> Forall wf_rec (declared r).
Proof.
  intros r Hok. destruct r; cbn [declared dns_okb] in *; try (constructor; fail); okb Hok.
  - u32 ttl. constructor; [apply drec_wf; [assumption | lia | assumption] | constructor].
  - u32 ttl. wir ns. constructor; [apply drec_wf; [assumption | lia | destruct (ttl =? 0); lia]|].
    constructor; [apply drec_wf; [assumption | lia | assumption]|]. apply addr_wf; [assumption | assumption | lia].
  - u32 ttl. wir ns. constructor; [apply drec_wf; [assumption | lia | assumption]|]. apply addr_wf; [assumption | assumption | lia].
  - u32 ttl. u32 weight. apply addr_wf; assumption.
  - u32 ttl. destruct ip as [a|]; [|constructor]. apply Forall_app. split; [apply addr_wf; [assumption | assumption | lia]|].
    constructor; [|constructor]. unfold wf_rec. cbn [r_type r_ttl r_weight r_owner r_loc].
    split; [lia|]. split; [assumption|]. split; [lia|]. split; [|apply tag_wf].
    apply arpa_wf. match goal with H : ip_okb (Some a) = true |- _ => exact (ip_okb_wf a H) end.
  - u32 ttl. constructor; [apply drec_wf; [assumption | lia | assumption]|]. apply addr_wf; [assumption | assumption | lia].
  - u32 ttl. constructor; [apply drec_wf; [assumption | lia | assumption]|]. apply addr_wf; [assumption | assumption | lia].
  - u32 ttl. constructor; [apply drec_wf; [assumption | lia | assumption] | constructor].
  - u32 ttl. constructor; [apply drec_wf; [assumption | lia | assumption] | constructor].
  - u32 ttl. constructor; [apply drec_wf; [assumption | lia | assumption] | constructor].
  - u32 ttl. constructor; [apply drec_wf; [assumption | | assumption] | constructor].
    match goal with H : (rtype <? 65536) = true |- _ => apply N.ltb_lt in H; exact H end.
  - u32 ttl. constructor; [apply drec_wf; [assumption | destruct https; lia | assumption] | constructor].
Qed.

(* ---------------------------------------------------------------- NS rdata is one wire name *)
Lemma parse_name_fuel_pack_ok : forall (z : name) fuel acc,
  name_ok z -> (length z < fuel)%nat ->
  parse_name_fuel fuel (pack z) acc = Some (acc ++ pack z, []).
Proof.
  induction z as [|l p IH]; intros fuel acc Hz Hf; (destruct fuel as [|fuel]; [lia|]).
  - reflexivity.
  - inversion Hz as [|? ? Hl Hp]; subst. destruct Hl as [Hl1 Hl2].
    rewrite pack_cons. cbn [app parse_name_fuel].
    assert (E0 : (nlen l =? 0) = false) by lia. rewrite E0.
    assert (E1 : (64 <=? nlen l) = false) by lia. rewrite E1.
    assert (E2 : (nlen (l ++ pack p) <? nlen l) = false) by (rewrite nlen_app; lia). rewrite E2.
    rewrite to_nat_nlen, skipn_app, skipn_all, Nat.sub_diag, firstn_app, firstn_all, Nat.sub_diag.
    cbn [skipn firstn app]. rewrite app_nil_r.
    rewrite IH; [|exact Hp | cbn [length] in Hf; lia].
    rewrite <- app_assoc. reflexivity.
Qed.
Lemma length_pack_gt : forall z : name, (length z < length (pack z))%nat.
Proof. induction z as [|l p IH]; [cbn; lia|]. rewrite pack_cons, app_length. cbn [length]. lia. Qed.
Lemma parse_name_pack_ok : forall z : name, name_ok z -> nlen (pack z) <= 255 ->
  parse_name (pack z) = Some (pack z, []).
Proof.
  intros z Hz Hlen. unfold parse_name.
  rewrite (parse_name_fuel_pack_ok z (S (length (pack z))) [] Hz) by (pose proof (length_pack_gt z); lia).
  cbn [app]. assert (E : (nlen (pack z) <=? 255) = true) by lia. rewrite E. reflexivity.
Qed.

Lemma ne_labels_name_ok : forall d, Forall lab63 (labels d) -> name_ok (ne_labels d).
Proof.
  intros d H. unfold ne_labels, name_ok. induction H as [|x t Hx Ht IH]; [constructor|]. cbn [filter].
  destruct x as [|c x']; cbn [Text.nonempty]; [exact IH|]. constructor; [|exact IH].
  unfold lab_ok, lab63 in *. split; [unfold nlen; cbn [length]; lia | exact Hx].
Qed.

Lemma wire_parse : forall d, wire_okb d = true -> parse_name (wire d) = Some (wire d, []).
Proof.
  intros d H. apply wire_okb_spec in H as [H1 H2]. unfold wire in *. rewrite dns_labels_ne in *.
  apply parse_name_pack_ok; [apply ne_labels_name_ok, labels_okb_spec; exact H1 | exact H2].
Qed.

Lemma addr_ns_ok : forall dom wild ip ttl lo w, Forall wf_ns_rdata (addr dom wild ip ttl lo w).
Proof.
  intros. unfold addr. destruct ip as [a|]; [|constructor].
  destruct (is4 a); (constructor; [|constructor]); intros X; discriminate X.
Qed.

Theorem declared_ns_ok : forall r, dns_okb r = true -> Forall wf_ns_rdata (declared r).
Proof.
  intros r Hok. destruct r; cbn [declared dns_okb] in *; try (constructor; fail); okb Hok.
  - constructor; [intros X; discriminate X | constructor].
  - constructor; [intros X; discriminate X|]. constructor; [|apply addr_ns_ok].
    intros _. unfold drec. cbn [r_rdata]. apply wire_parse. assumption.
  - constructor; [|apply addr_ns_ok]. intros _. unfold drec. cbn [r_rdata]. apply wire_parse. assumption.
  - apply addr_ns_ok.
  - destruct ip as [a|]; [|constructor]. apply Forall_app. split; [apply addr_ns_ok|].
    constructor; [intros X; discriminate X | constructor].
  - constructor; [intros X; discriminate X | apply addr_ns_ok].
  - constructor; [intros X; discriminate X | apply addr_ns_ok].
  - constructor; [intros X; discriminate X | constructor].
  - constructor; [intros X; discriminate X | constructor].
  - constructor; [intros X; discriminate X | constructor].
  - constructor; [|constructor]. intros X. unfold drec in X. cbn [r_type] in X. subst rtype.
    match goal with H : negb _ = true |- _ => cbn in H; discriminate H end.
  - constructor; [|constructor]. intros X. unfold drec in X. cbn [r_type] in X. destruct https; discriminate X.
Qed.

(* ---------------------------------------------------------------- whole files *)
Theorem declared_file_wf : forall rs, Forall (fun r => dns_okb r = true) rs ->
  wf_recs (flat_map declared rs) /\ Forall wf_ns_rdata (flat_map declared rs).
Proof.
  induction 1 as [|r t Hr Ht [IH1 IH2]]; [split; constructor|]. cbn [flat_map]. split.
  - unfold wf_recs in *. apply Forall_app. split; [apply declared_wf; exact Hr | exact IH1].
  - apply Forall_app. split; [apply declared_ns_ok; exact Hr | exact IH2].
Qed.
