(* SeekSkip (C02): one iteration of the closest-key walk (sortedDataReader.find, cache-free form
   find_loop_pure) at an ancestor r of the query name, over ANY store whose keys are keys of names
   or foreign (no marker, or a first byte no label length can have):
     - it scans exactly the rows stored for (r, client location) and then (r, no location), like
       the label-by-label reader does at r (location override probe included);
     - it then stops at the border of data / at the root, or continues at an ancestor r' of r such
       that NO name strictly between r' and r has a key under any location (seek_skip_sound).
   Names are handled as label lists in key order (top-level label first): r = rev (name). *)
From DnsV Require Import Base.Bytes Model.Store Model.LookupV1 Model.LookupV2 Spec.Answer Spec.Rows.
From DnsV Require Import Proofs.Answer Proofs.Compile Proofs.ZoneCut Proofs.NxDomain Proofs.Store Proofs.Ctx Proofs.CtxFind.
From DnsV Require Import Proofs.Reverse Proofs.RevOrder Proofs.V2Funcs.
From Coq Require Import ZifyN ZifyNat ZifyBool.
Open Scope N_scope.

Definition foreign (k : bytes) : Prop :=
  is_prefix marker k = false \/ exists c t, k = marker ++ c :: t /\ 64 <= c.
Definition rr_shaped (k : bytes) : Prop :=
  exists y ly, name_ok y /\ length ly = 2%nat /\ k = bkey y ly.

Lemma loc0_le : forall loc, length loc = 2%nat -> bleb loc0 loc = true.
Proof.
  intros loc H. destruct loc as [|a [|b [|]]]; try discriminate. unfold loc0, bleb. cbn [bcmp].
  destruct (0 ?= a) eqn:E1; [|reflexivity|].
  - destruct (0 ?= b) eqn:E2; [reflexivity | reflexivity|]. apply N.compare_gt_iff in E2. lia.
  - apply N.compare_gt_iff in E1. lia.
Qed.

Lemma slice_to_app : forall a b, slice_to (a ++ b) (nlen a) = Val a.
Proof. intros. unfold slice_to. apply (slice_mid [] a b); reflexivity. Qed.

Lemma app_comparable : forall {A} (a b u v : list A), a ++ u = b ++ v ->
  (exists w, a = b ++ w) \/ (exists w, b = a ++ w).
Proof.
  induction a as [|x a IH]; intros b u v E.
  - right. exists b. reflexivity.
  - destruct b as [|y b]; [left; exists (x :: a); reflexivity|].
    cbn in E. inversion E; subst. destruct (IH b u v H1) as [[w ->]|[w ->]]; [left | right]; exists w; reflexivity.
Qed.

Lemma iter_rows_nil : forall {S} (f : cb S) s, iter_rows f [] s = (s, Cont).
Proof. reflexivity. Qed.

Section Iter.
Variable st : store.
Hypothesis U : uniq st.
Hypothesis KS : forall k v, In (k, v) st -> rr_shaped k \/ foreign k.

Definition keyless (x : name) : Prop := forall loc v, ~ In (bkey x loc, v) st.
Definition found (key : bytes) : option bytes := option_map fst (seek_prev st key).

Lemma absent_get : forall (s : store) k, (forall v, ~ In (k, v) s) -> get s k = [].
Proof.
  induction s as [|[k' v'] t IH]; intros k H; [reflexivity|]. cbn [get].
  destruct (bytes_eqb k' k) eqn:E.
  - apply bytes_eqb_eq in E. subst. exfalso. apply (H v'). left. reflexivity.
  - apply IH. intros v Hin. apply (H v). right. exact Hin.
Qed.

Lemma keyless_get : forall x loc, keyless x -> get st (bkey x loc) = [].
Proof. intros x loc H. apply absent_get. intros v. apply H. Qed.

(* a probe that is not found exactly has no rows *)
Lemma found_other_absent : forall key, found key <> Some key -> get st key = [].
Proof.
  intros key H. apply absent_get. intros v Hin. apply H. unfold found.
  pose proof (seek_prev_greatest st key) as G.
  destruct (seek_prev st key) as [[k v']|].
  - destruct G as (_ & G2 & G3). cbn. f_equal. apply bo_le_antisym; [exact G2|].
    apply (G3 key v Hin). apply bleb_refl.
  - pose proof (bleb_refl key) as X. rewrite (G key v Hin) in X. discriminate.
Qed.

Definition scan1 {S} (parse : cb S) (key : bytes) (p : S) : S * bool :=
  let '(s, stt) := iter_rows parse (get st key) p in (s, for_each_err RDB2 stt).

Lemma scan1_nil : forall {S} (parse : cb S) key p, get st key = [] -> scan1 parse key p = (p, false).
Proof. intros. unfold scan1. rewrite H. reflexivity. Qed.

(* TryForEach = closest key + scan of the probe's own rows *)
Lemma tfe_pure_eq : forall {S} (parse : cb S) key p,
  tfe_pure st key parse p = (found key, fst (scan1 parse key p), snd (scan1 parse key p)).
Proof.
  intros S parse key p. unfold tfe_pure.
  destruct (seek_prev st key) as [[k v]|] eqn:E.
  - destruct (bytes_eqb key k) eqn:E2.
    + apply bytes_eqb_eq in E2. subst k. unfold found. rewrite E. cbn [option_map fst]. unfold scan1.
      destruct (iter_rows parse (get st key) p) as [s' stt]. reflexivity.
    + assert (N : found key <> Some key).
      { unfold found. rewrite E. cbn. intros X. inversion X; subst. rewrite bytes_eqb_refl in E2. discriminate. }
      rewrite (scan1_nil parse key p (found_other_absent key N)). unfold found. rewrite E. reflexivity.
  - assert (N : found key <> Some key) by (unfold found; rewrite E; discriminate).
    rewrite (scan1_nil parse key p (found_other_absent key N)). unfold found. rewrite E. reflexivity.
Qed.

(* a key found at or below a probe for a name and carrying the marker is the key of a name *)
Lemma found_rr : forall r locX kk, name_ok r ->
  found (bkey r locX) = Some kk -> is_prefix marker kk = true -> rr_shaped kk.
Proof.
  intros r locX kk Hr Hf Hm. unfold found in Hf.
  pose proof (seek_prev_greatest st (bkey r locX)) as G.
  destruct (seek_prev st (bkey r locX)) as [[k v]|]; [|discriminate]. cbn [option_map fst] in Hf. inversion Hf; subst k.
  destruct G as (Hin & Hle & _).
  destruct (KS kk v Hin) as [Hs|[Hn|(c & t & -> & Hc)]]; [exact Hs | rewrite Hn in Hm; discriminate|].
  exfalso. unfold bkey in Hle. rewrite bo_le_app in Hle.
  destruct r as [|l r].
  - cbn [body flat_map app] in Hle. unfold bleb in Hle. cbn [bcmp] in Hle.
    assert (E : (c ?= 0) = Gt) by (apply N.compare_gt_iff; lia). rewrite E in Hle. discriminate.
  - inversion Hr as [|? ? Hl _]; subst. unfold lab_ok in Hl.
    rewrite body_cons in Hle. cbn [app] in Hle. unfold bleb in Hle. cbn [bcmp] in Hle.
    assert (E : (c ?= nlen l) = Gt) by (apply N.compare_gt_iff; lia). rewrite E in Hle. discriminate.
Qed.

(* the key found cannot be the key of a name strictly below the probe's name *)
Lemma found_not_below : forall r locX t ly, name_ok t ->
  found (bkey r locX) = Some (bkey (r ++ t) ly) -> t = [].
Proof.
  intros r locX t ly Ht Hf. unfold found in Hf.
  pose proof (seek_prev_greatest st (bkey r locX)) as G.
  destruct (seek_prev st (bkey r locX)) as [[k v]|]; [|discriminate]. cbn [option_map fst] in Hf. inversion Hf; subst k.
  destruct G as (_ & Hle & _).
  destruct t as [|l t]; [reflexivity|]. inversion Ht as [|? ? Hl _]; subst.
  rewrite (bo_lt_not_le _ _ (ancestor_key_lt r l t ly locX Hl)) in Hle. discriminate.
Qed.

(* when the located probe did not land on a key of the same name, the name has no untagged key *)
Lemma not_same_name_no_loc0 : forall r loc, name_ok r -> length loc = 2%nat ->
  let key := bkey r loc in
  let klen1 := 2 + (nlen (body r) + 1) + 2 in
  match found key with
  | Some kk => (nlen key =? nlen kk) &&
               bytes_eqb (firstn (N.to_nat (klen1 - 2)) key) (firstn (N.to_nat (klen1 - 2)) kk)
  | None => false
  end = false ->
  get st (bkey r loc0) = [].
Proof.
  intros r loc Hr Hl key klen1 H. apply absent_get. intros v0 Hin0.
  assert (Le0 : bleb (bkey r loc0) key = true).
  { unfold key, bkey. rewrite !bo_le_app. unfold bleb. cbn [bcmp]. rewrite N.compare_refl.
    exact (loc0_le loc Hl). }
  unfold found in H. pose proof (seek_prev_greatest st key) as G.
  destruct (seek_prev st key) as [[kk v]|]; cbn [option_map fst] in H.
  - destruct G as (Hin & Hle & Hg). pose proof (Hg _ _ Hin0 Le0) as Le1.
    assert (P : is_prefix (marker ++ body r ++ [0]) kk = true).
    { apply (bo_prefix_interval _ (bkey r loc0) kk key); auto.
      - unfold bkey. replace (marker ++ body r ++ 0 :: loc0) with ((marker ++ body r ++ [0]) ++ loc0) by (rewrite <- !app_assoc; reflexivity).
        apply is_prefix_app.
      - unfold key, bkey. replace (marker ++ body r ++ 0 :: loc) with ((marker ++ body r ++ [0]) ++ loc) by (rewrite <- !app_assoc; reflexivity).
        apply is_prefix_app. }
    assert (Pm : is_prefix marker kk = true).
    { apply is_prefix_split in P as [t ->]. rewrite <- app_assoc. apply is_prefix_app. }
    assert (Hf : found key = Some kk).
    { unfold found. pose proof (seek_prev_present st kk v U Hin) as X.
      assert (E : seek_prev st key = Some (kk, v)).
      { pose proof (seek_prev_greatest st key) as G'. destruct (seek_prev st key) as [[k2 v2]|] eqn:E2.
        - destruct G' as (Hin2 & Hle2 & Hg2). assert (k2 = kk).
          { apply bo_le_antisym; [apply (Hg _ _ Hin2 Hle2) | apply (Hg2 _ _ Hin Hle)]. }
          subst k2. rewrite <- (U _ _ Hin), <- (U _ _ Hin2). reflexivity.
        - rewrite (G' _ _ Hin) in Hle. discriminate. }
      rewrite E. reflexivity. }
    destruct (found_rr r loc kk Hr Hf Pm) as (y & ly & Hy & Hly & ->).
    unfold bkey in P. apply is_prefix_split in P as [t P]. rewrite <- !app_assoc in P. apply app_inv_head in P.
    destruct (body_prefix_labels r y ly Hr) as [z Hz]; [rewrite P; apply is_prefix_app|]. subst y.
    rewrite body_app, <- app_assoc in P. apply app_inv_head in P.
    assert (z = []).
    { destruct z as [|l z]; [reflexivity|]. apply name_ok_app in Hy as [_ Hy]. inversion Hy as [|? ? Hl' _]; subst.
      unfold lab_ok in Hl'. rewrite body_cons in P. cbn [app] in P. inversion P. lia. }
    subst z. rewrite app_nil_r in H.
    assert (E1 : (nlen key =? nlen (bkey r ly)) = true).
    { unfold key, bkey. rewrite !nlen_app, !nlen_cons. unfold nlen. rewrite Hl, Hly. lia. }
    rewrite E1 in H. cbn [andb] in H.
    assert (Hlen : N.to_nat (klen1 - 2) = length (marker ++ body r ++ [0])).
    { unfold klen1. rewrite !app_length. cbn [length marker]. unfold nlen. lia. }
    rewrite Hlen in H. unfold key, bkey in H.
    replace (marker ++ body r ++ 0 :: loc) with ((marker ++ body r ++ [0]) ++ loc) in H by (rewrite <- !app_assoc; reflexivity).
    replace (marker ++ body r ++ 0 :: ly) with ((marker ++ body r ++ [0]) ++ ly) in H by (rewrite <- !app_assoc; reflexivity).
    rewrite !firstn_app_exact, bytes_eqb_refl in H. discriminate.
  - rewrite (G _ _ Hin0) in Le0. discriminate.
Qed.

(* ---------------------------------------------------------------- one iteration *)
Section Find.
Variable P : Type.
Variable parse : cb P.
Variable pre : P -> bytes -> N -> res (P * bool).
Variable post : P -> P * bool.

Variable rn : name.                  (* the whole query name, key order *)
Hypothesis Hrn : name_ok rn.
Hypothesis Hlen : nlen (body rn) + 1 <= 255.
Let RV := body rn ++ [0].
Variable loc : bytes.
Hypothesis Hloc : length loc = 2%nat.

(* rows of (r, client location) then (r, untagged); an error stops *)
Definition scan2 (r : name) (p : P) : P * bool :=
  let '(pa, ea) := if is_loc0 loc then (p, false) else scan1 parse (bkey r loc) p in
  if ea then (pa, true) else scan1 parse (bkey r loc0) pa.

(* what follows the post-iteration check, as in the code *)
Definition tail_of (f : nat) (kb3 : bytes) (klen1 qlen : N) (k : option bytes) (p4 : P) : res P :=
  match k with
  | None => Val p4
  | Some kk =>
      if negb (is_prefix marker kk) then Val p4 else
      if qlen =? 1 then Val p4 else
      if nlen kk <? 2 then Panic else
      fl <- slice kk 2 (nlen kk - 2) ;;
      if qlen =? 0 then Panic else
      a <- slice_to RV (qlen - 1) ;;
      if nlen fl =? 0 then Panic else
      bb <- slice_to fl (nlen fl - 1) ;;
      qlen' <- (if bytes_eqb a bb then get_length_without_last_label RV qlen
                else (n <- find_common_longest_prefix RV fl ;; Val (n + 1))) ;;
      find_loop_pure st P parse pre post f RV loc kb3 klen1 qlen' p4
  end.

Definition next_ok (f : nat) (r : name) (kb3 : bytes) (klen1 : N) (nxt : P -> res P) : Prop :=
  ((forall p4, nxt p4 = Val p4) /\ (forall x z, r = x ++ z -> z <> [] -> keyless x)) \/
  (exists r' mid, r = r' ++ mid /\ mid <> [] /\
     (forall m1 m2, mid = m1 ++ m2 -> m1 <> [] -> m2 <> [] -> keyless (r' ++ m1)) /\
     buf_ok kb3 klen1 (body r') /\
     forall p4, nxt p4 = find_loop_pure st P parse pre post f RV loc kb3 klen1 (nlen (body r') + 1) p4).

Lemma tail_spec : forall f r rest locX kb3 klen1,
  rn = r ++ rest -> length locX = 2%nat ->
  klen1 = 2 + (nlen (body r) + 1) + 2 -> buf_ok kb3 klen1 (body r) ->
  next_ok f r kb3 klen1 (tail_of f kb3 klen1 (nlen (body r) + 1) (found (bkey r locX))).
Proof.
  intros f r rest locX kb3 klen1 Ern HlX Ek Hb.
  assert (Hr : name_ok r) by (rewrite Ern in Hrn; apply name_ok_app in Hrn; tauto).
  assert (Hrest : name_ok rest) by (rewrite Ern in Hrn; apply name_ok_app in Hrn; tauto).
  assert (Hsuf : forall x z, r = x ++ z -> name_ok x /\ name_ok z).
  { intros x z E. rewrite E in Hr. apply name_ok_app in Hr. exact Hr. }
  destruct (found (bkey r locX)) as [kk|] eqn:Hf.
  2:{ left. split; [reflexivity|]. intros x z E Hz l0 v Hin. unfold found in Hf.
      destruct (seek_prev st (bkey r locX)) as [[k2 v2]|] eqn:E2; [discriminate|].
      exact (seek_skip_none st r locX x z l0 v E2 E Hz (proj2 (Hsuf x z E)) Hin). }
  assert (Hs : exists v, seek_prev st (bkey r locX) = Some (kk, v)).
  { unfold found in Hf. destruct (seek_prev st (bkey r locX)) as [[k2 v2]|]; [|discriminate].
    cbn [option_map fst] in Hf. inversion Hf; subst. eexists; reflexivity. }
  destruct Hs as [vk Hs].
  unfold tail_of.
  destruct (is_prefix marker kk) eqn:Hm; cbn [negb].
  2:{ left. split; [reflexivity|]. intros x z E Hz l0 v Hin.
      exact (seek_skip_border st r locX kk vk x z l0 v Hs Hm E Hz (proj2 (Hsuf x z E)) Hin). }
  destruct (nlen (body r) + 1 =? 1) eqn:Eq1.
  { left. split; [reflexivity|]. intros x z E Hz.
    assert (Hnil : r = []).
    { destruct r as [|l r]; [reflexivity|]. inversion Hr as [|? ? Hl _]; subst. unfold lab_ok in Hl.
      rewrite nlen_body_cons in Eq1. lia. }
    rewrite Hnil in E. symmetry in E. apply app_eq_nil in E as [_ E]. contradiction. }
  assert (Hrne : r <> []) by (intros ->; cbn in Eq1; discriminate).
  destruct (found_rr r locX kk Hr Hf Hm) as (y & ly & Hy & Hly & ->).
  (* the slices *)
  assert (E2 : (nlen (bkey y ly) <? 2) = false).
  { unfold bkey. rewrite nlen_app. change (nlen marker) with 2. lia. }
  rewrite E2.
  assert (S1 : slice (bkey y ly) 2 (nlen (bkey y ly) - 2) = Val (body y ++ [0])).
  { unfold bkey. replace (marker ++ body y ++ 0 :: ly) with (marker ++ (body y ++ [0]) ++ ly) by (rewrite <- !app_assoc; reflexivity).
    apply slice_mid; [reflexivity|]. rewrite !nlen_app. unfold nlen at 4. rewrite Hly. change (nlen marker) with 2. lia. }
  rewrite S1. cbn [bind].
  assert (E3 : (nlen (body r) + 1 =? 0) = false) by lia. rewrite E3.
  assert (S2 : slice_to RV (nlen (body r) + 1 - 1) = Val (body r)).
  { replace (nlen (body r) + 1 - 1) with (nlen (body r)) by lia. unfold RV. rewrite Ern, body_app, <- app_assoc.
    apply slice_to_app. }
  rewrite S2. cbn [bind].
  assert (E4 : (nlen (body y ++ [0]) =? 0) = false) by (rewrite nlen_app; cbn [nlen length N.of_nat]; lia).
  rewrite E4.
  assert (S3 : slice_to (body y ++ [0]) (nlen (body y ++ [0]) - 1) = Val (body y)).
  { replace (nlen (body y ++ [0]) - 1) with (nlen (body y)) by (rewrite nlen_app; cbn [nlen length N.of_nat]; lia).
    apply slice_to_app. }
  rewrite S3. cbn [bind].
  assert (Below : forall t, y = r ++ t -> t = []).
  { intros t E. subst y. apply name_ok_app in Hy as [_ Hy]. exact (found_not_below r locX t ly Hy Hf). }
  destruct (bytes_eqb (body r) (body y)) eqn:Eb.
  - (* the key found has the probe's name: strip exactly one label *)
    apply bytes_eqb_eq in Eb. apply body_inj in Eb; [|exact Hr | exact Hy]. subst y.
    assert (G : get_length_without_last_label RV (nlen (body r) + 1) = Val (nlen (body (removelast r)) + 1)).
    { unfold RV. rewrite Ern, body_app, <- app_assoc. apply glwll_spec; [exact Hr | exact Hrne|].
      rewrite Ern, nlen_body_app in Hlen. lia. }
    rewrite G. cbn [bind]. right.
    destruct (exists_last Hrne) as (r' & l & Er). exists r', [l].
    assert (Erl : removelast r = r') by (rewrite Er; apply removelast_last).
    rewrite Erl. split; [exact Er|]. split; [discriminate|]. split.
    + intros m1 m2 E N1 N2. exfalso. destruct m1 as [|a m1]; [contradiction|]. cbn [app] in E. injection E as _ E'.
      symmetry in E'. apply app_eq_nil in E' as [_ X]. contradiction.
    + split; [|reflexivity]. rewrite Er, body_app in Hb. exact (buf_ok_shorter _ _ _ _ Hb).
  - (* another name: continue at the common label prefix *)
    assert (Hne : rn <> y).
    { intros X. subst y. rewrite Ern in Below. specialize (Below rest eq_refl). subst rest.
      rewrite app_nil_r in Ern. subst rn. rewrite bytes_eqb_refl in Eb. discriminate. }
    assert (Hyr : y <> r) by (intros X; subst y; rewrite bytes_eqb_refl in Eb; discriminate).
    assert (Fc : find_common_longest_prefix RV (body y ++ [0]) = Val (nlen (body (clp rn y)))).
    { unfold RV. apply fclp_spec; assumption. }
    rewrite Fc. cbn [bind]. right.
    destruct (clp_prefix_l rn y) as [t1 E1]. destruct (clp_prefix_r rn y) as [t2 E2'].
    set (c := clp rn y) in *.
    assert (Hmid : exists mid, r = c ++ mid /\ mid <> []).
    { assert (Ec : r ++ rest = c ++ t1) by (rewrite <- Ern; exact E1).
      destruct (app_comparable r c rest t1 Ec) as [[w Ew]|[w Ew]].
      - exists w. split; [exact Ew|]. intros ->. rewrite app_nil_r in Ew. subst c.
        rewrite <- Ew in E2'. pose proof (Below t2 E2') as X. subst t2. rewrite app_nil_r in E2'. contradiction.
      - exfalso. rewrite Ew, <- app_assoc in E2'. pose proof (Below _ E2') as X.
        apply app_eq_nil in X as [-> ->]. rewrite app_nil_r in E2'. contradiction. }
    destruct Hmid as (mid & Emid & Nmid). exists c, mid. split; [exact Emid|]. split; [exact Nmid|]. split.
    + intros m1 m2 E N1 N2 l0 v Hin.
      assert (Er2 : r = (c ++ m1) ++ m2) by (rewrite Emid, E, app_assoc; reflexivity).
      destruct (Hsuf _ _ Er2) as [Hx Hz].
      destruct (seek_skip_sound st r rest locX y ly vk (c ++ m1) m2 l0 v Hs Er2 N2 Hz Hx Hin) as [w Hw].
      rewrite <- Ern in Hw. fold c in Hw. rewrite <- app_assoc in Hw. rewrite <- (app_nil_r c) in Hw at 1.
      apply app_inv_head in Hw. symmetry in Hw. apply app_eq_nil in Hw as [X _]. contradiction.
    + split; [|reflexivity]. rewrite Emid, body_app in Hb. exact (buf_ok_shorter _ _ _ _ Hb).
Qed.

(* one iteration of the walk at r *)
Theorem find_iter : forall f r rest kbuf klen p p1,
  rn = r ++ rest -> buf_ok kbuf klen (body r) ->
  pre p RV (nlen (body r) + 1) = Val (p1, true) ->
  exists kb3 nxt,
    find_loop_pure st P parse pre post (S f) RV loc kbuf klen (nlen (body r) + 1) p =
      (if snd (scan2 r p1) then Val (fst (scan2 r p1))
       else let '(p4, go) := post (fst (scan2 r p1)) in if negb go then Val p4 else nxt p4) /\
    (snd (scan2 r p1) = false -> next_ok f r kb3 (2 + (nlen (body r) + 1) + 2) nxt).
Proof.
  intros f r rest kbuf klen p p1 Ern Hb Hpre.
  assert (Hr : name_ok r) by (rewrite Ern in Hrn; apply name_ok_app in Hrn; tauto).
  destruct (key_build kbuf klen (body r) loc Hb Hloc) as (kb1 & kb2 & tl & B1 & B2 & B3 & B4).
  destruct Hb as (Hb1 & Hb2 & Hb3).
  destruct (key_override (body r) loc tl loc0 Hloc eq_refl) as (O1 & O2 & O3). cbv zeta in O1, O2, O3.
  destruct (key_override (body r) loc0 tl loc0 eq_refl eq_refl) as (O1' & _ & O3'). cbv zeta in O1', O3'.
  assert (Hbk : forall lx, length lx = 2%nat -> buf_ok ((marker ++ body r ++ 0 :: lx) ++ tl) (2 + (nlen (body r) + 1) + 2) (body r)).
  { intros lx Hlx. split; [|split].
    - rewrite <- !app_assoc. rewrite (app_assoc marker). apply is_prefix_app.
    - lia.
    - assert (X : nlen ((marker ++ body r ++ 0 :: lx) ++ tl) = nlen ((marker ++ body r ++ 0 :: loc) ++ tl)).
      { unfold nlen. repeat (rewrite ?app_length; cbn [length]). rewrite Hlx, Hloc. reflexivity. }
      rewrite X, B4. lia. }
  cbn [find_loop_pure]. rewrite Hpre. cbn [bind negb]. cbv zeta.
  assert (T1 : (2 + (nlen (body r) + 1) - 1 <? klen) = true) by lia. rewrite T1. cbn [negb].
  rewrite B1. cbn [bind].
  assert (T2 : (2 + (nlen (body r) + 1) <=? klen) = true) by lia. rewrite T2. cbn [negb].
  rewrite B2. cbn [bind]. rewrite B3.
  assert (T3 : (2 + (nlen (body r) + 1) + 2 <=? nlen ((marker ++ body r ++ 0 :: loc) ++ tl)) = true) by (rewrite B4; lia).
  rewrite T3. cbn [negb]. rewrite O1.
  change (marker ++ body r ++ 0 :: loc) with (bkey r loc).
  rewrite tfe_pure_eq.
  unfold scan2.
  destruct (is_loc0 loc) eqn:EL.
  - (* client without location: one probe *)
    assert (Eloc : loc0 = loc) by (symmetry; apply bytes_eqb_eq; exact EL).
    cbn [negb andb]. rewrite Eloc.
    destruct (scan1 parse (bkey r loc) p1) as [p2 e1] eqn:Sc. cbn [fst snd].
    exists ((marker ++ body r ++ 0 :: loc) ++ tl), (tail_of f ((marker ++ body r ++ 0 :: loc) ++ tl) (2 + (nlen (body r) + 1) + 2) (nlen (body r) + 1) (found (bkey r loc))).
    split.
    + destruct e1; [reflexivity|]. cbn [bind].
      destruct (post p2) as [p4 go]. destruct (negb go); [reflexivity|]. reflexivity.
    + intros _. apply (tail_spec f r rest loc); auto.
  - destruct (scan1 parse (bkey r loc) p1) as [p2 e1] eqn:Sc. cbn [fst snd].
    destruct e1.
    { exists kbuf, (fun p4 => Val p4). split; [reflexivity | intros X; discriminate X]. }
    cbn [negb].
    set (same := match found (bkey r loc) with
                 | Some kk => (nlen (bkey r loc) =? nlen kk) &&
                              bytes_eqb (firstn (N.to_nat (2 + (nlen (body r) + 1) + 2 - 2)) (bkey r loc))
                                        (firstn (N.to_nat (2 + (nlen (body r) + 1) + 2 - 2)) kk)
                 | None => false
                 end).
    destruct same eqn:Esame; cbn [andb].
    + (* location override probe *)
      change (marker ++ body r ++ 0 :: loc) with (bkey r loc) in O2, O3.
      rewrite O2. cbn [bind]. rewrite O3.
      rewrite O1'. change (marker ++ body r ++ 0 :: loc0) with (bkey r loc0).
      rewrite tfe_pure_eq.
      destruct (scan1 parse (bkey r loc0) p2) as [p3 e2] eqn:Sc2. cbn [fst snd bind].
      exists ((marker ++ body r ++ 0 :: loc0) ++ tl), (tail_of f ((marker ++ body r ++ 0 :: loc0) ++ tl) (2 + (nlen (body r) + 1) + 2) (nlen (body r) + 1) (found (bkey r loc0))).
      split.
      * destruct e2; [reflexivity|]. destruct (post p3) as [p4 go]. destruct (negb go); reflexivity.
      * intros _. apply (tail_spec f r rest loc0); auto.
    + cbn [bind].
      assert (G0 : get st (bkey r loc0) = []) by (apply (not_same_name_no_loc0 r loc Hr Hloc); exact Esame).
      rewrite (scan1_nil parse (bkey r loc0) p2 G0). cbn [fst snd].
      exists ((marker ++ body r ++ 0 :: loc) ++ tl), (tail_of f ((marker ++ body r ++ 0 :: loc) ++ tl) (2 + (nlen (body r) + 1) + 2) (nlen (body r) + 1) (found (bkey r loc))).
      split.
      * destruct (post p2) as [p4 go]. destruct (negb go); reflexivity.
      * intros _. apply (tail_spec f r rest loc); auto.
Qed.
End Find.
End Iter.
