(* LinkPreprocLpm: C03 on the RocksDB database compiled from the PREPROCESSED text of a data file
   (cmd/dnsrocks-preproc: Codec.Preprocess, SubnetRanger.OpenScanner emits the per-map range-point
   lines; the preprocessed text is then compiled), by composing
     - C09 + C07 (Proofs/LinkPreprocDiff.v preprocessed_facts: the records of the preprocessed text are
       the records of the original text, up to order; any C07 compilation holds exactly them),
     - bridge A (here): on a file that passes both well-formedness predicates the two formulations of the
       file's records agree - LinkDiffText.convert_ln / LinkPreprocDiff.text_accum (rearrange_total) /
       features over the scanned lines on one side, FileLevel.conv_line / Accum.accum_rdb / feature_kv
       on the other: the scan keeps every line, ConvertLn emits the same records line by line, the
       accumulator sees the same subnet records and the text-level rearranger emits C03's range points,
     - bridge B (Proofs/LinkRdbDb.v store_holds_points: a well-formed store holding these records, listed,
       satisfies the database-contents hypothesis of C03_rdb_driver_is_lpm),
     - C03 (Proofs/RdbLocate.v rdb_driver_is_lpm).
   sort.Slice stays abstract. *)
From DnsV Require Import Base.Bytes Base.Ip Spec.Lpm Model.Rearranger Model.Location.
From DnsV Require Import Model.Compile Spec.MapOfLists Proofs.MultiValue Proofs.MapOfLists Proofs.Batch Proofs.CompilePipe.
From DnsV Require Import Model.Text Model.Preproc.
From DnsV Require Model.Accum Proofs.FileLevel Proofs.Preproc Proofs.AccumLink.
From DnsV Require Import Proofs.Lpm Proofs.Location Proofs.Rearranger Proofs.RdbLocate.
From DnsV Require Import Proofs.LinkEcsLpm Proofs.LinkRdbDb.
From DnsV Require Import Proofs.LinkDiffText Proofs.LinkPreprocRearranger Proofs.LinkPreprocDiff.
From Coq Require Import Lia Permutation.
Open Scope N_scope.

Module A := Model.Accum.
Module FL := Proofs.FileLevel.

(* ---------------------------------------------------------------- bridge A, piece by piece *)

(* the two translations of a subnet record into C03's vocabulary are the same function *)
Lemma net_of_record_netline_of : forall r, net_of_record r = A.netline_of r.
Proof. intros r. destruct r; reflexivity. Qed.

Lemma netlines_eq : forall rs, netlines rs = A.netlines rs.
Proof.
  intros rs. unfold netlines, A.netlines. induction rs as [|r rs IH]; [reflexivity|].
  cbn [flat_map]. rewrite IH, net_of_record_netline_of. reflexivity.
Qed.

(* only subnet records reach the netlines *)
Lemma netlines_app : forall a b, A.netlines (a ++ b) = A.netlines a ++ A.netlines b.
Proof. intros. unfold A.netlines. apply flat_map_app. Qed.

(* a comment line does not parse *)
Lemma parse_comment : forall o serial t, exists e, parse_line o serial (35 :: t) = Err e.
Proof. intros. eexists. reflexivity. Qed.

Section Lines.
Variable o : toracles.
Variable serial : N.
Variable v2 : bool.

(* one line that passes both predicates *)
Lemma line_both : forall l, Proofs.Preproc.line_ok o serial l -> FL.wf_line_dns o serial l = true ->
  kept_lineb l = true /\
  exists r ns, parse_line o serial l = Ok r /\ acc_update r = Ok ns /\
               A.netlines ns = A.netline_of r.
Proof.
  intros l H W. unfold FL.wf_line_dns in W.
  destruct (parse_line o serial l) as [r|e] eqn:P; [|discriminate W].
  destruct H as [Ig|(L & Sp & r' & ns & P' & _ & _ & Au & Nn & _)].
  - exfalso. destruct l as [|c t]; [cbn in P; discriminate P|]. cbn [is_ignored] in Ig. apply N.eqb_eq in Ig. subst c.
    destruct (parse_comment o serial t) as [e E]. congruence.
  - rewrite P in P'. inversion P'; subst r'. split.
    + unfold kept_lineb, scanned_lineb. destruct (Nat.leb_spec 2 (length l)); [|lia]. cbn [andb].
      destruct (N.eqb_spec (nth 0 l 0) 32); [contradiction|]. cbn [negb andb].
      destruct (N.eqb_spec (nth 0 l 0) 35) as [E|]; [|reflexivity]. exfalso.
      destruct l as [|c t]; [cbn in L; lia|]. cbn [nth] in E. subst c.
      destruct (parse_comment o serial t) as [e E]. congruence.
    + exists r, ns. split; [reflexivity|]. split; [exact Au|].
      destruct r; cbn [acc_update] in Au;
        try (inversion Au; subst ns; reflexivity).
      destruct (length lo =? 2)%nat; [|discriminate Au]. inversion Au; subst ns.
      unfold A.netlines. cbn [flat_map]. apply app_nil_r.
Qed.

Variable f : list bytes.
Hypothesis W9 : Proofs.Preproc.wf_file o serial f.
Hypothesis WF : FL.wf_file o serial f = true.

Lemma both_kept : forallb kept_lineb f = true.
Proof.
  clear - W9 WF. induction f as [|l t IH]; [reflexivity|].
  inversion W9 as [|? ? Hl Ht]; subst. cbn [FL.wf_file forallb] in WF. apply andb_true_iff in WF as [W1 W2].
  cbn [forallb]. rewrite (proj1 (line_both l Hl W1)). exact (IH Ht W2).
Qed.

Lemma both_scan : scan f = f.
Proof. apply scan_kept. exact both_kept. Qed.

(* ConvertLn emits the same records in both formulations *)
Lemma both_line_recs :
  flat_map (recs_of bytes (convert_ln o v2 serial)) f = flat_map (recs_of bytes (FL.conv_line o serial true v2)) f.
Proof.
  clear - W9 WF. induction f as [|l t IH]; [reflexivity|].
  inversion W9 as [|? ? Hl Ht]; subst. cbn [FL.wf_file forallb] in WF. apply andb_true_iff in WF as [W1 W2].
  cbn [flat_map]. rewrite (IH Ht W2). f_equal.
  destruct (line_both l Hl W1) as (_ & r & ns & P & Au & _).
  unfold recs_of, convert_ln, FL.conv_line. rewrite P. cbn [rbind]. rewrite Au. reflexivity.
Qed.

(* the accumulator sees the same subnet lines *)
Lemma both_netlines : A.netlines (nets_of_lines o serial f) = A.netlines (FL.parsed o serial f).
Proof.
  clear - W9 WF. induction f as [|l t IH]; [reflexivity|].
  inversion W9 as [|? ? Hl Ht]; subst. cbn [FL.wf_file forallb] in WF. apply andb_true_iff in WF as [W1 W2].
  unfold nets_of_lines, FL.parsed in *. cbn [flat_map]. rewrite !netlines_app, (IH Ht W2). f_equal.
  destruct (line_both l Hl W1) as (_ & r & ns & P & Au & En). rewrite P, Au, En.
  unfold A.netlines. cbn [flat_map]. rewrite app_nil_r. reflexivity.
Qed.

Lemma both_net_file : net_file (nets_of_lines o serial f) = A.net_dfile (FL.parsed o serial f).
Proof. unfold net_file, A.net_dfile. rewrite netlines_eq, both_netlines. reflexivity. Qed.

Lemma both_net_ids : net_ids (nets_of_lines o serial f) = A.ranger_ids (FL.parsed o serial f).
Proof. unfold net_ids, A.ranger_ids. rewrite netlines_eq, both_netlines. reflexivity. Qed.
End Lines.

(* the text-level rearranger emits, converted, the range-point records of C03's Rearrange *)
Lemma rearrange_maps_rp_accum : forall sort v2 F ids l, rearrange_maps sort F ids = Ok l ->
  rp_accum sort (nets_of F) ids = Ok (flat_map (convert v2 true) l).
Proof.
  intros sort v2 F. induction ids as [|m ids IH]; intros l E.
  - inversion E; subst. reflexivity.
  - cbn [rearrange_maps] in E. cbn [rp_accum].
    destruct (rearrange sort (nets_of F m)) as [pts|]; [|discriminate E]. cbn [rbind] in *.
    destruct (rearrange_maps sort F ids) as [l'|]; [|discriminate E]. cbn [rbind] in E. inversion E; subst l.
    rewrite (IH l' eq_refl). cbn [rbind]. rewrite flat_map_app.
    assert (Ep : flat_map (convert v2 true) (map (point_record m) pts) = rp_recs m pts).
    { unfold rp_recs. clear. induction pts as [|p pts IHp]; [reflexivity|].
      cbn [map flat_map]. rewrite convert_point_record, IHp. reflexivity. }
    rewrite Ep. reflexivity.
Qed.

(* what the '%' lines hand to the accumulator, in C09's two readings *)
Lemma both_file_nets : forall o serial f, Proofs.Preproc.wf_file o serial f -> FL.wf_file o serial f = true ->
  nets_of_lines o serial f = file_nets o serial f.
Proof.
  intros o serial f W9 WF. induction f as [|l t IH]; [reflexivity|].
  inversion W9 as [|? ? Hl Ht]; subst. cbn [FL.wf_file forallb] in WF. apply andb_true_iff in WF as [W1 W2].
  rewrite file_nets_cons. unfold nets_of_lines in *. cbn [flat_map]. rewrite (IH Ht W2). f_equal.
  unfold file_nets. cbn [flat_map]. rewrite app_nil_r.
  unfold FL.wf_line_dns in W1. destruct (parse_line o serial l) as [r|e] eqn:P; [|discriminate W1].
  destruct Hl as [Ig|(L & Sp & r' & ns & P' & _ & _ & Au & Nn & _)].
  - exfalso. destruct l as [|c t']; [cbn in P; discriminate P|]. cbn [is_ignored] in Ig. apply N.eqb_eq in Ig. subst c.
    destruct (parse_comment o serial t') as [e E]. congruence.
  - rewrite P in P'. inversion P'; subst r'. rewrite Au.
    assert (Ig : is_ignored l = false).
    { destruct l as [|c t']; [cbn in L; lia|]. cbn [is_ignored]. destruct (N.eqb_spec c 35) as [->|]; [|reflexivity].
      destruct (parse_comment o serial t') as [e E]. congruence. }
    rewrite Ig. destruct (N.eqb_spec (nth 0 l 0) 37) as [E37|N37].
    + destruct l as [|c t']; [discriminate Ig|]. cbn [nth] in E37. subst c.
      destruct (Proofs.Preproc.parse_pct o serial t' r P) as [(lo & ip & ones & lmap & ->) _].
      cbn [acc_update] in Au. destruct (length lo =? 2)%nat; [|discriminate Au]. inversion Au. reflexivity.
    + exact (Nn N37).
Qed.

(* ---------------------------------------------------------------- the corollary *)
Section PreprocessedLpm.
Variable o : toracles.
Hypothesis Hip_rt : forall a, wf_bytes a -> length a = 16%nat -> o_parse_ip o (o_print_ip o a) = Some a.
Hypothesis Hip_nil : o_parse_ip o [] = None.
Hypothesis Hip_nosep : forall a, contains 44 (o_print_ip o a) = false.
Variable sort : list point -> list point.
Hypothesis Hsort : sort_spec sort.
Variable v2 : bool.
Variables serial pserial : N.
Hypothesis Hser : serial <= max32.
Hypothesis Hps : pserial = serial \/ pserial = 0.
Variable f : list bytes.
(* both well-formedness predicates, C03's guard on the subnets of every map, no '!' line, small values *)
Hypothesis W9 : Proofs.Preproc.wf_file o serial f.
Hypothesis N9 : file_subnets_wfb o serial f = true.
Hypothesis WF : FL.wf_file o serial f = true.
Hypothesis NR : Proofs.AccumLink.no_rp_lines o serial f = true.
Hypothesis KV : kvs_ok (records bytes (convert_ln o v2 serial) (text_accum o v2 serial (rearrange_total sort)) (features v2) (scan f)).

Let rs := FL.parsed o serial f.
Let nets := A.file_nets rs.
Let ids := A.ranger_ids rs.

(* C03's guard for every map, in the vocabulary of Model/Accum.v *)
Lemma nets_wf : forall m, wf_subnets (nets m).
Proof using W9 N9 WF.
  intro m. unfold file_subnets_wfb, nets_wfb in N9. rewrite <- (both_file_nets o serial f W9 WF) in N9.
  rewrite (both_net_file o serial f W9 WF), (both_net_ids o serial f W9 WF) in N9. fold rs in N9.
  destruct (in_dec mapid_eq_dec m (A.ranger_ids rs)) as [Hin|Hn].
  - rewrite forallb_forall in N9. exact (N9 m Hin).
  - destruct (Proofs.AccumLink.ranger_ids_ok rs) as [_ C]. unfold nets. rewrite (C m Hn). reflexivity.
Qed.

(* bridge A: the records of the scanned lines in C09's formulation are the range points of C03's
   Rearrange for every map with subnet lines, plus records that are not keyed like a range point *)
Lemma records_split : exists acc,
  rp_accum sort nets ids = Ok acc /\
  records bytes (convert_ln o v2 serial) (text_accum o v2 serial (rearrange_total sort)) (features v2) (scan f) =
  flat_map (recs_of bytes (FL.conv_line o serial true v2)) f ++ acc ++ [feature_kv v2].
Proof using W9 N9 WF Hsort.
  rewrite (both_scan o serial f W9 WF). unfold records. rewrite (both_line_recs o serial v2 f W9 WF).
  unfold text_accum.
  assert (Wn : nets_wfb (nets_of_lines o serial f) = true).
  { rewrite (both_file_nets o serial f W9 WF). exact N9. }
  destruct (rearrange_text_ok sort Hsort _ Wn) as (l & El & Et). rewrite Et.
  unfold rearrange_text in El. rewrite (both_net_file o serial f W9 WF), (both_net_ids o serial f W9 WF) in El.
  exists (flat_map (convert v2 true) l). split; [|reflexivity].
  exact (rearrange_maps_rp_accum sort v2 _ _ l El).
Qed.

Theorem preprocessed_rdb_is_lpm :
  exists body points,
    rearrange_text sort (file_nets o serial f) = Ok points /\
    preprocess o (rearrange_total sort) pserial f = Ok (body ++ map (marshal o) points) /\
    forall pts, Permutation pts points ->
      let out := body ++ map (marshal o) pts in
      forall (db : store) dbl,
        rdb_compilation bytes (convert_ln o v2 serial) (text_accum o v2 serial (rearrange_total sort)) (features v2) (scan out) db ->
        lists_store dbl db ->
        rdb_holds_points sort nets dbl /\
        forall m a bits ones plen, a < two128 -> client_plen a bits ones plen ->
          rdb_get_location dbl m (mkClient (Some a) bits ones) =
          Ok (lpm_result (lpm (nets m) (fam (clean_mask a plen)) (clean_mask a plen) plen)).
Proof using Hip_rt Hip_nil Hip_nosep Hsort Hser Hps W9 N9 WF NR KV.
  destruct (preprocessed_facts o Hip_rt Hip_nil Hip_nosep sort Hsort v2 serial pserial Hser Hps f W9 N9 KV)
    as (body & points & Er & Pp & _ & H).
  exists body, points. split; [exact Er|]. split; [exact Pp|]. intros pts Pm out db dbl C Hl.
  destruct (H pts Pm) as (Sc & _ & En & Pk). fold out in Sc, En, Pk. rewrite Sc in C.
  assert (KVo : kvs_ok (records bytes (convert_ln o v2 serial) (text_accum o v2 serial (rearrange_total sort)) (features v2) out)).
  { rewrite En. eapply kvs_ok_perm; [apply Permutation_sym; exact Pk | exact KV]. }
  destruct (rdb_compilation_lossless bytes _ _ _ out db (feat_nonempty v2) KVo C) as [Sok V].
  destruct records_split as (acc & Ea & ER).
  set (R := records bytes (convert_ln o v2 serial) (text_accum o v2 serial (rearrange_total sort)) (features v2) (scan f)) in *.
  assert (Vr : forall k, Permutation (vals db k) (vals_of k R)).
  { intro k. eapply Permutation_trans; [apply V|]. unfold spec_compile. apply vals_of_perm. rewrite En. exact Pk. }
  assert (HR : Permutation R (acc ++ flat_map (recs_of bytes (FL.conv_line o serial true v2)) f ++ [feature_kv v2])).
  { rewrite ER. apply Permutation_app_swap_app. }
  assert (Hrest : forall k v, In (k, v) (flat_map (recs_of bytes (FL.conv_line o serial true v2)) f ++ [feature_kv v2]) ->
                  is_rp_key k = false).
  { intros k v Hin. apply in_app_or in Hin as [Hin|Hin].
    - exact (Proofs.AccumLink.lines_not_rp o serial v2 f k v WF NR Hin).
    - destruct Hin as [E|[]]. inversion E; subst. reflexivity. }
  destruct (Proofs.AccumLink.ranger_ids_ok rs) as [ND CV].
  pose proof (store_holds_points sort Hsort nets nets_wf ids ND CV acc _ R Ea HR Hrest db Sok Vr dbl Hl) as Hp.
  split; [exact Hp|].
  intros m a bits ones plen Ha Hc. destruct (Hp m) as [pts' [Ep [Hhas Honly]]].
  exact (rdb_driver_is_lpm sort Hsort _ (nets_wf m) pts' Ep dbl m Hhas Honly a bits ones plen Ha Hc).
Qed.
End PreprocessedLpm.
