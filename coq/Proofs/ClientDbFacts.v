(* ClientDbFacts: what the key/value records the codec emits for a data file hold under the keys
   the location lookup reads (map keys \000M / \0008, subnet keys \000%, prefix-set keys), in terms of
   the declarations of Spec/ClientLocation.v.  Line type by line type (Model/Text.convert), then
   for the whole file.  Guards (decidable, [loc_rec_okb]): subnet lines carry a 16-byte address, a
   length <= 128, two-byte map and location ids; map lines a name with labels <= 63 bytes and a
   two-byte map id; no '!' line; no record tagged with the location \000% (its v1 key would fall among
   the subnet keys). *)
From DnsV Require Import Base.Bytes Base.Ip Spec.Lpm Model.Rearranger Model.Location Model.Ecs.
From DnsV Require Import Spec.MapOfLists Proofs.MapOfLists.
From DnsV Require Import Model.Text Model.Accum Spec.ClientLocation.
From DnsV Require Import Spec.Answer Spec.Rows Spec.Declared.
From DnsV Require Import Proofs.ZoneCut Proofs.RevOrder Proofs.V2Store.
From DnsV Require Import Proofs.TextBase Proofs.TextNames Proofs.DeclaredLink Proofs.DeclaredWf.
From DnsV Require Import Proofs.Lpm Proofs.Location Proofs.RdbLocate Proofs.MapV2 Proofs.LinkRdbDb.
From Coq Require Import Lia Permutation ZifyN ZifyNat ZifyBool.
Open Scope N_scope.

(* ---------------------------------------------------------------- bytes and numbers *)
Lemma addr16_snoc : forall l b, addr16 (l ++ [b]) = addr16 l * 256 + b.
Proof. intros. unfold addr16. rewrite fold_left_app. reflexivity. Qed.

Lemma be_bytes_addr16 : forall l, wf_bytes l -> be_bytes (length l) (addr16 l) = l.
Proof.
  intros l. induction l as [|b l IH] using rev_ind; intros W; [reflexivity|].
  apply Forall_app in W as [W1 W2]. inversion W2 as [|? ? Hb _]; subst.
  rewrite app_length, Nat.add_comm. cbn [length plus be_bytes]. rewrite addr16_snoc.
  replace ((addr16 l * 256 + b) / 256) with (addr16 l) by lia.
  replace ((addr16 l * 256 + b) mod 256) with b by lia.
  rewrite (IH W1). reflexivity.
Qed.

Lemma ip16_addr16 : forall ip, wf_bytes ip -> length ip = 16%nat -> ip16 (addr16 ip) = ip.
Proof. intros ip W L. unfold ip16. rewrite <- L. apply be_bytes_addr16. exact W. Qed.

Lemma addr16_lt : forall ip, wf_bytes ip -> length ip = 16%nat -> addr16 ip < two128.
Proof.
  intros ip W L. pose proof (Proofs.Ecs.be_val_bound ip W) as H. rewrite L in H.
  change (256 ^ N.of_nat 16) with two128 in H. exact H.
Qed.

Lemma id_bytes : forall b, length b = 2%nat -> mapid_bytes (id_of b) = b.
Proof. intros b H. destruct b as [|x [|y [|]]]; try discriminate H. reflexivity. Qed.
Lemma two_bytes_mapid : forall m, two_bytes (mapid_bytes m) = m.
Proof. intros [a b]. reflexivity. Qed.

Lemma pack_pack_labels : forall n : list bytes, pack n = pack_labels n.
Proof.
  induction n as [|l p IH]; [reflexivity|]. rewrite pack_cons, IH. reflexivity.
Qed.

(* ---------------------------------------------------------------- map keys *)
(* the key of the map record of (kind, name, wildcard) in the two layouts: the v2 key is the v1 key of
   the reversed name *)
Definition mkey (v2 : bool) (kind : N) (n : list bytes) (wild : bool) : bytes :=
  [0; kind] ++ pack_labels (if v2 then rev n else n) ++ [suffix_of wild].

Lemma mkey_v1 : forall kind n wild, mkey false kind n wild = v1_map_key kind n wild.
Proof. reflexivity. Qed.
Lemma mkey_v2 : forall kind n wild, mkey true kind n wild = Proofs.MapV2.vkey kind (rev n) (suffix_of wild).
Proof. intros. unfold mkey, vkey. rewrite pack_lab, <- app_assoc. reflexivity. Qed.

Lemma mkey_inj : forall v2 k n w k' n' w', wf_labelsb n = true -> wf_labelsb n' = true ->
  mkey v2 k n w = mkey v2 k' n' w' -> k = k' /\ n = n' /\ w = w'.
Proof.
  intros v2 k n w k' n' w' W W' H. destruct v2.
  - apply (v1_map_key_inj k (rev n) w k' (rev n') w') in H; [|rewrite wf_rev; assumption | rewrite wf_rev; assumption].
    destruct H as (E1 & E2 & E3). split; [exact E1|]. split; [|exact E3].
    rewrite <- (rev_involutive n), E2. apply rev_involutive.
  - exact (v1_map_key_inj k n w k' n' w' W W' H).
Qed.

Definition decl_matches (kind : N) (wild : bool) (n : list bytes) (d : mapdecl) : bool :=
  (md_kind d =? kind) && Bool.eqb (md_wild d) wild && labels_eqb (md_name d) n.

Lemma decl_matches_spec : forall kind wild n d, decl_matches kind wild n d = true <->
  md_kind d = kind /\ md_wild d = wild /\ md_name d = n.
Proof.
  intros. unfold decl_matches. rewrite !andb_true_iff, N.eqb_eq, labels_eqb_eq. split.
  - intros [[H1 H2] H3]. apply Bool.eqb_prop in H2. auto.
  - intros (H1 & H2 & H3). subst. rewrite Bool.eqb_reflx. auto.
Qed.

(* the owner-name reading of a name text: labels without empty ones *)
Lemma owner_of_wf : forall d, labels_okb d = true -> wf_labelsb (owner_of d) = true.
Proof.
  intros d H. destruct (labels_okb_spec d H) as [_ H63].
  pose proof (ne_labels_ok (to_lower d) (labels_lower_ok d H63)) as Hne. rewrite <- owner_of_lower in Hne.
  unfold wf_labelsb. apply forallb_forall. intros l Hl. rewrite Forall_forall in Hne. destruct (Hne l Hl) as [Hn _].
  destruct l; [contradiction | reflexivity].
Qed.

Lemma putdom_owner : forall d, labels_okb d = true -> putdom (to_lower d) = pack_labels (owner_of d).
Proof.
  intros d H. destruct (labels_okb_spec d H) as [_ H63].
  rewrite (putdom_pack (to_lower d) (labels_lower_ok d H63)), <- owner_of_lower. apply pack_pack_labels.
Qed.
Lemma putrevdom_owner : forall d, labels_okb d = true -> putrevdom (to_lower d) = pack_labels (rev (owner_of d)).
Proof.
  intros d H. destruct (labels_okb_spec d H) as [_ H63].
  rewrite (putrevdom_rpack (to_lower d) (labels_lower_ok d H63)), <- owner_of_lower. unfold rpack. apply pack_pack_labels.
Qed.

(* the name part of a map line *)
Definition map_dom (dom : bytes) : bytes := if is_wild dom then skipn 2 dom else dom.

Lemma mapkey_mkey : forall v2 kind dom lmap, labels_okb (map_dom dom) = true ->
  mapkey v2 kind dom = mkey v2 kind (md_name (map_decl kind dom lmap)) (md_wild (map_decl kind dom lmap)).
Proof.
  intros v2 kind dom lmap H. unfold mapkey, map_decl, map_dom, mkey in *.
  destruct (is_wild dom); cbn [md_name md_wild suffix_of]; destruct v2;
    rewrite ?(putdom_owner _ H), ?(putrevdom_owner _ H); reflexivity.
Qed.

(* ---------------------------------------------------------------- the guard *)
Definition loc_rec_okb (r : Text.record) : bool :=
  match r with
  | RNet lo ip ones lmap =>
      wf_bytesb ip && (length ip =? 16)%nat && (ones <=? 128) && (length lo =? 2)%nat && (length lmap =? 2)%nat
  | RIpmap dom lmap => labels_okb (map_dom dom) && (length lmap =? 2)%nat
  | RCsmap dom lmap => labels_okb (map_dom dom) && (length lmap =? 2)%nat
  | RRangePoint _ _ _ _ _ => false
  | _ => forallb (fun d : Answer.record => negb (bytes_eqb (Rows.loc_bytes d) [0; 37])) (declared r)
  end.

(* the declarations of one line (the summands of Spec/ClientLocation.declared_maps / declared_subnets) *)
Definition decls_of (r : Text.record) : list mapdecl :=
  match r with
  | RIpmap dom lmap => [map_decl 77 dom lmap]
  | RCsmap dom lmap => [map_decl 56 dom lmap]
  | _ => []
  end.
Definition subnets_of (m : mapid) (r : Text.record) : list subnet :=
  match r with
  | RNet lo ip ones lmap => if id_eqb (id_of lmap) m then [mkSubnet (addr16 ip) ones (id_of lo)] else []
  | _ => []
  end.
Lemma declared_maps_flat : forall rs, declared_maps rs = flat_map decls_of rs.
Proof. reflexivity. Qed.
Lemma declared_subnets_flat : forall rs m, declared_subnets rs m = flat_map (subnets_of m) rs.
Proof. reflexivity. Qed.

(* ---------------------------------------------------------------- keys of the served lines *)
Lemma vals_of_none : forall K (l : list (bytes * bytes)), (forall k v, In (k, v) l -> k <> K) -> vals_of K l = [].
Proof. intros K l H. apply vals_of_nil_iff. intros v Hin. exact (H K v Hin eq_refl). Qed.

Lemma last_app_one : forall (l : bytes) x d, last (l ++ [x]) d = x.
Proof. intros. apply last_snoc. Qed.

Lemma key_v1_last : forall rc : Answer.record, last (key_v1 rc) 1 = 0.
Proof. intros rc. unfold key_v1, pack. rewrite app_assoc. apply last_app_one. Qed.
Lemma mkey_last : forall v2 kind n wild, last (mkey v2 kind n wild) 1 = suffix_of wild.
Proof. intros. unfold mkey. rewrite app_assoc. apply last_app_one. Qed.

Lemma served_rows : forall v2 nornet r k v, dns_okb r = true -> served r = true -> In (k, v) (convert v2 nornet r) ->
  exists rc : Answer.record, In rc (declared r) /\ wf_rec rc /\ k = (if v2 then key_v2 rc else key_v1 rc).
Proof.
  intros v2 nornet r k v Hok S Hin. rewrite (convert_is_rows_of v2 nornet r Hok S) in Hin. unfold rows_of in Hin.
  pose proof (declared_wf r Hok) as W. rewrite Forall_forall in W.
  destruct v2; apply in_map_iff in Hin as (rc & E & Hrc); inversion E; subst; exists rc; auto.
Qed.

Lemma served_not_mkey : forall v2 nornet r k v kind n wild, dns_okb r = true -> served r = true ->
  kind = 77 \/ kind = 56 -> In (k, v) (convert v2 nornet r) -> k <> mkey v2 kind n wild.
Proof.
  intros v2 nornet r k v kind n wild Hok S Hk Hin E.
  destruct (served_rows v2 nornet r k v Hok S Hin) as (rc & _ & _ & ->). destruct v2.
  - unfold key_v2, mkey in E. cbn [app] in E. injection E as E _. destruct Hk; subst; discriminate.
  - apply (f_equal (fun l => last l 1)) in E. rewrite key_v1_last, mkey_last in E. destruct wild; discriminate.
Qed.

(* ---------------------------------------------------------------- map keys, line by line *)
Lemma vals_of_one : forall K k (v : bytes), vals_of K [(k, v)] = if bytes_eqb k K then [v] else [].
Proof. intros. rewrite vals_of_cons. destruct (bytes_eqb k K); reflexivity. Qed.

Lemma map_line_vals : forall v2 kind0 dom lmap kind wild n, labels_okb (map_dom dom) = true -> length lmap = 2%nat ->
  wf_labelsb n = true ->
  vals_of (mkey v2 kind n wild) [(mapkey v2 kind0 dom, lmap)] =
  (if decl_matches kind wild n (map_decl kind0 dom lmap) then [mapid_bytes (md_id (map_decl kind0 dom lmap))] else []).
Proof.
  intros v2 kind0 dom lmap kind wild n Hl H2 Wn. rewrite vals_of_one, (mapkey_mkey v2 kind0 dom lmap Hl).
  set (d := map_decl kind0 dom lmap).
  assert (Hk : md_kind d = kind0) by (unfold d, map_decl; destruct (is_wild dom); reflexivity).
  assert (Hi : mapid_bytes (md_id d) = lmap) by (unfold d, map_decl; destruct (is_wild dom); apply id_bytes; exact H2).
  assert (Wd : wf_labelsb (md_name d) = true).
  { unfold d, map_decl, map_dom in *. destruct (is_wild dom); apply owner_of_wf; exact Hl. }
  rewrite Hi. destruct (decl_matches kind wild n d) eqn:M.
  - apply decl_matches_spec in M as (M1 & M2 & M3). rewrite <- Hk, M1, M2, M3, Proofs.Location.bytes_eqb_refl. reflexivity.
  - destruct (bytes_eqb (mkey v2 kind0 (md_name d) (md_wild d)) (mkey v2 kind n wild)) eqn:E; [|reflexivity].
    apply Proofs.Location.bytes_eqb_eq in E. apply mkey_inj in E as (E1 & E2 & E3); [|exact Wd | exact Wn].
    assert (X : decl_matches kind wild n d = true) by (apply decl_matches_spec; rewrite Hk; auto). congruence.
Qed.

Lemma net_keys_second : forall nornet lo ip ones lmap k v, In (k, v) (convert false nornet (RNet lo ip ones lmap)) ->
  exists t, k = 0 :: 37 :: t.
Proof.
  intros nornet lo ip ones lmap k v H. cbn [convert] in H. destruct nornet; [destruct H|].
  apply in_app_or in H as [H|H].
  - destruct (is4 ip && (96 <=? ones) && (ones mod 8 =? 0)); [|destruct H]. destruct H as [E|[]]. inversion E. eexists. reflexivity.
  - destruct H as [E|[]]. inversion E. eexists. reflexivity.
Qed.

Lemma rec_map_vals : forall v2 nornet r kind wild n, dns_okb r = true -> loc_rec_okb r = true ->
  kind = 77 \/ kind = 56 -> wf_labelsb n = true ->
  vals_of (mkey v2 kind n wild) (convert v2 nornet r) =
  flat_map (fun d => if decl_matches kind wild n d then [mapid_bytes (md_id d)] else []) (decls_of r).
Proof.
  intros v2 nornet r kind wild n Hok Hl Hk Wn. destruct (served r) eqn:S.
  - replace (decls_of r) with (@nil mapdecl) by (destruct r; try reflexivity; discriminate S).
    apply vals_of_none. intros k v Hin. exact (served_not_mkey v2 nornet r k v kind n wild Hok S Hk Hin).
  - destruct r; try discriminate S; cbn [decls_of flat_map]; cbn [loc_rec_okb] in Hl; try discriminate Hl.
    + (* % *) apply vals_of_none. intros k v Hin E.
      assert (Hin' : In (k, v) (convert false nornet (RNet lo ip ones lmap))) by (destruct v2; exact Hin).
      destruct (net_keys_second nornet lo ip ones lmap k v Hin') as [t ->].
      unfold mkey in E. cbn [app] in E. injection E as E _. destruct Hk; subst; discriminate.
    + (* M *) apply andb_true_iff in Hl as [H1 H2]. apply Nat.eqb_eq in H2. cbn [convert]. rewrite app_nil_r.
      apply map_line_vals; assumption.
    + (* 8 *) apply andb_true_iff in Hl as [H1 H2]. apply Nat.eqb_eq in H2. cbn [convert]. rewrite app_nil_r.
      apply map_line_vals; assumption.
Qed.

(* every pair of a line under the marker of a map kind is the record of one of its declarations (v2 keys) *)
Lemma rec_map_only_v2 : forall nornet r k v kind, dns_okb r = true -> loc_rec_okb r = true ->
  kind = 77 \/ kind = 56 -> In (k, v) (convert true nornet r) -> is_prefix [0; kind] k = true ->
  exists d, In d (decls_of r) /\ md_kind d = kind /\ k = mkey true kind (md_name d) (md_wild d) /\ wf_labelsb (md_name d) = true.
Proof.
  intros nornet r k v kind Hok Hl Hk Hin Hp. destruct (served r) eqn:S.
  - destruct (served_rows true nornet r k v Hok S Hin) as (rc & _ & _ & ->). exfalso.
    unfold key_v2 in Hp. cbn [app is_prefix] in Hp. destruct Hk; subst; discriminate Hp.
  - destruct r; try discriminate S; cbn [loc_rec_okb] in Hl; try discriminate Hl.
    + exfalso. destruct (net_keys_second nornet lo ip ones lmap k v Hin) as [t ->].
      cbn [is_prefix] in Hp. destruct Hk; subst; discriminate Hp.
    + apply andb_true_iff in Hl as [H1 H2]. cbn [convert] in Hin. destruct Hin as [E|[]]. inversion E; subst k v.
      rewrite (mapkey_mkey true 77 dom lmap H1) in *. exists (map_decl 77 dom lmap). split; [left; reflexivity|].
      assert (Hkd : md_kind (map_decl 77 dom lmap) = 77) by (unfold map_decl; destruct (is_wild dom); reflexivity).
      assert (Wd : wf_labelsb (md_name (map_decl 77 dom lmap)) = true).
      { unfold map_decl, map_dom in *. destruct (is_wild dom); apply owner_of_wf; exact H1. }
      unfold mkey in Hp. cbn [app is_prefix] in Hp. destruct Hk as [->| ->]; [|discriminate Hp]. auto.
    + apply andb_true_iff in Hl as [H1 H2]. cbn [convert] in Hin. destruct Hin as [E|[]]. inversion E; subst k v.
      rewrite (mapkey_mkey true 56 dom lmap H1) in *. exists (map_decl 56 dom lmap). split; [left; reflexivity|].
      assert (Hkd : md_kind (map_decl 56 dom lmap) = 56) by (unfold map_decl; destruct (is_wild dom); reflexivity).
      assert (Wd : wf_labelsb (md_name (map_decl 56 dom lmap)) = true).
      { unfold map_decl, map_dom in *. destruct (is_wild dom); apply owner_of_wf; exact H1. }
      unfold mkey in Hp. cbn [app is_prefix] in Hp. destruct Hk as [->| ->]; [discriminate Hp|]. auto.
Qed.

(* ---------------------------------------------------------------- subnet keys (CDB), line by line *)
Lemma net_key_length : forall m a l, length (net_key m a l) = 21%nat.
Proof. intros [m1 m2] a l. unfold net_key, mapid_bytes. rewrite !app_length. unfold ip16. rewrite be_bytes_length. reflexivity. Qed.

Lemma rec_net_vals : forall r m a len, dns_okb r = true -> loc_rec_okb r = true -> a < two128 ->
  vals_of (net_key m a len) (convert false false r) =
  flat_map (fun s => if (s_addr s =? a) && (s_len s =? len) then [Rearranger.loc_bytes (s_loc s)] else []) (subnets_of m r).
Proof.
  intros r m a len Hok Hl Ha. destruct (served r) eqn:S.
  - replace (subnets_of m r) with (@nil subnet) by (destruct r; try reflexivity; discriminate S).
    apply vals_of_none. intros k v Hin E.
    destruct (served_rows false false r k v Hok S Hin) as (rc & Hrc & W & ->).
    assert (T : bytes_eqb (Rows.loc_bytes rc) [0; 37] = false).
    { assert (X : forallb (fun d : Answer.record => negb (bytes_eqb (Rows.loc_bytes d) [0; 37])) (declared r) = true)
        by (destruct r; try exact Hl; discriminate S).
      rewrite forallb_forall in X. apply negb_true_iff. exact (X rc Hrc). }
    destruct (wf_rec_owner_ok rc W) as [_ L2]. unfold key_v1 in E.
    destruct (Rows.loc_bytes rc) as [|x [|y [|]]]; try discriminate L2.
    unfold net_key in E. cbn [app] in E. injection E as E1 E2 _. subst. cbn in T. discriminate T.
  - destruct r; try discriminate S; cbn [subnets_of flat_map]; cbn [loc_rec_okb] in Hl; try discriminate Hl.
    + (* % *)
      repeat (let X := fresh "G" in apply andb_true_iff in Hl as [Hl X]).
      apply wf_bytesb_spec in Hl. apply Nat.eqb_eq in G2, G0, G. apply N.leb_le in G1.
      cbn [convert]. cbv zeta. rewrite vals_of_app.
      match goal with |- vals_of ?K ?A ++ _ = _ => assert (Z : vals_of K A = []) end.
      { apply vals_of_none. intros k v Hin E. destruct (is4 ip && (96 <=? ones) && (ones mod 8 =? 0)); [|destruct Hin].
        destruct Hin as [X|[]]. apply (f_equal fst) in X. cbn [fst] in X. subst k. apply (f_equal (@length N)) in E. rewrite net_key_length in E.
        pose proof (Nat.le_min_r (N.to_nat (ones / 8) - 12) (length (skipn 12 ip))) as B. rewrite <- firstn_length, skipn_length, G2 in B.
        rewrite app_length, app_length, G in E. cbn [length] in E. lia. }
      rewrite Z, app_nil_l.
      assert (Ek : [0; 37] ++ lmap ++ ip ++ [ones mod 256] = net_key (id_of lmap) (addr16 ip) ones).
      { unfold net_key. rewrite (id_bytes lmap G), (ip16_addr16 ip Hl G2). replace (ones mod 256) with ones by lia. reflexivity. }
      rewrite Ek, vals_of_one.
      assert (Ev : putloc lo = Rearranger.loc_bytes (id_of lo)).
      { unfold putloc. rewrite G0. cbn. destruct lo as [|x [|y [|]]]; try discriminate G0. reflexivity. }
      rewrite Ev.
      destruct (bytes_eqb (net_key (id_of lmap) (addr16 ip) ones) (net_key m a len)) eqn:E.
      * apply Proofs.Location.bytes_eqb_eq in E. apply net_key_inj in E as (E1 & E2 & E3); [|apply addr16_lt; assumption | exact Ha].
        subst. assert (X : id_eqb (id_of lmap) (id_of lmap) = true) by (apply id_eqb_eq; reflexivity). rewrite X.
        cbn [flat_map s_addr s_len s_loc]. rewrite !N.eqb_refl. reflexivity.
      * destruct (id_eqb (id_of lmap) m) eqn:M; [|reflexivity]. apply id_eqb_eq in M. subst m.
        cbn [flat_map s_addr s_len s_loc]. rewrite app_nil_r.
        destruct ((addr16 ip =? a) && (ones =? len)) eqn:C; [|reflexivity].
        apply andb_true_iff in C as [C1 C2]. apply N.eqb_eq in C1, C2. subst. rewrite Proofs.Location.bytes_eqb_refl in E. discriminate E.
    + (* M *) cbn [convert]. apply vals_of_none. intros k v [E|[]] X. apply (f_equal fst) in E. cbn [fst] in E. subst k.
      unfold mapkey, net_key in X. destruct (is_wild dom); cbn [app] in X; discriminate X.
    + (* 8 *) cbn [convert]. apply vals_of_none. intros k v [E|[]] X. apply (f_equal fst) in E. cbn [fst] in E. subst k.
      unfold mapkey, net_key in X. destruct (is_wild dom); cbn [app] in X; discriminate X.
Qed.

(* every key a line emits (v1 layout) has at least three bytes: none is a prefix-set key *)
Lemma rec_keys_long : forall nornet r k v, dns_okb r = true -> loc_rec_okb r = true ->
  In (k, v) (convert false nornet r) -> (3 <= length k)%nat.
Proof.
  intros nornet r k v Hok Hl Hin. destruct (served r) eqn:S.
  - destruct (served_rows false nornet r k v Hok S Hin) as (rc & _ & W & ->).
    destruct (wf_rec_owner_ok rc W) as [_ L2]. unfold key_v1, pack. rewrite !app_length, L2. cbn [length]. lia.
  - destruct r; try discriminate S; cbn [loc_rec_okb] in Hl; try discriminate Hl.
    + repeat (let X := fresh "G" in apply andb_true_iff in Hl as [Hl X]). apply Nat.eqb_eq in G.
      cbn [convert] in Hin. destruct nornet; [destruct Hin|]. cbv zeta in Hin. apply in_app_or in Hin as [Hin|Hin].
      * destruct (is4 ip && (96 <=? ones) && (ones mod 8 =? 0)); [|destruct Hin]. destruct Hin as [E|[]].
        apply (f_equal fst) in E. cbn [fst] in E. subst k. rewrite !app_length, G. cbn [length]. lia.
      * destruct Hin as [E|[]]. apply (f_equal fst) in E. cbn [fst] in E. subst k. rewrite !app_length, G. cbn [length]. lia.
    + cbn [convert] in Hin. destruct Hin as [E|[]]. apply (f_equal fst) in E. cbn [fst] in E. subst k. unfold mapkey. destruct (is_wild dom); rewrite !app_length; cbn [length]; lia.
    + cbn [convert] in Hin. destruct Hin as [E|[]]. apply (f_equal fst) in E. cbn [fst] in E. subst k. unfold mapkey. destruct (is_wild dom); rewrite !app_length; cbn [length]; lia.
Qed.

(* ---------------------------------------------------------------- lifted to a list of lines *)
Lemma vals_of_flat_map : forall {A} K (g : A -> list (bytes * bytes)) l,
  vals_of K (flat_map g l) = flat_map (fun x => vals_of K (g x)) l.
Proof. intros A K g l. induction l as [|x t IH]; [reflexivity|]. cbn [flat_map]. rewrite vals_of_app, IH. reflexivity. Qed.

Lemma flat_map_flat_map : forall {A B C} (g : B -> list C) (h : A -> list B) l,
  flat_map g (flat_map h l) = flat_map (fun x => flat_map g (h x)) l.
Proof. intros. induction l as [|x t IH]; [reflexivity|]. cbn [flat_map]. rewrite flat_map_app, IH. reflexivity. Qed.

Lemma flat_map_ext_in : forall {A B} (g h : A -> list B) l, (forall x, In x l -> g x = h x) -> flat_map g l = flat_map h l.
Proof. intros A B g h l H. induction l as [|x t IH]; [reflexivity|]. cbn [flat_map]. rewrite (H x (or_introl eq_refl)), IH; [reflexivity|]. intros y Hy. apply H. right. exact Hy. Qed.

Section Lines.
Variable rs : list Text.record.
Hypothesis Hok : Forall (fun r => dns_okb r = true) rs.
Hypothesis Hl : Forall (fun r => loc_rec_okb r = true) rs.

Lemma lines_map_vals : forall v2 nornet kind wild n, kind = 77 \/ kind = 56 -> wf_labelsb n = true ->
  vals_of (mkey v2 kind n wild) (flat_map (convert v2 nornet) rs) =
  flat_map (fun d => if decl_matches kind wild n d then [mapid_bytes (md_id d)] else []) (declared_maps rs).
Proof.
  intros v2 nornet kind wild n Hk Wn. rewrite vals_of_flat_map, declared_maps_flat, flat_map_flat_map.
  apply flat_map_ext_in. intros r Hr. rewrite Forall_forall in Hok, Hl.
  exact (rec_map_vals v2 nornet r kind wild n (Hok r Hr) (Hl r Hr) Hk Wn).
Qed.

Lemma lines_map_only_v2 : forall nornet k v kind, kind = 77 \/ kind = 56 ->
  In (k, v) (flat_map (convert true nornet) rs) -> is_prefix [0; kind] k = true ->
  exists d, In d (declared_maps rs) /\ md_kind d = kind /\ k = mkey true kind (md_name d) (md_wild d) /\ wf_labelsb (md_name d) = true.
Proof.
  intros nornet k v kind Hk Hin Hp. apply in_flat_map in Hin as (r & Hr & Hin). rewrite Forall_forall in Hok, Hl.
  destruct (rec_map_only_v2 nornet r k v kind (Hok r Hr) (Hl r Hr) Hk Hin Hp) as (d & Hd & X).
  exists d. split; [|exact X]. rewrite declared_maps_flat. apply in_flat_map. exists r. auto.
Qed.

Lemma lines_net_vals : forall m a len, a < two128 ->
  vals_of (net_key m a len) (flat_map (convert false false) rs) =
  flat_map (fun s => if (s_addr s =? a) && (s_len s =? len) then [Rearranger.loc_bytes (s_loc s)] else []) (declared_subnets rs m).
Proof.
  intros m a len Ha. rewrite vals_of_flat_map, declared_subnets_flat, flat_map_flat_map.
  apply flat_map_ext_in. intros r Hr. rewrite Forall_forall in Hok, Hl.
  exact (rec_net_vals r m a len (Hok r Hr) (Hl r Hr) Ha).
Qed.

Lemma lines_keys_long : forall nornet k v, In (k, v) (flat_map (convert false nornet) rs) -> (3 <= length k)%nat.
Proof.
  intros nornet k v Hin. apply in_flat_map in Hin as (r & Hr & Hin). rewrite Forall_forall in Hok, Hl.
  exact (rec_keys_long nornet r k v (Hok r Hr) (Hl r Hr) Hin).
Qed.

Lemma declared_maps_wf : forall d, In d (declared_maps rs) ->
  (md_kind d = 77 \/ md_kind d = 56) /\ wf_labelsb (md_name d) = true.
Proof.
  intros d Hd. rewrite declared_maps_flat in Hd. apply in_flat_map in Hd as (r & Hr & Hd).
  rewrite Forall_forall in Hl. specialize (Hl r Hr).
  destruct r; cbn [decls_of] in Hd; try contradiction; cbn [loc_rec_okb] in Hl; apply andb_true_iff in Hl as [H1 _]; destruct Hd as [<-|[]];
    unfold map_decl, map_dom in *; destruct (is_wild dom); cbn [md_kind md_name]; (split; [auto | apply owner_of_wf; exact H1]).
Qed.
End Lines.

(* ---------------------------------------------------------------- declared once *)
(* no two M / 8 lines declare a map for the same (kind, name, wildcard) *)
Definition decl_key (d : mapdecl) : N * bool * list bytes := (md_kind d, md_wild d, md_name d).
Definition maps_once (rs : list Text.record) : Prop := NoDup (map decl_key (declared_maps rs)).

Lemma once_vals : forall decls kind wild n, NoDup (map decl_key decls) ->
  flat_map (fun d => if decl_matches kind wild n d then [mapid_bytes (md_id d)] else []) decls =
  match lookup_decl decls kind wild n with Some id => [mapid_bytes id] | None => [] end.
Proof.
  induction decls as [|d t IH]; intros kind wild n ND; [reflexivity|].
  cbn [map] in ND. inversion ND as [|? ? N1 N2]; subst. cbn [flat_map lookup_decl].
  change ((md_kind d =? kind) && Bool.eqb (md_wild d) wild && labels_eqb (md_name d) n) with (decl_matches kind wild n d).
  destruct (decl_matches kind wild n d) eqn:M; [|exact (IH kind wild n N2)].
  cbn [app]. f_equal.
  assert (Z : forall d', In d' t -> decl_matches kind wild n d' = false).
  { intros d' Hd'. destruct (decl_matches kind wild n d') eqn:M'; [|reflexivity]. exfalso.
    apply decl_matches_spec in M as (A1 & A2 & A3). apply decl_matches_spec in M' as (B1 & B2 & B3).
    apply N1. replace (decl_key d) with (decl_key d') by (unfold decl_key; congruence). apply in_map. exact Hd'. }
  clear -Z. induction t as [|d' t IH]; [reflexivity|]. cbn [flat_map]. rewrite (Z d' (or_introl eq_refl)). apply IH.
  intros x Hx. apply Z. right. exact Hx.
Qed.

Lemma once_uniq : forall decls, NoDup (map decl_key decls) -> forall d d', In d decls -> In d' decls ->
  md_kind d = md_kind d' -> md_name d = md_name d' -> md_wild d = md_wild d' -> d = d'.
Proof.
  induction decls as [|x t IH]; intros ND d d' Hd Hd' E1 E2 E3; [destruct Hd|].
  cbn [map] in ND. inversion ND as [|? ? N1 N2]; subst.
  assert (K : decl_key d = decl_key d') by (unfold decl_key; congruence).
  destruct Hd as [->|Hd], Hd' as [->|Hd']; [reflexivity | | | exact (IH N2 d d' Hd Hd' E1 E2 E3)].
  - exfalso. apply N1. rewrite K. apply in_map. exact Hd'.
  - exfalso. apply N1. rewrite <- K. apply in_map. exact Hd.
Qed.

(* ---------------------------------------------------------------- subnets declared once (wf_subnets) *)
Lemma wf_net_vals : forall S a len, wf_subnets S ->
  flat_map (fun s => if (s_addr s =? a) && (s_len s =? len) then [Rearranger.loc_bytes (s_loc s)] else []) S =
  match find (fun s => (s_addr s =? a) && (s_len s =? len)) S with Some s => [Rearranger.loc_bytes (s_loc s)] | None => [] end.
Proof.
  induction S as [|s t IH]; intros a len W; [reflexivity|].
  unfold wf_subnets, wf_subnetsb in W. cbn [forallb nodup_blocksb] in W.
  apply andb_true_iff in W as [W1 W2]. apply andb_true_iff in W1 as [W1a W1b]. apply andb_true_iff in W2 as [W2a W2b].
  assert (Wt : wf_subnets t) by (unfold wf_subnets, wf_subnetsb; rewrite W1b, W2b; reflexivity).
  cbn [flat_map find]. destruct ((s_addr s =? a) && (s_len s =? len)) eqn:C; [|exact (IH a len Wt)].
  cbn [app]. f_equal. apply andb_true_iff in C as [C1 C2]. apply N.eqb_eq in C1, C2.
  apply negb_true_iff in W2a.
  assert (Z : forall s', In s' t -> (s_addr s' =? a) && (s_len s' =? len) = false).
  { intros s' Hs'. destruct ((s_addr s' =? a) && (s_len s' =? len)) eqn:C'; [|reflexivity]. exfalso.
    apply andb_true_iff in C' as [D1 D2]. apply N.eqb_eq in D1, D2.
    assert (X : existsb (same_blockb s) t = true).
    { apply existsb_exists. exists s'. split; [exact Hs'|]. unfold same_blockb. rewrite C1, C2, D1, D2, !N.eqb_refl. reflexivity. }
    congruence. }
  clear -Z. induction t as [|s' t IH]; [reflexivity|]. cbn [flat_map]. rewrite (Z s' (or_introl eq_refl)). apply IH.
  intros x Hx. apply Z. right. exact Hx.
Qed.
