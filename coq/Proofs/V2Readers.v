(* V2Readers (C02): the three entry points of the v2 reader against those of the v1 reader, with
   the per-request context cache threaded through:
     is_auth_sim      sortedDataReader.IsAuthoritative  vs DataReader.IsAuthoritative
     find_answer_sim  sortedDataReader.FindAnswer       vs DataReader.FindAnswer
     rr_sim           sortedDataReader.ForEachResourceRecord vs DataReader.ForEachResourceRecord
   v1 store: store_v1 recs (RocksDB error convention: b = RDB1).  v2 store: any v2_store recs st2. *)
From DnsV Require Import Base.Bytes Model.Store Model.LookupV1 Model.LookupV2 Spec.Answer Spec.Rows.
From DnsV Require Import Proofs.Answer Proofs.Compile Proofs.ZoneCut Proofs.NxDomain Proofs.Store Proofs.Ctx Proofs.CtxFind.
From DnsV Require Import Proofs.Reverse Proofs.RevOrder Proofs.V2Funcs Proofs.SeekSkip Proofs.V2Store Proofs.V2Sim Proofs.NoPanic.
From Coq Require Import ZifyN ZifyNat ZifyBool.
Ltac Zify.zify_post_hook ::= Z.div_mod_to_equations.
Open Scope N_scope.

(* ---------------------------------------------------------------- reverseZoneNameToBuffer, any label contents *)
Lemma rev_loop_pack_ok : forall (rest : name) fuel (T : bytes),
  name_ok rest -> (length rest < fuel)%nat -> (length (pack rest) - 1 <= 255)%nat ->
  rev_loop fuel (pack rest) (N.of_nat (length (pack rest) - 1)) (zeros (length (pack rest) - 1) ++ T) =
    Val (body (rev rest) ++ T).
Proof.
  induction rest as [|l p IH]; intros fuel T Hw Hf Hlen; (destruct fuel as [|fuel]; [lia|]).
  - reflexivity.
  - inversion Hw as [|? ? Hl Hp]; subst. unfold lab_ok in Hl. destruct Hl as [Hl1 Hl2].
    cbn [rev_loop]. rewrite pack_cons. cbn [app]. unfold idx. cbn [N.to_nat nth_error bind].
    assert (Ez : (nlen l =? 0) = false) by lia. rewrite Ez.
    pose proof (length_pack_ge p) as Hp1.
    rewrite pack_cons in Hlen. cbn [app length] in Hlen. rewrite app_length in Hlen.
    assert (Hi : (length (nlen l :: l ++ pack p) - 1 = length l + length (pack p))%nat) by (cbn [length]; rewrite app_length; lia).
    rewrite Hi. set (i := (length l + length (pack p))%nat) in *.
    assert (Hb1 : b8 (N.of_nat i + 256 - nlen l) = N.of_nat (i - length l)).
    { unfold b8, nlen in *. lia. }
    rewrite Hb1.
    assert (Hb2 : b8 (nlen l + 1) = nlen l + 1) by (unfold b8; apply N.mod_small; lia). rewrite Hb2.
    change (nlen l :: l ++ pack p) with ([nlen l] ++ l ++ pack p).
    rewrite (slice_mid [nlen l] l (pack p)) by (unfold nlen; cbn [length]; lia). cbn [bind].
    destruct (rev_step_buf i l T (nlen l)) as [d1 [C1 C2]]; [lia|].
    rewrite C1. cbn [bind].
    assert (Hb3 : b8 (N.of_nat (i - length l) + 255) = N.of_nat (i - length l - 1)).
    { unfold b8. lia. }
    rewrite Hb3, C2. cbn [bind].
    change ([nlen l] ++ l ++ pack p) with ((nlen l :: l) ++ pack p).
    rewrite (slice_from_app (nlen l :: l) (pack p)) by (rewrite nlen_cons; lia). cbn [bind].
    replace (i - length l - 1)%nat with (length (pack p) - 1)%nat by lia.
    rewrite (IH fuel ((nlen l :: l) ++ T) Hp); [| cbn [length] in Hf; lia | lia].
    cbn [rev]. unfold body. rewrite flat_map_app. cbn [flat_map app]. rewrite app_nil_r, <- !app_assoc. reflexivity.
Qed.

Lemma rev_into_key_buffer_ok : forall n, name_ok n -> nlen (pack n) <= 255 ->
  rev_into (pack n) (zeros (length (pack n) + 2)) = Val (rpack n ++ [0; 0]).
Proof.
  intros n Hn Hlen. unfold rev_into.
  pose proof (length_pack_ge n) as Hp.
  assert (Hb : b8 (nlen (pack n) + 255) = N.of_nat (length (pack n) - 1)) by (unfold b8, nlen in *; lia).
  rewrite Hb.
  assert (Z : zeros (length (pack n) + 2) = zeros (length (pack n) - 1) ++ [0; 0; 0]).
  { change [0; 0; 0] with (zeros 3). rewrite <- zeros_app. f_equal. lia. }
  assert (U : upd (zeros (length (pack n) + 2)) (N.of_nat (length (pack n) - 1)) 0 = Val (zeros (length (pack n) - 1) ++ [0; 0; 0])).
  { unfold upd. assert (E : (N.of_nat (length (pack n) - 1) <? nlen (zeros (length (pack n) + 2))) = true)
      by (unfold nlen; rewrite zeros_length; lia).
    rewrite E, Nat2N.id. rewrite Z at 1 2.
    rewrite (firstn_zeros_app (length (pack n) - 1) (length (pack n) - 1)) by lia.
    replace (N.to_nat (N.of_nat (length (pack n) - 1) + 1)) with ((length (pack n) - 1) + 1)%nat by lia.
    rewrite skipn_app, zeros_length, skipn_all2 by (rewrite zeros_length; lia).
    replace (length (pack n) - 1 + 1 - (length (pack n) - 1))%nat with 1%nat by lia. reflexivity. }
  rewrite U. cbn [bind].
  rewrite (rev_loop_pack_ok n (S (length (pack n))) [0; 0; 0] Hn); [| lia | unfold nlen in Hlen; lia].
  unfold rpack. rewrite pack_body, <- app_assoc. reflexivity.
Qed.

(* ---------------------------------------------------------------- valid wire names *)
Lemma name_ok_map_lower : forall t, name_ok t -> name_ok (map lower_bytes t).
Proof.
  intros t H. unfold name_ok in *. apply Forall_map. eapply Forall_impl; [|exact H].
  intros l Hl. unfold lab_ok, lower_bytes in *. rewrite nlen_map. exact Hl.
Qed.
Lemma lower_small : forall c, c <= 63 -> lower c = c.
Proof. intros c H. unfold lower. destruct ((65 <=? c) && (c <=? 90)) eqn:E; [lia | reflexivity]. Qed.
Lemma lower_pack : forall t, name_ok t -> lower_bytes (pack t) = pack (map lower_bytes t).
Proof.
  induction t as [|l t IH]; intros H; [reflexivity|]. inversion H as [|? ? Hl Ht]; subst. unfold lab_ok in Hl.
  specialize (IH Ht). cbn [map]. rewrite !pack_cons. unfold lower_bytes in *. rewrite map_app. cbn [map].
  rewrite nlen_map, IH, lower_small by lia. reflexivity.
Qed.
Lemma nlen_lower : forall l, nlen (lower_bytes l) = nlen l.
Proof. intros. unfold lower_bytes. apply nlen_map. Qed.

Lemma parse_name_fuel_valid : forall fuel l acc nm r,
  parse_name_fuel fuel l acc = Some (nm, r) -> exists t, name_ok t /\ nm = acc ++ pack t.
Proof.
  induction fuel as [|f IH]; intros l acc nm r H; [discriminate|]. cbn [parse_name_fuel] in H.
  destruct l as [|c t]; [discriminate|].
  destruct (c =? 0) eqn:E0.
  - inversion H; subst. exists []. split; [constructor | reflexivity].
  - destruct (64 <=? c) eqn:E1; [discriminate|]. destruct (nlen t <? c) eqn:E2; [discriminate|].
    apply IH in H as (t' & Ht' & ->).
    exists (firstn (N.to_nat c) t :: t'). split.
    + constructor; [|exact Ht']. unfold lab_ok, nlen. rewrite firstn_length. unfold nlen in E2. lia.
    + rewrite pack_cons, <- app_assoc. cbn [app]. do 2 f_equal.
      unfold nlen. rewrite firstn_length. unfold nlen in E2. lia.
Qed.
Lemma parse_name_valid : forall l nm r, parse_name l = Some (nm, r) ->
  exists t, name_ok t /\ nm = pack t /\ nlen nm <= 255.
Proof.
  intros l nm r H. unfold parse_name in H.
  destruct (parse_name_fuel (S (length l)) l []) as [[n0 r0]|] eqn:E; [|discriminate].
  destruct (nlen n0 <=? 255) eqn:E2; [|discriminate]. inversion H; subst.
  apply parse_name_fuel_valid in E as (t & Ht & ->). exists t. split; [exact Ht|]. split; [reflexivity | lia].
Qed.

Lemma wf_name_suffix : forall (zz z : name), wf_name (zz ++ z) -> wf_name z.
Proof. intros zz z H. unfold wf_name in *. apply Forall_app in H. tauto. Qed.
Lemma nlen_pack_suffix : forall (zz z : name), nlen (pack z) <= nlen (pack (zz ++ z)).
Proof. intros. rewrite nlen_pack_app. lia. Qed.

Lemma agrees_val : forall st P (r : res (P * ctx)) (p : P),
  agrees st P r (Val p) -> exists c', r = Val (p, c') /\ closest_sound st c'.
Proof.
  intros st P r p H. destruct r as [[p' c']| |]; cbn in H; try contradiction.
  destruct H as [-> H]. eauto.
Qed.

Section Readers.
Variable recs : list record.
Variable L : bytes.
Variable st2 : store.
Hypothesis W : wf_recs recs.
Hypothesis HL : length L = 2%nat.
Hypothesis V2 : v2_store recs st2.
Let b := RDB1.
Let st1 := store_v1 recs.
Let U := v2_uniq recs st2 V2.

(* ================================================================ exact reads *)
Lemma for_each_v2_sim : forall {S} t loc c (f : cb S) s, name_ok t -> length loc = 2%nat -> get_sound st2 c ->
  exists c', for_each_v2 st2 c (bkey (rev t) loc) f s =
               (fst (for_each_v1 b st1 (loc ++ pack t) f s), snd (for_each_v1 b st1 (loc ++ pack t) f s), c') /\
             get_sound st2 c'.
Proof.
  intros S t loc c f s Ht Hl Hc. unfold for_each_v2.
  destruct (get_v2_transparent st2 c (bkey (rev t) loc) Hc) as [G1 G2].
  destruct (get_v2 st2 c (bkey (rev t) loc)) as [rows c1]. cbn [fst snd] in G1, G2. subst rows.
  rewrite (rows_v2_v1 recs st2 t loc W V2 Ht Hl). unfold for_each_v1. fold st1.
  destruct (iter_rows f (get st1 (loc ++ pack t)) s) as [s' stt]. exists c1. split; [reflexivity | exact G2].
Qed.

Theorem rr_sim : forall {S} t c (f : cb S) s, name_ok t -> nlen (pack t) <= 255 -> get_sound st2 c ->
  exists c', for_each_rr_v2 st2 c (pack t) L f s =
               Val (fst (for_each_rr_v1 b st1 (pack t) L f s), snd (for_each_rr_v1 b st1 (pack t) L f s), c') /\
             get_sound st2 c'.
Proof.
  intros S t c f s Ht Hlen Hc. unfold for_each_rr_v2, for_each_rr_v1.
  rewrite (rev_into_key_buffer_ok t Ht Hlen). cbn [bind].
  assert (Eb : forall loc, (marker ++ firstn (length (pack t)) (rpack t ++ [0; 0])) ++ loc = bkey (rev t) loc).
  { intros loc. assert (El : length (pack t) = length (rpack t)).
    { unfold rpack. pose proof (nlen_pack_rev t) as X. pose proof (nlen_pack_rev (rev t)) as Y. rewrite rev_involutive in Y.
      rewrite !pack_body, !nlen_app in *. unfold nlen in *. rewrite !app_length. cbn [length] in *. lia. }
    rewrite El, firstn_app_exact. unfold bkey, rpack. rewrite pack_body, <- !app_assoc. reflexivity. }
  rewrite !Eb.
  destruct (is_loc0 L).
  - destruct (for_each_v2_sim t loc0 c f s Ht eq_refl Hc) as (c' & E & Hc'). rewrite E.
    destruct (for_each_v1 b st1 (loc0 ++ pack t) f s) as [s' e']. exists c'. split; [reflexivity | exact Hc'].
  - destruct (for_each_v2_sim t L c f s Ht HL Hc) as (c1 & E1 & Hc1). rewrite E1.
    destruct (for_each_v1 b st1 (L ++ pack t) f s) as [s1 e1]. cbn [fst snd].
    destruct e1; [exists c1; split; [reflexivity | exact Hc1]|].
    destruct (for_each_v2_sim t loc0 c1 f s1 Ht eq_refl Hc1) as (c' & E & Hc'). rewrite E.
    destruct (for_each_v1 b st1 (loc0 ++ pack t) f s1) as [s' e']. exists c'. split; [reflexivity | exact Hc'].
Qed.

(* ================================================================ IsAuthoritative *)
Definition auth_rel (n : name) (a1 a2 : authres) : Prop :=
  a_ns a1 = a_ns a2 /\ a_auth a1 = a_auth a2 /\ a_err a1 = false /\ a_err a2 = false /\
  (a_ns a1 = true -> a_zc a1 = a_zc a2 /\ exists zz z, n = zz ++ z /\ a_zc a1 = pack z) /\
  (a_ns a1 = false -> a_zc a1 = [0] /\ no_ns b recs L [] /\
                      exists zz y, n = zz ++ y /\ a_zc a2 = pack y /\ no_ns b recs L y).

Lemma walk_auth_suffix : forall m auth, exists zz, m = zz ++ snd (walk_auth b recs L m auth).
Proof.
  induction m as [|l p IH]; intros auth; rewrite walk_auth_eq.
  - destruct (fst (scan_auth b recs L [] (false, auth))); exists []; reflexivity.
  - destruct (fst (scan_auth b recs L (l :: p) (false, auth))); [exists []; reflexivity|].
    destruct (IH (snd (scan_auth b recs L (l :: p) (false, auth)))) as [zz E]. exists (l :: zz). cbn [app]. rewrite <- E. reflexivity.
Qed.

Theorem is_auth_sim : forall n c, wf_name n -> nlen (pack n) <= 255 -> closest_sound st2 c ->
  exists a1 a2 c',
    is_authoritative_v1 b st1 (pack n) L = Val a1 /\
    is_authoritative_v2 st2 c (pack n) L = Val (a2, c') /\ closest_sound st2 c' /\ auth_rel n a1 a2.
Proof.
  intros n c Hn Hlen Hc. pose proof (wf_name_ok n Hn) as Hok.
  unfold is_authoritative_v1, st1.
  rewrite (v1_auth_walk b recs L st2 W HL V2 n (S (length (pack n))) false Hok (Nat.lt_succ_diag_r _)).
  rewrite is_authoritative_v2_eq.
  pose proof (find_cache_free st2 U auth2_state auth_parse auth_pre auth_post (pack n) L (false, false, 0) c Hc) as A.
  unfold find_pure in A. rewrite (reverse_zone_name_pack n Hn Hlen) in A. cbn [bind] in A.
  assert (Er : rpack n = body (rev n) ++ [0]) by (unfold rpack; apply pack_body).
  assert (Eq : nlen (rpack n) = nlen (body (rev n)) + 1) by (rewrite Er, nlen_app; reflexivity).
  rewrite Eq in A. rewrite Er in A.
  assert (Hb : buf_ok (marker ++ (body (rev n) ++ [0]) ++ [0; 0]) (nlen (marker ++ (body (rev n) ++ [0]) ++ [0; 0])) (body (rev n))).
  { split; [|split].
    - rewrite <- !app_assoc. rewrite (app_assoc marker). apply is_prefix_app.
    - rewrite !nlen_app. cbn [nlen marker length N.of_nat]. lia.
    - lia. }
  destruct (au_sim b recs L st2 W HL V2 n Hok Hlen (length n) n eq_refl [] (length (pack n) + 2) _ _ false 0 eq_refl
              ltac:(pose proof (length_pack_ge n); lia) Hb) as (z' & E & Z1 & Z2).
  rewrite E in A. apply agrees_val in A as (c' & A & Hc'). rewrite A. cbn [bind].
  destruct (walk_auth_suffix n false) as [zz Ezz].
  set (wa := walk_auth b recs L n false) in *.
  destruct (fst (fst wa)) eqn:Ens.
  - (* a zone cut was found: same name *)
    specialize (Z1 eq_refl). subst z'.
    assert (Ep : pack n = body zz ++ pack (snd wa)) by (rewrite Ezz at 1; apply pack_app).
    assert (T1 : (nlen (pack n) <? nlen (pack (snd wa))) = false) by (rewrite Ep, nlen_app; lia).
    rewrite T1.
    assert (T2 : slice_from (pack n) (nlen (pack n) - nlen (pack (snd wa))) = Val (pack (snd wa))).
    { rewrite Ep. apply slice_from_app. rewrite nlen_app. lia. }
    rewrite T2. cbn [bind]. do 3 eexists. split; [reflexivity|]. split; [reflexivity|]. split; [exact Hc'|].
    unfold auth_rel. cbn [a_ns a_auth a_zc a_err]. repeat split; try reflexivity.
    + exists zz, (snd wa). split; [exact Ezz | reflexivity].
    + discriminate.
    + discriminate.
    + discriminate.
  - destruct (Z2 eq_refl) as (yy & y & Ey & -> & Hy).
    assert (Ep : pack n = body yy ++ pack y) by (rewrite Ey at 1; apply pack_app).
    assert (T1 : (nlen (pack n) <? nlen (pack y)) = false) by (rewrite Ep, nlen_app; lia).
    rewrite T1.
    assert (T2 : slice_from (pack n) (nlen (pack n) - nlen (pack y)) = Val (pack y)).
    { rewrite Ep. apply slice_from_app. rewrite nlen_app. lia. }
    rewrite T2. cbn [bind]. do 3 eexists. split; [reflexivity|]. split; [reflexivity|]. split; [exact Hc'|].
    destruct (walk_auth_false b recs L W n false Ens) as [Wn Wr]. fold wa in Wn.
    unfold auth_rel. cbn [a_ns a_auth a_zc a_err]. rewrite Wn. repeat split; try reflexivity; try discriminate.
    + exact Wr.
    + exists yy, y. repeat split; assumption.
Qed.

(* ================================================================ FindAnswer *)
Theorem find_answer_sim : forall n cz cpre c qname qtype max,
  wf_name n -> nlen (pack n) <= 255 -> n = cpre ++ cz -> closest_sound st2 c ->
  exists an found c',
    find_answer_v1 b st1 (pack n) (pack cz) qname qtype L max = Val (an, found) /\
    find_answer_v2 st2 c (pack n) (pack cz) qname qtype L max = Val (an, found, c') /\ closest_sound st2 c'.
Proof.
  intros n cz cpre c qname qtype max Hn Hlen Ecz Hc. pose proof (wf_name_ok n Hn) as Hok.
  unfold find_answer_v1, st1.
  rewrite (v1_fa_walk b recs L st2 HL V2 n Hlen (pack cz) qname qtype n (S (length (pack n))) false _ Hok (Nat.lt_succ_diag_r _)).
  cbn [bind]. rewrite find_answer_v2_eq. rewrite (nlen_pack_rev n).
  pose proof (find_cache_free st2 U fa2_state (fa_parse qname qtype) (fa_pre (pack cz)) fa_post (pack n) L
                ((wrs_empty, [], false), false, nlen (body (rev n)) + 1) c Hc) as A.
  unfold find_pure in A. rewrite (reverse_zone_name_pack n Hn Hlen) in A. cbn [bind] in A.
  assert (Er : rpack n = body (rev n) ++ [0]) by (unfold rpack; apply pack_body).
  assert (Eq : nlen (rpack n) = nlen (body (rev n)) + 1) by (rewrite Er, nlen_app; reflexivity).
  rewrite Eq in A. rewrite Er in A.
  assert (Hb : buf_ok (marker ++ (body (rev n) ++ [0]) ++ [0; 0]) (nlen (marker ++ (body (rev n) ++ [0]) ++ [0; 0])) (body (rev n))).
  { split; [|split].
    - rewrite <- !app_assoc. rewrite (app_assoc marker). apply is_prefix_app.
    - rewrite !nlen_app. cbn [nlen marker length N.of_nat]. lia.
    - lia. }
  destruct (fa_sim b recs L st2 W HL V2 n Hok Hlen (pack cz) qname qtype cz cpre eq_refl Ecz (length n) n eq_refl [] []
              (length (pack n) + 2) _ _ false (wrs_empty, [], false) eq_refl eq_refl
              ltac:(pose proof (length_pack_ge n); lia) Hb) as (w' & l' & E).
  cbn [app] in E.
  match type of A with agrees ?s0 ?P0 ?x0 _ =>
    match type of E with _ = ?v0 => assert (A2 : agrees s0 P0 x0 v0) by (rewrite <- E; exact A) end end.
  clear A E. rename A2 into A.
  assert (Ec : (nlen (body (rev n)) + 1 <? nlen (pack cz)) || negb (forallb wildsafe []) = false).
  { cbn [forallb negb]. rewrite orb_false_r. rewrite <- nlen_pack_rev. rewrite Ecz at 1. rewrite nlen_pack_app. lia. }
  match type of A with agrees _ _ _ (Val (if ?cnd then _ else _, _, _)) =>
    replace cnd with false in A by (symmetry; exact Ec) end.
  apply agrees_val in A as (c' & A & Hc'). rewrite A. cbn [bind].
  destruct (fa_finish qname max (walk_fa b recs L (pack cz) qname qtype n false (wrs_empty, [], false))) as [an found].
  do 3 eexists. split; [reflexivity|]. split; [reflexivity | exact Hc'].
Qed.
End Readers.
