(* The per-request context cache of dnsdata/rdb (Model/LookupV2: ctx, find_closest, get_v2).
   - get through the cache is always the uncached get (after repair 6c5e0a8);
   - FindClosest through the cache is the uncached SeekForPrev as long as the cache holds only
     entries written by FindClosest (closest_sound); an entry written by an exact get of an
     ABSENT key makes a later FindClosest of that key return the key itself with no data
     (ctx_find_closest_not_transparent) - unobservable through serve, where every closest-key
     walk of a request precedes its exact gets, and harmless anyway (the walk then strips one
     label instead of skipping). *)
From DnsV Require Import Base.Bytes Model.Store Model.LookupV1 Model.LookupV2 Proofs.Store Proofs.Compile.
Open Scope N_scope.

(* every key is stored once: get returns the rows stored with the key *)
Definition uniq (st : store) : Prop := forall k v, In (k, v) st -> get st k = v.

Definition get_sound (st : store) (c : ctx) : Prop :=
  forall k fk d, ctx_find c k = Some (fk, d) -> fk = k -> d = get st k.
Definition closest_sound (st : store) (c : ctx) : Prop :=
  forall k fk d, ctx_find c k = Some (fk, d) -> seek_prev st k = Some (fk, d).

Lemma ctx_find_cons : forall c k0 e k,
  ctx_find ((k0, e) :: c) k = if bytes_eqb k0 k then Some e else ctx_find c k.
Proof. reflexivity. Qed.

Lemma closest_get_sound : forall st c, uniq st -> closest_sound st c -> get_sound st c.
Proof.
  intros st c U H k fk d Hf E. subst. apply H in Hf. apply seek_prev_in in Hf. symmetry. apply U. exact Hf.
Qed.

(* ---- exact get *)
Lemma get_v2_transparent : forall st c key,
  get_sound st c -> fst (get_v2 st c key) = get st key /\ get_sound st (snd (get_v2 st c key)).
Proof.
  intros st c key H. unfold get_v2.
  destruct (ctx_find c key) as [[fk d]|] eqn:E.
  - destruct (bytes_eqb fk key) eqn:E2; cbn [fst snd].
    + apply bytes_eqb_eq in E2. split; [exact (H key fk d E E2) | exact H].
    + split; [reflexivity | exact H].
  - cbn [fst snd]. split; [reflexivity|].
    unfold ctx_update. rewrite bytes_eqb_refl. intros k fk d Hf Efk. rewrite ctx_find_cons in Hf.
    destruct (bytes_eqb key k) eqn:E3.
    + apply bytes_eqb_eq in E3. inversion Hf; subst. reflexivity.
    + eapply H; eauto.
Qed.

(* ---- SeekForPrev of a key that is present returns that key *)
Lemma bcmp_refl : forall a, bcmp a a = Eq.
Proof. induction a as [|x a IH]; cbn; [reflexivity|]. rewrite N.compare_refl. exact IH. Qed.
Lemma bcmp_antisym : forall a b, bcmp b a = CompOpp (bcmp a b).
Proof.
  induction a as [|x a IH]; destruct b as [|y b]; cbn; try reflexivity.
  rewrite (N.compare_antisym x y). destruct (x ?= y); cbn; [apply IH | reflexivity | reflexivity].
Qed.
Lemma bcmp_eq : forall a b, bcmp a b = Eq -> a = b.
Proof.
  induction a as [|x a IH]; destruct b as [|y b]; cbn; intros H; try reflexivity; try discriminate.
  destruct (x ?= y) eqn:E; try discriminate. apply N.compare_eq in E. subst. f_equal. apply IH. exact H.
Qed.
Lemma bleb_refl : forall a, bleb a a = true.
Proof. intros. unfold bleb. rewrite bcmp_refl. reflexivity. Qed.
Lemma bltb_bleb_false : forall a b, bleb a b = true -> bltb b a = false.
Proof. intros a b H. unfold bleb, bltb in *. rewrite (bcmp_antisym a b). destruct (bcmp a b); cbn; [reflexivity | reflexivity | discriminate]. Qed.
Lemma not_lt_le_eq : forall a b, bleb a b = true -> bltb a b = false -> a = b.
Proof. intros a b H1 H2. unfold bleb, bltb in *. destruct (bcmp a b) eqn:E; try discriminate. apply bcmp_eq. exact E. Qed.

Lemma seek_prev_from_present : forall s probe best,
  (forall bk bv, best = Some (bk, bv) -> bleb bk probe = true) ->
  ((exists bv, best = Some (probe, bv)) \/ has_key s probe = true) ->
  exists v, seek_prev_from best s probe = Some (probe, v).
Proof.
  induction s as [|[k' v'] t IH]; intros probe best Hle Hp; cbn [seek_prev_from].
  - destruct Hp as [[bv ->]|H]; [eexists; reflexivity | discriminate].
  - cbn [has_key] in Hp. destruct (bleb k' probe) eqn:E.
    + destruct best as [[bk bv]|].
      * destruct (bltb bk k') eqn:E2.
        -- apply IH; [intros ? ? X; inversion X; subst; exact E|].
           destruct Hp as [[bv' X]|X].
           ++ inversion X; subst. rewrite (bltb_bleb_false _ _ E) in E2. discriminate.
           ++ apply orb_prop in X as [X|X]; [apply bytes_eqb_eq in X; subst; left; eexists; reflexivity | right; exact X].
        -- apply IH; [exact Hle|].
           destruct Hp as [X|X]; [left; exact X|].
           apply orb_prop in X as [X|X]; [|right; exact X].
           apply bytes_eqb_eq in X; subst. left. exists bv.
           rewrite (not_lt_le_eq bk probe (Hle bk bv eq_refl) E2). reflexivity.
      * apply IH; [intros ? ? X; inversion X; subst; exact E|].
        destruct Hp as [[bv' X]|X]; [discriminate|].
        apply orb_prop in X as [X|X]; [apply bytes_eqb_eq in X; subst; left; eexists; reflexivity | right; exact X].
    + apply IH; [exact Hle|]. destruct Hp as [X|X]; [left; exact X|].
      apply orb_prop in X as [X|X]; [|right; exact X].
      apply bytes_eqb_eq in X; subst. rewrite bleb_refl in E. discriminate.
Qed.

Lemma in_has_key : forall (st : store) k v, In (k, v) st -> has_key st k = true.
Proof.
  induction st as [|[k' v'] t IH]; intros k v H; [contradiction|]. cbn [has_key].
  destruct H as [H|H]; [inversion H; subst; rewrite bytes_eqb_refl; reflexivity|].
  rewrite (IH k v H). apply orb_true_r.
Qed.

Lemma seek_prev_present : forall st k v, uniq st -> In (k, v) st -> seek_prev st k = Some (k, v).
Proof.
  intros st k v U H.
  destruct (seek_prev_from_present st k None) as [v' E]; [intros; discriminate | right; eapply in_has_key; eauto|].
  unfold seek_prev. rewrite E. pose proof (seek_prev_in st k k v' E) as H2.
  rewrite <- (U k v H), <- (U k v' H2). reflexivity.
Qed.

(* ---- FindClosest *)
Lemma find_closest_transparent : forall st c key,
  uniq st -> closest_sound st c ->
  fst (find_closest st c key) = seek_prev st key /\ closest_sound st (snd (find_closest st c key)).
Proof.
  intros st c key U H. unfold find_closest.
  destruct (ctx_find c key) as [e|] eqn:E.
  - destruct e as [fk d]. cbn [fst snd]. split; [symmetry; apply H; exact E | exact H].
  - destruct (seek_prev st key) as [[k v]|] eqn:E2; cbn [fst snd]; [|split; [reflexivity | exact H]].
    split; [reflexivity|].
    assert (Hk : seek_prev st k = Some (k, v)) by (apply seek_prev_present; [exact U | eapply seek_prev_in; eauto]).
    unfold ctx_update. intros k1 fk d Hf.
    destruct (bytes_eqb key k) eqn:E3.
    + rewrite ctx_find_cons in Hf. destruct (bytes_eqb key k1) eqn:E4.
      * apply bytes_eqb_eq in E4; subst. inversion Hf; subst. exact E2.
      * apply H; exact Hf.
    + rewrite !ctx_find_cons in Hf. destruct (bytes_eqb k k1) eqn:E5.
      * apply bytes_eqb_eq in E5; subst. inversion Hf; subst. exact Hk.
      * destruct (bytes_eqb key k1) eqn:E4.
        -- apply bytes_eqb_eq in E4; subst. inversion Hf; subst. exact E2.
        -- apply H; exact Hf.
Qed.

(* an exact get answered from or recorded into a closest-sound cache keeps it closest-sound
   when the key is present (the only way sortedDataReader.find reaches get: TryForEach calls
   ForEach only after FindClosest returned the key itself) *)
Lemma get_v2_keeps_closest : forall st c key v,
  uniq st -> closest_sound st c -> In (key, v) st -> closest_sound st (snd (get_v2 st c key)).
Proof.
  intros st c key v U H Hin. unfold get_v2.
  destruct (ctx_find c key) as [[fk d]|] eqn:E.
  - destruct (bytes_eqb fk key); exact H.
  - cbn [snd]. unfold ctx_update. rewrite bytes_eqb_refl. intros k1 fk d Hf. rewrite ctx_find_cons in Hf.
    destruct (bytes_eqb key k1) eqn:E2; [|apply H; exact Hf].
    apply bytes_eqb_eq in E2; subst. inversion Hf; subst.
    rewrite (U _ _ Hin). apply seek_prev_present; assumption.
Qed.

(* the empty cache a request starts with *)
Lemma closest_sound_nil : forall st, closest_sound st [].
Proof. intros st k fk d H. discriminate. Qed.

(* literal transparency of FindClosest is false once an exact get of an absent key was cached *)
Lemma ctx_find_closest_not_transparent :
  exists st c key, uniq st /\ get_sound st c /\ c = snd (get_v2 st [] key) /\
    fst (find_closest st c key) <> seek_prev st key.
Proof.
  exists [([1], [[9]])], (snd (get_v2 [([1], [[9]])] [] [2])), [2].
  split; [|split; [|split; [reflexivity | vm_compute; discriminate]]].
  - intros k v [H|[]]. inversion H; subst. reflexivity.
  - apply (get_v2_transparent [([1], [[9]])] [] [2]). intros k fk d H. discriminate.
Qed.
