(* C01, remaining sections and the one-statement form, for the closest-key reader over the
   v2-keyed compiled store: by C02's simulation (Proofs/V2Corollaries.v2_equals_v1) the handler
   returns exactly the outcome of the handler over the v1-keyed store. *)
From DnsV Require Import Base.Bytes Model.Store Model.LookupV1 Model.LookupV2 Model.Serve Spec.Answer Spec.Rows Spec.AnswerExtra.
From DnsV Require Import Proofs.Answer Proofs.Compile Proofs.ZoneCut Proofs.Refused Proofs.NxDomain Proofs.SoaAuth Proofs.AnswerItems Proofs.Referral Proofs.Glue.
From DnsV Require Import Proofs.AuthSections Proofs.V2Store Proofs.V2Corollaries.
From Coq Require Import Permutation.
Open Scope N_scope.

Theorem auth_answer_additional_sound_v2 : forall recs L, wf_recs recs -> length L = 2%nat ->
  wf_view L recs = true -> forall q n z ecs max x,
  wf_name n -> nlen (pack n) <= 255 -> lower_bytes (q_name q) = pack n ->
  (q_edns q = None \/ q_edns q = Some 0) ->
  zone_cut L recs n = Some z -> authoritative L recs z = true ->
  serve RDB2 (store_v2 recs) q (LocOk L) ecs max = OReply x ->
  (item_count (rs_an x) <> 0 -> rs_ns x = []) /\
  forall pre i post, rs_ex x = pre ++ i :: post ->
    exists t ty cands,
      i = IPick t ty (q_class q) cands 1 /\ (ty = 1 \/ ty = 28) /\
      (exists it, In it (rs_an x ++ rs_ns x) /\ target_of it = Some t) /\
      has_record (mkMsg (rs_an x) (rs_ns x) pre) t ty = false /\
      npick 1 cands = 1 /\
      exists rs, cands = map cand_of rs /\ Permutation rs (addr_records L recs t ty).
Proof.
  intros recs L W HL V q n z ecs max x Hn Hlen Hq Hv Hz Ha H.
  rewrite (v2_equals_v1 recs L W HL V q n ecs max Hn Hlen Hq) in H.
  exact (auth_answer_additional_sound_v1 RDB1 recs L W HL rdb1_not_rdb2 V q n z ecs max x Hn Hlen Hq Hv Hz Ha H).
Qed.

Theorem response_is_spec_v2 : forall recs L, wf_recs recs -> Forall wf_ns_rdata recs -> length L = 2%nat ->
  wf_view L recs = true -> forall q n ecs max x,
  wf_name n -> nlen (pack n) <= 255 -> lower_bytes (q_name q) = pack n ->
  (q_edns q = None \/ q_edns q = Some 0) ->
  serve RDB2 (store_v2 recs) q (LocOk L) ecs max = OReply x ->
  rs_id x = q_id q /\ rs_question x = question_of q /\
  match spec_response L recs n (q_type q) with
  | Refused =>
      rs_rcode x = 5 /\ rs_aa x = false /\ rs_an x = [] /\ rs_ns x = [] /\ rs_ex x = [] /\ rs_opt x = opt_of q ecs
  | Referral z nsr =>
      q_type q <> 43 ->
      rs_rcode x = 0 /\ rs_aa x = false /\ rs_an x = [] /\
      (exists ord, Permutation ord nsr /\ rs_ns x = map (ns_item (pack z) (q_class q)) ord) /\
      extras_sound recs L (q_class q) (rs_an x) (rs_ns x) (rs_ex x) /\ rs_opt x = opt_of q ecs
  | Answer z nx ans soa =>
      rs_rcode x = (if nx then 3 else 0) /\ rs_aa x = true /\
      (exists ord, Permutation ord ans /\ rs_an x = answer_items (q_name q) max ord) /\
      (if item_count (rs_an x) =? 0 then exists r, In r soa /\ rs_ns x = [soa_item (pack z) r] else rs_ns x = []) /\
      extras_sound recs L (q_class q) (rs_an x) (rs_ns x) (rs_ex x) /\ rs_opt x = opt_of q ecs
  end.
Proof.
  intros recs L W WN HL V q n ecs max x Hn Hlen Hq Hv H.
  rewrite (v2_equals_v1 recs L W HL V q n ecs max Hn Hlen Hq) in H.
  exact (response_is_spec_v1 RDB1 recs L W WN HL rdb1_not_rdb2 V q n ecs max x Hn Hlen Hq Hv H).
Qed.
