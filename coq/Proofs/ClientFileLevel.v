(* ClientFileLevel: C01_file_level with the client location computed by the handler itself.
   For a well-formed data file f, every database the C07 compilers produce from its text, every
   query q (lower-cased name n) from every client (resolver address rip, optional ECS option):
   the handler model of Model/Handler.v - FindLocation over the database, then the answer readers
   over the same database - replies what Spec/Answer.spec_response prescribes for the records the
   file declares and the location Spec/ClientLocation.client_view names for this client, and echoes
   the ECS option with the scope Spec/ClientLocation.scope_view. *)
From DnsV Require Import Base.Bytes Base.Ip Spec.Lpm Model.Rearranger Model.Location Model.Ecs.
From DnsV Require Import Model.Compile Spec.MapOfLists Proofs.MultiValue Proofs.MapOfLists Proofs.Batch Proofs.CompilePipe.
From DnsV Require Import Model.Text Model.Preproc Model.Accum Model.Handler Spec.ClientLocation.
From DnsV Require Import Model.Store Model.LookupV1 Model.LookupV2 Model.Serve Spec.Answer Spec.Rows Spec.AnswerExtra Spec.Declared.
From DnsV Require Import Proofs.ZoneCut Proofs.RevOrder Proofs.V2Store Proofs.ReadsNames.
From DnsV Require Import Proofs.Lpm Proofs.Location Proofs.Rearranger Proofs.RdbLocate Proofs.SquashKeys Proofs.MapV2.
From DnsV Require Import Proofs.Ecs Proofs.LinkEcsLpm Proofs.LinkRdbDb Proofs.LinkRdbModel.
From DnsV Require Import Proofs.DeclaredLink Proofs.DeclaredWf Proofs.FileLevel Proofs.AccumLink.
From DnsV Require Import Proofs.ClientSpecLink Proofs.ClientDbFacts Proofs.ClientLink Proofs.ClientCdbLpm Proofs.ClientLookups.
From Coq Require Import Lia Permutation ZifyN ZifyNat ZifyBool.
Open Scope N_scope.

Lemma wf_name_labels : forall n : Answer.name, wf_name n -> wf_labelsb n = true.
Proof.
  intros n H. unfold wf_labelsb. apply forallb_forall. intros l Hl. unfold wf_name in H. rewrite Forall_forall in H.
  destruct (H l Hl) as [[H1 _] _]. destruct l; [unfold nlen in H1; cbn in H1; lia | reflexivity].
Qed.

Lemma map_of_choice : forall rs kind n,
  map_of (option_map mapid_bytes (map_choice (declared_maps rs) kind n)) = name_map rs kind n.
Proof. intros. unfold map_of, name_map. destruct (map_choice (declared_maps rs) kind n) as [m|]; [apply two_bytes_mapid | reflexivity]. Qed.

(* the echoed option: the request's own, with the scope the spec prescribes *)
Definition echo_view (rs : list Text.record) (n : list bytes) (enc : ecs -> ecsval) (cq : Ecs.query) : option ecsval :=
  option_map (fun e => enc (set_scope e (scope_view rs n (ecs_in_of e)))) (query_ecs cq).
(* the location the spec names for this client *)
Definition view_of (rs : list Text.record) (n : list bytes) (rip : N) (cq : Ecs.query) : bytes :=
  view_bytes (client_view rs n rip (option_map ecs_in_of (query_ecs cq))).

(* FindLocation on a database whose FindMap is the map choice and whose GetLocationByMap is longest-prefix match:
   the location the spec names, and the request's option with the scope the spec names *)
Lemma client_location_is_view : forall rs lb dbl cq (n : Answer.name) rip,
  (forall kind, kind = 77 \/ kind = 56 ->
     find_map lb dbl [0; kind] (pack_labels n) = Ok (option_map mapid_bytes (map_choice (declared_maps rs) kind n))) ->
  (forall m c, wf_client c -> exists r, get_location lb dbl m c = Ok r /\
     hit_of r = lpm (file_nets rs m) (cfam c) (search_addr true c) (eff_plen c)) ->
  q_rip cq = Some rip -> rip < two128 -> (forall e, query_ecs cq = Some e -> wf_ecs e) ->
  exists loc, client_location lb dbl (pack n) cq =
                Ok (option_map (fun e => set_scope e (scope_view rs n (ecs_in_of e))) (query_ecs cq), loc) /\
              l_loc loc = client_view rs n rip (option_map ecs_in_of (query_ecs cq)).
Proof.
  intros rs lb dbl cq n rip FM GL Hrip Hlt Hecs. unfold client_location. rewrite pack_pack_labels.
  destruct (find_client_location_spec (file_nets rs) true _ _ (get_location lb dbl) GL cq _ _ rip
              (FM 56 (or_intror eq_refl)) (FM 77 (or_introl eq_refl)) Hrip Hlt Hecs) as (e' & loc & E & D & Ee).
  rewrite (map_of_choice rs 56 n), (map_of_choice rs 77 n) in D. rewrite (map_of_choice rs 56 n) in Ee.
  rewrite <- client_view_decides in D. exists loc. split; [|exact D]. rewrite E. f_equal. f_equal.
  rewrite Ee. destruct (query_ecs cq) as [e|]; [|reflexivity]. cbn [option_map]. rewrite scope_view_expected. reflexivity.
Qed.

Lemma handle_is_serve : forall rs lb b dbl st q cq enc max (n : Answer.name) rip,
  (forall kind, kind = 77 \/ kind = 56 ->
     find_map lb dbl [0; kind] (pack_labels n) = Ok (option_map mapid_bytes (map_choice (declared_maps rs) kind n))) ->
  (forall m c, wf_client c -> exists r, get_location lb dbl m c = Ok r /\
     hit_of r = lpm (file_nets rs m) (cfam c) (search_addr true c) (eff_plen c)) ->
  lower_bytes (q_name q) = pack n ->
  q_rip cq = Some rip -> rip < two128 -> (forall e, query_ecs cq = Some e -> wf_ecs e) ->
  handle lb b dbl st q cq enc max = Serve.serve b st q (LocOk (view_of rs n rip cq)) (echo_view rs n enc cq) max.
Proof.
  intros rs lb b dbl st q cq enc max n rip FM GL Hq Hrip Hlt Hecs. unfold handle. rewrite Hq.
  destruct (client_location_is_view rs lb dbl cq n rip FM GL Hrip Hlt Hecs) as (loc & E & D). rewrite E.
  f_equal.
  - unfold view_of, view_bytes, Rearranger.loc_bytes. rewrite D. reflexivity.
  - unfold echo_view. destruct (query_ecs cq) as [e|]; reflexivity.
Qed.

Lemma view_loc_okb : forall o serial f n rip cq, subnet_locs_okb o serial f = true ->
  loc_okb (view_of (parsed o serial f) n rip cq) = true.
Proof.
  intros o serial f n rip cq H. unfold view_of.
  destruct (client_view_in (parsed o serial f) n rip (option_map ecs_in_of (query_ecs cq))) as [E|Hin].
  - rewrite E. reflexivity.
  - unfold subnet_locs_okb in H. rewrite forallb_forall in H. exact (H _ Hin).
Qed.

Section Final.
Variable sort : list point -> list point.
Hypothesis Hsort : sort_spec sort.
Variable o : toracles.
Variable serial : N.
Variable f : list bytes.
Hypothesis WF : wf_file o serial f = true.
Hypothesis LOK : loc_file_okb o serial f = true.
Hypothesis ONCE : maps_once (parsed o serial f).
Hypothesis Hw : forall m, wf_subnets (declared_subnets (parsed o serial f) m).
Let rs := parsed o serial f.
Let recs := declared_file o serial f.

(* the request: a wire-valid name, EDNS absent or version 0, a resolver address, options miekg/dns unpacks *)
Variable q : Serve.query.
Variable cq : Ecs.query.
Variable n : Answer.name.
Variable rip : N.
Variable enc : ecs -> ecsval.
Variable max : N.
Hypothesis Hn : wf_name n.
Hypothesis Hlen : nlen (pack n) <= 255.
Hypothesis Hq : lower_bytes (q_name q) = pack n.
Hypothesis He : Serve.q_edns q = None \/ Serve.q_edns q = Some 0.
Hypothesis Hrip : q_rip cq = Some rip.
Hypothesis Hlt : rip < two128.
Hypothesis Hecs : forall e, query_ecs cq = Some e -> wf_ecs e.

Let L := view_of rs n rip cq.
Hypothesis V : wf_view L recs = true.

Theorem file_level_client_cdb : forall sep stream kvs st x,
  kvs_ok (flat_map (recs_of bytes (conv_line o serial false false)) f) ->
  subnet_locs_okb o serial f = true ->
  Permutation stream (records bytes (conv_line o serial false false) (accum_cdb o serial) [feature_kv false] f) ->
  compile_cdb bytes (conv_line o serial false false) f stream = Ok kvs -> (forall k, Store.get st k = vals_of k kvs) ->
  handle (BCdb sep) CDB kvs st q cq enc max = OReply x ->
  response_refines L recs n q (echo_view rs n enc cq) max x.
Proof.
  intros sep stream kvs st x K1 LS P C G Hs.
  assert (Ek : kvs = stream).
  { unfold compile_cdb in C. rewrite (wf_file_accepted o serial false false f WF) in C. inversion C. reflexivity. }
  subst kvs.
  rewrite (handle_is_serve rs (BCdb sep) CDB stream st q cq enc max n rip) in Hs; try assumption.
  - exact (file_level_cdb o serial false (accum_cdb o serial) [feature_kv false] f WF (side_ok_cdb o serial f)
             stream stream st L P C G (view_loc_okb o serial f n rip cq LS) V q n _ max x Hn Hlen Hq He Hs).
  - intros kind Hk. cbn [find_map].
    exact (find_map_cdb o serial f WF LOK ONCE stream kind n Hk (wf_name_labels n Hn) P).
  - intros m c Hc. cbn [get_location]. exact (gl_cdb o serial f WF LOK Hw sep stream P m c Hc).
Qed.

Lemma rdb_grouped : forall v2 (db : Model.Batch.store) dbl,
  kvs_ok (flat_map (recs_of bytes (conv_line o serial false v2)) f) ->
  rdb_compilation bytes (conv_line o serial true v2) (accum_rdb sort o serial) [feature_kv v2] f db ->
  lists_store dbl db -> grouped (R_rdb sort o serial f v2) dbl.
Proof.
  intros v2 db dbl KV C Hl.
  assert (NF : [feature_kv v2] <> []) by discriminate.
  destruct (rdb_compilation_lossless bytes _ _ _ f db NF (kvs_ok_rdb' sort o serial v2 f KV) C) as [OK Hv].
  exact (store_grouped _ db dbl OK Hv Hl).
Qed.

Theorem file_level_client_rdb_v1 : forall (db : Model.Batch.store) st dbl x,
  kvs_ok (flat_map (recs_of bytes (conv_line o serial false false)) f) ->
  subnet_locs_okb o serial f = true ->
  rdb_compilation bytes (conv_line o serial true false) (accum_rdb sort o serial) [feature_kv false] f db ->
  rdb_dump db st -> lists_store dbl db ->
  handle BV1 RDB1 dbl st q cq enc max = OReply x ->
  response_refines L recs n q (echo_view rs n enc cq) max x.
Proof.
  intros db st dbl x K1 LS C D Hl Hs.
  assert (NF : [feature_kv false] <> []) by discriminate.
  rewrite (handle_is_serve rs BV1 RDB1 dbl st q cq enc max n rip) in Hs; try assumption.
  - exact (file_level_rdb_v1 o serial true (accum_rdb sort o serial) [feature_kv false] f WF (side_ok_rdb sort o serial false f)
             db st L NF (kvs_ok_rdb' sort o serial false f K1) C D (view_loc_okb o serial f n rip cq LS) V
             q n _ max x Hn Hlen Hq He Hs).
  - intros kind Hk. cbn [find_map].
    exact (find_map_v1 sort o serial f WF LOK ONCE dbl kind n Hk (wf_name_labels n Hn) (rdb_grouped false db dbl K1 C Hl)).
  - intros m c Hc. cbn [get_location]. exact (gl_rdb sort Hsort o serial f WF LOK Hw false db dbl K1 C Hl m c Hc).
Qed.

Theorem file_level_client_rdb_v2 : forall (db : Model.Batch.store) st dbl x,
  kvs_ok (flat_map (recs_of bytes (conv_line o serial false true)) f) ->
  rdb_compilation bytes (conv_line o serial true true) (accum_rdb sort o serial) [feature_kv true] f db ->
  rdb_dump db st -> lists_store dbl db ->
  handle BV2 RDB2 dbl st q cq enc max = OReply x ->
  response_refines L recs n q (echo_view rs n enc cq) max x.
Proof.
  intros db st dbl x K2 C D Hl Hs.
  assert (NF : [feature_kv true] <> []) by discriminate.
  rewrite (handle_is_serve rs BV2 RDB2 dbl st q cq enc max n rip) in Hs; try assumption.
  - exact (file_level_rdb_v2 o serial true (accum_rdb sort o serial) [feature_kv true] f WF (side_ok_rdb sort o serial true f)
             db st L NF (kvs_ok_rdb' sort o serial true f K2) C D eq_refl V
             q n _ max x Hn Hlen Hq He Hs).
  - intros kind Hk. cbn [find_map].
    exact (find_map_v2 sort o serial f WF LOK ONCE dbl kind n Hk (wf_name_labels n Hn) (rdb_grouped true db dbl K2 C Hl)).
  - intros m c Hc. cbn [get_location]. exact (gl_rdb sort Hsort o serial f WF LOK Hw true db dbl K2 C Hl m c Hc).
Qed.
End Final.
