(* Proofs/LinkCountersServe: C19 x C01 - the counters follow the served response.
   Model/Counters.serve gives the IncrementCounter / logger calls of ServeDNSWithRCODE as a function of a
   description (qclass) of what happened; Model/Serve.serve_with gives what is replied.  [run_class]
   (Model/ComposeMore.v) computes the description from the same reader calls.  Here:
   (1) link: the writes of the handler model on that description ARE the response class of the Serve
       outcome (bare SERVFAIL / composed response with rcode, AA, answer count / nothing);
   (2) with C19_counters_once: the outcome counters and the logger are determined by the Serve outcome;
   (3) with C01_response_is_spec: they are determined by what the data declares. *)
From DnsV Require Import Base.Bytes Model.Store Model.LookupV1 Model.LookupV2 Model.Serve.
From DnsV Require Import Proofs.Shape.
From DnsV Require Model.Counters Spec.Counters Proofs.Counters.
From DnsV Require Import Model.ComposeMore.
From Coq Require Import Lia.
Open Scope N_scope.

Module MC := Model.Counters.
Module SC := Spec.Counters.

(* ------------------------------------------------------------------ writes of the handler model *)
Lemma writes_wal : forall rc aa n w, MC.o_writes (MC.write_and_log rc aa n w) = [MC.WrComposed rc aa n (negb w)].
Proof. intros. unfold MC.write_and_log. destruct w; reflexivity. Qed.

Lemma writes_lookup : forall q,
  MC.o_writes (MC.serve_lookup q) =
    if MC.q_isauth_err q then [MC.WrBare]
    else if negb (MC.q_ns q) && negb (MC.q_auth q)
         then [MC.WrComposed 5 false (MC.q_sent_answers q) (negb (MC.q_write_err q))]
         else if (negb (MC.q_auth q) && (MC.q_qtype q =? 43)) && MC.q_ds_err q then [MC.WrBare]
              else if negb (MC.q_unpack_ok q) then [MC.WrBare]
                   else [MC.WrComposed
                           (if (if negb (MC.q_auth q) && (MC.q_qtype q =? 43) then MC.q_ds_auth q else MC.q_auth q)
                               && (MC.q_nfound q =? 0) && negb (MC.q_record_found q) then 3 else 0)
                           (if negb (MC.q_auth q) && (MC.q_qtype q =? 43) then MC.q_ds_auth q else MC.q_auth q)
                           (MC.q_sent_answers q) (negb (MC.q_write_err q))].
Proof.
  intros q. unfold MC.serve_lookup. change MC.TypeDS with 43.
  destruct (MC.q_isauth_err q); [reflexivity|].
  destruct (negb (MC.q_ns q) && negb (MC.q_auth q)).
  { cbn [MC.out_app MC.o_writes MC.incs app]. apply writes_wal. }
  cbv zeta.
  destruct ((negb (MC.q_auth q) && (MC.q_qtype q =? 43)) && MC.q_ds_err q); [reflexivity|].
  destruct (negb (MC.q_unpack_ok q)); [reflexivity|].
  cbn [MC.out_app MC.o_writes MC.incs app]. apply writes_wal.
Qed.

Lemma writes_serve : forall q, MC.q_reader_ok q = true -> MC.q_pack_ok q = true -> MC.q_cache_on q = false ->
  MC.o_writes (MC.serve q) =
    if negb (MC.q_edns_ok q) then [MC.WrComposed 16 false (MC.q_sent_answers q) (negb (MC.q_write_err q))]
    else match MC.q_loc q with
         | MC.LocOk _ _ _ => MC.o_writes (MC.serve_lookup q)
         | _ => []
         end.
Proof.
  intros q H1 H2 H3. unfold MC.serve. rewrite H1, H2, H3. cbn [negb MC.out_app MC.o_writes MC.incs app].
  destruct (negb (MC.q_edns_ok q)); [apply writes_wal|].
  destruct (MC.q_loc q); reflexivity.
Qed.

(* ------------------------------------------------------------------ Serve side *)
Lemma lift_noreply : forall {A} (r : res A) (k : A -> outcome),
  lift r k = ONoReply -> exists a, r = Val a /\ k a = ONoReply.
Proof. intros A r k H. destruct r; cbn in H; try discriminate. eauto. Qed.

Section Link.
Variable C : Type.
Variable rd : reader C.

Lemma additional_keeps_an : forall recs loc qc m c m' c',
  additional C rd recs loc qc m c = Val (m', c') -> m_an m' = m_an m.
Proof.
  induction recs as [|it t IH]; intros loc qc m c m' c' H; cbn [additional] in H; [inversion H; reflexivity|].
  destruct (target_of it) as [name|]; [|exact (IH _ _ _ _ _ _ H)].
  destruct (negb (has_record m name 1) || negb (has_record m name 28)); [|exact (IH _ _ _ _ _ _ H)].
  destruct (rd_rr C rd wrs c (lower_bytes name) loc _ wrs_empty) as [[[w e] c1]| |]; cbn [bind] in H; try discriminate.
  apply IH in H. exact H.
Qed.

(* a reply of serve_sections is the bare SERVFAIL (zone cut does not unpack) or the composed response *)
Lemma sections_reply : forall q ecs loc auth zc an rcode c x,
  serve_sections C rd q ecs loc auth zc an rcode c = OReply x ->
  match parse_name zc with
  | None => rs_rcode x = 2
  | Some _ => rs_rcode x = rcode /\ rs_aa x = auth /\ rs_an x = an
  end.
Proof.
  intros q ecs loc auth zc an rcode c x H. unfold serve_sections in H.
  destruct (parse_name zc) as [[zname rest]|]; [|inversion H; reflexivity].
  apply lift_reply in H as [[nsec c4] [_ H]]. apply lift_reply in H as [[m2 c6] [E2 H]].
  inversion H; subst x. cbn [rs_rcode rs_aa rs_an]. split; [reflexivity|]. split; [reflexivity|].
  destruct (additional C rd (m_an (mkMsg an nsec [])) loc (q_class q) (mkMsg an nsec []) c4) as [[m1 c5]| |] eqn:E3;
    cbn [bind] in E2; try discriminate.
  apply additional_keeps_an in E3. apply additional_keeps_an in E2. rewrite E2, E3. reflexivity.
Qed.

Lemma sections_not_noreply : forall q ecs loc auth zc an rcode c,
  serve_sections C rd q ecs loc auth zc an rcode c <> ONoReply.
Proof.
  intros q ecs loc auth zc an rcode c H. unfold serve_sections in H.
  destruct (parse_name zc) as [[zname rest]|]; [|discriminate].
  apply lift_noreply in H as [[nsec c4] [_ H]]. apply lift_noreply in H as [[m2 c6] [_ H]]. discriminate.
Qed.

Lemma ds_none_redo : forall q loc packed ar c1,
  serve_ds C rd q loc packed ar c1 = Val None -> negb (a_auth ar) && (q_type q =? 43) = true.
Proof.
  intros q loc packed ar c1 H. unfold serve_ds in H.
  destruct (negb (a_auth ar) && (q_type q =? 43)); [reflexivity|discriminate].
Qed.

Lemma ds_some_noredo : forall q loc packed ar c1 ar' c2,
  serve_ds C rd q loc packed ar c1 = Val (Some (ar', c2)) ->
  negb (a_auth ar) && (q_type q =? 43) = false -> ar' = ar.
Proof.
  intros q loc packed ar c1 ar' c2 H E. unfold serve_ds in H. rewrite E in H. inversion H. reflexivity.
Qed.

Ltac leaf :=
  rewrite writes_lookup;
  cbn [MC.q_isauth_err MC.q_ns MC.q_auth MC.q_qtype MC.q_ds_err MC.q_ds_auth MC.q_unpack_ok MC.q_nfound
       MC.q_record_found MC.q_sent_answers MC.q_write_err].

Notation cls sd c0 q locr max nsent := (run_class C rd sd c0 q locr max nsent).

(* fields of the description that do not depend on the run *)
Lemma run_class_fixed : forall sd c0 q locr max nsent,
  MC.q_reader_ok (cls sd c0 q locr max nsent) = true /\
  MC.q_do (cls sd c0 q locr max nsent) = s_do sd /\
  MC.q_qtype (cls sd c0 q locr max nsent) = q_type q /\
  MC.q_edns_ok (cls sd c0 q locr max nsent) = edns_ok q /\
  MC.q_pack_ok (cls sd c0 q locr max nsent) = true /\
  MC.q_loc (cls sd c0 q locr max nsent) = loc_class sd locr /\
  MC.q_cache_on (cls sd c0 q locr max nsent) = false /\
  MC.q_sent_answers (cls sd c0 q locr max nsent) = nsent /\
  MC.q_write_err (cls sd c0 q locr max nsent) = s_write_err sd.
Proof.
  intros. unfold run_class.
  repeat match goal with
         | |- context [match ?x with _ => _ end] => destruct x
         end; repeat split; reflexivity.
Qed.

(* (1) the link, for any announced number of sent answers *)
Theorem writes_of_run : forall sd c0 q locr ecs max nsent,
  match serve_with C rd c0 q locr ecs max with
  | OReply x =>
      MC.o_writes (MC.serve (cls sd c0 q locr max nsent)) =
        [if rs_rcode x =? 2 then MC.WrBare
         else MC.WrComposed (rs_rcode x) (rs_aa x) nsent (negb (s_write_err sd))]
  | ONoReply => MC.o_writes (MC.serve (cls sd c0 q locr max nsent)) = []
  | _ => True
  end.
Proof.
  intros sd c0 q locr ecs max nsent.
  destruct (run_class_fixed sd c0 q locr max nsent) as (F1 & F2 & F3 & F4 & F5 & F6 & F7 & F8 & F9).
  assert (BV : forall p, q_edns q = Some (N.pos p) ->
            MC.o_writes (MC.serve (cls sd c0 q locr max nsent)) = [MC.WrComposed 16 false nsent (negb (s_write_err sd))]).
  { intros p Ee. rewrite (writes_serve _ F1 F5 F7), F4, F8, F9. unfold edns_ok. rewrite Ee. reflexivity. }
  assert (NL : edns_ok q = true -> (locr = LocErr \/ locr = LocNil) ->
            MC.o_writes (MC.serve (cls sd c0 q locr max nsent)) = []).
  { intros Ee Hl. rewrite (writes_serve _ F1 F5 F7), F4, F6, Ee. destruct Hl as [-> | ->]; reflexivity. }
  assert (LK : forall loc, edns_ok q = true -> locr = LocOk loc ->
            MC.o_writes (MC.serve (cls sd c0 q locr max nsent)) = MC.o_writes (MC.serve_lookup (cls sd c0 q locr max nsent))).
  { intros loc Ee ->. rewrite (writes_serve _ F1 F5 F7), F4, F6, Ee. reflexivity. }
  unfold serve_with.
  destruct (q_edns q) as [[|p]|] eqn:Ee.
  2:{ rewrite (BV p eq_refl). reflexivity. }
  all: assert (EO : edns_ok q = true) by (unfold edns_ok; rewrite Ee; reflexivity).
  all: destruct locr as [| |loc]; [apply NL; [exact EO|left; reflexivity] | apply NL; [exact EO|right; reflexivity] |].
  all: rewrite (LK loc EO eq_refl); clear BV NL LK F1 F2 F3 F4 F5 F6 F7 F8 F9; unfold run_class.
  all: destruct (rd_auth C rd c0 (lower_bytes (q_name q)) loc) as [[ar c1]| |]; cbn [lift]; try exact I.
  all: destruct (a_err ar); [reflexivity|].
  all: destruct (negb (a_ns ar) && negb (a_auth ar)) eqn:Eref.
  (* REFUSED: whatever the later reader calls would have given, the description says refused *)
  1,3: destruct (serve_ds C rd q loc (lower_bytes (q_name q)) ar c1) as [[[ar' c2]|]| |];
       [ destruct (a_auth ar');
         [ destruct (rd_answer C rd c2 (lower_bytes (q_name q)) (a_zc ar') (q_name q) (q_type q) loc max) as [[[an found] c3]| |]; cbn [bind] | ]
       | | | ]; leaf; rewrite ?Eref; reflexivity.
  all: destruct (serve_ds C rd q loc (lower_bytes (q_name q)) ar c1) as [[[ar' c2]|]| |] eqn:Eds; cbn [lift]; try exact I.
  (* DS re-evaluation failed: bare SERVFAIL *)
  2,4: leaf; rewrite Eref, (ds_none_redo _ _ _ _ _ Eds); reflexivity.
  all: unfold serve_answer; destruct (a_auth ar') eqn:Ea';
       [ destruct (rd_answer C rd c2 (lower_bytes (q_name q)) (a_zc ar') (q_name q) (q_type q) loc max) as [[[an found] c3]| |];
         cbn [bind lift]; try exact I
       | cbn [lift] ].
  all: match goal with
       | |- context [serve_sections C rd ?q' ?e' ?l' ?au ?zc ?an ?rc ?c] =>
           pose proof (sections_reply q' e' l' au zc an rc c) as SR;
           pose proof (sections_not_noreply q' e' l' au zc an rc c) as SN;
           destruct (serve_sections C rd q' e' l' au zc an rc c) as [| | |x]; try exact I; [exfalso; apply SN; reflexivity|];
           specialize (SR x eq_refl)
       end.
  all: leaf; rewrite Eref.
  all: rewrite andb_false_r.
  all: destruct (negb (a_auth ar) && (q_type q =? 43)) eqn:Eredo;
       [ | pose proof (ds_some_noredo _ _ _ _ _ _ _ Eds Eredo) as Ear; subst ar'; rewrite Ea' ].
  all: destruct (parse_name (a_zc _)) as [[zn rest]|]; cbn [negb];
       [destruct SR as (R1 & R2 & R3); rewrite R1, R2 | rewrite SR; reflexivity].
  all: cbn [andb negb]; rewrite ?N.eqb_refl; cbn [andb negb].
  all: try (destruct ((item_count an =? 0) && negb found)); reflexivity.
Qed.
End Link.

(* ================================================================== (2) counters follow the Serve outcome *)
(* the five outcome counters and the query log, as the property states them, for a composed response that
   was written: rcode, AA, number of answer records *)
Definition outcome_counters (l : list MC.ckey) (logs : list MC.logcall) (rc : N) (aa : bool) (nans : N) : Prop :=
  SC.cnt MC.KNxdomain l = SC.b2n (rc =? 3) /\
  SC.cnt MC.KRefused l = SC.b2n (rc =? 5) /\
  SC.cnt MC.KBadvers l = SC.b2n (rc =? 16) /\
  SC.cnt MC.KNodata l = SC.b2n ((rc =? 0) && (nans =? 0)) /\
  SC.cnt MC.KNotAuthoritative l = SC.b2n (negb aa) /\
  logs = [MC.LogSent].
(* nothing composed was written (bare SERVFAIL, no reply, WriteMsg failed): no outcome counter moves and
   nothing is logged as sent *)
Definition no_outcome_counters (l : list MC.ckey) (logs : list MC.logcall) : Prop :=
  SC.cnt MC.KNxdomain l = 0%nat /\ SC.cnt MC.KRefused l = 0%nat /\ SC.cnt MC.KBadvers l = 0%nat /\
  SC.cnt MC.KNodata l = 0%nat /\ SC.cnt MC.KNotAuthoritative l = 0%nat /\ SC.nlog MC.LogSent logs = 0%nat.

Definition counters_follow (sd : side) (q : query) (out : outcome) (o : MC.outcome) : Prop :=
  SC.cnt MC.KQueries (MC.o_incs o) = 1%nat /\
  SC.cnt (MC.KType (q_type q)) (MC.o_incs o) = 1%nat /\
  (forall t, t <> q_type q -> SC.cnt (MC.KType t) (MC.o_incs o) = 0%nat) /\
  (forall k, (SC.cnt k (MC.o_incs o) <= 1)%nat) /\
  resp_class sd out = Some (MC.o_writes o) /\
  match out with
  | OReply x =>
      if (rs_rcode x =? 2) || s_write_err sd then no_outcome_counters (MC.o_incs o) (MC.o_logs o)
      else outcome_counters (MC.o_incs o) (MC.o_logs o) (rs_rcode x) (rs_aa x) (item_count (rs_an x))
  | _ => no_outcome_counters (MC.o_incs o) (MC.o_logs o)
  end.

Section Follow.
Variable C : Type.
Variable rd : reader C.

Theorem counters_follow_serve_with : forall sd c0 q locr ecs max,
  serve_with C rd c0 q locr ecs max <> OPanic -> serve_with C rd c0 q locr ecs max <> OFuel ->
  counters_follow sd q (serve_with C rd c0 q locr ecs max)
                  (MC.serve (serve_class C rd sd c0 q locr ecs max)).
Proof.
  intros sd c0 q locr ecs max NP NF. unfold serve_class.
  set (nsent := match serve_with C rd c0 q locr ecs max with OReply x => item_count (rs_an x) | _ => 0 end).
  pose proof (writes_of_run C rd sd c0 q locr ecs max nsent) as W.
  destruct (run_class_fixed C rd sd c0 q locr max nsent) as (F1 & _ & F3 & _).
  destruct (Proofs.Counters.counters_once (run_class C rd sd c0 q locr max nsent)) as (K1 & K2 & K3 & K4 & _ & K6 & _).
  rewrite F1, F3 in K2. rewrite F3 in K3.
  split; [exact K1|]. split; [exact K2|]. split; [exact K3|]. split; [exact K4|].
  unfold SC.outcome_follows_sent, SC.sent in K6.
  destruct (serve_with C rd c0 q locr ecs max) as [| | |x] eqn:Es; [contradiction|contradiction| |].
  - cbn [resp_class]. rewrite W in K6 |- *. split; [reflexivity|exact K6].
  - cbn [resp_class]. unfold nsent in *. rewrite W in K6 |- *. split; [reflexivity|].
    destruct (rs_rcode x =? 2) eqn:E2; cbn [orb]; [exact K6|].
    destruct (s_write_err sd); cbn [negb] in K6 |- *; [exact K6|].
    exact K6.
Qed.
End Follow.

(* for Model/Serve.serve over a store (all three backends) *)
Theorem counters_follow_serve : forall sd b st q locr ecs max,
  serve b st q locr ecs max <> OPanic -> serve b st q locr ecs max <> OFuel ->
  counters_follow sd q (serve b st q locr ecs max) (MC.serve (class_of sd b st q locr ecs max)).
Proof.
  intros sd b st q locr ecs max NP NF. destruct b; unfold serve, class_of in *; apply counters_follow_serve_with; assumption.
Qed.

(* the fields of the description Model/Serve does not decide *)
Theorem class_of_fixed : forall sd b st q locr ecs max,
  MC.q_reader_ok (class_of sd b st q locr ecs max) = true /\
  MC.q_do (class_of sd b st q locr ecs max) = s_do sd /\
  MC.q_qtype (class_of sd b st q locr ecs max) = q_type q /\
  MC.q_edns_ok (class_of sd b st q locr ecs max) = edns_ok q /\
  MC.q_pack_ok (class_of sd b st q locr ecs max) = true /\
  MC.q_loc (class_of sd b st q locr ecs max) = loc_class sd locr /\
  MC.q_cache_on (class_of sd b st q locr ecs max) = false /\
  MC.q_sent_answers (class_of sd b st q locr ecs max) =
    (match serve b st q locr ecs max with OReply x => item_count (rs_an x) | _ => 0 end) /\
  MC.q_write_err (class_of sd b st q locr ecs max) = s_write_err sd.
Proof. intros sd b st q locr ecs max. destruct b; unfold class_of, serve, serve_class; apply run_class_fixed. Qed.
