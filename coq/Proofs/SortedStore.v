(* A store with strictly ascending keys (what RocksDB holds and the harness hands over:
   Model/Store.sorted_keys, decidable) stores every key once.  Self-contained. *)
From DnsV Require Import Base.Bytes Model.Store Proofs.Store Proofs.Compile Proofs.Ctx.
Open Scope N_scope.

Lemma bcmp_lt_trans_s : forall a b c, bcmp a b = Lt -> bcmp b c = Lt -> bcmp a c = Lt.
Proof.
  induction a as [|x a IH]; destruct b as [|y b]; destruct c as [|z c]; cbn; intros H1 H2;
    try discriminate; try reflexivity.
  destruct (x ?= y) eqn:Exy; try discriminate.
  - apply N.compare_eq in Exy. subst y. destruct (x ?= z) eqn:Exz; try discriminate; try reflexivity.
    eapply IH; eauto.
  - destruct (y ?= z) eqn:Eyz; try discriminate.
    + apply N.compare_eq in Eyz. subst z. rewrite Exy. reflexivity.
    + assert (E : (x ?= z) = Lt).
      { apply N.compare_lt_iff. eapply N.lt_trans; [exact (proj1 (N.compare_lt_iff x y) Exy) | exact (proj1 (N.compare_lt_iff y z) Eyz)]. }
      rewrite E. reflexivity.
Qed.

Definition klt (a b : bytes) : Prop := bltb a b = true.
Lemma klt_iff_s : forall a b, klt a b <-> bcmp a b = Lt.
Proof. intros. unfold klt, bltb. destruct (bcmp a b); split; intros H; try reflexivity; discriminate. Qed.
Lemma klt_trans : forall a b c, klt a b -> klt b c -> klt a c.
Proof. intros a b c H1 H2. apply klt_iff_s in H1. apply klt_iff_s in H2. apply klt_iff_s. eapply bcmp_lt_trans_s; eauto. Qed.
Lemma klt_irrefl : forall a, ~ klt a a.
Proof. intros a H. apply klt_iff_s in H. rewrite bcmp_refl in H. discriminate. Qed.

Lemma sorted_head_lt : forall (t : store) k v, sorted_keys ((k, v) :: t) = true ->
  forall k' v', In (k', v') t -> klt k k'.
Proof.
  induction t as [|[k1 v1] t IH]; intros k v H k' v' Hin; [contradiction|].
  cbn [sorted_keys] in H. apply andb_prop in H as [H1 H2].
  destruct Hin as [E|Hin].
  - inversion E; subst. exact H1.
  - eapply klt_trans; [exact H1|]. exact (IH k1 v1 H2 k' v' Hin).
Qed.

Lemma sorted_tail : forall (t : store) k v, sorted_keys ((k, v) :: t) = true -> sorted_keys t = true.
Proof.
  intros t k v H. destruct t as [|[k1 v1] t]; [reflexivity|].
  cbn [sorted_keys] in H. apply andb_prop in H as [_ H]. exact H.
Qed.

Theorem sorted_uniq : forall st, sorted_keys st = true -> uniq st.
Proof.
  induction st as [|[k0 v0] t IH]; intros H k v Hin; [contradiction|]. cbn [get].
  destruct (bytes_eqb k0 k) eqn:E.
  - apply bytes_eqb_eq in E. subst k0. destruct Hin as [Hin|Hin]; [inversion Hin; reflexivity|].
    exfalso. exact (klt_irrefl k (sorted_head_lt t k v0 H k v Hin)).
  - destruct Hin as [Hin|Hin]; [inversion Hin; subst; rewrite bytes_eqb_refl in E; discriminate|].
    apply (IH (sorted_tail t k0 v0 H)). exact Hin.
Qed.

Lemma seek_prev_sound : forall s probe k v,
  seek_prev s probe = Some (k, v) -> In (k, v) s /\ bleb k probe = true.
Proof.
  intros s probe k v H. split; [exact (Proofs.Store.seek_prev_in s probe k v H) | exact (Proofs.Store.seek_prev_le s probe k v H)].
Qed.

(* ------------------------------------------------------------------------------------------
   NOTES for whoever continues C02_v2_equals_v1 (not proved).  What exists:
   - Proofs/CtxFind.find_cache_free : with any closest_sound cache, LookupV2.find computes what
     [find_pure] (no cache) computes.  So the target can be stated over find_pure.
   - Proofs/Reverse.reverse_zone_name_pack : reverse_zone_name (pack n) = Val (rpack n);
     rev_into_key_buffer for the exact reads; for_each_rr_v2_val.
   - Proofs/Ctx.get_v2_transparent, seek_prev_present; sorted_uniq above.
   - v1 side: Proofs/ZoneCut.is_auth_walk, Proofs/AnswerItems.find_ans_state give closed forms of
     the v1 loops over store_v1 recs; the v2 loops should be shown equal to the same closed forms.
   Suggested statements.
   (0) store_v2 recs := store_of (rows_of_v2 recs) sorted by key (define sort or state over any
       permutation with sorted_keys); get (store_v2 recs) (key_v2 r) = rows of the records with that
       key_v2 (as Proofs/Compile.get_store_of, plus injectivity of rpack: rpack a = rpack b -> a = b
       for wf names, from pack_inj and rev_involutive).
   (1) seek_skip_sound.  For wf n, 1 <= j <= length n, m := skipn (length n - j) n (the ancestor
       with j labels), probe := marker ++ rpack m ++ L:
         seek_prev (store_v2 recs) probe = Some (k, v) -> is_prefix marker k = true ->
         k = marker ++ rpack m' ++ L'  for a record owner m' and tag L', and
         for every ancestor a of n with  common_labels (rev n) (rev m') < length a <= j :
           no record has owner a   (neither tagged L nor untagged, nor any other tag).
       Argument: rpack a ++ X is a prefix-extension of rpack of the common part followed by a label
       byte sequence that sorts strictly between k and probe (bcmp_app in BytesOrder, the 0
       terminator sorts first), contradicting maximality of k (seek_prev_le / a "greatest" lemma:
       forall k' in store, bleb k' probe -> bleb k' k, still to be proved from seek_prev_from).
   (2) find_common_longest_prefix (rpack n) (rpack m') = nlen (body (common reversed labels))
       and get_length_without_last_label (rpack n) q = q - 1 - nlen (last label) on label
       boundaries (both by induction on the label list; Reverse.body is the right vocabulary).
   (3) simulation: one iteration of find_pure at qlen = boundary of ancestor a_j either reads
       exactly get (key a_j L) and get (key a_j 00) (when k has the same name) or proves both empty
       (by (1)), then jumps to an ancestor a_i, i < j, such that all a_l, i < l < j have no rows
       for L / 00; the v1 loop visits those a_l and finds nothing (fa_step / auth_step with empty
       lists).  The pre-iteration check of FindAnswer covers the labels skipped: pre_fa_loop over
       rpack n from boundary i to boundary j = forallb wildsafe of labels i+1..j.
   (4) the located-override probe: same_name test in find_loop = (owner of k = a_j); if k has the
       same name with another tag L' <= L the untagged key sorts before it, so the second
       TryForEach is an exact hit iff (a_j, 00) has rows.
   ------------------------------------------------------------------------------------------ *)
