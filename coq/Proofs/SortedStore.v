(* A store with strictly ascending keys (what RocksDB holds and the harness hands over:
   Model/Store.sorted_keys, decidable) stores every key once.  Self-contained. *)
From DnsV Require Import Base.Bytes Model.Store Proofs.Store Proofs.Compile Proofs.Ctx.
Open Scope N_scope.

Lemma bcmp_lt_trans_s : forall a b c, bcmp a b = Lt -> bcmp b c = Lt -> bcmp a c = Lt.
Proof.
  induction a as [|x a IH]; destruct b as [|y b]; destruct c as [|z c]; cbn; intros H1 H2;
    try discriminate; try reflexivity.
  destruct (x ?= y) eqn:Exy; try discriminate.
  - apply N.compare_eq in Exy. subst y. destruct (x ?= z) eqn:Exz; try discriminate; try reflexivity.
    eapply IH; eauto.
  - destruct (y ?= z) eqn:Eyz; try discriminate.
    + apply N.compare_eq in Eyz. subst z. rewrite Exy. reflexivity.
    + assert (E : (x ?= z) = Lt).
      { apply N.compare_lt_iff. eapply N.lt_trans; [exact (proj1 (N.compare_lt_iff x y) Exy) | exact (proj1 (N.compare_lt_iff y z) Eyz)]. }
      rewrite E. reflexivity.
Qed.

Definition klt (a b : bytes) : Prop := bltb a b = true.
Lemma klt_iff_s : forall a b, klt a b <-> bcmp a b = Lt.
Proof. intros. unfold klt, bltb. destruct (bcmp a b); split; intros H; try reflexivity; discriminate. Qed.
Lemma klt_trans : forall a b c, klt a b -> klt b c -> klt a c.
Proof. intros a b c H1 H2. apply klt_iff_s in H1. apply klt_iff_s in H2. apply klt_iff_s. eapply bcmp_lt_trans_s; eauto. Qed.
Lemma klt_irrefl : forall a, ~ klt a a.
Proof. intros a H. apply klt_iff_s in H. rewrite bcmp_refl in H. discriminate. Qed.

Lemma sorted_head_lt : forall (t : store) k v, sorted_keys ((k, v) :: t) = true ->
  forall k' v', In (k', v') t -> klt k k'.
Proof.
  induction t as [|[k1 v1] t IH]; intros k v H k' v' Hin; [contradiction|].
  cbn [sorted_keys] in H. apply andb_prop in H as [H1 H2].
  destruct Hin as [E|Hin].
  - inversion E; subst. exact H1.
  - eapply klt_trans; [exact H1|]. exact (IH k1 v1 H2 k' v' Hin).
Qed.

Lemma sorted_tail : forall (t : store) k v, sorted_keys ((k, v) :: t) = true -> sorted_keys t = true.
Proof.
  intros t k v H. destruct t as [|[k1 v1] t]; [reflexivity|].
  cbn [sorted_keys] in H. apply andb_prop in H as [_ H]. exact H.
Qed.

Theorem sorted_uniq : forall st, sorted_keys st = true -> uniq st.
Proof.
  induction st as [|[k0 v0] t IH]; intros H k v Hin; [contradiction|]. cbn [get].
  destruct (bytes_eqb k0 k) eqn:E.
  - apply bytes_eqb_eq in E. subst k0. destruct Hin as [Hin|Hin]; [inversion Hin; reflexivity|].
    exfalso. exact (klt_irrefl k (sorted_head_lt t k v0 H k v Hin)).
  - destruct Hin as [Hin|Hin]; [inversion Hin; subst; rewrite bytes_eqb_refl in E; discriminate|].
    apply (IH (sorted_tail t k0 v0 H)). exact Hin.
Qed.

Lemma seek_prev_sound : forall s probe k v,
  seek_prev s probe = Some (k, v) -> In (k, v) s /\ bleb k probe = true.
Proof.
  intros s probe k v H. split; [exact (Proofs.Store.seek_prev_in s probe k v H) | exact (Proofs.Store.seek_prev_le s probe k v H)].
Qed.
