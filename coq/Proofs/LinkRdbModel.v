(* C03, RocksDB side from the data file: the database model of C03 itself
   (Model/Location.v rdb_db: features record, map records, the range points of every
   map that has subnets, records with equal keys merged into one multi-value) satisfies
   the database-contents hypothesis of C03_rdb_driver_is_lpm for every file whose map
   kinds are M / 8 and whose subnet sets are well-formed.  Hence GetLocationByMap of
   the RocksDB backend on rdb_db f is longest-prefix match - the counterpart of
   C03_cdb_is_lpm, with no hypothesis on the database left.
   Uses the grouping argument of Proofs/LinkRdbDb.v and the squash property. *)
From DnsV Require Import Base.Bytes Base.Ip Spec.Lpm Model.Rearranger Model.Location Model.Ecs.
From DnsV Require Import Model.Compile Spec.MapOfLists.
From DnsV Require Import Proofs.MultiValue Proofs.MapOfLists Proofs.Batch.
From DnsV Require Import Proofs.Lpm Proofs.Location Proofs.Rearranger Proofs.RdbLocate Proofs.SquashKeys.
From DnsV Require Import Proofs.Ecs Proofs.LinkEcsLpm Proofs.LinkRdbDb.
From Coq Require Import Lia Permutation.
Open Scope N_scope.

(* a record with its value framed as one chunk *)
Definition frame (e : bytes * bytes) : bytes * bytes := (fst e, mv1 (snd e)).

Lemma vals_of_frame : forall k l, vals_of k (map frame l) = map mv1 (vals_of k l).
Proof.
  induction l as [|[k0 v0] r IH]; [reflexivity|].
  cbn [map]. unfold frame at 1. cbn [fst snd]. rewrite !vals_of_cons, IH.
  destruct (bytes_eqb k0 k); reflexivity.
Qed.

Lemma concat_mv1 : forall vs, concat (map mv1 vs) = encode vs.
Proof. induction vs as [|v r IH]; [reflexivity|]. cbn [map concat encode]. rewrite IH. reflexivity. Qed.

Lemma keys_frame : forall l, map fst (map frame l) = map fst l.
Proof. intro l. rewrite map_map. reflexivity. Qed.

Lemma vals_of_nonempty_key : forall k l, vals_of k l <> [] <-> In k (map fst l).
Proof.
  intros k l. split.
  - intro H. destruct (vals_of k l) as [|v r] eqn:E; [contradiction|].
    assert (Hin : In (k, v) l) by (apply vals_of_In; rewrite E; left; reflexivity).
    change k with (fst (k, v)). apply in_map. exact Hin.
  - intros H E. apply in_map_iff in H. destruct H as [[k' v] [Ek Hin]]. cbn in Ek. subst k'.
    apply (proj1 (vals_of_nil_iff k l) E v Hin).
Qed.

(* ---------------------------------------------------------------- merge_dups groups by key *)

Lemma filter_length_le : forall {A} (p : A -> bool) l, (length (filter p l) <= length l)%nat.
Proof. induction l as [|x l IH]; cbn; [lia|]. destruct (p x); cbn; lia. Qed.

Lemma merge_dups_spec : forall fuel db, (length db <= fuel)%nat -> forall k v,
  In (k, v) (merge_dups fuel db) <-> In k (map fst db) /\ v = concat (vals_of k db).
Proof.
  induction fuel as [|fuel IH]; intros db Hl k v.
  - destruct db; [|inversion Hl]. cbn. tauto.
  - destruct db as [|[k0 v0] r]; [cbn; tauto|].
    cbn [merge_dups]. cbn [length] in Hl.
    set (rest := filter (fun e => negb (bytes_eqb (fst e) k0)) r).
    assert (Hrl : (length rest <= fuel)%nat).
    { pose proof (filter_length_le (fun e => negb (bytes_eqb (fst e) k0)) r). unfold rest.
      eapply Nat.le_trans; [exact H|]. apply le_S_n. exact Hl. }
    specialize (IH rest Hrl k v).
    assert (Hsame : map snd (filter (fun e => bytes_eqb (fst e) k0) r) = vals_of k0 r) by reflexivity.
    rewrite Hsame.
    assert (Hrest_in : forall x, In x (map fst rest) <-> In x (map fst r) /\ x <> k0).
    { intro x. unfold rest. rewrite !in_map_iff. split.
      - intros [e [E H]]. apply filter_In in H. destruct H as [H1 H2]. split; [eauto|].
        apply Bool.negb_true_iff, Proofs.MultiValue.bytes_eqb_neq in H2. congruence.
      - intros [[e [E H]] NE]. exists e. split; [exact E|]. apply filter_In. split; [exact H|].
        apply Bool.negb_true_iff, Proofs.MultiValue.bytes_eqb_neq. congruence. }
    cbn [In map fst]. rewrite vals_of_cons.
    destruct (bytes_eqb k0 k) eqn:Ek.
    + apply Proofs.MultiValue.bytes_eqb_eq in Ek. subst k0. cbn [concat]. split.
      * intros [H|H]; [inversion H; subst; auto|].
        apply IH in H. destruct H as [H _]. apply Hrest_in in H. destruct H as [_ H]. contradiction.
      * intros [_ ->]. left. reflexivity.
    + assert (NE : k <> k0) by (apply Proofs.MultiValue.bytes_eqb_neq in Ek; congruence).
      assert (Hv : vals_of k rest = vals_of k r) by (apply (vals_of_other k0 k r NE)).
      rewrite IH, Hrest_in, Hv. split.
      * intros [H|[[H1 _] H2]]; [inversion H; subst; contradiction|]. auto.
      * intros [[H|H] H2]; [subst; contradiction|]. right. auto.
Qed.

(* merging the framed records groups them by key *)
Lemma merge_dups_grouped : forall R, grouped R (merge_dups (length (map frame R)) (map frame R)).
Proof.
  intro R. split.
  - intros k v H. apply merge_dups_spec in H; [|apply Nat.le_refl]. destruct H as [Hk ->].
    rewrite keys_frame in Hk. exists (vals_of k R). split; [apply vals_of_nonempty_key; exact Hk|].
    split; [apply Permutation_refl|]. rewrite vals_of_frame. apply concat_mv1.
  - intros k NE. exists (vals_of k R). split; [apply Permutation_refl|].
    apply merge_dups_spec; [apply Nat.le_refl|]. rewrite keys_frame. split; [apply vals_of_nonempty_key; exact NE|].
    rewrite vals_of_frame. symmetry. apply concat_mv1.
Qed.

(* ---------------------------------------------------------------- the records of rdb_db *)

Lemma rp_kvs_maps_accum : forall sort f ids,
  rp_kvs_maps sort f ids = match rp_accum sort (nets_of f) ids with Ok a => Ok (map frame a) | Err e => Err e end.
Proof.
  induction ids as [|m ids IH]; [reflexivity|].
  cbn [rp_kvs_maps rp_accum]. destruct (rearrange sort (nets_of f m)) as [pts|e]; [|reflexivity].
  cbn [rbind]. rewrite IH. destruct (rp_accum sort (nets_of f) ids) as [a|e]; [|reflexivity].
  cbn [rbind]. rewrite map_app. unfold rp_recs. rewrite map_map. reflexivity.
Qed.

(* unframed map records *)
Lemma map_kvs_unframe : forall v2 ms kvs, map_kvs v2 true ms = Some kvs ->
  exists raw, kvs = map frame raw /\
    forall k v, In (k, v) raw -> exists ml x, In ml ms /\ k = [0; ml_kind ml] ++ x.
Proof.
  induction ms as [|ml ms IH]; intros kvs E.
  - cbn in E. inversion E. exists []. split; [reflexivity|]. intros k v [].
  - cbn [map_kvs] in E. destruct (map_key v2 ml) as [k0|] eqn:Ek; [|discriminate E].
    destruct (map_kvs v2 true ms) as [r|] eqn:Er; [|discriminate E]. inversion E. subst kvs.
    destruct (IH r eq_refl) as [raw [-> Hraw]].
    exists ((k0, mapid_bytes (ml_id ml)) :: raw). split; [reflexivity|].
    intros k v [H|H].
    + inversion H; subst. unfold map_key in Ek. destruct v2.
      * destruct (rev_name (ml_name ml)) as [rn|]; [|discriminate Ek]. inversion Ek. exists ml. eexists. split; [left; reflexivity|reflexivity].
      * inversion Ek. exists ml. eexists. split; [left; reflexivity|reflexivity].
    + destruct (Hraw k v H) as [ml' [x [H1 H2]]]. exists ml', x. split; [right; exact H1|exact H2].
Qed.

Theorem rdb_db_holds_points : forall sort v2 f db, sort_spec sort -> wf_kinds f = true ->
  (forall m, wf_subnets (nets_of f m)) -> rdb_db sort v2 f = Ok db ->
  rdb_holds_points sort (nets_of f) db.
Proof.
  intros sort v2 f db Hsort Hk Hw E. unfold rdb_db in E.
  destruct (map_kvs v2 true (f_maps f)) as [ms|] eqn:Em; [|discriminate E].
  rewrite rp_kvs_maps_accum in E. fold (file_ids f) in E.
  destruct (rp_accum sort (nets_of f) (file_ids f)) as [acc|e] eqn:Ea; [|discriminate E].
  cbn [rbind] in E. cbv zeta in E.
  assert (Inj : forall x y : list (bytes * bytes), Ok x = (Ok y : result (list (bytes * bytes))) -> x = y)
    by (intros x y H; injection H; auto).
  apply Inj in E. subst db. clear Inj.
  destruct (map_kvs_unframe v2 (f_maps f) ms Em) as [raw [-> Hraw]].
  set (fv := [if v2 then 2 else 1; 0; 0; 0] : bytes).
  set (rest := (features_key, fv) :: raw).
  set (R := rest ++ acc).
  assert (ER : (features_key, mv1 fv) :: map frame raw ++ map frame acc = map frame R).
  { unfold R, rest. rewrite map_app. reflexivity. }
  match goal with |- rdb_holds_points _ _ (merge_dups (length ?l) ?l) =>
    replace l with (map frame R) by (symmetry; exact ER) end.
  apply (grouped_holds_points sort Hsort (nets_of f) Hw (file_ids f) (file_ids_nodup f) (file_ids_cover f)
           acc rest R Ea).
  - unfold R. apply Permutation_app_comm.
  - intros k v [H|H].
    + inversion H; subst. reflexivity.
    + destruct (Hraw k v H) as [ml [x [H1 ->]]].
      unfold wf_kinds in Hk. rewrite forallb_forall in Hk. specialize (Hk ml H1).
      unfold is_rp_key, rp_marker. cbn [app is_prefix].
      apply Bool.orb_true_iff in Hk. destruct Hk as [Hk|Hk]; apply N.eqb_eq in Hk; rewrite Hk; reflexivity.
  - apply merge_dups_grouped.
Qed.

(* GetLocationByMap of the RocksDB backend (both key layouts share the range points) on
   the database compiled from the data file is longest-prefix match *)
Theorem rdb_file_is_lpm : forall sort v2 f m db a bits ones plen, sort_spec sort ->
  wf_kinds f = true -> (forall m', wf_subnets (nets_of f m')) -> rdb_db sort v2 f = Ok db ->
  a < two128 -> client_plen a bits ones plen ->
  rdb_get_location db m (mkClient (Some a) bits ones) =
  Ok (lpm_result (lpm (nets_of f m) (fam (clean_mask a plen)) (clean_mask a plen) plen)).
Proof.
  intros sort v2 f m db a bits ones plen Hsort Hk Hw E Ha Hc.
  destruct (rdb_db_holds_points sort v2 f db Hsort Hk Hw E m) as [pts [Ep [Hhas Honly]]].
  exact (rdb_driver_is_lpm sort Hsort _ (Hw m) pts Ep db m Hhas Honly a bits ones plen Ha Hc).
Qed.

(* rdb_db does not fail on such a file when the map names can be reversed (v2) *)
Lemma rdb_db_total_v1 : forall sort f, sort_spec sort -> (forall m, wf_subnets (nets_of f m)) ->
  exists db, rdb_db sort false f = Ok db.
Proof.
  intros sort f Hsort Hw. unfold rdb_db.
  assert (Hm : exists ms, map_kvs false true (f_maps f) = Some ms).
  { induction (f_maps f) as [|ml l [ms IH]]; [eexists; reflexivity|]. cbn [map_kvs map_key]. rewrite IH. eexists. reflexivity. }
  destruct Hm as [ms ->]. rewrite rp_kvs_maps_accum.
  destruct (rp_accum_total sort Hsort _ Hw (dedup_ids (map nl_map (f_nets f)))) as [acc ->].
  cbn [rbind]. eexists. reflexivity.
Qed.

(* ---------------------------------------------------------------- C10 on the RocksDB database of a data file *)

Theorem scope_truthful_rdb_file : forall sort v2 f db fm8 fmM, sort_spec sort ->
  wf_kinds f = true -> (forall m, wf_subnets (nets_of f m)) -> rdb_db sort v2 f = Ok db ->
  forall ev q r e mo8 moM rip,
  fm8 = Ok mo8 -> fmM = Ok moM -> q_rip q = Some rip -> rip < two128 ->
  badvers q = false -> no_backend_error ev ->
  query_ecs q = Some e -> wf_ecs e ->
  serve fm8 fmM (rdb_get_location db) ev q = Reply r ->
  exists e', reply_ecs r = Some e' /\
    e_scope e' = expected_scope (nets_of f) (map_of mo8) e /\
    (e_fam e = 1 -> e_scope e' <= 32) /\ (e_fam e = 2 -> e_scope e' <= 128).
Proof.
  intros sort v2 f db fm8 fmM Hs Hk Hw E.
  exact (scope_truthful_rdb sort (nets_of f) db fm8 fmM Hs Hw (rdb_db_holds_points sort v2 f db Hs Hk Hw E)).
Qed.

Theorem fallback_to_resolver_rdb_file : forall sort v2 f db fm8 fmM, sort_spec sort ->
  wf_kinds f = true -> (forall m, wf_subnets (nets_of f m)) -> rdb_db sort v2 f = Ok db ->
  forall ev q r mo8 moM rip,
  fm8 = Ok mo8 -> fmM = Ok moM -> q_rip q = Some rip -> rip < two128 ->
  badvers q = false -> no_backend_error ev ->
  (forall e, query_ecs q = Some e -> wf_ecs e) ->
  serve fm8 fmM (rdb_get_location db) ev q = Reply r ->
  r_loc r = match query_ecs q with
            | Some e => if id_eqb (ecs_decides (nets_of f) (map_of mo8) e) (0, 0)
                        then resolver_decides (nets_of f) (map_of moM) rip
                        else ecs_decides (nets_of f) (map_of mo8) e
            | None => resolver_decides (nets_of f) (map_of moM) rip
            end.
Proof.
  intros sort v2 f db fm8 fmM Hs Hk Hw E.
  exact (fallback_to_resolver_rdb sort (nets_of f) db fm8 fmM Hs Hw (rdb_db_holds_points sort v2 f db Hs Hk Hw E)).
Qed.

(* ---------------------------------------------------------------- outside the guard (finding F20) *)

(* ::/1 together with 255.0.0.0/8 (which ends where the v4-mapped block ends): Rearrange
   returns the null point at ::1:0:0:0 twice - two range points share one key *)
Theorem rearrange_keys_distinct_refuted :
  exists S pts, wf_but_overlap S = true /\ rearrange isort S = Ok pts /\
    ~ NoDup (map (fun p => (p_ip p, rp_mlen p)) pts).
Proof.
  exists [mkSubnet 0 1 (0, 1); mkSubnet (after_v4 - 2 ^ 24) 104 (1, 6)]. eexists.
  split; [vm_compute; reflexivity|]. split; [vm_compute; reflexivity|].
  intro H. vm_compute in H.
  do 4 (apply NoDup_cons_iff in H; destruct H as [_ H]).
  apply NoDup_cons_iff in H. destruct H as [H _]. apply H. left. reflexivity.
Qed.

(* ... and the compiled record under that key holds two chunks: GetLocationByMap fails
   (Invalid location length) for a client that longest-prefix match places in ::/1 *)
Theorem rdb_file_is_lpm_refuted :
  exists f m db a, wf_kinds f = true /\ wf_but_overlap (nets_of f m) = true /\ rdb_db isort false f = Ok db /\
    a < two128 /\
    rdb_get_location db m (mkClient (Some a) 128 128) = Err 2 /\
    lpm (nets_of f m) (fam a) a 128 = Some ((0, 1), 1).
Proof.
  exists (mkDfile [] [mkNetline (0, 7) (mkSubnet 0 1 (0, 1)); mkNetline (0, 7) (mkSubnet (after_v4 - 2 ^ 24) 104 (1, 6))]),
         (0, 7).
  eexists. exists (after_v4 + 5).
  split; [reflexivity|]. split; [vm_compute; reflexivity|]. split; [vm_compute; reflexivity|].
  split; [vm_compute; reflexivity|]. split; vm_compute; reflexivity.
Qed.
