(* V2Sim (C02): the closest-key walk of the v2 reader computes what the label-by-label loops of
   the v1 reader compute.
     walk_auth / walk_fa : the label-by-label loops of DataReader.IsAuthoritative / FindAnswer as
                           structural recursion over the name (one label per step);
     v1_auth_walk, v1_fa_walk : the v1 reader IS that recursion;
     au_sim, fa_sim      : the cache-free v2 walk (find_loop_pure with the closures of
                           sortedDataReader.IsAuthoritative / FindAnswer) lands on the same result,
                           skipping only names that have no key under any location.
   v1 store: store_v1 recs.  v2 store: ANY st2 with v2_store recs st2 (in particular store_v2 recs). *)
From DnsV Require Import Base.Bytes Model.Store Model.LookupV1 Model.LookupV2 Spec.Answer Spec.Rows.
From DnsV Require Import Proofs.Answer Proofs.Compile Proofs.ZoneCut Proofs.NxDomain Proofs.Store Proofs.Ctx Proofs.CtxFind.
From DnsV Require Import Proofs.Reverse Proofs.RevOrder Proofs.V2Funcs Proofs.SeekSkip Proofs.V2Store.
From Coq Require Import ZifyN ZifyNat ZifyBool.
Open Scope N_scope.

(* ---------------------------------------------------------------- the closures of the v2 reader, named *)
Definition auth_parse : cb auth2_state := fun s r =>
  let '(ns, auth, z) := s in
  let '((ns', auth'), stt) := auth_cb (ns, auth) r in ((ns', auth', z), stt).
Definition auth_pre := fun (s : auth2_state) (_ : bytes) (qlen : N) =>
  let '(ns, auth, _) := s in @Val (auth2_state * bool) ((ns, auth, qlen), true).
Definition auth_post := fun (s : auth2_state) => let '(ns, _, _) := s in (s, negb ns).

Lemma is_authoritative_v2_eq : forall st c q loc,
  is_authoritative_v2 st c q loc =
  ('(s, c1) <- find st auth2_state auth_parse auth_pre auth_post q loc (false, false, 0) c ;;
   let '(ns, auth, z) := s in
   if nlen q <? z then Panic else
   zc <- slice_from q (nlen q - z) ;;
   Val (mkAuth ns auth zc false, c1)).
Proof. reflexivity. Qed.

Definition fa_parse (qname : bytes) (qtype : N) : cb fa2_state := fun s r =>
  let '(fs, wild, last) := s in
  let '(fs', stt) := fa_cb qname qtype wild fs r in ((fs', wild, last), stt).
Definition fa_pre (ctrl : bytes) := fun (s : fa2_state) (rev : bytes) (len : N) =>
  let '(fs, wild, last) := s in
  if len <? nlen ctrl then Val (s, false) else
  ok <- pre_fa_loop (S (length rev)) rev len last ;;
  if ok then Val ((fs, wild, len), true) else Val (s, false).
Definition fa_post := fun (s : fa2_state) =>
  let '(fs, wild, last) := s in
  if snd fs then (s, false) else ((fs, true, last), true).

Lemma find_answer_v2_eq : forall st c q ctrl qname qtype loc max,
  find_answer_v2 st c q ctrl qname qtype loc max =
  ('(s, c1) <- find st fa2_state (fa_parse qname qtype) (fa_pre ctrl) fa_post q loc ((wrs_empty, [], false), false, nlen q) c ;;
   let '(fs, _, _) := s in
   let '(an, found) := fa_finish qname max fs in
   Val (an, found, c1)).
Proof. reflexivity. Qed.

Lemma iter_auth_parse : forall rows ns auth z,
  iter_rows auth_parse rows (ns, auth, z) =
  (fst (fst (iter_rows auth_cb rows (ns, auth))), snd (fst (iter_rows auth_cb rows (ns, auth))), z,
   snd (iter_rows auth_cb rows (ns, auth))).
Proof.
  induction rows as [|r t IH]; intros ns auth z; [reflexivity|]. cbn [iter_rows].
  unfold auth_parse at 1. destruct (auth_cb (ns, auth) r) as [[ns' auth'] stt].
  destruct stt; [apply IH | reflexivity | reflexivity].
Qed.
Lemma iter_fa_parse : forall qname qtype rows fs wild last,
  iter_rows (fa_parse qname qtype) rows (fs, wild, last) =
  (fst (iter_rows (fa_cb qname qtype wild) rows fs), wild, last, snd (iter_rows (fa_cb qname qtype wild) rows fs)).
Proof.
  induction rows as [|r t IH]; intros fs wild last; [reflexivity|]. cbn [iter_rows].
  unfold fa_parse at 1. destruct (fa_cb qname qtype wild fs r) as [fs' stt].
  destruct stt; [apply IH | reflexivity | reflexivity].
Qed.

(* ---------------------------------------------------------------- names, suffixes, lengths *)
Lemma nlen_body_nil : nlen (body []) = 0.
Proof. reflexivity. Qed.
Lemma nlen_body_rev : forall m : name, nlen (body (rev m)) = nlen (body m).
Proof.
  induction m as [|l m IH]; [reflexivity|]. cbn [rev]. rewrite nlen_body_app, !nlen_body_cons, IH, nlen_body_nil. lia.
Qed.
Lemma nlen_one : nlen [0] = 1.
Proof. reflexivity. Qed.
Lemma nlen_pack_rev : forall m : name, nlen (pack m) = nlen (body (rev m)) + 1.
Proof. intros m. rewrite pack_body, nlen_app, nlen_body_rev, nlen_one. reflexivity. Qed.
Lemma nlen_pack_app : forall z x : name, nlen (pack (z ++ x)) = nlen (body z) + nlen (pack x).
Proof. intros. rewrite !pack_body, body_app, !nlen_app. lia. Qed.
Lemma pack_app : forall z x : name, pack (z ++ x) = body z ++ pack x.
Proof. intros. rewrite !pack_body, body_app, app_assoc. reflexivity. Qed.
Lemma nlen_body_pos : forall z, name_ok z -> z <> [] -> 1 <= nlen (body z).
Proof.
  intros z Hz Hne. destruct z as [|l z]; [contradiction|]. rewrite nlen_body_cons. lia.
Qed.

Lemma forallb_rev : forall {A} (f : A -> bool) l, forallb f (rev l) = forallb f l.
Proof.
  induction l as [|x l IH]; [reflexivity|]. cbn [rev forallb]. rewrite forallb_app, IH. cbn [forallb].
  rewrite andb_true_r. apply andb_comm.
Qed.

Section Sim.
Variable b : backend.
Variable recs : list record.
Variable L : bytes.
Variable st2 : store.
Hypothesis W : wf_recs recs.
Hypothesis HL : length L = 2%nat.
Hypothesis V2 : v2_store recs st2.
Let st1 := store_v1 recs.
Let U := v2_uniq recs st2 V2.
Let KS := v2_keys recs st2 V2.

Lemma rows_eq : forall m loc, name_ok m -> length loc = 2%nat ->
  get st2 (bkey (rev m) loc) = get st1 (loc ++ pack m).
Proof. intros. apply rows_v2_v1; assumption. Qed.

Lemma keyless_rows : forall x loc, name_ok x -> length loc = 2%nat -> keyless st2 (rev x) ->
  get st1 (loc ++ pack x) = [].
Proof. intros x loc Hx Hl K. rewrite <- rows_eq by assumption. apply keyless_get. exact K. Qed.

Lemma fe_nil : forall {S} key (f : cb S) s, get st1 key = [] -> for_each_v1 b st1 key f s = (s, false).
Proof. intros. unfold for_each_v1. rewrite H. reflexivity. Qed.

(* ================================================================ IsAuthoritative *)
Definition kns (key : bytes) : bool :=
  existsb (fun r => negb (r_wild r) && (r_type r =? 2)) (filter (fun r => bytes_eqb (key_v1 r) key) recs).
Definition ksoa (key : bytes) : bool :=
  existsb (fun r => negb (r_wild r) && (r_type r =? 6)) (filter (fun r => bytes_eqb (key_v1 r) key) recs).

Lemma iter_auth_key : forall key ns auth,
  iter_rows auth_cb (get st1 key) (ns, auth) = ((ns || kns key, auth || ksoa key), Cont).
Proof.
  intros. unfold st1, store_v1. rewrite get_store_of, rows_for_v1, iter_auth_rows; [reflexivity|].
  apply Forall_filter. exact W.
Qed.
Lemma fe_auth : forall key ns auth,
  for_each_v1 b st1 key auth_cb (ns, auth) = ((ns || kns key, auth || ksoa key), false).
Proof. intros. unfold for_each_v1. rewrite iter_auth_key. reflexivity. Qed.

Definition scan_auth (m : name) (s : bool * bool) : bool * bool :=
  let s1 := if is_loc0 L then s else fst (for_each_v1 b st1 (L ++ pack m) auth_cb s) in
  fst (for_each_v1 b st1 (loc0 ++ pack m) auth_cb s1).

Lemma scan_auth_eq : forall m ns auth,
  scan_auth m (ns, auth) =
  (ns || (if is_loc0 L then false else kns (L ++ pack m)) || kns (loc0 ++ pack m),
   auth || (if is_loc0 L then false else ksoa (L ++ pack m)) || ksoa (loc0 ++ pack m)).
Proof.
  intros. unfold scan_auth. destruct (is_loc0 L).
  - rewrite fe_auth. cbn [fst]. rewrite !orb_false_r. reflexivity.
  - rewrite fe_auth. cbn [fst]. rewrite fe_auth. reflexivity.
Qed.

Definition no_ns (m : name) : Prop := fst (scan_auth m (false, false)) = false.
Lemma scan_auth_ns_indep : forall m a, fst (scan_auth m (false, a)) = fst (scan_auth m (false, false)).
Proof. intros. rewrite !scan_auth_eq. reflexivity. Qed.

(* one iteration of the v1 loop *)
Lemma auth_step2 : forall m ns auth,
  let '(ns1, auth1, e1) :=
      if is_loc0 L then (ns, auth, false) else for_each_v1 b st1 (L ++ pack m) auth_cb (ns, auth) in
  e1 = false /\
  let '(ns2, auth2, e2) :=
      if auth1 && ns1 then (ns1, auth1, false) else for_each_v1 b st1 (loc0 ++ pack m) auth_cb (ns1, auth1) in
  e2 = false /\ (ns2, auth2) = scan_auth m (ns, auth).
Proof.
  intros m ns auth. rewrite scan_auth_eq. destruct (is_loc0 L).
  - split; [reflexivity|]. destruct (auth && ns) eqn:E.
    + apply andb_prop in E as [-> ->]. split; reflexivity.
    + rewrite fe_auth. split; [reflexivity|]. rewrite !orb_false_r. reflexivity.
  - rewrite fe_auth. split; [reflexivity|].
    destruct ((auth || ksoa (L ++ pack m)) && (ns || kns (L ++ pack m))) eqn:E.
    + apply andb_prop in E as [E1 E2]. split; [reflexivity|]. rewrite E1, E2. reflexivity.
    + rewrite fe_auth. split; reflexivity.
Qed.

Fixpoint walk_auth (m : name) (auth : bool) : bool * bool * name :=
  let '(ns', auth') := scan_auth m (false, auth) in
  if ns' then (true, auth', m)
  else match m with [] => (false, auth', []) | _ :: p => walk_auth p auth' end.

Lemma walk_auth_eq : forall m auth,
  walk_auth m auth =
  if fst (scan_auth m (false, auth)) then (true, snd (scan_auth m (false, auth)), m)
  else match m with [] => (false, snd (scan_auth m (false, auth)), []) | _ :: p => walk_auth p (snd (scan_auth m (false, auth))) end.
Proof. intros. destruct m; cbn [walk_auth]; destruct (scan_auth _ (false, auth)) as [x y]; reflexivity. Qed.

(* the v1 reader is the label-by-label recursion *)
Lemma v1_auth_walk : forall m fuel auth, name_ok m -> (length (pack m) < fuel)%nat ->
  is_auth_v1 b st1 fuel (pack m) L false auth =
    Val (mkAuth (fst (fst (walk_auth m auth))) (snd (fst (walk_auth m auth))) (pack (snd (walk_auth m auth))) false).
Proof.
  induction m as [|l p IH]; intros fuel auth Hm Hf; (destruct fuel as [|fuel]; [lia|]); cbn [is_auth_v1].
  - pose proof (auth_step2 [] false auth) as H.
    destruct (if is_loc0 L then (false, auth, false) else for_each_v1 b st1 (L ++ pack []) auth_cb (false, auth)) as [[ns1 auth1] e1].
    destruct H as [-> H].
    destruct (if auth1 && ns1 then (ns1, auth1, false) else for_each_v1 b st1 (loc0 ++ pack []) auth_cb (ns1, auth1)) as [[ns2 auth2] e2].
    destruct H as (-> & H). rewrite walk_auth_eq, <- H. cbn [fst snd].
    destruct ns2; reflexivity.
  - pose proof (auth_step2 (l :: p) false auth) as H.
    destruct (if is_loc0 L then (false, auth, false) else for_each_v1 b st1 (L ++ pack (l :: p)) auth_cb (false, auth)) as [[ns1 auth1] e1].
    destruct H as [-> H].
    destruct (if auth1 && ns1 then (ns1, auth1, false) else for_each_v1 b st1 (loc0 ++ pack (l :: p)) auth_cb (ns1, auth1)) as [[ns2 auth2] e2].
    destruct H as (-> & H). rewrite walk_auth_eq, <- H. cbn [fst snd].
    destruct ns2; [reflexivity|].
    inversion Hm as [|? ? Hl Hp]; subst. unfold lab_ok in Hl.
    rewrite pack_cons. cbn [app]. unfold idx. cbn [N.to_nat nth_error bind].
    assert (Ez : (nlen l =? 0) = false) by lia. rewrite Ez.
    assert (Hb8 : b8 (1 + nlen l) = 1 + nlen l) by (unfold b8; apply N.mod_small; lia). rewrite Hb8.
    change (nlen l :: l ++ pack p) with ((nlen l :: l) ++ pack p).
    rewrite (slice_from_app (nlen l :: l) (pack p)) by (rewrite nlen_cons; reflexivity). cbn [bind].
    apply IH; [exact Hp|]. rewrite pack_cons, app_length in Hf. cbn [length] in Hf. lia.
Qed.

(* names without keys are transparent for the recursion *)
Lemma scan_auth_keyless : forall x s, name_ok x -> keyless st2 (rev x) -> scan_auth x s = s.
Proof.
  intros x s Hx K. unfold scan_auth.
  rewrite (fe_nil (loc0 ++ pack x)) by (apply keyless_rows; auto).
  destruct (is_loc0 L); [reflexivity|]. rewrite (fe_nil (L ++ pack x)) by (apply keyless_rows; auto). reflexivity.
Qed.

Lemma walk_auth_stretch : forall mid m' auth, name_ok mid ->  name_ok m' ->
  (forall m1 m2, mid = m1 ++ m2 -> m2 <> [] -> keyless st2 (rev (m2 ++ m'))) ->
  walk_auth (mid ++ m') auth = walk_auth m' auth.
Proof.
  induction mid as [|l mid IH]; intros m' auth Hmid Hm' K; [reflexivity|].
  cbn [app]. rewrite walk_auth_eq.
  assert (Hx : name_ok (l :: mid ++ m')) by (apply (name_ok_app (l :: mid) m'); split; assumption).
  rewrite (scan_auth_keyless (l :: mid ++ m') (false, auth) Hx (K [] (l :: mid) eq_refl ltac:(discriminate))).
  cbn [fst snd]. inversion Hmid; subst. apply IH; auto.
  intros m1 m2 E N. apply (K (l :: m1) m2); [rewrite E; reflexivity | exact N].
Qed.

Lemma walk_auth_all_keyless : forall p auth, name_ok p ->
  (forall z x, p = z ++ x -> keyless st2 (rev x)) -> walk_auth p auth = (false, auth, []).
Proof.
  induction p as [|l p IH]; intros auth Hp K; rewrite walk_auth_eq.
  - rewrite (scan_auth_keyless [] (false, auth) Hp (K [] [] eq_refl)). reflexivity.
  - rewrite (scan_auth_keyless (l :: p) (false, auth) Hp (K [] (l :: p) eq_refl)). cbn [fst snd].
    inversion Hp; subst. apply IH; auto. intros z x E. apply (K (l :: z) x). rewrite E. reflexivity.
Qed.

(* when no NS is found the v1 walk ends at the root, which then has no visible NS either *)
Lemma walk_auth_false : forall m auth, fst (fst (walk_auth m auth)) = false ->
  snd (walk_auth m auth) = [] /\ no_ns [].
Proof.
  induction m as [|l p IH]; intros auth H; rewrite walk_auth_eq in *.
  - destruct (fst (scan_auth [] (false, auth))) eqn:E; cbn [fst snd] in *; [discriminate|].
    split; [reflexivity|]. unfold no_ns. rewrite <- (scan_auth_ns_indep [] auth). exact E.
  - destruct (fst (scan_auth (l :: p) (false, auth))) eqn:E; cbn [fst snd] in *; [discriminate|].
    apply IH. exact H.
Qed.

(* ---------------------------------------------------------------- the v2 walk, name level *)
Section Walk2.
Variable n : name.                       (* the queried name *)
Hypothesis Hn : name_ok n.
Hypothesis Hnl : nlen (pack n) <= 255.
Let rn := rev n.
Let RV := body rn ++ [0].

Lemma Hrn : name_ok rn.
Proof. apply name_ok_rev. exact Hn. Qed.
Lemma Hrl : nlen (body rn) + 1 <= 255.
Proof. unfold rn. rewrite <- nlen_pack_rev. exact Hnl. Qed.

Section Gen.
Variable P : Type.
Variable parse : cb P.
Variable pre : P -> bytes -> N -> res (P * bool).
Variable post : P -> P * bool.

Definition next_names (f : nat) (m : name) (kb3 : bytes) (nxt : P -> res P) : Prop :=
  ((forall p4, nxt p4 = Val p4) /\ (forall z x, m = z ++ x -> z <> [] -> keyless st2 (rev x))) \/
  (exists mid m', m = mid ++ m' /\ mid <> [] /\
     (forall m1 m2, mid = m1 ++ m2 -> m1 <> [] -> m2 <> [] -> keyless st2 (rev (m2 ++ m'))) /\
     buf_ok kb3 (2 + (nlen (body (rev m)) + 1) + 2) (body (rev m')) /\
     forall p4, nxt p4 = find_loop_pure st2 P parse pre post f RV L kb3 (2 + (nlen (body (rev m)) + 1) + 2) (nlen (body (rev m')) + 1) p4).

Lemma find_iter_names : forall f pfx m kbuf klen p p1,
  n = pfx ++ m -> buf_ok kbuf klen (body (rev m)) ->
  pre p RV (nlen (body (rev m)) + 1) = Val (p1, true) ->
  exists kb3 nxt,
    find_loop_pure st2 P parse pre post (S f) RV L kbuf klen (nlen (body (rev m)) + 1) p =
      (if snd (scan2 st2 P parse L (rev m) p1) then Val (fst (scan2 st2 P parse L (rev m) p1))
       else let '(p4, go) := post (fst (scan2 st2 P parse L (rev m) p1)) in if negb go then Val p4 else nxt p4) /\
    (snd (scan2 st2 P parse L (rev m) p1) = false -> next_names f m kb3 nxt).
Proof.
  intros f pfx m kbuf klen p p1 En Hb Hpre.
  assert (Ern : rn = rev m ++ rev pfx) by (unfold rn; rewrite En, rev_app_distr; reflexivity).
  destruct (find_iter st2 U KS P parse pre post rn Hrn Hrl L HL f (rev m) (rev pfx) kbuf klen p p1 Ern Hb Hpre)
    as (kb3 & nxt & E1 & E2).
  exists kb3, nxt. split; [exact E1|]. intros Hs. specialize (E2 Hs).
  destruct E2 as [[A1 A2]|(r' & midr & B1 & B2 & B3 & B4 & B5)].
  - left. split; [exact A1|]. intros z x E Hz. apply (A2 (rev x) (rev z)).
    + rewrite E, rev_app_distr. reflexivity.
    + intros X. apply Hz. apply rev_inj. rewrite X. reflexivity.
  - right. exists (rev midr), (rev r').
    assert (Em : m = rev midr ++ rev r').
    { apply rev_inj. rewrite rev_app_distr, !rev_involutive. exact B1. }
    split; [exact Em|]. split; [intros X; apply B2; apply rev_inj; rewrite X; reflexivity|].
    rewrite rev_involutive. split; [|split; [exact B4 | exact B5]].
    intros m1 m2 E N1 N2. rewrite rev_app_distr, rev_involutive. apply (B3 (rev m2) (rev m1)).
    + apply rev_inj. rewrite rev_app_distr, !rev_involutive. exact E.
    + intros X. apply N2. apply rev_inj. rewrite X. reflexivity.
    + intros X. apply N1. apply rev_inj. rewrite X. reflexivity.
Qed.
End Gen.

(* ---------------------------------------------------------------- IsAuthoritative: v2 = recursion *)
Lemma scan1_auth : forall m loc ns auth z, name_ok m -> length loc = 2%nat ->
  scan1 st2 auth_parse (bkey (rev m) loc) (ns, auth, z) =
  ((ns || kns (loc ++ pack m), auth || ksoa (loc ++ pack m), z), false).
Proof.
  intros. unfold scan1. rewrite rows_eq by assumption. rewrite iter_auth_parse, iter_auth_key. reflexivity.
Qed.

Lemma scan2_auth : forall m ns auth z, name_ok m ->
  scan2 st2 auth2_state auth_parse L (rev m) (ns, auth, z) =
  ((fst (scan_auth m (ns, auth)), snd (scan_auth m (ns, auth)), z), false).
Proof.
  intros m ns auth z Hm. unfold scan2. rewrite scan_auth_eq. cbn [fst snd]. destruct (is_loc0 L).
  - rewrite scan1_auth by auto. rewrite !orb_false_r. reflexivity.
  - rewrite scan1_auth by auto. rewrite scan1_auth by auto. reflexivity.
Qed.

Lemma au_sim : forall k m, length m = k -> forall pfx f kbuf klen auth z,
  n = pfx ++ m -> (length m < f)%nat -> buf_ok kbuf klen (body (rev m)) ->
  exists z',
    find_loop_pure st2 auth2_state auth_parse auth_pre auth_post f RV L kbuf klen (nlen (body (rev m)) + 1) (false, auth, z) =
      Val (fst (fst (walk_auth m auth)), snd (fst (walk_auth m auth)), z') /\
    (fst (fst (walk_auth m auth)) = true -> z' = nlen (pack (snd (walk_auth m auth)))) /\
    (fst (fst (walk_auth m auth)) = false -> exists zz y, m = zz ++ y /\ z' = nlen (pack y) /\ no_ns y).
Proof.
  induction k as [k IHk] using lt_wf_ind. intros m Hk pfx f kbuf klen auth z En Hf Hb.
  destruct f as [|f]; [lia|].
  assert (Hm : name_ok m) by (rewrite En in Hn; apply name_ok_app in Hn; tauto).
  destruct (find_iter_names auth2_state auth_parse auth_pre auth_post f pfx m kbuf klen (false, auth, z)
              (false, auth, nlen (body (rev m)) + 1) En Hb eq_refl) as (kb3 & nxt & E1 & E2).
  rewrite E1. clear E1. rewrite scan2_auth in * by exact Hm. cbn [fst snd] in *. specialize (E2 eq_refl).
  rewrite walk_auth_eq.
  destruct (fst (scan_auth m (false, auth))) eqn:Ens; cbn [auth_post negb fst snd].
  - eexists. split; [reflexivity|]. split; [intros _; symmetry; apply nlen_pack_rev | discriminate].
  - assert (Hno : no_ns m) by (unfold no_ns; rewrite <- (scan_auth_ns_indep m auth); exact Ens).
    set (auth2 := snd (scan_auth m (false, auth))) in *. clearbody auth2. clear Ens.
    destruct E2 as [[A1 A2]|(mid & m' & B1 & B2 & B3 & B4 & B5)].
    + rewrite A1. exists (nlen (body (rev m)) + 1).
      assert (Wk : forall p, (exists l, m = l :: p) -> walk_auth p auth2 = (false, auth2, [])).
      { intros p [l E]. rewrite E in Hm. inversion Hm; subst. apply walk_auth_all_keyless; [assumption|].
        intros z0 x E'. apply (A2 (l :: z0) x); [rewrite E'; reflexivity | discriminate]. }
      assert (Hz : nlen (body (rev m)) + 1 = nlen (pack m)) by (symmetry; apply nlen_pack_rev).
      destruct m as [|l p].
      * cbn [fst snd]. split; [reflexivity|]. split; [discriminate|]. intros _.
        exists [], []. split; [reflexivity|]. split; [exact Hz | exact Hno].
      * rewrite (Wk p (ex_intro _ l eq_refl)). cbn [fst snd]. split; [reflexivity|]. split; [discriminate|]. intros _.
        exists [], (l :: p). split; [reflexivity|]. split; [exact Hz | exact Hno].
    + rewrite B5. destruct mid as [|l mid']; [contradiction|].
      assert (Hmm : name_ok (l :: mid') /\ name_ok m') by (rewrite B1 in Hm; apply (name_ok_app (l :: mid') m'); exact Hm).
      destruct Hmm as [Hmid Hm'].
      assert (Wk : walk_auth (mid' ++ m') auth2 = walk_auth m' auth2).
      { inversion Hmid; subst. apply walk_auth_stretch; auto.
        intros m1 m2 E N. apply (B3 (l :: m1) m2); [rewrite E; reflexivity | discriminate | exact N]. }
      assert (Hlen : (length m' < length m)%nat) by (rewrite B1, app_length; cbn [length]; lia).
      destruct (IHk (length m') ltac:(lia) m' eq_refl (pfx ++ l :: mid') f kb3 _ auth2 (nlen (body (rev m)) + 1)
                  ltac:(rewrite En, B1, <- app_assoc; reflexivity) ltac:(lia) B4) as (z' & I1 & I2 & I3).
      exists z'. clear IHk Hno Hb Hm Hlen En Hf Hk.
      destruct m as [|l0 p0]; [discriminate B1|]. cbn [app] in B1. injection B1 as -> ->. rewrite Wk.
      split; [exact I1|]. split; [exact I2|].
      intros X. destruct (I3 X) as (zz & y & Ey & Ez & Hy). exists ((l :: mid') ++ zz), y.
      split; [rewrite Ey, <- app_assoc; reflexivity | split; assumption].
Qed.

(* ================================================================ FindAnswer *)
Variable ctrl : bytes.
Variable qname : bytes.
Variable qtype : N.

Definition scan_fa (m : name) (wild : bool) (s : fa_state) : fa_state :=
  fst (for_each_v1 b st1 (loc0 ++ pack m) (fa_cb qname qtype wild)
         (if is_loc0 L then s else fst (for_each_v1 b st1 (L ++ pack m) (fa_cb qname qtype wild) s))).

Fixpoint walk_fa (m : name) (wild : bool) (s : fa_state) : fa_state :=
  let s2 := scan_fa m wild s in
  if snd s2 then s2 else
  if bytes_eqb (pack m) ctrl then s2 else
  match m with
  | [] => s2
  | l :: p => if negb (wildsafe l) then s2 else walk_fa p true s2
  end.
Lemma walk_fa_eq : forall m wild s,
  walk_fa m wild s =
  let s2 := scan_fa m wild s in
  if snd s2 then s2 else
  if bytes_eqb (pack m) ctrl then s2 else
  match m with
  | [] => s2
  | l :: p => if negb (wildsafe l) then s2 else walk_fa p true s2
  end.
Proof. intros. destruct m; reflexivity. Qed.

Lemma v1_fa_walk : forall m fuel wild s, name_ok m -> (length (pack m) < fuel)%nat ->
  find_ans_v1 b st1 fuel (pack m) ctrl qname qtype L wild s = Val (walk_fa m wild s).
Proof.
  induction m as [|l p IH]; intros fuel wild s Hm Hf; (destruct fuel as [|fuel]; [lia|]); cbn [find_ans_v1]; rewrite walk_fa_eq; cbv zeta;
    [fold (scan_fa [] wild s) | fold (scan_fa (l :: p) wild s)].
  - destruct (snd (scan_fa [] wild s)); [reflexivity|].
    destruct (bytes_eqb (pack []) ctrl); reflexivity.
  - destruct (snd (scan_fa (l :: p) wild s)); [reflexivity|].
    destruct (bytes_eqb (pack (l :: p)) ctrl); [reflexivity|].
    inversion Hm as [|? ? Hl Hp]; subst. unfold lab_ok in Hl.
    rewrite pack_cons. cbn [app]. unfold idx. cbn [N.to_nat nth_error bind].
    assert (Ez : (nlen l =? 0) = false) by lia. rewrite Ez.
    assert (Hb8 : b8 (nlen l + 1) = nlen l + 1) by (unfold b8; apply N.mod_small; lia). rewrite Hb8.
    change (nlen l :: l ++ pack p) with ([nlen l] ++ l ++ pack p).
    rewrite (slice_mid [nlen l] l (pack p)) by (unfold nlen; cbn [length]; lia). cbn [bind].
    destruct (negb (wildsafe l)); [reflexivity|].
    change ([nlen l] ++ l ++ pack p) with ((nlen l :: l) ++ pack p).
    rewrite (slice_from_app (nlen l :: l) (pack p)) by (rewrite nlen_cons; lia). cbn [bind].
    apply IH; [exact Hp|]. rewrite pack_cons, app_length in Hf. cbn [length] in Hf. lia.
Qed.

Lemma iter_fa_key : forall key wild s,
  snd (iter_rows (fa_cb qname qtype wild) (get st1 key) s) = Cont.
Proof.
  intros. destruct (rows_wf recs key W) as (rs & Hrs & E). fold st1 in E. rewrite E.
  destruct (iter_fa_rows qname qtype wild rs s Hrs) as (s' & E1 & _). rewrite E1. reflexivity.
Qed.

Lemma scan_fa_keyless : forall x wild s, name_ok x -> keyless st2 (rev x) -> scan_fa x wild s = s.
Proof.
  intros x wild s Hx K. unfold scan_fa.
  rewrite (fe_nil (loc0 ++ pack x)) by (apply keyless_rows; auto).
  destruct (is_loc0 L); [reflexivity|]. rewrite (fe_nil (L ++ pack x)) by (apply keyless_rows; auto). reflexivity.
Qed.

(* does the walk over the names mid ++ m' (mid not empty), ... , (last mid) :: m' meet the control name *)
Fixpoint hits (mid m' : name) : bool :=
  match mid with
  | [] => false
  | l :: mid' => bytes_eqb (pack (mid ++ m')) ctrl || hits mid' m'
  end.

Lemma walk_fa_stretch : forall mid m' s, name_ok mid -> name_ok m' -> snd s = false ->
  (forall m1 m2, mid = m1 ++ m2 -> m2 <> [] -> keyless st2 (rev (m2 ++ m'))) ->
  walk_fa (mid ++ m') true s = if hits mid m' || negb (forallb wildsafe mid) then s else walk_fa m' true s.
Proof.
  induction mid as [|l mid IH]; intros m' s Hmid Hm' Hs K; [reflexivity|].
  cbn [app]. rewrite walk_fa_eq. cbv zeta.
  assert (Hx : name_ok (l :: mid ++ m')) by (apply (name_ok_app (l :: mid) m'); split; assumption).
  rewrite (scan_fa_keyless (l :: mid ++ m') true s Hx (K [] (l :: mid) eq_refl ltac:(discriminate))).
  rewrite Hs. cbn [hits forallb app].
  destruct (bytes_eqb (pack (l :: mid ++ m')) ctrl); [reflexivity|]. cbn [orb].
  destruct (wildsafe l); cbn [negb andb]; [|rewrite orb_true_r; reflexivity].
  inversion Hmid; subst. apply IH; auto.
  intros m1 m2 E N. apply (K (l :: m1) m2); [rewrite E; reflexivity | exact N].
Qed.

Lemma walk_fa_all_keyless : forall p s, name_ok p -> snd s = false ->
  (forall z x, p = z ++ x -> keyless st2 (rev x)) -> walk_fa p true s = s.
Proof.
  induction p as [|l p IH]; intros s Hp Hs K; rewrite walk_fa_eq; cbv zeta.
  - rewrite (scan_fa_keyless [] true s Hp (K [] [] eq_refl)), Hs. destruct (bytes_eqb (pack []) ctrl); reflexivity.
  - rewrite (scan_fa_keyless (l :: p) true s Hp (K [] (l :: p) eq_refl)), Hs.
    destruct (bytes_eqb (pack (l :: p)) ctrl); [reflexivity|]. destruct (negb (wildsafe l)); [reflexivity|].
    inversion Hp; subst. apply IH; auto. intros z x E. apply (K (l :: z) x). rewrite E. reflexivity.
Qed.

(* the control name is the packed form of an ancestor-or-self of the query name *)
Variable cz : name.
Variable cpre : name.
Hypothesis Hctrl : ctrl = pack cz.
Hypothesis Hcz : n = cpre ++ cz.

Lemma suffix_cases : forall (z1 x z2 y : name), z1 ++ x = z2 ++ y ->
  (exists w, x = w ++ y) \/ (exists w, y = w ++ x /\ w <> []).
Proof.
  intros z1 x z2 y E. destruct (app_comparable z1 z2 x y E) as [[w Hw]|[w Hw]].
  - subst z1. rewrite <- app_assoc in E. apply app_inv_head in E.
    destruct w as [|a w]; [left; exists []; cbn in E; rewrite E; reflexivity|].
    right. exists (a :: w). split; [symmetry; exact E | discriminate].
  - subst z2. rewrite <- app_assoc in E. apply app_inv_head in E. left. exists w. exact E.
Qed.

Lemma hits_iff : forall mid m' pfx, n = pfx ++ mid ++ m' ->
  hits mid m' = (nlen (pack m') <? nlen ctrl) && (nlen ctrl <=? nlen (pack (mid ++ m'))).
Proof.
  induction mid as [|l mid IH]; intros m' pfx En; cbn [hits app].
  - destruct (nlen (pack m') <? nlen ctrl) eqn:E; [|reflexivity]. cbn [andb]. lia.
  - assert (Hok : name_ok (l :: mid ++ m') /\ name_ok cz).
    { pose proof Hn as H1. rewrite En in H1. apply name_ok_app in H1 as [_ H1].
      pose proof Hn as H2. rewrite Hcz in H2. apply name_ok_app in H2 as [_ H2]. split; assumption. }
    destruct Hok as [Hx Hc]. inversion Hx as [|? ? Hl Hx' Heq]. unfold lab_ok in Hl.
    rewrite (IH m' (pfx ++ [l])) by (rewrite En, <- app_assoc; reflexivity).
    assert (Lx : nlen (pack (l :: mid ++ m')) = 1 + nlen l + nlen (pack (mid ++ m'))).
    { rewrite pack_cons, nlen_app, nlen_cons. lia. }
    rewrite Hctrl in *.
    destruct (bytes_eqb (pack (l :: mid ++ m')) (pack cz)) eqn:E.
    + apply bytes_eqb_eq in E. rewrite <- E. cbn [orb].
      assert (Lm : nlen (pack m') <= nlen (pack (mid ++ m'))) by (rewrite nlen_pack_app; lia).
      symmetry. apply andb_true_intro. split; lia.
    + cbn [orb]. apply bytes_eqb_neq in E.
      assert (Ne : l :: mid ++ m' <> cz) by (intros X; apply E; rewrite X; reflexivity).
      assert (En2 : pfx ++ (l :: mid ++ m') = cpre ++ cz) by (rewrite <- Hcz, En; reflexivity).
      destruct (suffix_cases pfx (l :: mid ++ m') cpre cz En2) as [[w Hw]|[w [Hw Hwne]]].
      * (* cz is a suffix of the current name; not equal, hence of its parent *)
        destruct w as [|a w]; [cbn [app] in Hw; contradiction|].
        cbn [app] in Hw. injection Hw as _ Hw2.
        assert (Lc : nlen (pack cz) <= nlen (pack (mid ++ m'))) by (rewrite Hw2, nlen_pack_app; lia).
        assert (X : (nlen (pack cz) <=? nlen (pack (l :: mid ++ m'))) = true) by lia.
        assert (Y : (nlen (pack cz) <=? nlen (pack (mid ++ m'))) = true) by lia.
        rewrite X, Y. reflexivity.
      * (* the current name is a proper suffix of cz *)
        assert (Hw' : name_ok w) by (rewrite Hw in Hc; apply name_ok_app in Hc; tauto).
        pose proof (nlen_body_pos w Hw' Hwne) as Lw.
        assert (Lc : nlen (pack cz) = nlen (body w) + nlen (pack (l :: mid ++ m'))) by (rewrite Hw, nlen_pack_app; reflexivity).
        assert (X : (nlen (pack cz) <=? nlen (pack (l :: mid ++ m'))) = false) by lia.
        assert (Y : (nlen (pack cz) <=? nlen (pack (mid ++ m'))) = false) by lia.
        rewrite X, Y, !andb_false_r. reflexivity.
Qed.

Lemma scan1_fa : forall m loc (fs : fa_state) wild last, name_ok m -> length loc = 2%nat ->
  scan1 st2 (fa_parse qname qtype) (bkey (rev m) loc) (fs, wild, last) =
  ((fst (for_each_v1 b st1 (loc ++ pack m) (fa_cb qname qtype wild) fs), wild, last), false).
Proof.
  intros. unfold scan1. rewrite rows_eq by assumption. rewrite iter_fa_parse. unfold for_each_v1.
  pose proof (iter_fa_key (loc ++ pack m) wild fs) as C.
  destruct (iter_rows (fa_cb qname qtype wild) (get st1 (loc ++ pack m)) fs) as [s' stt]. cbn [fst snd] in *. subst stt. reflexivity.
Qed.

Lemma scan2_fa : forall m (fs : fa_state) wild last, name_ok m ->
  scan2 st2 fa2_state (fa_parse qname qtype) L (rev m) (fs, wild, last) = ((scan_fa m wild fs, wild, last), false).
Proof.
  intros m fs wild last Hm. unfold scan2, scan_fa. destruct (is_loc0 L).
  - rewrite scan1_fa by auto. reflexivity.
  - rewrite scan1_fa by auto. rewrite scan1_fa by auto. reflexivity.
Qed.

Lemma fa_pre_eval : forall pfx midl m (fs : fa_state) wild, n = pfx ++ midl ++ m ->
  fa_pre ctrl (fs, wild, nlen (body (rev (midl ++ m))) + 1) RV (nlen (body (rev m)) + 1) =
  Val (if (nlen (body (rev m)) + 1 <? nlen ctrl) || negb (forallb wildsafe midl)
       then ((fs, wild, nlen (body (rev (midl ++ m))) + 1), false)
       else ((fs, wild, nlen (body (rev m)) + 1), true)).
Proof.
  intros pfx midl m fs wild En. unfold fa_pre.
  destruct (nlen (body (rev m)) + 1 <? nlen ctrl); [reflexivity|]. cbn [orb].
  assert (Hmid : name_ok midl) by (rewrite En in Hn; apply name_ok_app in Hn as [_ Hn']; apply name_ok_app in Hn'; tauto).
  assert (ERV : RV = body (rev m) ++ body (rev midl) ++ (body (rev pfx) ++ [0])).
  { unfold RV, rn. rewrite En, !rev_app_distr, !body_app, <- !app_assoc. reflexivity. }
  rewrite ERV.
  replace (nlen (body (rev (midl ++ m))) + 1) with (nlen (body (rev m)) + nlen (body (rev midl)) + 1)
    by (rewrite rev_app_distr, nlen_body_app; reflexivity).
  rewrite pre_fa_loop_spec.
  - cbn [bind]. rewrite forallb_rev. destruct (forallb wildsafe midl); reflexivity.
  - apply name_ok_rev. exact Hmid.
  - rewrite rev_length. pose proof (length_le_body (rev midl) (name_ok_rev _ Hmid)) as X.
    rewrite rev_length in X. rewrite !app_length. unfold nlen in X. lia.
Qed.

Lemma fa_sim : forall k m, length m = k -> forall pfx midl f kbuf klen wild (s : fa_state),
  n = pfx ++ midl ++ m -> snd s = false -> (length m < f)%nat -> buf_ok kbuf klen (body (rev m)) ->
  exists w' l',
    find_loop_pure st2 fa2_state (fa_parse qname qtype) (fa_pre ctrl) fa_post f RV L kbuf klen (nlen (body (rev m)) + 1)
      (s, wild, nlen (body (rev (midl ++ m))) + 1) =
    Val ((if (nlen (body (rev m)) + 1 <? nlen ctrl) || negb (forallb wildsafe midl) then s else walk_fa m wild s), w', l').
Proof.
  induction k as [k IHk] using lt_wf_ind. intros m Hk pfx midl f kbuf klen wild s En Hs Hf Hb.
  destruct f as [|f]; [lia|].
  assert (Hm : name_ok m) by (rewrite En in Hn; apply name_ok_app in Hn as [_ Hn']; apply name_ok_app in Hn'; tauto).
  pose proof (fa_pre_eval pfx midl m s wild En) as Hpre.
  destruct ((nlen (body (rev m)) + 1 <? nlen ctrl) || negb (forallb wildsafe midl)) eqn:Estop.
  - (* the pre-iteration check stops the walk *)
    cbn [find_loop_pure]. rewrite Hpre. cbn [bind negb]. eexists; eexists; reflexivity.
  - assert (En' : n = (pfx ++ midl) ++ m) by (rewrite En, app_assoc; reflexivity).
    destruct (find_iter_names fa2_state (fa_parse qname qtype) (fa_pre ctrl) fa_post f (pfx ++ midl) m kbuf klen _ _ En' Hb Hpre)
      as (kb3 & nxt & E1 & E2).
    rewrite E1. clear E1. rewrite scan2_fa in * by exact Hm. cbn [fst snd] in *. specialize (E2 eq_refl).
    rewrite walk_fa_eq. cbv zeta. unfold fa_post.
    destruct (snd (scan_fa m wild s)) eqn:Efound; cbn [negb].
    + eexists; eexists; reflexivity.
    + set (s2 := scan_fa m wild s) in *.
      apply orb_false_elim in Estop as [Ec _].
      destruct E2 as [[A1 A2]|(mid & m' & B1 & B2 & B3 & B4 & B5)].
      * rewrite A1. exists true, (nlen (body (rev m)) + 1). do 3 f_equal.
        destruct (bytes_eqb (pack m) ctrl); [reflexivity|].
        destruct m as [|l p]; [reflexivity|]. destruct (negb (wildsafe l)); [reflexivity|].
        inversion Hm; subst. symmetry. apply walk_fa_all_keyless; auto.
        intros z0 x E. apply (A2 (l :: z0) x); [rewrite E; reflexivity | discriminate].
      * rewrite B5. destruct mid as [|l mid']; [contradiction|].
        assert (Hmm : name_ok (l :: mid') /\ name_ok m') by (rewrite B1 in Hm; apply (name_ok_app (l :: mid') m'); exact Hm).
        destruct Hmm as [Hmid Hm'].
        assert (Hlen : (length m' < length m)%nat) by (rewrite B1, app_length; cbn [length]; lia).
        assert (En2 : n = (pfx ++ midl) ++ (l :: mid') ++ m') by (rewrite En', B1; reflexivity).
        assert (Elast : nlen (body (rev m)) + 1 = nlen (body (rev ((l :: mid') ++ m'))) + 1) by (rewrite B1; reflexivity).
        rewrite Elast.
        destruct (IHk (length m') ltac:(lia) m' eq_refl (pfx ++ midl) (l :: mid') f kb3 _ true s2 En2 Efound ltac:(lia) B4) as (w' & l' & I).
        rewrite <- Elast in I. rewrite <- Elast. rewrite I. exists w', l'. do 3 f_equal.
        (* the v1 side: from m across the stretch to m' *)
        pose proof (hits_iff (l :: mid') m' (pfx ++ midl) En2) as Hh.
        rewrite <- B1 in Hh. cbn [hits] in Hh. rewrite <- B1 in Hh.
        rewrite <- nlen_pack_rev in *.
        assert (Ec2 : (nlen ctrl <=? nlen (pack m)) = true) by lia.
        rewrite Ec2, andb_true_r in Hh.
        rewrite B1. cbn [app]. rewrite B1 in Hh. cbn [app] in Hh.
        inversion Hmid as [|? ? Hl Hmid']; subst.
        destruct (bytes_eqb (pack (l :: mid' ++ m')) ctrl) eqn:E1.
        { cbn [orb] in Hh. rewrite <- Hh. reflexivity. }
        cbn [orb] in Hh. cbn [forallb].
        destruct (wildsafe l); cbn [negb andb].
        -- rewrite walk_fa_stretch; auto.
           ++ rewrite Hh. reflexivity.
           ++ intros m1 m2 E N. apply (B3 (l :: m1) m2); [rewrite E; reflexivity | discriminate | exact N].
        -- rewrite orb_true_r. reflexivity.
Qed.
End Walk2.
End Sim.
