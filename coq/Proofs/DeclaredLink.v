(* DeclaredLink (C01 x C09 x C07): the compiler model's per-line output (Model/Text.convert, C09's
   codec) is, for every served line type, exactly the rows Spec/Rows prescribes for the records the
   line DECLARES (Spec/Declared.declared), in both key layouts; the other line types (% M 8 !)
   declare nothing and emit only keys no name lookup can hit. *)
From DnsV Require Import Model.Text Proofs.TextBase Proofs.TextNames.
From DnsV Require Model.Svcb.
From DnsV Require Import Spec.Answer Spec.Rows Spec.Declared.
From Coq Require Import ZifyN ZifyNat ZifyBool.
Open Scope N_scope.

(* ---------------------------------------------------------------- names *)
Lemma dns_labels_ne : forall d, dns_labels d = ne_labels d.
Proof. reflexivity. Qed.

Lemma owner_of_lower : forall d, owner_of d = ne_labels (to_lower d).
Proof. reflexivity. Qed.

Definition lab63 (l : bytes) : Prop := nlen l <= 63.

Lemma labels_okb_spec : forall d, labels_okb d = true -> wf_bytes d /\ Forall lab63 (labels d).
Proof.
  intros d H. unfold labels_okb in H. apply andb_true_iff in H as [H1 H2]. split.
  - apply wf_bytesb_spec. exact H1.
  - rewrite forallb_forall in H2. apply Forall_forall. intros x Hx. apply H2 in Hx. unfold lab63. lia.
Qed.

Lemma put_label_small : forall l, l <> [] -> nlen l <= 255 -> put_label l = nlen l :: l.
Proof.
  intros l Hne Hl. unfold put_label. rewrite N.mod_small by lia.
  destruct (nlen l =? 0) eqn:E.
  - destruct l; [contradiction | unfold nlen in E; cbn [length] in E; lia].
  - unfold nlen. rewrite Nat2N.id, firstn_all. reflexivity.
Qed.
Lemma put_label_rev_small : forall l, l <> [] -> nlen l <= 255 -> put_label_rev l = nlen l :: l.
Proof.
  intros l Hne Hl. unfold put_label_rev. rewrite N.mod_small by lia.
  destruct (nlen l =? 0) eqn:E; [|reflexivity].
  destruct l; [contradiction | unfold nlen in E; cbn [length] in E; lia].
Qed.

Lemma flat_map_ext_Forall : forall {A B} (P : A -> Prop) (f g : A -> list B) l,
  (forall x, P x -> f x = g x) -> Forall P l -> flat_map f l = flat_map g l.
Proof. induction 2 as [|x t Hx Ht IH]; [reflexivity|]. cbn [flat_map]. rewrite H, IH by assumption. reflexivity. Qed.

Lemma ne_labels_ok : forall d, Forall lab63 (labels d) -> Forall (fun l => l <> [] /\ nlen l <= 255) (ne_labels d).
Proof.
  intros d H. unfold ne_labels. induction H as [|x t Hx Ht IH]; [constructor|]. cbn [filter].
  destruct x as [|c x']; cbn [Text.nonempty]; [exact IH|]. constructor; [|exact IH].
  split; [discriminate | unfold lab63 in Hx; lia].
Qed.

(* putdom writes the wire form of the non-empty labels *)
Lemma putdom_pack : forall d, Forall lab63 (labels d) -> putdom d = pack (ne_labels d).
Proof.
  intros d H. rewrite putdom_ne. unfold pack. f_equal.
  apply (flat_map_ext_Forall (fun l => l <> [] /\ nlen l <= 255)); [|apply ne_labels_ok; exact H].
  intros l [H1 H2]. apply put_label_small; assumption.
Qed.
Lemma putdom_wire : forall d, labels_okb d = true -> putdom d = wire d.
Proof. intros d H. apply putdom_pack. apply labels_okb_spec. exact H. Qed.

Lemma filter_rev : forall {A} (f : A -> bool) l, filter f (rev l) = rev (filter f l).
Proof.
  induction l as [|x t IH]; [reflexivity|]. cbn [rev filter]. rewrite filter_app, IH. cbn [filter].
  destruct (f x); cbn [rev]; [reflexivity | rewrite app_nil_r; reflexivity].
Qed.

Lemma putrevdom_rpack : forall d, Forall lab63 (labels d) -> putrevdom d = rpack (ne_labels d).
Proof.
  intros d H. unfold putrevdom, rpack, pack. fold (labels d). f_equal.
  rewrite <- (flat_map_rev_ne put_label_rev (labels d)) by reflexivity. fold (ne_labels d).
  apply (flat_map_ext_Forall (fun l => l <> [] /\ nlen l <= 255)); [|apply Forall_rev, ne_labels_ok; exact H].
  intros l [H1 H2]. apply put_label_rev_small; assumption.
Qed.

Lemma to_lower_len : forall l, nlen (to_lower l) = nlen l.
Proof. intros. unfold to_lower, nlen. rewrite map_length. reflexivity. Qed.
Lemma labels_lower_ok : forall d, Forall lab63 (labels d) -> Forall lab63 (labels (to_lower d)).
Proof.
  intros d H. rewrite labels_lower. apply Forall_map. eapply Forall_impl; [|exact H].
  intros l Hl. unfold lab63 in *. rewrite to_lower_len. exact Hl.
Qed.

(* ---------------------------------------------------------------- keys and rows *)
Lemma putloc_tag : forall lo, putloc lo = match tag lo with Some l => l | None => [0; 0] end.
Proof.
  intros lo. unfold putloc, tag. destruct (length lo =? 2)%nat eqn:E; cbn [andb]; [|reflexivity].
  destruct (bytes_eqb lo [0; 0]) eqn:E2; cbn [negb]; [|reflexivity].
  apply TextNames.bytes_eqb_eq in E2. exact E2.
Qed.

Lemma key_v1_link : forall dom lo wild ty ttl w rd, Forall lab63 (labels dom) ->
  domainkey false dom lo = key_v1 (mkRec (owner_of dom) wild (tag lo) ty ttl w rd).
Proof.
  intros. unfold domainkey, key_v1, loc_bytes. cbn [r_loc r_owner].
  rewrite putloc_tag, putdom_pack by (apply labels_lower_ok; assumption). reflexivity.
Qed.
Lemma key_v2_link : forall dom lo wild ty ttl w rd, Forall lab63 (labels dom) ->
  domainkey true dom lo = key_v2 (mkRec (owner_of dom) wild (tag lo) ty ttl w rd).
Proof.
  intros. unfold domainkey, key_v2, loc_bytes. cbn [r_loc r_owner].
  rewrite putloc_tag, putrevdom_rpack by (apply labels_lower_ok; assumption). reflexivity.
Qed.

Lemma tag_none_head : forall lo, tag lo = None ->
  (negb (length lo =? 2)%nat || ((nth 0 lo 0 =? 0) && (nth 1 lo 0 =? 0))) = true.
Proof.
  intros lo H. unfold tag in H. destruct (length lo =? 2)%nat eqn:E; cbn [andb negb orb] in *; [|reflexivity].
  destruct (bytes_eqb lo [0; 0]) eqn:E2; cbn [negb] in H; [|discriminate].
  apply TextNames.bytes_eqb_eq in E2. subst lo. reflexivity.
Qed.
Lemma tag_some_head : forall lo l, tag lo = Some l ->
  l = lo /\ (negb (length lo =? 2)%nat || ((nth 0 lo 0 =? 0) && (nth 1 lo 0 =? 0))) = false.
Proof.
  intros lo l H. unfold tag in H. destruct (length lo =? 2)%nat eqn:E; cbn [andb negb orb] in *; [|discriminate].
  destruct (bytes_eqb lo [0; 0]) eqn:E2; cbn [negb] in H; [discriminate|]. inversion H; subst l. split; [reflexivity|].
  destruct lo as [|a [|b [|]]]; try discriminate. cbn [nth]. cbn [bytes_eqb] in E2.
  destruct (a =? 0); destruct (b =? 0); cbn in *; congruence.
Qed.

(* the stored row = rrhead, then the weight for the two address types, then the rdata *)
Lemma row_link : forall o wild lo ty ttl w rd,
  row_of (mkRec o wild (tag lo) ty ttl w rd) =
  rrhead ty ttl lo wild ++ (if (ty =? 1) || (ty =? 28) then u32be w else []) ++ rd.
Proof.
  intros. unfold row_of, rrhead. cbn [r_type r_loc r_wild r_ttl r_weight r_rdata]. unfold zeros8.
  destruct (tag lo) as [l|] eqn:E.
  - destruct (tag_some_head lo l E) as [-> E2]. rewrite E2. destruct wild; rewrite <- !app_assoc; reflexivity.
  - rewrite (tag_none_head lo E). destruct wild; rewrite <- !app_assoc; reflexivity.
Qed.
Lemma row_link_plain : forall o wild lo ty ttl rd, ((ty =? 1) || (ty =? 28)) = false ->
  row_of (mkRec o wild (tag lo) ty ttl 0 rd) = rrhead ty ttl lo wild ++ rd.
Proof. intros. rewrite row_link, H. reflexivity. Qed.

(* ---------------------------------------------------------------- one declared record <-> one compiled pair *)
Lemma pair_link : forall v2 dom wild lo ty ttl rd, Forall lab63 (labels dom) -> ((ty =? 1) || (ty =? 28)) = false ->
  (domainkey v2 dom lo, rrhead ty ttl lo wild ++ rd) =
  (let r := drec dom wild lo ty ttl rd in ((if v2 then key_v2 r else key_v1 r), row_of r)).
Proof.
  intros. cbn zeta. unfold drec. rewrite row_link_plain by assumption.
  destruct v2; [rewrite (key_v2_link dom lo wild ty ttl 0 rd) | rewrite (key_v1_link dom lo wild ty ttl 0 rd)]; auto.
Qed.

Definition rows_of (v2 : bool) (recs : list Answer.record) : list (bytes * bytes) :=
  if v2 then rows_of_v2 recs else rows_of_v1 recs.
Lemma rows_of_cons : forall v2 r t, rows_of v2 (r :: t) = ((if v2 then key_v2 r else key_v1 r), row_of r) :: rows_of v2 t.
Proof. intros. destruct v2; reflexivity. Qed.
Lemma rows_of_app : forall v2 a b, rows_of v2 (a ++ b) = rows_of v2 a ++ rows_of v2 b.
Proof. intros. destruct v2; unfold rows_of, rows_of_v1, rows_of_v2; apply map_app. Qed.
Lemma rows_of_nil : forall v2, rows_of v2 [] = [].
Proof. intros. destruct v2; reflexivity. Qed.

Lemma addr_link : forall v2 dom wild ip ttl lo w, Forall lab63 (labels dom) ->
  addr_kv v2 dom wild ip ttl lo w = rows_of v2 (addr dom wild ip ttl lo w).
Proof.
  intros v2 dom wild ip ttl lo w H. unfold addr_kv, addr. destruct ip as [a|]; [|rewrite rows_of_nil; reflexivity].
  destruct (is4 a); rewrite rows_of_cons, rows_of_nil, row_link; cbn [N.eqb Pos.eqb orb]; unfold T_A, T_AAAA;
    (destruct v2; [rewrite <- key_v2_link by assumption | rewrite <- key_v1_link by assumption]; reflexivity).
Qed.

(* ---------------------------------------------------------------- TXT: chunks of 127 *)
Lemma firstn_app_exact' : forall {A} (a b : list A), firstn (length a) (a ++ b) = a.
Proof. intros. rewrite firstn_app, Nat.sub_diag, firstn_all. cbn. apply app_nil_r. Qed.
Lemma skipn_app_exact' : forall {A} (a b : list A), skipn (length a) (a ++ b) = b.
Proof. intros. rewrite skipn_app, Nat.sub_diag, skipn_all. reflexivity. Qed.
Lemma txt_strings_nil : forall f, txt_strings f [] = [].
Proof. destruct f; reflexivity. Qed.

Lemma txt_strings_fuel : forall f1 f2 s, (length s <= f1)%nat -> (length s <= f2)%nat ->
  txt_strings f1 s = txt_strings f2 s.
Proof.
  induction f1 as [|f1 IH]; intros f2 s H1 H2.
  - destruct s; [rewrite !txt_strings_nil; reflexivity | cbn [length] in H1; lia].
  - destruct s as [|x t]; [rewrite !txt_strings_nil; reflexivity|].
    destruct f2 as [|f2]; [cbn [length] in H2; lia|]. cbn [txt_strings]. do 2 f_equal.
    apply IH; rewrite skipn_length; cbn [length] in *; lia.
Qed.

Lemma txt_rdata_step : forall s, s <> [] ->
  txt_rdata s = nlen (firstn 127 s) :: firstn 127 s ++ txt_rdata (skipn 127 s).
Proof.
  intros s H. unfold txt_rdata. destruct s as [|x t]; [contradiction|].
  cbn [length txt_strings]. do 2 f_equal.
  apply txt_strings_fuel; rewrite skipn_length; cbn [length]; lia.
Qed.

Lemma txt_chunks_eq : forall s cur k, k = length cur -> (k <= 127)%nat ->
  txt_chunks s k cur = txt_rdata (rev cur ++ s).
Proof.
  induction s as [|x t IH]; intros cur k Hk Hle; cbn [txt_chunks].
  - rewrite app_nil_r. destruct cur as [|c cur']; [reflexivity|].
    assert (Hne : rev (c :: cur') <> []) by (cbn [rev]; destruct (rev cur'); discriminate).
    assert (Hl : length (rev (c :: cur')) = k) by (rewrite rev_length; symmetry; exact Hk).
    rewrite (txt_rdata_step _ Hne), firstn_all2, skipn_all2 by lia.
    unfold txt_rdata at 1. cbn [length txt_strings]. rewrite app_nil_r. unfold nlen. rewrite Hl. reflexivity.
  - destruct (k =? 127)%nat eqn:E.
    + apply Nat.eqb_eq in E. subst k.
      assert (Hl : length (rev cur) = 127%nat) by (rewrite rev_length; exact E).
      assert (Hne : rev cur ++ x :: t <> []) by (destruct (rev cur); discriminate).
      rewrite (txt_rdata_step _ Hne).
      rewrite <- Hl at 1 2 3. rewrite firstn_app_exact', skipn_app_exact'.
      rewrite (IH [x] 1%nat eq_refl) by lia. cbn [rev app]. unfold nlen. rewrite Hl. reflexivity.
    + apply Nat.eqb_neq in E. rewrite (IH (x :: cur) (S k)) by (cbn [length]; lia).
      cbn [rev]. rewrite <- app_assoc. reflexivity.
Qed.
Lemma txt_chunks_rdata : forall s, txt_chunks s 0 [] = txt_rdata s.
Proof. intros. apply (txt_chunks_eq s [] 0%nat); [reflexivity | lia]. Qed.

(* ---------------------------------------------------------------- composite names *)
Lemma ne_labels_cons : forall p x, nodot p -> p <> [] -> ne_labels (p ++ 46 :: x) = p :: ne_labels x.
Proof.
  intros p x H Hne. unfold ne_labels. rewrite labels_cons by exact H. cbn [filter].
  destruct p; [contradiction | reflexivity].
Qed.

Lemma lab63_prefix : forall p x, nodot p -> nlen p <= 63 -> Forall lab63 (labels x) -> Forall lab63 (labels (p ++ 46 :: x)).
Proof. intros p x H Hp Hx. rewrite labels_cons by exact H. constructor; assumption. Qed.

Lemma hostmaster_ok : forall dom, Forall lab63 (labels dom) -> Forall lab63 (labels (hostmaster dom)).
Proof. intros dom H. unfold hostmaster. apply lab63_prefix; [reflexivity | unfold nlen; cbn; lia | exact H]. Qed.
Lemma star_ok : forall dom, Forall lab63 (labels dom) -> Forall lab63 (labels (42 :: 46 :: dom)).
Proof. intros dom H. apply (lab63_prefix [42] dom); [reflexivity | unfold nlen; cbn; lia | exact H]. Qed.

(* ---------------------------------------------------------------- reverse-lookup names *)
Lemma digits_lower : forall l, Forall digitc l -> to_lower l = l.
Proof.
  induction 1 as [|c t Hc Ht IH]; [reflexivity|]. unfold to_lower in *. cbn [map]. rewrite IH. f_equal.
  unfold ascii_lower, digitc in *. destruct ((65 <=? c) && (c <=? 90)) eqn:E; [lia | reflexivity].
Qed.
Lemma digits_nodot : forall l, Forall digitc l -> nodot l.
Proof. intros l H. apply digits_contains; [exact H | unfold digitc; lia]. Qed.

Lemma print_dec_len_byte : forall n, n < 256 -> nlen (print_dec n) <= 63.
Proof.
  assert (A : forallb (fun n => nlen (print_dec n) <=? 63) (map N.of_nat (seq 0 256)) = true) by (vm_compute; reflexivity).
  intros n Hn. rewrite forallb_forall in A. specialize (A n). apply N.leb_le. apply A.
  apply in_map_iff. exists (N.to_nat n). split; [lia|]. apply in_seq. lia.
Qed.

Lemma to_lower_app : forall a b, to_lower (a ++ b) = to_lower a ++ to_lower b.
Proof. intros. unfold to_lower. apply map_app. Qed.

Lemma hexlow_props : forall n, n < 16 -> ascii_lower (hexlow n) = hexlow n /\ hexlow n <> 46.
Proof.
  intros n H. unfold hexlow, ascii_lower. destruct (n <? 10) eqn:E.
  - destruct ((65 <=? 48 + n) && (48 + n <=? 90)) eqn:E2; lia.
  - destruct ((65 <=? 87 + n) && (87 + n <=? 90)) eqn:E2; lia.
Qed.

Lemma nodot1 : forall c, c <> 46 -> nodot [c].
Proof. intros c H. unfold nodot. cbn [contains]. destruct (N.eqb_spec c 46); [contradiction | reflexivity]. Qed.

Lemma arpa6_labels : forall l,
  ne_labels (to_lower (flat_map (fun v => [hexlow (v mod 16); 46; hexlow ((v / 16) mod 16); 46]) l ++ s_ip6arpa)) =
  flat_map (fun v => [[hexdig (v mod 16)]; [hexdig ((v / 16) mod 16)]]) l ++ [l_ip6; l_arpa].
Proof.
  induction l as [|v t IH]; [reflexivity|]. cbn [flat_map].
  assert (H1 : v mod 16 < 16) by (apply N.mod_lt; lia).
  assert (H2 : (v / 16) mod 16 < 16) by (apply N.mod_lt; lia).
  destruct (hexlow_props _ H1) as [L1 D1]. destruct (hexlow_props _ H2) as [L2 D2].
  rewrite <- app_assoc. cbn [app]. unfold to_lower at 1. cbn [map]. fold (to_lower (flat_map (fun v => [hexlow (v mod 16); 46; hexlow ((v / 16) mod 16); 46]) t ++ s_ip6arpa)).
  rewrite L1, L2. change (ascii_lower 46) with 46.
  change (hexlow (v mod 16) :: 46 :: hexlow ((v / 16) mod 16) :: 46 :: ?X) with ([hexlow (v mod 16)] ++ 46 :: [hexlow ((v / 16) mod 16)] ++ 46 :: X).
  rewrite ne_labels_cons by (first [apply nodot1; assumption | discriminate]).
  rewrite ne_labels_cons by (first [apply nodot1; assumption | discriminate]).
  rewrite IH. reflexivity.
Qed.

Lemma lower_digits_cons : forall p x, Forall digitc p -> p <> [] ->
  ne_labels (to_lower (p ++ 46 :: x)) = p :: ne_labels (to_lower x).
Proof.
  intros p x D Hne. rewrite to_lower_app. change (to_lower (46 :: x)) with (46 :: to_lower x).
  rewrite (digits_lower _ D). apply ne_labels_cons; [apply digits_nodot; exact D | exact Hne].
Qed.

Lemma arpa_owner : forall a, owner_of (reverseaddr (Some a)) = arpa_name a.
Proof.
  intros a. rewrite owner_of_lower. unfold reverseaddr, arpa_name. destruct (is4 a).
  - change s_inaddr with (46 :: [105; 110; 45; 97; 100; 100; 114; 46; 97; 114; 112; 97]).
    rewrite !lower_digits_cons by (first [apply print_dec_digits | apply print_dec_nonempty]).
    reflexivity.
  - apply arpa6_labels.
Qed.

Lemma nth_wf : forall (a : bytes) i, wf_bytes a -> nth i a 0 < 256.
Proof.
  intros a i W. destruct (nth_in_or_default i a 0) as [H|H]; [|rewrite H; lia].
  unfold wf_bytes in W. rewrite Forall_forall in W. apply W. exact H.
Qed.

Lemma revaddr_ok : forall a, wf_bytes a -> Forall lab63 (labels (reverseaddr (Some a))).
Proof.
  intros a W. unfold reverseaddr. destruct (is4 a).
  - change s_inaddr with (46 :: [105; 110; 45; 97; 100; 100; 114; 46; 97; 114; 112; 97]).
    repeat (apply lab63_prefix; [apply digits_nodot, print_dec_digits | apply print_dec_len_byte, nth_wf; exact W |]).
    repeat constructor; unfold lab63, nlen; cbn; lia.
  - induction (rev a) as [|v t IH]; cbn [flat_map app].
    + repeat constructor; unfold lab63, nlen; cbn; lia.
    + assert (H1 : v mod 16 < 16) by (apply N.mod_lt; lia).
      assert (H2 : (v / 16) mod 16 < 16) by (apply N.mod_lt; lia).
      change (hexlow (v mod 16) :: 46 :: hexlow ((v / 16) mod 16) :: 46 :: ?X) with ([hexlow (v mod 16)] ++ 46 :: [hexlow ((v / 16) mod 16)] ++ 46 :: X).
      apply lab63_prefix; [apply nodot1, hexlow_props; exact H1 | unfold nlen; cbn; lia |].
      apply lab63_prefix; [apply nodot1, hexlow_props; exact H2 | unfold nlen; cbn; lia |].
      exact IH.
Qed.

(* ---------------------------------------------------------------- the link, line type by line type *)
(* the line types that declare served records *)
Definition served (r : Text.record) : bool :=
  match r with
  | RNet _ _ _ _ | RIpmap _ _ | RCsmap _ _ | RRangePoint _ _ _ _ _ => false
  | _ => true
  end.

Ltac okb H := repeat (let X := fresh "G" in apply andb_true_iff in H as [H X]).

Lemma ip_okb_wf : forall a, ip_okb (Some a) = true -> wf_bytes a.
Proof. intros a H. unfold ip_okb in H. apply andb_true_iff in H as [_ H]. apply wf_bytesb_spec. exact H. Qed.

Lemma wire_okb_spec : forall d, wire_okb d = true -> labels_okb d = true /\ nlen (wire d) <= 255.
Proof. intros d H. unfold wire_okb in H. apply andb_true_iff in H as [H1 H2]. split; [exact H1 | lia]. Qed.

Local Opaque labels_okb wire_okb ip_okb u32okb.

Ltac wir d := match goal with H : wire_okb d = true |- _ => apply wire_okb_spec in H as [H _] end.
Ltac lab d n := match goal with H : labels_okb d = true |- _ => pose proof (proj2 (labels_okb_spec _ H)) as n end.

Theorem convert_is_rows_of : forall v2 nornet r, dns_okb r = true -> served r = true ->
  convert v2 nornet r = rows_of v2 (declared r).
Proof.
  intros v2 nornet r Hok Hs. destruct r; try discriminate Hs; cbn [convert declared dns_okb] in *; okb Hok.
  - (* Z *) lab dom Hd. unfold soa_kv. rewrite !(putdom_wire) by assumption. unfold T_SOA.
    rewrite rows_of_cons, rows_of_nil. f_equal. apply (pair_link v2 dom false lo 6 ttl); [exact Hd | reflexivity].
  - (* . *) wir ns. lab dom Hd. lab ns Hns.
    unfold soa_kv, ns_kv. rewrite !(putdom_wire ns) by assumption.
    rewrite (putdom_pack (s_hostmaster ++ 46 :: dom)) by (apply (hostmaster_ok dom Hd)).
    unfold T_SOA, T_NS, ShortTTL. cbn [app]. rewrite !rows_of_cons. f_equal; [|f_equal].
    + apply (pair_link v2 dom false lo 6 (if ttl =? 0 then 0 else 2560)); [exact Hd | reflexivity].
    + apply (pair_link v2 dom false lo 2 ttl); [exact Hd | reflexivity].
    + apply addr_link. exact Hns.
  - (* & *) wir ns. lab dom Hd. lab ns Hns.
    unfold ns_kv. rewrite !(putdom_wire ns) by assumption. unfold T_NS. cbn [app]. rewrite rows_of_cons. f_equal.
    + apply (pair_link v2 dom false lo 2 ttl); [exact Hd | reflexivity].
    + apply addr_link. exact Hns.
  - (* + *) lab dom Hd. apply addr_link. exact Hd.
  - (* = *) lab dom Hd. destruct ip as [a|]; [|discriminate].
    rewrite rows_of_app. f_equal; [apply addr_link; exact Hd|].
    rewrite rows_of_cons, rows_of_nil. f_equal.
    assert (Hr : Forall lab63 (labels (reverseaddr (Some a)))).
    { apply revaddr_ok. match goal with H : ip_okb (Some a) = true |- _ => exact (ip_okb_wf a H) end. }
    assert (Hx : Forall lab63 (labels (if wild then 42 :: 46 :: dom else dom))) by (destruct wild; [apply star_ok|]; exact Hd).
    rewrite (putdom_pack _ Hx). unfold T_PTR.
    rewrite <- (arpa_owner a).
    apply (pair_link v2 (reverseaddr (Some a)) false lo 12 ttl); [exact Hr | reflexivity].
  - (* @ *) lab dom Hd. lab mx Hmx.
    rewrite (putdom_pack mx Hmx). unfold T_MX. cbn [app]. rewrite rows_of_cons. f_equal.
    + apply (pair_link v2 dom false lo 15 ttl); [exact Hd | reflexivity].
    + apply addr_link. exact Hmx.
  - (* S *) lab dom Hd. lab srv Hsrv.
    rewrite (putdom_pack srv Hsrv). unfold T_SRV. cbn [app]. rewrite rows_of_cons. f_equal.
    + apply (pair_link v2 dom false lo 33 ttl); [exact Hd | reflexivity].
    + apply addr_link. exact Hsrv.
  - (* C *) lab dom Hd. lab cname Hc. rewrite (putdom_pack cname Hc). unfold T_CNAME.
    rewrite rows_of_cons, rows_of_nil. f_equal. apply (pair_link v2 dom wild lo 5 ttl); [exact Hd | reflexivity].
  - (* ^ *) lab dom Hd. lab host Hh. rewrite (putdom_pack host Hh). unfold T_PTR.
    rewrite rows_of_cons, rows_of_nil. f_equal. apply (pair_link v2 dom false lo 12 ttl); [exact Hd | reflexivity].
  - (* ' *) lab dom Hd. rewrite txt_chunks_rdata. unfold T_TXT.
    rewrite rows_of_cons, rows_of_nil. f_equal. apply (pair_link v2 dom wild lo 16 ttl); [exact Hd | reflexivity].
  - (* : *) lab dom Hd.
    rewrite rows_of_cons, rows_of_nil. f_equal. apply (pair_link v2 dom false lo rtype ttl); [exact Hd|].
    match goal with H : negb _ = true |- _ => apply negb_true_iff in H; apply orb_false_iff in H as [H _]; exact H end.
  - (* B H *) lab dom Hd. lab tgt Ht. rewrite (putdom_pack tgt Ht).
    rewrite rows_of_cons, rows_of_nil. f_equal.
    apply (pair_link v2 dom wild lo (if https then T_HTTPS else T_SVCB) ttl); [exact Hd | destruct https; reflexivity].
Qed.

(* ---------------------------------------------------------------- the other line types: % M 8 !
   declare no record and emit only keys under the markers \000% \000M \0008 and \000\000\000! *)
Definition aux_keyb (k : bytes) : bool :=
  is_prefix [0; 37] k || is_prefix [0; 77] k || is_prefix [0; 56] k || is_prefix [0; 0; 0; 33] k.

Theorem convert_unserved : forall v2 nornet r, served r = false ->
  declared r = [] /\ forallb (fun kv => aux_keyb (fst kv)) (convert v2 nornet r) = true.
Proof.
  intros v2 nornet r Hs. destruct r; try discriminate Hs; (split; [reflexivity|]); cbn [convert].
  - destruct nornet; [reflexivity|].
    destruct (is4 ip && (96 <=? ones) && (ones mod 8 =? 0)); reflexivity.
  - unfold mapkey. destruct (is_wild dom); reflexivity.
  - unfold mapkey. destruct (is_wild dom); reflexivity.
  - reflexivity.
Qed.

(* every line: its compiled pairs are the rows of its declared records, or auxiliary keys *)
Corollary convert_rows_or_aux : forall v2 nornet r, dns_okb r = true ->
  (convert v2 nornet r = rows_of v2 (declared r)) \/
  (declared r = [] /\ forallb (fun kv => aux_keyb (fst kv)) (convert v2 nornet r) = true).
Proof.
  intros v2 nornet r H. destruct (served r) eqn:E; [left; apply convert_is_rows_of; assumption | right; apply convert_unserved; exact E].
Qed.
