(* What the line reader of parse() (Model/LineReader.v) does and does not remove. *)
From DnsV Require Import Model.LineReader Spec.MapOfLists Proofs.MultiValue Proofs.Batch Proofs.CompilePipe.
From Coq Require Import Permutation.
From Coq Require Import ZifyN ZifyNat ZifyBool.
Open Scope N_scope.

(* only blanks go, and all leading ones *)
Lemma trim_left_blanks_spec : forall l, exists n,
  l = repeat 32 n ++ trim_left_blanks l /\
  match trim_left_blanks l with c :: _ => c <> 32 | [] => True end.
Proof.
  induction l as [|c t [n [E H]]]; [exists 0%nat; split; [reflexivity | exact I]|].
  simpl. destruct (c =? 32) eqn:C.
  - apply N.eqb_eq in C. subst c. exists (S n). split; [simpl; f_equal; exact E | exact H].
  - exists 0%nat. split; [reflexivity | apply N.eqb_neq; exact C].
Qed.

(* a line that does not start with a blank is handed on as it is: nothing is removed at its end,
   and no other white space at its start *)
Lemma trim_left_blanks_id : forall c t, c <> 32 -> trim_left_blanks (c :: t) = c :: t.
Proof. intros c t H. simpl. apply N.eqb_neq in H. rewrite H. reflexivity. Qed.

Lemma read_file_in : forall data l, In l (read_file data) <->
  exists raw, In raw (scan_lines data) /\ l = trim_left_blanks raw /\ line_kept l = true.
Proof.
  intros data l. unfold read_file. rewrite filter_In, in_map_iff. split.
  - intros [[raw [E I]] K]. exists raw. subst l. auto.
  - intros [raw [I [E K]]]. split; [exists raw; subst l; auto | assumption].
Qed.

(* a token without newline or carriage return is one line *)
Lemma scan_lines_from_plain : forall data cur, ~ In 10 data ->
  scan_lines_from data cur = match rev cur ++ data with [] => [] | _ => [drop_cr_rev (rev data ++ cur)] end.
Proof.
  induction data as [|b r IH]; intros cur H.
  - simpl. rewrite app_nil_r. destruct cur as [|c cur']; [reflexivity|].
    destruct (rev (c :: cur')) eqn:E; [|reflexivity].
    apply (f_equal (@length N)) in E. rewrite rev_length in E. discriminate.
  - simpl. destruct (b =? 10) eqn:C; [exfalso; apply H; left; lia|].
    rewrite IH by (intro X; apply H; right; exact X). simpl. rewrite <- !app_assoc. simpl.
    destruct (rev cur ++ b :: r) eqn:E; [destruct (rev cur); discriminate | reflexivity].
Qed.

(* examples: leading blanks go, a leading TAB stays (the codec will reject the line), trailing
   white space stays, CRLF line ends lose the CR, short lines and comments are skipped, a TAB in
   front of '#' makes the line a record line *)
Lemma read_file_example :
  read_file [32; 32; 43; 97; 44; 49; 32; 9; 13; 10;          (* "  +a,1 \t\r\n" *)
             9; 43; 97; 44; 49; 10;                          (* "\t+a,1\n"      *)
             35; 120; 10; 32; 35; 120; 10;                   (* "#x\n #x\n"    *)
             9; 35; 120; 10;                                 (* "\t#x\n"       *)
             32; 32; 10; 9; 10; 90; 10; 13; 10;              (* "  \n\t\nZ\n\r\n" *)
             39; 120; 44; 194; 160]                          (* "'x,<NBSP>" without newline *)
  = [[43; 97; 44; 49; 32; 9]; [9; 43; 97; 44; 49]; [9; 35; 120]; [39; 120; 44; 194; 160]].
Proof. vm_compute. reflexivity. Qed.

(* ---------------------------------------------------------------- the scanner's token limit *)

Lemma reader_overflow_app : forall data n post, reader_overflow data n = true -> reader_overflow (data ++ post) n = true.
Proof.
  induction data as [|b r IH]; intros n post H; [discriminate|].
  cbn [app reader_overflow] in *. destruct (b =? 10); [apply IH; assumption|].
  destruct (n + 1 =? max_scan_token_size); [reflexivity | apply IH; assumption].
Qed.

(* a run of at least (limit - n) bytes without newline overflows a token that already has n bytes *)
Lemma long_run_overflows : forall line n post, ~ In 10 line -> n < max_scan_token_size ->
  max_scan_token_size <= n + nlen line -> reader_overflow (line ++ post) n = true.
Proof.
  induction line as [|b r IH]; intros n post NI Hn HL.
  - unfold nlen in HL. simpl in HL. lia.
  - cbn [app reader_overflow]. destruct (b =? 10) eqn:C; [exfalso; apply NI; left; lia|].
    destruct (n + 1 =? max_scan_token_size) eqn:E; [reflexivity|].
    apply IH; [intro X; apply NI; right; exact X | lia | rewrite nlen_cons in HL; lia].
Qed.

(* whatever precedes it (up to a newline, or nothing) and whatever follows it *)
Lemma long_line_anywhere : forall pre line post, ~ In 10 line -> max_scan_token_size <= nlen line ->
  reader_fails (line ++ post) = true /\ reader_fails (pre ++ 10 :: line ++ post) = true.
Proof.
  intros pre line post NI HL. unfold reader_fails.
  assert (L : reader_overflow (line ++ post) 0 = true) by (apply long_run_overflows; [assumption | reflexivity | lia]).
  split; [exact L|]. generalize 0 at 1. induction pre as [|b r IH]; intro n.
  - cbn [app reader_overflow N.eqb Pos.eqb]. exact L.
  - cbn [app reader_overflow]. destruct (b =? 10); [apply IH|].
    destruct (n + 1 =? max_scan_token_size); [reflexivity | apply IH].
Qed.

(* a file shorter than the limit is always read to its end *)
Lemma short_file_fits : forall data n, nlen data + n < max_scan_token_size -> reader_overflow data n = false.
Proof.
  induction data as [|b r IH]; intros n H; [reflexivity|].
  rewrite nlen_cons in H. cbn [reader_overflow]. destruct (b =? 10); [apply IH; lia|].
  destruct (n + 1 =? max_scan_token_size) eqn:E; [lia | apply IH; lia].
Qed.

(* ---------------------------------------------------------------- C07 on the bytes of the file *)

Section OnFiles.
  Variable conv : bytes -> result (list kv).
  Variable accum : list bytes -> list kv.
  Variable feature : list kv.

  Lemma file_builder_lossless : forall sort, sort_ok sort -> forall min_size nb data stream,
    reader_fails data = false ->
    1 <= min_size -> (1 <= nb)%nat -> feature <> [] -> accepted bytes conv (read_file data) = true ->
    kvs_ok (file_records conv accum feature data) -> Permutation stream (file_records conv accum feature data) ->
    exists db, compile_file_builder conv sort min_size nb data stream = Ok db /\ store_ok db /\
               forall k, Permutation (vals db k) (vals_of k (file_records conv accum feature data)).
  Proof.
    intros sort HS min_size nb data stream R. unfold compile_file_builder. rewrite R.
    apply (builder_lossless bytes conv accum feature sort HS).
  Qed.

  Lemma file_batches_lossless : forall sort, sort_ok sort -> forall bs data stream order,
    reader_fails data = false ->
    accepted bytes conv (read_file data) = true -> kvs_ok (file_records conv accum feature data) ->
    Permutation stream (file_records conv accum feature data) -> Permutation order (batches bs stream) ->
    exists db, compile_file_batches conv sort data order = Ok db /\ store_ok db /\
               forall k, Permutation (vals db k) (vals_of k (file_records conv accum feature data)).
  Proof.
    intros sort HS bs data stream order R. unfold compile_file_batches. rewrite R.
    apply (batches_lossless bytes conv accum feature sort HS).
  Qed.

  Lemma file_cdb_lossless : forall data stream,
    reader_fails data = false ->
    accepted bytes conv (read_file data) = true -> Permutation stream (file_records conv accum feature data) ->
    compile_file_cdb conv data stream = Ok stream /\
    forall k, Permutation (vals_of k stream) (vals_of k (file_records conv accum feature data)).
  Proof.
    intros data stream R. unfold compile_file_cdb. rewrite R. apply (cdb_lossless bytes conv accum feature).
  Qed.

  (* a scanner line whose form after removing the leading blanks is kept and rejected by the codec
     (for instance a record line with a TAB in front) fails every compiler *)
  Lemma file_reject_is_total : forall data raw e,
    In raw (scan_lines data) -> line_kept (trim_left_blanks raw) = true -> conv (trim_left_blanks raw) = Err e ->
    (forall sort min_size nb stream, exists e', compile_file_builder conv sort min_size nb data stream = Err e') /\
    (forall sort order, exists e', compile_file_batches conv sort data order = Err e') /\
    (forall stream, exists e', compile_file_cdb conv data stream = Err e').
  Proof.
    intros data raw e I K C.
    destruct (reject_is_total bytes conv (read_file data)) as [A [B D]].
    { exists (trim_left_blanks raw), e. split; [|assumption]. apply read_file_in. exists raw. auto. }
    unfold compile_file_builder, compile_file_batches, compile_file_cdb.
    destruct (reader_fails data); repeat split; intros; eauto.
  Qed.

  (* the scanner gave up (a line of 65536 bytes or more): every compiler fails, under every setting *)
  Lemma file_reader_error_is_total : forall data, reader_fails data = true ->
    (forall sort min_size nb stream, compile_file_builder conv sort min_size nb data stream = Err E_READER) /\
    (forall sort order, compile_file_batches conv sort data order = Err E_READER) /\
    (forall stream, compile_file_cdb conv data stream = Err E_READER).
  Proof.
    intros data R. unfold compile_file_builder, compile_file_batches, compile_file_cdb. rewrite R.
    repeat split; reflexivity.
  Qed.
End OnFiles.
