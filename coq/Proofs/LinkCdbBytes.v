(* Proofs/LinkCdbBytes: C16 x C01 - the CDB backend down to the file bytes.
   C01_file_level_cdb speaks of a store giving, for a key, its values in the order of the Put sequence;
   C16_serialize_read proves that the byte-level reader on the serialised image returns exactly these.
   Here: the handler of Model/Serve.v over the label-by-label reader whose [get] IS the byte-level
   reader on the file image ([serve_fn CDB (cdb_get H (serialize img))], Model/ComposeMore.v) refines
   Spec/Answer.spec_response of the records the data file declares; and the Model/Store.store
   obtained by reading every key back from the image is the per-key value sequences store. *)
From DnsV Require Import Base.Bytes Model.Store Model.LookupV1 Model.LookupV2 Model.Serve.
From DnsV Require Import Spec.Answer Spec.Rows Spec.MapOfLists Spec.Declared Spec.Cdb.
From DnsV Require Import Proofs.Reads Proofs.Compile Proofs.ZoneCut Proofs.FileLevel.
From DnsV Require Import Model.Compile Proofs.Batch Proofs.CompilePipe.
From DnsV Require Model.Cdb Proofs.Cdb Proofs.CdbRefine.
From DnsV Require Import Model.ComposeMore.
From Coq Require Import Lia Permutation.
Open Scope N_scope.

(* ------------------------------------------------------------------ serve_with depends on the reader
   only through the results of its three functions *)
Section RdExt.
Variable C : Type.
Variables rd rd' : reader C.
Hypothesis Hauth : forall c q loc, rd_auth C rd c q loc = rd_auth C rd' c q loc.
Hypothesis Hans : forall c q ctrl qname qtype loc max,
  rd_answer C rd c q ctrl qname qtype loc max = rd_answer C rd' c q ctrl qname qtype loc max.
Hypothesis Hrr : forall S c name loc (f : cb S) s, rd_rr C rd S c name loc f s = rd_rr C rd' S c name loc f s.

Lemma additional_rd_ext : forall recs L qc m c, additional C rd recs L qc m c = additional C rd' recs L qc m c.
Proof.
  induction recs as [|it t IH]; intros; cbn [additional]; [reflexivity|].
  destruct (target_of it) as [name|]; [|apply IH].
  destruct (negb (has_record m name 1) || negb (has_record m name 28)); [|apply IH].
  rewrite Hrr. destruct (rd_rr C rd' wrs c (lower_bytes name) L _ wrs_empty) as [[[w e] c1]| |]; cbn [bind]; [apply IH|reflexivity|reflexivity].
Qed.

Lemma serve_sections_rd_ext : forall q ecs L auth zc an rcode c,
  serve_sections C rd q ecs L auth zc an rcode c = serve_sections C rd' q ecs L auth zc an rcode c.
Proof.
  intros. unfold serve_sections. destruct (parse_name zc) as [[zname rest]|]; [|reflexivity].
  rewrite !Hrr. apply lift_ext. intros [nsec c4]. f_equal.
  rewrite additional_rd_ext.
  destruct (additional C rd' (m_an (mkMsg an nsec [])) L (q_class q) (mkMsg an nsec []) c4) as [[m1 c5]| |];
    cbn [bind]; [apply additional_rd_ext | reflexivity | reflexivity].
Qed.

Lemma serve_answer_rd_ext : forall q ecs L max packed ar c,
  serve_answer C rd q ecs L max packed ar c = serve_answer C rd' q ecs L max packed ar c.
Proof.
  intros. unfold serve_answer. rewrite Hans. apply lift_ext. intros [[an rcode] c3]. apply serve_sections_rd_ext.
Qed.

Lemma serve_ds_rd_ext : forall q L packed ar c, serve_ds C rd q L packed ar c = serve_ds C rd' q L packed ar c.
Proof.
  intros. unfold serve_ds. destruct (negb (a_auth ar) && (q_type q =? 43)); [|reflexivity].
  destruct (idx packed 0) as [p0| |]; cbn [bind]; try reflexivity.
  destruct (p0 =? 0); [reflexivity|].
  destruct (slice_from packed (b8 (p0 + 1))) as [rest| |]; cbn [bind]; try reflexivity.
  rewrite Hauth. reflexivity.
Qed.

Lemma serve_with_rd_ext : forall c0 q locr ecs max,
  serve_with C rd c0 q locr ecs max = serve_with C rd' c0 q locr ecs max.
Proof.
  intros. unfold serve_with.
  assert (K : forall L (x : authres * C),
    (let '(ar, c1) := x in
       if a_err ar then servfail q
       else if negb (a_ns ar) && negb (a_auth ar)
            then OReply (mkResp (q_id q) (question_of q) 5 false [] [] [] (opt_of q ecs))
            else lift (serve_ds C rd q L (lower_bytes (q_name q)) ar c1)
                   (fun r => match r with
                             | Some (ar', c2) => serve_answer C rd q ecs L max (lower_bytes (q_name q)) ar' c2
                             | None => servfail q
                             end)) =
    (let '(ar, c1) := x in
       if a_err ar then servfail q
       else if negb (a_ns ar) && negb (a_auth ar)
            then OReply (mkResp (q_id q) (question_of q) 5 false [] [] [] (opt_of q ecs))
            else lift (serve_ds C rd' q L (lower_bytes (q_name q)) ar c1)
                   (fun r => match r with
                             | Some (ar', c2) => serve_answer C rd' q ecs L max (lower_bytes (q_name q)) ar' c2
                             | None => servfail q
                             end))).
  { intros L [ar c1]. destruct (a_err ar); [reflexivity|].
    destruct (negb (a_ns ar) && negb (a_auth ar)); [reflexivity|].
    rewrite serve_ds_rd_ext. apply lift_ext. intros [[ar' c2]|]; [apply serve_answer_rd_ext | reflexivity]. }
  destruct (q_edns q) as [[|p]|]; [|reflexivity|]; (destruct locr as [| |L]; [reflexivity|reflexivity|]);
    rewrite Hauth; apply lift_ext; exact (K L).
Qed.
End RdExt.

(* ------------------------------------------------------------------ the function-store reader *)
Section FnExt.
Variable b : backend.
Variables g g' : bytes -> list row.
Hypothesis G : forall k, g k = g' k.

Lemma for_each_fn_ext : forall {S} key (f : cb S) s, for_each_fn b g key f s = for_each_fn b g' key f s.
Proof. intros. unfold for_each_fn. rewrite G. reflexivity. Qed.

Lemma for_each_rr_fn_ext : forall {S} n L (f : cb S) s, for_each_rr_fn b g n L f s = for_each_rr_fn b g' n L f s.
Proof.
  intros. unfold for_each_rr_fn. rewrite for_each_fn_ext.
  destruct (if is_loc0 L then (s, false) else for_each_fn b g' (L ++ n) f s) as [s1 e1].
  destruct e1; [reflexivity|]. apply for_each_fn_ext.
Qed.

Lemma is_auth_fn_ext : forall fuel zc L ns auth, is_auth_fn b g fuel zc L ns auth = is_auth_fn b g' fuel zc L ns auth.
Proof.
  induction fuel as [|fuel IH]; intros; [reflexivity|]. cbn [is_auth_fn].
  rewrite for_each_fn_ext.
  destruct (if is_loc0 L then (ns, auth, false) else for_each_fn b g' (L ++ zc) auth_cb (ns, auth)) as [[ns1 auth1] e1].
  destruct e1; [reflexivity|]. rewrite for_each_fn_ext.
  destruct (if auth1 && ns1 then (ns1, auth1, false) else for_each_fn b g' (loc0 ++ zc) auth_cb (ns1, auth1)) as [[ns2 auth2] e2].
  destruct e2; [reflexivity|]. destruct ns2; [reflexivity|].
  destruct (idx zc 0) as [z0| |]; cbn [bind]; try reflexivity.
  destruct (z0 =? 0); [reflexivity|].
  destruct (slice_from zc (b8 (1 + z0))) as [zc'| |]; cbn [bind]; try reflexivity. apply IH.
Qed.

Lemma find_ans_fn_ext : forall fuel q ctrl qname qtype L wild s,
  find_ans_fn b g fuel q ctrl qname qtype L wild s = find_ans_fn b g' fuel q ctrl qname qtype L wild s.
Proof.
  induction fuel as [|fuel IH]; intros; [reflexivity|]. cbn [find_ans_fn].
  rewrite !for_each_fn_ext.
  set (s2 := fst (for_each_fn b g' (loc0 ++ q) (fa_cb qname qtype wild)
                    (if is_loc0 L then s else fst (for_each_fn b g' (L ++ q) (fa_cb qname qtype wild) s)))).
  destruct (snd s2); [reflexivity|]. destruct (bytes_eqb q ctrl); [reflexivity|].
  destruct (idx q 0) as [q0| |]; cbn [bind]; try reflexivity.
  destruct (q0 =? 0); [reflexivity|].
  destruct (LookupV1.slice q 1 (b8 (q0 + 1))) as [lab| |]; cbn [bind]; try reflexivity.
  destruct (negb (wildsafe lab)); [reflexivity|].
  destruct (slice_from q (b8 (q0 + 1))) as [q'| |]; cbn [bind]; try reflexivity. apply IH.
Qed.

Theorem serve_fn_ext : forall q locr ecs max, serve_fn b g q locr ecs max = serve_fn b g' q locr ecs max.
Proof.
  intros. unfold serve_fn. apply serve_with_rd_ext.
  - intros c q0 loc. cbn [reader_fn rd_auth]. unfold is_authoritative_fn. rewrite is_auth_fn_ext. reflexivity.
  - intros c q0 ctrl qname qtype loc max0. cbn [reader_fn rd_answer]. unfold find_answer_fn. rewrite find_ans_fn_ext. reflexivity.
  - intros S c name loc f s. cbn [reader_fn rd_rr]. rewrite for_each_rr_fn_ext. reflexivity.
Qed.
End FnExt.

(* Model/Serve's handler over a Model/Store.store IS serve_fn over that store's [get] (same text) *)
Lemma serve_fn_get : forall b st q locr ecs max, b <> RDB2 ->
  serve_fn b (get st) q locr ecs max = serve b st q locr ecs max.
Proof. intros b st q locr ecs max Hb. destruct b; [reflexivity|reflexivity|contradiction]. Qed.

(* adapter: a function that agrees with a store's get serves the same *)
Theorem serve_fn_store : forall b g st, b <> RDB2 -> (forall k, g k = get st k) ->
  forall q locr ecs max, serve_fn b g q locr ecs max = serve b st q locr ecs max.
Proof.
  intros b g st Hb G q locr ecs max. rewrite <- (serve_fn_get b st q locr ecs max Hb).
  apply serve_fn_ext. exact G.
Qed.

(* ------------------------------------------------------------------ the byte-level reader on a written image *)
Lemma spec_vals_vals_of : forall kvs k, Spec.Cdb.spec_vals kvs k = vals_of k kvs.
Proof.
  intros. unfold Spec.Cdb.spec_vals, vals_of, Spec.Cdb.key_eqb. f_equal. apply filter_ext. intros p. apply Proofs.CdbRefine.bytes_eqb_sym.
Qed.

(* C16_serialize_read as a statement about the driver's ForEach *)
Lemma cdb_get_written : forall (H : bytes -> N) kvs img,
  (forall k, H k < 4294967296) -> Spec.Cdb.fits32 kvs -> Model.Cdb.write H kvs = Ok img ->
  forall k, cdb_get H (Model.Cdb.serialize img) k = vals_of k kvs.
Proof.
  intros H kvs img HH Hf Hw k. unfold cdb_get.
  rewrite (Proofs.CdbRefine.serialize_read H kvs img HH Hf Hw k). apply spec_vals_vals_of.
Qed.

(* ------------------------------------------------------------------ the store read back from the image *)
Lemma get_map_keys : forall (f : bytes -> list row) ks k, 
  get (map (fun k => (k, f k)) ks) k = if existsb (bytes_eqb k) ks then f k else [].
Proof.
  intros f ks k. induction ks as [|a t IH]; [reflexivity|]. cbn [map get existsb].
  rewrite (Proofs.CdbRefine.bytes_eqb_sym k a). destruct (bytes_eqb a k) eqn:E.
  - apply bytes_eqb_eq in E. subst a. reflexivity.
  - exact IH.
Qed.

Lemma dedup_keys_in : forall ks seen k,
  existsb (bytes_eqb k) (dedup_keys seen ks) = existsb (bytes_eqb k) ks && negb (existsb (bytes_eqb k) seen).
Proof.
  induction ks as [|a t IH]; intros seen k; [reflexivity|]. cbn [dedup_keys existsb].
  destruct (existsb (bytes_eqb a) seen) eqn:Ea.
  - rewrite IH. destruct (bytes_eqb k a) eqn:E; [|reflexivity].
    apply bytes_eqb_eq in E. subst a. rewrite Ea. cbn. rewrite andb_false_r. reflexivity.
  - cbn [existsb]. rewrite IH. cbn [existsb]. destruct (bytes_eqb k a) eqn:E.
    + apply bytes_eqb_eq in E. subst a. rewrite Ea. reflexivity.
    + cbn [orb]. reflexivity.
Qed.

Lemma get_store_of_image : forall H data keys k,
  get (store_of_image H data keys) k = if existsb (bytes_eqb k) keys then cdb_get H data k else [].
Proof.
  intros. unfold store_of_image. rewrite (get_map_keys (cdb_get H data)), dedup_keys_in. cbn [existsb negb].
  rewrite andb_true_r. reflexivity.
Qed.

Lemma vals_of_absent : forall kvs k, existsb (bytes_eqb k) (map fst kvs) = false -> vals_of k kvs = [].
Proof.
  intros kvs k. unfold vals_of. induction kvs as [|p t IH]; [reflexivity|]. cbn [map existsb filter].
  rewrite (Proofs.CdbRefine.bytes_eqb_sym k (fst p)). destruct (bytes_eqb (fst p) k); [discriminate|]. exact IH.
Qed.

(* ADAPTER: reading every written key back from the file image gives the per-key value sequences store
   of C01_file_level_cdb / C01_store_of_rows *)
Theorem store_of_image_rows : forall (H : bytes -> N) kvs img,
  (forall k, H k < 4294967296) -> Spec.Cdb.fits32 kvs -> Model.Cdb.write H kvs = Ok img ->
  forall k, get (store_of_image H (Model.Cdb.serialize img) (map fst kvs)) k = vals_of k kvs.
Proof.
  intros H kvs img HH Hf Hw k. rewrite get_store_of_image.
  destruct (existsb (bytes_eqb k) (map fst kvs)) eqn:E.
  - exact (cdb_get_written H kvs img HH Hf Hw k).
  - symmetry. exact (vals_of_absent kvs k E).
Qed.

Lemma store_of_image_nodup : forall H data keys, NoDup (map fst (store_of_image H data keys)).
Proof.
  intros. unfold store_of_image. rewrite map_map. cbn [fst]. rewrite map_id.
  assert (G : forall ks seen, NoDup (dedup_keys seen ks) /\ forall k, In k (dedup_keys seen ks) -> ~ In k seen).
  { induction ks as [|a t IH]; intros seen; [split; [constructor|contradiction]|]. cbn [dedup_keys].
    destruct (existsb (bytes_eqb a) seen) eqn:Ea; [apply IH|].
    destruct (IH (a :: seen)) as (ND & Hn). split.
    - constructor; [|exact ND]. intros Hin. apply (Hn a Hin). left. reflexivity.
    - intros k [<-|Hk] Hs.
      + assert (X : existsb (bytes_eqb a) seen = true) by (apply existsb_exists; exists a; split; [exact Hs|apply bytes_eqb_refl]).
        rewrite Ea in X. discriminate.
      + apply (Hn k Hk). right. exact Hs. }
  apply G.
Qed.

(* ================================================================== the composition *)
(* C16_served_from_cdb_bytes: the handler whose [get] is the byte-level reader on the written file *)
Theorem served_from_cdb_bytes : forall o serial nornet accum feature f,
  wf_file o serial f = true -> side_ok accum feature f ->
  forall stream kvs (H : bytes -> N) img L,
  Permutation stream (records bytes (conv_line o serial nornet false) accum feature f) ->
  compile_cdb bytes (conv_line o serial nornet false) f stream = Ok kvs ->
  (forall k, H k < 4294967296) -> Spec.Cdb.fits32 kvs -> Model.Cdb.write H kvs = Ok img ->
  loc_okb L = true -> wf_view L (declared_file o serial f) = true ->
  forall q n ecs max x, wf_name n -> nlen (pack n) <= 255 -> lower_bytes (q_name q) = pack n ->
  (q_edns q = None \/ q_edns q = Some 0) ->
  serve_fn CDB (cdb_get H (Model.Cdb.serialize img)) q (LocOk L) ecs max = OReply x ->
  response_refines L (declared_file o serial f) n q ecs max x.
Proof.
  intros o serial nornet accum feature f WF SO stream kvs H img L P CC HH Hf Hw LO V q n ecs max x Hn Hl Hq He Hs.
  rewrite (serve_fn_store CDB (cdb_get H (Model.Cdb.serialize img)) (store_of kvs)) in Hs.
  - exact (file_level_cdb o serial nornet accum feature f WF SO stream kvs (store_of kvs) L P CC (store_of_rows kvs)
             LO V q n ecs max x Hn Hl Hq He Hs).
  - discriminate.
  - intros k. rewrite (cdb_get_written H kvs img HH Hf Hw k). symmetry. apply store_of_rows.
Qed.

(* the same through Model/Serve's own store interface: the store read back from the image *)
Theorem served_from_cdb_image_store : forall o serial nornet accum feature f,
  wf_file o serial f = true -> side_ok accum feature f ->
  forall stream kvs (H : bytes -> N) img L,
  Permutation stream (records bytes (conv_line o serial nornet false) accum feature f) ->
  compile_cdb bytes (conv_line o serial nornet false) f stream = Ok kvs ->
  (forall k, H k < 4294967296) -> Spec.Cdb.fits32 kvs -> Model.Cdb.write H kvs = Ok img ->
  loc_okb L = true -> wf_view L (declared_file o serial f) = true ->
  forall q n ecs max x, wf_name n -> nlen (pack n) <= 255 -> lower_bytes (q_name q) = pack n ->
  (q_edns q = None \/ q_edns q = Some 0) ->
  serve CDB (store_of_image H (Model.Cdb.serialize img) (map fst kvs)) q (LocOk L) ecs max = OReply x ->
  response_refines L (declared_file o serial f) n q ecs max x.
Proof.
  intros o serial nornet accum feature f WF SO stream kvs H img L P CC HH Hf Hw LO V q n ecs max x Hn Hl Hq He Hs.
  exact (file_level_cdb o serial nornet accum feature f WF SO stream kvs _ L P CC (store_of_image_rows H kvs img HH Hf Hw)
           LO V q n ecs max x Hn Hl Hq He Hs).
Qed.

(* the image exists (C16_write_ok) *)
Theorem cdb_image_exists : forall (H : bytes -> N) kvs, Spec.Cdb.fits32 kvs -> exists img, Model.Cdb.write H kvs = Ok img.
Proof. exact Proofs.Cdb.write_ok. Qed.
