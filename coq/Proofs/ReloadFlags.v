From DnsV Require Import Base.Bytes Model.Reload Proofs.Reload Proofs.ReloadBase.
From Coq Require Import Lia ZifyN ZifyNat ZifyBool.
Open Scope N_scope.
Section P.
Variable refusedf weightedf : N -> N -> bool.
Variable cfg : config.
Notation step := (step refusedf weightedf cfg).

Definition begun (pc : rpc) : bool := match pc with RStart | RLocked => false | _ => true end.

(* flags written by r_begin: false before, frozen afterwards *)
Definition Flags (st : state) : Prop :=
  forall i r, rat st i r -> begun (r_pc r) = false -> r_inplace r = false /\ r_late r = false.

Lemma Flags_step st t st' : Flags st -> step st t = Some st' -> Flags st'.
Proof.
  intros HF H. inv_step H.
  all: unfold Flags, qat, rat, qread, qset_pc, rset_pc in *; cbn in *.
  all: intros ? ? HN; split_upd; cbn in *; intros; try discriminate; eauto.
  all: pcs; cbn in *; try discriminate;
       repeat match goal with Hr : nth_error (st_rs _) _ = Some _ |- _ => pose proof (HF _ _ Hr); revert Hr end; intros;
       pcs; cbn in *; triv_prem; auto.
Qed.

Lemma frozen_step st t st' i r :
  step st t = Some st' -> rat st i r -> begun (r_pc r) = true ->
  exists r', rat st' i r' /\ begun (r_pc r') = true /\ r_inplace r' = r_inplace r /\ r_late r' = r_late r /\
             r_newpath r' = r_newpath r /\ r_seen_last r' = r_seen_last r.
Proof.
  intros H HR HB. unfold rat in *. inv_step H; cbn.
  all: try (eexists; split; [eassumption|auto]).
  all: match goal with
       | |- context [upd ?i0 ?x _] =>
           destruct (Nat.eq_dec i0 i) as [->|NE];
           [ erewrite nth_error_upd_same by eassumption; eexists; split; [reflexivity|];
             match goal with H1 : nth_error ?l ?k = Some ?a, H2 : nth_error ?l ?k = Some ?b |- _ =>
               rewrite H1 in H2; inversion H2; subst end; pcs; cbn in *; try discriminate; auto
           | rewrite nth_error_upd_other by assumption; eexists; split; [eassumption|auto] ]
       end.
Qed.

Definition no_late (st : state) : Prop := forall i r, rat st i r -> r_late r = false.

Lemma no_late_back st t st' : Flags st -> step st t = Some st' -> no_late st' -> no_late st.
Proof.
  intros HF H HN i r HR.
  destruct (begun (r_pc r)) eqn:B.
  - destruct (frozen_step _ _ _ _ _ H HR B) as (r'&R1&_&_&L&_). rewrite <- L. eapply HN; eauto.
  - apply (HF _ _ HR B).
Qed.

End P.
