(* ClientSpecLink: the short client-location spec (Spec/ClientLocation.v) in the vocabulary of the
   C03 / C10 theorems: its subnets are C03's nets_of of the file's subnet lines, its deciding
   location is Proofs/Ecs.decides, its scope Proofs/Ecs.expected_scope; and the location it names is
   \000\000 or the location of a declared subnet. *)
From DnsV Require Import Base.Bytes Base.Ip Spec.Lpm Model.Rearranger Model.Location Model.Ecs.
From DnsV Require Import Model.Text Model.Accum Spec.ClientLocation.
From DnsV Require Import Proofs.Lpm Proofs.Location Proofs.Ecs.
From Coq Require Import Lia.
Open Scope N_scope.

Lemma declared_subnets_nets : forall rs m, declared_subnets rs m = file_nets rs m.
Proof.
  intros rs m. unfold file_nets, nets_of, net_dfile, netlines. cbn [f_nets].
  induction rs as [|r t IH]; [reflexivity|].
  cbn [declared_subnets flat_map]. fold (declared_subnets t m). rewrite filter_app, map_app, <- IH.
  f_equal. destruct r; try reflexivity. cbn [netline_of filter nl_map].
  change (two_bytes lmap) with (id_of lmap). destruct (id_eqb (id_of lmap) m); reflexivity.
Qed.

(* the option of a request as the spec takes it *)
Definition ecs_in_of (e : ecs) : ecs_in := (e_fam e, e_src e, e_addr e).

Lemma ecs_match_decides : forall rs n e,
  loc_of (ecs_match rs n (ecs_in_of e)) = ecs_decides (file_nets rs) (name_map rs 56 n) e.
Proof.
  intros rs n e. unfold ecs_match, ecs_in_of, ecs_decides, ecs_family, ecs_plen.
  destruct ((e_fam e =? 1) || (e_fam e =? 2)); cbn [negb]; [|reflexivity].
  destruct (id_eqb (name_map rs 56 n) (0, 0)); [reflexivity|].
  rewrite declared_subnets_nets. reflexivity.
Qed.

Lemma resolver_match_decides : forall rs n rip,
  loc_of (resolver_match rs n rip) = resolver_decides (file_nets rs) (name_map rs 77 n) rip.
Proof. intros. unfold resolver_match, resolver_decides. rewrite declared_subnets_nets. reflexivity. Qed.

Theorem client_view_decides : forall rs n rip cq,
  client_view rs n rip (option_map ecs_in_of (query_ecs cq)) =
  decides (file_nets rs) (name_map rs 56 n) (name_map rs 77 n) cq rip.
Proof.
  intros rs n rip cq. unfold client_view, decides. destruct (query_ecs cq) as [e|]; cbn [option_map].
  - rewrite ecs_match_decides, resolver_match_decides. reflexivity.
  - change (id_eqb (0, 0) (0, 0)) with true. cbv iota. apply resolver_match_decides.
Qed.

Theorem scope_view_expected : forall rs n e,
  scope_view rs n (ecs_in_of e) = expected_scope (file_nets rs) (name_map rs 56 n) e.
Proof.
  intros rs n e. unfold scope_view, ecs_in_of, expected_scope.
  destruct (negb ((e_fam e =? 1) || (e_fam e =? 2))) eqn:F; [reflexivity|].
  destruct (id_eqb (name_map rs 56 n) (0, 0)) eqn:M; [reflexivity|].
  unfold ecs_match. apply Bool.negb_false_iff in F. rewrite F, M, declared_subnets_nets.
  unfold ecs_family, ecs_plen. reflexivity.
Qed.

(* the location the spec names is \000\000 or the location of a subnet line *)
Definition subnet_locs (rs : list Text.record) : list locid :=
  flat_map (fun r => match r with RNet lo _ _ _ => [id_of lo] | _ => [] end) rs.

Lemma declared_subnets_locs : forall rs m s, In s (declared_subnets rs m) -> In (s_loc s) (subnet_locs rs).
Proof.
  induction rs as [|r t IH]; intros m s H; [destruct H|].
  cbn [declared_subnets flat_map] in H. fold (declared_subnets t m) in H. cbn [subnet_locs flat_map]. fold (subnet_locs t).
  apply in_app_or in H as [H|H]; apply in_or_app; [left | right; exact (IH m s H)].
  destruct r; try destruct H. destruct (id_eqb (id_of lmap) m); [|destruct H].
  destruct H as [<-|[]]. left. reflexivity.
Qed.

Lemma loc_of_lpm_in : forall rs m f a p, loc_of (lpm (declared_subnets rs m) f a p) = (0, 0) \/
  In (loc_of (lpm (declared_subnets rs m) f a p)) (subnet_locs rs).
Proof.
  intros rs m f a p. destruct (lpm (declared_subnets rs m) f a p) as [[loc len]|] eqn:E; [|left; reflexivity].
  right. destruct (lpm_sound _ _ _ _ _ _ E) as (s & Hs & _ & <- & _). exact (declared_subnets_locs rs m s Hs).
Qed.

Theorem client_view_in : forall rs n rip e,
  client_view rs n rip e = (0, 0) \/ In (client_view rs n rip e) (subnet_locs rs).
Proof.
  intros rs n rip e. unfold client_view.
  set (by_ecs := match e with Some x => loc_of (ecs_match rs n x) | None => (0, 0) end).
  destruct (id_eqb by_ecs (0, 0)) eqn:Z.
  - unfold resolver_match. apply loc_of_lpm_in.
  - right. unfold by_ecs in *. destruct e as [[[fam src] addr]|]; [|discriminate Z].
    unfold ecs_match in *. destruct ((fam =? 1) || (fam =? 2)); [|discriminate Z].
    destruct (id_eqb (name_map rs 56 n) (0, 0)); [discriminate Z|].
    match goal with |- In (loc_of (lpm ?S ?f ?a ?p)) _ => destruct (loc_of_lpm_in rs (name_map rs 56 n) f a p) as [X|X] end;
      [rewrite X in Z; discriminate Z | exact X].
Qed.
