From DnsV Require Import Base.Bytes Model.Reload Proofs.Reload Proofs.ReloadBase Proofs.ReloadFlags Proofs.ReloadVis.
From Coq Require Import Lia ZifyN ZifyNat ZifyBool.
Open Scope N_scope.
Section P.
Variable refusedf weightedf : N -> N -> bool.
Variable cfg : config.
Notation step := (step refusedf weightedf cfg).

Lemma f6_mono st t st' : step st t = Some st' -> st_f6 st = true -> st_f6 st' = true.
Proof. intros H F. inv_step H; unfold catch_up, set_backs; cbn; rewrite ?F; auto. Qed.

Lemma existsb_false_in {A} (f : A -> bool) l x : existsb f l = false -> In x l -> f x = false.
Proof.
  intros H I. destruct (f x) eqn:E; auto.
  assert (existsb f l = true) by (apply existsb_exists; eauto). congruence.
Qed.

(* entries of the cache are not older than the last purge; reloads past their purge
   installed nothing newer than the purge point *)
Record NS (st : state) : Prop := {
  N_c : st_f6 st = false -> forall k e, In (k, e) (st_cache st) -> forall g, In g e -> st_purged st <= g_epoch g;
  N_r : c_cache cfg = true -> forall i r, rat st i r -> (r_pc r = RPurged \/ r_pc r = RDone None) ->
        r_epoch r <= st_purged st;
  N_resp : forall j q l, qat st j q -> q_resp q = Some l ->
           q_pc q = QDone /\
           ((q_cached q = true /\ q_hit q = Some l) \/ (q_cached q = false /\ l = q_reads q))
}.

Lemma NS_step st t st' : Epo st -> NS st -> step st t = Some st' -> NS st'.
Proof.
  intros [HE HP HQ HR] [NC NR NP] H.
  pose proof (f6_mono _ _ _ H) as FM.
  inv_step H.
  all: constructor; unfold qat, rat, qread, qset_pc, rset_pc, catch_up, set_backs, stale_read in *; cbn in *.
  all: match goal with
       | |- _ = false -> _ => intros F6 ? ? HI ? HG
       | |- _ = true -> _ => intros CC ? ? HN HPc
       | |- _ => intros ? ? ? HN HPc
       end.
  all: try (assert (F : st_f6 st = false) by (destruct (st_f6 st); auto; specialize (FM eq_refl); congruence)).
  all: try solve [eauto].
  all: try solve [contradiction].
  all: try solve [split_upd; cbn in *; pcs; cbn in *; try (destruct HPc; discriminate); eauto;
                  repeat match goal with Hr : nth_error (st_rs _) _ = Some _ |- _ => pose proof (HR _ _ Hr); pose proof (NR CC _ _ Hr); revert Hr end; intros;
                  pcs; cbn in *;
                  repeat match goal with X : _ \/ _ -> _ |- _ => first [specialize (X (or_introl eq_refl)) | specialize (X (or_intror eq_refl)) | specialize (X HPc)] end;
                  try lia].
  all: try solve [split_upd; cbn in *; try discriminate; eauto;
                  try (inversion HPc; subst; auto)].
  all: try solve [split_upd; cbn in *; try discriminate; try (eapply NP; eassumption);
                  try (inversion HPc; subst; auto);
                  match goal with Hq : nth_error (st_qs _) _ = Some _ |- _ => destruct (NP _ _ _ Hq HPc) as (?&?); congruence end].
  all: try solve [apply in_cadd in HI; destruct HI as [(?&?)|HI]; subst; [|eapply NC; eauto];
                  rewrite Bool.orb_false_iff in F6; destruct F6 as (_&F6);
                  pose proof (existsb_false_in _ _ _ F6 HG) as X; cbn in X; lia].
Qed.

(* a cache hit of a query that took the read lock after a successful reload returned
   delivers nothing older than what that reload installed (while st_f6 is down) *)
Definition HitFresh (st : state) : Prop :=
  st_f6 st = false ->
  forall i j r q, rat st i r -> qat st j q -> r_pc r = RDone None -> q_pc q <> QStart ->
  r_unlock_at r < q_acq_at q ->
  forall e, q_hit q = Some e -> forall g, In g e -> r_epoch r <= g_epoch g.

Lemma HitFresh_step st t st' : Clk st -> NS st -> HitFresh st -> step st t = Some st' -> HitFresh st'.
Proof.
  intros [KQ KR] [NC NR _] HV H F'.
  assert (F : st_f6 st = false).
  { destruct (st_f6 st) eqn:E; auto. rewrite (f6_mono _ _ _ H E) in F'; discriminate. }
  specialize (HV F). specialize (NC F). clear F'.
  inv_step H.
  all: unfold qat, rat, qread, qset_pc, rset_pc in *; cbn in *.
  all: intros ? ? ? ? HN1 HN2 HD HS HLt ? HH ? HG; split_upd; cbn in *; pcs; cbn in *; try discriminate.
  all: try solve [eapply HV; eauto; pcs; cbn; try discriminate; auto].
  all: try solve [exfalso;
                  repeat match goal with Hq : nth_error (st_qs _) _ = Some _ |- _ => pose proof (KQ _ _ Hq); revert Hq end; intros;
                  repeat match goal with Hr : nth_error (st_rs _) _ = Some _ |- _ => pose proof (KR _ _ Hr); revert Hr end; intros;
                  dest_and; pcs; cbn in *; triv_prem; fwd; lia].
  all: try solve [inversion HH; subst;
                  match goal with E : clookup _ _ = Some _ |- _ => apply clookup_in in E; pose proof (NC _ _ E _ HG) end;
                  match goal with Hr : nth_error (st_rs _) _ = Some _ |- _ => first [pose proof (NR eq_refl _ _ Hr (or_intror HD)) | match goal with CC : c_cache cfg = true |- _ => pose proof (NR CC _ _ Hr (or_intror HD)) end] end;
                  lia].
Qed.
End P.
