(* The store a list of declared records compiles to (v1 keys), and what get returns on it. *)
From DnsV Require Import Base.Bytes Model.Store Model.LookupV1 Spec.Answer Spec.Rows Proofs.Answer.
From Coq Require Import ZifyN ZifyNat ZifyBool.
Open Scope N_scope.

Lemma bytes_eqb_eq : forall a b, bytes_eqb a b = true <-> a = b.
Proof.
  induction a as [|x a IH]; destruct b as [|y b]; cbn; split; intros H; try reflexivity; try discriminate.
  - apply andb_prop in H as [H1 H2]. apply N.eqb_eq in H1. apply IH in H2. subst. reflexivity.
  - inversion H; subst. rewrite N.eqb_refl. cbn. apply IH. reflexivity.
Qed.
Lemma bytes_eqb_refl : forall a, bytes_eqb a a = true.
Proof. intros. apply bytes_eqb_eq. reflexivity. Qed.
Lemma bytes_eqb_neq : forall a b, bytes_eqb a b = false <-> a <> b.
Proof.
  intros. split; intros H.
  - intros E. apply bytes_eqb_eq in E. rewrite E in H. discriminate.
  - destruct (bytes_eqb a b) eqn:E; [apply bytes_eqb_eq in E; contradiction | reflexivity].
Qed.

(* rows are appended under their key in the order of arrival (CDB: insertion order) *)
Fixpoint store_add (s : store) (k : bytes) (v : row) : store :=
  match s with
  | [] => [(k, [v])]
  | (k', vs) :: t => if bytes_eqb k' k then (k', vs ++ [v]) :: t else (k', vs) :: store_add t k v
  end.
Definition store_of (kvs : list (bytes * bytes)) : store :=
  fold_left (fun s kv => store_add s (fst kv) (snd kv)) kvs [].
Definition store_v1 (recs : list record) : store := store_of (rows_of_v1 recs).

Lemma get_store_add : forall s k v k',
  get (store_add s k v) k' = if bytes_eqb k k' then get s k' ++ [v] else get s k'.
Proof.
  induction s as [|[k0 vs] t IH]; intros k v k'; cbn [store_add get].
  - destruct (bytes_eqb k k'); reflexivity.
  - destruct (bytes_eqb k0 k) eqn:E; cbn [get].
    + apply bytes_eqb_eq in E; subst. destruct (bytes_eqb k k'); reflexivity.
    + destruct (bytes_eqb k0 k') eqn:E2.
      * apply bytes_eqb_eq in E2; subst. destruct (bytes_eqb k k') eqn:E3; [|reflexivity].
        apply bytes_eqb_eq in E3; subst. rewrite bytes_eqb_refl in E. discriminate.
      * apply IH.
Qed.

Lemma get_fold : forall kvs s k,
  get (fold_left (fun s kv => store_add s (fst kv) (snd kv)) kvs s) k = get s k ++ rows_for k kvs.
Proof.
  induction kvs as [|[k0 v0] t IH]; intros s k; cbn [fold_left].
  - unfold rows_for. cbn. rewrite app_nil_r. reflexivity.
  - rewrite IH, get_store_add. unfold rows_for. cbn [filter fst snd].
    destruct (bytes_eqb k0 k); cbn [map]; [rewrite <- app_assoc; reflexivity | reflexivity].
Qed.

(* get on the compiled store = the rows declared for that key, in file order *)
Lemma get_store_of : forall kvs k, get (store_of kvs) k = rows_for k kvs.
Proof. intros. unfold store_of. rewrite get_fold. reflexivity. Qed.

Lemma rows_for_v1 : forall recs k,
  rows_for k (rows_of_v1 recs) = map row_of (filter (fun r => bytes_eqb (key_v1 r) k) recs).
Proof.
  induction recs as [|r t IH]; intros k; [reflexivity|].
  unfold rows_for, rows_of_v1 in *. cbn [map filter fst]. destruct (bytes_eqb (key_v1 r) k); cbn [map snd]; rewrite IH; reflexivity.
Qed.

(* tagged records carry a two-byte location other than 00 *)
Definition wf_locs (recs : list record) : Prop :=
  forall r l, In r recs -> r_loc r = Some l -> length l = 2%nat /\ l <> [0; 0].

Lemma app2_inj : forall (a b x y : bytes), length a = 2%nat -> length b = 2%nat -> a ++ x = b ++ y -> a = b /\ x = y.
Proof.
  intros a b x y Ha Hb H.
  destruct a as [|a0 [|a1 [|]]]; try discriminate. destruct b as [|b0 [|b1 [|]]]; try discriminate.
  cbn in H. inversion H; subst. split; reflexivity.
Qed.

(* a record stored under a key the v1 reader probes for location L is visible to L *)
Lemma probed_visible : forall recs L n r,
  wf_locs recs -> length L = 2%nat -> In r recs ->
  (key_v1 r = L ++ n \/ key_v1 r = loc0 ++ n) -> visible L r = true.
Proof.
  intros recs L n r W HL Hin [H|H]; unfold key_v1, loc_bytes, visible in *.
  - destruct (r_loc r) as [l|] eqn:E; [|reflexivity].
    destruct (W r l Hin E) as [W1 W2]. destruct (app2_inj l L (pack (r_owner r)) n W1 HL H) as [H1 _].
    subst. apply bytes_eqb_refl.
  - destruct (r_loc r) as [l|] eqn:E; [|reflexivity].
    destruct (W r l Hin E) as [W1 W2]. destruct (app2_inj l loc0 (pack (r_owner r)) n W1 eq_refl H) as [H1 _].
    contradiction.
Qed.

Lemma filter_visible_key : forall recs recs0 L n k,
  wf_locs recs0 -> length L = 2%nat -> (forall r, In r recs -> In r recs0) -> (k = L ++ n \/ k = loc0 ++ n) ->
  filter (fun r => bytes_eqb (key_v1 r) k) recs = filter (fun r => bytes_eqb (key_v1 r) k) (filter (visible L) recs).
Proof.
  induction recs as [|r t IH]; intros recs0 L n k W HL Sub Hk; [reflexivity|]. cbn [filter].
  assert (Sub' : forall r0, In r0 t -> In r0 recs0) by (intros; apply Sub; right; assumption).
  destruct (bytes_eqb (key_v1 r) k) eqn:E.
  - apply bytes_eqb_eq in E.
    assert (V : visible L r = true).
    { eapply probed_visible; eauto. apply Sub; left; reflexivity.
      destruct Hk as [-> | ->]; [left | right]; exact E. }
    rewrite V. cbn [filter]. apply bytes_eqb_eq in E. rewrite E. f_equal. eapply IH; eauto.
  - destruct (visible L r); cbn [filter]; [rewrite E|]; eapply IH; eauto.
Qed.

(* the compiled stores of two record sets with the same view for L agree on every key the
   v1 reader probes for a client in L *)
Lemma same_view_agree : forall L recs recs' k n,
  wf_locs recs -> wf_locs recs' -> length L = 2%nat -> same_view L recs recs' ->
  (k = L ++ n \/ k = loc0 ++ n) ->
  get (store_v1 recs) k = get (store_v1 recs') k.
Proof.
  intros L recs recs' k n W W' HL SV Hk. unfold store_v1. rewrite !get_store_of, !rows_for_v1.
  rewrite (filter_visible_key recs recs L n k W HL (fun r H => H) Hk).
  rewrite (filter_visible_key recs' recs' L n k W' HL (fun r H => H) Hk).
  unfold same_view in SV. rewrite SV. reflexivity.
Qed.
