(* Proofs about Model/Compile.v (property C07): createBuckets cuts the sorted array
   into consecutive non-empty ranges and never between two equal keys; the builder,
   the batch compiler (any batch size, any order of the batch writers) and the CDB
   compiler all produce, read as key -> multiset of values, exactly the records the
   line-by-line codec emits; a rejected line fails every compiler.
   ExecuteBatch enters through execute_batch_perkey of Proofs/Batch.v (C15). *)
From DnsV Require Import Model.Compile Spec.MapOfLists Proofs.MultiValue Proofs.MapOfLists Proofs.BytesOrder Proofs.Batch.
From Coq Require Import Permutation Sorted ZifyN ZifyNat ZifyBool.
Open Scope N_scope.

(* ---------------------------------------------------------------- lists and indices *)

Lemma skipn_nth_error : forall {A} (l : list A) i x, nth_error l i = Some x -> skipn i l = x :: skipn (S i) l.
Proof.
  induction l as [|y l IH]; intros i x H; destruct i; simpl in *; try discriminate.
  - inversion H; subst. reflexivity.
  - apply IH. assumption.
Qed.

Lemma nth_error_in_range : forall {A} (l : list A) i, (i < length l)%nat -> exists x, nth_error l i = Some x.
Proof.
  intros A l i H. destruct (nth_error l i) eqn:E; [eauto|]. apply nth_error_None in E. lia.
Qed.

Lemma key_at_some : forall keys i, i < nlen keys -> exists k, key_at keys i = Some k.
Proof. intros keys i H. unfold key_at. apply nth_error_in_range. unfold nlen in H. lia. Qed.

(* ---------------------------------------------------------------- createBuckets *)

(* consecutive non-empty ranges from s to len, no boundary between two equal keys *)
Inductive chain (keys : list bytes) (len : N) : N -> list (N * N) -> Prop :=
| chain_last : forall s, s < len -> chain keys len s [(s, len)]
| chain_cons : forall s e r, s < e -> e < len -> key_at keys (e - 1) <> key_at keys e ->
    chain keys len e r -> chain keys len s ((s, e) :: r).

Lemma scan_end_spec : forall fuel keys len e0, len = nlen keys -> 1 <= e0 -> e0 <= len ->
  (N.to_nat (len - e0) < fuel)%nat ->
  exists e, scan_end fuel keys len e0 = Ok e /\ e0 <= e /\ e <= len /\
            (e < len -> key_at keys (e - 1) <> key_at keys e).
Proof.
  induction fuel as [|f IH]; intros keys len e0 L H1 H2 F; [lia|].
  cbn [scan_end]. destruct (e0 <? len) eqn:C.
  - assert (e0 =? 0 = false) as Z by lia. rewrite Z.
    destruct (key_at_some keys e0) as [a Ea]; [lia|].
    destruct (key_at_some keys (e0 - 1)) as [b Eb]; [lia|].
    rewrite Ea, Eb. destruct (bytes_eqb a b) eqn:Eq.
    + destruct (IH keys len (e0 + 1)) as [e [R [A [B D]]]]; try lia.
      exists e. repeat split; try assumption; lia.
    + exists e0. repeat split; try lia. intros _. rewrite Ea, Eb. intro X. inversion X; subst.
      rewrite bytes_eqb_refl in Eq. discriminate.
  - exists e0. repeat split; lia.
Qed.

Lemma buckets_loop_spec : forall rem keys len size start, len = nlen keys -> 1 <= size -> start < len ->
  (1 <= rem)%nat ->
  exists bks, buckets_loop rem keys len size start = Ok bks /\ chain keys len start bks /\ (length bks <= rem)%nat.
Proof.
  induction rem as [|rem IH]; intros keys len size start L Sz H R; [lia|].
  cbn [buckets_loop]. destruct rem as [|rem'].
  - rewrite N.eqb_refl. exists [(start, len)]. split; [reflexivity|]. split; [constructor; assumption | simpl; lia].
  - destruct (scan_end_spec (S (length keys)) keys len (N.min (start + size) len)) as [e [E [A [B D]]]]; try lia.
    { unfold nlen in L. lia. }
    rewrite E. destruct (e =? len) eqn:C.
    + apply N.eqb_eq in C. subst e. exists [(start, len)]. split; [reflexivity|].
      split; [constructor; assumption | simpl; lia].
    + apply N.eqb_neq in C.
      destruct (IH keys len size e) as [bks [R1 [R2 R3]]]; try lia.
      rewrite R1. exists ((start, e) :: bks). split; [reflexivity|]. split.
      * constructor; try lia; [apply D; lia | assumption].
      * simpl. lia.
Qed.

Lemma create_buckets_ok : forall min_size nb keys, 1 <= min_size -> (1 <= nb)%nat -> keys <> [] ->
  exists bks, create_buckets min_size nb keys = Ok bks /\ chain keys (nlen keys) 0 bks /\ (length bks <= nb)%nat.
Proof.
  intros min_size nb keys M B K. unfold create_buckets. destruct nb as [|nb']; [lia|].
  apply buckets_loop_spec; try lia.
  destruct keys; [contradiction|]. rewrite nlen_cons. lia.
Qed.

(* ---------------------------------------------------------------- from offsets to pieces of the array *)

Lemma nth_error_skipn' : forall {A} (l : list A) s i, nth_error (skipn s l) i = nth_error l (s + i).
Proof.
  induction l as [|y l IH]; intros s i; destruct s; simpl; try reflexivity.
  - destruct i; reflexivity.
  - apply IH.
Qed.

Lemma firstn_succ_nth : forall {A} (L : list A) n x, nth_error L n = Some x -> firstn (S n) L = firstn n L ++ [x].
Proof.
  induction L as [|y L IH]; intros n x H; destruct n; simpl in *; try discriminate.
  - inversion H; subst. reflexivity.
  - f_equal. apply IH. assumption.
Qed.

Lemma skipn_skipn' : forall {A} (l : list A) a b, skipn a (skipn b l) = skipn (b + a) l.
Proof.
  induction l as [|y l IH]; intros a b; destruct b; simpl; try reflexivity.
  - destruct a; reflexivity.
  - apply IH.
Qed.

Lemma ndrop_split : forall {A} (l : list A) s e, s <= e -> ndrop s l = slice l s e ++ ndrop e l.
Proof.
  intros A l s e H. unfold slice, ntake, ndrop.
  rewrite <- (firstn_skipn (N.to_nat (e - s)) (skipn (N.to_nat s) l)) at 1.
  f_equal. rewrite skipn_skipn'. f_equal. lia.
Qed.

Lemma ndrop_head : forall (l : list kv) e, e < nlen l ->
  exists k v, ndrop e l = (k, v) :: ndrop (e + 1) l /\ key_at (map fst l) e = Some k.
Proof.
  intros l e H. destruct (nth_error_in_range l (N.to_nat e)) as [[k v] E]; [unfold nlen in H; lia|].
  exists k, v. split.
  - unfold ndrop. rewrite (skipn_nth_error l _ _ E). f_equal. f_equal. lia.
  - unfold key_at. rewrite nth_error_map, E. reflexivity.
Qed.

Fixpoint last_key (pk : bytes) (l : list kv) : bytes :=
  match l with [] => pk | (k, _) :: r => last_key k r end.

Lemma last_key_snoc : forall l pk k v, last_key pk (l ++ [(k, v)]) = k.
Proof. induction l as [|[k' v'] l IH]; intros; simpl; [reflexivity | apply IH]. Qed.

Lemma slice_last : forall (l : list kv) s e k v l1, s < e -> e <= nlen l -> slice l s e = (k, v) :: l1 ->
  key_at (map fst l) (e - 1) = Some (last_key k l1).
Proof.
  intros l s e k v l1 H1 H2 E.
  destruct (nth_error_in_range l (N.to_nat (e - 1))) as [[k' v'] X]; [unfold nlen in H2; lia|].
  assert (Y : slice l s e = slice l s (e - 1) ++ [(k', v')]).
  { unfold slice, ntake, ndrop. replace (N.to_nat (e - s)) with (S (N.to_nat (e - 1 - s))) by lia.
    apply firstn_succ_nth. rewrite nth_error_skipn'. rewrite <- X. f_equal. lia. }
  unfold key_at. rewrite nth_error_map, X. simpl. f_equal.
  rewrite Y in E. destruct (slice l s (e - 1)) as [|[k0 v0] A]; simpl in E.
  - inversion E; subst. reflexivity.
  - inversion E; subst. symmetry. apply last_key_snoc.
Qed.

(* the array cut into pieces: every piece is not empty and the last key of a piece
   differs from the first key of the next *)
Inductive split_ok : list kv -> list (list kv) -> Prop :=
| split_one : forall k v l, split_ok ((k, v) :: l) [(k, v) :: l]
| split_cons : forall k v l1 k2 v2 l2 r, last_key k l1 <> k2 -> split_ok ((k2, v2) :: l2) r ->
    split_ok (((k, v) :: l1) ++ (k2, v2) :: l2) (((k, v) :: l1) :: r).

Lemma chain_split : forall sorted s bks, chain (map fst sorted) (nlen sorted) s bks ->
  split_ok (ndrop s sorted) (map (fun b => slice sorted (fst b) (snd b)) bks).
Proof.
  intros sorted s bks C. induction C as [s H | s e r H1 H2 H3 C IH].
  - destruct (ndrop_head sorted s H) as [k [v [E _]]]. simpl.
    assert (X : slice sorted s (nlen sorted) = ndrop s sorted).
    { unfold slice. apply ntake_all. apply nlen_ndrop. }
    rewrite X, E. constructor.
  - simpl. rewrite (ndrop_split sorted s e) by lia.
    destruct (ndrop_head sorted e H2) as [k2 [v2 [E2 K2]]].
    destruct (slice sorted s e) as [|[k v] l1] eqn:Es.
    + exfalso. assert (L : nlen (slice sorted s e) = e - s).
      { unfold slice, ntake, ndrop, nlen. rewrite firstn_length, skipn_length. unfold nlen in H2. lia. }
      rewrite Es in L. simpl in L. unfold nlen in L. simpl in L. lia.
    + rewrite E2 in *. apply split_cons; [|exact IH].
      intro X. apply H3. rewrite K2. rewrite (slice_last sorted s e k v l1); try lia; [|assumption].
      rewrite X. reflexivity.
Qed.
