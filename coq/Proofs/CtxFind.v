(* The closest-key walk (sortedDataReader.find) does not depend on the context cache: with any
   cache that holds only entries written by FindClosest (closest_sound - in particular the empty
   cache a request starts with, and every cache an earlier walk of the same request leaves
   behind) it computes what the cache-free walk [find_pure] computes, and leaves such a cache. *)
From DnsV Require Import Base.Bytes Model.Store Model.LookupV1 Model.LookupV2 Proofs.Store Proofs.Compile Proofs.Ctx.
Open Scope N_scope.

Section Pure.
Variable st : store.
Hypothesis U : uniq st.

(* TryForEach without a cache *)
Definition tfe_pure {S} (key : bytes) (f : cb S) (s : S) : option bytes * S * bool :=
  match seek_prev st key with
  | Some (k, _) =>
      if bytes_eqb key k then
        let '(s', stt) := iter_rows f (get st key) s in (Some k, s', for_each_err RDB2 stt)
      else (Some k, s, false)
  | None => (None, s, false)
  end.

Lemma find_closest_entry : forall c key k v,
  closest_sound st c -> seek_prev st key = Some (k, v) ->
  ctx_find (snd (find_closest st c key)) key = Some (k, v).
Proof.
  intros c key k v H E. unfold find_closest.
  destruct (ctx_find c key) as [e|] eqn:E1; cbn [snd].
  - rewrite E1. destruct e as [fk d]. apply H in E1. rewrite E in E1. inversion E1; subst. reflexivity.
  - rewrite E. cbn [snd]. unfold ctx_update. destruct (bytes_eqb key k) eqn:E2; rewrite !ctx_find_cons.
    + rewrite bytes_eqb_refl. reflexivity.
    + destruct (bytes_eqb k key) eqn:E3; [apply bytes_eqb_eq in E3; subst; rewrite bytes_eqb_refl in E2; discriminate|].
      rewrite bytes_eqb_refl. reflexivity.
Qed.

Lemma try_for_each_pure : forall {S} c key (f : cb S) s,
  closest_sound st c ->
  exists c', try_for_each st c key f s = (tfe_pure key f s, c') /\ closest_sound st c'.
Proof.
  intros S c key f s H. unfold try_for_each, tfe_pure.
  destruct (find_closest_transparent st c key U H) as [F1 F2].
  destruct (find_closest st c key) as [fk c1] eqn:EF. cbn [fst snd] in F1, F2. subst fk.
  destruct (seek_prev st key) as [[k v]|] eqn:E; [|exists c1; split; [reflexivity | exact F2]].
  destruct (bytes_eqb key k) eqn:E2; [|exists c1; split; [reflexivity | exact F2]].
  apply bytes_eqb_eq in E2. subst k.
  pose proof (find_closest_entry c key key v H E) as Hent. rewrite EF in Hent. cbn [snd] in Hent.
  unfold for_each_v2, get_v2. rewrite Hent, bytes_eqb_refl.
  assert (Hv : v = get st key) by (symmetry; apply U; eapply seek_prev_in; eauto). subst v.
  destruct (iter_rows f (get st key) s) as [s' stt]. exists c1. split; [reflexivity | exact F2].
Qed.

Section Find.
Variable P : Type.
Variable parse : cb P.
Variable pre : P -> bytes -> N -> res (P * bool).
Variable post : P -> P * bool.

(* sortedDataReader.find with every FindClosest / get going to the database *)
Fixpoint find_loop_pure (fuel : nat) (rev loc kbuf : bytes) (klen qlen : N) (p : P) : res P :=
  match fuel with
  | O => OutOfFuel
  | S f =>
      '(p1, ok) <- pre p rev qlen ;;
      if negb ok then Val p1 else
      let ls := 2 + qlen in
      if negb (ls - 1 <? klen) then Panic else
      kb1 <- upd kbuf (ls - 1) 0 ;;
      if negb (ls <=? klen) then Panic else
      kb2 <- copy_at (firstn (N.to_nat klen) kb1) ls loc ;;
      let kb2 := kb2 ++ skipn (N.to_nat klen) kb1 in
      if negb (ls + 2 <=? nlen kb2) then Panic else
      let klen1 := ls + 2 in
      let key := firstn (N.to_nat klen1) kb2 in
      let '(k, p2, e) := tfe_pure key parse p1 in
      if e then Val p2 else
      let same_name := match k with
                       | Some kk => (nlen key =? nlen kk) &&
                                    bytes_eqb (firstn (N.to_nat (klen1 - 2)) key) (firstn (N.to_nat (klen1 - 2)) kk)
                       | None => false
                       end in
      '(k, kb3, p3, e) <-
         (if negb (is_loc0 loc) && same_name then
            kb3 <- copy_at (firstn (N.to_nat klen1) kb2) ls loc0 ;;
            let kb3 := kb3 ++ skipn (N.to_nat klen1) kb2 in
            let '(k', p3, e') := tfe_pure (firstn (N.to_nat klen1) kb3) parse p2 in
            Val (k', kb3, p3, e')
          else Val (k, kb2, p2, false)) ;;
      if e then Val p3 else
      let '(p4, go) := post p3 in
      if negb go then Val p4 else
      match k with
      | None => Val p4
      | Some kk =>
          if negb (is_prefix marker kk) then Val p4 else
          if qlen =? 1 then Val p4 else
          if nlen kk <? 2 then Panic else
          fl <- slice kk 2 (nlen kk - 2) ;;
          if qlen =? 0 then Panic else
          a <- slice_to rev (qlen - 1) ;;
          if nlen fl =? 0 then Panic else
          bb <- slice_to fl (nlen fl - 1) ;;
          qlen' <- (if bytes_eqb a bb then get_length_without_last_label rev qlen
                    else (n <- find_common_longest_prefix rev fl ;; Val (n + 1))) ;;
          find_loop_pure f rev loc kb3 klen1 qlen' p4
      end
  end.

Definition agrees (r : res (P * ctx)) (r' : res P) : Prop :=
  match r, r' with
  | Val (p, c'), Val p' => p = p' /\ closest_sound st c'
  | Panic, Panic => True
  | OutOfFuel, OutOfFuel => True
  | _, _ => False
  end.

Lemma find_loop_cache_free : forall fuel rev loc kbuf klen qlen p c,
  closest_sound st c ->
  agrees (find_loop st P parse pre post fuel rev loc kbuf klen qlen p c)
         (find_loop_pure fuel rev loc kbuf klen qlen p).
Proof.
  induction fuel as [|fuel IH]; intros rev loc kbuf klen qlen p c H; cbn [find_loop find_loop_pure]; [exact I|]. cbv zeta.
  destruct (pre p rev qlen) as [[p1 ok]| |]; cbn [bind]; try exact I.
  destruct (negb ok); [split; [reflexivity | exact H]|].
  destruct (negb (2 + qlen - 1 <? klen)); [exact I|].
  destruct (upd kbuf (2 + qlen - 1) 0) as [kb1| |]; cbn [bind]; try exact I.
  destruct (negb (2 + qlen <=? klen)); [exact I|].
  destruct (copy_at (firstn (N.to_nat klen) kb1) (2 + qlen) loc) as [kb2| |]; cbn [bind]; try exact I.
  destruct (negb (2 + qlen + 2 <=? nlen (kb2 ++ skipn (N.to_nat klen) kb1))); [exact I|].
  set (KB2 := kb2 ++ skipn (N.to_nat klen) kb1).
  set (key := firstn (N.to_nat (2 + qlen + 2)) KB2).
  destruct (try_for_each_pure c key parse p1 H) as [c1 [E1 H1]]. rewrite E1.
  destruct (tfe_pure key parse p1) as [[k p2] e].
  destruct e; [split; [reflexivity | exact H1]|].
  set (same_name := match k with
                    | Some kk => (nlen key =? nlen kk) &&
                                 bytes_eqb (firstn (N.to_nat (2 + qlen + 2 - 2)) key) (firstn (N.to_nat (2 + qlen + 2 - 2)) kk)
                    | None => false
                    end).
  destruct (negb (is_loc0 loc) && same_name).
  - destruct (copy_at key (2 + qlen) loc0) as [kb3| |]; cbn [bind]; try exact I.
    set (KB3 := kb3 ++ skipn (N.to_nat (2 + qlen + 2)) KB2).
    destruct (try_for_each_pure c1 (firstn (N.to_nat (2 + qlen + 2)) KB3) parse p2 H1) as [c2 [E2 H2]]. rewrite E2.
    destruct (tfe_pure (firstn (N.to_nat (2 + qlen + 2)) KB3) parse p2) as [[k' p3] e']. cbn [bind].
    destruct e'; [split; [reflexivity | exact H2]|].
    destruct (post p3) as [p4 go]. destruct (negb go); [split; [reflexivity | exact H2]|].
    destruct k' as [kk|]; [|split; [reflexivity | exact H2]].
    destruct (negb (is_prefix marker kk)); [split; [reflexivity | exact H2]|].
    destruct (qlen =? 1); [split; [reflexivity | exact H2]|].
    destruct (nlen kk <? 2); [exact I|].
    destruct (slice kk 2 (nlen kk - 2)) as [fl| |]; cbn [bind]; try exact I.
    destruct (qlen =? 0); [exact I|].
    destruct (slice_to rev (qlen - 1)) as [a| |]; cbn [bind]; try exact I.
    destruct (nlen fl =? 0); [exact I|].
    destruct (slice_to fl (nlen fl - 1)) as [bb| |]; cbn [bind]; try exact I.
    destruct (if bytes_eqb a bb then get_length_without_last_label rev qlen
              else n <- find_common_longest_prefix rev fl;; Val (n + 1)) as [qlen'| |]; cbn [bind]; try exact I.
    apply IH. exact H2.
  - cbn [bind].
    destruct (post p2) as [p4 go]. destruct (negb go); [split; [reflexivity | exact H1]|].
    destruct k as [kk|]; [|split; [reflexivity | exact H1]].
    destruct (negb (is_prefix marker kk)); [split; [reflexivity | exact H1]|].
    destruct (qlen =? 1); [split; [reflexivity | exact H1]|].
    destruct (nlen kk <? 2); [exact I|].
    destruct (slice kk 2 (nlen kk - 2)) as [fl| |]; cbn [bind]; try exact I.
    destruct (qlen =? 0); [exact I|].
    destruct (slice_to rev (qlen - 1)) as [a| |]; cbn [bind]; try exact I.
    destruct (nlen fl =? 0); [exact I|].
    destruct (slice_to fl (nlen fl - 1)) as [bb| |]; cbn [bind]; try exact I.
    destruct (if bytes_eqb a bb then get_length_without_last_label rev qlen
              else n <- find_common_longest_prefix rev fl;; Val (n + 1)) as [qlen'| |]; cbn [bind]; try exact I.
    apply IH. exact H1.
Qed.

Definition find_pure (q loc : bytes) (p : P) : res P :=
  rev <- reverse_zone_name q ;;
  let kbuf := marker ++ rev ++ [0; 0] in
  find_loop_pure (length q + 2) rev loc kbuf (nlen kbuf) (nlen rev) p.

Theorem find_cache_free : forall q loc p c,
  closest_sound st c -> agrees (find st P parse pre post q loc p c) (find_pure q loc p).
Proof.
  intros q loc p c H. unfold find, find_pure.
  destruct (reverse_zone_name q) as [rev| |]; cbn [bind]; try exact I.
  apply find_loop_cache_free. exact H.
Qed.
End Find.
End Pure.
