(* Proofs/ParamsTie: the constants the hand-written models copy from the Go source are the
   constants the Go source has NOW.

   Gen/Params.v is regenerated from the working tree on every run of a check that owns one of
   these constants (harness/cmd/gotabc via lib/paramsgen.py; Go standard library only, named
   constants evaluated with go/constant, literals found by an AST pattern at their defining
   statement).  This file is hand-written.  For every generated item go_<pkg>_<name> there is a
   lemma below, proved by computation, of one of three kinds:

   (named)      the model has a named definition for the constant:   Model.X.c = go_...
   (observable) the model uses the value as an inline literal: the lemma is a statement about an
                observable function of the model in which the generated constant stands where
                the literal takes effect (for ALL remaining arguments wherever conversion
                allows, else on an input that makes the literal visible).  The model files are
                not edited.
   (pinned)     no model embodies the value - the models and theorems are parametric in it (window
                lifetime, cleaner tick, max answer, CDB hash function, batch parallelism).  The
                lemma shows that the value of the source satisfies the hypotheses under which the
                theorems are stated, and pins the value the design was read against (section
                "pinned values" below) so that a change is looked at by a person.

   A constant that drifts in the Go source makes `make Proofs/ParamsTie.vo` fail at the lemma that
   names it (the failure message starts with SOURCE CONSTANT DRIFT).  The properties C01 C07 C09 C10
   C12 C16 C19 C20 list Proofs/ParamsTie.vo in EXTRA_TARGETS of their props module, so the failed
   build is a broken proof obligation of these checks.

   Nothing else may depend on this file or on Gen/Params.v: a regenerated table must cost one small
   recompilation, not a rebuild of the proofs. *)
From Coq Require Import NArith ZArith List Bool.
From DnsV Require Import Base.Bytes.
From DnsV Require Import Gen.Params.
(* not imported: these files reuse each other's names (record, kv, marshal, serve, ...) *)
From DnsV Require Model.Text Model.Preproc Spec.Answer Spec.Rows Spec.Declared Spec.KeysV2.
From DnsV Require Model.LookupV2 Run.Core.
From DnsV Require Model.Compile Run.C07.
From DnsV Require Model.Rearranger Model.Location.
From DnsV Require Model.Cache.
From DnsV Require Model.Cdb Spec.Cdb.
From DnsV Require Model.SWindow Model.Stats Spec.Window.
From DnsV Require Model.Chain.
Import ListNotations.
Open Scope N_scope.

(* [tie c] (statements with universally quantified arguments: conversion only) and [tiec c] (closed
   statements: evaluation by the virtual machine): the statement holds by computation, or the build
   stops naming the constant.  The time limits only bound how long a FAILING build takes. *)
Ltac drift c :=
  fail 1 "SOURCE CONSTANT DRIFT:" c
         "of the Go source no longer has the value the Coq model uses (Gen/Params.v against the model / spec file named in this lemma)".
Ltac tie c := intros; first [ timeout 60 reflexivity | drift c ].
Ltac tiec c := first [ timeout 120 (vm_compute; reflexivity) | drift c ].

(* ================================================================== C09  text format (Model/Text.v, Model/Preproc.v) *)
Module C09.
Import Model.Text.

(* --- named *)
Lemma go_dnsdata_LongTTL_matches : LongTTL = go_dnsdata_LongTTL.   Proof. tie go_dnsdata_LongTTL. Qed.
Lemma go_dnsdata_ShortTTL_matches : ShortTTL = go_dnsdata_ShortTTL. Proof. tie go_dnsdata_ShortTTL. Qed.
Lemma go_dnsdata_LinkTTL_matches : LinkTTL = go_dnsdata_LinkTTL.   Proof. tie go_dnsdata_LinkTTL. Qed.

(* --- observable: the defaults a line gets when its fields are empty (T.loadDefaults runs first in
   T.UnmarshalText; parse_line gives getuint the default).  One line per record type; the oracles
   (net.ParseIP ...) and the serial stay arbitrary. *)
Definition ttl_of (r : result record) : option N :=
  match r with
  | Ok (RSoa _ _ _ _ _ _ _ _ ttl _) | Ok (RDot _ _ _ ttl _ _) | Ok (RNs _ _ _ ttl _)
  | Ok (RAddr _ _ _ ttl _ _) | Ok (RPaddr _ _ _ ttl _) | Ok (RMx _ _ _ _ ttl _)
  | Ok (RSrv _ _ _ _ _ _ ttl _) | Ok (RCname _ _ _ ttl _) | Ok (RPtr _ _ ttl _)
  | Ok (RTxt _ _ _ ttl _) | Ok (RAux _ _ _ ttl _) | Ok (RSvcb _ _ _ _ ttl _ _ _) => Some ttl
  | _ => None
  end.
(* a line of the given type whose only non-empty field is the name  a  *)
Definition bare (t : N) : bytes := [t; 97].

Lemma go_dnsdata_Rsoa_default_ttl_matches : forall o ser,
  ttl_of (parse_line o ser (bare 90)) = Some go_dnsdata_Rsoa_default_ttl.      (* Z *)
Proof. tie go_dnsdata_Rsoa_default_ttl. Qed.
Lemma go_dnsdata_Rns1_default_ttl_matches : forall o ser,
  ttl_of (parse_line o ser (bare 38)) = Some go_dnsdata_Rns1_default_ttl /\     (* & *)
  ttl_of (parse_line o ser (bare 46)) = Some go_dnsdata_Rns1_default_ttl.       (* . *)
Proof. split; tie go_dnsdata_Rns1_default_ttl. Qed.
Lemma go_dnsdata_Raddr_default_ttl_matches : forall o ser,
  ttl_of (parse_line o ser (bare 43)) = Some go_dnsdata_Raddr_default_ttl.      (* + *)
Proof. tie go_dnsdata_Raddr_default_ttl. Qed.
Lemma go_dnsdata_Raddr_default_weight_matches : forall o ser,
  match parse_line o ser (bare 43) with Ok (RAddr _ _ _ _ _ w) => Some w | _ => None end
  = Some go_dnsdata_Raddr_default_weight.
Proof. tie go_dnsdata_Raddr_default_weight. Qed.
Lemma go_dnsdata_Rpaddr_default_ttl_matches : forall o ser,
  ttl_of (parse_line o ser (bare 61)) = Some go_dnsdata_Rpaddr_default_ttl.     (* = *)
Proof. tie go_dnsdata_Rpaddr_default_ttl. Qed.
Lemma go_dnsdata_Rmx1_default_ttl_matches : forall o ser,
  ttl_of (parse_line o ser (bare 64)) = Some go_dnsdata_Rmx1_default_ttl.       (* @ *)
Proof. tie go_dnsdata_Rmx1_default_ttl. Qed.
Lemma go_dnsdata_Rsrv1_default_ttl_matches : forall o ser,
  ttl_of (parse_line o ser (bare 83)) = Some go_dnsdata_Rsrv1_default_ttl.      (* S *)
Proof. tie go_dnsdata_Rsrv1_default_ttl. Qed.
Lemma go_dnsdata_Rcname_default_ttl_matches : forall o ser,
  ttl_of (parse_line o ser (bare 67)) = Some go_dnsdata_Rcname_default_ttl.     (* C *)
Proof. tie go_dnsdata_Rcname_default_ttl. Qed.
Lemma go_dnsdata_Rptr_default_ttl_matches : forall o ser,
  ttl_of (parse_line o ser (bare 94)) = Some go_dnsdata_Rptr_default_ttl.       (* ^ *)
Proof. tie go_dnsdata_Rptr_default_ttl. Qed.
Lemma go_dnsdata_Rtxt_default_ttl_matches : forall o ser,
  ttl_of (parse_line o ser (bare 39)) = Some go_dnsdata_Rtxt_default_ttl.       (* ' *)
Proof. tie go_dnsdata_Rtxt_default_ttl. Qed.
Lemma go_dnsdata_Raux_default_ttl_matches : forall o ser,
  ttl_of (parse_line o ser (bare 58)) = Some go_dnsdata_Raux_default_ttl.       (* : *)
Proof. tie go_dnsdata_Raux_default_ttl. Qed.

(* Rsoa.loadDefaults: refresh, retry, expire, minimum of a Z line without these fields ... *)
Definition soa_timers (r : result record) : option (N * N * N * N) :=
  match r with Ok (RSoa _ _ _ _ ref ret exp min _ _) => Some (ref, ret, exp, min) | _ => None end.
Lemma go_dnsdata_Rsoa_defaults_match_parse : forall o ser,
  soa_timers (parse_line o ser (bare 90)) =
  Some (go_dnsdata_Rsoa_default_ref, go_dnsdata_Rsoa_default_ret, go_dnsdata_Rsoa_default_exp, go_dnsdata_Rsoa_default_min).
Proof. tie go_dnsdata_Rsoa_default_ref. Qed.
(* ... and of the SOA a  .  line synthesises (Rdot.UnmarshalText: soa.loadDefaults), for every such line *)
Lemma go_dnsdata_Rsoa_defaults_match_convert : forall v2 nornet dom ip ns ttl lo ser,
  convert v2 nornet (RDot dom ip ns ttl lo ser) =
  soa_kv v2 dom ns (s_hostmaster ++ 46 :: dom) ser
         go_dnsdata_Rsoa_default_ref go_dnsdata_Rsoa_default_ret go_dnsdata_Rsoa_default_exp go_dnsdata_Rsoa_default_min
         (if ttl =? 0 then 0 else go_dnsdata_Rsoa_default_ttl) lo ++
  ns_kv v2 dom ns ttl lo ++ addr_kv v2 ns false ip ttl lo 1.
Proof. tie go_dnsdata_Rsoa_default_exp. Qed.

(* Rtxt.MarshalMap: one byte more than a chunk gives a full chunk and a chunk of one byte *)
Lemma go_dnsdata_Rtxt_chunk_matches :
  txt_chunks (repeat 65 (S (N.to_nat go_dnsdata_Rtxt_chunk))) 0 [] =
  go_dnsdata_Rtxt_chunk :: repeat 65 (N.to_nat go_dnsdata_Rtxt_chunk) ++ [1; 65].
Proof. tiec go_dnsdata_Rtxt_chunk. Qed.

(* putrrhead: the marker character after the type, for every type, ttl and location *)
Lemma go_dnsdata_putrrhead_noloc_exact_matches : forall t ttl,
  rrhead t ttl [] false = u16be t ++ [go_dnsdata_putrrhead_noloc_exact] ++ u32be ttl ++ zeros8.
Proof. tie go_dnsdata_putrrhead_noloc_exact. Qed.
Lemma go_dnsdata_putrrhead_noloc_wild_matches : forall t ttl,
  rrhead t ttl [] true = u16be t ++ [go_dnsdata_putrrhead_noloc_wild] ++ u32be ttl ++ zeros8.
Proof. tie go_dnsdata_putrrhead_noloc_wild. Qed.
Lemma go_dnsdata_putrrhead_loc_exact_matches : forall t ttl b,
  rrhead t ttl [1; b] false = u16be t ++ (go_dnsdata_putrrhead_loc_exact :: [1; b]) ++ u32be ttl ++ zeros8.
Proof. tie go_dnsdata_putrrhead_loc_exact. Qed.
Lemma go_dnsdata_putrrhead_loc_wild_matches : forall t ttl b,
  rrhead t ttl [1; b] true = u16be t ++ (go_dnsdata_putrrhead_loc_wild :: [1; b]) ++ u32be ttl ++ zeros8.
Proof. tie go_dnsdata_putrrhead_loc_wild. Qed.

(* key markers *)
Lemma go_dnsdata_ResourceRecordsKeyMarker_matches_domainkey : forall dom lo,
  domainkey true dom lo = go_dnsdata_ResourceRecordsKeyMarker ++ putrevdom (to_lower dom) ++ putloc lo.
Proof. tie go_dnsdata_ResourceRecordsKeyMarker. Qed.
(* Rrangepoint.MarshalMap: marker, and MlenNoLoc as the mask-length byte of a point without location *)
Lemma go_dnsdata_RangePointKeyMarker_matches_convert : forall v2 nornet lmap ip ml null locid,
  convert v2 nornet (RRangePoint lmap ip ml null locid) =
  [(go_dnsdata_RangePointKeyMarker ++ lmap ++ ip ++ [if null then go_dnsdata_MlenNoLoc else ml], if null then [] else locid)].
Proof. tie go_dnsdata_RangePointKeyMarker. Qed.
(* the accumulator's range points read back (Model/Preproc.v) *)
Lemma go_dnsdata_MlenNoLoc_matches_preproc :
  Model.Preproc.rp_of_kv (go_dnsdata_RangePointKeyMarker ++ repeat 7 19, []) =
  Some (RRangePoint [7; 7] (repeat 7 16) go_dnsdata_MlenNoLoc true [0; 0]).
Proof. tiec go_dnsdata_MlenNoLoc. Qed.
Lemma go_dnsdata_FeaturesKey_matches_preproc : forall v2,
  fst (Model.Preproc.feature_kv v2) = go_dnsdata_FeaturesKey.
Proof. tie go_dnsdata_FeaturesKey. Qed.

Definition tie :=
  (go_dnsdata_LongTTL_matches, go_dnsdata_ShortTTL_matches, go_dnsdata_LinkTTL_matches,
   go_dnsdata_Rsoa_default_ttl_matches, go_dnsdata_Rns1_default_ttl_matches, go_dnsdata_Raddr_default_ttl_matches,
   go_dnsdata_Raddr_default_weight_matches, go_dnsdata_Rpaddr_default_ttl_matches, go_dnsdata_Rmx1_default_ttl_matches,
   go_dnsdata_Rsrv1_default_ttl_matches, go_dnsdata_Rcname_default_ttl_matches, go_dnsdata_Rptr_default_ttl_matches,
   go_dnsdata_Rtxt_default_ttl_matches, go_dnsdata_Raux_default_ttl_matches,
   go_dnsdata_Rsoa_defaults_match_parse, go_dnsdata_Rsoa_defaults_match_convert, go_dnsdata_Rtxt_chunk_matches,
   go_dnsdata_putrrhead_noloc_exact_matches, go_dnsdata_putrrhead_noloc_wild_matches,
   go_dnsdata_putrrhead_loc_exact_matches, go_dnsdata_putrrhead_loc_wild_matches,
   go_dnsdata_ResourceRecordsKeyMarker_matches_domainkey, go_dnsdata_RangePointKeyMarker_matches_convert,
   go_dnsdata_MlenNoLoc_matches_preproc, go_dnsdata_FeaturesKey_matches_preproc).
End C09.

(* ================================================================== C01  declared records, rows, keys (Spec/*.v, Run/Core.v) *)
Module C01.
Import Spec.Answer Spec.Rows.

(* Spec/Rows.row_of: the marker of a row, for every record *)
Definition with_loc (r : record) (lo : option bytes) (wild : bool) : record :=
  mkRec (r_owner r) wild lo (r_type r) (r_ttl r) (r_weight r) (r_rdata r).
Definition row_tail (r : record) : bytes :=
  u32be (r_ttl r) ++ [0; 0; 0; 0; 0; 0; 0; 0] ++
  (if (r_type r =? 1) || (r_type r =? 28) then u32be (r_weight r) else []) ++ r_rdata r.
Lemma go_dnsdata_putrrhead_matches_rows : forall r l,
  row_of (with_loc r None false) = u16be (r_type r) ++ [go_dnsdata_putrrhead_noloc_exact] ++ row_tail r /\
  row_of (with_loc r None true) = u16be (r_type r) ++ [go_dnsdata_putrrhead_noloc_wild] ++ row_tail r /\
  row_of (with_loc r (Some l) false) = u16be (r_type r) ++ (go_dnsdata_putrrhead_loc_exact :: l) ++ row_tail r /\
  row_of (with_loc r (Some l) true) = u16be (r_type r) ++ (go_dnsdata_putrrhead_loc_wild :: l) ++ row_tail r.
Proof. repeat split; tie go_dnsdata_putrrhead_noloc_exact. Qed.

(* v2 key of a record; markers of the v2 reader, of the key guard and of the dump filter *)
Lemma go_dnsdata_ResourceRecordsKeyMarker_matches_rows : forall r,
  key_v2 r = go_dnsdata_ResourceRecordsKeyMarker ++ rpack (r_owner r) ++ loc_bytes r.
Proof. tie go_dnsdata_ResourceRecordsKeyMarker. Qed.
Lemma go_dnsdata_ResourceRecordsKeyMarker_matches_reader :
  Model.LookupV2.marker = go_dnsdata_ResourceRecordsKeyMarker /\ Spec.KeysV2.rr_marker = go_dnsdata_ResourceRecordsKeyMarker.
Proof. split; tie go_dnsdata_ResourceRecordsKeyMarker. Qed.
Lemma go_dnsdata_FeaturesKey_matches_core : Run.Core.features_key = go_dnsdata_FeaturesKey.
Proof. tie go_dnsdata_FeaturesKey. Qed.

(* Spec/Declared: the SOA a  .  line declares, and the TXT character strings *)
Lemma go_dnsdata_Rsoa_defaults_match_declared : forall dom ip ns ttl lo ser,
  Spec.Declared.declared (Model.Text.RDot dom ip ns ttl lo ser) =
  [Spec.Declared.drec dom false lo 6 (if ttl =? 0 then 0 else go_dnsdata_Rsoa_default_ttl)
     (Spec.Declared.soa_rdata ns (Spec.Declared.hostmaster dom) ser
        go_dnsdata_Rsoa_default_ref go_dnsdata_Rsoa_default_ret go_dnsdata_Rsoa_default_exp go_dnsdata_Rsoa_default_min);
   Spec.Declared.drec dom false lo 2 ttl (Spec.Declared.wire ns)] ++ Spec.Declared.addr ns false ip ttl lo 1.
Proof. tie go_dnsdata_Rsoa_default_ref. Qed.
Lemma go_dnsdata_Rtxt_chunk_matches_declared :
  Spec.Declared.txt_rdata (repeat 65 (S (N.to_nat go_dnsdata_Rtxt_chunk))) =
  go_dnsdata_Rtxt_chunk :: repeat 65 (N.to_nat go_dnsdata_Rtxt_chunk) ++ [1; 65].
Proof. tiec go_dnsdata_Rtxt_chunk. Qed.

(* pinned: handler.go falls back to DefaultMaxAnswer when the context carries no max answer; the
   models (Model/Serve.v serve, Model/Chain.v config) take the max answer as an argument, the
   harnesses always set it.  The theorems of C01 hold for every value. *)
Definition pinned_DefaultMaxAnswer : N := 1.
Lemma go_dnsserver_DefaultMaxAnswer_matches : go_dnsserver_DefaultMaxAnswer = pinned_DefaultMaxAnswer.
Proof. tie go_dnsserver_DefaultMaxAnswer. Qed.

Definition tie :=
  (go_dnsdata_putrrhead_matches_rows, go_dnsdata_ResourceRecordsKeyMarker_matches_rows,
   go_dnsdata_ResourceRecordsKeyMarker_matches_reader, go_dnsdata_FeaturesKey_matches_core,
   go_dnsdata_Rsoa_defaults_match_declared, go_dnsdata_Rtxt_chunk_matches_declared,
   go_dnsserver_DefaultMaxAnswer_matches).
End C01.

(* ================================================================== C07  compilers (Model/Compile.v, Run/C07.v) *)
Module C07.
Import Model.Compile.

(* named (Run/C07.v: the bucket size the builder cases are evaluated with) *)
Lemma go_rdb_minBucketSize_matches : Run.C07.min_bucket_size = go_rdb_minBucketSize.
Proof. tie go_rdb_minBucketSize. Qed.
(* the theorems about the builder (Proofs/CompilePipe.v build_lossless ...) need 1 <= min_size *)
Lemma go_rdb_minBucketSize_admissible : 1 <= go_rdb_minBucketSize.
Proof. intros; first [ vm_compute; discriminate | drift go_rdb_minBucketSize ]. Qed.

(* observable: compileBatches, if batchSize <= 0 { batchSize = DefaultBatchSize } *)
Lemma go_rdb_DefaultBatchSize_matches :
  eff_bs 0 = go_rdb_DefaultBatchSize /\ eff_bs (-1) = go_rdb_DefaultBatchSize /\ eff_bs 7 = 7.
Proof. repeat split; tie go_rdb_DefaultBatchSize. Qed.

(* pinned: BatchNumParallel <= 0 means no bound.  The model has no limiter (the batch goroutines
   take the write mutex in any order, parameter [order] of run_batches); what it relies on is that
   the substituted capacity is not 0 (an unbuffered limiter would block the reader for ever). *)
Definition pinned_unlimited_parallel : N := 2 ^ 30.
Lemma go_rdb_compileBatches_unlimited_parallel_matches :
  go_rdb_compileBatches_unlimited_parallel = pinned_unlimited_parallel /\ 1 <= go_rdb_compileBatches_unlimited_parallel.
Proof.
  split; [ tie go_rdb_compileBatches_unlimited_parallel
         | first [ vm_compute; discriminate | drift go_rdb_compileBatches_unlimited_parallel ] ].
Qed.

Definition tie :=
  (go_rdb_minBucketSize_matches, go_rdb_minBucketSize_admissible, go_rdb_DefaultBatchSize_matches,
   go_rdb_compileBatches_unlimited_parallel_matches).
End C07.

(* ================================================================== C10  ECS scope, location keys (Model/Location.v, Model/Rearranger.v) *)
Module C10.
Import Model.Rearranger Model.Location.

(* observable: EcsLocation when a map applies but no location matched: the default scope, for
   every family and mask (map 0 1) *)
Lemma go_db_EcsLocation_default_scope_matches : forall fam mask,
  ecs_scope fam (mkLocation (0, 1) mask (0, 0)) =
  (None, if fam =? go_db_EcsLocation_default_scope_other_family
         then go_db_EcsLocation_default_scope_other else go_db_EcsLocation_default_scope).
Proof. tie go_db_EcsLocation_default_scope. Qed.
(* ... and when a location matched: uint8 subtraction of the offset for the IPv4 family only *)
Lemma go_db_EcsLocation_v4_offset_matches : forall fam mask,
  ecs_scope fam (mkLocation (0, 1) mask (0, 2)) =
  (Some (mkLocation (0, 1) mask (0, 2)),
   if fam =? go_db_EcsLocation_v4_offset_family then (mask + 256 - go_db_EcsLocation_v4_offset) mod 256 else mask mod 256).
Proof. tie go_db_EcsLocation_v4_offset. Qed.
(* the map type EcsLocation searches with: a CDB holding one map record of that type for the root
   name (map 0 1, no subnets) - the map applies, no location matches, default scope; a map record of
   the resolver type is not looked at *)
Lemma go_db_EcsLocation_map_type_matches :
  ecs_location (BCdb false) [(go_db_EcsLocation_map_type ++ [0; 61], [0; 1])] [0] 1 32 Base.Ip.first_v4
    = Ok (None, go_db_EcsLocation_default_scope) /\
  ecs_location (BCdb false) [([0; 77; 0; 61], [0; 1])] [0] 1 32 Base.Ip.first_v4 = Ok (None, 0).
Proof. split; tiec go_db_EcsLocation_map_type. Qed.

(* key elements of db/location.go *)
Lemma go_db_ipMapKeyElement_matches : forall m a len,
  net_key m a len = go_db_ipMapKeyElement ++ mapid_bytes m ++ ip16 a ++ [len].
Proof. tie go_db_ipMapKeyElement. Qed.
Lemma go_db_ipMapRangePointKeyElement_matches :
  rp_marker = go_db_ipMapRangePointKeyElement /\ rp_marker = go_dnsdata_RangePointKeyMarker.
Proof. split; tie go_db_ipMapRangePointKeyElement. Qed.
Lemma go_db_wildcardKeyElement_matches : [suffix_of true] = go_db_wildcardKeyElement.
Proof. tie go_db_wildcardKeyElement. Qed.
Lemma go_db_exactMatchKeyElement_matches : [suffix_of false] = go_db_exactMatchKeyElement.
Proof. tie go_db_exactMatchKeyElement. Qed.
(* the prefix-length sets: what the CDB compiler writes (a file without maps and subnets) ... *)
Lemma go_db_maskLensKeyElement_matches_written :
  option_map (map fst) (cdb_db (mkDfile [] [])) =
  Some [go_db_maskLensKeyElement; go_db_maskLensKeyElementv4; go_db_maskLensKeyElementv6; go_dnsdata_FeaturesKey].
Proof. tiec go_db_maskLensKeyElement. Qed.
(* ... and which of them cdbdriver.GetLocationByMap reads: a database holding one length set (the
   single length 128) under key k and one /128 subnet of map 0 1 - the subnet is found exactly when
   the driver reads the set under k *)
Definition dbk (k : bytes) (a : N) : list kv := [(k, [128]); (net_key (0, 1) a 128, [9; 9])].
Definition v4client : client := mkClient (Some Base.Ip.first_v4) 32 32.
Definition v6client : client := mkClient (Some 1) 128 128.
Lemma go_db_maskLensKeyElement_matches_read :
  cdb_get_location false (dbk go_db_maskLensKeyElement Base.Ip.first_v4) (0, 1) v4client = Ok (Some [9; 9], 128) /\
  cdb_get_location false (dbk go_db_maskLensKeyElement 1) (0, 1) v6client = Ok (Some [9; 9], 128) /\
  cdb_get_location true (dbk go_db_maskLensKeyElementv4 Base.Ip.first_v4) (0, 1) v4client = Ok (Some [9; 9], 128) /\
  cdb_get_location true (dbk go_db_maskLensKeyElementv6 1) (0, 1) v6client = Ok (Some [9; 9], 128) /\
  cdb_get_location true (dbk go_db_maskLensKeyElementv6 Base.Ip.first_v4) (0, 1) v4client = Ok (None, 0) /\
  cdb_get_location true (dbk go_db_maskLensKeyElementv4 1) (0, 1) v6client = Ok (None, 0) /\
  cdb_get_location true (dbk go_db_maskLensKeyElement 1) (0, 1) v6client = Ok (None, 0) /\
  cdb_get_location false (dbk go_db_maskLensKeyElementv4 Base.Ip.first_v4) (0, 1) v4client = Ok (None, 0).
Proof. repeat split; tiec go_db_maskLensKeyElement. Qed.
Lemma go_dnsdata_FeaturesKey_matches_location : features_key = go_dnsdata_FeaturesKey.
Proof. tie go_dnsdata_FeaturesKey. Qed.

Definition tie :=
  (go_db_EcsLocation_default_scope_matches, go_db_EcsLocation_v4_offset_matches, go_db_EcsLocation_map_type_matches,
   go_db_ipMapKeyElement_matches, go_db_ipMapRangePointKeyElement_matches, go_db_wildcardKeyElement_matches,
   go_db_exactMatchKeyElement_matches, go_db_maskLensKeyElement_matches_written, go_db_maskLensKeyElement_matches_read,
   go_dnsdata_FeaturesKey_matches_location).
End C10.

(* ================================================================== C12  response cache (Model/Cache.v) *)
Module C12.
Import Model.Cache.

(* The model writes the key string out (key_string); the source has a fmt.Sprintf format.  The tie
   is a rendering function for the verbs that occur - a hand-written reading of fmt for
   %d (decimal), %.3d (at least three digits; applied to the two-byte array LocID: [aaa bbb]) and %s -
   and the statement that key_string IS the rendering of the format string of the source. *)
Inductive arg := ALoc (l : N) | ANum (n : N) | AStr (s : bytes).
Fixpoint render (fuel : nat) (f : bytes) (args : list arg) : option bytes :=
  match fuel with
  | O => None
  | S fuel' =>
    match f with
    | [] => match args with [] => Some [] | _ => None end
    | 37 :: 100 :: f' =>                                   (* %d *)
        match args with
        | ANum n :: a' => option_map (fun r => digits n ++ r) (render fuel' f' a')
        | _ => None
        end
    | 37 :: 46 :: 51 :: 100 :: f' =>                       (* %.3d of a [2]byte *)
        match args with
        | ALoc l :: a' => option_map (fun r => [91] ++ pad3 (l / 256) ++ [32] ++ pad3 (l mod 256) ++ [93] ++ r) (render fuel' f' a')
        | _ => None
        end
    | 37 :: 115 :: f' =>                                   (* %s *)
        match args with
        | AStr s :: a' => option_map (fun r => s ++ r) (render fuel' f' a')
        | _ => None
        end
    | 37 :: _ => None
    | c :: f' => option_map (fun r => c :: r) (render fuel' f' args)
    end
  end.
Lemma go_dnsserver_cache_key_format_matches : forall k,
  render 20 go_dnsserver_cache_key_format [ALoc (k_loc k); ANum (k_qtype k); ANum (k_qclass k); AStr (k_name k)]
  = Some (key_string k).
Proof.
  intros; first [ cbv [render go_dnsserver_cache_key_format option_map key_string]; rewrite app_nil_r; reflexivity
                | drift go_dnsserver_cache_key_format ].
Qed.

(* observable: the expiry of the entry a non-weighted, non-refused answer leaves in an empty cache
   (serve instantiated with trivial content / body / response) *)
Definition expiry_after_miss (now rnd : N) (r : request) : list N :=
  let '(c, _, _) :=
    serve unit unit unit (fun b => b) (fun _ _ => 0) (fun _ _ _ _ => tt) (fun _ _ => false) (fun _ _ => false)
          (fun _ _ _ => tt) (fun _ => false) (fun _ => tt) (mkCC true 1 0) tt [] now rnd r in
  map (fun p => e_exp (snd p)) c.
Lemma go_dnsserver_cache_lifetime_matches : forall now rnd r,
  expiry_after_miss now rnd r = [now + go_dnsserver_cache_lifetime].
Proof. tie go_dnsserver_cache_lifetime. Qed.

Definition tie := (go_dnsserver_cache_key_format_matches, go_dnsserver_cache_lifetime_matches).
End C12.

(* ================================================================== C16  CDB file (Model/Cdb.v, Spec/Cdb.v) *)
Module C16.

(* named *)
Lemma go_gocdb_headerSize_matches : Model.Cdb.header_size = go_gocdb_headerSize.
Proof. tie go_gocdb_headerSize. Qed.
(* observable: the size Spec/Cdb.v prescribes for the file of no pairs is the header *)
Lemma go_gocdb_headerSize_matches_spec : Spec.Cdb.file_size [] = go_gocdb_headerSize.
Proof. tiec go_gocdb_headerSize. Qed.

(* pinned: the key length from which hashKey switches from spooky.Hash32 to the streaming hasher.
   Model/Cdb.v is parametric in the hash function H (every theorem of C16 holds for every H); that
   the reader's hashKey and the writer's cdbHash agree is established by the differential run, whose
   generator aims at the lengths 95 / 96 / 97 and 191 / 192 / 193 (harness/cmd/c16). *)
Definition pinned_hashKey_threshold : N := 96.
Lemma go_gocdb_hashKey_threshold_matches : go_gocdb_hashKey_threshold = pinned_hashKey_threshold.
Proof. tie go_gocdb_hashKey_threshold. Qed.

Definition tie := (go_gocdb_headerSize_matches, go_gocdb_headerSize_matches_spec, go_gocdb_hashKey_threshold_matches).
End C16.

(* ================================================================== C19  statistics windows (Model/SWindow.v, Model/Stats.v) *)
Module C19.
Open Scope Z_scope.

(* pinned: Stats.AddSample creates 60 s windows, the cleaner ticks every second.  The models take the
   lifetime L as an argument and cleaner ticks as events at arbitrary times; the theorems of C19
   (C19_window_exact ...) hold for every L >= 0 and every tick schedule, the harness observes windows of
   1 s / 1.5 s / 2 s through the verif hook.  What the production values have to satisfy is 0 <= L
   (and a positive ticker period: time.NewTicker panics otherwise). *)
Definition pinned_window_seconds : N := 60.
Definition pinned_cleaner_tick_seconds : N := 1.
Definition production_lifetime_us : Z := Z.of_N go_metrics_AddSample_window_seconds * 1000000.
Lemma go_metrics_AddSample_window_seconds_matches :
  go_metrics_AddSample_window_seconds = pinned_window_seconds /\ 0 <= production_lifetime_us.
Proof.
  split; [ tie go_metrics_AddSample_window_seconds | vm_compute; discriminate ].
Qed.
Lemma go_metrics_cleaner_tick_seconds_matches :
  go_metrics_cleaner_tick_seconds = pinned_cleaner_tick_seconds /\ (1 <= go_metrics_cleaner_tick_seconds)%N.
Proof.
  split; [ tie go_metrics_cleaner_tick_seconds
         | first [ vm_compute; discriminate | drift go_metrics_cleaner_tick_seconds ] ].
Qed.
(* the model at the production lifetime: a sample is exported up to and including its 60th second *)
Lemma production_window_boundary : forall v,
  Model.Stats.get_after production_lifetime_us [Model.SWindow.WAdd 0 v] production_lifetime_us
    = Some (Model.Stats.get_window [v]) /\
  Model.Stats.get_after production_lifetime_us [Model.SWindow.WAdd 0 v] (production_lifetime_us + 1)
    = Some (Model.Stats.get_window []).
Proof. split; tie go_metrics_AddSample_window_seconds. Qed.

Definition tie :=
  (go_metrics_AddSample_window_seconds_matches, go_metrics_cleaner_tick_seconds_matches, production_window_boundary).
End C19.

(* ================================================================== C20  plugin chain (Model/Chain.v) *)
Module C20.
Import Model.Chain.

(* named: the HINFO rdata is the two character strings of the source, each behind its length *)
Lemma go_fbserver_any_hinfo_matches :
  hinfo_rdata = (nlen go_fbserver_any_hinfo_cpu :: go_fbserver_any_hinfo_cpu) ++
                (nlen go_fbserver_any_hinfo_os :: go_fbserver_any_hinfo_os).
Proof. tiec go_fbserver_any_hinfo_cpu. Qed.
(* observable: the answer section of the reply to an ANY question, for every request *)
Lemma go_fbserver_any_ttl_matches : forall r q,
  man (any_reply r q) = [mkRR (qname q) TypeHINFO ClassINET go_fbserver_any_ttl hinfo_rdata].
Proof. tie go_fbserver_any_ttl. Qed.

Definition tie := (go_fbserver_any_hinfo_matches, go_fbserver_any_ttl_matches).
End C20.

(* one obligation per property *)
Definition C01_source_constants_tie := C01.tie.
Definition C07_source_constants_tie := C07.tie.
Definition C09_source_constants_tie := C09.tie.
Definition C10_source_constants_tie := C10.tie.
Definition C12_source_constants_tie := C12.tie.
Definition C16_source_constants_tie := C16.tie.
Definition C19_source_constants_tie := C19.tie.
Definition C20_source_constants_tie := C20.tie.
