(* C03, squash property of Rearrange: the points it returns have pairwise different
   (address, mask byte) - hence pairwise different range-point keys within one map -
   and no point is returned twice.  (The squash loop drops a point when the next one has
   the same address and a mask that is not longer; on the swept, sorted list what is
   left at one address is at most one End point followed by Start points with strictly
   longer masks.)  Built on the sweep invariants of Proofs/Sweep.v. *)
From DnsV Require Import Base.Bytes Base.Ip Model.Rearranger Model.Location.
From DnsV Require Import Proofs.Lpm Proofs.Location Proofs.Squash Proofs.Sweep Proofs.Rearranger.
From Coq Require Import Lia ZifyN ZifyBool Permutation Sorted.
Open Scope N_scope.

(* what distinguishes the range-point keys of one map *)
Definition pkey (p : point) : N * N := (p_ip p, rp_mlen p).

Section KeptKeys.
  Variable its : list item.
  Hypothesis its_nodup : NoDup its.
  Hypothesis H_range : forall i, In i its -> i_s i < i_e i /\ i_e i <= two128.
  Hypothesis H_lam : forall i j, In i its -> In j its ->
    i_e i <= i_s j \/ i_e j <= i_s i \/ (i_s i <= i_s j /\ i_e j <= i_e i) \/ (i_s j <= i_s i /\ i_e i <= i_e j).
  Hypothesis H_start : forall i j, In i its -> In j its -> i_s i = i_s j -> i_e j < i_e i -> imask i < imask j.
  Hypothesis H_end : forall i j, In i its -> In j its -> i_e i = i_e j -> i_e i < two128 -> i_s i < i_s j -> imask i < imask j.
  Hypothesis H_inj : forall i j, In i its -> In j its -> i_s i = i_s j -> i_e i = i_e j -> i = j.
  Hypothesis H_mono : forall i j, In i its -> In j its -> i_s i <= i_s j -> i_e j <= i_e i -> imask i <= imask j.
  Hypothesis H_emask : forall i, In i its -> rl_mask (i_el i) = imask i.
  Variable bottom : item.
  Hypothesis H_bot : In bottom its /\ i_s bottom = 0 /\ i_e bottom = two128.
  Variable L : list point.
  Hypothesis L_perm : Permutation L (flat_map ipoints its).
  Hypothesis L_sorted : StronglySorted (fun a b => pless b a = false) L.
  Hypothesis H_null : forall j, In j its -> rl_null (i_l j) = true -> imask j = 0.

  Let asg' := asg its bottom.

  (* the mask byte of a Start point is the mask length of its item *)
  Lemma mlen_start : forall j, In j its -> rp_mlen (spoint j) = imask j.
  Proof.
    intros j Hj. unfold rp_mlen. cbn [spoint p_loc]. destruct (rl_null (i_l j)) eqn:E.
    - rewrite (H_null j Hj E). reflexivity.
    - reflexivity.
  Qed.

  Lemma asg_start' : forall i, In i its -> asg' (spoint i) = spoint i.
  Proof. intros i Hi. unfold asg'. eapply asg_start; eassumption. Qed.

  (* two points of L that both survive squash and get the same (address, mask byte) are one point of L *)
  Lemma kept_key_inj : forall l1 q l2 l1' q' l2', L = l1 ++ q :: l2 -> L = l1' ++ q' :: l2' ->
    notshadowed (asg' q) (map asg' l2) -> notshadowed (asg' q') (map asg' l2') ->
    pkey (asg' q) = pkey (asg' q') -> q = q'.
  Proof.
    intros l1 q l2 l1' q' l2' E E' K K' Hk.
    assert (Hq : In q L) by (rewrite E; apply in_or_app; right; left; reflexivity).
    assert (Hq' : In q' L) by (rewrite E'; apply in_or_app; right; left; reflexivity).
    assert (Kip : p_ip (asg' q) = p_ip (asg' q')) by (exact (f_equal fst Hk)).
    assert (Kml : rp_mlen (asg' q) = rp_mlen (asg' q')) by (exact (f_equal snd Hk)). clear Hk.
    destruct (proj1 (in_L its L L_perm q) Hq) as [i [Hi Ci]].
    destruct (proj1 (in_L its L L_perm q') Hq') as [j [Hj Cj]].
    (* an End point and a Start point that both survive do not share a key *)
    assert (Mixed : forall lx i0 ly j0, In i0 its -> has_end i0 = true -> In j0 its ->
              L = lx ++ epoint i0 :: ly -> notshadowed (asg' (epoint i0)) (map asg' ly) ->
              p_ip (asg' (epoint i0)) = p_ip (asg' (spoint j0)) ->
              rp_mlen (asg' (epoint i0)) = rp_mlen (asg' (spoint j0)) -> False).
    { intros lx i0 ly j0 Hi0 He0 Hj0 EL Kp Eip Eml.
      destruct (end_kept its its_nodup H_range H_lam H_start H_end H_inj H_mono H_emask bottom H_bot L L_perm L_sorted
                  lx i0 ly Hi0 He0 EL Kp) as [_ Fb].
      rewrite (asg_start' j0 Hj0) in Eip, Eml. rewrite (mlen_start j0 Hj0) in Eml.
      cbn in Eip. specialize (Fb j0 Hj0 (eq_sym Eip)).
      pose proof (rp_mlen_le (asg' (epoint i0))) as X. unfold asg', asg in X, Eml. cbn [p_loc] in X.
      unfold imask in Fb at 1. unfold asg', asg in Eml. lia. }
    destruct Ci as [->|[Ei ->]], Cj as [->|[Ej ->]].
    - (* two Start points *)
      rewrite (asg_start' i Hi), (asg_start' j Hj) in Kip, Kml.
      rewrite (mlen_start i Hi), (mlen_start j Hj) in Kml. cbn in Kip.
      f_equal. exact (start_inj its H_range H_lam H_start H_end H_inj H_mono H_emask bottom H_bot i j Hi Hj Kip Kml).
    - exfalso. exact (Mixed l1' j l2' i Hj Ej Hi E' K' (eq_sym Kip) (eq_sym Kml)).
    - exfalso. exact (Mixed l1 i l2 j Hi Ei Hj E K Kip Kml).
    - (* two End points at one address: each is the last End point there *)
      destruct (end_kept its its_nodup H_range H_lam H_start H_end H_inj H_mono H_emask bottom H_bot L L_perm L_sorted
                  l1 i l2 Hi Ei E K) as [Fa _].
      destruct (end_kept its its_nodup H_range H_lam H_start H_end H_inj H_mono H_emask bottom H_bot L L_perm L_sorted
                  l1' j l2' Hj Ej E' K') as [Fa' _].
      cbn in Kip.
      apply (L_total its H_range H_lam H_start H_end H_inj H_mono H_emask bottom H_bot L L_perm); auto.
  Qed.

  (* squash output of a suffix of L, described by positions *)
  Lemma squash_suffix_in : forall D R p, L = D ++ R -> In p (squash_spec (map asg' R)) ->
    exists l1 q l2, L = l1 ++ q :: l2 /\ In q R /\ p = asg' q /\ notshadowed (asg' q) (map asg' l2).
  Proof.
    intros D R p E Hin. destruct (squash_in _ _ Hin) as [o1 [o2 [Eo Hns]]].
    destruct (map_split asg' R o1 p o2 Eo) as [r1 [q [r2 [ER [_ [Ep E2]]]]]]. subst o2 p.
    exists (D ++ r1), q, r2. split; [rewrite E, ER, <- app_assoc; reflexivity|].
    split; [rewrite ER; apply in_or_app; right; left; reflexivity|]. split; [reflexivity|exact Hns].
  Qed.

  Lemma squash_keys_nodup_suffix : forall R D, L = D ++ R -> NoDup (map pkey (squash_spec (map asg' R))).
  Proof.
    induction R as [|x R IH]; intros D E; [constructor|].
    assert (E' : L = (D ++ [x]) ++ R) by (rewrite <- app_assoc; exact E).
    specialize (IH (D ++ [x]) E').
    cbn [map squash_spec]. destruct (map asg' R) as [|r0 rest] eqn:ER.
    - cbn [map]. constructor; [intros []|constructor].
    - destruct (shadowb (asg' x) r0) eqn:Sh; [exact IH|].
      cbn [map]. constructor; [|exact IH].
      intro C. apply in_map_iff in C. destruct C as [p [Kp Hp]].
      rewrite <- ER in Hp.
      destruct (squash_suffix_in (D ++ [x]) R p E' Hp) as [l1 [q [l2 [EL [Hq [-> Kq]]]]]].
      assert (Kx : notshadowed (asg' x) (map asg' R)) by (rewrite ER; exact Sh).
      assert (q = x) by (apply (kept_key_inj l1 q l2 D x R EL E Kq Kx Kp)). subst q.
      (* x occurs in R as well: L has a duplicate *)
      pose proof (L_nodup its its_nodup H_range H_lam H_start H_end H_inj H_mono H_emask bottom H_bot L L_perm) as ND.
      rewrite E in ND. apply NoDup_remove_2 in ND. apply ND. apply in_or_app. right. exact Hq.
  Qed.

  Theorem squash_keys_nodup : NoDup (map pkey (squash_spec (map asg' L))).
  Proof. exact (squash_keys_nodup_suffix L [] eq_refl). Qed.
End KeptKeys.

(* ---------------------------------------------------------------- Rearrange *)

Lemma masked_0_0 : masked 0 0.
Proof. unfold masked. apply N.mod_0_l. pose proof (blk_size_pos 0). lia. Qed.

(* the points Rearrange returns for a well-formed subnet set have pairwise different
   (address, mask byte); in particular no point is returned twice *)
Theorem rearrange_keys_nodup : forall sort S pts, sort_spec sort -> wf_subnets S ->
  rearrange sort S = Ok pts -> NoDup (map pkey pts).
Proof.
  intros sort S pts Hsort wfS E.
  destruct S as [|s0 S'].
  { unfold rearrange in E. cbn in E. inversion E. constructor. }
  assert (Hne : s0 :: S' <> []) by discriminate.
  rewrite (rearrange_result sort Hsort _ wfS Hne) in E. inversion E. subst pts.
  apply (squash_keys_nodup (items_of (s0 :: S')) (items_nodup _ wfS)
           (Hrange _ wfS) (Hlam _ wfS) (Hstart _ wfS) (Hend _ wfS) (Hinj _ wfS) (Hmono _ wfS) (Hemask _)
           (bottom_of (s0 :: S')) (Hbot _) _ (L_perm_items sort Hsort _ wfS) (L_sorted_items sort Hsort _) (Hnull _)).
Qed.

Lemma nodup_map_inv : forall {A B} (f : A -> B) l, NoDup (map f l) -> NoDup l.
Proof.
  intros A B f. induction l as [|x l IH]; intro H; [constructor|].
  cbn [map] in H. inversion H as [|? ? N1 N2]; subst. constructor; [|apply IH; exact N2].
  intro C. apply N1. apply in_map. exact C.
Qed.

Corollary rearrange_points_nodup : forall sort S pts, sort_spec sort -> wf_subnets S ->
  rearrange sort S = Ok pts -> NoDup pts.
Proof. intros sort S pts Hs Hw E. exact (nodup_map_inv pkey pts (rearrange_keys_nodup sort S pts Hs Hw E)). Qed.

Lemma rearrange_ip_lt : forall sort S pts p, sort_spec sort -> wf_subnets S ->
  rearrange sort S = Ok pts -> In p pts -> p_ip p < two128.
Proof.
  intros sort S pts p Hsort wfS E Hin. destruct S as [|s0 S'].
  { unfold rearrange in E. cbn in E. inversion E. subst pts. destruct Hin. }
  assert (Hne : s0 :: S' <> []) by discriminate.
  assert (H0 : 0 < two128) by reflexivity. assert (H1 : 0 <= 128) by lia.
  exact (points_ip_lt sort Hsort _ wfS 0 0 H0 H1 masked_0_0 Hne pts p E Hin).
Qed.

(* range-point keys: equal keys (same or different map) mean the same map, address and mask byte *)
Lemma rp_key_inj : forall m m' p p', p_ip p < two128 -> p_ip p' < two128 ->
  rp_key m p = rp_key m' p' -> m = m' /\ pkey p = pkey p'.
Proof.
  intros [m1 m2] [m1' m2'] p p' Hp Hp' H. unfold rp_key, rp_marker, mapid_bytes in H. cbn [fst snd app] in H.
  remember (ip16 (p_ip p)) as X eqn:EX. remember (ip16 (p_ip p')) as Y eqn:EY.
  injection H as E1 E2 E3. apply app_inj_tail in E3. destruct E3 as [E3 E4].
  subst X Y. apply ip16_inj in E3; auto. unfold pkey. rewrite E3, E4, E1, E2. auto.
Qed.

(* the range-point keys Rearrange's points get within one map are pairwise different *)
Theorem rearrange_rp_keys_nodup : forall sort S pts m, sort_spec sort -> wf_subnets S ->
  rearrange sort S = Ok pts -> NoDup (map (rp_key m) pts).
Proof.
  intros sort S pts m Hs Hw E.
  pose proof (rearrange_keys_nodup sort S pts Hs Hw E) as ND.
  assert (Hlt : forall p, In p pts -> p_ip p < two128) by (intros p Hp; exact (rearrange_ip_lt sort S pts p Hs Hw E Hp)).
  clear E. induction pts as [|x l IH]; [constructor|].
  cbn [map] in *. inversion ND as [|? ? N1 N2]; subst. constructor.
  - intro C. apply in_map_iff in C. destruct C as [y [Ey Hy]]. apply N1.
    destruct (rp_key_inj m m y x (Hlt y (or_intror Hy)) (Hlt x (or_introl eq_refl)) Ey) as [_ Ek].
    rewrite <- Ek. apply in_map. exact Hy.
  - apply IH; auto. intros p Hp. apply Hlt. right. exact Hp.
Qed.
