(* The v1 reader over a compiled store computes the spec's zone cut (first part of the C01
   refinement): rows decode to the records they encode, the keys probed for a name hold exactly
   the visible records of that name, and the label-stripping loop of IsAuthoritative returns
   Spec.Answer.zone_cut / authoritative. *)
From DnsV Require Import Base.Bytes Model.Store Model.LookupV1 Spec.Answer Spec.Rows.
From DnsV Require Import Proofs.Answer Proofs.Compile.
From Coq Require Import ZifyN ZifyNat ZifyBool.
Ltac Zify.zify_post_hook ::= Z.div_mod_to_equations.
Open Scope N_scope.

Definition lower_label (l : label) : Prop := forall c, In c l -> ~ (65 <= c <= 90).
Definition wf_label (l : label) : Prop := 1 <= nlen l <= 63 /\ lower_label l /\ Forall (fun c => c < 256) l.
Definition wf_rec (r : record) : Prop :=
  r_type r < 65536 /\ r_ttl r < 4294967296 /\ r_weight r < 4294967296 /\
  Forall wf_label (r_owner r) /\
  match r_loc r with Some l => exists a b, l = [a; b] /\ l <> [0; 0] | None => True end.
Definition wf_recs (recs : list record) : Prop := Forall wf_rec recs.

Lemma u16_rt : forall n, n < 65536 -> (n / 256) mod 256 * 256 + n mod 256 = n.
Proof. intros. lia. Qed.
Lemma u32_rt : forall n, n < 4294967296 ->
  (((n / 16777216) mod 256 * 256 + (n / 65536) mod 256) * 256 + (n / 256) mod 256) * 256 + n mod 256 = n.
Proof. intros. lia. Qed.

Lemma nlen_cons : forall {A} (x : A) l, nlen (x :: l) = 1 + nlen l.
Proof. intros. unfold nlen. cbn [length]. lia. Qed.

Definition head_of (r : record) : rrhead :=
  mkHead (r_type r) (r_ttl r) (if (r_type r =? 1) || (r_type r =? 28) then r_weight r else 0)
         (nlen (row_of r) - nlen (r_rdata r)).

Lemma to_nat_nlen : forall {A} (l : list A), N.to_nat (nlen l) = length l.
Proof. intros. unfold nlen. lia. Qed.
Lemma nlen_app : forall {A} (x y : list A), nlen (x ++ y) = nlen x + nlen y.
Proof. intros. unfold nlen. rewrite app_length. lia. Qed.

Lemma idx_app : forall x c y n, n = nlen x -> idx (x ++ c :: y) n = Val c.
Proof.
  intros x c y n ->. unfold idx. rewrite to_nat_nlen, nth_error_app2, Nat.sub_diag; [reflexivity | lia].
Qed.
Lemma slice_mid : forall x y z a b, a = nlen x -> b = nlen x + nlen y -> slice (x ++ y ++ z) a b = Val y.
Proof.
  intros x y z a b -> ->. unfold slice. rewrite !nlen_app.
  assert (E : (nlen x <=? nlen x + nlen y) && (nlen x + nlen y <=? nlen x + (nlen y + nlen z)) = true) by lia.
  rewrite E. replace (nlen x + nlen y - nlen x) with (nlen y) by lia. rewrite !to_nat_nlen.
  rewrite skipn_app, skipn_all, Nat.sub_diag. cbn [skipn app].
  rewrite firstn_app, firstn_all, Nat.sub_diag. cbn [firstn]. rewrite app_nil_r. reflexivity.
Qed.
Lemma slice_from_app : forall x y a, a = nlen x -> slice_from (x ++ y) a = Val y.
Proof.
  intros x y a ->. unfold slice_from. rewrite nlen_app.
  assert (E : (nlen x <=? nlen x + nlen y) = true) by lia. rewrite E, to_nat_nlen.
  rewrite skipn_app, skipn_all, Nat.sub_diag. reflexivity.
Qed.

(* the decoder on the concatenation the compiler writes *)
Lemma extract_parts : forall t0 t1 ch M l0 l1 l2 l3 W R wild,
  nlen M = (if (ch =? 62) || (ch =? 43) then 2 else 0) ->
  (if (t0 * 256 + t1 =? 1) || (t0 * 256 + t1 =? 28) then exists w0 w1 w2 w3, W = [w0; w1; w2; w3] else W = []) ->
  let row := [t0; t1] ++ ch :: M ++ [l0; l1; l2; l3] ++ [0; 0; 0; 0; 0; 0; 0; 0] ++ W ++ R in
  extract_rr row wild =
    Val (if negb (Bool.eqb wild ((ch =? 42) || (ch =? 43))) then None
         else Some (mkHead (t0 * 256 + t1) (((l0 * 256 + l1) * 256 + l2) * 256 + l3)
                           (match W with [w0; w1; w2; w3] => ((w0 * 256 + w1) * 256 + w2) * 256 + w3 | _ => 0 end)
                           (nlen row - nlen R))) /\
  slice_from row (nlen row - nlen R) = Val R.
Proof.
  intros t0 t1 ch M l0 l1 l2 l3 W R wild HM HW row. split.
  - unfold extract_rr.
    assert (S1 : slice row 0 2 = Val [t0; t1]) by (apply (slice_mid [] [t0; t1]); reflexivity).
    rewrite S1. cbn [bind].
    assert (S2 : idx row 2 = Val ch) by (apply (idx_app [t0; t1]); reflexivity).
    rewrite S2. cbn [bind].
    destruct (negb (Bool.eqb wild ((ch =? 42) || (ch =? 43)))); [reflexivity|].
    set (dpos := if (ch =? 62) || (ch =? 43) then 5 else 3).
    assert (Hd : dpos = nlen ([t0; t1] ++ ch :: M)).
    { rewrite nlen_app, (nlen_cons ch M), HM. unfold dpos. destruct ((ch =? 62) || (ch =? 43)); reflexivity. }
    assert (S3 : slice row dpos (dpos + 4) = Val [l0; l1; l2; l3]).
    { unfold row. change ([t0; t1] ++ ch :: M ++ [l0; l1; l2; l3] ++ [0; 0; 0; 0; 0; 0; 0; 0] ++ W ++ R)
        with ([t0; t1] ++ (ch :: M) ++ [l0; l1; l2; l3] ++ [0; 0; 0; 0; 0; 0; 0; 0] ++ W ++ R).
      rewrite (app_assoc [t0; t1]). apply slice_mid; [exact Hd | rewrite Hd; reflexivity]. }
    rewrite S3. cbn [bind rd_u32be].
    destruct ((t0 * 256 + t1 =? 1) || (t0 * 256 + t1 =? 28)) eqn:EA.
    + destruct HW as (w0 & w1 & w2 & w3 & ->).
      assert (S4 : slice row (dpos + 12) (dpos + 12 + 4) = Val [w0; w1; w2; w3]).
      { unfold row. change ([t0; t1] ++ ch :: M ++ [l0; l1; l2; l3] ++ [0; 0; 0; 0; 0; 0; 0; 0] ++ [w0; w1; w2; w3] ++ R)
          with ([t0; t1] ++ (ch :: M) ++ [l0; l1; l2; l3] ++ [0; 0; 0; 0; 0; 0; 0; 0] ++ [w0; w1; w2; w3] ++ R).
        rewrite (app_assoc [t0; t1]), (app_assoc ([t0; t1] ++ ch :: M)), (app_assoc (([t0; t1] ++ ch :: M) ++ [l0; l1; l2; l3])).
        apply slice_mid; rewrite Hd, !nlen_app; unfold nlen; cbn [length]; lia. }
      rewrite S4. cbn [bind rd_u32be]. do 3 f_equal.
      unfold row, nlen in *. repeat (rewrite ?app_length in *; cbn [length] in * ). lia.
    + subst W. do 3 f_equal.
      unfold row, nlen in *. repeat (rewrite ?app_length in *; cbn [length] in * ). lia.
  - unfold row.
    change ([t0; t1] ++ ch :: M ++ [l0; l1; l2; l3] ++ [0; 0; 0; 0; 0; 0; 0; 0] ++ W ++ R)
      with ([t0; t1] ++ (ch :: M) ++ [l0; l1; l2; l3] ++ [0; 0; 0; 0; 0; 0; 0; 0] ++ W ++ R).
    rewrite (app_assoc [t0; t1]), (app_assoc ([t0; t1] ++ ch :: M)), (app_assoc (([t0; t1] ++ ch :: M) ++ [l0; l1; l2; l3])),
            (app_assoc ((([t0; t1] ++ ch :: M) ++ [l0; l1; l2; l3]) ++ [0; 0; 0; 0; 0; 0; 0; 0])).
    apply slice_from_app. rewrite (nlen_app _ R). lia.
Qed.


(* decoding the row of a declared record gives back the record's fields *)
Lemma extract_row_of : forall r wild, wf_rec r ->
  extract_rr (row_of r) wild = Val (if Bool.eqb wild (r_wild r) then Some (head_of r) else None) /\
  slice_from (row_of r) (h_off (head_of r)) = Val (r_rdata r).
Proof.
  intros r wild (Ht & Httl & Hw & _ & Hl).
  pose proof (u16_rt _ Ht) as E16. pose proof (u32_rt _ Httl) as E32. pose proof (u32_rt _ Hw) as E32w.
  set (W := if (r_type r =? 1) || (r_type r =? 28) then u32be (r_weight r) else []).
  assert (HW : if ((r_type r / 256) mod 256 * 256 + r_type r mod 256 =? 1) || ((r_type r / 256) mod 256 * 256 + r_type r mod 256 =? 28)
               then exists w0 w1 w2 w3, W = [w0; w1; w2; w3] else W = []).
  { rewrite E16. unfold W. destruct ((r_type r =? 1) || (r_type r =? 28)); [unfold u32be; eauto 6 | reflexivity]. }
  assert (Wv : match W with [w0; w1; w2; w3] => ((w0 * 256 + w1) * 256 + w2) * 256 + w3 | _ => 0 end =
               (if (r_type r =? 1) || (r_type r =? 28) then r_weight r else 0)).
  { unfold W. destruct ((r_type r =? 1) || (r_type r =? 28)); [unfold u32be; exact E32w | reflexivity]. }
  unfold head_of. cbn [h_off].
  destruct (r_loc r) as [l|] eqn:EL; [destruct Hl as (a & b & -> & _)|]; destruct (r_wild r) eqn:EW.
  - pose proof (extract_parts ((r_type r / 256) mod 256) (r_type r mod 256) 43 [a; b] ((r_ttl r / 16777216) mod 256) ((r_ttl r / 65536) mod 256) ((r_ttl r / 256) mod 256) (r_ttl r mod 256) W (r_rdata r) wild eq_refl HW) as [P1 P2].
    cbv zeta in P1, P2. rewrite E16, E32, Wv in P1.
    unfold row_of. rewrite EL, EW. fold W. split; [|exact P2].
    etransitivity; [exact P1|]. destruct wild; reflexivity.
  - pose proof (extract_parts ((r_type r / 256) mod 256) (r_type r mod 256) 62 [a; b] ((r_ttl r / 16777216) mod 256) ((r_ttl r / 65536) mod 256) ((r_ttl r / 256) mod 256) (r_ttl r mod 256) W (r_rdata r) wild eq_refl HW) as [P1 P2].
    cbv zeta in P1, P2. rewrite E16, E32, Wv in P1.
    unfold row_of. rewrite EL, EW. fold W. split; [|exact P2].
    etransitivity; [exact P1|]. destruct wild; reflexivity.
  - pose proof (extract_parts ((r_type r / 256) mod 256) (r_type r mod 256) 42 [] ((r_ttl r / 16777216) mod 256) ((r_ttl r / 65536) mod 256) ((r_ttl r / 256) mod 256) (r_ttl r mod 256) W (r_rdata r) wild eq_refl HW) as [P1 P2].
    cbv zeta in P1, P2. rewrite E16, E32, Wv in P1.
    unfold row_of. rewrite EL, EW. fold W. split; [|exact P2].
    etransitivity; [exact P1|]. destruct wild; reflexivity.
  - pose proof (extract_parts ((r_type r / 256) mod 256) (r_type r mod 256) 61 [] ((r_ttl r / 16777216) mod 256) ((r_ttl r / 65536) mod 256) ((r_ttl r / 256) mod 256) (r_ttl r mod 256) W (r_rdata r) wild eq_refl HW) as [P1 P2].
    cbv zeta in P1, P2. rewrite E16, E32, Wv in P1.
    unfold row_of. rewrite EL, EW. fold W. split; [|exact P2].
    etransitivity; [exact P1|]. destruct wild; reflexivity.
Qed.

(* ---------------------------------------------------------------- scanning the rows of records *)
Lemma iter_auth_rows : forall rs ns auth, Forall wf_rec rs ->
  iter_rows auth_cb (map row_of rs) (ns, auth) =
    ((ns || existsb (fun r => negb (r_wild r) && (r_type r =? 2)) rs,
      auth || existsb (fun r => negb (r_wild r) && (r_type r =? 6)) rs), Cont).
Proof.
  induction rs as [|r t IH]; intros ns auth W; cbn [map iter_rows existsb].
  - rewrite !orb_false_r. reflexivity.
  - inversion W as [|? ? Wr Wt]; subst. unfold auth_cb at 1.
    rewrite (proj1 (extract_row_of r false Wr)).
    destruct (r_wild r); cbn [Bool.eqb negb andb orb].
    + rewrite IH by exact Wt. reflexivity.
    + unfold head_of; cbn [h_type].
      destruct (r_type r =? 6) eqn:E6.
      * apply N.eqb_eq in E6. rewrite IH by exact Wt. rewrite E6. cbn. rewrite orb_true_r. reflexivity.
      * destruct (r_type r =? 2) eqn:E2; rewrite IH by exact Wt; cbn; [rewrite orb_true_r|]; reflexivity.
Qed.

(* ---------------------------------------------------------------- names and keys *)
Definition wf_name (n : name) : Prop := Forall wf_label n.

Lemma pack_inj : forall a b : name, pack a = pack b -> a = b.
Proof.
  induction a as [|x a IH]; destruct b as [|y b]; unfold pack; cbn [flat_map app]; intros H; try reflexivity.
  - destruct y; cbn in H; inversion H. destruct (flat_map (fun l => nlen l :: l) b); discriminate.
  - destruct x; cbn in H; inversion H. destruct (flat_map (fun l => nlen l :: l) a); discriminate.
  - inversion H as [[Hn Ht]]. rewrite <- !app_assoc in Ht.
    assert (Hl : length x = length y) by (unfold nlen in Hn; lia).
    assert (Hx : x = y /\ flat_map (fun l => nlen l :: l) a ++ [0] = flat_map (fun l => nlen l :: l) b ++ [0]).
    { clear -Ht Hl. revert y Hl Ht. induction x as [|c x IHx]; destruct y as [|d y]; cbn; intros Hl Ht; try discriminate.
      - split; [reflexivity | exact Ht].
      - inversion Ht; subst. destruct (IHx y) as [-> E]; auto. }
    destruct Hx as [-> Hp]. f_equal. apply IH. exact Hp.
Qed.

Lemma label_eqb_lower : forall a b, lower_label a -> lower_label b -> label_eqb a b = true -> a = b.
Proof.
  induction a as [|x a IH]; destruct b as [|y b]; cbn; intros Ha Hb H; try reflexivity; try discriminate.
  apply andb_prop in H as [H1 H2].
  assert (x = y).
  { pose proof (Ha x (or_introl eq_refl)). pose proof (Hb y (or_introl eq_refl)). unfold lowerb in H1.
    destruct ((65 <=? x) && (x <=? 90)) eqn:Ex; destruct ((65 <=? y) && (y <=? 90)) eqn:Ey; lia. }
  subst. f_equal. apply IH; [intros c Hc; apply Ha; right; exact Hc | intros c Hc; apply Hb; right; exact Hc | exact H2].
Qed.
Lemma label_eqb_refl : forall a, label_eqb a a = true.
Proof. induction a; cbn; [reflexivity|]. rewrite N.eqb_refl. exact IHa. Qed.
Lemma name_eqb_refl : forall a, name_eqb a a = true.
Proof. induction a; cbn; [reflexivity|]. rewrite label_eqb_refl. exact IHa. Qed.
Lemma name_eqb_lower : forall a b, wf_name a -> wf_name b -> name_eqb a b = true -> a = b.
Proof.
  induction a as [|x a IH]; destruct b as [|y b]; cbn; intros Ha Hb H; try reflexivity; try discriminate.
  apply andb_prop in H as [H1 H2]. inversion Ha; inversion Hb; subst.
  f_equal; [apply label_eqb_lower; try assumption; [apply H3 | apply H7] | apply IH; assumption].
Qed.

Section Compiled.
Variable recs : list record.
Variable L : bytes.
Hypothesis W : wf_recs recs.
Hypothesis HL : length L = 2%nat.

Lemma wf_recs_locs : wf_locs recs.
Proof.
  intros r l Hin E. unfold wf_recs in W. rewrite Forall_forall in W. destruct (W r Hin) as (_ & _ & _ & _ & Hl).
  rewrite E in Hl. destruct Hl as (a & b & -> & Hne). split; [reflexivity | exact Hne].
Qed.

(* the two keys probed for name n hold exactly the records of n visible to L *)
Lemma probed_iff : forall r n, In r recs -> wf_name n ->
  (bytes_eqb (key_v1 r) (L ++ pack n) || bytes_eqb (key_v1 r) (loc0 ++ pack n)) =
  (visible L r && name_eqb (r_owner r) n).
Proof.
  intros r n Hin Hn.
  pose proof W as W'. unfold wf_recs in W'. rewrite Forall_forall in W'. destruct (W' r Hin) as (_ & _ & _ & Ho & Hl).
  destruct (bytes_eqb (key_v1 r) (L ++ pack n) || bytes_eqb (key_v1 r) (loc0 ++ pack n)) eqn:E.
  - symmetry. apply orb_prop in E.
    assert (V : visible L r = true).
    { apply (probed_visible recs L (pack n) r wf_recs_locs HL Hin).
      destruct E as [E|E]; apply bytes_eqb_eq in E; [left | right]; exact E. }
    rewrite V. cbn [andb].
    assert (P : pack (r_owner r) = pack n).
    { unfold key_v1 in E. destruct E as [E|E]; apply bytes_eqb_eq in E.
      - apply app2_inj in E as [_ E]; [exact E | | exact HL].
        unfold loc_bytes. destruct (r_loc r) as [l|]; [destruct Hl as (a & b & -> & _)|]; reflexivity.
      - apply app2_inj in E as [_ E]; [exact E | | reflexivity].
        unfold loc_bytes. destruct (r_loc r) as [l|]; [destruct Hl as (a & b & -> & _)|]; reflexivity. }
    apply pack_inj in P. rewrite P. apply name_eqb_refl.
  - symmetry. destruct (visible L r) eqn:V; [|reflexivity]. cbn [andb].
    destruct (name_eqb (r_owner r) n) eqn:N; [|reflexivity].
    apply name_eqb_lower in N; [|exact Ho | exact Hn]. subst n.
    apply orb_false_elim in E as [E1 E2]. unfold key_v1, visible, loc_bytes in *.
    destruct (r_loc r) as [l|].
    + apply bytes_eqb_eq in V. subst l. rewrite bytes_eqb_refl in E1. discriminate.
    + unfold loc0 in E2. rewrite bytes_eqb_refl in E2. discriminate.
Qed.
End Compiled.

Lemma existsb_filter : forall {A} (p q : A -> bool) l, existsb p (filter q l) = existsb (fun x => q x && p x) l.
Proof. induction l as [|x l IH]; cbn; [reflexivity|]. destruct (q x); cbn; rewrite IH; reflexivity. Qed.
Lemma existsb_or : forall {A} (f g : A -> bool) l, existsb f l || existsb g l = existsb (fun x => f x || g x) l.
Proof.
  induction l as [|x l IH]; cbn; [reflexivity|]. rewrite <- IH.
  destruct (f x), (g x), (existsb f l), (existsb g l); reflexivity.
Qed.
Lemma existsb_ext_in : forall {A} (f g : A -> bool) l, (forall x, In x l -> f x = g x) -> existsb f l = existsb g l.
Proof.
  induction l as [|x l IH]; intros H; cbn; [reflexivity|].
  rewrite (H x (or_introl eq_refl)), IH; [reflexivity | intros y Hy; apply H; right; exact Hy].
Qed.
Lemma nonempty_filter : forall {A} (p : A -> bool) l, nonempty (filter p l) = existsb p l.
Proof. induction l as [|x l IH]; cbn; [reflexivity|]. destruct (p x); cbn; [reflexivity | exact IH]. Qed.
Lemma Forall_filter : forall {A} (P : A -> Prop) (p : A -> bool) l, Forall P l -> Forall P (filter p l).
Proof. induction l; cbn; intros H; [constructor|]. inversion H; subst. destruct (p a); [constructor|]; auto. Qed.

Section Walk.
Variable b : backend.
Variable recs : list record.
Variable L : bytes.
Hypothesis W : wf_recs recs.
Hypothesis HL : length L = 2%nat.
Hypothesis Hb : b <> RDB2.
Let st := store_v1 recs.

Definition has_type_at (t : N) (n : name) : bool := nonempty (of_type t (own_records L recs n)).

Lemma has_type_at_existsb : forall t n,
  has_type_at t n = existsb (fun r => (visible L r && name_eqb (r_owner r) n) && (negb (r_wild r) && (r_type r =? t))) recs.
Proof.
  intros. unfold has_type_at, of_type, own_records. rewrite nonempty_filter, existsb_filter.
  apply existsb_ext_in. intros r _. destruct (visible L r), (r_wild r), (name_eqb (r_owner r) n); reflexivity.
Qed.

Lemma scan_key : forall key ns auth,
  for_each_v1 b st key auth_cb (ns, auth) =
    ((ns || existsb (fun r => bytes_eqb (key_v1 r) key && (negb (r_wild r) && (r_type r =? 2))) recs,
      auth || existsb (fun r => bytes_eqb (key_v1 r) key && (negb (r_wild r) && (r_type r =? 6))) recs), false).
Proof.
  intros. unfold for_each_v1, st, store_v1. rewrite get_store_of, rows_for_v1, iter_auth_rows.
  - rewrite !existsb_filter. reflexivity.
  - apply Forall_filter. exact W.
Qed.

(* one iteration of the IsAuthoritative loop at name n *)
Lemma auth_step : forall n ns auth, wf_name n ->
  let '(ns1, auth1, e1) :=
      if is_loc0 L then (ns, auth, false) else for_each_v1 b st (L ++ pack n) auth_cb (ns, auth) in
  e1 = false /\
  let '(ns2, auth2, e2) :=
      if auth1 && ns1 then (ns1, auth1, false) else for_each_v1 b st (loc0 ++ pack n) auth_cb (ns1, auth1) in
  e2 = false /\ ns2 = ns || has_type_at 2 n /\ auth2 = auth || has_type_at 6 n.
Proof.
  intros n ns auth Hn.
  assert (K : forall t,
     existsb (fun r => bytes_eqb (key_v1 r) (L ++ pack n) && (negb (r_wild r) && (r_type r =? t))) recs ||
     existsb (fun r => bytes_eqb (key_v1 r) (loc0 ++ pack n) && (negb (r_wild r) && (r_type r =? t))) recs = has_type_at t n).
  { intros t. rewrite has_type_at_existsb, existsb_or. apply existsb_ext_in. intros r Hin.
    rewrite <- (probed_iff recs L W HL r n Hin Hn).
    destruct (bytes_eqb (key_v1 r) (L ++ pack n)), (bytes_eqb (key_v1 r) (loc0 ++ pack n)), (negb (r_wild r) && (r_type r =? t)); reflexivity. }
  destruct (is_loc0 L) eqn:EL.
  - apply bytes_eqb_eq in EL. split; [reflexivity|].
    assert (K0 : forall t, existsb (fun r => bytes_eqb (key_v1 r) (loc0 ++ pack n) && (negb (r_wild r) && (r_type r =? t))) recs = has_type_at t n).
    { intros t. rewrite <- K. rewrite EL. destruct (existsb _ recs); reflexivity. }
    destruct (auth && ns) eqn:EA.
    + apply andb_prop in EA as [-> ->]. repeat split; reflexivity.
    + rewrite scan_key, !K0. repeat split; reflexivity.
  - rewrite scan_key. split; [reflexivity|].
    match goal with |- context [if ?c then _ else _] => destruct c eqn:EA end.
    + apply andb_prop in EA as [EA1 EA2]. split; [reflexivity|]. rewrite <- !K.
      revert EA1 EA2.
      generalize (existsb (fun r => bytes_eqb (key_v1 r) (L ++ pack n) && (negb (r_wild r) && (r_type r =? 2))) recs).
      generalize (existsb (fun r => bytes_eqb (key_v1 r) (L ++ pack n) && (negb (r_wild r) && (r_type r =? 6))) recs).
      generalize (existsb (fun r => bytes_eqb (key_v1 r) (loc0 ++ pack n) && (negb (r_wild r) && (r_type r =? 2))) recs).
      generalize (existsb (fun r => bytes_eqb (key_v1 r) (loc0 ++ pack n) && (negb (r_wild r) && (r_type r =? 6))) recs).
      intros x1 x2 x3 x4 EA1 EA2. destruct ns, auth, x1, x2, x3, x4; cbn in *; try discriminate; split; reflexivity.
    + rewrite scan_key, <- !K. split; [reflexivity|]. split; rewrite orb_assoc; reflexivity.
Qed.

Lemma pack_cons : forall l (p : name), pack (l :: p) = (nlen l :: l) ++ pack p.
Proof. intros. unfold pack. cbn [flat_map]. rewrite <- app_assoc. reflexivity. Qed.

Lemma soa_implies_ns : forall n, wf_name n -> wf_view L recs = true ->
  has_type_at 6 n = true -> has_type_at 2 n = true.
Proof.
  intros n Hn V H. unfold has_type_at, of_type in H. rewrite nonempty_filter in H.
  apply existsb_exists in H as [r [Hin Ht]]. unfold own_records in Hin. apply filter_In in Hin as [Hin Hc].
  apply andb_prop in Hc as [Hc Hname]. apply andb_prop in Hc as [Hv Hw].
  unfold wf_view in V. rewrite forallb_forall in V. specialize (V r Hin).
  rewrite Hv, Hw, Ht in V. cbn in V.
  pose proof W as W'. unfold wf_recs in W'. rewrite Forall_forall in W'. destruct (W' r Hin) as (_ & _ & _ & Ho & _).
  apply name_eqb_lower in Hname; [|exact Ho | exact Hn]. subst n. exact V.
Qed.

(* DataReader.IsAuthoritative over the compiled store computes the spec's zone cut *)
Lemma is_auth_walk : forall n fuel, wf_name n -> wf_view L recs = true -> (length (pack n) < fuel)%nat ->
  is_auth_v1 b st fuel (pack n) L false false =
    Val (match zone_cut L recs n with
         | Some z => mkAuth true (authoritative L recs z) (pack z) false
         | None => mkAuth false false [0] false
         end).
Proof.
  induction n as [|l p IH]; intros fuel Hn V Hf; (destruct fuel as [|fuel]; [lia|]); cbn [is_auth_v1].
  - pose proof (auth_step [] false false Hn) as H.
    destruct (if is_loc0 L then (false, false, false) else for_each_v1 b st (L ++ pack []) auth_cb (false, false)) as [[ns1 auth1] e1].
    destruct H as [-> H].
    destruct (if auth1 && ns1 then (ns1, auth1, false) else for_each_v1 b st (loc0 ++ pack []) auth_cb (ns1, auth1)) as [[ns2 auth2] e2].
    destruct H as (-> & -> & ->). cbn [orb zone_cut].
    change (nonempty (of_type 2 (own_records L recs []))) with (has_type_at 2 []).
    destruct (has_type_at 2 []) eqn:E2; [reflexivity|].
    assert (E6 : has_type_at 6 [] = false).
    { destruct (has_type_at 6 []) eqn:E6; [|reflexivity]. rewrite (soa_implies_ns [] Hn V E6) in E2. discriminate. }
    rewrite E6. reflexivity.
  - pose proof (auth_step (l :: p) false false Hn) as H.
    destruct (if is_loc0 L then (false, false, false) else for_each_v1 b st (L ++ pack (l :: p)) auth_cb (false, false)) as [[ns1 auth1] e1].
    destruct H as [-> H].
    destruct (if auth1 && ns1 then (ns1, auth1, false) else for_each_v1 b st (loc0 ++ pack (l :: p)) auth_cb (ns1, auth1)) as [[ns2 auth2] e2].
    destruct H as (-> & -> & ->). cbn [orb zone_cut].
    change (nonempty (of_type 2 (own_records L recs (l :: p)))) with (has_type_at 2 (l :: p)).
    destruct (has_type_at 2 (l :: p)) eqn:E2; [reflexivity|].
    assert (E6 : has_type_at 6 (l :: p) = false).
    { destruct (has_type_at 6 (l :: p)) eqn:E6; [|reflexivity]. rewrite (soa_implies_ns _ Hn V E6) in E2. discriminate. }
    rewrite E6. inversion Hn as [|? ? Hl Hp]; subst. destruct Hl as [[Hl1 Hl2] _].
    rewrite pack_cons. cbn [app]. unfold idx. cbn [N.to_nat nth_error bind].
    assert (Ez : (nlen l =? 0) = false) by lia. rewrite Ez.
    assert (Hb8 : b8 (1 + nlen l) = 1 + nlen l) by (unfold b8; apply N.mod_small; lia). rewrite Hb8.
    change (nlen l :: l ++ pack p) with ((nlen l :: l) ++ pack p).
    rewrite (slice_from_app (nlen l :: l) (pack p)) by (rewrite nlen_cons; reflexivity). cbn [bind].
    apply IH; [exact Hp | exact V|].
    rewrite pack_cons, app_length in Hf. cbn [length] in Hf. lia.
Qed.
End Walk.
