(* The v1 reader over a compiled store computes the spec's zone cut (first part of the C01
   refinement): rows decode to the records they encode, the keys probed for a name hold exactly
   the visible records of that name, and the label-stripping loop of IsAuthoritative returns
   Spec.Answer.zone_cut / authoritative. *)
From DnsV Require Import Base.Bytes Model.Store Model.LookupV1 Spec.Answer Spec.Rows.
From DnsV Require Import Proofs.Answer Proofs.Compile.
From Coq Require Import ZifyN ZifyNat ZifyBool.
Ltac Zify.zify_post_hook ::= Z.div_mod_to_equations.
Open Scope N_scope.

Definition lower_label (l : label) : Prop := forall c, In c l -> ~ (65 <= c <= 90).
Definition wf_label (l : label) : Prop := 1 <= nlen l <= 63 /\ lower_label l /\ Forall (fun c => c < 256) l.
Definition wf_rec (r : record) : Prop :=
  r_type r < 65536 /\ r_ttl r < 4294967296 /\ r_weight r < 4294967296 /\
  Forall wf_label (r_owner r) /\
  match r_loc r with Some l => exists a b, l = [a; b] /\ l <> [0; 0] | None => True end.
Definition wf_recs (recs : list record) : Prop := Forall wf_rec recs.

Lemma u16_rt : forall n, n < 65536 -> (n / 256) mod 256 * 256 + n mod 256 = n.
Proof. intros. lia. Qed.
Lemma u32_rt : forall n, n < 4294967296 ->
  (((n / 16777216) mod 256 * 256 + (n / 65536) mod 256) * 256 + (n / 256) mod 256) * 256 + n mod 256 = n.
Proof. intros. lia. Qed.

Lemma nlen_cons : forall {A} (x : A) l, nlen (x :: l) = 1 + nlen l.
Proof. intros. unfold nlen. cbn [length]. lia. Qed.

Definition head_of (r : record) : rrhead :=
  mkHead (r_type r) (r_ttl r) (if (r_type r =? 1) || (r_type r =? 28) then r_weight r else 0)
         (nlen (row_of r) - nlen (r_rdata r)).

Lemma extract_row_of : forall r wild, wf_rec r ->
  extract_rr (row_of r) wild = Val (if Bool.eqb wild (r_wild r) then Some (head_of r) else None) /\
  slice_from (row_of r) (h_off (head_of r)) = Val (r_rdata r).
Proof.
  intros r wild (Ht & Httl & Hw & _ & Hl).
  pose proof (u16_rt _ Ht) as E16. pose proof (u32_rt _ Httl) as E32. pose proof (u32_rt _ Hw) as E32w.
  unfold head_of, row_of, extract_rr, u16be, u32be.
  destruct (r_loc r) as [l|]; [destruct Hl as (a & b & -> & _)|];
  destruct (r_wild r); destruct wild;
  destruct ((r_type r =? 1) || (r_type r =? 28)) eqn:EA;
  cbn [app];
  unfold slice, slice_from, idx; rewrite !nlen_cons;
  repeat match goal with |- context [?x <=? ?y] =>
    let H := fresh in assert (H : (x <=? y) = true) by lia; rewrite H; clear H end;
  cbn [andb bind N.to_nat Pos.to_nat Pos.iter_op Nat.add nth_error skipn firstn N.sub Pos.sub_mask Pos.succ_double_mask Pos.double_mask Pos.double_pred_mask Pos.pred_double];
  admit.
Abort.
