(* Proofs/LinkCountersNoPanicExample: the guards of the unconditional counters theorems hold on concrete compiled
   databases (Proofs/ComposeExample.v: y_g2 = the RocksDB v2-keyed store compiled from the five declared records
   x_recs of the data file of C01_file_level_example; y_g1 = the CDB of that file's text) and the statements are
   not vacuous. *)
From DnsV Require Import Base.Bytes Model.Store Model.LookupV1 Model.Serve.
From DnsV Require Import Spec.Answer Spec.Rows Spec.KeysV2 Proofs.Compile Proofs.ZoneCut Proofs.V2Store.
From DnsV Require Import Proofs.NoPanic Proofs.NoPanicV2 Proofs.FileLevel Proofs.FileLevelExample.
From DnsV Require Model.Counters Spec.Counters.
From DnsV Require Import Model.Compose Proofs.Compose Proofs.ComposeExample.
From DnsV Require Import Model.ComposeMore Proofs.LinkCountersServe Proofs.LinkCountersSpec Proofs.LinkCountersNoPanic.
Open Scope N_scope.

Module MC := Model.Counters.

Definition n_sd : side := mkSide false 0 false.
Definition n_q3 : query := mkQ 3 [2; 110; 111; 7; 101; 120; 97; 109; 112; 108; 101; 3; 99; 111; 109; 0] 1 1 None.  (* A no.example.com *)
Definition n_q4 : query := mkQ 4 [3; 70; 111; 111; 3; 111; 114; 103; 0] 16 1 None.                                 (* TXT Foo.org *)

Example counters_no_panic_example :
  (* the guards, on the v2-keyed compiled store *)
  g_backend y_g2 = RDB2 /\ wf_store_v2 (g_store y_g2) = true /\ (length (g_store y_g2) = 3)%nat /\
  wire_name (q_name x_q1) = true /\ wire_name (q_name n_q3) = true /\ wire_name (q_name n_q4) = true /\
  loc_wf (LocOk [0; 0]) /\
  (* TXT Foo.example.com: the wildcard's text - one answer, no outcome counter *)
  MC.o_incs (MC.serve (class_of n_sd RDB2 (g_store y_g2) x_q1 (LocOk [0; 0]) None 1)) =
    [MC.KQueries; MC.KType 16; MC.KLocEmpty; MC.KRespAuth] /\
  MC.o_writes (MC.serve (class_of n_sd RDB2 (g_store y_g2) x_q1 (LocOk [0; 0]) None 1)) = [MC.WrComposed 0 true 1 true] /\
  (* A no.example.com: covered by the wildcard, which has no A record: NODATA (not NXDOMAIN) *)
  MC.o_incs (MC.serve (class_of n_sd RDB2 (g_store y_g2) n_q3 (LocOk [0; 0]) None 1)) =
    [MC.KQueries; MC.KType 1; MC.KLocEmpty; MC.KRespAuth; MC.KNodata] /\
  (* TXT Foo.org: outside every zone: REFUSED *)
  MC.o_incs (MC.serve (class_of n_sd RDB2 (g_store y_g2) n_q4 (LocOk [0; 0]) None 1)) =
    [MC.KQueries; MC.KType 16; MC.KLocEmpty; MC.KRespRefused; MC.KNotAuthoritative; MC.KRefused] /\
  (* the unconditional statements for these two databases, every query and every side condition *)
  (forall sd q locr ecs max, wire_name (q_name q) = true -> loc_wf locr ->
     counters_follow sd q (serve RDB2 (g_store y_g2) q locr ecs max)
                     (MC.serve (class_of sd RDB2 (g_store y_g2) q locr ecs max))) /\
  (forall sd q n ecs max, wf_name n -> nlen (pack n) <= 255 -> lower_bytes (q_name q) = pack n ->
     (q_edns q = None \/ q_edns q = Some 0) -> s_write_err sd = false ->
     exists x, serve CDB (g_store y_g1) q (LocOk x_L) ecs max = OReply x /\
               counters_by_spec x_L x_recs n q max (MC.serve (class_of sd CDB (g_store y_g1) q (LocOk x_L) ecs max))).
Proof.
  assert (G : wf_store_v2 (g_store y_g2) = true) by (vm_compute; reflexivity).
  split; [reflexivity|]. split; [exact G|]. split; [vm_compute; reflexivity|].
  split; [vm_compute; reflexivity|]. split; [vm_compute; reflexivity|]. split; [vm_compute; reflexivity|].
  split; [reflexivity|].
  split; [vm_compute; reflexivity|]. split; [vm_compute; reflexivity|]. split; [vm_compute; reflexivity|].
  split; [vm_compute; reflexivity|].
  split.
  - intros sd q locr ecs max Hw Hl. exact (counters_follow_serve_wf_v2 sd (g_store y_g2) q locr ecs max G Hw Hl).
  - intros sd q n ecs max Hn Hl Hq He Hw.
    destruct (counters_by_spec_total y_g1 x_L x_recs y_g1_declares sd q n ecs max Hn Hl Hq He Hw) as (x & E & _ & K).
    exists x. split; [exact E|exact K].
Qed.
