(* TextSizes: every value a data line compiles to is short.  For a line l that parse_line accepts,
   every value of convert v2 true (parse_line l) is at most 12 * |l| + 500000 bytes long, provided the
   library's ParseIP returns 16-byte addresses.  Hence lines shorter than 16 MiB (bufio.Scanner hands out
   at most 64 KiB) compile to values that fit the four-byte length of the multi-value framing (C15):
   the guard kvs_ok of C07 / C08 follows from the length of the text lines.

   Where the factors come from: Bunquote emits at most 4 bytes per input byte (U+FFFD for an invalid byte
   is three bytes, an escape shrinks); a server name is expanded with ".ns." and the owner (two unquoted
   fields); putdom adds 2; TXT chunking adds one length byte per 127; a B/H parameter list has at most
   seven parameters (the keys are unique and known) of at most 65535 bytes each (e9382c2). *)
From DnsV Require Import Base.Bytes Model.Utf8 Model.Quote Model.Text Model.Preproc.
From DnsV Require Model.Svcb Base.Text Proofs.SvcbLib.
From Coq Require Import Permutation Lia ZifyN ZifyNat ZifyBool.
Open Scope N_scope.

(* ---------------------------------------------------------------- fields *)
Lemma splitn_len : forall s n c cur, Forall (fun p => (length p <= length s + length cur)%nat) (splitn n c s cur).
Proof.
  induction s as [|x t IH]; intros n c cur; cbn [splitn].
  - constructor; [rewrite rev_length; cbn [length]; lia | constructor].
  - destruct ((x =? c) && (1 <? n)%nat).
    + constructor; [rewrite rev_length; cbn [length]; lia|].
      specialize (IH (pred n) c []). eapply Forall_impl; [|exact IH]. cbn [length]. intros; lia.
    + specialize (IH n c (x :: cur)). eapply Forall_impl; [|exact IH]. cbn [length]. intros; lia.
Qed.

Lemma fld_len : forall l i, (length (fld (fields l) i) <= length l)%nat.
Proof.
  intros l i. unfold fld, fields.
  set (sep := match first_sep (tl l) with Some c => c | None => 44 end).
  pose proof (splitn_len (tl l) 15 sep []) as F. rewrite Forall_forall in F.
  destruct (Nat.lt_ge_cases i (length (splitn 15 sep (tl l) []))) as [L|L].
  - specialize (F _ (nth_In _ [] L)). cbn beta in F. cbn [length] in F.
    eapply Nat.le_trans; [exact F|]. destruct l; cbn [tl length]; lia.
  - rewrite nth_overflow by exact L. cbn [length]. lia.
Qed.

(* ---------------------------------------------------------------- unquoting *)
Lemma encode_rune_len : forall r, (length (encode_rune r) <= 4)%nat.
Proof.
  intro r. unfold encode_rune. destruct (r <? 128); [cbn; lia|]. destruct (r <? 2048); [cbn; lia|].
  destruct (negb (valid_rune r)); [cbn; lia|]. destruct (r <? 65536); cbn; lia.
Qed.

Lemma unquote_loop_len : forall fuel s x, unquote_loop fuel s = Ok x -> (length x <= 4 * fuel)%nat.
Proof.
  induction fuel as [|fuel IH]; intros s x H.
  - destruct s; cbn [unquote_loop] in H; [inversion H; cbn; lia | discriminate H].
  - destruct s as [|c t]; [inversion H; cbn; lia|].
    cbn [unquote_loop] in H. destruct (unquote_char (c :: t)) as [[[r mb] ss]|]; [|discriminate H].
    destruct (unquote_loop fuel ss) as [rest|] eqn:E; [|discriminate H]. inversion H; subst x.
    specialize (IH ss rest E). rewrite app_length. pose proof (encode_rune_len r).
    destruct ((r <? 128) || negb mb); cbn [length]; lia.
Qed.

Lemma bunquote_len : forall b x, bunquote b = Ok x -> (length x <= 4 * length b)%nat.
Proof.
  intros b x H. unfold bunquote in H. destruct b as [|c t]; [inversion H; cbn; lia|].
  destruct (negb (contains 92 (c :: t))); [inversion H; lia|]. apply unquote_loop_len in H. exact H.
Qed.

Lemma unq_len : forall b, (length (unq b) <= 4 * length b)%nat.
Proof.
  intro b. unfold unq. destruct (bunquote b) as [x|] eqn:E; [apply bunquote_len; exact E | lia].
Qed.

Lemma getdom_len : forall b d w, getdom b = (d, w) -> (length d <= 4 * length b)%nat.
Proof.
  intros b d w H. replace d with (fst (getdom b)) by (rewrite H; reflexivity).
  unfold getdom. pose proof (unq_len b) as U. pose proof (skipn_length 2 (unq b)) as K.
  destruct (is_wild (unq b)); unfold fst; lia.
Qed.

Lemma getdom_fst_len : forall b, (length (fst (getdom b)) <= 4 * length b)%nat.
Proof. intro b. destruct (getdom b) as [d w] eqn:G. cbn [fst]. eapply getdom_len; exact G. Qed.

Lemma expand_len : forall x mid dom, (length (expand x mid dom) <= length x + length mid + length dom + 2)%nat.
Proof.
  intros. unfold expand. destruct (contains 46 x); [lia|]. rewrite app_length. cbn [length]. rewrite app_length. cbn [length]. lia.
Qed.

(* ---------------------------------------------------------------- wire pieces *)
Lemma put_label_len : forall s, (length (put_label s) <= 1 + length s)%nat.
Proof.
  intro s. unfold put_label. destruct (nlen s mod 256 =? 0); [cbn; lia|]. cbn [length]. rewrite firstn_length. lia.
Qed.

Lemma labels_len : forall s cur, (length (flat_map put_label (split_on 46 s cur)) <= length s + length cur + 1)%nat.
Proof.
  induction s as [|x t IH]; intro cur; cbn [split_on].
  - cbn [flat_map]. rewrite app_nil_r. pose proof (put_label_len (rev cur)) as P. rewrite rev_length in P. cbn [length]. lia.
  - destruct (x =? 46).
    + cbn [flat_map]. rewrite app_length. pose proof (put_label_len (rev cur)) as P. rewrite rev_length in P.
      specialize (IH []). cbn [length] in *. lia.
    + specialize (IH (x :: cur)). cbn [length] in *. lia.
Qed.

Lemma putdom_len : forall a, (length (putdom a) <= length a + 2)%nat.
Proof.
  intro a. unfold putdom. rewrite app_length. pose proof (labels_len a []) as L. cbn [length] in *. lia.
Qed.

Lemma rrhead_len : forall t ttl lo w, (length (rrhead t ttl lo w) <= 17)%nat.
Proof.
  intros. unfold rrhead. rewrite !app_length.
  change (length (u16be t)) with 2%nat. change (length (u32be ttl)) with 4%nat. change (length zeros8) with 8%nat.
  destruct (negb (length lo =? 2)%nat || ((nth 0 lo 0 =? 0) && (nth 1 lo 0 =? 0))) eqn:E; [cbn [length]; lia|].
  cbn [length]. apply orb_false_iff in E as [E _]. apply Bool.negb_false_iff in E. apply Nat.eqb_eq in E. lia.
Qed.

Lemma txt_chunks_len : forall s k cur, (length (txt_chunks s k cur) <= 2 * length s + length cur + 1)%nat.
Proof.
  induction s as [|x t IH]; intros k cur; cbn [txt_chunks].
  - destruct cur; [cbn; lia|]. cbn [length]. rewrite rev_length. cbn [length]. lia.
  - destruct (k =? 127)%nat.
    + cbn [length]. rewrite app_length, rev_length. specialize (IH 1%nat [x]). cbn [length] in *. lia.
    + specialize (IH (S k) (x :: cur)). cbn [length] in *. lia.
Qed.

Definition vals_le (c : nat) (l : list (bytes * bytes)) : Prop := Forall (fun p => (length (snd p) <= c)%nat) l.

Lemma vals_le_app : forall c a b, vals_le c a -> vals_le c b -> vals_le c (a ++ b).
Proof. intros. apply Forall_app. split; assumption. Qed.

Lemma vals_le_mono : forall c c' l, (c <= c')%nat -> vals_le c l -> vals_le c' l.
Proof. intros c c' l H F. eapply Forall_impl; [|exact F]. cbn beta. intros; lia. Qed.

Lemma addr_kv_len : forall v2 dom wild ip ttl lo weight,
  (forall a, ip = Some a -> length a = 16%nat) -> vals_le 37 (addr_kv v2 dom wild ip ttl lo weight).
Proof.
  intros v2 dom wild ip ttl lo weight H. unfold addr_kv. destruct ip as [a|]; [|constructor].
  specialize (H a eq_refl). pose proof (rrhead_len T_A ttl lo wild). pose proof (rrhead_len T_AAAA ttl lo wild).
  pose proof (skipn_length 12 a) as K.
  destruct (is4 a); (constructor; [|constructor]); cbn [snd]; rewrite !app_length; change (length (u32be weight)) with 4%nat; lia.
Qed.

(* ---------------------------------------------------------------- B/H parameters *)
Lemma key_of_name_lt : forall s k, Model.Svcb.key_of_name s = Some k -> k < 7.
Proof.
  intros s k H. unfold Model.Svcb.key_of_name in H.
  repeat match type of H with (if ?c then _ else _) = _ => destruct c end; inversion H; lia.
Qed.

Definition param_ok (p : Model.Svcb.param) : Prop := fst p < 7 /\ nlen (snd p) <= 65535.

Lemma param_from_text_ok : forall orc s p, Model.Svcb.param_from_text orc s = Ok p -> param_ok p.
Proof.
  intros orc s p H. unfold Model.Svcb.param_from_text in H.
  destruct (Base.Text.cut_at 61 s) as [[k v]|]; [|discriminate H].
  destruct (Model.Svcb.key_of_name k) as [kn|] eqn:Ek; [|discriminate H].
  destruct (negb (kn =? 2) && match v with [] => true | _ :: _ => false end); [discriminate H|].
  destruct (Model.Svcb.marshal orc kn (Base.Text.trim_byte 34 v)) as [d|]; cbn [rbind] in H; [|discriminate H].
  destruct (65535 <? nlen d) eqn:El; [discriminate H|]. inversion H; subst p. split; cbn [fst snd].
  - eapply key_of_name_lt; exact Ek.
  - apply N.ltb_ge in El. exact El.
Qed.

Lemma has_key_notin : forall k l, Model.Svcb.has_key k l = false -> ~ In k (map fst l).
Proof.
  intros k l H I. apply in_map_iff in I as (p & E & Hp). unfold Model.Svcb.has_key in H.
  assert (X : existsb (fun q => fst q =? k) l = true) by (apply existsb_exists; exists p; split; [exact Hp | apply N.eqb_eq; exact E]).
  congruence.
Qed.

Lemma ft_loop_ok' : forall orc segs acc l, Model.Svcb.ft_loop orc segs acc = Ok l ->
  Forall param_ok acc -> NoDup (map fst acc) -> Forall param_ok l /\ NoDup (map fst l).
Proof.
  intros orc. induction segs as [|s r IH]; intros acc l H F ND; cbn [Model.Svcb.ft_loop] in H.
  - inversion H; subst. split; assumption.
  - destruct s as [|c0 s0]; [inversion H; subst; split; assumption|].
    destruct (Model.Svcb.param_from_text orc (c0 :: s0)) as [p|] eqn:Ep; [|discriminate H].
    destruct (Model.Svcb.has_key (fst p) acc) eqn:Ek; [discriminate H|].
    apply (IH _ _ H).
    + apply Forall_app. split; [exact F|]. constructor; [eapply param_from_text_ok; exact Ep | constructor].
    + rewrite map_app. cbn [map]. eapply Permutation_NoDup; [apply (Permutation_app_comm [fst p])|]. cbn [app].
      constructor; [apply has_key_notin; exact Ek | exact ND].
Qed.

Lemma nodup_small_len : forall l : list N, NoDup l -> Forall (fun k => k < 7) l -> (length l <= 7)%nat.
Proof.
  intros l ND F. change 7%nat with (length [0; 1; 2; 3; 4; 5; 6]). apply NoDup_incl_length; [exact ND|].
  intros k Hk. rewrite Forall_forall in F. specialize (F k Hk). cbn [In].
  assert (k = 0 \/ k = 1 \/ k = 2 \/ k = 3 \/ k = 4 \/ k = 5 \/ k = 6) by lia. intuition.
Qed.

Lemma to_wire_len : forall l, Forall param_ok l -> nlen (Model.Svcb.to_wire l) <= 65539 * nlen l.
Proof.
  induction l as [|p l IH]; intro F; [cbn; lia|]. inversion F as [|? ? [_ Hp] Hl]; subst.
  specialize (IH Hl). unfold Model.Svcb.to_wire in *. cbn [flat_map]. unfold nlen in *. rewrite app_length.
  assert (E : length (Model.Svcb.param_to_wire p) = (4 + length (snd p))%nat).
  { unfold Model.Svcb.param_to_wire. rewrite !app_length. reflexivity. }
  rewrite E. cbn [length]. lia.
Qed.

Lemma from_text_len : forall orc t ps, Model.Svcb.from_text orc t = Ok ps -> nlen (Model.Svcb.to_wire ps) <= 458773.
Proof.
  intros orc t ps H. unfold Model.Svcb.from_text in H.
  destruct (Model.Svcb.ft_loop orc (Base.Text.split_on 59 t) []) as [l0|] eqn:E; cbn [rbind] in H; [|discriminate H].
  destruct (Model.Svcb.mand_check l0); cbn [rbind] in H; [|discriminate H]. inversion H; subst ps.
  destruct (ft_loop_ok' orc _ _ _ E (Forall_nil _) (NoDup_nil _)) as [F ND].
  pose proof (Proofs.SvcbLib.sort_by_perm (@fst N bytes) l0) as P.
  set (sl := Base.Text.sort_by (@fst N bytes) l0) in *.
  assert (F' : Forall param_ok sl).
  { apply Forall_forall. intros p Hp. rewrite Forall_forall in F. apply F. eapply Permutation_in; eassumption. }
  pose proof (to_wire_len _ F') as W.
  assert (L0 : (length sl <= 7)%nat).
  { rewrite (Permutation_length P). rewrite <- (map_length fst). apply nodup_small_len; [exact ND|].
    apply Forall_forall. intros k Hk. apply in_map_iff in Hk as (p & <- & Hp). rewrite Forall_forall in F. apply (F p Hp). }
  assert (L : (@length Model.Svcb.param sl <= 7)%nat) by exact L0.
  unfold nlen in *. clearbody sl. clear - W L. lia.
Qed.

Lemma svcb_params_len : forall o s ps, svcb_params o s = Ok ps -> nlen (Model.Svcb.to_wire ps) <= 458773.
Proof.
  intros o s ps H. unfold svcb_params in H. destruct (Model.Svcb.from_text (sorc o) s) as [l|e] eqn:E.
  - inversion H; subst. eapply from_text_len; exact E.
  - destruct ((e =? Model.Svcb.E_PANIC) || (e =? Model.Svcb.E_OOR)); discriminate H.
Qed.

(* ---------------------------------------------------------------- the values of one line *)
Definition val_bound (n : N) (l : list (bytes * bytes)) : Prop :=
  Forall (fun p => nlen (snd p) <= 12 * n + 500000) l.

Lemma vals_le_bound : forall c n l, N.of_nat c <= 12 * n + 500000 -> vals_le c l -> val_bound n l.
Proof. intros c n l H F. eapply Forall_impl; [|exact F]. cbn beta. intros p Hp. unfold nlen. lia. Qed.

Ltac bnd pf t := let B := fresh "B" in pose proof pf as B; let x := fresh "x" in set (x := t) in *; clearbody x.

Ltac bound1 Hf :=
  match goal with
  | |- context [length (rrhead ?a ?b ?c ?d)] => bnd (rrhead_len a b c d) (length (rrhead a b c d))
  | |- context [length (txt_chunks ?s ?k ?c)] => bnd (txt_chunks_len s k c) (length (txt_chunks s k c))
  | |- context [length (putdom ?a)] => bnd (putdom_len a) (length (putdom a))
  | H : context [length (fst (getdom ?b))] |- _ => bnd (getdom_fst_len b) (length (fst (getdom b)))
  | H : context [length (expand ?x ?m ?d)] |- _ => bnd (expand_len x m d) (length (expand x m d))
  | |- context [length (expand ?x ?m ?d)] => bnd (expand_len x m d) (length (expand x m d))
  | H : context [length (unq ?b)] |- _ => bnd (unq_len b) (length (unq b))
  | |- context [length (unq ?b)] => bnd (unq_len b) (length (unq b))
  | H : context [length (fld ?f ?i)] |- _ => bnd (Hf i) (length (fld f i))
  | |- context [length (fld ?f ?i)] => bnd (Hf i) (length (fld f i))
  end.

Ltac norm_len :=
  rewrite ?app_length in *; cbn [length] in *;
  change (length s_ns) with 2%nat in *; change (length s_mx) with 2%nat in *; change (length s_srv) with 3%nat in *;
  change (length s_hostmaster) with 10%nat in *;
  repeat match goal with |- context [length (u32be ?x)] => change (length (u32be x)) with 4%nat end;
  repeat match goal with |- context [length (u16be ?x)] => change (length (u16be x)) with 2%nat end.

Ltac one_val Hf := cbn [snd]; unfold nlen, getlmap; norm_len; repeat (bound1 Hf; norm_len); lia.

Theorem convert_values_bounded : forall o v2 serial l r,
  (forall s a, o_parse_ip o s = Some a -> length a = 16%nat) ->
  parse_line o serial l = Ok r -> val_bound (nlen l) (convert v2 true r).
Proof.
  intros o v2 serial l r Hip P. unfold parse_line in P. destruct l as [|t b]; [discriminate P|].
  assert (Hf : forall i, (length (fld (fields (t :: b)) i) <= length (t :: b))%nat) by (intro i; apply fld_len).
  set (n := length (t :: b)) in *. replace (nlen (t :: b)) with (N.of_nat n) by reflexivity.
  set (f := fields (t :: b)) in *. clearbody f n.
  assert (Ha : forall v2 dom wild s ttl lo w, val_bound (N.of_nat n) (addr_kv v2 dom wild (o_parse_ip o s) ttl lo w)).
  { intros. apply (vals_le_bound 37); [lia|]. apply addr_kv_len. intros a E. exact (Hip _ _ E). }
  repeat match type of P with
  | (if ?c then _ else _) = Ok _ => destruct c
  | (let '(_, _) := getdom ?x in _) = Ok _ =>
      let G := fresh "G" in let d := fresh "d" in let w := fresh "w" in
      destruct (getdom x) as [d w] eqn:G; apply getdom_len in G
  | rbind (svcb_params ?oo ?x) _ = Ok _ =>
      let E := fresh "Esv" in destruct (svcb_params oo x) eqn:E; cbn [rbind] in P; [|discriminate P]
  | rbind ?x _ = Ok _ => destruct x; cbn [rbind] in P; [|discriminate P]
  | Ok (if ?c then _ else _) = Ok _ => destruct c
  end; try discriminate P; inversion P; subst r; clear P;
  cbn [convert soa_kv ns_kv];
  repeat (apply Forall_app; split); try apply Ha; try (constructor; [|constructor]); try constructor.
  all: try match goal with |- context [putdom (if ?w then _ else _)] => destruct w end.
  all: try match goal with E : svcb_params _ _ = Ok ?l |- _ =>
             let W := fresh "W" in pose proof (svcb_params_len _ _ _ E) as W; unfold nlen in W end.
  all: try match goal with |- context [(length ?b =? 2)%nat] =>
             let L2 := fresh "L2" in destruct (length b =? 2)%nat eqn:L2; cbn [negb andb]; [apply Nat.eqb_eq in L2|] end.
  all: one_val Hf.
Qed.
