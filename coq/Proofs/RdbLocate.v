(* C03, RocksDB driver level: GetLocationByMap (SeekForPrev over the byte keys, prefix
   check, value decoding) on a database whose range-point records of the map are
   those Rearrange produced is longest-prefix match. *)
From DnsV Require Import Base.Bytes Base.Ip Spec.Lpm Model.Rearranger Model.Location.
From DnsV Require Import Proofs.Lpm Proofs.Location Proofs.Squash Proofs.BytesOrder Proofs.Rearranger.
From Coq Require Import Lia ZifyN ZifyBool.
Open Scope N_scope.

(* ---------------------------------------------------------------- big-endian encoding preserves the order *)

Lemma be_bytes_length : forall n a, length (be_bytes n a) = n.
Proof. induction n as [|n IH]; intro a; simpl; auto. rewrite app_length, IH. simpl. lia. Qed.

Lemma bcmp_snoc : forall x y u v, length x = length y ->
  bcmp (x ++ [u]) (y ++ [v]) = match bcmp x y with Eq => u ?= v | c => c end.
Proof.
  induction x as [|a x IH]; destruct y as [|b y]; simpl; intros u v H; try discriminate.
  - destruct (u ?= v); reflexivity.
  - destruct (a ?= b); auto.
Qed.

Lemma be_bytes_cmp : forall n a b, a < 256 ^ N.of_nat n -> b < 256 ^ N.of_nat n ->
  bcmp (be_bytes n a) (be_bytes n b) = (a ?= b).
Proof.
  induction n as [|n IH]; intros a b Ha Hb.
  - simpl in *. assert (a = 0) by lia. assert (b = 0) by lia. subst. reflexivity.
  - cbn [be_bytes]. rewrite bcmp_snoc by (rewrite !be_bytes_length; reflexivity).
    rewrite Nnat.Nat2N.inj_succ, N.pow_succ_r' in Ha, Hb.
    assert (P : 0 < 256 ^ N.of_nat n) by (apply N.neq_0_lt_0; apply N.pow_nonzero; discriminate).
    assert (Ha' : a / 256 < 256 ^ N.of_nat n) by (apply N.div_lt_upper_bound; lia).
    assert (Hb' : b / 256 < 256 ^ N.of_nat n) by (apply N.div_lt_upper_bound; lia).
    rewrite (IH _ _ Ha' Hb').
    pose proof (N.div_mod a 256) as Da. pose proof (N.div_mod b 256) as Db.
    pose proof (N.mod_lt a 256) as La. pose proof (N.mod_lt b 256) as Lb.
    destruct (a / 256 ?= b / 256) eqn:E.
    + apply N.compare_eq in E.
      destruct (a mod 256 ?= b mod 256) eqn:E2; symmetry.
      * apply N.compare_eq in E2. apply N.compare_eq_iff. lia.
      * rewrite N.compare_lt_iff in E2. apply N.compare_lt_iff. lia.
      * rewrite N.compare_gt_iff in E2. apply N.compare_gt_iff. lia.
    + rewrite N.compare_lt_iff in E. symmetry. apply N.compare_lt_iff. lia.
    + rewrite N.compare_gt_iff in E. symmetry. apply N.compare_gt_iff. lia.
Qed.

Lemma ip16_cmp : forall a b, a < two128 -> b < two128 -> bcmp (ip16 a) (ip16 b) = (a ?= b).
Proof. intros a b Ha Hb. unfold ip16. apply be_bytes_cmp; exact Ha || exact Hb. Qed.

(* range point keys of one map are ordered like (address, mask byte) *)
Lemma rp_key_leb : forall pre a1 m1 a2 m2, a1 < two128 -> a2 < two128 ->
  bleb (pre ++ ip16 a1 ++ [m1]) (pre ++ ip16 a2 ++ [m2]) = pt_leb a1 m1 a2 m2.
Proof.
  intros pre a1 m1 a2 m2 H1 H2. unfold bleb. rewrite bcmp_app.
  rewrite bcmp_snoc by (unfold ip16; rewrite !be_bytes_length; reflexivity).
  rewrite (ip16_cmp _ _ H1 H2). unfold pt_leb.
  destruct (a1 ?= a2) eqn:E.
  - apply N.compare_eq in E. subst. rewrite N.ltb_irrefl, N.eqb_refl. cbn [orb andb].
    unfold N.leb. destruct (m1 ?= m2); reflexivity.
  - rewrite N.compare_lt_iff in E. apply N.ltb_lt in E. rewrite E. reflexivity.
  - rewrite N.compare_gt_iff in E.
    assert (X1 : (a1 <? a2) = false) by (apply N.ltb_ge; lia).
    assert (X2 : (a1 =? a2) = false) by (apply N.eqb_neq; lia). rewrite X1, X2. reflexivity.
Qed.

Lemma last_snoc : forall {A} (l : list A) x d, last (l ++ [x]) d = x.
Proof. induction l as [|y l IH]; intros; simpl; auto. rewrite IH. destruct (l ++ [x]) eqn:E; auto. destruct l; discriminate E. Qed.

Lemma skipn4_mv1 : forall v, skipn 4 (mv1 v) = v.
Proof. intro v. reflexivity. Qed.

Lemma mv1_length : forall v, (4 <= length (mv1 v))%nat.
Proof. intro v. unfold mv1. rewrite app_length. simpl. lia. Qed.

(* ---------------------------------------------------------------- the driver *)

Section RdbDriver.
  Variable sort : list point -> list point.
  Hypothesis Hsort : sort_spec sort.
  Variable S : list subnet.
  Hypothesis wfS : wf_subnets S.
  Variable pts : list point.
  Hypothesis Hpts : rearrange sort S = Ok pts.
  Variable db : list kv.
  Variable m : mapid.
  Let pre := rp_marker ++ mapid_bytes m.
  (* the range-point records of map m in the database are exactly those of the points *)
  Hypothesis db_has : forall p, In p pts -> In (rp_key m p, mv1 (rp_value p)) db.
  Hypothesis db_only : forall k v, In (k, v) db -> is_prefix pre k = true ->
    exists p, In p pts /\ k = rp_key m p /\ v = mv1 (rp_value p).

  Lemma rp_key_shape : forall p, rp_key m p = pre ++ ip16 (p_ip p) ++ [rp_mlen p].
  Proof. intro p. unfold rp_key, pre. rewrite <- app_assoc. reflexivity. Qed.

  Theorem rdb_driver_is_lpm : forall a bits ones plen, a < two128 -> client_plen a bits ones plen ->
    rdb_get_location db m (mkClient (Some a) bits ones) =
    Ok (lpm_result (lpm S (fam (clean_mask a plen)) (clean_mask a plen) plen)).
  Proof.
    intros a bits ones plen Ha Hc.
    assert (Hp : plen <= 128) by (destruct Hc as [[_ [? ->]]|[_ [? [_ ->]]]]; lia).
    set (a' := clean_mask a plen).
    assert (Ha' : a' < two128) by (pose proof (clean_mask_le a plen); unfold a'; lia).
    assert (Hm' : masked a' plen) by apply clean_mask_masked.
    (* the search key *)
    assert (Ekey : rdb_get_location db m (mkClient (Some a) bits ones) =
                   match seek_prev db (pre ++ ip16 a' ++ [plen]) with
                   | None => Ok (None, 0)
                   | Some (fk, fv) =>
                       if (length fv =? 0)%nat then Ok (None, 0)
                       else if negb (is_prefix pre fk) then Ok (None, 0)
                       else if (length fv <? 4)%nat then Err 2
                       else match skipn 4 fv with
                            | [_; _] => Ok (Some (skipn 4 fv), last fk 0)
                            | [] => Ok (None, last fk 0)
                            | _ => Err 2
                            end
                   end).
    { unfold rdb_get_location, c_masked, c_size, c_maskbits, c_isv4, c_addr. cbn [c_ip c_bits c_ones]. cbv zeta. fold pre.
      destruct Hc as [[-> [H1 ->]]|[-> [H1 [H2 ->]]]].
      - assert (E : (128 <? ones) = false) by (apply N.ltb_ge; auto). rewrite E.
        change (128 =? 32) with false. rewrite Bool.andb_false_r, N.add_0_r.
        rewrite (N.mod_small ones 256) by lia. reflexivity.
      - assert (E : (32 <? ones) = false) by (apply N.ltb_ge; lia). rewrite E, H2.
        change (32 =? 32) with true. cbn [andb]. rewrite (N.add_comm ones 96).
        rewrite (N.mod_small (96 + ones) 256) by lia. reflexivity. }
    rewrite Ekey. clear Ekey.
    destruct S as [|s0 S'] eqn:ES.
    { (* no subnets: no range points of this map at all *)
      unfold rearrange in Hpts. cbn in Hpts. inversion Hpts. subst pts.
      cbn [lpm lpm_result].
      pose proof (seek_prev_spec db (pre ++ ip16 a' ++ [plen])) as Sp.
      destruct (seek_prev db (pre ++ ip16 a' ++ [plen])) as [[fk fv]|]; [|reflexivity].
      destruct Sp as [Hin _].
      destruct ((length fv =? 0)%nat); [reflexivity|].
      destruct (is_prefix pre fk) eqn:P; [|reflexivity].
      destruct (db_only fk fv Hin P) as [p [[] _]]. }
    rewrite <- ES in *. assert (Hne : S <> []) by (rewrite ES; discriminate).
    pose proof (seek_prev_spec db (pre ++ ip16 a' ++ [plen])) as Sp.
    assert (Kle : forall p, In p pts -> bleb (rp_key m p) (pre ++ ip16 a' ++ [plen]) = true <-> keyle_q p a' plen).
    { intros p Hp'. rewrite rp_key_shape, rp_key_leb; auto; [reflexivity|].
      exact (points_ip_lt sort Hsort S wfS a' plen Ha' Hp Hm' Hne pts p Hpts Hp'). }
    (* the point the model's predecessor search finds, and its value *)
    pose proof (some_point_below sort Hsort S wfS a' plen Ha' Hp Hm' Hne pts Hpts) as Sm.
    pose proof (pt_seek_spec pts a' plen None I) as Ps.
    destruct (pt_seek_aux None pts a' plen) as [p0|] eqn:E0; [|contradiction].
    destruct Ps as [[Hin0|C] [Hle0 [Hmax0 _]]]; [|discriminate C].
    destruct (seek_prev db (pre ++ ip16 a' ++ [plen])) as [[fk fv]|].
    - destruct Sp as [Hin [Hle Hmax]].
      (* the found key carries the prefix: p0's key is below the search key *)
      assert (P : is_prefix pre fk = true).
      { apply (prefix_interval pre (rp_key m p0) fk (pre ++ ip16 a' ++ [plen])).
        - rewrite rp_key_shape. apply is_prefix_app.
        - apply is_prefix_app.
        - apply (Hmax _ _ (db_has p0 Hin0)). apply Kle; auto.
        - exact Hle. }
      destruct (db_only fk fv Hin P) as [p [Hp' [-> ->]]].
      assert (Kp : keyle_q p a' plen) by (apply Kle; auto).
      assert (Mp : forall q, In q pts -> keyle_q q a' plen -> keyle q p).
      { intros q Hq Kq. pose proof (Hmax _ _ (db_has q Hq)) as X.
        assert (Y : bleb (rp_key m q) (rp_key m p) = true) by (apply X; apply Kle; auto).
        rewrite !rp_key_shape, rp_key_leb in Y.
        - exact Y.
        - exact (points_ip_lt sort Hsort S wfS a' plen Ha' Hp Hm' Hne pts q Hpts Hq).
        - exact (points_ip_lt sort Hsort S wfS a' plen Ha' Hp Hm' Hne pts p Hpts Hp'). }
      pose proof (max_point_is_lpm sort Hsort S wfS a' plen Ha' Hp Hm' Hne pts p Hpts Hp' Kp Mp) as V.
      rewrite <- V.
      assert (L4 : (length (mv1 (rp_value p)) =? 0)%nat = false).
      { pose proof (mv1_length (rp_value p)). apply Nat.eqb_neq. lia. }
      assert (L5 : (length (mv1 (rp_value p)) <? 4)%nat = false).
      { pose proof (mv1_length (rp_value p)). apply Nat.ltb_ge. lia. }
      rewrite L4, P, L5. cbn [negb]. rewrite skipn4_mv1, rp_key_shape.
      rewrite app_assoc, last_snoc.
      unfold point_value, rp_value, rp_mlen. destruct (rl_null (p_loc p)); reflexivity.
    - (* no key at all below the search key: impossible, p0's record is there *)
      exfalso. pose proof (Sp _ _ (db_has p0 Hin0)) as X.
      assert (Y : bleb (rp_key m p0) (pre ++ ip16 a' ++ [plen]) = true) by (apply Kle; auto). congruence.
  Qed.
End RdbDriver.
