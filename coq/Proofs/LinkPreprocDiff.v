(* LinkPreprocDiff: C09 (closed with the concrete rearranger, Proofs/LinkPreprocRearranger.v) combined
   with C07 (Proofs/CompilePipe.v) and chained with C08 on text (Proofs/LinkDiffText.v).

   The codec of C07, for a TEXT file f:
     scan f                 the lines parse() hands to the workers: TrimLeft " ", lines shorter than two
                            bytes and comment lines dropped (dnsdata/parser.go)
     convert_ln o v2 serial Codec.ConvertLn under rdb.initCodec (Proofs/LinkDiffText.v)
     text_accum .. R g      Codec.Acc.MarshalMap after the lines g went through DecodeLn: the records of
                            the points the rearranger R makes of the subnet records of g
                            (R = rearrange_total sort, the concrete rearranger, any sort.Slice)
     features v2            the feature record
   compile_is_records: Model/Preproc.compile (the compiler's view of C09) hands the database writer
   exactly records bytes convert_ln text_accum features (scan f), and fails exactly when ConvertLn
   rejects a scanned line - so the files of C07 / C08 are the scanned lines of the text. *)
From DnsV Require Import Base.Bytes Base.Ip Model.Rearranger.
From DnsV Require Import Model.Diff Spec.MapOfLists Proofs.MultiValue Proofs.MapOfLists Proofs.Batch Proofs.CompilePipe Proofs.Diff.
From DnsV Require Import Model.Text Model.Preproc.
From DnsV Require Import Proofs.Rearranger Proofs.LinkDiffText Proofs.LinkPreprocRearranger.
From DnsV Require Proofs.Preproc Proofs.Location.
From Coq Require Import Permutation Lia.
Open Scope N_scope.

Definition scan (f : list bytes) : list bytes :=
  filter (fun l => negb (compile_skips l)) (map trim_spaces f).

(* what the accumulator holds after the lines g: Acc.update of every decoded record *)
Definition nets_of_lines (o : toracles) (serial : N) (g : list bytes) : list record :=
  flat_map (fun l => match parse_line o serial l with
                     | Ok r => match acc_update r with Ok ns => ns | Err _ => [] end
                     | Err _ => []
                     end) g.

Definition text_accum (o : toracles) (v2 : bool) (serial : N) (R : list record -> list record) (g : list bytes)
  : list (bytes * bytes) :=
  flat_map (convert v2 true) (R (nets_of_lines o serial g)).

Section Link.
Variable o : toracles.
Variable v2 : bool.
Variable serial : N.
Local Notation conv := (convert_ln o v2 serial).
Local Notation feat := (features v2).

Lemma compile_go_scan : forall f,
  match compile_go o v2 serial f with
  | Ok (K, N) => accepted bytes conv (scan f) = true /\ K = flat_map (recs_of bytes conv) (scan f) /\
                 N = nets_of_lines o serial (scan f)
  | Err _ => accepted bytes conv (scan f) = false
  end.
Proof.
  induction f as [|l t IH]; [repeat split; reflexivity|].
  cbn [compile_go]. unfold scan in *. cbn [map filter]. unfold compile_line.
  destruct (compile_skips (trim_spaces l)) eqn:Sk; cbn [negb rbind].
  - destruct (compile_go o v2 serial t) as [[K N]|]; cbn [rbind fst snd app]; exact IH.
  - unfold accepted in *. cbn [forallb flat_map]. unfold nets_of_lines in *. cbn [flat_map].
    unfold accepts, recs_of, convert_ln.
    destruct (parse_line o serial (trim_spaces l)) as [r|]; cbn [rbind]; [|reflexivity].
    destruct (acc_update r) as [ns|]; cbn [rbind]; [|reflexivity].
    destruct (compile_go o v2 serial t) as [[K N]|]; cbn [rbind fst snd andb].
    + destruct IH as (A & B & C). split; [exact A|]. subst K N. split; reflexivity.
    + exact IH.
Qed.

(* Model/Preproc.compile = the record list of C07 over the scanned lines *)
Lemma compile_is_records : forall R f kvs, Model.Preproc.compile o R v2 serial f = Ok kvs ->
  accepted bytes conv (scan f) = true /\
  kvs = records bytes conv (text_accum o v2 serial R) feat (scan f).
Proof.
  intros R f kvs E. unfold Model.Preproc.compile in E. pose proof (compile_go_scan f) as H.
  destruct (compile_go o v2 serial f) as [[K N]|]; [|discriminate E]. cbn [rbind fst snd] in E.
  destruct H as (A & -> & ->). split; [exact A|]. inversion E. reflexivity.
Qed.

Lemma compile_go_nets : forall f K N, compile_go o v2 serial f = Ok (K, N) -> N = nets_of_lines o serial (scan f).
Proof. intros f K N E. pose proof (compile_go_scan f) as H. rewrite E in H. tauto. Qed.

(* lines the codec accepts that leave the accumulator empty and compile to small values are the lines of
   a preprocessed file (Proofs/LinkDiffText.pre_file) *)
Lemma no_nets_pre_file : forall g, accepted bytes conv g = true -> nets_of_lines o serial g = [] ->
  kvs_ok (flat_map (recs_of bytes conv) g) -> pre_file o v2 serial g.
Proof.
  induction g as [|l t IH]; intros A Z K; [reflexivity|].
  unfold accepted in A. cbn [forallb] in A. apply andb_true_iff in A as [A1 A2].
  unfold nets_of_lines in Z. cbn [flat_map] in Z. apply app_eq_nil in Z as [Z1 Z2].
  cbn [flat_map] in K. unfold kvs_ok in K. apply Forall_app in K as [K1 K2].
  unfold pre_file. cbn [forallb]. rewrite (IH A2 Z2 K2), andb_true_r.
  unfold accepts in A1. unfold recs_of in K1. pose proof (convert_error_spec o v2 serial l) as Sp.
  destruct (conv l) as [x|] eqn:Cl; [|discriminate A1]. destruct Sp as (_ & r & P & ->).
  unfold pre_lineb. rewrite P in *.
  assert (Hs : small_valuesb (convert v2 true r) = true).
  { unfold small_valuesb. apply forallb_forall. intros p Hp. rewrite Forall_forall in K1. specialize (K1 p Hp).
    unfold okv in K1. apply N.ltb_lt. exact K1. }
  rewrite Hs, andb_true_r. destruct (N.eqb_spec (nth 0 l 0) 37) as [E|]; [|reflexivity]. exfalso.
  destruct (parse_pct_shape o serial l r P E) as (lo & ip & ones & lmap & -> & _).
  cbn [acc_update] in Z1. unfold convert_ln in Cl. rewrite P in Cl. cbn [rbind acc_update] in Cl.
  destruct (length lo =? 2)%nat; [discriminate Z1 | discriminate Cl].
Qed.

(* on such lines the accumulator emits nothing: the record list is the one of C08 *)
Lemma records_no_nets : forall R g, R [] = [] -> nets_of_lines o serial g = [] ->
  records bytes conv (text_accum o v2 serial R) feat g = records bytes conv no_accum feat g.
Proof. intros R g HR Z. unfold records, text_accum, no_accum. rewrite Z, HR. reflexivity. Qed.

Lemma rdb_compilation_accum : forall acc1 acc2 g db, records bytes conv acc1 feat g = records bytes conv acc2 feat g ->
  rdb_compilation bytes conv acc1 feat g db -> rdb_compilation bytes conv acc2 feat g db.
Proof.
  intros acc1 acc2 g db E [sort m nb stream HS M B P C | sort bs stream order HS P PO C].
  - rewrite E in P. exact (by_builder bytes conv acc2 feat g db sort m nb stream HS M B P C).
  - rewrite E in P. exact (by_batches bytes conv acc2 feat g db sort bs stream order HS P PO C).
Qed.
End Link.

(* ---------------------------------------------------------------- the preprocessor's output is scanned text *)
Definition kept_lineb (l : bytes) : bool := scanned_lineb l && negb (nth 0 l 0 =? 35).

Lemma scan_kept : forall g, forallb kept_lineb g = true -> scan g = g.
Proof.
  induction g as [|l t IH]; intro H; [reflexivity|]. cbn [forallb] in H. apply andb_true_iff in H as [H1 H2].
  unfold kept_lineb in H1. apply andb_true_iff in H1 as [S C]. destruct (trim_scanned l S) as [T L].
  unfold scan in *. cbn [map filter]. rewrite T. unfold compile_skips.
  destruct (Nat.ltb_spec (length l) 2); [lia|]. cbn [orb]. apply Bool.negb_true_iff in C. rewrite C. cbn [negb].
  f_equal. exact (IH H2).
Qed.

Lemma line_of_kept : forall t f0 f1 rest, t <> 32 -> t <> 35 -> kept_lineb (line_of t (f0 :: f1 :: rest)) = true.
Proof.
  intros t f0 f1 rest A B. unfold kept_lineb, scanned_lineb.
  assert (L : (2 <= length (line_of t (f0 :: f1 :: rest)))%nat).
  { unfold line_of. cbn [length joinb]. rewrite app_length. cbn [length]. lia. }
  destruct (Nat.leb_spec 2 (length (line_of t (f0 :: f1 :: rest)))); [|lia]. unfold line_of. cbn [nth andb].
  destruct (N.eqb_spec t 32); [contradiction|]. destruct (N.eqb_spec t 35); [contradiction|]. reflexivity.
Qed.

Lemma pre_line_kept : forall o serial pserial l b n, Proofs.Preproc.line_ok o serial l ->
  pre_line o pserial l = Ok (b, n) -> forallb kept_lineb b = true.
Proof.
  intros o serial pserial l b n H E. unfold pre_line in E. destruct (is_ignored l) eqn:Ig.
  { inversion E; subst. reflexivity. }
  destruct H as [H|(L & Sp & _)]; [congruence|].
  destruct (nth 0 l 0 =? 37).
  { destruct (parse_line o pserial l) as [r|]; cbn [rbind] in E; [|discriminate E].
    destruct (acc_update r); cbn [rbind] in E; [|discriminate E]. inversion E; subst. reflexivity. }
  destruct (N.eqb_spec (nth 0 l 0) 90) as [E90|_].
  - destruct (parse_line o pserial l) as [r|] eqn:P; cbn [rbind] in E; [|discriminate E]. inversion E; subst b n.
    destruct l as [|c t]; [discriminate Ig|]. cbn [nth] in E90. subst c.
    destruct (Proofs.Preproc.parse_Z o pserial t r P) as (dom & ns & adm & f3 & ref & ret & exp & min & ttl & lo & -> & _).
    cbn [forallb]. rewrite andb_true_r. unfold marshal. apply line_of_kept; discriminate.
  - inversion E; subst b n. cbn [forallb]. rewrite andb_true_r. unfold kept_lineb, scanned_lineb.
    destruct (Nat.leb_spec 2 (length l)); [|lia]. destruct (N.eqb_spec (nth 0 l 0) 32); [contradiction|].
    destruct l as [|c t]; [discriminate Ig|]. cbn [is_ignored] in Ig. cbn [nth]. rewrite Ig. reflexivity.
Qed.

Lemma pre_go_kept : forall o serial pserial f b n, Proofs.Preproc.wf_file o serial f ->
  pre_go o pserial f = Ok (b, n) -> forallb kept_lineb b = true.
Proof.
  intros o serial pserial f. induction f as [|l t IH]; intros b n H E.
  - inversion E; subst. reflexivity.
  - inversion H as [|? ? Hl Ht]; subst. cbn [pre_go] in E.
    destruct (pre_line o pserial l) as [[b1 n1]|] eqn:E1; [|discriminate E]. cbn [rbind] in E.
    destruct (pre_go o pserial t) as [[b2 n2]|] eqn:E2; [|discriminate E]. cbn [rbind fst snd] in E.
    inversion E; subst b n. rewrite forallb_app, (pre_line_kept o serial pserial l b1 n1 Hl E1), (IH b2 n2 Ht eq_refl). reflexivity.
Qed.

Lemma points_kept : forall o pts,
  (forall r, In r pts -> exists lmap ip ml null locid, r = RRangePoint lmap ip ml null locid) ->
  forallb kept_lineb (map (marshal o) pts) = true.
Proof.
  intros o. induction pts as [|r pts IH]; intro H; [reflexivity|]. cbn [map forallb].
  rewrite IH by (intros; apply H; right; assumption). rewrite andb_true_r.
  destruct (H r (or_introl eq_refl)) as (lmap & ip & ml & null & locid & ->). unfold marshal. cbn [app].
  apply line_of_kept; discriminate.
Qed.

(* ---------------------------------------------------------------- C09 + C07 *)
Section Combined.
Variable o : toracles.
Hypothesis Hip_rt : forall a, wf_bytes a -> length a = 16%nat -> o_parse_ip o (o_print_ip o a) = Some a.
Hypothesis Hip_nil : o_parse_ip o [] = None.
Hypothesis Hip_nosep : forall a, contains 44 (o_print_ip o a) = false.
Variable sort : list point -> list point.
Hypothesis Hsort : sort_spec sort.
Variable v2 : bool.
Variables serial pserial : N.
Hypothesis Hser : serial <= max32.
Hypothesis Hps : pserial = serial \/ pserial = 0.

Local Notation conv := (convert_ln o v2 serial).
Local Notation feat := (features v2).
Local Notation R := (rearrange_total sort).
Local Notation acc := (text_accum o v2 serial (rearrange_total sort)).

(* everything the later theorems need about one well-formed file *)
Lemma preprocessed_facts : forall f, Proofs.Preproc.wf_file o serial f -> file_subnets_wfb o serial f = true ->
  kvs_ok (records bytes conv acc feat (scan f)) ->
  exists body points,
    rearrange_text sort (file_nets o serial f) = Ok points /\
    preprocess o R pserial f = Ok (body ++ map (marshal o) points) /\
    accepted bytes conv (scan f) = true /\
    forall pts, Permutation pts points ->
      let out := body ++ map (marshal o) pts in
      scan out = out /\ pre_file o v2 serial out /\
      records bytes conv acc feat out = records bytes conv no_accum feat out /\
      Permutation (records bytes conv no_accum feat out) (records bytes conv acc feat (scan f)).
Proof using Hip_rt Hip_nil Hip_nosep Hsort Hser Hps.
  intros f Wf Wn KV.
  destruct (preproc_same_db_closed o Hip_rt Hip_nil Hip_nosep sort Hsort v2 serial pserial Hser Hps f Wf Wn)
    as (body & points & kvs & P1 & Er & Pp & Cf & Hpts).
  destruct (compile_is_records o v2 serial R f kvs Cf) as [Af Ek].
  exists body, points. split; [exact Er|]. split; [exact Pp|]. split; [exact Af|].
  intros pts Pm out. destruct (Hpts pts Pm) as (kvs' & Co & Pk & K' & Cg). fold out in Co, Cg.
  assert (Sc : scan out = out).
  { apply scan_kept. unfold out. rewrite forallb_app. rewrite (pre_go_kept o serial pserial f body _ Wf P1). cbn [andb].
    apply points_kept. intros r Hr.
    destruct (rearrange_text_ok sort Hsort _ Wn) as (l & El & Et). rewrite Er in El.
    assert (Et' : R (file_nets o serial f) = points) by congruence.
    destruct (pre_go_nets o serial pserial f body _ Wf P1) as [_ ON].
    refine (proj1 (points_wf o sort (file_nets o serial f) r Hsort ON _)). rewrite Et'. eapply Permutation_in; eassumption. }
  destruct (compile_is_records o v2 serial R out kvs' Co) as [Ao Ek']. rewrite Sc in Ao, Ek'.
  pose proof (compile_go_nets o v2 serial out K' [] Cg) as Z. rewrite Sc in Z. symmetry in Z.
  pose proof (records_no_nets o v2 serial R out (rearrange_total_nil sort) Z) as En.
  assert (KVo : kvs_ok (records bytes conv no_accum feat out)).
  { rewrite <- En, <- Ek'. eapply kvs_ok_perm; [apply Permutation_sym; exact Pk|]. rewrite Ek. exact KV. }
  split; [exact Sc|]. split.
  - apply no_nets_pre_file; [exact Ao | exact Z|]. unfold records, kvs_ok in KVo. apply Forall_app in KVo as [X _]. exact X.
  - split; [exact En|]. rewrite <- En, <- Ek', <- Ek. exact Pk.
Qed.

(* C09_preproc_same_compiled_db: ANY C07 RocksDB compilation of the preprocessed text and ANY C07 RocksDB
   compilation of the original text hold equal multisets of values under every key *)
Theorem preproc_same_compiled_db : forall f, Proofs.Preproc.wf_file o serial f -> file_subnets_wfb o serial f = true ->
  kvs_ok (records bytes conv acc feat (scan f)) ->
  exists body points,
    rearrange_text sort (file_nets o serial f) = Ok points /\
    preprocess o R pserial f = Ok (body ++ map (marshal o) points) /\
    forall pts, Permutation pts points ->
      let out := body ++ map (marshal o) pts in
      scan out = out /\
      forall db1 db2,
        rdb_compilation bytes conv acc feat (scan out) db1 ->
        rdb_compilation bytes conv acc feat (scan f) db2 ->
        store_ok db1 /\ store_ok db2 /\ forall k, Permutation (vals db1 k) (vals db2 k).
Proof using Hip_rt Hip_nil Hip_nosep Hsort Hser Hps.
  intros f Wf Wn KV. destruct (preprocessed_facts f Wf Wn KV) as (body & points & Er & Pp & Af & H).
  exists body, points. split; [exact Er|]. split; [exact Pp|]. intros pts Pm out.
  destruct (H pts Pm) as (Sc & Pf & En & Pk). fold out in Sc, Pf, En, Pk. split; [exact Sc|].
  intros db1 db2 C1 C2. rewrite Sc in C1.
  assert (KVo : kvs_ok (records bytes conv acc feat out)).
  { rewrite En. eapply kvs_ok_perm; [apply Permutation_sym; exact Pk | exact KV]. }
  destruct (rdb_compilation_lossless bytes conv acc feat out db1 (feat_nonempty v2) KVo C1) as [S1 V1].
  destruct (rdb_compilation_lossless bytes conv acc feat (scan f) db2 (feat_nonempty v2) KV C2) as [S2 V2].
  split; [exact S1|]. split; [exact S2|]. intro k.
  eapply Permutation_trans; [apply V1|]. eapply Permutation_trans; [|apply Permutation_sym; apply V2].
  unfold spec_compile. apply vals_of_perm. rewrite En. exact Pk.
Qed.

(* ---------------------------------------------------------------- C09 + C08: the diff of two preprocessed files *)
Variable ksort : list (bytes * bytes) -> list (bytes * bytes).
Hypothesis Hksort : sort_ok ksort.

Theorem preprocessed_diff_end_to_end : forall A B,
  Proofs.Preproc.wf_file o serial A -> file_subnets_wfb o serial A = true -> kvs_ok (records bytes conv acc feat (scan A)) ->
  Proofs.Preproc.wf_file o serial B -> file_subnets_wfb o serial B = true -> kvs_ok (records bytes conv acc feat (scan B)) ->
  exists bodyA pointsA bodyB pointsB,
    preprocess o R pserial A = Ok (bodyA ++ map (marshal o) pointsA) /\
    preprocess o R pserial B = Ok (bodyB ++ map (marshal o) pointsB) /\
    forall pa pb, Permutation pa pointsA -> Permutation pb pointsB ->
      let PA := bodyA ++ map (marshal o) pa in
      let PB := bodyB ++ map (marshal o) pb in
      scan PA = PA /\ scan PB = PB /\
      (* the compilers' databases of the preprocessed A are databases the diff applies to *)
      (forall dbA, rdb_compilation bytes conv acc feat (scan PA) dbA -> compiled conv feat PA dbA) /\
      forall d dbA, is_line_diff PA PB d -> compiled conv feat PA dbA ->
        exists db', apply_diff conv ksort dbA d = Ok db' /\ compiled conv feat PB db' /\
          forall dbB, rdb_compilation bytes conv acc feat (scan B) dbB -> forall k, Permutation (vals db' k) (vals dbB k).
Proof using Hip_rt Hip_nil Hip_nosep Hsort Hser Hps Hksort.
  intros A B WA NA KA WB NB KB.
  destruct (preprocessed_facts A WA NA KA) as (bodyA & pointsA & _ & PpA & _ & HA).
  destruct (preprocessed_facts B WB NB KB) as (bodyB & pointsB & _ & PpB & _ & HB).
  exists bodyA, pointsA, bodyB, pointsB. split; [exact PpA|]. split; [exact PpB|].
  intros pa pb Pa Pb PA PB.
  destruct (HA pa Pa) as (ScA & PfA & EnA & PkA). destruct (HB pb Pb) as (ScB & PfB & EnB & PkB).
  fold PA in ScA, PfA, EnA, PkA. fold PB in ScB, PfB, EnB, PkB.
  split; [exact ScA|]. split; [exact ScB|]. split.
  - intros dbA C. rewrite ScA in C. apply (compilers_compile_text o v2 serial PA dbA PfA).
    exact (rdb_compilation_accum o v2 serial _ _ PA dbA EnA C).
  - intros d dbA D CA.
    destruct (diff_is_recompile_text o v2 serial ksort Hksort PA PB d dbA PfA PfB D CA) as (db' & E & CB & _ & _).
    exists db'. split; [exact E|]. split; [exact CB|]. intros dbB C k.
    destruct (rdb_compilation_lossless bytes conv acc feat (scan B) dbB (feat_nonempty v2) KB C) as [_ VB].
    destruct CB as [_ V']. eapply Permutation_trans; [apply V'|].
    eapply Permutation_trans; [|apply Permutation_sym; apply VB]. unfold spec_compile. apply vals_of_perm. exact PkB.
Qed.
End Combined.
