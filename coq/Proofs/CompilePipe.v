(* Proofs about Model/Compile.v (property C07): createBuckets cuts the sorted array
   into consecutive non-empty ranges and never between two equal keys; the builder,
   the batch compiler (any batch size, any order of the batch writers) and the CDB
   compiler all produce, read as key -> multiset of values, exactly the records the
   line-by-line codec emits; a rejected line fails every compiler.
   ExecuteBatch enters through execute_batch_perkey of Proofs/Batch.v (C15).
   (This file is called CompilePipe because Proofs/Compile.v belongs to another slice.) *)
From DnsV Require Import Model.Compile Spec.MapOfLists Proofs.MultiValue Proofs.MapOfLists Proofs.KeyOrder Proofs.Batch.
From Coq Require Import Permutation Sorted ZifyN ZifyNat ZifyBool.
Open Scope N_scope.

(* ---------------------------------------------------------------- lists and indices *)

Lemma skipn_nth_error : forall {A} (l : list A) i x, nth_error l i = Some x -> skipn i l = x :: skipn (S i) l.
Proof.
  induction l as [|y l IH]; intros i x H; destruct i; simpl in *; try discriminate.
  - inversion H; subst. reflexivity.
  - apply IH. assumption.
Qed.

Lemma nth_error_in_range : forall {A} (l : list A) i, (i < length l)%nat -> exists x, nth_error l i = Some x.
Proof.
  intros A l i H. destruct (nth_error l i) eqn:E; [eauto|]. apply nth_error_None in E. lia.
Qed.

Lemma key_at_some : forall keys i, i < nlen keys -> exists k, key_at keys i = Some k.
Proof. intros keys i H. unfold key_at. apply nth_error_in_range. unfold nlen in H. lia. Qed.

(* ---------------------------------------------------------------- createBuckets *)

(* consecutive non-empty ranges from s to len, no boundary between two equal keys *)
Inductive chain (keys : list bytes) (len : N) : N -> list (N * N) -> Prop :=
| chain_last : forall s, s < len -> chain keys len s [(s, len)]
| chain_cons : forall s e r, s < e -> e < len -> key_at keys (e - 1) <> key_at keys e ->
    chain keys len e r -> chain keys len s ((s, e) :: r).

Lemma scan_end_spec : forall fuel keys len e0, len = nlen keys -> 1 <= e0 -> e0 <= len ->
  (N.to_nat (len - e0) < fuel)%nat ->
  exists e, scan_end fuel keys len e0 = Ok e /\ e0 <= e /\ e <= len /\
            (e < len -> key_at keys (e - 1) <> key_at keys e).
Proof.
  induction fuel as [|f IH]; intros keys len e0 L H1 H2 F; [lia|].
  cbn [scan_end]. destruct (e0 <? len) eqn:C.
  - assert (e0 =? 0 = false) as Z by lia. rewrite Z.
    destruct (key_at_some keys e0) as [a Ea]; [lia|].
    destruct (key_at_some keys (e0 - 1)) as [b Eb]; [lia|].
    rewrite Ea, Eb. destruct (bytes_eqb a b) eqn:Eq.
    + destruct (IH keys len (e0 + 1)) as [e [R [A [B D]]]]; try lia.
      exists e. repeat split; try assumption; lia.
    + exists e0. repeat split; try lia. intros _. rewrite Ea, Eb. intro X. inversion X; subst.
      rewrite bytes_eqb_refl in Eq. discriminate.
  - exists e0. repeat split; lia.
Qed.

Lemma buckets_loop_spec : forall rem keys len size start, len = nlen keys -> 1 <= size -> start < len ->
  (1 <= rem)%nat ->
  exists bks, buckets_loop rem keys len size start = Ok bks /\ chain keys len start bks /\ (length bks <= rem)%nat.
Proof.
  induction rem as [|rem IH]; intros keys len size start L Sz H R; [lia|].
  cbn [buckets_loop]. destruct rem as [|rem'].
  - rewrite N.eqb_refl. exists [(start, len)]. split; [reflexivity|]. split; [constructor; assumption | simpl; lia].
  - destruct (scan_end_spec (S (length keys)) keys len (N.min (start + size) len)) as [e [E [A [B D]]]]; try lia.
    { unfold nlen in L. lia. }
    rewrite E. destruct (e =? len) eqn:C.
    + apply N.eqb_eq in C. subst e. exists [(start, len)]. split; [reflexivity|].
      split; [constructor; assumption | simpl; lia].
    + apply N.eqb_neq in C.
      destruct (IH keys len size e) as [bks [R1 [R2 R3]]]; try lia.
      rewrite R1. exists ((start, e) :: bks). split; [reflexivity|]. split.
      * constructor; try lia; [apply D; lia | assumption].
      * simpl. lia.
Qed.

Lemma create_buckets_ok : forall min_size nb keys, 1 <= min_size -> (1 <= nb)%nat -> keys <> [] ->
  exists bks, create_buckets min_size nb keys = Ok bks /\ chain keys (nlen keys) 0 bks /\ (length bks <= nb)%nat.
Proof.
  intros min_size nb keys M B K. unfold create_buckets. destruct nb as [|nb']; [lia|].
  apply buckets_loop_spec; try lia.
  destruct keys; [contradiction|]. rewrite nlen_cons. lia.
Qed.

(* ---------------------------------------------------------------- from offsets to pieces of the array *)

Lemma nth_error_skipn' : forall {A} (l : list A) s i, nth_error (skipn s l) i = nth_error l (s + i).
Proof.
  induction l as [|y l IH]; intros s i; destruct s; simpl; try reflexivity.
  - destruct i; reflexivity.
  - apply IH.
Qed.

Lemma firstn_succ_nth : forall {A} (L : list A) n x, nth_error L n = Some x -> firstn (S n) L = firstn n L ++ [x].
Proof.
  induction L as [|y L IH]; intros n x H; destruct n; simpl in *; try discriminate.
  - inversion H; subst. reflexivity.
  - f_equal. apply IH. assumption.
Qed.

Lemma skipn_skipn' : forall {A} (l : list A) a b, skipn a (skipn b l) = skipn (b + a) l.
Proof.
  induction l as [|y l IH]; intros a b; destruct b; simpl; try reflexivity.
  - destruct a; reflexivity.
  - apply IH.
Qed.

Lemma ndrop_split : forall {A} (l : list A) s e, s <= e -> ndrop s l = slice l s e ++ ndrop e l.
Proof.
  intros A l s e H. unfold slice, ntake, ndrop.
  rewrite <- (firstn_skipn (N.to_nat (e - s)) (skipn (N.to_nat s) l)) at 1.
  f_equal. rewrite skipn_skipn'. f_equal. lia.
Qed.

Lemma ndrop_head : forall (l : list kv) e, e < nlen l ->
  exists k v, ndrop e l = (k, v) :: ndrop (e + 1) l /\ key_at (map fst l) e = Some k.
Proof.
  intros l e H. destruct (nth_error_in_range l (N.to_nat e)) as [[k v] E]; [unfold nlen in H; lia|].
  exists k, v. split.
  - unfold ndrop. rewrite (skipn_nth_error l _ _ E). f_equal. f_equal. lia.
  - unfold key_at. rewrite nth_error_map, E. reflexivity.
Qed.

Fixpoint last_key (pk : bytes) (l : list kv) : bytes :=
  match l with [] => pk | (k, _) :: r => last_key k r end.

Lemma last_key_snoc : forall l pk k v, last_key pk (l ++ [(k, v)]) = k.
Proof. induction l as [|[k' v'] l IH]; intros; simpl; [reflexivity | apply IH]. Qed.

Lemma slice_last : forall (l : list kv) s e k v l1, s < e -> e <= nlen l -> slice l s e = (k, v) :: l1 ->
  key_at (map fst l) (e - 1) = Some (last_key k l1).
Proof.
  intros l s e k v l1 H1 H2 E.
  destruct (nth_error_in_range l (N.to_nat (e - 1))) as [[k' v'] X]; [unfold nlen in H2; lia|].
  assert (Y : slice l s e = slice l s (e - 1) ++ [(k', v')]).
  { unfold slice, ntake, ndrop. replace (N.to_nat (e - s)) with (S (N.to_nat (e - 1 - s))) by lia.
    apply firstn_succ_nth. rewrite nth_error_skipn'. rewrite <- X. f_equal. lia. }
  unfold key_at. rewrite nth_error_map, X. simpl. f_equal.
  rewrite Y in E. destruct (slice l s (e - 1)) as [|[k0 v0] A]; simpl in E.
  - inversion E; subst. reflexivity.
  - inversion E; subst. symmetry. apply last_key_snoc.
Qed.

(* the array cut into pieces: every piece is not empty and the last key of a piece
   differs from the first key of the next *)
Inductive split_ok : list kv -> list (list kv) -> Prop :=
| split_one : forall k v l, split_ok ((k, v) :: l) [(k, v) :: l]
| split_cons : forall k v l1 k2 v2 l2 r, last_key k l1 <> k2 -> split_ok ((k2, v2) :: l2) r ->
    split_ok (((k, v) :: l1) ++ (k2, v2) :: l2) (((k, v) :: l1) :: r).

Lemma chain_split : forall sorted s bks, chain (map fst sorted) (nlen sorted) s bks ->
  split_ok (ndrop s sorted) (map (fun b => slice sorted (fst b) (snd b)) bks).
Proof.
  intros sorted s bks C. induction C as [s H | s e r H1 H2 H3 C IH].
  - destruct (ndrop_head sorted s H) as [k [v [E _]]]. simpl.
    assert (X : slice sorted s (nlen sorted) = ndrop s sorted).
    { unfold slice. apply ntake_all. apply nlen_ndrop. }
    rewrite X, E. constructor.
  - simpl. rewrite (ndrop_split sorted s e) by lia.
    destruct (ndrop_head sorted e H2) as [k2 [v2 [E2 K2]]].
    destruct (slice sorted s e) as [|[k v] l1] eqn:Es.
    + exfalso. assert (L : nlen (slice sorted s e) = e - s).
      { unfold slice, ntake, ndrop, nlen. rewrite firstn_length, skipn_length. unfold nlen in H2. lia. }
      rewrite Es in L. simpl in L. unfold nlen in L. simpl in L. lia.
    + rewrite E2 in *. apply split_cons; [|exact IH].
      intro X. apply H3. rewrite K2. rewrite (slice_last sorted s e k v l1); try lia; [|assumption].
      rewrite X. reflexivity.
Qed.

(* ---------------------------------------------------------------- saveBuckets, ingestFiles *)

Lemma save_loop_split : forall l1 pk acc k2 v2 l2, last_key pk l1 <> k2 ->
  save_loop (l1 ++ (k2, v2) :: l2) pk acc = save_loop l1 pk acc ++ save_loop l2 k2 (append_values [] [v2]).
Proof.
  induction l1 as [|[k v] l1 IH]; intros pk acc k2 v2 l2 H.
  - cbn [app save_loop last_key] in *. destruct (bytes_eqb k2 pk) eqn:E; [|reflexivity].
    apply bytes_eqb_eq in E. subst. contradiction.
  - cbn [app save_loop last_key] in *. destruct (bytes_eqb k pk) eqn:E.
    + apply bytes_eqb_eq in E. subst. apply IH. assumption.
    + cbn [app]. f_equal. apply IH. assumption.
Qed.

Definition save_of (piece : list kv) : list (bytes * bytes) :=
  match piece with [] => [] | (k, v) :: r => save_loop r k (append_values [] [v]) end.

Fixpoint save_pieces (ps : list (list kv)) : result (list (list (bytes * bytes))) :=
  match ps with
  | [] => Ok []
  | p :: r => match save_bucket p with
              | Err x => Err x
              | Ok f => match save_pieces r with Err x => Err x | Ok fs => Ok (f :: fs) end
              end
  end.

Lemma save_all_pieces : forall sorted bks,
  save_all sorted bks = save_pieces (map (fun b => slice sorted (fst b) (snd b)) bks).
Proof.
  induction bks as [|[s e] r IH]; [reflexivity|]. cbn [save_all map save_pieces fst snd]. rewrite IH. reflexivity.
Qed.

Lemma save_pieces_split : forall w ps, split_ok w ps ->
  save_pieces ps = Ok (map save_of ps) /\ concat (map save_of ps) = save_of w.
Proof.
  intros w ps S. induction S as [k v l | k v l1 k2 v2 l2 r H S [IH1 IH2]].
  - split; [reflexivity|]. cbn [map concat]. apply app_nil_r.
  - cbn [save_pieces save_bucket]. rewrite IH1. split; [reflexivity|].
    cbn [map concat]. rewrite IH2. cbn [save_of app]. symmetry. apply save_loop_split. assumption.
Qed.

Lemma ingest_concat : forall files s, ingest s files = put_all s (concat files).
Proof.
  unfold ingest. induction files as [|f fs IH]; intro s; [reflexivity|].
  cbn [fold_left concat]. rewrite IH. unfold put_all. rewrite fold_left_app. reflexivity.
Qed.

(* the value the last Put for k wrote *)
Fixpoint assoc_last (k : bytes) (l : list (bytes * bytes)) : option bytes :=
  match l with
  | [] => None
  | (k', v) :: r => match assoc_last k r with
                    | Some x => Some x
                    | None => if bytes_eqb k k' then Some v else None
                    end
  end.

Lemma put_all_lookup : forall l s k,
  put_all s l k = match assoc_last k l with Some v => Some v | None => s k end.
Proof.
  induction l as [|[k' v] r IH]; intros s k; [reflexivity|].
  unfold put_all in *. cbn [fold_left fst snd assoc_last]. rewrite IH.
  destruct (assoc_last k r); [reflexivity|]. unfold put. destruct (bytes_eqb k k'); reflexivity.
Qed.

Definition enc_opt (vs : list bytes) : option bytes := match vs with [] => None | _ => Some (encode vs) end.

Lemma lt_head_no_vals : forall pk k1 (r : list kv), kle pk k1 -> k1 <> pk -> ge_all k1 r -> vals_of pk r = [].
Proof.
  intros pk k1 r L N G. apply none_with_key. intros x Hx E.
  unfold ge_all in G. rewrite Forall_forall in G. specialize (G x Hx). rewrite E in G.
  apply N. apply kle_antisym; assumption.
Qed.

Lemma save_loop_lookup : forall r pk vs0, SS r -> ge_all pk r -> forall k,
  assoc_last k (save_loop r pk (encode vs0)) =
    if bytes_eqb k pk then Some (encode (vs0 ++ vals_of pk r)) else enc_opt (vals_of k r).
Proof.
  induction r as [|[k1 v1] r IH]; intros pk vs0 S G k.
  - cbn [save_loop assoc_last]. unfold vals_of. simpl. rewrite app_nil_r. destruct (bytes_eqb k pk); reflexivity.
  - pose proof (SS_tail _ _ S) as S'. pose proof (SS_head _ _ _ S) as G1.
    inversion G as [|x y Hk Gr]; subst.
    cbn [save_loop]. destruct (bytes_eqb k1 pk) eqn:E.
    + apply bytes_eqb_eq in E. subst k1.
      rewrite append_values_encode, <- encode_app. rewrite (IH pk (vs0 ++ [v1]) S' Gr k).
      rewrite !vals_of_cons, bytes_eqb_refl. destruct (bytes_eqb k pk) eqn:E2.
      * rewrite <- app_assoc. reflexivity.
      * rewrite bytes_eqb_sym, E2. reflexivity.
    + rewrite append_values_nil. cbn [assoc_last]. rewrite (IH k1 [v1] S' G1 k).
      assert (N1 : k1 <> pk) by (apply bytes_eqb_neq; assumption).
      rewrite !vals_of_cons. destruct (bytes_eqb k k1) eqn:E1.
      * apply bytes_eqb_eq in E1. subst k. rewrite E, bytes_eqb_refl. reflexivity.
      * rewrite (bytes_eqb_sym k1 k), E1. rewrite E.
        destruct (bytes_eqb k pk) eqn:E2.
        -- apply bytes_eqb_eq in E2. subst k.
           rewrite (lt_head_no_vals pk k1 r Hk N1 G1). simpl. rewrite app_nil_r. reflexivity.
        -- destruct (vals_of k r); reflexivity.
Qed.

Lemma save_of_lookup : forall l, SS l -> forall k, assoc_last k (save_of l) = enc_opt (vals_of k l).
Proof.
  intros [|[k0 v0] r] S k; [reflexivity|].
  cbn [save_of]. rewrite append_values_nil.
  rewrite (save_loop_lookup r k0 [v0] (SS_tail _ _ S) (SS_head _ _ _ S) k).
  rewrite vals_of_cons, (bytes_eqb_sym k0 k). destruct (bytes_eqb k k0) eqn:E; [|reflexivity].
  apply bytes_eqb_eq in E. subst. reflexivity.
Qed.

Lemma enc_opt_store : forall (s : store) (m : bytes -> list bytes),
  (forall k, s k = enc_opt (m k)) -> (forall k, Forall okv (m k)) ->
  store_ok s /\ forall k, vals s k = m k.
Proof.
  intros s m H W. split.
  - intros k d E. rewrite H in E. unfold enc_opt in E. destruct (m k) as [|v vs] eqn:M; [discriminate|].
    inversion E; subst. exists (v :: vs). split; [discriminate|]. split; [rewrite <- M; apply W | reflexivity].
  - intro k. change (vals s k) with (abs s k). specialize (H k). unfold enc_opt in H.
    destruct (m k) as [|v vs] eqn:M.
    + apply abs_none. assumption.
    + rewrite <- M in H. rewrite (abs_some s k (m k) (W k) H). exact M.
Qed.

(* Builder.Execute: the database holds, for every key, the values of the key in the order the
   sort left them *)
Lemma build_lossless : forall sort min_size nb stream,
  sort_ok sort -> 1 <= min_size -> (1 <= nb)%nat -> stream <> [] -> kvs_ok stream ->
  exists db, build sort min_size nb stream = Ok db /\ store_ok db /\
             forall k, vals db k = vals_of k (sort stream).
Proof.
  intros sort min_size nb stream HS M B NE W. unfold build.
  destruct (HS stream) as [P _]. pose proof (sort_ok_SS sort stream HS) as S.
  set (sorted := sort stream) in *.
  assert (NE' : map fst sorted <> []).
  { destruct sorted as [|x r] eqn:E; [|discriminate]. apply Permutation_nil in P. contradiction. }
  destruct (create_buckets_ok min_size nb (map fst sorted) M B NE') as [bks [CB [CH _]]].
  rewrite CB. replace (nlen (map fst sorted)) with (nlen sorted) in CH by (unfold nlen; rewrite map_length; reflexivity).
  pose proof (chain_split sorted 0 bks CH) as SP. rewrite ndrop_0 in SP.
  destruct (save_pieces_split _ _ SP) as [SA CC].
  rewrite save_all_pieces, SA. eexists. split; [reflexivity|].
  apply enc_opt_store.
  - intro k. rewrite ingest_concat, CC, put_all_lookup, (save_of_lookup sorted S k).
    unfold enc_opt. destruct (vals_of k sorted); reflexivity.
  - intro k. apply vals_of_okv. eapply kvs_ok_perm; [apply Permutation_sym; exact P | exact W].
Qed.

(* ---------------------------------------------------------------- batches *)

Lemma cut_concat : forall bs l cur c full last, cut bs l cur c = (full, last) -> concat full ++ last = cur ++ l.
Proof.
  induction l as [|x r IH]; intros cur c full last H; cbn [cut] in H.
  - inversion H; subst. simpl. rewrite app_nil_r. reflexivity.
  - destruct (c + 1 =? bs).
    + destruct (cut bs r [] 0) as [f' l'] eqn:E. inversion H; subst.
      cbn [concat]. rewrite <- app_assoc, (IH [] 0 f' last E). simpl. rewrite <- app_assoc. reflexivity.
    + rewrite (IH _ _ _ _ H). rewrite <- app_assoc. reflexivity.
Qed.

Lemma batches_concat : forall bs stream, concat (batches bs stream) = stream.
Proof.
  intros bs stream. unfold batches. destruct (cut (eff_bs bs) stream [] 0) as [full last] eqn:E.
  pose proof (cut_concat _ _ _ _ _ _ E) as C. simpl in C. destruct last as [|x l].
  - rewrite app_nil_r in C. assumption.
  - rewrite concat_app. simpl. rewrite app_nil_r. assumption.
Qed.

Lemma Permutation_concat : forall {A} (l l' : list (list A)), Permutation l l' -> Permutation (concat l) (concat l').
Proof.
  induction 1; simpl.
  - constructor.
  - apply Permutation_app_head. assumption.
  - rewrite !app_assoc. apply Permutation_app_tail. apply Permutation_app_comm.
  - eapply Permutation_trans; eassumption.
Qed.

Lemma Forall_concat_inv : forall {A} (P : A -> Prop) (l : list (list A)), Forall P (concat l) -> Forall (Forall P) l.
Proof.
  induction l as [|x l IH]; intro H; [constructor|]. simpl in H. apply Forall_app in H. destruct H.
  constructor; [assumption | apply IH; assumption].
Qed.

Lemma run_batches_spec : forall sort, sort_ok sort -> forall order s, store_ok s -> Forall kvs_ok order ->
  exists s', run_batches sort s order = Ok s' /\ store_ok s' /\
             forall k, Permutation (vals s' k) (vals s k ++ vals_of k (concat order)).
Proof.
  intros sort HS. induction order as [|b r IH]; intros s Hs W.
  - exists s. split; [reflexivity|]. split; [assumption|]. intro k. simpl. rewrite app_nil_r. apply Permutation_refl.
  - inversion W as [|x y Wb Wr]; subst. cbn [run_batches].
    pose proof (execute_batch_perkey sort s b [] HS Hs Wb) as E.
    rewrite (sort_nil sort HS) in E.
    destruct (execute_batch sort s b []) as [s1|e].
    + destruct E as [Hs1 Hk]. destruct (IH s1 Hs1 Wr) as [s' [R [Hs' P]]].
      exists s'. split; [assumption|]. split; [assumption|]. intro k.
      eapply Permutation_trans; [apply P|]. specialize (Hk k). simpl in Hk. inversion Hk as [Hk'].
      change (vals s1 k) with (abs s1 k). rewrite <- Hk'. change (abs s k) with (vals s k).
      cbn [concat]. rewrite vals_of_app, <- app_assoc. apply Permutation_app_head. apply Permutation_app_tail.
      apply vals_of_perm. destruct (HS b) as [Pb _]. exact Pb.
    + destruct E as [_ [k Hk]]. simpl in Hk. discriminate.
Qed.

(* ---------------------------------------------------------------- the compilers, for any codec *)

Section Theorems.
  Variable line : Type.
  Variable conv : line -> result (list kv).
  Variable accum : list line -> list kv.
  Variable feature : list kv.

  Local Notation records := (records line conv accum feature).
  Local Notation spec_compile := (spec_compile line conv accum feature).
  Local Notation is_stream := (is_stream line conv accum feature).
  Local Notation accepted := (accepted line conv).

  Lemma accepted_false : forall f, accepted f = false <-> exists l e, In l f /\ conv l = Err e.
  Proof.
    intro f. unfold Compile.accepted. split.
    - intro H. induction f as [|l r IH]; [discriminate|]. simpl in H. apply andb_false_iff in H. destruct H as [H|H].
      + unfold accepts in H. destruct (conv l) as [x|e] eqn:E; [discriminate|]. exists l, e. split; [left; reflexivity | assumption].
      + destruct (IH H) as [l' [e [I C]]]. exists l', e. split; [right; assumption | assumption].
    - intros [l [e [I C]]]. destruct (forallb (accepts line conv) f) eqn:F; [|reflexivity].
      rewrite forallb_forall in F. specialize (F l I). unfold accepts in F. rewrite C in F. discriminate.
  Qed.

  (* every stream the parallel parser can deliver holds exactly the records of the file,
     provided the accumulator does not care about the order of the lines *)
  Lemma stream_is_permutation :
    (forall p f, Permutation p f -> Permutation (accum p) (accum f)) ->
    forall f s, is_stream f s -> Permutation s (records f).
  Proof.
    intros HA f s [p1 [p2 [a [P1 [P2 [Pa E]]]]]]. subst s. unfold Compile.records.
    apply Permutation_app; [apply Permutation_flat_map; assumption|].
    apply Permutation_app_tail. eapply Permutation_trans; [exact Pa | apply HA; assumption].
  Qed.

  (* one worker: the stream is the codec output in file order *)
  Lemma one_worker_stream : forall f, is_stream f (records f).
  Proof. intro f. exists f, f, (accum f). repeat split; apply Permutation_refl. Qed.

  Section WithSort.
    Variable sort : list kv -> list kv.
    Hypothesis HS : sort_ok sort.

    Lemma builder_lossless : forall min_size nb f stream,
      1 <= min_size -> (1 <= nb)%nat -> feature <> [] -> accepted f = true -> kvs_ok (records f) ->
      Permutation stream (records f) ->
      exists db, compile_builder line conv sort min_size nb f stream = Ok db /\ store_ok db /\
                 forall k, Permutation (vals db k) (spec_compile f k).
    Proof.
      intros min_size nb f stream M B NF A W P. unfold compile_builder. rewrite A.
      assert (NE : stream <> []).
      { intro E. subst stream. apply Permutation_nil in P. unfold Compile.records in P.
        apply app_eq_nil in P. destruct P as [_ P]. apply app_eq_nil in P. destruct P. contradiction. }
      assert (W' : kvs_ok stream) by (eapply kvs_ok_perm; [apply Permutation_sym; exact P | exact W]).
      destruct (build_lossless sort min_size nb stream HS M B NE W') as [db [E [S V]]].
      exists db. split; [assumption|]. split; [assumption|]. intro k. rewrite V. unfold Compile.spec_compile.
      apply vals_of_perm. eapply Permutation_trans; [|exact P]. destruct (HS stream); assumption.
    Qed.

    Lemma batches_lossless : forall bs f stream order,
      accepted f = true -> kvs_ok (records f) -> Permutation stream (records f) ->
      Permutation order (batches bs stream) ->
      exists db, compile_batches line conv sort f order = Ok db /\ store_ok db /\
                 forall k, Permutation (vals db k) (spec_compile f k).
    Proof.
      intros bs f stream order A W P PO. unfold compile_batches. rewrite A.
      assert (PC : Permutation (concat order) stream).
      { rewrite <- (batches_concat bs stream). apply Permutation_concat. assumption. }
      assert (WO : Forall kvs_ok order).
      { apply Forall_concat_inv. change (kvs_ok (concat order)).
        eapply kvs_ok_perm; [apply Permutation_sym; eapply Permutation_trans; [exact PC | exact P] | exact W]. }
      destruct (run_batches_spec sort HS order empty_store store_ok_empty WO) as [db [R [S V]]].
      exists db. split; [assumption|]. split; [assumption|]. intro k.
      eapply Permutation_trans; [apply V|]. simpl. unfold Compile.spec_compile. apply vals_of_perm.
      eapply Permutation_trans; [exact PC | exact P].
    Qed.
  End WithSort.

  Lemma cdb_lossless : forall f stream, accepted f = true -> Permutation stream (records f) ->
    compile_cdb line conv f stream = Ok stream /\ forall k, Permutation (vals_of k stream) (spec_compile f k).
  Proof.
    intros f stream A P. unfold compile_cdb. rewrite A. split; [reflexivity|]. intro k. apply vals_of_perm. assumption.
  Qed.

  (* a RocksDB compilation of f under some setting and some schedule *)
  Inductive rdb_compilation (f : list line) (db : store) : Prop :=
  | by_builder : forall sort min_size nb stream, sort_ok sort -> 1 <= min_size -> (1 <= nb)%nat ->
      Permutation stream (records f) -> compile_builder line conv sort min_size nb f stream = Ok db ->
      rdb_compilation f db
  | by_batches : forall sort bs stream order, sort_ok sort -> Permutation stream (records f) ->
      Permutation order (batches bs stream) -> compile_batches line conv sort f order = Ok db ->
      rdb_compilation f db.

  Lemma compile_ok_accepted_b : forall sort m n f s db, compile_builder line conv sort m n f s = Ok db -> accepted f = true.
  Proof. intros sort m n f s db H. unfold compile_builder in H. destruct (accepted f); [reflexivity | discriminate]. Qed.
  Lemma compile_ok_accepted_a : forall sort f o db, compile_batches line conv sort f o = Ok db -> accepted f = true.
  Proof. intros sort f o db H. unfold compile_batches in H. destruct (accepted f); [reflexivity | discriminate]. Qed.

  Lemma rdb_compilation_lossless : forall f db, feature <> [] -> kvs_ok (records f) -> rdb_compilation f db ->
    store_ok db /\ forall k, Permutation (vals db k) (spec_compile f k).
  Proof.
    intros f db NF W [sort min_size nb stream HS M B P E | sort bs stream order HS P PO E].
    - pose proof (compile_ok_accepted_b _ _ _ _ _ _ E) as A.
      destruct (builder_lossless sort HS min_size nb f stream M B NF A W P) as [db' [E' [S V]]].
      rewrite E in E'. inversion E'; subst. split; assumption.
    - pose proof (compile_ok_accepted_a _ _ _ _ E) as A.
      destruct (batches_lossless sort HS bs f stream order A W P PO) as [db' [E' [S V]]].
      rewrite E in E'. inversion E'; subst. split; assumption.
  Qed.

  Lemma setting_independent : forall f db1 db2, feature <> [] -> kvs_ok (records f) ->
    rdb_compilation f db1 -> rdb_compilation f db2 -> forall k, Permutation (vals db1 k) (vals db2 k).
  Proof.
    intros f db1 db2 NF W C1 C2 k.
    destruct (rdb_compilation_lossless f db1 NF W C1) as [_ V1].
    destruct (rdb_compilation_lossless f db2 NF W C2) as [_ V2].
    eapply Permutation_trans; [apply V1 | apply Permutation_sym; apply V2].
  Qed.

  Lemma reject_is_total : forall f, (exists l e, In l f /\ conv l = Err e) ->
    (forall sort min_size nb stream, exists e, compile_builder line conv sort min_size nb f stream = Err e) /\
    (forall sort order, exists e, compile_batches line conv sort f order = Err e) /\
    (forall stream, exists e, compile_cdb line conv f stream = Err e).
  Proof.
    intros f H. apply accepted_false in H.
    unfold compile_builder, compile_batches, compile_cdb. rewrite H. repeat split; intros; eexists; reflexivity.
  Qed.
End Theorems.

(* ---------------------------------------------------------------- the bucket split as a partition *)

Lemma split_ok_partition : forall w ps, split_ok w ps -> concat ps = w /\ Forall (fun p => p <> []) ps.
Proof.
  intros w ps S. induction S as [k v l | k v l1 k2 v2 l2 r H S [IH1 IH2]].
  - split; [cbn [concat]; apply app_nil_r | constructor; [discriminate | constructor]].
  - split; [cbn [concat]; rewrite IH1; reflexivity | constructor; [discriminate | assumption]].
Qed.

Lemma buckets_ok : forall (sorted : list kv) min_size nb, 1 <= min_size -> (1 <= nb)%nat -> sorted <> [] ->
  exists bks, create_buckets min_size nb (map fst sorted) = Ok bks /\ (length bks <= nb)%nat /\
    chain (map fst sorted) (nlen sorted) 0 bks /\
    let pieces := map (fun b => slice sorted (fst b) (snd b)) bks in
    concat pieces = sorted /\ Forall (fun p => p <> []) pieces.
Proof.
  intros sorted min_size nb M B NE.
  assert (NE' : map fst sorted <> []) by (destruct sorted; [contradiction | discriminate]).
  destruct (create_buckets_ok min_size nb (map fst sorted) M B NE') as [bks [CB [CH L]]].
  replace (nlen (map fst sorted)) with (nlen sorted) in CH by (unfold nlen; rewrite map_length; reflexivity).
  exists bks. split; [assumption|]. split; [assumption|]. split; [assumption|].
  pose proof (chain_split sorted 0 bks CH) as SP. rewrite ndrop_0 in SP. apply split_ok_partition. assumption.
Qed.

(* ---------------------------------------------------------------- the hypotheses are satisfiable *)

(* a codec on numbered lines: line n gives one record under key [n mod 2] (two for
   multiples of 3), line 9 is rejected; a feature record; a subnet table that counts lines *)
Definition ex_conv (n : N) : result (list kv) :=
  if n =? 9 then Err 1
  else if n mod 3 =? 0 then Ok [([n mod 2], [n]); ([7], [n; n])] else Ok [([n mod 2], [n])].
Definition ex_accum (f : list N) : list kv := [([33], [nlen f])].
Definition ex_feature : list kv := [([0; 111], [1; 0; 0; 0])].

Lemma compile_example :
  let f := [1; 2; 3; 4; 6; 1] in
  let stream := records N ex_conv ex_accum ex_feature f in
  sort_ok kv_isort /\ accepted N ex_conv f = true /\ kvs_ok stream /\ ex_feature <> [] /\
  (forall p q, Permutation p q -> Permutation (ex_accum p) (ex_accum q)) /\
  (exists db, compile_builder N ex_conv kv_isort 2 3 f stream = Ok db /\
              vals db [1] = [[1]; [3]; [1]] /\ vals db [7] = [[3; 3]; [6; 6]] /\ vals db [5] = []) /\
  create_buckets 2 3 (map fst (kv_isort stream)) = Ok [(0, 3); (3, 7); (7, 10)] /\
  (exists db, compile_batches N ex_conv kv_isort f (rev (batches 3 stream)) = Ok db /\
              vals db [1] = [[1]; [1]; [3]] /\ vals db [0] = [[4]; [6]; [2]]) /\
  (exists e, compile_builder N ex_conv kv_isort 2 3 [1; 9; 2] stream = Err e).
Proof.
  cbv zeta. split; [apply sort_ok_isort|]. split; [reflexivity|].
  split; [repeat constructor|]. split; [discriminate|].
  split.
  { intros p q P. unfold ex_accum, nlen. rewrite (Permutation_length P). apply Permutation_refl. }
  split; [eexists; split; [vm_compute; reflexivity|]; vm_compute; repeat split|].
  split; [vm_compute; reflexivity|].
  split; [eexists; split; [vm_compute; reflexivity|]; vm_compute; repeat split|].
  eexists. vm_compute. reflexivity.
Qed.
