(* Proofs/LinkCdbBytesExample: C16 x C01 is not vacuous - the data file of C01_file_level_example
   (Proofs/FileLevelExample.v: zone Z + &, a located +, a wildcard ', a % subnet and an M map), its CDB
   put stream (reversed), written with D. J. Bernstein's cdb hash into a file image of 2048 header bytes +
   records + slot tables, and served by the label-by-label reader straight from the BYTES. *)
From DnsV Require Import Base.Bytes Model.Store Model.LookupV1 Model.Serve.
From DnsV Require Import Spec.Answer Spec.Rows Spec.Declared Spec.Cdb.
From DnsV Require Import Proofs.Compile Proofs.ZoneCut Proofs.FileLevel Proofs.FileLevelExample.
From DnsV Require Import Model.Compile Proofs.Batch Proofs.CompilePipe Model.Preproc.
From DnsV Require Model.Cdb.
From DnsV Require Import Model.ComposeMore Proofs.LinkCdbBytes.
From Coq Require Import Lia Permutation.
Open Scope N_scope.

Definition y_stream : list (bytes * bytes) :=
  rev (records bytes (conv_line x_o 7 false false) x_accum [feature_kv false] x_file).
(* the hash as stored: 4 bytes *)
Definition y_hash (k : bytes) : N := Model.Cdb.w32 (Model.Cdb.cdb_hash k).

Lemma y_hash_lt : forall k, y_hash k < 4294967296.
Proof. intros k. unfold y_hash, Model.Cdb.w32. apply N.mod_lt. discriminate. Qed.

(* the file image as bytes *)
Definition y_data : bytes :=
  match Model.Cdb.write y_hash y_stream with Ok img => Model.Cdb.serialize img | Err _ => [] end.

Example cdb_bytes_example :
  compile_cdb bytes (conv_line x_o 7 false false) x_file y_stream = Ok y_stream /\
  Spec.Cdb.fits32 y_stream /\
  exists img, Model.Cdb.write y_hash y_stream = Ok img /\ Model.Cdb.serialize img = y_data /\
    nlen y_data = 2679 /\ Spec.Cdb.file_size y_stream = 2679 /\ length y_stream = 11%nat /\
    (* TXT Foo.example.com: the wildcard's text, read from the file bytes *)
    serve_fn CDB (cdb_get y_hash y_data) x_q1 (LocOk x_L) None 1 =
      OReply (mkResp 1 (Some (q_name x_q1, 16, 1)) 0 true
                [IRR (mkRR (q_name x_q1) 16 1 120 [5; 104; 101; 108; 108; 111])] [] [] None) /\
    (* A www.example.com from location ab: the located address *)
    serve_fn CDB (cdb_get y_hash y_data) x_q2 (LocOk x_L) None 1 =
      OReply (mkResp 2 (Some (q_name x_q2, 1, 1)) 0 true
                [IPick (q_name x_q2) 1 1 [(300, 1, [10; 0; 0; 2])] 1] [] [] None) /\
    (* the same through the store read back from the image *)
    serve CDB (store_of_image y_hash y_data (map fst y_stream)) x_q2 (LocOk x_L) None 1 =
      OReply (mkResp 2 (Some (q_name x_q2, 1, 1)) 0 true
                [IPick (q_name x_q2) 1 1 [(300, 1, [10; 0; 0; 2])] 1] [] [] None) /\
    forall q n ecs max x, wf_name n -> nlen (pack n) <= 255 -> lower_bytes (q_name q) = pack n ->
      (q_edns q = None \/ q_edns q = Some 0) ->
      serve_fn CDB (cdb_get y_hash (Model.Cdb.serialize img)) q (LocOk x_L) ecs max = OReply x ->
      response_refines x_L x_recs n q ecs max x.
Proof.
  assert (WF : wf_file x_o 7 x_file = true) by (vm_compute; reflexivity).
  assert (S1 : side_ok x_accum [feature_kv false] x_file) by (unfold side_ok; repeat constructor).
  assert (ED : declared_file x_o 7 x_file = x_recs) by (vm_compute; reflexivity).
  assert (V : wf_view x_L (declared_file x_o 7 x_file) = true) by (vm_compute; reflexivity).
  assert (CC : compile_cdb bytes (conv_line x_o 7 false false) x_file y_stream = Ok y_stream) by (vm_compute; reflexivity).
  assert (F : Spec.Cdb.fits32 y_stream) by (unfold Spec.Cdb.fits32; vm_compute; reflexivity).
  split; [exact CC|]. split; [exact F|].
  destruct (cdb_image_exists y_hash y_stream F) as (img & Ei). exists img.
  split; [exact Ei|]. split; [unfold y_data; rewrite Ei; reflexivity|].
  split; [vm_compute; reflexivity|]. split; [vm_compute; reflexivity|]. split; [vm_compute; reflexivity|].
  split; [vm_compute; reflexivity|]. split; [vm_compute; reflexivity|]. split; [vm_compute; reflexivity|].
  intros q n ecs max x Hn Hl Hq He Hs. rewrite <- ED.
  exact (served_from_cdb_bytes x_o 7 false x_accum [feature_kv false] x_file WF S1 y_stream y_stream y_hash img x_L
           (Permutation_sym (Permutation_rev _)) CC y_hash_lt F Ei eq_refl V q n ecs max x Hn Hl Hq He Hs).
Qed.
