(* ClientCdbLpm: Proofs/Location.cdb_is_lpm with the facts it reads off cdb_db made hypotheses. *)
From DnsV Require Import Base.Bytes Base.Ip Spec.Lpm Model.Rearranger Model.Location Model.Ecs.
From DnsV Require Import Model.Compile Spec.MapOfLists Proofs.MultiValue Proofs.MapOfLists Proofs.Batch Proofs.CompilePipe.
From DnsV Require Import Model.Text Model.Preproc Model.Accum Model.Handler Spec.ClientLocation.
From DnsV Require Import Model.Store Model.LookupV1 Model.LookupV2 Model.Serve Spec.Answer Spec.Rows Spec.AnswerExtra Spec.Declared.
From DnsV Require Import Proofs.ZoneCut Proofs.RevOrder Proofs.V2Store Proofs.ReadsNames.
From DnsV Require Import Proofs.Lpm Proofs.Location Proofs.Rearranger Proofs.RdbLocate Proofs.SquashKeys Proofs.MapV2.
From DnsV Require Import Proofs.Ecs Proofs.LinkEcsLpm Proofs.LinkRdbDb Proofs.LinkRdbModel.
From DnsV Require Import Proofs.DeclaredLink Proofs.DeclaredWf Proofs.FileLevel Proofs.AccumLink.
From Coq Require Import Lia Permutation Sorted ZifyN ZifyNat ZifyBool.
Open Scope N_scope.

(* ---------------------------------------------------------------- CDB: GetLocationByMap on any database
   that holds the prefix sets and the subnet records (Proofs/Location.cdb_is_lpm with the facts it reads
   off cdb_db made hypotheses) *)
Lemma cdb_is_lpm_gen : forall sep (F : dfile) (db : list (bytes * bytes)) m a bits ones plen,
  wf_subnets (nets_of F m) ->
  Location.get db [0; 47] = Some (prefix_set (fun _ => true) F) ->
  Location.get db [0; 52] = Some (prefix_set (fun s => is_v4 (s_addr s)) F) ->
  Location.get db [0; 54] = Some (prefix_set (fun s => negb (is_v4 (s_addr s))) F) ->
  (forall s, In s (nets_of F m) -> Location.get db (net_key m (s_addr s) (s_len s)) = Some (Rearranger.loc_bytes (s_loc s))) ->
  (forall x l, x < two128 -> (forall s, In s (nets_of F m) -> ~ (s_addr s = x /\ s_len s = l)) ->
     Location.get db (net_key m x l) = None) ->
  a < two128 -> client_plen a bits ones plen ->
  cdb_get_location sep db m (mkClient (Some a) bits ones) =
  Ok (lpm_result (lpm (nets_of F m) (fam (clean_mask a plen)) (clean_mask a plen) plen)).
Proof.
  intros sep F db m a bits ones plen wfS G47 G52 G54 Hhit Hmiss Halt Hc.
  assert (Hp : plen <= 128) by (destruct Hc as [[_ [? ->]]|[_ [? [_ ->]]]]; lia).
  unfold cdb_get_location.
  assert (Emax : cdb_maxmask (mkClient (Some a) bits ones) = plen).
  { unfold cdb_maxmask, c_size, c_maskbits, c_isv4. cbn [c_ip c_bits c_ones].
    destruct Hc as [[-> [H1 ->]]|[-> [H1 [H2 ->]]]].
    - assert (E : (128 <? ones) = false) by (apply N.ltb_ge; auto). rewrite E.
      rewrite Bool.andb_false_r. rewrite N.add_0_r, N.mod_mod by discriminate. apply N.mod_small. lia.
    - assert (E : (32 <? ones) = false) by (apply N.ltb_ge; lia). rewrite E, H2. cbn [andb N.eqb Pos.eqb].
      rewrite (N.mod_small ones 256) by lia. rewrite N.mod_small by lia. lia. }
  cbv zeta. rewrite Emax. cbn [c_isv4 c_ip c_addr].
  set (isv4 := is_v4 a && (96 <=? plen)).
  set (S := nets_of F m) in *.
  match goal with |- context [Location.get db ?k] => set (bk := k) end.
  assert (Hlist : exists masks,
            Location.get db bk = Some masks /\
            StronglySorted (fun x y => y < x) masks /\ (forall mk, In mk masks -> mk <= 128) /\
            (forall t, In t S -> elig isv4 plen a t -> In (s_len t) masks)).
  { assert (Hin : forall t, In t S -> exists n, In n (f_nets F) /\ nl_map n = m /\ nl_net n = t)
      by (intros t Ht; apply (nets_of_in F m); auto).
    unfold bk. destruct sep; [destruct isv4 eqn:V|].
    - rewrite G52. eexists. split; [reflexivity|].
      split; [apply prefix_set_sorted|]. split; [apply prefix_set_le|].
      intros t Ht [E1 [E2 E3]]. destruct (Hin t Ht) as [n [Hn [_ <-]]].
      destruct (wf_subnetb_spec _ (wf_in S _ wfS Ht)) as [W1 [W2 [W3 W4]]].
      apply prefix_set_in; auto.
      unfold isv4 in V. apply Bool.andb_true_iff in V. destruct V as [V1 V2].
      specialize (E2 eq_refl). apply contains_clean in E3; auto.
      rewrite <- E3, (is_v4_clean_ge a _ E2 W1). exact V1.
    - rewrite G54. eexists. split; [reflexivity|].
      split; [apply prefix_set_sorted|]. split; [apply prefix_set_le|].
      intros t Ht [E1 [E2 E3]]. destruct (Hin t Ht) as [n [Hn [_ <-]]].
      destruct (wf_subnetb_spec _ (wf_in S _ wfS Ht)) as [W1 [W2 [W3 W4]]].
      apply prefix_set_in; auto. apply Bool.negb_true_iff.
      destruct (is_v4 (s_addr (nl_net n))) eqn:Vt; auto. exfalso.
      pose proof (v4_addr_len _ W3 Vt) as L. apply contains_clean in E3; auto.
      rewrite <- E3, (is_v4_clean_ge a _ L W1) in Vt.
      unfold isv4 in V. rewrite Vt in V. cbn [andb] in V. apply N.leb_gt in V. lia.
    - rewrite G47. eexists. split; [reflexivity|].
      split; [apply prefix_set_sorted|]. split; [apply prefix_set_le|].
      intros t Ht _. destruct (Hin t Ht) as [n [Hn [_ <-]]].
      destruct (wf_subnetb_spec _ (wf_in S _ wfS Ht)) as [W1 _].
      apply prefix_set_in; auto. }
  destruct Hlist as [masks [G [Hs [Hle Hall]]]]. rewrite G.
  destruct (cdb_loop_spec S wfS (fun x len => Location.get db (net_key m x len)) Hhit Hmiss
              isv4 plen a Halt masks a Hs Hle (fun _ _ => eq_refl) Hall) as [r [Er Hr]].
  rewrite Er. f_equal. apply cdb_result_lpm; auto.
Qed.

