(* reverseZoneNameToBuffer (db/answer_sorted.go), whose index is a Go byte: on a wire-valid name
   (labels 1..63 bytes, at most 255 bytes in all) the byte arithmetic never wraps, nothing panics,
   and the result is the reversed packed name the v2 compiler writes into the key (Spec/Rows.rpack). *)
From DnsV Require Import Base.Bytes Model.Store Model.LookupV1 Model.LookupV2 Spec.Answer Spec.Rows.
From DnsV Require Import Proofs.Answer Proofs.Compile Proofs.ZoneCut Proofs.NxDomain.
From Coq Require Import ZifyN ZifyNat ZifyBool.
Ltac Zify.zify_post_hook ::= Z.div_mod_to_equations.
Open Scope N_scope.

Lemma zeros_length : forall k, length (zeros k) = k.
Proof. intros. unfold zeros. apply repeat_length. Qed.
Lemma zeros_app : forall a b, zeros (a + b) = zeros a ++ zeros b.
Proof. intros. unfold zeros. apply repeat_app. Qed.
Lemma firstn_zeros_app : forall k j T, (k <= j)%nat -> firstn k (zeros j ++ T) = zeros k.
Proof.
  intros k j T H. replace j with (k + (j - k))%nat by lia. rewrite zeros_app, <- app_assoc.
  rewrite firstn_app, zeros_length, Nat.sub_diag. cbn [firstn]. rewrite app_nil_r.
  rewrite firstn_all2; [reflexivity | rewrite zeros_length; lia].
Qed.
Lemma skipn_zeros_app : forall j T, skipn j (zeros j ++ T) = T.
Proof. intros. rewrite skipn_app, zeros_length, Nat.sub_diag. rewrite skipn_all2; [reflexivity | rewrite zeros_length; lia]. Qed.

(* one step of the loop on the buffer  zeros i ++ T *)
Lemma rev_step_buf : forall (i : nat) (l T : bytes) (q0 : N),
  (length l < i)%nat ->
  exists d1, copy_at (zeros i ++ T) (N.of_nat (i - length l)) l = Val d1 /\
             upd d1 (N.of_nat (i - length l - 1)) q0 = Val (zeros (i - length l - 1) ++ (q0 :: l) ++ T).
Proof.
  intros i l T q0 H. unfold copy_at, upd.
  assert (E1 : (N.of_nat (i - length l) <=? nlen (zeros i ++ T)) = true).
  { unfold nlen. rewrite app_length, zeros_length. lia. }
  rewrite E1.
  assert (Em : N.min (nlen (zeros i ++ T) - N.of_nat (i - length l)) (nlen l) = nlen l).
  { unfold nlen. rewrite app_length, zeros_length. lia. }
  rewrite Em. eexists. split; [reflexivity|].
  rewrite Nat2N.id, to_nat_nlen, firstn_all.
  rewrite (firstn_zeros_app (i - length l) i T) by lia.
  replace (N.to_nat (N.of_nat (i - length l) + nlen l)) with i by (unfold nlen; lia).
  rewrite skipn_zeros_app.
  assert (E2 : (N.of_nat (i - length l - 1) <? nlen (zeros (i - length l) ++ l ++ T)) = true).
  { unfold nlen. rewrite !app_length, zeros_length. lia. }
  rewrite E2. rewrite Nat2N.id.
  rewrite (firstn_zeros_app (i - length l - 1) (i - length l)) by lia.
  replace (N.to_nat (N.of_nat (i - length l - 1) + 1)) with (i - length l)%nat by lia.
  rewrite skipn_zeros_app. reflexivity.
Qed.

Definition body (n : name) : bytes := flat_map (fun l => nlen l :: l) n.
Lemma pack_body : forall n, pack n = body n ++ [0].
Proof. reflexivity. Qed.

Lemma rev_loop_pack : forall (rest : name) fuel (T : bytes),
  wf_name rest -> (length rest < fuel)%nat -> (length (pack rest) - 1 + length T <= 256)%nat ->
  rev_loop fuel (pack rest) (N.of_nat (length (pack rest) - 1)) (zeros (length (pack rest) - 1) ++ T) =
    Val (body (rev rest) ++ T).
Proof.
  induction rest as [|l p IH]; intros fuel T Hw Hf Hlen; (destruct fuel as [|fuel]; [lia|]).
  - reflexivity.
  - inversion Hw as [|? ? Hl Hp]; subst. destruct Hl as [[Hl1 Hl2] _].
    cbn [rev_loop]. rewrite pack_cons. cbn [app]. unfold idx. cbn [N.to_nat nth_error bind].
    assert (Ez : (nlen l =? 0) = false) by lia. rewrite Ez.
    pose proof (length_pack_ge p) as Hp1.
    rewrite pack_cons in Hlen. cbn [app length] in Hlen. rewrite app_length in Hlen.
    assert (Hi : (length (nlen l :: l ++ pack p) - 1 = length l + length (pack p))%nat) by (cbn [length]; rewrite app_length; lia).
    rewrite Hi. set (i := (length l + length (pack p))%nat) in *.
    assert (Hb1 : b8 (N.of_nat i + 256 - nlen l) = N.of_nat (i - length l)).
    { unfold b8, nlen in *. lia. }
    rewrite Hb1.
    assert (Hb2 : b8 (nlen l + 1) = nlen l + 1) by (unfold b8; apply N.mod_small; lia). rewrite Hb2.
    change (nlen l :: l ++ pack p) with ([nlen l] ++ l ++ pack p).
    rewrite (slice_mid [nlen l] l (pack p)) by (unfold nlen; cbn [length]; lia). cbn [bind].
    destruct (rev_step_buf i l T (nlen l)) as [d1 [C1 C2]]; [lia|].
    rewrite C1. cbn [bind].
    assert (Hb3 : b8 (N.of_nat (i - length l) + 255) = N.of_nat (i - length l - 1)).
    { unfold b8. lia. }
    rewrite Hb3, C2. cbn [bind].
    change ([nlen l] ++ l ++ pack p) with ((nlen l :: l) ++ pack p).
    rewrite (slice_from_app (nlen l :: l) (pack p)) by (rewrite nlen_cons; lia). cbn [bind].
    replace (i - length l - 1)%nat with (length (pack p) - 1)%nat by lia.
    rewrite (IH fuel ((nlen l :: l) ++ T) Hp); [| cbn [length] in Hf; lia | rewrite app_length; cbn [length]; lia].
    cbn [rev]. unfold body. rewrite flat_map_app. cbn [flat_map app]. rewrite app_nil_r, <- !app_assoc. reflexivity.
Qed.

(* reverseZoneName on a wire-valid name *)
Theorem reverse_zone_name_pack : forall n, wf_name n -> nlen (pack n) <= 255 ->
  reverse_zone_name (pack n) = Val (rpack n).
Proof.
  intros n Hn Hlen. unfold reverse_zone_name, rev_into.
  pose proof (length_pack_ge n) as Hp.
  assert (Hb : b8 (nlen (pack n) + 255) = N.of_nat (length (pack n) - 1)) by (unfold b8, nlen in *; lia).
  rewrite Hb.
  assert (U : upd (zeros (length (pack n))) (N.of_nat (length (pack n) - 1)) 0 = Val (zeros (length (pack n) - 1) ++ [0])).
  { unfold upd. assert (E : (N.of_nat (length (pack n) - 1) <? nlen (zeros (length (pack n)))) = true)
      by (unfold nlen; rewrite zeros_length; lia).
    rewrite E, Nat2N.id.
    replace (N.to_nat (N.of_nat (length (pack n) - 1) + 1)) with (length (pack n)) by lia.
    rewrite (skipn_all2 (zeros (length (pack n)))) by (rewrite zeros_length; lia).
    replace (zeros (length (pack n))) with (zeros (length (pack n) - 1) ++ [0])
      by (change [0] with (zeros 1); rewrite <- zeros_app; f_equal; lia).
    rewrite (firstn_zeros_app (length (pack n) - 1) (length (pack n) - 1) [0]) by lia. reflexivity. }
  rewrite U. cbn [bind].
  rewrite (rev_loop_pack n (S (length (pack n))) [0] Hn); [| lia | unfold nlen in Hlen; cbn [length]; lia].
  unfold rpack. rewrite pack_body. reflexivity.
Qed.

(* the same routine as sortedDataReader.ForEachResourceRecord calls it (destination two bytes
   longer: the location follows the name in the key) *)
Lemma rev_into_key_buffer : forall n, wf_name n -> nlen (pack n) <= 253 ->
  rev_into (pack n) (zeros (length (pack n) + 2)) = Val (rpack n ++ [0; 0]).
Proof.
  intros n Hn Hlen. unfold rev_into.
  pose proof (length_pack_ge n) as Hp.
  assert (Hb : b8 (nlen (pack n) + 255) = N.of_nat (length (pack n) - 1)) by (unfold b8, nlen in *; lia).
  rewrite Hb.
  assert (Z : zeros (length (pack n) + 2) = zeros (length (pack n) - 1) ++ [0; 0; 0]).
  { change [0; 0; 0] with (zeros 3). rewrite <- zeros_app. f_equal. lia. }
  assert (U : upd (zeros (length (pack n) + 2)) (N.of_nat (length (pack n) - 1)) 0 = Val (zeros (length (pack n) - 1) ++ [0; 0; 0])).
  { unfold upd. assert (E : (N.of_nat (length (pack n) - 1) <? nlen (zeros (length (pack n) + 2))) = true)
      by (unfold nlen; rewrite zeros_length; lia).
    rewrite E, Nat2N.id. rewrite Z at 1 2.
    rewrite (firstn_zeros_app (length (pack n) - 1) (length (pack n) - 1)) by lia.
    replace (N.to_nat (N.of_nat (length (pack n) - 1) + 1)) with ((length (pack n) - 1) + 1)%nat by lia.
    rewrite skipn_app, zeros_length, skipn_all2 by (rewrite zeros_length; lia).
    replace (length (pack n) - 1 + 1 - (length (pack n) - 1))%nat with 1%nat by lia. reflexivity. }
  rewrite U. cbn [bind].
  rewrite (rev_loop_pack n (S (length (pack n))) [0; 0; 0] Hn); [| lia | unfold nlen in Hlen; cbn [length]; lia].
  unfold rpack. rewrite pack_body, <- app_assoc. reflexivity.
Qed.

(* the exact reads of the v2 reader (FindSOA, GetNs, additional section) never panic on a
   wire-valid name: the only panic source outside the recovered callbacks is this routine *)
Lemma for_each_rr_v2_val : forall {S} st c n loc (f : cb S) s, wf_name n -> nlen (pack n) <= 253 ->
  exists r, for_each_rr_v2 st c (pack n) loc f s = Val r.
Proof.
  intros S st c n loc f s Hn Hlen. unfold for_each_rr_v2. rewrite (rev_into_key_buffer n Hn Hlen). cbn [bind].
  destruct (if is_loc0 loc then (s, false, c) else for_each_v2 st c _ f s) as [[s1 e1] c1].
  destruct e1; eexists; reflexivity.
Qed.
