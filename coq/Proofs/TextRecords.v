(* TextRecords: for every modelled record type, the line printed by MarshalText parses
   back to the normalised record (names without their empty labels), which compiles to the
   same keys and values and prints the same text.  Used by Proofs/Text.v (C09). *)
From DnsV Require Import Model.Text Proofs.Quote Proofs.TextBase Proofs.TextNames.
(* C18 (not imported: its files reuse names of Model/Text.v) *)
From DnsV Require Base.Text Model.Svcb Spec.SvcbWire Proofs.Svcb.
From Coq Require Import ZifyN ZifyNat ZifyBool.
Open Scope N_scope.

Ltac Zify.zify_post_hook ::= Z.div_mod_to_equations.

Lemma u16_le32 : forall n, u16b n = true -> n <= max32.
Proof. intros n H. unfold u16b, max16, max32 in *. lia. Qed.
Lemma u16_lt : forall n, u16b n = true -> n < 65536.
Proof. intros n H. unfold u16b, max16 in *. lia. Qed.
Lemma ml_rt : forall ml, ml < 256 -> ((ml + 160) mod 256 + 96) mod 256 = ml.
Proof. intros. lia. Qed.
Lemma ml_minus96 : forall ml, ml < 256 -> 96 <= ml -> (ml + 160) mod 256 = ml - 96.
Proof. intros. lia. Qed.
Lemma mod_le8 : forall x, x mod 256 <= max8.
Proof. intros. unfold max8. lia. Qed.
Lemma lt_le8 : forall x, x < 256 -> x <= max8.
Proof. intros. unfold max8. lia. Qed.

Section Records.
Variable o : toracles.
Variable serial : N.

(* library behaviour (net.ParseIP / net.IP.String) *)
Variable Hip_rt : forall a, wf_bytes a -> length a = 16%nat -> o_parse_ip o (o_print_ip o a) = Some a.
Variable Hip_nil : o_parse_ip o [] = None.
Variable Hip_nosep : forall a, contains 44 (o_print_ip o a) = false.

(* library behaviour the B/H parameter list relies on (the premises of C18_text_roundtrip_outside_finding):
   ParseIP yields 16 bytes; base64 Decode yields bytes; a printed 4-byte address parses to its v4-in-v6
   form; a printed 16-byte address outside ::ffff:0:0/96 holds a ':'; printed addresses hold no
   ';' '|' or double quote; base64 Decode inverts Encode, whose text holds no ';' or double quote *)
Variable Hs_parse : forall s a, o_parse_ip o s = Some a -> length a = 16%nat /\ wf_bytes a.
Variable Hs_b64 : forall s x, o_b64_dec o s = Some x -> wf_bytes x.
Variable Hs_p4 : forall a, length a = 4%nat -> wf_bytes a ->
  o_parse_ip o (o_print_ip o a) = Some (Base.Text.v4_prefix ++ a).
Variable Hs_p6 : forall a, length a = 16%nat -> wf_bytes a -> Base.Text.ip_to4 a = None ->
  Base.Text.has_byte 58 (o_print_ip o a) = true.
Variable Hs_pc : forall a, (length a = 4%nat \/ length a = 16%nat) -> wf_bytes a ->
  Base.Text.has_byte 59 (o_print_ip o a) = false /\ Base.Text.has_byte 124 (o_print_ip o a) = false
  /\ Base.Text.has_byte 34 (o_print_ip o a) = false.
Variable Hs_be : forall x, wf_bytes x ->
  o_b64_dec o (o_b64_enc o x) = Some x /\ Base.Text.has_byte 59 (o_b64_enc o x) = false
  /\ Base.Text.has_byte 34 (o_b64_enc o x) = false.

Let pr := o_isprint o.

(* ------------------------------------------------------------------ field-level facts, boolean guards *)
Lemma nocomma_text : forall d, wf_nameb o d = true -> nocomma (putdomtext o d).
Proof. intros d H. apply (putdomtext_nosep o d (wf_nameb_spec o d H)). Qed.
Lemma nocolon_text : forall d, wf_nameb o d = true -> nocolon (putdomtext o d).
Proof. intros d H. apply (putdomtext_nosep o d (wf_nameb_spec o d H)). Qed.
Lemma nocomma_wtext : forall w d, wf_nameb o d = true -> nocomma (wildtext o w d).
Proof. intros w d H. apply (wildtext_nosep o w d (wf_nameb_spec o d H)). Qed.
Lemma nocolon_wtext : forall w d, wf_nameb o d = true -> nocolon (wildtext o w d).
Proof. intros w d H. apply (wildtext_nosep o w d (wf_nameb_spec o d H)). Qed.
Lemma nocomma_loc : forall lo, wf_locb lo = true -> nocomma (loctext lo).
Proof. intros lo H. apply loctext_nosep. apply (wf_locb_spec lo H). Qed.
Lemma nocolon_loc : forall lo, wf_locb lo = true -> nocolon (loctext lo).
Proof. intros lo H. apply loctext_nosep. apply (wf_locb_spec lo H). Qed.
Lemma nocomma_lmap : forall m, wf_lmapb m = true -> nocomma (loctext m).
Proof. intros m H. apply loctext_nosep. apply (wf_lmapb_spec m H). Qed.
Lemma nocolon_lmap : forall m, wf_lmapb m = true -> nocolon (loctext m).
Proof. intros m H. apply loctext_nosep. apply (wf_lmapb_spec m H). Qed.
Lemma nocomma_ip : forall ip, nocomma (ip_text o ip).
Proof. intros [a|]; [apply Hip_nosep|reflexivity]. Qed.
Lemma nocomma_quoted : forall b, wf_bytesb b = true -> nocomma (quoted o b).
Proof. intros b H. apply (bquote_no_separator pr b (wf_bytesb_spec b H)). Qed.

Lemma unq_text : forall d, wf_nameb o d = true -> unq (putdomtext o d) = nn d.
Proof. intros d H. apply (normname_eq o d (wf_nameb_spec o d H)). Qed.
Lemma getdom_wtext : forall w d, wf_nameb o d = true -> wild_okb o w d = true ->
  getdom (wildtext o w d) = (nn d, w).
Proof. intros w d H K. exact (getdom_wildtext o w d (wf_nameb_spec o d H) K). Qed.
Lemma getloc_loc : forall lo, wf_locb lo = true -> getloc (loctext lo) = Ok lo.
Proof. intros lo H. apply getloc_loctext, wf_locb_spec, H. Qed.
Lemma getlmap_loc : forall m, wf_lmapb m = true -> getlmap (loctext m) = m.
Proof. intros m H. apply getlmap_loctext, wf_lmapb_spec, H. Qed.
Lemma getuint32 : forall n d, u32b n = true -> getuint max32 (print_dec n) d = n.
Proof. intros n d H. apply getuint_print. unfold u32b in H. lia. Qed.
Lemma getuint16 : forall n d, u16b n = true -> getuint max16 (print_dec n) d = n.
Proof. intros n d H. apply getuint_print. unfold u16b in H. lia. Qed.
Lemma parse_ip_text : forall ip, wf_ipb ip = true -> o_parse_ip o (ip_text o ip) = ip.
Proof using o serial Hip_rt Hip_nil Hip_nosep.
  intros [a|] H; [|exact Hip_nil]. cbn [wf_ipb] in H. apply andb_true_iff in H. destruct H as [H1 H2].
  cbn [ip_text]. apply Hip_rt; [apply wf_bytesb_spec; assumption|apply Nat.eqb_eq; assumption].
Qed.
Lemma unq_quoted : forall b, wf_bytesb b = true -> unq (quoted o b) = b.
Proof. intros b H. apply unq_bquote. apply wf_bytesb_spec. assumption. Qed.
Lemma expand_nn : forall x mid dom, wf_nameb o x = true -> srv_lost o x = false -> expand (nn x) mid dom = nn x.
Proof.
  intros x mid dom H K. unfold srv_lost in K. rewrite (normname_eq o x (wf_nameb_spec o x H)) in K.
  unfold expand. destruct (contains 46 (nn x)); [reflexivity|discriminate K].
Qed.

Lemma fields_marshal : forall t f0 f1 rest,
  nocomma f0 -> nocolon f0 -> Forall nocomma (f1 :: rest) -> (length rest <= 13)%nat ->
  fields (t :: joinb 44 (f0 :: f1 :: rest)) = f0 :: f1 :: rest.
Proof. exact fields_line_of. Qed.

(* ------------------------------------------------------------------ normal form of a record *)
Definition norm (r : record) : record :=
  match r with
  | RNet lo ip ones lmap => r
  | RSoa dom ns adm ser ref ret exp min ttl lo =>
      RSoa (nn dom) (nn ns) (nn adm) (if ser =? 0 then serial else ser) ref ret exp min ttl lo
  | RDot dom ip ns ttl lo ser => RDot (nn dom) ip (nn ns) ttl lo serial
  | RNs dom ip ns ttl lo => RNs (nn dom) ip (nn ns) ttl lo
  | RAddr dom wild ip ttl lo weight => RAddr (nn dom) wild ip ttl lo weight
  | RPaddr dom wild ip ttl lo => RPaddr (nn dom) wild ip ttl lo
  | RMx dom ip mx dist ttl lo => RMx (nn dom) ip (nn mx) dist ttl lo
  | RSrv dom ip srv port pri weight ttl lo => RSrv (nn dom) ip (nn srv) port pri weight ttl lo
  | RCname dom wild cname ttl lo => RCname (nn dom) wild (nn cname) ttl lo
  | RPtr dom host ttl lo => RPtr (nn dom) (nn host) ttl lo
  | RTxt dom wild txt ttl lo => RTxt (nn dom) wild txt ttl lo
  | RAux dom rtype rdata ttl lo => RAux (nn dom) rtype rdata ttl lo
  | RIpmap dom lmap => RIpmap (nn dom) lmap
  | RCsmap dom lmap => RCsmap (nn dom) lmap
  | RRangePoint lmap ip ml null locid =>
      RRangePoint lmap ip (if null then 0 else ml) null (if null then [0; 0] else locid)
  | RSvcb h dom wild tgt ttl lo prio ps => RSvcb h (nn dom) wild (nn tgt) ttl lo prio ps
  end.

Ltac split_wf H :=
  repeat match type of H with
  | (_ && _) = true => let H' := fresh "W" in apply andb_true_iff in H; destruct H as [H H']
  end.

Ltac side := repeat constructor;
  auto using nocomma_text, nocolon_text, nocomma_wtext, nocolon_wtext, nocomma_loc, nocolon_loc,
    nocomma_lmap, nocolon_lmap, nocomma_ip, nocomma_quoted, nocomma_dec, nocolon_dec, nocomma_nil, nocolon_nil.

Ltac open_line :=
  unfold marshal, line_of, SEPC, parse_line; cbn [N.eqb Pos.eqb orb];
  rewrite fields_marshal; [cbn [fld nth]| side | side | side | apply Nat.leb_le; reflexivity].

(* ------------------------------------------------------------------ parse (marshal r) = Ok (norm r) *)
Lemma parse_soa : forall dom ns adm ser ref ret exp min ttl lo,
  wf_recordb o (RSoa dom ns adm ser ref ret exp min ttl lo) = true ->
  parse_line o serial (marshal o (RSoa dom ns adm ser ref ret exp min ttl lo)) =
  Ok (norm (RSoa dom ns adm ser ref ret exp min ttl lo)).
Proof using o serial Hip_rt Hip_nil Hip_nosep.
  intros. cbn [wf_recordb] in H. split_wf H. open_line.
  - rewrite !unq_text by assumption. rewrite !getuint32 by assumption.
    rewrite getloc_loc by assumption. cbn [rbind norm].
    destruct (N.eqb_spec ser 0).
    + rewrite getuint_nil. reflexivity.
    + rewrite getuint32 by assumption. reflexivity.
  - destruct (ser =? 0); side.
Qed.

Lemma parse_dot : forall dom ip ns ttl lo ser,
  wf_recordb o (RDot dom ip ns ttl lo ser) = true -> srv_lost o ns = false ->
  parse_line o serial (marshal o (RDot dom ip ns ttl lo ser)) = Ok (norm (RDot dom ip ns ttl lo ser)).
Proof using o serial Hip_rt Hip_nil Hip_nosep.
  intros. cbn [wf_recordb] in H. split_wf H. open_line.
  rewrite !unq_text by assumption. rewrite !getuint32 by assumption.
  rewrite getloc_loc by assumption. rewrite parse_ip_text by assumption.
  rewrite expand_nn by assumption. reflexivity.
Qed.

Lemma parse_ns : forall dom ip ns ttl lo,
  wf_recordb o (RNs dom ip ns ttl lo) = true -> srv_lost o ns = false ->
  parse_line o serial (marshal o (RNs dom ip ns ttl lo)) = Ok (norm (RNs dom ip ns ttl lo)).
Proof using o serial Hip_rt Hip_nil Hip_nosep.
  intros. cbn [wf_recordb] in H. split_wf H. open_line.
  rewrite !unq_text by assumption. rewrite !getuint32 by assumption.
  rewrite getloc_loc by assumption. rewrite parse_ip_text by assumption.
  rewrite expand_nn by assumption. reflexivity.
Qed.

Lemma parse_addr : forall dom wild ip ttl lo weight,
  wf_recordb o (RAddr dom wild ip ttl lo weight) = true ->
  parse_line o serial (marshal o (RAddr dom wild ip ttl lo weight)) = Ok (norm (RAddr dom wild ip ttl lo weight)).
Proof using o serial Hip_rt Hip_nil Hip_nosep.
  intros. cbn [wf_recordb] in H. split_wf H. open_line.
  rewrite getdom_wtext by assumption. rewrite !getuint32 by assumption.
  rewrite getloc_loc by assumption. rewrite parse_ip_text by assumption. reflexivity.
Qed.

Lemma parse_paddr : forall dom wild ip ttl lo,
  wf_recordb o (RPaddr dom wild ip ttl lo) = true ->
  parse_line o serial (marshal o (RPaddr dom wild ip ttl lo)) = Ok (norm (RPaddr dom wild ip ttl lo)).
Proof using o serial Hip_rt Hip_nil Hip_nosep.
  intros. cbn [wf_recordb] in H. split_wf H. open_line.
  rewrite getdom_wtext by assumption. rewrite !getuint32 by assumption.
  rewrite getloc_loc by assumption. rewrite parse_ip_text by assumption. reflexivity.
Qed.

Lemma parse_mx : forall dom ip mx dist ttl lo,
  wf_recordb o (RMx dom ip mx dist ttl lo) = true -> srv_lost o mx = false ->
  parse_line o serial (marshal o (RMx dom ip mx dist ttl lo)) = Ok (norm (RMx dom ip mx dist ttl lo)).
Proof using o serial Hip_rt Hip_nil Hip_nosep.
  intros. cbn [wf_recordb] in H. split_wf H. open_line.
  rewrite !unq_text by assumption. rewrite !getuint32 by assumption.
  rewrite getloc_loc by assumption. rewrite parse_ip_text by assumption.
  rewrite expand_nn by assumption. reflexivity.
Qed.

Lemma parse_srv : forall dom ip srv port pri weight ttl lo,
  wf_recordb o (RSrv dom ip srv port pri weight ttl lo) = true -> srv_lost o srv = false ->
  parse_line o serial (marshal o (RSrv dom ip srv port pri weight ttl lo)) =
  Ok (norm (RSrv dom ip srv port pri weight ttl lo)).
Proof using o serial Hip_rt Hip_nil Hip_nosep.
  intros. cbn [wf_recordb] in H. split_wf H. open_line.
  rewrite !unq_text by assumption. rewrite !getuint32 by assumption. rewrite !getuint16 by assumption.
  rewrite getloc_loc by assumption. rewrite parse_ip_text by assumption.
  rewrite expand_nn by assumption. reflexivity.
Qed.

Lemma parse_cname : forall dom wild cname ttl lo,
  wf_recordb o (RCname dom wild cname ttl lo) = true ->
  parse_line o serial (marshal o (RCname dom wild cname ttl lo)) = Ok (norm (RCname dom wild cname ttl lo)).
Proof using o serial Hip_rt Hip_nil Hip_nosep.
  intros. cbn [wf_recordb] in H. split_wf H. open_line.
  rewrite getdom_wtext by assumption. rewrite !unq_text by assumption. rewrite !getuint32 by assumption.
  rewrite getloc_loc by assumption. reflexivity.
Qed.

Lemma parse_ptr : forall dom host ttl lo,
  wf_recordb o (RPtr dom host ttl lo) = true ->
  parse_line o serial (marshal o (RPtr dom host ttl lo)) = Ok (norm (RPtr dom host ttl lo)).
Proof using o serial Hip_rt Hip_nil Hip_nosep.
  intros. cbn [wf_recordb] in H. split_wf H. open_line.
  rewrite !unq_text by assumption. rewrite !getuint32 by assumption.
  rewrite getloc_loc by assumption. reflexivity.
Qed.

Lemma parse_txt : forall dom wild txt ttl lo,
  wf_recordb o (RTxt dom wild txt ttl lo) = true ->
  parse_line o serial (marshal o (RTxt dom wild txt ttl lo)) = Ok (norm (RTxt dom wild txt ttl lo)).
Proof using o serial Hip_rt Hip_nil Hip_nosep.
  intros. cbn [wf_recordb] in H. split_wf H. open_line.
  rewrite getdom_wtext by assumption. rewrite unq_quoted by assumption. rewrite !getuint32 by assumption.
  rewrite getloc_loc by assumption. reflexivity.
Qed.

Lemma parse_aux : forall dom rtype rdata ttl lo,
  wf_recordb o (RAux dom rtype rdata ttl lo) = true ->
  parse_line o serial (marshal o (RAux dom rtype rdata ttl lo)) = Ok (norm (RAux dom rtype rdata ttl lo)).
Proof using o serial Hip_rt Hip_nil Hip_nosep.
  intros. cbn [wf_recordb] in H. split_wf H. open_line.
  rewrite !unq_text by assumption. rewrite unq_quoted by assumption. rewrite (getuint32 ttl) by assumption.
  rewrite (getuint_print max32 rtype) by (apply u16_le32; assumption).
  rewrite getloc_loc by assumption. cbn [rbind norm]. rewrite N.mod_small by (apply u16_lt; assumption).
  reflexivity.
Qed.

Lemma parse_ipmap : forall dom lmap,
  wf_recordb o (RIpmap dom lmap) = true ->
  parse_line o serial (marshal o (RIpmap dom lmap)) = Ok (norm (RIpmap dom lmap)).
Proof using o serial Hip_rt Hip_nil Hip_nosep.
  intros. cbn [wf_recordb] in H. split_wf H. open_line.
  rewrite !unq_text by assumption. rewrite getlmap_loc by assumption. reflexivity.
Qed.

Lemma parse_csmap : forall dom lmap,
  wf_recordb o (RCsmap dom lmap) = true ->
  parse_line o serial (marshal o (RCsmap dom lmap)) = Ok (norm (RCsmap dom lmap)).
Proof using o serial Hip_rt Hip_nil Hip_nosep.
  intros. cbn [wf_recordb] in H. split_wf H. open_line.
  rewrite !unq_text by assumption. rewrite getlmap_loc by assumption. reflexivity.
Qed.

Lemma parse_net_rec : forall lo ip ones lmap,
  wf_recordb o (RNet lo ip ones lmap) = true ->
  parse_line o serial (marshal o (RNet lo ip ones lmap)) = Ok (norm (RNet lo ip ones lmap)).
Proof using o serial Hip_rt Hip_nil Hip_nosep.
  intros. cbn [wf_recordb] in H.
  apply andb_true_iff in H. destruct H as [H Hc].
  apply andb_true_iff in H. destruct H as [H Hm].
  split_wf H.
  destruct (parse_net o (o_print_net o ip ones)) as [[ip' ones']|] eqn:E; [|discriminate Hm].
  apply andb_true_iff in Hm. destruct Hm as [Wa Wb]. apply bytes_eqb_eq in Wa. apply N.eqb_eq in Wb. subst.
  apply negb_true_iff in Hc.
  assert (Hc' : nocomma (o_print_net o ip ones)) by exact Hc.
  open_line.
  rewrite getloc_loc by assumption. rewrite E. rewrite getlmap_loc by assumption. reflexivity.
Qed.

Lemma is4_16 : forall a, is4 a = true -> length a = 16%nat.
Proof. intros a H. unfold is4 in H. apply andb_true_iff in H. apply Nat.eqb_eq. apply H. Qed.

Lemma parse_rangepoint : forall lmap ip ml null locid,
  wf_recordb o (RRangePoint lmap ip ml null locid) = true ->
  parse_line o serial (marshal o (RRangePoint lmap ip ml null locid)) =
  Ok (norm (RRangePoint lmap ip ml null locid)).
Proof using o serial Hip_rt Hip_nosep.
  intros. cbn [wf_recordb] in H. split_wf H.
  apply Nat.eqb_eq in W1. apply wf_bytesb_spec in W2.
  destruct null.
  - unfold marshal. cbn [app]. unfold line_of, SEPC, parse_line. cbn [N.eqb Pos.eqb orb].
    rewrite fields_marshal; [cbn [fld nth]| side | side | repeat constructor; apply Hip_nosep | apply Nat.leb_le; reflexivity].
    rewrite getlmap_loc by assumption. rewrite Hip_rt by assumption.
    rewrite getuint_nil. rewrite getloc_nil. reflexivity.
  - unfold marshal. cbn [app]. unfold line_of, SEPC, parse_line. cbn [N.eqb Pos.eqb orb].
    rewrite fields_marshal; [cbn [fld nth]| side | side | | apply Nat.leb_le; reflexivity].
    2:{ constructor; [apply Hip_nosep|]. constructor; [apply nocomma_dec|]. constructor; [|constructor].
        apply nocomma_lmap. assumption. }
    rewrite getlmap_loc by assumption. rewrite Hip_rt by assumption.
    assert (Wl : wf_locb locid = true).
    { pose proof W as Wc. unfold wf_lmapb in Wc. unfold wf_locb. apply andb_true_iff in Wc. destruct Wc as [Ha Hb].
      rewrite Ha, Hb. rewrite orb_true_r. reflexivity. }
    rewrite getloc_loc by assumption. cbn [rbind].
    assert (L2 : (length locid =? 2)%nat = true) by (pose proof W as Wc; unfold wf_lmapb in Wc; apply andb_true_iff in Wc; apply Wc).
    rewrite L2. cbn [negb andb norm]. apply N.ltb_lt in W0.
    destruct (is4 ip) eqn:V4.
    + rewrite (getuint_print max8) by apply mod_le8.
      rewrite ml_rt by assumption. reflexivity.
    + rewrite (getuint_print max8) by (apply lt_le8; assumption). reflexivity.
Qed.

(* B / H.  The parameter list: C18 - an accepted list that declares no v4-mapped ipv6hint prints to a
   text that FromText reads back to the same list *)
Lemma svcb_params_roundtrip : forall ps,
  (exists t, Model.Svcb.from_text (sorc o) t = Ok ps) -> f8_params ps = false ->
  exists s, Model.Svcb.to_text (sorc o) ps = Ok s /\ Model.Svcb.from_text (sorc o) s = Ok ps.
Proof using o Hip_rt Hs_parse Hs_b64 Hs_p4 Hs_p6 Hs_pc Hs_be.
  intros ps [t Ht] F.
  destruct (Proofs.Svcb.decodes_to_declared (sorc o) Hs_parse Hs_b64 t ps Ht) as (d & D1 & D2).
  refine (Proofs.Svcb.text_roundtrip_outside_finding (sorc o) Hs_parse Hs_b64 Hs_p4 _ Hs_pc Hs_be t ps d Ht D1 _).
  - intros a L W M. split; [apply Hip_rt; assumption|apply Hs_p6; assumption].
  - intros a Ia. unfold f8_params in F. rewrite D2 in F.
    apply Forall_forall. intros x Ix.
    destruct (Base.Text.ip_to4 x) eqn:E; [|reflexivity]. exfalso.
    assert (T : existsb (fun v => match v with Spec.SvcbWire.VIp6 a => existsb mapped16 a | _ => false end) d = true).
    { apply existsb_exists. exists (Spec.SvcbWire.VIp6 a). split; [exact Ia|].
      apply existsb_exists. exists x. split; [exact Ix|]. unfold mapped16. rewrite E. reflexivity. }
    rewrite T in F. discriminate F.
Qed.

Lemma parse_svcb : forall h dom wild tgt ttl lo prio ps,
  wf_recordb o (RSvcb h dom wild tgt ttl lo prio ps) = true ->
  svcb_accepted o (RSvcb h dom wild tgt ttl lo prio ps) -> f8_params ps = false ->
  parse_line o serial (marshal o (RSvcb h dom wild tgt ttl lo prio ps)) =
  Ok (norm (RSvcb h dom wild tgt ttl lo prio ps)).
Proof using o serial Hip_rt Hip_nil Hip_nosep Hs_parse Hs_b64 Hs_p4 Hs_p6 Hs_pc Hs_be.
  intros h dom wild tgt ttl lo prio ps H A F. cbn [svcb_accepted] in A.
  destruct (svcb_params_roundtrip ps A F) as (s & T1 & T2).
  cbn [wf_recordb] in H. rewrite T1 in H. split_wf H. apply negb_true_iff in W.
  assert (Pt : params_text o ps = s) by (unfold params_text; rewrite T1; reflexivity).
  assert (Hc : nocomma (params_text o ps)) by (rewrite Pt; exact W).
  assert (Gt : getdom (putdomtext o tgt) = (nn tgt, false)) by exact (getdom_wtext false tgt W4 W3).
  destruct h; open_line;
    rewrite getdom_wtext by assumption; rewrite Gt; rewrite !getuint32 by assumption;
    rewrite getloc_loc by assumption; rewrite getuint16 by assumption;
    unfold svcb_params; rewrite Pt, T2; reflexivity.
Qed.

(* ------------------------------------------------------------------ convert (norm r) = convert r *)
Lemma addr_kv_nn : forall v2 d w ip ttl lo wt, addr_kv v2 (nn d) w ip ttl lo wt = addr_kv v2 d w ip ttl lo wt.
Proof. intros. unfold addr_kv. rewrite key_nn. reflexivity. Qed.

Lemma convert_norm : forall v2 nornet r,
  wf_recordb o r = true -> finding_class o serial r = false -> dot_serial_okb serial r = true ->
  convert v2 nornet (norm r) = convert v2 nornet r.
Proof.
  intros v2 nornet r W F S.
  pose proof key_nn as K.
  destruct r; cbn [norm convert]; unfold soa_kv, ns_kv; rewrite ?addr_kv_nn, ?K, ?(putdom_nn); try reflexivity.
  - (* Z: the serial *)
    unfold finding_class in F. cbn [f12_class f26_class f27_class] in F. rewrite !orb_false_r in F.
    destruct (N.eqb_spec ser 0); [|reflexivity]. subst. cbn [negb andb] in F.
    apply negb_false_iff in F. apply N.eqb_eq in F. subst. reflexivity.
  - (* . : hostmaster.dom and the codec serial *)
    cbn [dot_serial_okb] in S. apply N.eqb_eq in S. subst.
    rewrite (putdom_prefix_nn s_hostmaster dom) by reflexivity. reflexivity.
  - (* = : the PTR target *)
    destruct wild; [|rewrite putdom_nn; reflexivity].
    change (42 :: 46 :: nn dom) with ([42] ++ 46 :: nn dom). change (42 :: 46 :: dom) with ([42] ++ 46 :: dom).
    rewrite (putdom_prefix_nn [42] dom) by reflexivity. reflexivity.
  - (* M *)
    cbn [wf_recordb] in W. split_wf W.
    unfold finding_class in F. cbn [f12_class f26_class f27_class] in F. cbn [orb] in F.
    rewrite (normname_eq o dom (wf_nameb_spec o dom W)) in *.
    unfold wild_okb in W1. rewrite (normname_eq o dom (wf_nameb_spec o dom W)) in W1.
    rewrite mapkey_nn; [reflexivity|].
    destruct (is_wild dom), (is_wild (nn dom)); cbn in *; congruence.
  - (* 8 *)
    cbn [wf_recordb] in W. split_wf W.
    unfold finding_class in F. cbn [f12_class f26_class f27_class] in F. cbn [orb] in F.
    rewrite (normname_eq o dom (wf_nameb_spec o dom W)) in *.
    unfold wild_okb in W1. rewrite (normname_eq o dom (wf_nameb_spec o dom W)) in W1.
    rewrite mapkey_nn; [reflexivity|].
    destruct (is_wild dom), (is_wild (nn dom)); cbn in *; congruence.
  - (* ! *)
    destruct null; reflexivity.
Qed.

(* ------------------------------------------------------------------ marshal (norm r) = marshal r *)
Lemma marshal_norm : forall r,
  wf_recordb o r = true -> finding_class o serial r = false ->
  marshal o (norm r) = marshal o r.
Proof using o serial.
  intros r W F.
  destruct r; cbn [wf_recordb] in W; split_wf W; cbn [norm marshal];
    rewrite ?(text_nn o) by (apply wf_nameb_spec; assumption);
    rewrite ?(wildtext_nn o) by (apply wf_nameb_spec; assumption); try reflexivity.
  - (* Z *)
    unfold finding_class in F. cbn [f12_class f26_class f27_class] in F. rewrite !orb_false_r in F.
    destruct (N.eqb_spec ser 0); [|destruct (N.eqb_spec ser 0); [contradiction|reflexivity]].
    subst. cbn [negb andb] in F. apply negb_false_iff in F. apply N.eqb_eq in F. subst. reflexivity.
  - (* ! *)
    destruct null; reflexivity.
Qed.

End Records.
