(* A diff of any length with one offending line is a no-op (property C08, the
   all-or-nothing clause, in the form the huge-fail class of the C08 check uses):
   whatever precedes and follows a line that ApplyDiff cannot read, and however many
   records these lines hold, the model's ApplyDiff returns an error and the store is
   the store it started from; the same for a readable diff one of whose '-' records
   names a value the key does not hold (an absent key holds nothing) and the diff
   does not add. *)
From DnsV Require Import Model.Diff Model.DiffLine Spec.MapOfLists Proofs.MultiValue Proofs.MapOfLists Proofs.Batch Proofs.Diff.
From Coq Require Import Permutation ZifyN ZifyNat ZifyBool.
Open Scope N_scope.

Lemma line_okb_iff : forall conv l, line_okb conv l = true <-> line_ok conv l.
Proof.
  intros conv [|c arg]; unfold line_okb, line_ok; [tauto|]. split.
  - intro H. apply orb_true_iff in H. destruct H as [H | H]; [left; lia|].
    apply andb_true_iff in H. destruct H as [H1 H2]. right. split; [lia|].
    destruct (conv arg) as [x|]; [eauto | discriminate].
  - intros [H | [H [x E]]]; apply orb_true_iff; [left; lia|]. right. rewrite E. apply andb_true_iff. split; [lia | reflexivity].
Qed.

Lemma failing_line_anywhere_is_noop : forall conv sort db pre l post,
  line_okb conv l = false ->
  exists e, (e = E_CONV \/ e = E_BADOP) /\ apply_diff_effect conv sort db (pre ++ l :: post) = (db, e).
Proof.
  intros conv sort db pre l post H.
  assert (N : ~ line_ok conv l) by (intro X; apply line_okb_iff in X; congruence).
  unfold apply_diff_effect, apply_diff.
  destruct (collect conv (pre ++ l :: post) [] []) as [[a d]|e] eqn:C.
  - exfalso. apply N. pose proof (collect_ok_inv conv _ _ _ _ C) as F. rewrite Forall_forall in F.
    apply F. apply in_or_app. right. left. reflexivity.
  - exists e. split; [|reflexivity]. destruct (collect_err conv _ _ _ _ C) as [E _]. exact E.
Qed.

Lemma vals_of_in : forall k v (l : list (bytes * bytes)), In (k, v) l -> In v (vals_of k l).
Proof.
  intros k v l H. unfold vals_of. apply in_map_iff. exists (k, v). split; [reflexivity|].
  apply filter_In. split; [assumption|]. simpl. apply bytes_eqb_refl.
Qed.

Lemma dels_of_line : forall conv pre l post kv0, In kv0 (line_dels conv l) -> In kv0 (dels_of conv (pre ++ l :: post)).
Proof.
  intros conv pre l post kv0 H. unfold dels_of. apply in_flat_map. exists l. split.
  - apply in_or_app. right. left. reflexivity.
  - destruct l as [|c arg]; [contradiction|]. unfold line_dels in H. destruct (c =? 45); [|contradiction].
    unfold Compile.recs_of. exact H.
Qed.

(* a readable diff with a '-' record (k, v) anywhere whose value the key neither holds nor receives *)
Lemma absent_delete_anywhere_is_noop : forall conv sort, sort_ok sort -> forall db pre l post k v,
  store_ok db -> Forall (line_ok conv) (pre ++ l :: post) -> kvs_ok (adds_of conv (pre ++ l :: post)) ->
  In (k, v) (line_dels conv l) ->
  ~ In v (vals db k ++ vals_of k (adds_of conv (pre ++ l :: post))) ->
  apply_diff_effect conv sort db (pre ++ l :: post) = (db, E_NXVAL).
Proof.
  intros conv sort HS db pre l post k v S F W I NI.
  set (d := pre ++ l :: post) in *.
  pose proof (apply_diff_cases conv sort HS db d S F W) as C.
  unfold apply_diff_effect. destruct (apply_diff conv sort db d) as [db'|e].
  - exfalso. destruct C as [_ H]. apply NI. specialize (H k).
    eapply Permutation_in; [exact H|]. apply in_or_app. right. apply vals_of_in.
    apply dels_of_line. assumption.
  - destruct C as [E _]. subst e. reflexivity.
Qed.
