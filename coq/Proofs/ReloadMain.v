(* Proofs/ReloadMain: all invariants hold along every schedule from the initial state;
   the theorems of C05 and of the schedule part of C12, and the concrete witnesses
   of findings F5, F6, F23, F24. *)
From DnsV Require Import Base.Bytes Model.Reload Proofs.Reload Proofs.ReloadBase Proofs.ReloadFlags
  Proofs.ReloadVis Proofs.ReloadMono Proofs.ReloadPath Proofs.ReloadNoop Proofs.ReloadSingle Proofs.ReloadStale.
From Coq Require Import Lia ZifyN ZifyNat ZifyBool.
Open Scope N_scope.

Section Main.
Variable refusedf weightedf : N -> N -> bool.
Variable cfg : config.
Notation step := (step refusedf weightedf cfg).
Notation run := (run refusedf weightedf cfg).

Record AllInv (st : state) : Prop := {
  A_idx : Idx st; A_clk : Clk st; A_epo : Epo st;
  A_sge : ServedGe st; A_vis : Vis st;
  A_flags : Flags st; A_smax : ServedMax st; A_mono : Mono st;
  A_mutex : Mutex st; A_path : PathInv cfg st;
  A_sgi : SGI st; A_nocatch : NoCatch cfg st; A_f5src : F5Src st;
  A_ns : NS cfg st; A_hit : HitFresh st
}.

Lemma AllInv_step st t st' : AllInv st -> step st t = Some st' -> AllInv st'.
Proof.
  intros [] H. constructor.
  - eapply Idx_step; eauto.
  - eapply Clk_step; eauto.
  - eapply Epo_step; eauto.
  - eapply ServedGe_step; eauto.
  - eapply Vis_step; eauto.
  - eapply Flags_step; eauto.
  - eapply ServedMax_step; eauto.
  - eapply Mono_step; eauto.
  - eapply Mutex_step; eauto.
  - eapply PathInv_step; eauto.
  - eapply SGI_step; eauto.
  - eapply NoCatch_step; eauto.
  - eapply F5Src_step; eauto.
  - eapply NS_step; eauto.
  - eapply HitFresh_step; eauto.
Qed.

Lemma nth_error_map_const {A B} (c : B) (l : list A) j x :
  nth_error (map (fun _ => c) l) j = Some x -> x = c.
Proof. revert j; induction l; destruct j; simpl; intros; try discriminate; eauto. congruence. Qed.

Variable d : disk.
Variable p0 : N.

Lemma init_q j q : qat (init cfg d p0) j q -> q = q0.
Proof. unfold qat, init; cbn. apply nth_error_map_const. Qed.
Lemma init_r i r : rat (init cfg d p0) i r -> r = r0.
Proof. unfold rat, init; cbn. apply nth_error_map_const. Qed.
Lemma init_epoch b : epoch_of (init cfg d p0) b = 0.
Proof. unfold epoch_of, back, init; cbn. destruct b as [|[|b]]; reflexivity. Qed.

Lemma AllInv_init : AllInv (init cfg d p0).
Proof.
  constructor.
  - constructor; cbn; auto; intros ? ? H; [apply init_q in H|apply init_r in H]; subst; cbn; discriminate.
  - constructor; intros ? ? H; [apply init_q in H|apply init_r in H]; subst; cbn; repeat split; intros; try discriminate; congruence.
  - constructor; cbn; try lia.
    + intros b. rewrite init_epoch. cbn; lia.
    + intros ? ? H; apply init_q in H; subst; cbn; contradiction.
    + intros ? ? H; apply init_r in H; subst; cbn; lia.
  - intros ? ? H; apply init_r in H; subst; cbn; discriminate.
  - intros ? ? ? ? H H'; apply init_r in H; subst; cbn; discriminate.
  - intros ? ? H; apply init_r in H; subst; cbn; auto.
  - intros _. rewrite init_epoch. reflexivity.
  - intros _ ? ? ? ? H; apply init_q in H; subst; cbn; discriminate.
  - constructor.
    + intros ? ? H; apply init_r in H; subst; cbn; discriminate.
    + intros ? ? ? ? H; apply init_r in H; subst; cbn; discriminate.
  - constructor; cbn; auto; intros;
      repeat match goal with H : rat (init _ _ _) _ _ |- _ => apply init_r in H; subst end; cbn in *; discriminate.
  - intros _. constructor; cbn; try contradiction.
    intros ? ? H; apply init_q in H; subst; cbn. repeat split; intros; try discriminate; try contradiction; auto.
    apply single_nil.
  - intros _. split; auto. intros ? ? H; apply init_r in H; subst; cbn; auto.
  - intros F; cbn in F; discriminate.
  - constructor; cbn; try contradiction.
    + intros _ ? ? H; apply init_r in H; subst; cbn. intros [|]; discriminate.
    + intros ? ? ? H; apply init_q in H; subst; cbn; discriminate.
  - intros _ ? ? ? ? _ H; apply init_q in H; subst; cbn; congruence.
Qed.

Lemma AllInv_run sched : AllInv (run (init cfg d p0) sched).
Proof. apply run_inv; [intros; eapply AllInv_step; eauto | apply AllInv_init]. Qed.

(* ---------------------------------------------------------------- C05 *)

Theorem visible_after_return sched i j r q :
  let st := run (init cfg d p0) sched in
  rat st i r -> qat st j q -> r_pc r = RDone None -> q_pc q <> QStart ->
  r_unlock_at r < q_acq_at q ->
  (pinned (q_pc q) = true -> r_epoch r <= epoch_of st (q_pin q)) /\
  forall g, In g (q_reads q) -> r_epoch r <= g_epoch g.
Proof.
  intros st R Q D S L. destruct (A_vis _ (AllInv_run sched) _ _ _ _ R Q D S L) as (_&P&G).
  split; auto. intros HP; apply P. intros E; rewrite E in HP; discriminate.
Qed.

Theorem partial_follows_last_switch sched :
  let st := run (init cfg d p0) sched in
  (st_w st = false -> st_path st = st_last_full st) /\
  (forall i r, rat st i r -> nth_error (c_rs cfg) i = Some Partial -> begun (r_pc r) = true ->
     r_newpath r = r_seen_last r) /\
  (forall i r, rat st i r -> holds (r_pc r) = true -> begun (r_pc r) = true ->
     r_seen_last r = st_last_full st).
Proof.
  intros st. destruct (A_path _ (AllInv_run sched)) as [PF _ _ PK PS].
  split; [exact PF|]. split; [|exact PS].
  intros i r R K B. exact (PK _ _ _ R K B).
Qed.

Theorem monotone sched j1 j2 q1 q2 :
  let st := run (init cfg d p0) sched in
  no_late st ->
  qat st j1 q1 -> qat st j2 q2 -> q_pc q1 = QDone -> q_pc q2 <> QStart -> q_done_at q1 < q_acq_at q2 ->
  forall g1 g2, In g1 (q_reads q1) -> In g2 (q_reads q2) -> g_epoch g1 <= g_epoch g2.
Proof.
  intros st NL Q1 Q2 D S L g1 g2 I1 I2.
  destruct (A_mono _ (AllInv_run sched) NL _ _ _ _ Q1 Q2 D S L _ I1) as (_&_&G). auto.
Qed.

(* with the cache off, what a finished query answered is exactly what its lookups read *)
Theorem resp_is_reads sched j q l :
  let st := run (init cfg d p0) sched in
  qat st j q -> q_resp q = Some l -> q_cached q = false -> l = q_reads q.
Proof.
  intros st Q R C. destruct (N_resp _ _ (A_ns _ (AllInv_run sched)) _ _ _ Q R) as (_&[(C'&_)|(_&E)]); congruence.
Qed.

Theorem failed_reload_is_noop s1 s2 i k r :
  let sa := run (init cfg d p0) s1 in
  let sb := step_or_skip refusedf weightedf cfg sa (TR i) in
  let sf := run sb s2 in
  rat sf i r -> r_pc r = RDone (Some k) -> r_inplace r = false -> view_eq sa sb.
Proof. intros; eapply failed_reload_noop; eauto. apply AllInv_init. Qed.

Theorem failed_reload_late_noop s1 s2 i r :
  let sa := run (init cfg d p0) s1 in
  let sb := step_or_skip refusedf weightedf cfg sa (TL i) in
  let sf := run sb s2 in
  rat sf i r -> r_late r = false -> sb = sa.
Proof. intros; eapply late_noop; eauto. apply AllInv_init. Qed.

(* cdb: no reload is ever an in-place or late catch-up *)
Theorem cdb_no_catchup sched i r :
  c_rocks cfg = false -> rat (run (init cfg d p0) sched) i r -> r_late r = false /\ r_inplace r = false.
Proof. intros C R. destruct (A_nocatch _ (AllInv_run sched) C) as (_&H). eauto. Qed.

Theorem single_generation_outside sched j q l :
  let st := run (init cfg d p0) sched in
  st_f5 st = false -> qat st j q -> q_resp q = Some l -> single_s l.
Proof.
  intros st F Q R. destruct (A_sgi _ (AllInv_run sched) F) as [SQ _].
  destruct (SQ _ _ Q) as (_&_&_&_&H). auto.
Qed.

Theorem f5_needs_catchup sched :
  let st := run (init cfg d p0) sched in
  (forall i r, rat st i r -> r_inplace r = false /\ r_late r = false) -> st_f5 st = false.
Proof.
  intros st H. destruct (st_f5 st) eqn:F; auto.
  destruct (A_f5src _ (AllInv_run sched) F) as (i&r&R&_&[X|X]); destruct (H _ _ R); congruence.
Qed.

Theorem single_generation_cdb sched j q l :
  let st := run (init cfg d p0) sched in
  c_rocks cfg = false -> qat st j q -> q_resp q = Some l -> single_s l.
Proof.
  intros st C. apply single_generation_outside.
  destruct (A_nocatch _ (AllInv_run sched) C); auto.
Qed.

(* ---------------------------------------------------------------- C12 (schedules) *)
Theorem no_stale_outside sched i j r q l :
  let st := run (init cfg d p0) sched in
  st_f6 st = false ->
  rat st i r -> qat st j q -> r_pc r = RDone None -> q_pc q <> QStart -> r_unlock_at r < q_acq_at q ->
  q_resp q = Some l -> forall g, In g l -> r_epoch r <= g_epoch g.
Proof.
  intros st F R Q D S L RS g G.
  pose proof (AllInv_run sched) as A.
  destruct (N_resp _ _ (A_ns _ A) _ _ _ Q RS) as (_&[(_&H)|(_&E)]).
  - eapply (A_hit _ A F); eauto.
  - subst l. destruct (A_vis _ A _ _ _ _ R Q D S L) as (_&_&X). auto.
Qed.

End Main.
