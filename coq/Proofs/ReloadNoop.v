From DnsV Require Import Base.Bytes Model.Reload Proofs.Reload Proofs.ReloadBase Proofs.ReloadFlags Proofs.ReloadVis.
From Coq Require Import Lia ZifyN ZifyNat ZifyBool.
Open Scope N_scope.
Section P.
Variable refusedf weightedf : N -> N -> bool.
Variable cfg : config.
Notation step := (step refusedf weightedf cfg).
Notation run := (run refusedf weightedf cfg).
Notation step_or_skip := (step_or_skip refusedf weightedf cfg).

(* what queries can observe of the server: which backend is served, the configured path,
   the cache, the disk, and the content of every backend that exists *)
Definition view_eq (st st' : state) : Prop :=
  st_served st' = st_served st /\ st_path st' = st_path st /\ st_cache st' = st_cache st /\
  st_disk st' = st_disk st /\
  forall b, (b < length (st_backs st))%nat -> back st' b = back st b.

Lemma view_eq_refl st : view_eq st st.
Proof. repeat split; auto. Qed.

(* closure of a property of one reload thread under arbitrary steps / schedules *)
Lemma thread_run (P : rstate -> Prop) i :
  (forall st t st' r, step st t = Some st' -> rat st i r -> P r -> exists r', rat st' i r' /\ P r') ->
  forall s st r, rat st i r -> P r -> exists r', rat (run st s) i r' /\ P r'.
Proof.
  intros HS s; induction s as [|t s IH]; simpl; intros st r HR HP; eauto.
  unfold Reload.step_or_skip. destruct (step st t) eqn:E; eauto.
  destruct (HS _ _ _ _ E HR HP) as (r'&?&?). eauto.
Qed.

Ltac thread_cases i :=
  match goal with
  | |- context [upd ?i0 ?x _] =>
      destruct (Nat.eq_dec i0 i) as [->|NE];
      [ erewrite nth_error_upd_same by eassumption; eexists; split; [reflexivity|];
        match goal with H1 : nth_error ?l ?k = Some ?a, H2 : nth_error ?l ?k = Some ?b |- _ =>
          rewrite H1 in H2; inversion H2; subst end; pcs; cbn in *; try discriminate; auto
      | rewrite nth_error_upd_other by assumption; eexists; split; [eassumption|auto] ]
  end.

Lemma succ_closed st t st' i r :
  step st t = Some st' -> rat st i r -> succ_track (r_pc r) = true ->
  exists r', rat st' i r' /\ succ_track (r_pc r') = true.
Proof.
  intros H HR HB. unfold rat in *. inv_step H; cbn.
  all: try (eexists; split; [eassumption|auto]).
  all: thread_cases i.
Qed.

(* one step of reload thread i either leaves the view alone, or puts the thread on the
   success track, or is an in-place catch-up *)
Lemma reload_step_view st i st' :
  step st (TR i) = Some st' ->
  exists r', rat st' i r' /\
    (succ_track (r_pc r') = true \/ (r_inplace r' = true /\ begun (r_pc r') = true) \/ view_eq st st').
Proof.
  intros H. unfold Reload.step in H.
  destruct (r_step cfg st i) eqn:HS; [|discriminate]. inversion H; subst; clear H.
  unfold r_step, r_begin in HS. dmatch HS; try discriminate; inversion HS; subst; clear HS.
  all: unfold rat, view_eq, back, catch_up, set_backs, rset_pc; cbn.
  all: erewrite nth_error_upd_same by eassumption; eexists; split; [reflexivity|]; cbn; auto.
  all: try (right; right; repeat split; auto; intros; rewrite ?app_nth1 by assumption; reflexivity).
Qed.

Lemma late_step_enabled st i st' :
  step st (TL i) = Some st' -> exists r, rat st i r /\ r_late r = true.
Proof.
  intros H. unfold Reload.step in H.
  destruct (l_step cfg st i) eqn:HS; [|discriminate].
  unfold l_step in HS. destruct (nth_error (st_rs st) i) eqn:E; [|discriminate].
  exists r; split; auto. destruct (r_late r); auto; discriminate.
Qed.

Lemma Flags_run st s : Flags st -> Flags (run st s).
Proof. apply run_inv. intros; eapply Flags_step; eauto. Qed.

(* C05: a reload that ends in failure (and was not an in-place catch-up) never changed the view *)
Theorem failed_reload_noop st0 s1 s2 i k r :
  Flags st0 ->
  let sa := run st0 s1 in
  let sb := step_or_skip sa (TR i) in
  let sf := run sb s2 in
  rat sf i r -> r_pc r = RDone (Some k) -> r_inplace r = false ->
  view_eq sa sb.
Proof.
  intros HF sa sb sf HR HK HI.
  unfold sb, Reload.step_or_skip in *. destruct (step sa (TR i)) eqn:E; [|apply view_eq_refl].
  destruct (reload_step_view _ _ _ E) as (r'&R'&[S|[(I&B)|V]]); auto; exfalso.
  - destruct (thread_run (fun r => succ_track (r_pc r) = true) i) with (s := s2) (st := s) (r := r') as (r2&R2&S2); auto.
    { intros; eapply succ_closed; eauto. }
    fold sf in R2. unfold rat in *. rewrite HR in R2; inversion R2; subst. rewrite HK in S2; discriminate.
  - destruct (thread_run (fun x => begun (r_pc x) = true /\ r_inplace x = true) i) with (s := s2) (st := s) (r := r') as (r2&R2&B2&I2); auto.
    { intros ? ? ? ? HS HR0 (B0&I0). destruct (frozen_step _ _ _ _ _ _ _ _ HS HR0 B0) as (r3&?&?&?&?); eexists; split; eauto; split; congruence. }
    fold sf in R2. unfold rat in *. rewrite HR in R2; inversion R2; subst. congruence.
Qed.

(* the goroutine left behind by a timed-out reload does nothing unless it is a pending catch-up *)
Theorem late_noop st0 s1 s2 i r :
  Flags st0 ->
  let sa := run st0 s1 in
  let sb := step_or_skip sa (TL i) in
  let sf := run sb s2 in
  rat sf i r -> r_late r = false -> sb = sa.
Proof.
  intros HF sa sb sf HR HL.
  unfold sb, Reload.step_or_skip in *. destruct (step sa (TL i)) eqn:E; auto. exfalso.
  destruct (late_step_enabled _ _ _ E) as (ra&RA&LA).
  assert (BA : begun (r_pc ra) = true).
  { destruct (begun (r_pc ra)) eqn:B; auto. destruct (Flags_run st0 s1 HF _ _ RA B). congruence. }
  destruct (frozen_step _ _ _ _ _ _ _ _ E RA BA) as (rb&RB&BB&_&LB&_).
  destruct (thread_run (fun x => begun (r_pc x) = true /\ r_late x = true) i) with (s := s2) (st := s) (r := rb) as (r2&R2&B2&L2); auto.
  { intros ? ? ? ? HS HR0 (B0&L0). destruct (frozen_step _ _ _ _ _ _ _ _ HS HR0 B0) as (r3&?&?&?&?&?); eexists; split; eauto; split; congruence. }
  { split; congruence. }
  fold sf in R2. unfold rat in *. rewrite HR in R2; inversion R2; subst. congruence.
Qed.
End P.
