(* C13, size clause, over an abstract size function.  The model's reply (Model/Serve.response) is the
   message as handed to writeAndLog: its OPT record - with the echoed client-subnet option - is
   already part of it.  writeAndLog then fits it to the advertised size (request.SizeAndDo, Scrub =
   miekg Msg.Truncate) and writes the result.  Truncate and the packed size are library behaviour,
   entered here as section variables with the contract the handler relies on. *)
From DnsV Require Import Base.Bytes Model.Store Model.LookupV1 Model.LookupV2 Model.Serve.
Open Scope N_scope.

Section Size.
Variable size : response -> N.                    (* length of the packed message *)
Variable truncate : N -> response -> response * bool.   (* fitted message, TC *)
Hypothesis truncate_fits : forall n r, 512 <= n -> size (fst (truncate n r)) <= n.
Hypothesis truncate_id : forall n r, size r <= n -> truncate n r = (r, false).
Hypothesis truncate_tc : forall n r, fst (truncate n r) <> r -> snd (truncate n r) = true.

Definition limit (advertised : option N) : N :=
  match advertised with Some s => N.max 512 s | None => 512 end.

(* what goes on the wire for a reply of the model *)
Definition written (advertised : option N) (r : response) : response * bool := truncate (limit advertised) r.

Lemma limit_ge : forall a, 512 <= limit a.
Proof. intros [s|]; unfold limit; [apply N.le_max_l | apply N.le_refl]. Qed.

(* whatever serve replies - OPT and client-subnet echo included, since they are part of the reply
   before it is fitted - is written within max(512, advertised size); it is written unchanged when
   it fits, and TC is set whenever it was changed *)
Theorem written_fits : forall b st q locr ecs max adv r,
  serve b st q locr ecs max = OReply r ->
  size (fst (written adv r)) <= limit adv /\
  (size r <= limit adv -> written adv r = (r, false)) /\
  (fst (written adv r) <> r -> snd (written adv r) = true).
Proof.
  intros b st q locr ecs max adv r _. unfold written. split; [apply truncate_fits, limit_ge|].
  split; [apply truncate_id | apply truncate_tc].
Qed.
End Size.
